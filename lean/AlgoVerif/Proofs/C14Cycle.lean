import AlgoVerif.Proofs.C14Paths
/-!
# C14 proofs — `DirectedCycle`

Ghost state: the recursion stack `stk` (current vertex first).  While no cycle has been found:
`onStack` is exactly `stk`, consecutive stack entries are linked by `edgeTo` and an arc, and the finished
vertices (visited, not on the stack) carry a rank that strictly decreases along every arc (`DoneOK`) — so
if the search ends without a cycle the graph is acyclic.  When an arc into a stack vertex is met, the
`edgeTo` chain from the current vertex down to it closes a genuine cycle.
-/
namespace AlgoVerif.C14

/-- finished: visited and not on the recursion stack -/
def Done (c : DC) (x : Nat) : Prop := Vis c.visited x ∧ ¬ Vis c.onStack x

/-- consecutive stack entries (top first): `edgeTo[x] = y` and `y → x` is an arc -/
inductive Linked (g : Graph) (et : Array Nat) : List Nat → Prop
  | nil : Linked g et []
  | single (x : Nat) : Linked g et [x]
  | cons {x y : Nat} {r : List Nat} : et[x]? = some y → g.HasArc y x → Linked g et (y :: r) →
      Linked g et (x :: y :: r)

/-- finished vertices are ranked so that every arc out of a finished vertex leads to a finished vertex of
smaller rank -/
def DoneOK (g : Graph) (c : DC) : Prop :=
  ∃ (rank : Nat → Nat) (K : Nat), (∀ x, Done c x → rank x < K) ∧
    ∀ x, Done c x → ∀ y, g.HasArc x y → Done c y ∧ rank y < rank x

structure DCInv (g : Graph) (c : DC) (stk : List Nat) : Prop where
  vsize : c.visited.size = g.n
  esize : c.edgeTo.size = g.n
  osize : c.onStack.size = g.n
  nocyc : c.cycle = none
  ons : ∀ x, Vis c.onStack x ↔ x ∈ stk
  vis : ∀ x ∈ stk, Vis c.visited x
  linked : Linked g c.edgeTo stk
  done : DoneOK g c

structure DCSizes (g : Graph) (c : DC) : Prop where
  vsize : c.visited.size = g.n
  esize : c.edgeTo.size = g.n
  osize : c.onStack.size = g.n

theorem DCInv.sizes {g : Graph} {c : DC} {stk : List Nat} (h : DCInv g c stk) : DCSizes g c :=
  ⟨h.vsize, h.esize, h.osize⟩

/-- a genuine cycle has been recorded -/
def HasCyc (g : Graph) (c : DC) : Prop := ∃ cyc, c.cycle = some cyc ∧ IsCycle g.HasArc cyc

/-- relation between the state `c` at some point and a later state `c'` in which still no cycle is known -/
structure DCStep (g : Graph) (c c' : DC) (stk : List Nat) : Prop where
  inv : DCInv g c' stk
  grows : ∀ x, Vis c.visited x → Vis c'.visited x
  frame : ∀ x, Vis c.visited x → c'.edgeTo[x]? = c.edgeTo[x]?
  cnt : cntF c'.visited ≤ cntF c.visited

theorem Linked.congr {g : Graph} {et et' : Array Nat} {l : List Nat} (h : Linked g et l)
    (he : ∀ x ∈ l, et'[x]? = et[x]?) : Linked g et' l := by
  induction h with
  | nil => exact .nil
  | single x => exact .single x
  | cons h1 h2 _ ih =>
    exact .cons (by rw [he _ (by simp)]; exact h1) h2 (ih (fun x hx => he x (by simp [hx])))

/-- the `edgeTo` chain from the top of a linked stack down to a stack member `w` -/
theorem dcChain_linked {g : Graph} {et : Array Nat} (w : Nat) :
    ∀ (l : List Nat) (x : Nat), Linked g et (x :: l) → w ∈ x :: l → ∀ fuel acc, l.length < fuel →
      ∃ seg, dcChain et w fuel x acc = .ok (seg ++ acc) ∧ WalkFromTo g.HasArc w x (w :: seg) := by
  intro l
  induction l with
  | nil =>
    intro x _ hw fuel acc hf
    have : w = x := by simpa using hw
    subst this
    cases fuel with
    | zero => omega
    | succ fuel => exact ⟨[], by simp [dcChain], WalkFromTo.single _ _⟩
  | cons y r ih =>
    intro x hl hw fuel acc hf
    cases fuel with
    | zero => omega
    | succ fuel =>
      by_cases hxw : x = w
      · subst hxw
        exact ⟨[], by simp [dcChain], WalkFromTo.single _ _⟩
      · cases hl with
        | cons h1 h2 h3 =>
          have hw' : w ∈ y :: r := by
            rcases List.mem_cons.1 hw with h | h
            · exact absurd h.symm hxw
            · exact h
          obtain ⟨seg, k1, k2⟩ := ih y h3 hw' fuel (x :: acc) (by simp at hf; omega)
          refine ⟨seg ++ [x], ?_, ?_⟩
          · simp only [dcChain, hxw, if_false, h1]
            rw [k1]; simp
          · have := k2.snoc h2
            simpa using this

theorem isCycle_of_walk {E : Nat → Nat → Prop} {v w : Nat} {seg : List Nat} (e : E v w)
    (h : WalkFromTo E w v (w :: seg)) : IsCycle E (v :: w :: seg) := by
  obtain ⟨_, h2, h3⟩ := h
  refine ⟨by simp, ?_, ⟨e, h3⟩⟩
  rw [List.getLast?_cons_cons, h2]; simp

/-- once a cycle is recorded the adjacency loop does nothing more -/
theorem dcLoop_cyc (rec : Nat → DC → Outcome DC) (v : Nat) (c : DC) (h : c.cycle.isSome = true) :
    ∀ rest, ∃ b, dcLoop rec v rest c = .ok (c, b) := by
  intro rest
  cases rest with
  | nil => exact ⟨true, rfl⟩
  | cons x rest => exact ⟨false, by simp [dcLoop, h]⟩

section

variable {g : Graph} (hg : g.WF)
include hg

/-- the adjacency loop of `v` (stack `v :: stk`), given the specification of the recursive calls -/
theorem dcLoop_spec (fuel : Nat) (v : Nat) (stk : List Nat) (c0 : DC)
    (hlen : (v :: stk).length + fuel ≤ g.n + 1)
    (ih : ∀ w c stk', DCInv g c stk' → c.visited[w]? = some false →
        (stk' = [] ∨ ∃ p r, stk' = p :: r ∧ c.edgeTo[w]? = some p ∧ g.HasArc p w) →
        cntF c.visited ≤ fuel → stk'.length + fuel ≤ g.n + 1 →
        ∃ c', dcDfs g fuel w c = .ok c' ∧ DCSizes g c' ∧
          (HasCyc g c' ∨ (DCStep g c c' stk' ∧ Done c' w ∧ cntF c'.visited < cntF c.visited))) :
    ∀ rest done cur, g.adj.getD v [] = done ++ rest → DCStep g c0 cur (v :: stk) →
      cntF cur.visited ≤ fuel → (∀ x ∈ done, Done cur x.to) →
      ∃ cur' b, dcLoop (dcDfs g fuel) v rest cur = .ok (cur', b) ∧ DCSizes g cur' ∧
        (HasCyc g cur' ∨ (b = true ∧ DCStep g c0 cur' (v :: stk) ∧ ∀ x ∈ g.adj.getD v [], Done cur' x.to)) := by
  intro rest
  induction rest with
  | nil =>
    intro done cur hadj hstep _ hdone
    refine ⟨cur, true, rfl, hstep.inv.sizes, Or.inr ⟨rfl, hstep, ?_⟩⟩
    intro x hx; rw [hadj] at hx; exact hdone x (by simpa using hx)
  | cons x rest ihr =>
    intro done cur hadj hstep hcnt hdone
    have hinv := hstep.inv
    have hxmem : x ∈ g.adj.getD v [] := by rw [hadj]; simp
    have hxn : x.to < g.n := hg.bound v x hxmem
    have harc : g.HasArc v x.to := Graph.HasArc.of_mem hxmem
    have hadj' : g.adj.getD v [] = (done ++ [x]) ++ rest := by rw [hadj]; simp
    have hnone : cur.cycle.isSome = false := by rw [hinv.nocyc]; rfl
    have hvstk : Vis cur.visited v := hinv.vis v (by simp)
    rcases vis_or_false (by rw [hinv.vsize]; exact hxn : x.to < cur.visited.size) with hvis | hunv
    · rcases vis_or_false (by rw [hinv.osize]; exact hxn : x.to < cur.onStack.size) with hon | hoff
      · -- arc into the stack: a cycle
        have hmem : x.to ∈ v :: stk := (hinv.ons x.to).1 hon
        obtain ⟨seg, k1, k2⟩ := dcChain_linked (g := g) x.to stk v hinv.linked hmem
          (cur.visited.size + 1) [] (by rw [hinv.vsize]; simp at hlen; omega)
        let cur1 : DC := { cur with cycle := some (v :: x.to :: seg) }
        have hc1 : cur1.cycle.isSome = true := rfl
        obtain ⟨b, hb⟩ := dcLoop_cyc (dcDfs g fuel) v cur1 hc1 rest
        refine ⟨cur1, b, ?_, ⟨hinv.vsize, hinv.esize, hinv.osize⟩,
          Or.inl ⟨_, rfl, isCycle_of_walk harc k2⟩⟩
        unfold dcLoop
        have h1 : cur.visited[x.to]? = some true := hvis
        have h2 : cur.onStack[x.to]? = some true := hon
        simp only [hnone, Bool.false_eq_true, if_false, h1, h2, k1, List.append_nil]
        exact hb
      · -- arc to a finished vertex
        have hd : Done cur x.to := ⟨hvis, not_vis_of_false hoff⟩
        have hdone' : ∀ y ∈ done ++ [x], Done cur y.to := by
          intro y hy
          rcases List.mem_append.1 hy with h | h
          · exact hdone y h
          · have : y = x := by simpa using h
            subst this; exact hd
        obtain ⟨cur', b, k1, k2, k3⟩ := ihr (done ++ [x]) cur hadj' hstep hcnt hdone'
        refine ⟨cur', b, ?_, k2, k3⟩
        unfold dcLoop
        have h1 : cur.visited[x.to]? = some true := hvis
        simp only [hnone, Bool.false_eq_true, if_false, h1, hoff]
        exact k1
    · -- unvisited: record edgeTo, recurse
      let cur1 : DC := { cur with edgeTo := cur.edgeTo.set! x.to v }
      have hframe1 : ∀ y, Vis cur.visited y → cur1.edgeTo[y]? = cur.edgeTo[y]? := by
        intro y hy
        have : x.to ≠ y := by intro e; rw [← e] at hy; exact not_vis_of_false hunv hy
        exact getElem?_set!_ne _ _ this
      have hinv1 : DCInv g cur1 (v :: stk) :=
        { vsize := hinv.vsize
          esize := by show (cur.edgeTo.set! x.to v).size = g.n; rw [size_set!]; exact hinv.esize
          osize := hinv.osize
          nocyc := hinv.nocyc
          ons := hinv.ons
          vis := hinv.vis
          linked := hinv.linked.congr (fun y hy => hframe1 y (hinv.vis y hy))
          done := hinv.done }
      have hpre : (v :: stk) = [] ∨ ∃ p r, (v :: stk) = p :: r ∧ cur1.edgeTo[x.to]? = some p ∧ g.HasArc p x.to :=
        Or.inr ⟨v, stk, rfl, getElem?_set!_self _ _ (by rw [hinv.esize]; exact hxn), harc⟩
      obtain ⟨c2, hd, hsz, hres⟩ := ih x.to cur1 (v :: stk) hinv1 hunv hpre hcnt hlen
      have hrun : dcLoop (dcDfs g fuel) v (x :: rest) cur =
          match dcDfs g fuel x.to cur1 with
          | .ok c' => dcLoop (dcDfs g fuel) v rest c'
          | .panic => .panic
          | .diverge => .diverge := by
        rw [dcLoop]
        have hlt : x.to < cur.edgeTo.size := by rw [hinv.esize]; exact hxn
        simp only [hnone, Bool.false_eq_true, if_false, hunv, hlt, if_true]
        rfl
      rcases hres with hcyc | ⟨hstep2, hdw, hcnt2⟩
      · obtain ⟨cyc, hc, _⟩ := hcyc
        obtain ⟨b, hb⟩ := dcLoop_cyc (dcDfs g fuel) v c2 (by rw [hc]; rfl) rest
        refine ⟨c2, b, ?_, hsz, Or.inl ⟨cyc, hc, by assumption⟩⟩
        rw [hrun, hd]; exact hb
      · have hstep' : DCStep g c0 c2 (v :: stk) :=
          { inv := hstep2.inv
            grows := fun y hy => hstep2.grows y (hstep.grows y hy)
            frame := by
              intro y hy
              rw [hstep2.frame y (hstep.grows y hy), hframe1 y (hstep.grows y hy), hstep.frame y hy]
            cnt := Nat.le_trans hstep2.cnt hstep.cnt }
        have hdone' : ∀ y ∈ done ++ [x], Done c2 y.to := by
          intro y hy
          rcases List.mem_append.1 hy with h | h
          · obtain ⟨h1, h2⟩ := hdone y h
            refine ⟨hstep2.grows _ h1, ?_⟩
            intro h3
            exact h2 ((hinv.ons _).2 ((hstep2.inv.ons _).1 h3))
          · have : y = x := by simpa using h
            subst this; exact hdw
        obtain ⟨cur', b, k1, k2, k3⟩ := ihr (done ++ [x]) c2 hadj' hstep'
          (Nat.le_trans hstep2.cnt hcnt) hdone'
        refine ⟨cur', b, ?_, k2, k3⟩
        rw [hrun, hd]; exact k1

/-- `DirectedCycle.dfs(g, v)` -/
theorem dcDfs_spec :
    ∀ fuel v c stk, DCInv g c stk → c.visited[v]? = some false →
      (stk = [] ∨ ∃ p r, stk = p :: r ∧ c.edgeTo[v]? = some p ∧ g.HasArc p v) →
      cntF c.visited ≤ fuel → stk.length + fuel ≤ g.n + 1 →
      ∃ c', dcDfs g fuel v c = .ok c' ∧ DCSizes g c' ∧
        (HasCyc g c' ∨ (DCStep g c c' stk ∧ Done c' v ∧ cntF c'.visited < cntF c.visited)) := by
  intro fuel
  induction fuel with
  | zero =>
    intro v c stk _ hunv _ hc _
    exfalso
    have := cntF_set hunv
    omega
  | succ fuel ih =>
    intro v c stk hinv hunv hpre hc hlen
    have hvlt : v < c.visited.size := by
      by_cases hx : v < c.visited.size
      · exact hx
      · simp [Array.getElem?_eq_none (Nat.le_of_not_lt hx)] at hunv
    have hvn : v < g.n := hinv.vsize ▸ hvlt
    have hvo : v < c.onStack.size := by rw [hinv.osize]; exact hvn
    have hnv : ¬ Vis c.visited v := not_vis_of_false hunv
    have hvstk : v ∉ stk := fun h => hnv (hinv.vis v h)
    have hoff : ¬ Vis c.onStack v := fun h => hvstk ((hinv.ons v).1 h)
    let c0 : DC := { c with onStack := c.onStack.set! v true, visited := c.visited.set! v true }
    -- finished vertices are the same in c and c0
    have hdone_iff : ∀ x, Done c0 x ↔ Done c x := by
      intro x
      unfold Done
      show (Vis (c.visited.set! v true) x ∧ ¬ Vis (c.onStack.set! v true) x) ↔ _
      rw [vis_set, vis_set]
      constructor
      · rintro ⟨h1 | h1, h2⟩
        · exact absurd (Or.inl ⟨h1.1, hvo⟩) h2
        · exact ⟨h1, fun h => h2 (Or.inr h)⟩
      · rintro ⟨h1, h2⟩
        refine ⟨Or.inr h1, ?_⟩
        rintro (⟨rfl, _⟩ | h)
        · exact hnv h1
        · exact h2 h
    have hinv0 : DCInv g c0 (v :: stk) :=
      { vsize := by show (c.visited.set! v true).size = g.n; rw [size_set!]; exact hinv.vsize
        esize := hinv.esize
        osize := by show (c.onStack.set! v true).size = g.n; rw [size_set!]; exact hinv.osize
        nocyc := hinv.nocyc
        ons := by
          intro x
          show Vis (c.onStack.set! v true) x ↔ _
          rw [vis_set, hinv.ons, List.mem_cons]
          constructor
          · rintro (⟨rfl, _⟩ | h)
            · exact Or.inl rfl
            · exact Or.inr h
          · rintro (rfl | h)
            · exact Or.inl ⟨rfl, hvo⟩
            · exact Or.inr h
        vis := by
          intro x hx
          show Vis (c.visited.set! v true) x
          rcases List.mem_cons.1 hx with rfl | h
          · exact vis_set_self hvlt
          · exact vis_set_of_vis (hinv.vis x h)
        linked := by
          rcases hpre with rfl | ⟨p, r, rfl, h1, h2⟩
          · exact .single v
          · exact .cons h1 h2 hinv.linked
        done := by
          obtain ⟨rank, K, h1, h2⟩ := hinv.done
          refine ⟨rank, K, fun x hx => h1 x ((hdone_iff x).1 hx), ?_⟩
          intro x hx y hy
          have := h2 x ((hdone_iff x).1 hx) y hy
          exact ⟨(hdone_iff y).2 this.1, this.2⟩ }
    have hstep0 : DCStep g c0 c0 (v :: stk) := ⟨hinv0, fun _ h => h, fun _ _ => rfl, Nat.le_refl _⟩
    have hcnt0 : cntF c0.visited + 1 = cntF c.visited := cntF_set hunv
    obtain ⟨cur', b, k1, k2, k3⟩ :=
      dcLoop_spec hg fuel v stk c0 (by simp at hlen ⊢; omega) ih (g.adj.getD v []) [] c0 (by simp) hstep0
        (by omega) (by simp)
    have hrun : dcDfs g (fuel + 1) v c =
        match dcLoop (dcDfs g fuel) v (g.adj.getD v []) c0 with
        | .ok (c', true) => .ok { c' with onStack := c'.onStack.set! v false }
        | .ok (c', false) => .ok c'
        | .panic => .panic
        | .diverge => .diverge := by
      rw [dcDfs]
      simp only [hvo, hvlt, and_self, if_true, hg.adj_get hvn]
      rfl
    rcases k3 with hcyc | ⟨rfl, hstep, hall⟩
    · -- a cycle was found somewhere below
      obtain ⟨cyc, hc, hic⟩ := hcyc
      cases b with
      | true =>
        refine ⟨{ cur' with onStack := cur'.onStack.set! v false }, by rw [hrun, k1],
          ⟨k2.vsize, k2.esize, by show (cur'.onStack.set! v false).size = g.n; rw [size_set!]; exact k2.osize⟩,
          Or.inl ⟨cyc, hc, hic⟩⟩
      | false =>
        exact ⟨cur', by rw [hrun, k1], k2, Or.inl ⟨cyc, hc, hic⟩⟩
    · -- the loop completed without a cycle: v is finished
      let c' : DC := { cur' with onStack := cur'.onStack.set! v false }
      have hi := hstep.inv
      have hvis' : Vis cur'.visited v := hi.vis v (by simp)
      have hons' : ∀ x, Vis c'.onStack x ↔ x ∈ stk := by
        intro x
        show Vis (cur'.onStack.set! v false) x ↔ _
        unfold Vis
        rw [getElem?_set!]
        by_cases hvx : v = x
        · subst hvx
          have : v < cur'.onStack.size := by rw [hi.osize]; exact hvn
          simp [this, hvstk]
        · simp only [hvx, if_false]
          have := hi.ons x
          unfold Vis at this
          rw [this, List.mem_cons]
          constructor
          · rintro (h | h)
            · exact absurd h.symm hvx
            · exact h
          · exact Or.inr
      have hdone' : ∀ x, Done c' x ↔ (x = v ∨ Done cur' x) := by
        intro x
        unfold Done
        show (Vis cur'.visited x ∧ ¬ Vis c'.onStack x) ↔ _
        rw [hons', hi.ons, List.mem_cons]
        constructor
        · rintro ⟨h1, h2⟩
          by_cases hxv : x = v
          · exact Or.inl hxv
          · exact Or.inr ⟨h1, fun h => h.elim hxv h2⟩
        · rintro (rfl | ⟨h1, h2⟩)
          · exact ⟨hvis', hvstk⟩
          · exact ⟨h1, fun h => h2 (Or.inr h)⟩
      have hnotdone : ¬ Done cur' v := fun h => h.2 ((hi.ons v).2 (by simp))
      have hinv' : DCInv g c' stk :=
        { vsize := hi.vsize
          esize := hi.esize
          osize := by show (cur'.onStack.set! v false).size = g.n; rw [size_set!]; exact hi.osize
          nocyc := hi.nocyc
          ons := hons'
          vis := fun x hx => hi.vis x (by simp [hx])
          linked := by
            cases hi.linked with
            | single _ => exact .nil
            | cons _ _ h => exact h
          done := by
            obtain ⟨rank, K, h1, h2⟩ := hi.done
            refine ⟨fun z => if z = v then K else rank z, K + 1, ?_, ?_⟩
            · intro x hx
              by_cases hxv : x = v
              · simp [hxv]
              · simp only [hxv, if_false]
                rcases (hdone' x).1 hx with h | h
                · exact absurd h hxv
                · have := h1 x h; omega
            · intro x hx y hy
              rcases (hdone' x).1 hx with rfl | hdx
              · -- arcs out of v lead to finished vertices
                obtain ⟨a, ha, rfl⟩ := hy
                have hda := hall a ha
                have hne : a.to ≠ x := fun e => hnotdone (e ▸ hda)
                refine ⟨(hdone' _).2 (Or.inr hda), ?_⟩
                simp only [hne, if_false, if_true]
                exact h1 _ hda
              · have := h2 x hdx y hy
                have hyv : y ≠ v := fun e => hnotdone (e ▸ this.1)
                have hxv : x ≠ v := fun e => hnotdone (e ▸ hdx)
                refine ⟨(hdone' y).2 (Or.inr this.1), ?_⟩
                simp only [hyv, hxv, if_false]
                exact this.2 }
      refine ⟨c', by rw [hrun, k1], hinv'.sizes, Or.inr ⟨?_, (hdone' v).2 (Or.inl rfl), ?_⟩⟩
      · exact
          { inv := hinv'
            grows := fun x hx => hstep.grows x (vis_set_of_vis hx)
            frame := fun x hx => hstep.frame x (vis_set_of_vis hx)
            cnt := by have := hstep.cnt; show cntF cur'.visited ≤ _; omega }
      · have := hstep.cnt; show cntF cur'.visited < _; omega

end

end AlgoVerif.C14

namespace AlgoVerif.C14

theorem dcOuter_cyc (g : Graph) (c : DC) (h : c.cycle.isSome = true) (hs : DCSizes g c) :
    ∀ vs, (∀ v ∈ vs, v < g.n) → dcOuter g vs c = .ok c := by
  intro vs
  induction vs with
  | nil => intro _; rfl
  | cons v vs ih =>
    intro hvs
    have hv : v < c.visited.size := by rw [hs.vsize]; exact hvs v (by simp)
    have ih' := ih (fun w hw => hvs w (by simp [hw]))
    rcases vis_or_false hv with h1 | h1
    · have : c.visited[v]? = some true := h1
      simp [dcOuter, this, ih']
    · simp [dcOuter, h1, h, ih']

theorem dcOuter_spec {g : Graph} (hg : g.WF) :
    ∀ vs, (∀ v ∈ vs, v < g.n) → ∀ c, DCInv g c [] →
      ∃ c', dcOuter g vs c = .ok c' ∧ DCSizes g c' ∧
        (HasCyc g c' ∨ (DCInv g c' [] ∧ (∀ x, Vis c.visited x → Vis c'.visited x) ∧
          ∀ v ∈ vs, Vis c'.visited v)) := by
  intro vs
  induction vs with
  | nil =>
    intro _ c hinv
    exact ⟨c, rfl, hinv.sizes, Or.inr ⟨hinv, fun _ h => h, by simp⟩⟩
  | cons v vs ih =>
    intro hvs c hinv
    have hvn : v < g.n := hvs v (by simp)
    have hvs' : ∀ w ∈ vs, w < g.n := fun w hw => hvs w (by simp [hw])
    have hv : v < c.visited.size := by rw [hinv.vsize]; exact hvn
    have hnone : c.cycle.isSome = false := by rw [hinv.nocyc]; rfl
    rcases vis_or_false hv with h1 | h1
    · obtain ⟨c', k1, k2, k3⟩ := ih hvs' c hinv
      refine ⟨c', ?_, k2, ?_⟩
      · have : c.visited[v]? = some true := h1
        simp only [dcOuter, this]; exact k1
      · rcases k3 with h | ⟨a, b, d⟩
        · exact Or.inl h
        · refine Or.inr ⟨a, b, ?_⟩
          intro w hw
          rcases List.mem_cons.1 hw with rfl | h
          · exact b _ h1
          · exact d w h
    · have hcnt : cntF c.visited ≤ g.n + 1 := by
        have := cntF_le_size c.visited
        rw [hinv.vsize] at this; omega
      obtain ⟨c1, hd, hsz, hres⟩ := dcDfs_spec hg (g.n + 1) v c [] hinv h1 (Or.inl rfl) hcnt (by simp)
      have hrun : dcOuter g (v :: vs) c = dcOuter g vs c1 := by
        simp only [dcOuter, h1, hnone, Bool.false_eq_true, if_false, hd]
      rcases hres with hcyc | ⟨hstep, hdv, _⟩
      · obtain ⟨cyc, hc, hic⟩ := hcyc
        refine ⟨c1, ?_, hsz, Or.inl ⟨cyc, hc, hic⟩⟩
        rw [hrun]
        exact dcOuter_cyc g c1 (by rw [hc]; rfl) hsz vs hvs'
      · obtain ⟨c', k1, k2, k3⟩ := ih hvs' c1 hstep.inv
        refine ⟨c', by rw [hrun]; exact k1, k2, ?_⟩
        rcases k3 with h | ⟨a, b, d⟩
        · exact Or.inl h
        · refine Or.inr ⟨a, fun x hx => b x (hstep.grows x hx), ?_⟩
          intro w hw
          rcases List.mem_cons.1 hw with rfl | h
          · exact b _ hdv.1
          · exact d w h

theorem not_acyclic_of_cycle {E : Nat → Nat → Prop} {cyc : List Nat} (h : IsCycle E cyc) : ¬ Acyclic E := by
  obtain ⟨hlen, hhl, hw⟩ := h
  match cyc, hlen, hhl, hw with
  | a :: b :: rest, _, hhl, hw =>
    intro hac
    simp only [IsWalk] at hw
    have hl : (b :: rest).getLast? = some a := by
      rw [List.getLast?_cons_cons] at hhl
      simpa using hhl.symm
    have : WalkFromTo E b a (b :: rest) := ⟨by simp, hl, hw.2⟩
    exact hac a b hw.1 this.reach

theorem acyclic_of_doneOK {g : Graph} (hg : g.WF) {c : DC} (hd : DoneOK g c)
    (hall : ∀ x, x < g.n → Done c x) : Acyclic g.HasArc := by
  obtain ⟨rank, K, _, h2⟩ := hd
  have hsrc : ∀ u v, g.HasArc u v → u < g.n := fun u v h => hg.src_lt h
  intro u v e hr
  have hu := hsrc u v e
  have h1 := (h2 u (hall u hu) v e).2
  have : ∀ a b, Reach g.HasArc a b → a < g.n → b < g.n ∧ rank b ≤ rank a := by
    intro a b hab ha
    induction hab with
    | refl => exact ⟨ha, Nat.le_refl _⟩
    | @tail p q _ e' ih =>
      have := (h2 p (hall p ih.1) q e').2
      exact ⟨hg.arc_lt e', by omega⟩
  have := (this v u hr (hg.arc_lt e)).2
  omega

/-- **DirectedCycle**: always returns; a reported cycle is genuine; none is reported iff the graph is acyclic -/
theorem directedCycle_spec {g : Graph} (hg : g.WF) :
    ∃ c, g.directedCycle = .ok c ∧
      (∀ cyc, c.cycleList = some cyc → IsCycle g.HasArc cyc) ∧
      (c.cycleList = none ↔ Acyclic g.HasArc) := by
  let c0 : DC := { visited := Array.replicate g.n false, edgeTo := Array.replicate g.n 0,
                   onStack := Array.replicate g.n false }
  have hinv0 : DCInv g c0 [] :=
    { vsize := by simp [c0]
      esize := by simp [c0]
      osize := by simp [c0]
      nocyc := rfl
      ons := by intro x; simp only [List.not_mem_nil, iff_false]; exact vis_replicate_false
      vis := by simp
      linked := .nil
      done := ⟨fun _ => 0, 1, fun _ _ => by simp, fun x hx => absurd hx.1 vis_replicate_false⟩ }
  obtain ⟨c, h1, _, h3⟩ := dcOuter_spec hg (List.range g.n) (fun v hv => List.mem_range.1 hv) c0 hinv0
  refine ⟨c, h1, ?_, ?_⟩
  · intro cyc hc
    rcases h3 with ⟨cyc', h, hic⟩ | ⟨hinv, _, _⟩
    · have : cyc' = cyc := by
        unfold DC.cycleList at hc; rw [h] at hc; exact Option.some.inj hc
      exact this ▸ hic
    · unfold DC.cycleList at hc; rw [hinv.nocyc] at hc; simp at hc
  · rcases h3 with ⟨cyc', h, hic⟩ | ⟨hinv, _, hall⟩
    · constructor
      · intro hn; unfold DC.cycleList at hn; rw [h] at hn; simp at hn
      · intro hac; exact absurd hac (not_acyclic_of_cycle hic)
    · constructor
      · intro _
        apply acyclic_of_doneOK hg hinv.done
        intro x hx
        refine ⟨hall x (List.mem_range.2 hx), ?_⟩
        intro h; have := (hinv.ons x).1 h; simp at this
      · intro _; exact hinv.nocyc

end AlgoVerif.C14
