import AlgoVerif.Proofs.C05BinomialTotal
import AlgoVerif.Proofs.C05Hole
/-!
# C05 helper lemmas: heap order of the indexed binomial heap Model

`BT.pairs t` = all (parent id, child id) pairs of the forest; heap order `HO` = every pair is ordered by the
keys found in `cells`.  The content swaps of `promote/demote/DeleteIndex` act on the key function as the
transposition `Hole.tr`, exactly as `swap` of positions does in the binary heap.
-/
namespace AlgoVerif.C05
open AlgoVerif.C05.Hole

namespace BT

def pairs : BT → List (Nat × Nat)
  | nil => []
  | node id _ c s => (chainIds c).map (fun y => (id, y)) ++ (pairs c ++ pairs s)

theorem mem_pairs_node {id : Nat} {o : Int} {c s : BT} {a b : Nat} :
    (a, b) ∈ pairs (node id o c s) ↔ (a = id ∧ b ∈ chainIds c) ∨ (a, b) ∈ pairs c ∨ (a, b) ∈ pairs s := by
  simp only [pairs, List.mem_append, List.mem_map, Prod.mk.injEq]
  constructor
  · rintro (⟨y, hy, rfl, rfl⟩ | h | h)
    · exact Or.inl ⟨rfl, hy⟩
    · exact Or.inr (Or.inl h)
    · exact Or.inr (Or.inr h)
  · rintro (⟨rfl, hb⟩ | h | h)
    · exact Or.inl ⟨b, hb, rfl, rfl⟩
    · exact Or.inr (Or.inl h)
    · exact Or.inr (Or.inr h)

theorem pairs_mem_ids : ∀ (t : BT) (a b : Nat), (a, b) ∈ pairs t → a ∈ ids t ∧ b ∈ ids t
  | nil, _, _, h => by simp [pairs] at h
  | node id o c s, a, b, h => by
    simp only [ids, List.mem_cons, List.mem_append]
    rcases mem_pairs_node.mp h with ⟨rfl, hb⟩ | h | h
    · exact ⟨Or.inl rfl, Or.inr (Or.inl (chainIds_sub c b hb))⟩
    · have := pairs_mem_ids c a b h
      exact ⟨Or.inr (Or.inl this.1), Or.inr (Or.inl this.2)⟩
    · have := pairs_mem_ids s a b h
      exact ⟨Or.inr (Or.inr this.1), Or.inr (Or.inr this.2)⟩

theorem nodup_node {id : Nat} {o : Int} {c s : BT} (h : (ids (node id o c s)).Nodup) :
    id ∉ ids c ∧ id ∉ ids s ∧ (ids c).Nodup ∧ (ids s).Nodup ∧ ∀ x, x ∈ ids c → x ∉ ids s := by
  simp only [ids, List.nodup_cons, List.mem_append, not_or] at h
  obtain ⟨⟨h1, h2⟩, h3⟩ := h
  have := List.nodup_append.mp h3
  exact ⟨h1, h2, this.1, this.2.1, fun x hx hs => this.2.2 x hx x hs rfl⟩

theorem root_no_parent : ∀ (t : BT), (ids t).Nodup → ∀ x b, x ∈ chainIds t → (b, x) ∉ pairs t
  | nil, _, _, _, h => by simp [chainIds] at h
  | node id o c s, hnd, x, b, hx => by
    obtain ⟨h1, h2, h3, h4, h5⟩ := nodup_node hnd
    intro hp
    simp only [chainIds, List.mem_cons] at hx
    rcases mem_pairs_node.mp hp with ⟨_, hb⟩ | hp1 | hp2
    · have hxc := chainIds_sub c x hb
      rcases hx with hx | hx
      · exact h1 (hx ▸ hxc)
      · exact h5 x hxc (chainIds_sub s x hx)
    · have hxc := (pairs_mem_ids c b x hp1).2
      rcases hx with hx | hx
      · exact h1 (hx ▸ hxc)
      · exact h5 x hxc (chainIds_sub s x hx)
    · rcases hx with hx | hx
      · exact h2 (hx ▸ (pairs_mem_ids s b x hp2).2)
      · exact root_no_parent s h4 x b hx hp2

theorem parent_unique : ∀ (t : BT), (ids t).Nodup → ∀ a b x, (a, x) ∈ pairs t → (b, x) ∈ pairs t → a = b
  | nil, _, _, _, _, h, _ => by simp [pairs] at h
  | node id o c s, hnd, a, b, x, ha, hb => by
    obtain ⟨h1, h2, h3, h4, h5⟩ := nodup_node hnd
    rcases mem_pairs_node.mp ha with ⟨ea, hxa⟩ | ha1 | ha2 <;>
      rcases mem_pairs_node.mp hb with ⟨eb, hxb⟩ | hb1 | hb2
    · rw [ea, eb]
    · exact absurd hb1 (root_no_parent c h3 x b hxa)
    · exact absurd (pairs_mem_ids s b x hb2).2 (h5 x (chainIds_sub c x hxa))
    · exact absurd ha1 (root_no_parent c h3 x a hxb)
    · exact parent_unique c h3 a b x ha1 hb1
    · exact absurd (pairs_mem_ids s b x hb2).2 (h5 x (pairs_mem_ids c a x ha1).2)
    · exact absurd (pairs_mem_ids s a x ha2).2 (h5 x (chainIds_sub c x hxb))
    · exact absurd (pairs_mem_ids s a x ha2).2 (h5 x (pairs_mem_ids c b x hb1).2)
    · exact parent_unique s h4 a b x ha2 hb2

theorem no_two_cycle : ∀ (t : BT), (ids t).Nodup → ∀ a b, (a, b) ∈ pairs t → (b, a) ∉ pairs t
  | nil, _, _, _, h => by simp [pairs] at h
  | node id o c s, hnd, a, b, hab => by
    obtain ⟨h1, h2, h3, h4, h5⟩ := nodup_node hnd
    intro hba
    rcases mem_pairs_node.mp hab with ⟨ea, hb⟩ | hab1 | hab2 <;>
      rcases mem_pairs_node.mp hba with ⟨eb, ha⟩ | hba1 | hba2
    · exact h1 (eb ▸ chainIds_sub c _ hb)
    · exact h1 (ea ▸ (pairs_mem_ids c b a hba1).2)
    · exact h5 b (chainIds_sub c b hb) (pairs_mem_ids s b a hba2).1
    · exact h1 (eb ▸ (pairs_mem_ids c a b hab1).2)
    · exact no_two_cycle c h3 a b hab1 hba1
    · exact h5 a (pairs_mem_ids c a b hab1).1 (pairs_mem_ids s b a hba2).2
    · exact h2 (eb ▸ (pairs_mem_ids s a b hab2).2)
    · exact h5 a (pairs_mem_ids c b a hba1).2 (pairs_mem_ids s a b hab2).1
    · exact no_two_cycle s h4 a b hab2 hba2

theorem pair_irrefl (t : BT) (hnd : (ids t).Nodup) (a : Nat) : (a, a) ∉ pairs t :=
  fun h => no_two_cycle t hnd a a h h

/-- `l = [parent of x, its parent, …]` -/
def Path (t : BT) : Nat → List Nat → Prop
  | _, [] => True
  | x, p :: ps => (p, x) ∈ pairs t ∧ Path t p ps

theorem Path.mono {t t' : BT} (hsub : ∀ p, p ∈ pairs t → p ∈ pairs t') : ∀ (l : List Nat) (x : Nat),
    Path t x l → Path t' x l
  | [], _, _ => trivial
  | p :: ps, x, h => ⟨hsub _ h.1, Path.mono hsub ps p h.2⟩

theorem Path.snoc {t : BT} : ∀ (l : List Nat) (x q : Nat), Path t x l → (q, l.getLast?.getD x) ∈ pairs t →
    Path t x (l ++ [q])
  | [], x, q, _, hq => by simpa [Path] using hq
  | [p], x, q, h, hq => by
    simp only [List.getLast?, Option.getD] at hq
    exact ⟨h.1, hq, trivial⟩
  | p :: p' :: ps, x, q, h, hq => by
    refine ⟨h.1, Path.snoc (p' :: ps) p q h.2 ?_⟩
    simpa [List.getLast?] using hq

theorem ancestors_path (target : Nat) : ∀ (t : BT) (par l : List Nat), ancestors target t par = some l →
    ∃ l0, l = l0 ++ par ∧ Path t target l0 ∧ (l0.getLast?.getD target) ∈ chainIds t
  | nil, _, _, h => by simp [ancestors] at h
  | node id o c s, par, l, h => by
    simp only [ancestors] at h
    split at h
    · rename_i hid
      cases h
      exact ⟨[], rfl, trivial, by simp [chainIds, hid]⟩
    · split at h
      · rename_i r hr
        cases h
        obtain ⟨l0, hl0, hpath, hroot⟩ := ancestors_path target c (id :: par) _ hr
        refine ⟨l0 ++ [id], by rw [hl0]; simp, ?_, by simp [chainIds]⟩
        apply Path.snoc
        · exact Path.mono (fun p hp => by
            obtain ⟨a, b⟩ := p
            exact mem_pairs_node.mpr (Or.inr (Or.inl hp))) l0 target hpath
        · exact mem_pairs_node.mpr (Or.inl ⟨rfl, hroot⟩)
      · obtain ⟨l0, hl0, hpath, hmem⟩ := ancestors_path target s par l h
        refine ⟨l0, hl0, ?_, by simp only [chainIds, List.mem_cons]; exact Or.inr hmem⟩
        exact Path.mono (fun p hp => by
          obtain ⟨a, b⟩ := p
          exact mem_pairs_node.mpr (Or.inr (Or.inr hp))) l0 target hpath

/-! children -/

theorem childrenOf_none (target : Nat) : ∀ (t : BT), target ∉ ids t → childrenOf target t = none
  | nil, _ => rfl
  | node id o c s, h => by
    simp only [ids, List.mem_cons, List.mem_append, not_or] at h
    simp only [childrenOf]
    rw [if_neg (fun e => h.1 e.symm), childrenOf_none target c h.2.1]
    exact childrenOf_none target s h.2.2

theorem childrenOf_of_chainChild (target : Nat) : ∀ (t ch : BT), (ids t).Nodup → chainChild target t = some ch →
    childrenOf target t = some ch
  | nil, _, _, h => by simp [chainChild] at h
  | node id o c s, ch, hnd, h => by
    obtain ⟨h1, h2, h3, h4, h5⟩ := nodup_node hnd
    simp only [chainChild] at h
    simp only [childrenOf]
    split at h
    · rename_i hid; rw [if_pos hid]; exact h
    · rename_i hid
      rw [if_neg hid]
      have hs := childrenOf_of_chainChild target s ch h4 h
      have hmem : target ∈ ids s := by
        by_cases hm : target ∈ ids s
        · exact hm
        · rw [childrenOf_none target s hm] at hs; cases hs
      have : target ∉ ids c := fun hc => h5 target hc hmem
      rw [childrenOf_none target c this]
      exact hs

theorem childrenOf_mem (target : Nat) : ∀ (t ch : BT), childrenOf target t = some ch → target ∈ ids t
  | nil, _, h => by simp [childrenOf] at h
  | node id o c s, ch, h => by
    by_cases hm : target ∈ ids (node id o c s)
    · exact hm
    · rw [childrenOf_none target _ hm] at h; cases h

/-- the children of `n` are the nodes `c` with `(n, c) ∈ pairs` -/
theorem childrenOf_pairs (n : Nat) : ∀ (t ch : BT), (ids t).Nodup → childrenOf n t = some ch →
    ∀ c, (n, c) ∈ pairs t ↔ c ∈ chainIds ch
  | nil, _, _, h => by simp [childrenOf] at h
  | node id o cc s, ch, hnd, h => by
    obtain ⟨h1, h2, h3, h4, h5⟩ := nodup_node hnd
    intro c
    simp only [childrenOf] at h
    rw [mem_pairs_node]
    split at h
    · rename_i hid
      cases h
      subst hid
      constructor
      · rintro (⟨_, hc⟩ | hp | hp)
        · exact hc
        · exact absurd (pairs_mem_ids _ _ _ hp).1 h1
        · exact absurd (pairs_mem_ids _ _ _ hp).1 h2
      · intro hc; exact Or.inl ⟨rfl, hc⟩
    · rename_i hid
      split at h
      · rename_i r hr
        cases h
        have hmem := childrenOf_mem n cc _ hr
        rw [← childrenOf_pairs n cc _ h3 hr c]
        constructor
        · rintro (⟨hn, _⟩ | hp | hp)
          · exact absurd hn.symm hid
          · exact hp
          · exact absurd (pairs_mem_ids _ _ _ hp).1 (h5 n hmem)
        · intro hp; exact Or.inr (Or.inl hp)
      · have hmem := childrenOf_mem n s _ h
        rw [← childrenOf_pairs n s _ h4 h c]
        constructor
        · rintro (⟨hn, _⟩ | hp | hp)
          · exact absurd hn.symm hid
          · exact absurd hmem (h5 n (pairs_mem_ids _ _ _ hp).1)
          · exact hp
        · intro hp; exact Or.inr (Or.inr hp)

/-- `child.child` of a child found in `n.child`'s chain is `childrenOf child` of the whole forest -/
theorem childrenOf_chainChild (n c : Nat) : ∀ (t ch ch' : BT), (ids t).Nodup → childrenOf n t = some ch →
    chainChild c ch = some ch' → childrenOf c t = some ch'
  | nil, _, _, _, h, _ => by simp [childrenOf] at h
  | node id o cc s, ch, ch', hnd, h, hcc => by
    obtain ⟨h1, h2, h3, h4, h5⟩ := nodup_node hnd
    simp only [childrenOf] at h
    split at h
    · rename_i hid
      cases h
      -- c is a child of this node
      have hc := childrenOf_of_chainChild c cc ch' h3 hcc
      have hmem := childrenOf_mem c cc _ hc
      simp only [childrenOf]
      rw [if_neg (fun (e : id = c) => h1 (e ▸ hmem)), hc]
    · split at h
      · rename_i r hr
        cases h
        have hc := childrenOf_chainChild n c cc ch ch' h3 hr hcc
        have hmem := childrenOf_mem c cc _ hc
        simp only [childrenOf]
        rw [if_neg (fun (e : id = c) => h1 (e ▸ hmem)), hc]
      · have hc := childrenOf_chainChild n c s ch ch' h4 h hcc
        have hmem := childrenOf_mem c s _ hc
        simp only [childrenOf]
        rw [if_neg (fun (e : id = c) => h2 (e ▸ hmem)), childrenOf_none c cc (fun hx => h5 c hx hmem)]
        exact hc

/-! the structural routines only regroup pairs -/

theorem merge_pairs : ∀ (fuel : Nat) (a b r : BT), merge fuel a b = .ok r →
    ∀ p, p ∈ pairs r ↔ p ∈ pairs a ∨ p ∈ pairs b
  | 0, _, _, _, h => by simp [merge] at h
  | fuel + 1, nil, b, r, h => by simp [merge] at h; subst h; simp [pairs]
  | fuel + 1, node i1 o1 c1 s1, nil, r, h => by simp [merge] at h; subst h; simp [pairs]
  | fuel + 1, node i1 o1 c1 s1, node i2 o2 c2 s2, r, h => by
    simp only [merge] at h
    intro p
    split at h
    · split at h
      · rename_i r' hr
        cases h
        have ih := merge_pairs fuel _ _ _ hr p
        simp only [pairs, List.mem_append] at ih ⊢
        rw [ih]; grind
      · cases h
      · cases h
    · split at h
      · rename_i r' hr
        cases h
        have ih := merge_pairs fuel _ _ _ hr p
        simp only [pairs, List.mem_append] at ih ⊢
        rw [ih]; grind
      · cases h
      · cases h

theorem revChain_pairs : ∀ (c acc : BT) (p : Nat × Nat), p ∈ pairs (revChain c acc) ↔ p ∈ pairs c ∨ p ∈ pairs acc
  | nil, acc, p => by simp [revChain, pairs]
  | node id o c s, acc, p => by
    simp only [revChain]
    rw [revChain_pairs s (node id o c acc) p]
    simp only [pairs, List.mem_append]
    grind

theorem removeRoot_pairs (target : Nat) : ∀ (t rest ch : BT), removeRoot target t = some (rest, ch) →
    ∀ p, p ∈ pairs t ↔ (p.1 = target ∧ p.2 ∈ chainIds ch) ∨ p ∈ pairs ch ∨ p ∈ pairs rest
  | nil, _, _, h => by simp [removeRoot] at h
  | node id o c s, rest, ch, h => by
    simp only [removeRoot] at h
    intro p
    obtain ⟨a, b⟩ := p
    split at h
    · rename_i hid
      cases h; subst hid
      exact mem_pairs_node
    · split at h
      · rename_i s' ch' hr
        cases h
        have ih := removeRoot_pairs target s s' ch hr (a, b)
        rw [mem_pairs_node, mem_pairs_node, ih]
        grind
      · cases h

end BT

namespace IBinomial
variable {K V : Type} {cmp : K → K → Int}

/-- key of node `id` -/
def kf (h : IBinomial K V) (id : Nat) : Option K := (h.cells[id]?).map (·.key)

theorem keyOf_eq (h : IBinomial K V) (id : Nat) :
    h.keyOf id = match kf h id with | some k => .ok k | none => .panic := by
  unfold keyOf kf
  cases h.cells[id]? <;> rfl

/-- heap order of a forest -/
def HO (cmp : K → K → Int) (f : Nat → Option K) (t : BT) : Prop := ∀ a b, (a, b) ∈ t.pairs → LeP cmp f a b

/-- heap order except for the pairs that involve node `x`; the parent of `x` is before `x`'s children -/
def HoleT (cmp : K → K → Int) (f : Nat → Option K) (t : BT) (x : Nat) : Prop :=
  (∀ a b, (a, b) ∈ t.pairs → a ≠ x → b ≠ x → LeP cmp f a b) ∧
  (∀ p c, (p, x) ∈ t.pairs → (x, c) ∈ t.pairs → LeP cmp f p c)

/-- heap order except for the pairs (`x`, child of `x`) -/
def DownHoleT (cmp : K → K → Int) (f : Nat → Option K) (t : BT) (x : Nat) : Prop :=
  (∀ a b, (a, b) ∈ t.pairs → a ≠ x → LeP cmp f a b) ∧
  (∀ p c, (p, x) ∈ t.pairs → (x, c) ∈ t.pairs → LeP cmp f p c)

def ChildOKT (cmp : K → K → Int) (f : Nat → Option K) (t : BT) (x : Nat) : Prop :=
  ∀ c, (x, c) ∈ t.pairs → LeP cmp f x c

theorem ho_hole (hc : LawfulCmp cmp) {f : Nat → Option K} {t : BT} (h : HO cmp f t) (x : Nat) :
    HoleT cmp f t x :=
  ⟨fun a b hab _ _ => h a b hab, fun p c hp hc' => LeP.trans hc (h p x hp) (h x c hc')⟩

theorem ho_downhole (hc : LawfulCmp cmp) {f : Nat → Option K} {t : BT} (h : HO cmp f t) (x : Nat) :
    DownHoleT cmp f t x :=
  ⟨fun a b hab _ => h a b hab, (ho_hole hc h x).2⟩

theorem downhole_ho {f : Nat → Option K} {t : BT} {x : Nat} (h : DownHoleT cmp f t x)
    (hch : ChildOKT cmp f t x) : HO cmp f t := by
  intro a b hab
  by_cases hax : a = x
  · subst hax; exact hch b hab
  · exact h.1 a b hab hax

/-- `promote` stops at `x`: it has no parent, or its parent is before it -/
theorem holeT_stop {f : Nat → Option K} {t : BT} {x : Nat} (h : HoleT cmp f t x)
    (hp : ∀ p, (p, x) ∈ t.pairs → LeP cmp f p x) : DownHoleT cmp f t x := by
  refine ⟨?_, h.2⟩
  intro a b hab hax
  by_cases hbx : b = x
  · subst hbx; exact hp a hab
  · exact h.1 a b hab hax hbx

/-- one step up: the contents of `x` and its parent `p` are exchanged, `x` was strictly before `p` -/
theorem holeT_up (hc : LawfulCmp cmp) {f g : Nat → Option K} {t : BT} (hnd : t.ids.Nodup) {x p : Nat}
    (hg : ∀ y, g y = f (tr x p y)) (hpx : (p, x) ∈ t.pairs) (h : HoleT cmp f t x) :
    HoleT cmp g t p ∧ (LeP cmp f x p → ChildOKT cmp g t p) := by
  have hxp : x ≠ p := fun e => BT.pair_irrefl t hnd p (e ▸ hpx)
  have gx : g x = f p := by rw [hg, tr_left]
  have gp : g p = f x := by rw [hg, tr_right]
  have gother : ∀ y, y ≠ x → y ≠ p → g y = f y := fun y h1 h2 => by rw [hg, tr_other h1 h2]
  refine ⟨⟨?_, ?_⟩, ?_⟩
  · intro a b hab hap hbp
    by_cases hax : a = x
    · subst hax
      -- (x, b): the old parent's key is before x's children (bridge)
      have hbx : b ≠ a := fun e => BT.pair_irrefl t hnd a (e ▸ hab)
      exact LeP.congr gx (gother b hbx hbp) (h.2 p b hpx hab)
    · by_cases hbx : b = x
      · subst hbx
        exact absurd (BT.parent_unique t hnd a p b hab hpx) hap
      · exact LeP.congr (gother a hax hap) (gother b hbx hbp) (h.1 a b hab hax hbx)
  · intro pp c hpp hpc
    have hppx : pp ≠ x := fun e => BT.no_two_cycle t hnd pp p hpp (e ▸ hpx)
    have hppp : pp ≠ p := fun e => BT.pair_irrefl t hnd p (e ▸ hpp)
    have hq : LeP cmp f pp p := h.1 pp p hpp hppx (fun e => hxp e.symm)
    by_cases hcx : c = x
    · subst hcx
      exact LeP.congr (gother pp hppx hppp) gx hq
    · have hcp : c ≠ p := fun e => BT.pair_irrefl t hnd p (e ▸ hpc)
      have hs : LeP cmp f p c := h.1 p c hpc (fun e => hxp e.symm) hcx
      exact LeP.congr (gother pp hppx hppp) (gother c hcx hcp) (LeP.trans hc hq hs)
  · intro hlt c hpc
    by_cases hcx : c = x
    · subst hcx; exact LeP.congr gp gx hlt
    · have hcp : c ≠ p := fun e => BT.pair_irrefl t hnd p (e ▸ hpc)
      have hs : LeP cmp f p c := h.1 p c hpc (fun e => hxp e.symm) hcx
      exact LeP.congr gp (gother c hcx hcp) (LeP.trans hc hlt hs)

/-- one step down: `c` is the child of `x` that is before all its siblings, and it is before `x` -/
theorem downT_step (hc : LawfulCmp cmp) {f g : Nat → Option K} {t : BT} (hnd : t.ids.Nodup) {x c : Nat}
    (hg : ∀ y, g y = f (tr c x y)) (hxc : (x, c) ∈ t.pairs) (h : DownHoleT cmp f t x)
    (hmin : ∀ s, (x, s) ∈ t.pairs → LeP cmp f c s) (hle : LeP cmp f c x) : DownHoleT cmp g t c := by
  have hne : c ≠ x := fun e => BT.pair_irrefl t hnd x (e ▸ hxc)
  have gc : g c = f x := by rw [hg, tr_left]
  have gx : g x = f c := by rw [hg, tr_right]
  have gother : ∀ y, y ≠ c → y ≠ x → g y = f y := fun y h1 h2 => by rw [hg, tr_other h1 h2]
  constructor
  · intro a b hab hac
    by_cases hax : a = x
    · subst hax
      by_cases hbc : b = c
      · subst hbc; exact LeP.congr gx gc hle
      · have hba : b ≠ a := fun e => BT.pair_irrefl t hnd a (e ▸ hab)
        exact LeP.congr gx (gother b hbc hba) (hmin b hab)
    · by_cases hbx : b = x
      · subst hbx
        -- (a, x): a is the parent of x; bridge
        exact LeP.congr (gother a hac hax) gx (h.2 a c hab hxc)
      · have hbc : b ≠ c := fun e => hax (BT.parent_unique t hnd a x c (e ▸ hab) hxc)
        exact LeP.congr (gother a hac hax) (gother b hbc hbx) (h.1 a b hab hax)
  · intro p d hpc hcd
    have hpx : p = x := BT.parent_unique t hnd p x c hpc hxc
    subst hpx
    have hdp : d ≠ p := fun e => BT.no_two_cycle t hnd c d hcd (e ▸ hxc)
    have hdc : d ≠ c := fun e => BT.pair_irrefl t hnd c (e ▸ hcd)
    exact LeP.congr gx (gother d hdc hdp) (h.1 c d hcd hne)

theorem ho_congr {f g : Nat → Option K} {t : BT} (hfg : ∀ y, y ∈ t.ids → g y = f y) (h : HO cmp f t) :
    HO cmp g t := fun a b hab =>
  LeP.congr (hfg a (BT.pairs_mem_ids t a b hab).1) (hfg b (BT.pairs_mem_ids t a b hab).2) (h a b hab)

/-- every node is reached from a root through ordered pairs -/
theorem ho_root (hc : LawfulCmp cmp) {f : Nat → Option K} : ∀ (t : BT), HO cmp f t →
    (∀ y, y ∈ t.ids → ∃ k, f y = some k) → ∀ y, y ∈ t.ids → ∃ r, r ∈ t.chainIds ∧ LeP cmp f r y
  | .nil, _, _, y, hy => by simp [BT.ids] at hy
  | .node id o c s, ho, hf, y, hy => by
    simp only [BT.ids, List.mem_cons, List.mem_append] at hy
    have hoc : HO cmp f c := fun a b hab => ho a b (BT.mem_pairs_node.mpr (Or.inr (Or.inl hab)))
    have hos : HO cmp f s := fun a b hab => ho a b (BT.mem_pairs_node.mpr (Or.inr (Or.inr hab)))
    rcases hy with rfl | hy | hy
    · obtain ⟨k, hk⟩ := hf y (by simp [BT.ids])
      exact ⟨y, by simp [BT.chainIds], LeP.refl hc hk⟩
    · obtain ⟨r, hr, hle⟩ := ho_root hc c hoc (fun z hz => hf z (by simp [BT.ids, hz])) y hy
      refine ⟨id, by simp [BT.chainIds], LeP.trans hc ?_ hle⟩
      exact ho id r (BT.mem_pairs_node.mpr (Or.inl ⟨rfl, hr⟩))
    · obtain ⟨r, hr, hle⟩ := ho_root hc s hos (fun z hz => hf z (by simp [BT.ids, hz])) y hy
      exact ⟨r, by simp [BT.chainIds, hr], hle⟩


/-! ### keys under `swap`, minimum of a sibling chain -/

theorem swap_kf {cap : Nat} {S : List Nat} {h h' : IBinomial K V} (r : Reg cap S h.nodes h.cells) {c p : Nat}
    (hc : c ∈ S) (hp : p ∈ S) (hsw : h.swap c p = .ok h') : ∀ y, kf h' y = kf h (tr c p y) := by
  obtain ⟨h1, hsw1, _, _, _, _, hcp, hcc, hoth⟩ := swap_spec r hc hp
  rw [hsw] at hsw1; cases hsw1
  intro y
  unfold kf
  by_cases hyc : y = c
  · subst hyc; rw [tr_left, hcc]
  · by_cases hyp : y = p
    · subst hyp; rw [tr_right, hcp]
    · rw [tr_other hyc hyp, hoth y hyc hyp]

theorem kf_of_keyOf {h : IBinomial K V} {id : Nat} {k : K} (hk : h.keyOf id = .ok k) : kf h id = some k := by
  rw [keyOf_eq] at hk
  cases hx : kf h id with
  | none => rw [hx] at hk; cases hk
  | some k' => rw [hx] at hk; cases hk; rfl

theorem findExtLoop_min (hc : LawfulCmp cmp) (h : IBinomial K V) : ∀ (l : List Nat) (e x : Nat),
    (∃ ke, kf h e = some ke) → findExtLoop cmp h e l = .ok x →
    LeP cmp (kf h) x e ∧ ∀ y, y ∈ l → LeP cmp (kf h) x y
  | [], e, x, ⟨ke, hke⟩, hx => by
    simp only [findExtLoop] at hx; cases hx
    exact ⟨LeP.refl hc hke, fun y hy => by cases hy⟩
  | s :: rest, e, x, ⟨ke, hke⟩, hx => by
    simp only [findExtLoop] at hx
    split at hx
    · rename_i ks ke' hks hke'
      have hks' := kf_of_keyOf hks
      have hke'' := kf_of_keyOf hke'
      split at hx
      · rename_i hlt
        obtain ⟨h1, h2⟩ := findExtLoop_min hc h rest s x ⟨ks, hks'⟩ hx
        have hse : LeP cmp (kf h) s e := ⟨ks, ke', hks', hke'', by omega⟩
        refine ⟨LeP.trans hc h1 hse, ?_⟩
        intro y hy
        rcases List.mem_cons.mp hy with rfl | hy
        · exact h1
        · exact h2 y hy
      · rename_i hnlt
        obtain ⟨h1, h2⟩ := findExtLoop_min hc h rest e x ⟨ke, hke⟩ hx
        have hes : LeP cmp (kf h) e s := ⟨ke', ks, hke'', hks', hc.anti _ _ (by omega)⟩
        refine ⟨h1, ?_⟩
        intro y hy
        rcases List.mem_cons.mp hy with rfl | hy
        · exact LeP.trans hc h1 hes
        · exact h2 y hy
    · cases hx

theorem findExt_min (hc : LawfulCmp cmp) (h : IBinomial K V) (l : List Nat) (x : Nat)
    (hl : ∀ y, y ∈ l → ∃ k, kf h y = some k) (hx : findExt cmp h l = .ok (some x)) :
    ∀ y, y ∈ l → LeP cmp (kf h) x y := by
  cases l with
  | nil => simp [findExt] at hx
  | cons a rest =>
    simp only [findExt] at hx
    split at hx
    · rename_i e he
      cases hx
      obtain ⟨h1, h2⟩ := findExtLoop_min hc h rest a x (hl a List.mem_cons_self) he
      intro y hy
      rcases List.mem_cons.mp hy with rfl | hy
      · exact h1
      · exact h2 y hy
    · cases hx
    · cases hx

theorem kf_some {cap : Nat} {S : List Nat} {h : IBinomial K V} (r : Reg cap S h.nodes h.cells) {y : Nat}
    (hy : y ∈ S) : ∃ k, kf h y = some k := by
  obtain ⟨c, hc, _⟩ := r.reg y hy
  exact ⟨c.key, by unfold kf; rw [hc]; rfl⟩

/-! ### the swapping loops and heap order -/

theorem promoteLoop_ho (hc : LawfulCmp cmp) {cap : Nat} {t : BT} (hnd : t.ids.Nodup) :
    ∀ (anc : List Nat) (h h' : IBinomial K V) (n : Nat), Reg cap t.ids h.nodes h.cells → n ∈ t.ids →
    BT.Path t n anc → (anc.getLast?.getD n) ∈ t.chainIds → HoleT cmp (kf h) t n →
    promoteLoop cmp h n anc = .ok h' →
    ∃ x', DownHoleT cmp (kf h') t x' ∧ (ChildOKT cmp (kf h) t n → ChildOKT cmp (kf h') t x') ∧
      (x' = n ∨ HO cmp (kf h') t)
  | [], h, h', n, _, _, _, hroot, hole, he => by
    simp only [promoteLoop] at he; cases he
    refine ⟨n, holeT_stop hole ?_, id, Or.inl rfl⟩
    intro p hp
    exact absurd hp (BT.root_no_parent t hnd n p (by simpa using hroot))
  | p :: ps, h, h', n, r, hn, hpath, hroot, hole, he => by
    have hpn : (p, n) ∈ t.pairs := hpath.1
    have hp : p ∈ t.ids := (BT.pairs_mem_ids t p n hpn).1
    simp only [promoteLoop] at he
    split at he
    · rename_i kp kn hkp hkn
      have hkp' := kf_of_keyOf hkp
      have hkn' := kf_of_keyOf hkn
      split at he
      · rename_i hgt
        split at he
        · rename_i h1 hsw
          have r1' : Reg cap t.ids h1.nodes h1.cells := by
            obtain ⟨h1', hsw', r1', _⟩ := swap_spec r hn hp
            rw [hsw] at hsw'; cases hsw'; exact r1'
          have hkf := swap_kf r hn hp hsw
          have hlt : LeP cmp (kf h) n p := ⟨kn, kp, hkn', hkp', hc.anti _ _ (by omega)⟩
          obtain ⟨hole1, hch1⟩ := holeT_up hc hnd hkf hpn hole
          obtain ⟨x', hdown, hchild, _⟩ := promoteLoop_ho hc hnd ps h1 h' p r1' hp hpath.2
            (by cases ps <;> simpa [List.getLast?] using hroot) hole1 he
          have hch' : ChildOKT cmp (kf h') t x' := hchild (hch1 hlt)
          exact ⟨x', hdown, fun _ => hch', Or.inr (downhole_ho hdown hch')⟩
        · cases he
        · cases he
      · rename_i hngt
        cases he
        refine ⟨n, holeT_stop hole ?_, id, Or.inl rfl⟩
        intro q hq
        have : q = p := BT.parent_unique t hnd q p n hq hpn
        subst this
        exact ⟨kp, kn, hkp', hkn', by omega⟩
    · cases he

theorem bubbleUp_ho (hc : LawfulCmp cmp) {cap : Nat} {t : BT} (hnd : t.ids.Nodup) :
    ∀ (anc : List Nat) (h h' : IBinomial K V) (n r' : Nat), Reg cap t.ids h.nodes h.cells → n ∈ t.ids →
    BT.Path t n anc → HoleT cmp (kf h) t n → bubbleUp h n anc = .ok (h', r') → HoleT cmp (kf h') t r'
  | [], h, h', n, r', _, _, _, hole, he => by
    simp only [bubbleUp] at he; cases he; exact hole
  | p :: ps, h, h', n, r', r, hn, hpath, hole, he => by
    have hpn : (p, n) ∈ t.pairs := hpath.1
    have hp : p ∈ t.ids := (BT.pairs_mem_ids t p n hpn).1
    simp only [bubbleUp] at he
    split at he
    · rename_i h1 hsw
      have r1' : Reg cap t.ids h1.nodes h1.cells := by
        obtain ⟨h1', hsw', r1', _⟩ := swap_spec r hn hp
        rw [hsw] at hsw'; cases hsw'; exact r1'
      have hkf := swap_kf r hn hp hsw
      exact bubbleUp_ho hc hnd ps h1 h' p r' r1' hp hpath.2 (holeT_up hc hnd hkf hpn hole).1 he
    · cases he
    · cases he

theorem demote_ho (hc : LawfulCmp cmp) {cap : Nat} {t : BT} (hnd : t.ids.Nodup) :
    ∀ (fuel : Nat) (h h' : IBinomial K V) (n : Nat) (ch : BT), Reg cap t.ids h.nodes h.cells → n ∈ t.ids →
    BT.childrenOf n t = some ch → DownHoleT cmp (kf h) t n → demote cmp fuel h n ch = .ok h' →
    HO cmp (kf h') t
  | 0, _, _, _, _, _, _, _, _, he => by simp [demote] at he
  | fuel + 1, h, h', n, ch, r, hn, hch, hd, he => by
    have hpairs := BT.childrenOf_pairs n t ch hnd hch
    simp only [demote] at he
    split at he
    · rename_i hfe
      cases he
      have hnil := findExt_none _ _ hfe
      apply downhole_ho hd
      intro c hc'
      rw [hpairs, hnil] at hc'; cases hc'
    · rename_i c hfe
      have hcm : c ∈ ch.chainIds := findExt_mem h _ c hfe
      have hnc : (n, c) ∈ t.pairs := (hpairs c).mpr hcm
      have hcid : c ∈ t.ids := (BT.pairs_mem_ids t n c hnc).2
      have hmin : ∀ s, (n, s) ∈ t.pairs → LeP cmp (kf h) c s := by
        intro s hs
        refine findExt_min hc h _ c ?_ hfe s ((hpairs s).mp hs)
        intro y hy
        exact kf_some r (BT.pairs_mem_ids t n y ((hpairs y).mpr hy)).2
      split at he
      · rename_i kc kn hkc hkn
        have hkc' := kf_of_keyOf hkc
        have hkn' := kf_of_keyOf hkn
        split at he
        · rename_i hlt
          split at he
          · rename_i h1 hsw
            have r1' : Reg cap t.ids h1.nodes h1.cells := by
              obtain ⟨h1', hsw', r1', _⟩ := swap_spec r hcid hn
              rw [hsw] at hsw'; cases hsw'; exact r1'
            have hkf := swap_kf r hcid hn hsw
            have hle : LeP cmp (kf h) c n := ⟨kc, kn, hkc', hkn', by omega⟩
            have hd1 := downT_step hc hnd hkf hnc hd hmin hle
            split at he
            · rename_i ch' hch'
              exact demote_ho hc hnd fuel h1 h' c ch' r1' hcid
                (BT.childrenOf_chainChild n c t ch ch' hnd hch hch') hd1 he
            · cases he
          · cases he
          · cases he
        · rename_i hnlt
          cases he
          apply downhole_ho hd
          intro s hs
          have hnc' : LeP cmp (kf h) n c := ⟨kn, kc, hkn', hkc', hc.anti _ _ (by omega)⟩
          exact LeP.trans hc hnc' (hmin s hs)
      · cases he
    · cases he
    · cases he

/-! ### the structural routines and heap order -/

theorem consolidateLoop_ho (hc : LawfulCmp cmp) (h : IBinomial K V) : ∀ (rest : BT) (cid : Nat) (co : Int)
    (cc r : BT), HO cmp (kf h) (.node cid co cc rest) → consolidateLoop cmp h cid co cc rest = .ok r →
    HO cmp (kf h) r
  | .nil, cid, co, cc, r, ho, hr => by
    simp only [consolidateLoop] at hr; cases hr; exact ho
  | .node nid no nc ns, cid, co, cc, r, ho, hr => by
    simp only [consolidateLoop] at hr
    split at hr
    · split at hr
      · rename_i r' hr'
        cases hr
        have ho1 : HO cmp (kf h) (.node nid no nc ns) := fun a b hab =>
          ho a b (BT.mem_pairs_node.mpr (Or.inr (Or.inr hab)))
        have ih := consolidateLoop_ho hc h ns nid no nc r' ho1 hr'
        intro a b hab
        rcases BT.mem_pairs_node.mp hab with h1 | h1 | h1
        · exact ho a b (BT.mem_pairs_node.mpr (Or.inl h1))
        · exact ho a b (BT.mem_pairs_node.mpr (Or.inr (Or.inl h1)))
        · exact ih a b h1
      · cases hr
      · cases hr
    · split at hr
      · rename_i kn kc hkn hkc
        have hkn' := kf_of_keyOf hkn
        have hkc' := kf_of_keyOf hkc
        -- the pairs of the old configuration
        have hold : ∀ a b, ((a = cid ∧ b ∈ cc.chainIds) ∨ (a, b) ∈ cc.pairs ∨ (a = nid ∧ b ∈ nc.chainIds) ∨
            (a, b) ∈ nc.pairs ∨ (a, b) ∈ ns.pairs) → LeP cmp (kf h) a b := by
          intro a b hab
          apply ho a b
          rw [BT.mem_pairs_node, BT.mem_pairs_node]
          grind
        split at hr
        · rename_i hgt
          apply consolidateLoop_ho hc h ns cid (co + 1) _ r ?_ hr
          intro a b hab
          rw [BT.mem_pairs_node, BT.mem_pairs_node] at hab
          simp only [BT.chainIds, List.mem_cons] at hab
          rcases hab with ⟨ha, hb | hb⟩ | (⟨ha, hb⟩ | hab | hab) | hab
          · subst ha; subst hb
            exact ⟨kc, kn, hkc', hkn', hc.anti _ _ (by omega)⟩
          · exact hold a b (Or.inl ⟨ha, hb⟩)
          · exact hold a b (Or.inr (Or.inr (Or.inl ⟨ha, hb⟩)))
          · exact hold a b (Or.inr (Or.inr (Or.inr (Or.inl hab))))
          · exact hold a b (Or.inr (Or.inl hab))
          · exact hold a b (Or.inr (Or.inr (Or.inr (Or.inr hab))))
        · rename_i hngt
          apply consolidateLoop_ho hc h ns nid (no + 1) _ r ?_ hr
          intro a b hab
          rw [BT.mem_pairs_node, BT.mem_pairs_node] at hab
          simp only [BT.chainIds, List.mem_cons] at hab
          rcases hab with ⟨ha, hb | hb⟩ | (⟨ha, hb⟩ | hab | hab) | hab
          · subst ha; subst hb
            exact ⟨kn, kc, hkn', hkc', by omega⟩
          · exact hold a b (Or.inr (Or.inr (Or.inl ⟨ha, hb⟩)))
          · exact hold a b (Or.inl ⟨ha, hb⟩)
          · exact hold a b (Or.inr (Or.inl hab))
          · exact hold a b (Or.inr (Or.inr (Or.inr (Or.inl hab))))
          · exact hold a b (Or.inr (Or.inr (Or.inr (Or.inr hab))))
      · cases hr

theorem union_ho (hc : LawfulCmp cmp) (h : IBinomial K V) (a b r : BT) (ha : HO cmp (kf h) a)
    (hb : HO cmp (kf h) b) (hr : union cmp h a b = .ok r) : HO cmp (kf h) r := by
  unfold union at hr
  split at hr
  · rename_i m hm
    have hmo : HO cmp (kf h) m := by
      intro x y hxy
      rcases (BT.merge_pairs _ _ _ _ hm (x, y)).mp hxy with h1 | h1
      · exact ha x y h1
      · exact hb x y h1
    cases m with
    | nil => simp only [consolidate] at hr; cases hr; exact hmo
    | node id o c s => simp only [consolidate] at hr; exact consolidateLoop_ho hc h s id o c r hmo hr
  · cases hr
  · cases hr

/-- removing a root `e` whose own pairs may be out of order -/
theorem removeAndUnion_ho (hc : LawfulCmp cmp) {h h' : IBinomial K V} {e : Nat} {c : Cell K V}
    (hnd : h.head.ids.Nodup)
    (ho : ∀ a b, (a, b) ∈ h.head.pairs → a ≠ e → b ≠ e → LeP cmp (kf h) a b)
    (he : removeAndUnion cmp h e = .ok (h', c)) : HO cmp (kf h') h'.head := by
  unfold removeAndUnion at he
  split at he
  · cases he
  · rename_i rest ch hrem
    simp only [] at he
    split at he
    · rename_i head' hun
      split at he
      · split at he
        · cases he
          have hp := BT.removeRoot_perm e _ _ _ hrem
          have hnd' := (hp.nodup_iff.mp hnd)
          have hne : ∀ x, x ∈ ch.ids ++ rest.ids → x ≠ e := by
            intro x hx hxe
            exact (List.nodup_cons.mp hnd').1 (hxe ▸ hx)
          have hpr := BT.removeRoot_pairs e _ _ _ hrem
          have horest : HO cmp (kf h) rest := by
            intro a b hab
            have := BT.pairs_mem_ids rest a b hab
            exact ho a b ((hpr (a, b)).mpr (Or.inr (Or.inr hab)))
              (hne a (List.mem_append_right _ this.1)) (hne b (List.mem_append_right _ this.2))
          have hoch : HO cmp (kf h) (BT.revChain ch .nil) := by
            intro a b hab
            rcases (BT.revChain_pairs ch .nil (a, b)).mp hab with h1 | h1
            · have := BT.pairs_mem_ids ch a b h1
              exact ho a b ((hpr (a, b)).mpr (Or.inr (Or.inl h1)))
                (hne a (List.mem_append_left _ this.1)) (hne b (List.mem_append_left _ this.2))
            · simp [BT.pairs] at h1
          exact union_ho hc h rest _ head' horest hoch hun
        · cases he
      · cases he
    · cases he
    · cases he


/-! ### the operations keep heap order; `Peek`/`Delete` are extremal -/

/-- index-map invariant + heap order -/
structure InvO (cmp : K → K → Int) (cap : Nat) (h : IBinomial K V) : Prop where
  inv : Inv cap h
  ho : HO cmp (kf h) h.head

theorem root_extremal (hc : LawfulCmp cmp) {cap : Nat} {h : IBinomial K V} (io : InvO cmp cap h) {e : Nat}
    {c : Cell K V} (hfe : findExt cmp h h.head.chainIds = .ok (some e)) (hce : h.cells[e]? = some c) :
    Spec.Extremal cmp (abs h) c.key := by
  have r := io.inv.reg
  intro j kj vj hj
  obtain ⟨_, id, cj, _, hmem, hcj, _, heq⟩ := absOf_some r hj
  cases heq
  have hsome : ∀ y, y ∈ h.head.ids → ∃ k, kf h y = some k := fun y hy => kf_some r hy
  obtain ⟨ρ, hρ, hle⟩ := ho_root hc h.head io.ho hsome id hmem
  have hmin := findExt_min hc h _ e (fun y hy => hsome y (BT.chainIds_sub _ _ hy)) hfe ρ hρ
  obtain ⟨ka, kb, ha, hb, hab⟩ := LeP.trans hc hmin hle
  have h1 : kf h e = some c.key := by unfold kf; rw [hce]; rfl
  have h2 : kf h id = some cj.key := by unfold kf; rw [hcj]; rfl
  rw [h1] at ha; rw [h2] at hb
  cases ha; cases hb; exact hab

theorem insert_ho (hc : LawfulCmp cmp) {cap : Nat} {h h' : IBinomial K V} (io : InvO cmp cap h) (i : Int)
    (key : K) (val : V) (b : Bool) (he : h.insert cmp i key val = .ok (h', b)) : HO cmp (kf h') h'.head := by
  have r := io.inv.reg
  unfold insert at he
  split at he
  · cases he; exact io.ho
  · simp only [] at he
    split at he
    · rename_i hd hun
      split at he
      · cases he
        have hlt : ∀ y, y ∈ h.head.ids → y < h.cells.size := by
          intro y hy
          obtain ⟨c, hc', _⟩ := r.reg y hy
          by_cases hh : y < h.cells.size
          · exact hh
          · rw [Array.getElem?_eq_none (by omega)] at hc'; cases hc'
        let h1 : IBinomial K V := { h with cells := h.cells.push { index := i.toNat, key := key, val := val } }
        have ho1 : HO cmp (kf h1) h.head := by
          refine ho_congr ?_ io.ho
          intro y hy
          have := hlt y hy
          show ((h.cells.push _)[y]?).map _ = _
          rw [Array.getElem?_push, if_neg (by omega)]; rfl
        have ho2 : HO cmp (kf h1) (.node h.cells.size 0 .nil .nil) := by
          intro a b hab; simp [BT.pairs, BT.chainIds] at hab
        exact union_ho hc h1 _ _ hd ho1 ho2 hun
      · cases he
    · cases he
    · cases he

theorem holeT_of_setKey (hc : LawfulCmp cmp) {f g : Nat → Option K} {t : BT} (hnd : t.ids.Nodup) {x : Nat}
    (hfg : ∀ y, y ≠ x → g y = f y) (ho : HO cmp f t) : HoleT cmp g t x := by
  obtain ⟨h1, h2⟩ := ho_hole hc ho x
  constructor
  · intro a b hab hax hbx
    exact LeP.congr (hfg a hax) (hfg b hbx) (h1 a b hab hax hbx)
  · intro p c hp hc'
    have hpx : p ≠ x := fun e => BT.pair_irrefl t hnd x (e ▸ hp)
    have hcx : c ≠ x := fun e => BT.pair_irrefl t hnd x (e ▸ hc')
    exact LeP.congr (hfg p hpx) (hfg c hcx) (h2 p c hp hc')

theorem changeKey_ho (hc : LawfulCmp cmp) {cap : Nat} {h h' : IBinomial K V} (io : InvO cmp cap h) (i : Int)
    (key : K) (b : Bool) (he : h.changeKey cmp i key = .ok (h', b)) : HO cmp (kf h') h'.head := by
  have r := io.inv.reg
  have hnd := r.nodup
  unfold changeKey at he
  split at he
  · cases he; exact io.ho
  · rename_i hcond
    have hheld : h.containsIndex i = true := by
      cases hx : h.containsIndex i with
      | true => rfl
      | false => exact absurd hx hcond
    obtain ⟨_, id, c, hnode, hmem, hcell, _, _⟩ := node_of_held r hheld
    rw [hnode] at he
    simp only [] at he
    rw [hcell] at he
    simp only [] at he
    obtain ⟨r1, _⟩ := r.setKey hmem hcell key
    split at he
    · rename_i h2 hpr
      unfold promote at hpr
      split at hpr
      · rename_i anc hanc
        obtain ⟨l0, hl0, hpath, hroot⟩ := BT.ancestors_path id _ _ _ hanc
        have : anc = l0 := by rw [hl0]; simp
        subst this
        have hsub : ∀ x, x ∈ anc → x ∈ h.head.ids := by
          intro x hx
          rcases BT.ancestors_sub id _ _ _ hanc x hx with h1 | h1
          · exact h1
          · cases h1
        have hole1 : HoleT cmp (kf ({ h with cells := h.cells.setIfInBounds id { c with key := key } } :
            IBinomial K V)) h.head id := by
          refine holeT_of_setKey hc hnd ?_ io.ho
          intro y hy
          show ((h.cells.setIfInBounds id _)[y]?).map _ = _
          rw [Array.getElem?_setIfInBounds, if_neg (fun e => hy e.symm)]; rfl
        obtain ⟨x', hdown, _, hor⟩ := promoteLoop_ho hc hnd anc _ h2 id r1 hmem hpath hroot hole1 hpr
        obtain ⟨r2, _, hh2, _⟩ := promoteLoop_spec anc _ h2 id r1 hmem hsub hpr
        have hh2' : h2.head = h.head := hh2
        have hd2 : DownHoleT cmp (kf h2) h.head id := by
          rcases hor with rfl | hor
          · exact hdown
          · exact ho_downhole hc hor id
        split at he
        · cases he
        · rename_i ch hch
          split at he
          · rename_i h3 hde
            cases he
            obtain ⟨_, _, hh3, _⟩ := demote_spec _ h2 h' id ch r2 hmem
              (fun x hx => by have := BT.childrenOf_sub id _ ch hch x hx; rw [hh2'] at this; exact this) hde
            rw [hh3, hh2']
            exact demote_ho hc hnd _ h2 h' id ch r2 hmem (by rw [← hh2']; exact hch) hd2 hde
          · cases he
          · cases he
      · cases hpr
    · cases he
    · cases he

theorem delete_ho (hc : LawfulCmp cmp) {cap : Nat} {h h' : IBinomial K V} (io : InvO cmp cap h)
    (res : Option (Int × K × V)) (he : h.delete cmp = .ok (h', res)) :
    HO cmp (kf h') h'.head ∧ ∀ i k v, res = some (i, k, v) → Spec.Extremal cmp (abs h) k := by
  have r := io.inv.reg
  unfold delete at he
  split at he
  · cases he; exact ⟨io.ho, fun _ _ _ h => by cases h⟩
  · rename_i e hfe
    split at he
    · rename_i h1 c hrm
      cases he
      obtain ⟨_, _, _, _, _, hce⟩ := removeAndUnion_spec r hrm
      refine ⟨removeAndUnion_ho hc r.nodup (fun a b hab _ _ => io.ho a b hab) hrm, ?_⟩
      intro i k v hres
      cases hres
      exact root_extremal hc io hfe hce
    · cases he
    · cases he
  · cases he
  · cases he

theorem deleteIndex_ho (hc : LawfulCmp cmp) {cap : Nat} {h h' : IBinomial K V} (io : InvO cmp cap h) (i : Int)
    (res : Option (K × V)) (he : h.deleteIndex cmp i = .ok (h', res)) : HO cmp (kf h') h'.head := by
  have r := io.inv.reg
  have hnd := r.nodup
  unfold deleteIndex at he
  split at he
  · cases he; exact io.ho
  · rename_i hcond
    have hheld : h.containsIndex i = true := by
      cases hx : h.containsIndex i with
      | true => rfl
      | false => exact absurd hx hcond
    obtain ⟨_, id, c, hnode, hmem, hcell, _, _⟩ := node_of_held r hheld
    rw [hnode] at he
    simp only [] at he
    split at he
    · cases he
    · rename_i anc hanc
      obtain ⟨l0, hl0, hpath, _⟩ := BT.ancestors_path id _ _ _ hanc
      have : anc = l0 := by rw [hl0]; simp
      subst this
      have hsub : ∀ x, x ∈ anc → x ∈ h.head.ids := by
        intro x hx
        rcases BT.ancestors_sub id _ _ _ hanc x hx with h1 | h1
        · exact h1
        · cases h1
      split at he
      · rename_i h1 rt hbu
        obtain ⟨r1, _, hh1, _⟩ := bubbleUp_spec anc h h1 id rt r hmem hsub hbu
        have hole1 := bubbleUp_ho hc hnd anc h h1 id rt r hmem hpath (ho_hole hc io.ho id) hbu
        split at he
        · rename_i h2 c2 hrm
          cases he
          exact removeAndUnion_ho hc (by rw [hh1]; exact hnd) (by rw [hh1]; exact hole1.1) hrm
        · cases he
        · cases he
      · cases he
      · cases he

theorem peek_extremal (hc : LawfulCmp cmp) {cap : Nat} {h : IBinomial K V} (io : InvO cmp cap h)
    (res : Option (Int × K × V)) (he : h.peek cmp = .ok res) :
    ∀ i k v, res = some (i, k, v) → Spec.Extremal cmp (abs h) k := by
  unfold peek at he
  split at he
  · cases he; intro _ _ _ h; cases h
  · rename_i e hfe
    split at he
    · rename_i c hce
      cases he
      intro i k v hres
      cases hres
      exact root_extremal hc io hfe hce
    · cases he
  · cases he
  · cases he

/-- one step: returns, keeps the invariants, answers admissibly (with extremality) -/
theorem step_full (hc : LawfulCmp cmp) (eq : V → V → Bool) {cap : Nat} (h : IBinomial K V) (op : Op K V)
    (io : InvO cmp cap h) :
    ∃ h' res, step cmp eq h op = .ok (h', res) ∧ InvO cmp cap h' ∧ Spec.Admit cmp eq cap (abs h) op res (abs h') := by
  obtain ⟨⟨h', res⟩, hstep⟩ := step_total (cmp := cmp) eq h op io.inv
  obtain ⟨inv', hadm⟩ := step_sim eq h op h' res io.inv hstep
  refine ⟨h', res, hstep, ?_⟩
  cases op with
  | insert i k v =>
    simp only [step, Outcome.map] at hstep
    split at hstep
    · rename_i p hp; obtain ⟨h1, b⟩ := p; cases hstep
      exact ⟨⟨inv', insert_ho hc io i k v b hp⟩, hadm.upgrade (fun _ _ _ h => by cases h)⟩
    · cases hstep
    · cases hstep
  | changeKey i k =>
    simp only [step, Outcome.map] at hstep
    split at hstep
    · rename_i p hp; obtain ⟨h1, b⟩ := p; cases hstep
      exact ⟨⟨inv', changeKey_ho hc io i k b hp⟩, hadm.upgrade (fun _ _ _ h => by cases h)⟩
    · cases hstep
    · cases hstep
  | delete =>
    simp only [step, Outcome.map] at hstep
    split at hstep
    · rename_i p hp; obtain ⟨h1, b⟩ := p; cases hstep
      obtain ⟨ho', hext⟩ := delete_ho hc io b hp
      exact ⟨⟨inv', ho'⟩, hadm.upgrade (fun i k v h => by cases h; exact hext i k v rfl)⟩
    · cases hstep
    · cases hstep
  | deleteIndex i =>
    simp only [step, Outcome.map] at hstep
    split at hstep
    · rename_i p hp; obtain ⟨h1, b⟩ := p; cases hstep
      exact ⟨⟨inv', deleteIndex_ho hc io i b hp⟩, hadm.upgrade (fun _ _ _ h => by cases h)⟩
    · cases hstep
    · cases hstep
  | deleteAll =>
    simp only [step] at hstep
    cases hstep
    refine ⟨⟨inv', ?_⟩, hadm.upgrade (fun _ _ _ h => by cases h)⟩
    intro a b hab; simp [deleteAll, BT.pairs] at hab
  | peek =>
    simp only [step, Outcome.map] at hstep
    split at hstep
    · rename_i p hp; cases hstep
      have hext := peek_extremal hc io p hp
      exact ⟨⟨inv', io.ho⟩, hadm.upgrade (fun i k v h => by cases h; exact hext i k v rfl)⟩
    · cases hstep
    · cases hstep
  | peekIndex i =>
    simp only [step, Outcome.map] at hstep
    split at hstep
    · cases hstep; exact ⟨⟨inv', io.ho⟩, hadm.upgrade (fun _ _ _ h => by cases h)⟩
    · cases hstep
    · cases hstep
  | containsIndex i =>
    simp only [step] at hstep
    cases hstep; exact ⟨⟨inv', io.ho⟩, hadm.upgrade (fun _ _ _ h => by cases h)⟩
  | containsKey k =>
    simp only [step, Outcome.map] at hstep
    split at hstep
    · cases hstep; exact ⟨⟨inv', io.ho⟩, hadm.upgrade (fun _ _ _ h => by cases h)⟩
    · cases hstep
    · cases hstep
  | containsValue v =>
    simp only [step, Outcome.map] at hstep
    split at hstep
    · cases hstep; exact ⟨⟨inv', io.ho⟩, hadm.upgrade (fun _ _ _ h => by cases h)⟩
    · cases hstep
    · cases hstep
  | size =>
    simp only [step] at hstep
    cases hstep; exact ⟨⟨inv', io.ho⟩, hadm.upgrade (fun _ _ _ h => by cases h)⟩
  | isEmpty =>
    simp only [step] at hstep
    cases hstep; exact ⟨⟨inv', io.ho⟩, hadm.upgrade (fun _ _ _ h => by cases h)⟩

theorem invO_new (cmp : K → K → Int) (cap : Nat) : InvO cmp cap (new cap : IBinomial K V) :=
  ⟨inv_new cap, fun a b hab => by simp [new, BT.pairs] at hab⟩

end IBinomial
end AlgoVerif.C05
