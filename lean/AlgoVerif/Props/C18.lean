import AlgoVerif.Model.C18
import AlgoVerif.Spec.C18
/-!
# C18 — property theorems (statements only live here; helper lemmas in `Proofs/C18*.lean`)
-/
open AlgoVerif AlgoVerif.C18

/-- placeholder until the refinement proofs land (keeps the pipeline honest: one obligation). -/
theorem C18_softQueue_new_isEmpty : (SoftQueue.new : SoftQueue Int).isEmpty = true := by
  decide

