import AlgoVerif.Proofs.C18Stack
import AlgoVerif.Proofs.C18Queue
import AlgoVerif.Proofs.C18Soft
/-!
# C18 — property theorems (statements only live here; helper lemmas in `Proofs/C18*.lean`)

Reading of the property.  `Stack.run zero eq s ops` / `Queue.run …` / `SoftQueue.run …`
(`Model/C18Run.lean`) execute a history on the Model of `/repo/list/{stack,queue,soft_queue}.go` and
return one `Outcome (Out α)` per operation; the trace would end with `panic` (index out of range /
nil dereference) or `diverge` (the `Contains` loop ran out of fuel) at the first failing operation.
`Spec.S.run` / `Spec.Q.run` / `Spec.SQ.run` execute the same history on the abstract sequence
(`Spec/C18.lean`: stack = list with push/pop at the head; queue = list with enqueue at the back and
dequeue at the front; soft queue = every value ever enqueued + how many were dequeued).

Each theorem says: for EVERY block size ≥ 1, EVERY `equal` function, EVERY zero value, EVERY value
type and EVERY finite history, the Model's trace is exactly the Spec's outputs, each wrapped in
`Outcome.ok` — so no operation panics or hangs, and Push/Pop/Peek/Contains/Size/IsEmpty (resp.
Enqueue/Dequeue/…) return what the abstract sequence returns.  In particular `Contains` is
`List.any` over the *live* values only: it never reports a value that was already removed or never
added (stale cells of a block are not seen).

Proof: forward simulation (`runTrace_refines`) with the abstraction functions `Stack.abs`,
`Queue.abs` (live cells of the block chain) and the invariants `Stack.Inv`, `Queue.Inv`
(DESIGN.md Appendix B), by induction over the history.  No bound on anything.
-/
open AlgoVerif AlgoVerif.C18

/-- The block-chain stack pops in reverse push order; Size, IsEmpty, Peek, Contains agree with the
abstract list; nothing panics or hangs. -/
theorem C18_stack_refines {α : Type} (zero : α) (eq : α → α → Bool) (blockSize : Nat)
    (hB : 1 ≤ blockSize) (ops : List (Op α)) :
    Stack.run zero eq (Stack.new blockSize) ops = (Spec.S.run eq [] ops).map Outcome.ok :=
  Stack.run_refines zero eq blockSize hB ops

/-- non-vacuity: block size 2, five pushes (three blocks), `Contains` of a live and of an absent
value, then popping across both block boundaries down to empty, a pop on empty, and a refill. -/
example :
    Stack.run (0 : Int) (fun a b => a == b) (Stack.new 2)
      [.add 1, .add 2, .add 3, .add 4, .add 5, .size, .contains 1, .contains 9, .remove, .peek, .remove,
       .remove, .contains 4, .remove, .remove, .isEmpty, .remove, .add 7, .peek, .contains 5]
    = [.ok .unit, .ok .unit, .ok .unit, .ok .unit, .ok .unit, .ok (.int 5), .ok (.bool true),
       .ok (.bool false), .ok (.val (some 5)), .ok (.val (some 4)), .ok (.val (some 4)),
       .ok (.val (some 3)), .ok (.bool false), .ok (.val (some 2)), .ok (.val (some 1)),
       .ok (.bool true), .ok (.val none), .ok .unit, .ok (.val (some 7)), .ok (.bool false)] := by
  decide

/-- The block-chain queue dequeues in enqueue order (FIFO); Size, IsEmpty, Peek agree with the
abstract list and `Contains` ranges over the live cells only; nothing panics or hangs. -/
theorem C18_queue_refines {α : Type} (zero : α) (eq : α → α → Bool) (blockSize : Nat)
    (hB : 1 ≤ blockSize) (ops : List (Op α)) :
    Queue.run zero eq (Queue.new blockSize) ops = (Spec.Q.run eq [] ops).map Outcome.ok :=
  Queue.run_refines zero eq blockSize hB ops

/-- non-vacuity: block size 2; the history of the historic defect D22 (enq, enq, deq, deq, enq:
the queue is drained exactly at a block boundary and refilled), then `Contains` of the stale values
1 and 2 (still physically in the abandoned block) is `false`, then growth across a boundary and a
drain across it. -/
example :
    Queue.run (0 : Int) (fun a b => a == b) (Queue.new 2)
      [.add 1, .add 2, .remove, .remove, .add 3, .contains 1, .contains 2, .contains 3, .add 4, .add 5,
       .size, .remove, .peek, .remove, .contains 4, .remove, .remove, .isEmpty]
    = [.ok .unit, .ok .unit, .ok (.val (some 1)), .ok (.val (some 2)), .ok .unit, .ok (.bool false),
       .ok (.bool false), .ok (.bool true), .ok .unit, .ok .unit, .ok (.int 3), .ok (.val (some 3)),
       .ok (.val (some 4)), .ok (.val (some 4)), .ok (.bool false), .ok (.val (some 5)), .ok (.val none),
       .ok (.bool true)] := by
  decide

/-- The soft queue: Enqueue returns the index of the new value, Dequeue/Peek return the front value
with its index (or index -1 when empty), Contains returns the first index in `Values()` (dequeued
values included) or -1, Size/IsEmpty/Values agree with the Spec; nothing panics. -/
theorem C18_softQueue_refines {α : Type} (eq : α → α → Bool) (ops : List (SoftOp α)) :
    SoftQueue.run eq SoftQueue.new ops = (Spec.SQ.run eq {} ops).map Outcome.ok :=
  SoftQueue.run_refines eq ops

/-- Stable positions, stated on the Model's observable outputs alone: in any history, the index `i`
returned by an `Enqueue v` is the position at which `Values()` holds `v` after ANY further history
`ops₂` ("forever after"). -/
theorem C18_softQueue_stable_positions {α : Type} (eq : α → α → Bool) (ops₁ : List (SoftOp α)) (v : α)
    (ops₂ : List (SoftOp α)) :
    ∃ (i : Nat) (l : List α),
      (SoftQueue.run eq SoftQueue.new (ops₁ ++ SoftOp.enq v :: (ops₂ ++ [SoftOp.values])))[ops₁.length]?
        = some (.ok (Out.int i)) ∧
      (SoftQueue.run eq SoftQueue.new (ops₁ ++ SoftOp.enq v :: (ops₂ ++ [SoftOp.values]))).getLast?
        = some (.ok (Out.list l)) ∧
      l[i]? = some v :=
  SoftQueue.stable_positions eq ops₁ v ops₂

/-- non-vacuity: enqueue, dequeue to empty, dequeue on empty, refill; indices keep counting and
`Values()` keeps the dequeued values at their positions. -/
example :
    SoftQueue.run (fun (a b : Int) => a == b) SoftQueue.new
      [.enq 10, .enq 20, .deq, .peek, .deq, .deq, .isEmpty, .enq 30, .contains 10, .contains 99, .size,
       .peek, .values]
    = [.ok (.int 0), .ok (.int 1), .ok (.valIdx (some (10, 0))), .ok (.valIdx (some (20, 1))),
       .ok (.valIdx (some (20, 1))), .ok (.valIdx none), .ok (.bool true), .ok (.int 2), .ok (.int 0),
       .ok (.int (-1)), .ok (.int 1), .ok (.valIdx (some (30, 2))), .ok (.list [10, 20, 30])] := by
  decide
