import AlgoVerif.Proofs.C18Stack
import AlgoVerif.Proofs.C18Queue
import AlgoVerif.Proofs.C18Soft
import AlgoVerif.Proofs.C18Gen
/-!
# C18 — property theorems (statements only live here; helper lemmas in `Proofs/C18*.lean`)

Reading of the property.  `Stack.run zero eq s ops` / `Queue.run …` / `SoftQueue.run …`
(`Model/C18Run.lean`) execute a history on the Model of `/repo/list/{stack,queue,soft_queue}.go` and
return one `Outcome (Out α)` per operation; the trace would end with `panic` (index out of range /
nil dereference) or `diverge` (the `Contains` loop ran out of fuel) at the first failing operation.
`Spec.S.run` / `Spec.Q.run` / `Spec.SQ.run` execute the same history on the abstract sequence
(`Spec/C18.lean`: stack = list with push/pop at the head; queue = list with enqueue at the back and
dequeue at the front; soft queue = every value ever enqueued + how many were dequeued).

Each theorem says: for EVERY block size ≥ 1, EVERY `equal` function, EVERY zero value, EVERY value
type and EVERY finite history, the Model's trace is exactly the Spec's outputs, each wrapped in
`Outcome.ok` — so no operation panics or hangs, and Push/Pop/Peek/Contains/Size/IsEmpty (resp.
Enqueue/Dequeue/…) return what the abstract sequence returns.  In particular `Contains` is
`List.any` over the *live* values only: it never reports a value that was already removed or never
added (stale cells of a block are not seen).

Proof: forward simulation (`runTrace_refines`) with the abstraction functions `Stack.abs`,
`Queue.abs` (live cells of the block chain) and the invariants `Stack.Inv`, `Queue.Inv`
(DESIGN.md Appendix B), by induction over the history.  No bound on anything.
-/
open AlgoVerif AlgoVerif.C18

/-- The block-chain stack pops in reverse push order; Size, IsEmpty, Peek, Contains agree with the
abstract list; nothing panics or hangs. -/
theorem C18_stack_refines {α : Type} (zero : α) (eq : α → α → Bool) (blockSize : Nat)
    (hB : 1 ≤ blockSize) (ops : List (Op α)) :
    Stack.run zero eq (Stack.new blockSize) ops = (Spec.S.run eq [] ops).map Outcome.ok :=
  Stack.run_refines zero eq blockSize hB ops

/-- non-vacuity: block size 2, five pushes (three blocks), `Contains` of a live and of an absent
value, then popping across both block boundaries down to empty, a pop on empty, and a refill. -/
example :
    Stack.run (0 : Int) (fun a b => a == b) (Stack.new 2)
      [.add 1, .add 2, .add 3, .add 4, .add 5, .size, .contains 1, .contains 9, .remove, .peek, .remove,
       .remove, .contains 4, .remove, .remove, .isEmpty, .remove, .add 7, .peek, .contains 5]
    = [.ok .unit, .ok .unit, .ok .unit, .ok .unit, .ok .unit, .ok (.int 5), .ok (.bool true),
       .ok (.bool false), .ok (.val (some 5)), .ok (.val (some 4)), .ok (.val (some 4)),
       .ok (.val (some 3)), .ok (.bool false), .ok (.val (some 2)), .ok (.val (some 1)),
       .ok (.bool true), .ok (.val none), .ok .unit, .ok (.val (some 7)), .ok (.bool false)] := by
  decide

/-- The block-chain queue dequeues in enqueue order (FIFO); Size, IsEmpty, Peek agree with the
abstract list and `Contains` ranges over the live cells only; nothing panics or hangs. -/
theorem C18_queue_refines {α : Type} (zero : α) (eq : α → α → Bool) (blockSize : Nat)
    (hB : 1 ≤ blockSize) (ops : List (Op α)) :
    Queue.run zero eq (Queue.new blockSize) ops = (Spec.Q.run eq [] ops).map Outcome.ok :=
  Queue.run_refines zero eq blockSize hB ops

/-- non-vacuity: block size 2; the history of the historic defect D22 (enq, enq, deq, deq, enq:
the queue is drained exactly at a block boundary and refilled), then `Contains` of the stale values
1 and 2 (still physically in the abandoned block) is `false`, then growth across a boundary and a
drain across it. -/
example :
    Queue.run (0 : Int) (fun a b => a == b) (Queue.new 2)
      [.add 1, .add 2, .remove, .remove, .add 3, .contains 1, .contains 2, .contains 3, .add 4, .add 5,
       .size, .remove, .peek, .remove, .contains 4, .remove, .remove, .isEmpty]
    = [.ok .unit, .ok .unit, .ok (.val (some 1)), .ok (.val (some 2)), .ok .unit, .ok (.bool false),
       .ok (.bool false), .ok (.bool true), .ok .unit, .ok .unit, .ok (.int 3), .ok (.val (some 3)),
       .ok (.val (some 4)), .ok (.val (some 4)), .ok (.bool false), .ok (.val (some 5)), .ok (.val none),
       .ok (.bool true)] := by
  decide

/-- The soft queue: Enqueue returns the index of the new value, Dequeue/Peek return the front value
with its index (or index -1 when empty), Contains returns the first index in `Values()` (dequeued
values included) or -1, Size/IsEmpty/Values agree with the Spec; nothing panics. -/
theorem C18_softQueue_refines {α : Type} (eq : α → α → Bool) (ops : List (SoftOp α)) :
    SoftQueue.run eq SoftQueue.new ops = (Spec.SQ.run eq {} ops).map Outcome.ok :=
  SoftQueue.run_refines eq ops

/-- Stable positions, stated on the Model's observable outputs alone: in any history, the index `i`
returned by an `Enqueue v` is the position at which `Values()` holds `v` after ANY further history
`ops₂` ("forever after"). -/
theorem C18_softQueue_stable_positions {α : Type} (eq : α → α → Bool) (ops₁ : List (SoftOp α)) (v : α)
    (ops₂ : List (SoftOp α)) :
    ∃ (i : Nat) (l : List α),
      (SoftQueue.run eq SoftQueue.new (ops₁ ++ SoftOp.enq v :: (ops₂ ++ [SoftOp.values])))[ops₁.length]?
        = some (.ok (Out.int i)) ∧
      (SoftQueue.run eq SoftQueue.new (ops₁ ++ SoftOp.enq v :: (ops₂ ++ [SoftOp.values]))).getLast?
        = some (.ok (Out.list l)) ∧
      l[i]? = some v :=
  SoftQueue.stable_positions eq ops₁ v ops₂

/-- non-vacuity: enqueue, dequeue to empty, dequeue on empty, refill; indices keep counting and
`Values()` keeps the dequeued values at their positions. -/
example :
    SoftQueue.run (fun (a b : Int) => a == b) SoftQueue.new
      [.enq 10, .enq 20, .deq, .peek, .deq, .deq, .isEmpty, .enq 30, .contains 10, .contains 99, .size,
       .peek, .values]
    = [.ok (.int 0), .ok (.int 1), .ok (.valIdx (some (10, 0))), .ok (.valIdx (some (20, 1))),
       .ok (.valIdx (some (20, 1))), .ok (.valIdx none), .ok (.bool true), .ok (.int 2), .ok (.int 0),
       .ok (.int (-1)), .ok (.int 1), .ok (.valIdx (some (30, 2))), .ok (.list [10, 20, 30])] := by
  decide

/-! ## the second tie (soft queue): the Model REGENERATED from the source equals the hand Model

`AlgoVerif.Generated.List.*` (file `Generated/C18Gen.lean`) is produced from `/repo/list/soft_queue.go` by the
translator `/verif/extract/go2lean` on every run of this check (`bin/pre-C18`; scheme, subset and what is trusted:
header of `extract/go2lean/main.go`).  `sq` reads the generated structure as the Model's, `valIdx` reads Go's
`(T, int)` as an `Option` (index `-1` = nothing); Go's zero value of `T` is the `default` of the `Inhabited`
instance.  An edit of `soft_queue.go` that changes what a method computes changes the generated file and these
stop checking.  (`stack.go`, `queue.go`: pointer-linked blocks, outside the translator's subset.) -/

open AlgoVerif.Generated.List AlgoVerif.C18.Gen

/-- `NewSoftQueue`, `Size`, `IsEmpty`, `Enqueue` (pure: they cannot panic) -/
theorem C18_generated_softQueue_pure {α : Type} [Inhabited α] (eq : α → α → Bool) (q : softQueue α) (v : α) :
    (NewSoftQueue eq).map sq = .ok SoftQueue.new ∧ softQueue.Size q = (sq q).size ∧
    softQueue.IsEmpty q = (sq q).isEmpty ∧
    (sq (softQueue.Enqueue q v).1, (softQueue.Enqueue q v).2) = (sq q).enqueue v :=
  ⟨New_eq eq, Size_eq q, IsEmpty_eq q, Enqueue_eq q v⟩

/-- `Dequeue`, `Peek` (they index `q.list[q.front]`: same result, same panic) -/
theorem C18_generated_softQueue_front {α : Type} [Inhabited α] (q : softQueue α) :
    (softQueue.Dequeue q).map (fun r => (sq r.1, valIdx r.2)) = (sq q).dequeue ∧
    (softQueue.Peek q).map valIdx = (sq q).peek :=
  ⟨Dequeue_eq q, Peek_eq q⟩

/-- `Contains` (a `range` loop with a `return` inside) and `Values` (`make` + `copy`) -/
theorem C18_generated_softQueue_scan {α : Type} [Inhabited α] (q : softQueue α) (v : α) :
    softQueue.Contains q v = .ok ((sq q).contains q.equal v) ∧
    (softQueue.Values q).map Array.toList = .ok (sq q).values :=
  ⟨Contains_eq q v, Values_eq q⟩

/-- histories: the trace of the generated definitions is the Model's trace -/
theorem C18_generated_softQueue_run {α : Type} [Inhabited α] (q : softQueue α) (ops : List (SoftOp α)) :
    Gen.run q ops = SoftQueue.run q.equal (sq q) ops :=
  run_eq ops q

/-- `C18_softQueue_refines`, about the generated definitions: from `NewSoftQueue(equal)` every history produces
exactly the Spec's outputs; nothing panics -/
theorem C18_generated_softQueue_refines {α : Type} [Inhabited α] (eq : α → α → Bool) (ops : List (SoftOp α)) :
    ∃ q0, NewSoftQueue eq = .ok q0 ∧ Gen.run q0 ops = (Spec.SQ.run eq {} ops).map Outcome.ok := by
  obtain ⟨q0, h0, he⟩ := New_equal eq
  refine ⟨q0, h0, ?_⟩
  have hs : sq q0 = SoftQueue.new := by
    have := New_eq eq; rw [h0] at this; simpa using this
  rw [run_eq, he, hs]
  exact C18_softQueue_refines eq ops

-- non-vacuity: the generated definitions compute the Model's example trace
example :
    (match NewSoftQueue (fun (a b : Int) => a == b) with
     | .ok q => Gen.run q [.enq 10, .enq 20, .deq, .peek, .deq, .deq, .isEmpty, .enq 30, .contains 10, .contains 99,
         .size, .peek, .values]
     | _ => [])
    = [.ok (.int 0), .ok (.int 1), .ok (.valIdx (some (10, 0))), .ok (.valIdx (some (20, 1))),
       .ok (.valIdx (some (20, 1))), .ok (.valIdx none), .ok (.bool true), .ok (.int 2), .ok (.int 0),
       .ok (.int (-1)), .ok (.int 1), .ok (.valIdx (some (30, 2))), .ok (.list [10, 20, 30])] := by
  decide
