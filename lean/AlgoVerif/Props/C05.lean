import AlgoVerif.Proofs.C05Binary
/-!
# C05 — indexed heaps keep index, key and value consistent (property theorems)

`Spec.Admitted cmp eq cap m ops outs` (Spec/C05.lean): every call of the history returned normally and
answered what the partial map `index ⇀ (key × value)` allows (`Insert` succeeds iff the index is in range
and free, `ChangeKey/DeleteIndex/PeekIndex/ContainsIndex` succeed iff it is held and act on exactly that
entry, `Peek/Delete` return a held index whose current key is `cmp`-extremal, `ContainsKey/ContainsValue`
are exact whatever indices are in use, `Size`/`IsEmpty` count the held indices).  A `panic` or `diverge`
outcome is never admitted, so the theorems also say: out-of-range and unheld indices are answered `false`,
never by a crash, and every loop terminates within the fuel the Model gives it.
-/
open AlgoVerif AlgoVerif.C05 AlgoVerif.C05.Spec

/-- **Indexed binary heap, full strength.**  For every capacity, every lawful comparator (a total preorder
given by the sign of `cmp`), every value-equality function and every finite history of the twelve calls with
arbitrary (also negative / too large / unheld / occupied) index arguments, the trace of the Model of
`heap/indexed_binary.go` is admitted by the Spec, starting from the empty map. -/
theorem C05_ibinary {K V : Type} (cmp : K → K → Int) (hc : LawfulCmp cmp) (eq : V → V → Bool) (cap : Nat)
    (ops : List (Op K V)) :
    Admitted cmp eq cap Map.empty ops (IBinary.run cmp eq cap ops) := by
  have := admitted_of_sim (IBinary.step cmp eq) (IBinary.Inv cmp cap) IBinary.abs
    (fun s op inv => IBinary.step_sim hc eq s op inv) ops (IBinary.new cap) (IBinary.inv_new cmp cap)
  rw [IBinary.abs_new] at this
  exact this

/-- **Indexed binary heap, the representation invariant.**  After every history the state exists (no call
panicked or ran out of fuel) and satisfies `IBinary.Inv`:
`heap` and `pos` are mutually inverse on positions `1..n` (`Wf.fwd`, `Wf.bwd`), `pos[i] = -1 ↔ kvs[i] = nil`
(`Wf.bwd`), the three slices keep their lengths `cap+1, cap, cap`, the keys reached through `kvs[heap[k]]`
are in heap order (`Hole.Ord`), and `n` is the number of held indices. -/
theorem C05_ibinary_invariant {K V : Type} (cmp : K → K → Int) (hc : LawfulCmp cmp) (eq : V → V → Bool)
    (cap : Nat) (ops : List (Op K V)) :
    ∃ h, execWith (IBinary.step cmp eq) (IBinary.new cap) ops = .ok h ∧ IBinary.Inv cmp cap h :=
  exec_of_sim (IBinary.step cmp eq) (IBinary.Inv cmp cap)
    (fun s op inv => by
      obtain ⟨s', r, h1, h2, _⟩ := IBinary.step_sim hc eq s op inv
      exact ⟨s', r, h1, h2⟩)
    ops (IBinary.new cap) (IBinary.inv_new cmp cap)

/-! ### the hypotheses are satisfiable, the statements are not vacuous -/

/-- Go's `generic.NewCompareFunc[int]` -/
def C05.cmpInt (a b : Int) : Int := if a < b then -1 else if a > b then 1 else 0
/-- Go's `generic.NewReverseCompareFunc[int]` -/
def C05.cmpIntRev (a b : Int) : Int := if a > b then -1 else if a < b then 1 else 0

example : LawfulCmp C05.cmpInt :=
  ⟨fun a b h => by unfold C05.cmpInt at *; split at h <;> split <;> (try split) <;> omega,
   fun a b c h1 h2 => by
    unfold C05.cmpInt at *
    split at h1 <;> split at h2 <;> split <;> (try split) <;> (try split at h1) <;> (try split at h2) <;> omega⟩

example : LawfulCmp C05.cmpIntRev :=
  ⟨fun a b h => by unfold C05.cmpIntRev at *; split at h <;> split <;> (try split) <;> omega,
   fun a b c h1 h2 => by
    unfold C05.cmpIntRev at *
    split at h1 <;> split at h2 <;> split <;> (try split) <;> (try split at h1) <;> (try split at h2) <;> omega⟩

/-- a history with an out-of-range insert (D5), a sparse index set with `ContainsKey` (D4), a key increase, a
`DeleteIndex` of an inner entry and deletes: what the Model answers (and `C05_ibinary` says is admitted) -/
example :
    IBinary.run C05.cmpInt (fun (a b : Nat) => a == b) 6
      [.insert 6 1 0, .insert (-1) 1 0, .insert 5 42 7, .containsKey 42, .insert 2 10 8, .insert 0 50 9,
       .insert 5 1 1, .changeKey 5 60, .peek, .deleteIndex 0, .changeKey 3 1, .delete, .delete, .delete, .size]
    = [.ok (.bool false), .ok (.bool false), .ok (.bool true), .ok (.bool true), .ok (.bool true),
       .ok (.bool true), .ok (.bool false), .ok (.bool true), .ok (.ikv (some (2, 10, 8))),
       .ok (.kv (some (50, 9))), .ok (.bool false), .ok (.ikv (some (2, 10, 8))),
       .ok (.ikv (some (5, 60, 7))), .ok (.ikv none), .ok (.int 0)] := by
  decide
