import AlgoVerif.Common
/-! # C05 — property theorems (none yet) -/
