import AlgoVerif.Proofs.C05Binary
import AlgoVerif.Proofs.C05BinomialOrder
import AlgoVerif.Proofs.C05FibFull
import AlgoVerif.Proofs.C05Gen
/-!
# C05 — indexed heaps keep index, key and value consistent (property theorems)

`Spec.Admitted cmp eq cap m ops outs` (Spec/C05.lean): every call of the history returned normally and
answered what the partial map `index ⇀ (key × value)` allows (`Insert` succeeds iff the index is in range
and free, `ChangeKey/DeleteIndex/PeekIndex/ContainsIndex` succeed iff it is held and act on exactly that
entry, `Peek/Delete` return a held index whose current key is `cmp`-extremal, `ContainsKey/ContainsValue`
are exact whatever indices are in use, `Size`/`IsEmpty` count the held indices).  A `panic` or `diverge`
outcome is never admitted, so the theorems also say: out-of-range and unheld indices are answered `false`,
never by a crash, and every loop terminates within the fuel the Model gives it.
-/
open AlgoVerif AlgoVerif.C05 AlgoVerif.C05.Spec

/-- **Indexed binary heap, full strength.**  For every capacity, every lawful comparator (a total preorder
given by the sign of `cmp`), every value-equality function and every finite history of the twelve calls with
arbitrary (also negative / too large / unheld / occupied) index arguments, the trace of the Model of
`heap/indexed_binary.go` is admitted by the Spec, starting from the empty map. -/
theorem C05_ibinary {K V : Type} (cmp : K → K → Int) (hc : LawfulCmp cmp) (eq : V → V → Bool) (cap : Nat)
    (ops : List (Op K V)) :
    Admitted cmp eq cap Map.empty ops (IBinary.run cmp eq cap ops) := by
  have := admitted_of_sim (IBinary.step cmp eq) (IBinary.Inv cmp cap) IBinary.abs
    (fun s op inv => IBinary.step_sim hc eq s op inv) ops (IBinary.new cap) (IBinary.inv_new cmp cap)
  rw [IBinary.abs_new] at this
  exact this

/-- **Indexed binary heap, the representation invariant.**  After every history the state exists (no call
panicked or ran out of fuel) and satisfies `IBinary.Inv`:
`heap` and `pos` are mutually inverse on positions `1..n` (`Wf.fwd`, `Wf.bwd`), `pos[i] = -1 ↔ kvs[i] = nil`
(`Wf.bwd`), the three slices keep their lengths `cap+1, cap, cap`, the keys reached through `kvs[heap[k]]`
are in heap order (`Hole.Ord`), and `n` is the number of held indices. -/
theorem C05_ibinary_invariant {K V : Type} (cmp : K → K → Int) (hc : LawfulCmp cmp) (eq : V → V → Bool)
    (cap : Nat) (ops : List (Op K V)) :
    ∃ h, execWith (IBinary.step cmp eq) (IBinary.new cap) ops = .ok h ∧ IBinary.Inv cmp cap h :=
  exec_of_sim (IBinary.step cmp eq) (IBinary.Inv cmp cap)
    (fun s op inv => by
      obtain ⟨s', r, h1, h2, _⟩ := IBinary.step_sim hc eq s op inv
      exact ⟨s', r, h1, h2⟩)
    ops (IBinary.new cap) (IBinary.inv_new cmp cap)

/-! ### the hypotheses are satisfiable, the statements are not vacuous -/

/-- Go's `generic.NewCompareFunc[int]` -/
def C05.cmpInt (a b : Int) : Int := if a < b then -1 else if a > b then 1 else 0
/-- Go's `generic.NewReverseCompareFunc[int]` -/
def C05.cmpIntRev (a b : Int) : Int := if a > b then -1 else if a < b then 1 else 0

example : LawfulCmp C05.cmpInt :=
  ⟨fun a b h => by unfold C05.cmpInt at *; split at h <;> split <;> (try split) <;> omega,
   fun a b c h1 h2 => by
    unfold C05.cmpInt at *
    split at h1 <;> split at h2 <;> split <;> (try split) <;> (try split at h1) <;> (try split at h2) <;> omega⟩

example : LawfulCmp C05.cmpIntRev :=
  ⟨fun a b h => by unfold C05.cmpIntRev at *; split at h <;> split <;> (try split) <;> omega,
   fun a b c h1 h2 => by
    unfold C05.cmpIntRev at *
    split at h1 <;> split at h2 <;> split <;> (try split) <;> (try split at h1) <;> (try split at h2) <;> omega⟩

/-- a history with an out-of-range insert (D5), a sparse index set with `ContainsKey` (D4), a key increase, a
`DeleteIndex` of an inner entry and deletes: what the Model answers (and `C05_ibinary` says is admitted) -/
example :
    IBinary.run C05.cmpInt (fun (a b : Nat) => a == b) 6
      [.insert 6 1 0, .insert (-1) 1 0, .insert 5 42 7, .containsKey 42, .insert 2 10 8, .insert 0 50 9,
       .insert 5 1 1, .changeKey 5 60, .peek, .deleteIndex 0, .changeKey 3 1, .delete, .delete, .delete, .size]
    = [.ok (.bool false), .ok (.bool false), .ok (.bool true), .ok (.bool true), .ok (.bool true),
       .ok (.bool true), .ok (.bool false), .ok (.bool true), .ok (.ikv (some (2, 10, 8))),
       .ok (.kv (some (50, 9))), .ok (.bool false), .ok (.ikv (some (2, 10, 8))),
       .ok (.ikv (some (5, 60, 7))), .ok (.ikv none), .ok (.int 0)] := by
  decide

/-! ## indexed binomial heap -/

/-- **Indexed binomial heap, full strength.**  Same statement as `C05_ibinary` for the Model of
`heap/indexed_binomial.go`: every call of every history returns (no dangling `nodes[]` pointer, no out-of-range
access, `merge`/`demote` stay within their fuel) and answers what the partial map allows, `Peek`/`Delete`
returning an extremal key. -/
theorem C05_ibinomial {K V : Type} (cmp : K → K → Int) (hc : LawfulCmp cmp) (eq : V → V → Bool) (cap : Nat)
    (ops : List (Op K V)) :
    Admitted cmp eq cap Map.empty ops (IBinomial.run cmp eq cap ops) := by
  have := admitted_of_sim (IBinomial.step cmp eq) (IBinomial.InvO cmp cap) IBinomial.abs
    (fun s op io => IBinomial.step_full hc eq s op io) ops (IBinomial.new cap) (IBinomial.invO_new cmp cap)
  rw [IBinomial.abs_new] at this
  exact this

/-- **Indexed binomial heap, the representation invariant.**  After every history the state exists and
satisfies `IBinomial.InvO`: the index-map invariant `Reg` (the ids of the linked nodes are pairwise distinct,
every linked node `x` is registered as `nodes[x.index] = x`, every non-nil `nodes[i]` is a linked node whose
`index` field is `i` — kept by the content swaps of `promote`, `demote` and `DeleteIndex`), `n` = number of held
indices, and heap order of every (parent, child) pair of the forest (`HO`). -/
theorem C05_ibinomial_invariant {K V : Type} (cmp : K → K → Int) (hc : LawfulCmp cmp) (eq : V → V → Bool)
    (cap : Nat) (ops : List (Op K V)) :
    ∃ h, execWith (IBinomial.step cmp eq) (IBinomial.new cap) ops = .ok h ∧ IBinomial.InvO cmp cap h :=
  exec_of_sim (IBinomial.step cmp eq) (IBinomial.InvO cmp cap)
    (fun s op io => by
      obtain ⟨s', r, h1, h2, _⟩ := IBinomial.step_full hc eq s op io
      exact ⟨s', r, h1, h2⟩)
    ops (IBinomial.new cap) (IBinomial.invO_new cmp cap)

/-- the index-map part needs no comparator law at all: for an arbitrary `cmp` every call still returns and
answers exactly what the partial map prescribes, except that the index returned by `Peek/Delete` is merely held
(`AdmitWeak`) -/
theorem C05_ibinomial_indexmap {K V : Type} (cmp : K → K → Int) (eq : V → V → Bool) (cap : Nat)
    (ops : List (Op K V)) :
    AdmittedG (fun _ _ => True) cmp eq cap Map.empty ops (IBinomial.run cmp eq cap ops) := by
  have := admitted_of_sim (P := fun _ _ => True) (cmp := cmp) (eq := eq) (cap := cap)
    (IBinomial.step cmp eq) (IBinomial.Inv cap) IBinomial.abs
    (fun s op inv => by
      obtain ⟨⟨s', r⟩, hstep⟩ := IBinomial.step_total (cmp := cmp) eq s op inv
      obtain ⟨h1, h2⟩ := IBinomial.step_sim eq s op s' r inv hstep
      exact ⟨s', r, hstep, h1, h2⟩)
    ops (IBinomial.new cap) (IBinomial.inv_new cap)
  rw [IBinomial.abs_new] at this
  exact this

/-! ## indexed Fibonacci heap -/

/-- **Indexed Fibonacci heap, full strength.**  Same statement as `C05_ibinary` for the Model of
`heap/indexed_fibonacci.go`: every call of every history returns — `nodes[i]` always names a linked node,
`roots[x.degree]` is always inside the table of `consolidate` (every tree of degree `d` has at least
`fib (d+2)` nodes although marks are toggled and never cleared, and `fib (d+2) ≤ n` implies
`d < ⌊log_φ n⌋ + 1`), `consolidate` finishes within its fuel — and answers what the partial map allows;
`Peek`/`Delete` return an extremal key (heap order of the forest, `h.ext` before every node; after
`consolidate` every root has been entered into the `roots` table, so the final `pickExt` scan sees them all).
No extra hypothesis on `cmp`: the `ChangeKey` that keeps the old key object when the new key compares equal is
admitted by the Spec as such (`Spec.AdmitG.changeKey_ok`). -/
theorem C05_ifibonacci {K V : Type} (cmp : K → K → Int) (hc : LawfulCmp cmp) (eq : V → V → Bool) (cap : Nat)
    (ops : List (Op K V)) :
    Admitted cmp eq cap Map.empty ops (IFib.run cmp eq cap ops) := by
  have := admitted_of_sim (IFib.step cmp eq) (IFib.InvF cmp cap) IFib.abs
    (fun s op iv => IFib.step_full hc eq s op iv) ops (IFib.new cap) (IFib.invF_new cmp cap)
  rw [IFib.abs_new] at this
  exact this

/-- **Indexed Fibonacci heap, the representation invariant.**  After every history the state exists and
satisfies `IFib.InvF`: the index-map invariant `Reg` (linked node ids pairwise distinct, `nodes[x.index] = x`
for every linked node, every non-nil `nodes[i]` a linked node with `index = i` — through cuts, cascading cuts,
consolidation, melds and root-list rotations), `n` = number of held indices = number of linked nodes, every
`degree` field equals the length of the child list and the child lists satisfy the mark-refined degree bound
(`FN.OK`, `FT.WFc`), heap order of every (parent, child) pair (`HO`) and the entry root before every node
(`ExtAll`). -/
theorem C05_ifibonacci_invariant {K V : Type} (cmp : K → K → Int) (hc : LawfulCmp cmp) (eq : V → V → Bool)
    (cap : Nat) (ops : List (Op K V)) :
    ∃ h, execWith (IFib.step cmp eq) (IFib.new cap) ops = .ok h ∧ IFib.InvF cmp cap h :=
  exec_of_sim (IFib.step cmp eq) (IFib.InvF cmp cap)
    (fun s op iv => by
      obtain ⟨s', r, h1, h2, _⟩ := IFib.step_full hc eq s op iv
      exact ⟨s', r, h1, h2⟩)
    ops (IFib.new cap) (IFib.invF_new cmp cap)

/-- `_partial`: for an *arbitrary* comparator (no law at all) the full statement
`AdmittedG (fun _ _ => True) cmp eq cap Map.empty ops (IFib.run cmp eq cap ops)` is not claimed (with an unlawful
`cmp` the Model's `ChangeKey` may try to make a non-root node the entry of the root list, which the Model
answers with `panic`); what is proved: the index/key/value part holds for every call that
returns: the trace is admitted without the extremality demand up to the first call that does not return, if
any (`AdmittedWhileOk`), and every state reached satisfies the index-map invariant -/
theorem C05_ifibonacci_anycmp_partial {K V : Type} (cmp : K → K → Int) (eq : V → V → Bool) (cap : Nat)
    (ops : List (Op K V)) :
    AdmittedWhileOk (fun _ _ => True) cmp eq cap Map.empty ops (IFib.run cmp eq cap ops) ∧
    ∀ h, execWith (IFib.step cmp eq) (IFib.new cap) ops = .ok h → IFib.Inv cap h := by
  constructor
  · have := admittedWhileOk_of_sim (P := fun _ _ => True) (cmp := cmp) (eq := eq) (cap := cap)
      (IFib.step cmp eq) (IFib.Inv cap) IFib.abs
      (fun s op s' r inv he => IFib.step_sim eq s op s' r inv he) ops (IFib.new cap) (IFib.inv_new cap)
    rw [IFib.abs_new] at this
    exact this
  · intro h he
    exact exec_of_sim_ok (IFib.step cmp eq) (IFib.Inv cap)
      (fun s op s' r inv he => (IFib.step_sim eq s op s' r inv he).1) ops _ _ (IFib.inv_new cap) he

/-- the theorems are not vacuous: on this history (sparse indices, an out-of-range insert, a key
decrease that cuts a node out of its tree, a key increase, a `DeleteIndex` of an inner node) both Models return
from every call -/
example :
    let ops : List (Op Int Nat) :=
      [.insert 9 1 0, .insert 7 50 1, .insert 1 40 2, .insert 4 30 3, .insert 6 20 4, .insert 2 10 5, .delete,
       .changeKey 7 5, .changeKey 6 60, .deleteIndex 4, .containsKey 60, .peek, .delete, .delete, .delete, .size]
    IBinomial.run C05.cmpInt (fun a b => a == b) 8 ops = IFib.run C05.cmpInt (fun a b => a == b) 8 ops ∧
    IFib.run C05.cmpInt (fun a b => a == b) 8 ops =
      [.ok (.bool false), .ok (.bool true), .ok (.bool true), .ok (.bool true), .ok (.bool true),
       .ok (.bool true), .ok (.ikv (some (2, 10, 5))), .ok (.bool true), .ok (.bool true),
       .ok (.kv (some (30, 3))), .ok (.bool true), .ok (.ikv (some (7, 5, 1))), .ok (.ikv (some (7, 5, 1))),
       .ok (.ikv (some (1, 40, 2))), .ok (.ikv (some (6, 60, 4))), .ok (.int 0)] := by
  decide

/-! ## invalid indices: rejected with `false`, in *any* state

Unconditional (no invariant, no comparator law, any state `h` whatsoever): every index-taking call with an index outside
`[0, len(nodes))` (resp. `len(kvs)`) returns normally, answers `false`/`none` and leaves the state unchanged. -/

theorem C05_invalid_index_rejected_ibinary {K V : Type} (cmp : K → K → Int) (h : IBinary K V) (i : Int)
    (hi : i < 0 ∨ i ≥ (h.kvs.size : Int)) (k : K) (v : V) :
    h.insert cmp i k v = .ok (h, false) ∧ h.changeKey cmp i k = .ok (h, false) ∧
    h.deleteIndex cmp i = .ok (h, none) ∧ h.peekIndex i = .ok none ∧ h.containsIndex i = .ok false := by
  have hc : h.containsIndex i = .ok false := by
    unfold IBinary.containsIndex; rw [if_neg (by omega)]
  refine ⟨?_, ?_, ?_, ?_, hc⟩
  · unfold IBinary.insert; rw [if_pos hi]
  · unfold IBinary.changeKey; rw [hc]
  · unfold IBinary.deleteIndex; rw [hc]
  · unfold IBinary.peekIndex; rw [hc]

theorem C05_invalid_index_rejected_ibinomial {K V : Type} (cmp : K → K → Int) (h : IBinomial K V) (i : Int)
    (hi : i < 0 ∨ i ≥ (h.nodes.size : Int)) (k : K) (v : V) :
    h.insert cmp i k v = .ok (h, false) ∧ h.changeKey cmp i k = .ok (h, false) ∧
    h.deleteIndex cmp i = .ok (h, none) ∧ h.peekIndex i = .ok none ∧ h.containsIndex i = false := by
  have hc : h.containsIndex i = false := by
    unfold IBinomial.containsIndex; rw [if_neg (by omega)]
  refine ⟨?_, ?_, ?_, ?_, hc⟩
  · unfold IBinomial.insert; rw [if_pos (by omega)]
  · unfold IBinomial.changeKey; rw [if_pos hc]
  · unfold IBinomial.deleteIndex; rw [if_pos hc]
  · unfold IBinomial.peekIndex; rw [if_pos hc]

theorem C05_invalid_index_rejected_ifibonacci {K V : Type} (cmp : K → K → Int) (h : IFib K V) (i : Int)
    (hi : i < 0 ∨ i ≥ (h.nodes.size : Int)) (k : K) (v : V) :
    h.insert cmp i k v = .ok (h, false) ∧ h.changeKey cmp i k = .ok (h, false) ∧
    h.deleteIndex cmp i = .ok (h, none) ∧ h.peekIndex i = .ok none ∧ h.containsIndex i = false := by
  have hc : h.containsIndex i = false := by
    unfold IFib.containsIndex; rw [if_neg (by omega)]
  refine ⟨?_, ?_, ?_, ?_, hc⟩
  · unfold IFib.insert; rw [if_pos (by omega)]
  · unfold IFib.changeKey; rw [if_pos hc]
  · unfold IFib.deleteIndex; rw [if_pos hc]
  · unfold IFib.peekIndex; rw [if_pos hc]

example : ∃ (h : IFib Int Nat) (i : Int), i < 0 ∨ i ≥ (h.nodes.size : Int) := ⟨IFib.new 3, 3, by decide⟩

/-! ## the same statements about the definitions GENERATED from `heap/indexed_binary.go`

`AlgoVerif.Generated.IHeap.*` (file `Generated/C05Gen.lean`) is produced from `/repo/heap/indexed_binary.go` by the
translator `/verif/extract/go2lean` on every run of this check (`bin/pre-C05`; scheme, subset — in particular the
ownership rule for the `*generic.KeyValue` records that `ChangeKey` assigns through — and what is trusted: header of
`extract/go2lean/main.go`).  `Gen.ofM cmp eq h` reads a state of the hand Model as the generated structure,
`Gen.genStep F` answers one call of the interface with the generated methods (fuel `F` for `promote` / `demote`),
`Gen.genRun` a history from `NewIndexedBinary`.  An edit of the Go source that changes what a method computes changes
the generated file and these stop checking. -/

open AlgoVerif.Generated.IHeap AlgoVerif.C05.Gen

/-- **one call, every state.**  For every state `h` of the hand Model (no invariant), every comparator (no law), every
call and every fuel that covers the hand Model's own (`h.n + 2` and every stored position `+ 1`): the hand Model's
step is `diverge` (fuel), `panic` (it stops earlier than the code in states `C05_ibinary` proves unreachable), or the
generated methods compute exactly the same result and the same next state. -/
theorem C05_generated_ibinary_step_refines {K V : Type} [Inhabited K] [Inhabited V] (cmp : K → K → Int)
    (eq : V → V → Bool) (F : Nat) (h : IBinary K V) (hc : Covers F h) (op : Op K V) :
    IBinary.step cmp eq h op = .diverge ∨ IBinary.step cmp eq h op = .panic ∨
      (IBinary.step cmp eq h op).map (fun r => (ofM cmp eq r.1, r.2)) = genStep F (ofM cmp eq h) op := by
  rcases step_le cmp eq F h hc op with e | e | e
  · left; cases hs : IBinary.step cmp eq h op <;> simp_all [Outcome.map]
  · right; left; cases hs : IBinary.step cmp eq h op <;> simp_all [Outcome.map]
  · right; right; exact e

/-- **every history**: under a lawful comparator the generated methods answer, call by call, exactly what the hand
Model answers (any fuel `≥ cap + 2`) -/
theorem C05_generated_ibinary_run_refines {K V : Type} [Inhabited K] [Inhabited V] (cmp : K → K → Int)
    (hc : LawfulCmp cmp) (eq : V → V → Bool) (cap : Nat) (F : Nat) (hF : cap + 2 ≤ F) (ops : List (Op K V)) :
    genRun F cmp eq cap ops = IBinary.run cmp eq cap ops := genRun_eq hc eq cap F hF ops

/-- **Indexed binary heap, full strength, about the generated definitions**: the statement of `C05_ibinary` -/
theorem C05_generated_ibinary {K V : Type} [Inhabited K] [Inhabited V] (cmp : K → K → Int) (hc : LawfulCmp cmp)
    (eq : V → V → Bool) (cap : Nat) (F : Nat) (hF : cap + 2 ≤ F) (ops : List (Op K V)) :
    Admitted cmp eq cap Map.empty ops (genRun F cmp eq cap ops) := by
  rw [C05_generated_ibinary_run_refines cmp hc eq cap F hF ops]
  exact C05_ibinary cmp hc eq cap ops

/-- the history of the example after `C05_ibinary_invariant`, run on the generated definitions -/
example :
    genRun 8 C05.cmpInt (fun (a b : Nat) => a == b) 6
      [.insert 6 1 0, .insert (-1) 1 0, .insert 5 42 7, .containsKey 42, .insert 2 10 8, .insert 0 50 9,
       .insert 5 1 1, .changeKey 5 60, .peek, .deleteIndex 0, .changeKey 3 1, .delete, .delete, .delete, .size]
    = [.ok (.bool false), .ok (.bool false), .ok (.bool true), .ok (.bool true), .ok (.bool true),
       .ok (.bool true), .ok (.bool false), .ok (.bool true), .ok (.ikv (some (2, 10, 8))),
       .ok (.kv (some (50, 9))), .ok (.bool false), .ok (.ikv (some (2, 10, 8))),
       .ok (.ikv (some (5, 60, 7))), .ok (.ikv none), .ok (.int 0)] := by
  decide
