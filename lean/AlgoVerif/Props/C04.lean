import AlgoVerif.Proofs.C04Binary
import AlgoVerif.Proofs.C04Binomial
import AlgoVerif.Proofs.C04Fib
import AlgoVerif.Proofs.C04MaxDegree
import AlgoVerif.Proofs.C04BinomialShape
import AlgoVerif.Proofs.C04Mixed
import AlgoVerif.Proofs.C04Gen
/-!
# C04 — heaps are priority queues (property theorems; helper lemmas in `Proofs/C04*.lean`)

`Admitted1` / `Admitted` (Spec/C04.lean): every operation of the history returns (no `panic`, no
`diverge`), `Peek`/`Delete` return a held pair whose key is `cmp`-extremal among all held entries,
`Delete` removes exactly that pair, `Size` = number of held entries, `IsEmpty`/`ContainsKey`/`ContainsValue`
answer membership over the held multiset, `Merge` makes the receiver hold the multiset union and leaves the
operand empty (both heaps stay in use afterwards; merging a heap into itself changes nothing; `mergeOther d`, a
`Merge` whose operand is not a heap of the same implementation type, is ignored by the code as documented —
"the new heap must have the same underlying type" — and must leave every heap of the family as it is).
`LawfulCmp cmp`: `cmp` is a total preorder read through its sign (min or max orientation alike).
-/
open AlgoVerif AlgoVerif.C04

/-- Binary heap (`heap/binary.go`): for every lawful comparator, every initial size and every finite
history, the trace of the Model is admitted by the multiset Spec. -/
theorem C04_binary {K V : Type} (cmp : K → K → Int) (hc : LawfulCmp cmp) (eqV : V → V → Bool) (size : Nat)
    (ops : List (Op K V)) :
    Admitted1 cmp eqV [] ops (Binary.run cmp eqV size ops) := by
  have := binary_admitted hc eqV ops (Binary.new size) (BInv_new cmp size)
  rwa [abs_new] at this

/-- non-vacuity: the hypotheses hold for the two `int` comparators the harness uses (and for a preorder with
ties between distinct keys), and a history with duplicate keys, a resize (size 0 → capacity 2 → 4) and a
tie on the extremal key runs as the theorem says. -/
example : LawfulCmp cmpAsc ∧ LawfulCmp cmpDesc ∧ LawfulCmp cmpHalf := ⟨lawful_cmpAsc, lawful_cmpDesc, lawful_cmpHalf⟩
/-- … and for comparators that return arbitrary magnitudes rather than -1/0/+1 -/
example : LawfulCmp cmpSub ∧ LawfulCmp cmpSub7 ∧ LawfulCmp cmpRevSub := ⟨lawful_cmpSub, lawful_cmpSub7, lawful_cmpRevSub⟩
example : Binary.run cmpSub7 (fun a b : Int => a == b) 1
      [.insert 3 1, .insert 1 2, .insert 2 3, .delete, .containsKey 2, .delete, .delete] =
    [.ok .unit, .ok .unit, .ok .unit, .ok (.kv (some (1, 2))), .ok (.bool true),
     .ok (.kv (some (2, 3))), .ok (.kv (some (3, 1)))] := by decide
example : Binary.run cmpAsc (fun a b : Int => a == b) 0
      [.insert 3 1, .insert 1 2, .insert 1 3, .delete, .size, .containsKey 3, .delete, .delete, .delete] =
    [.ok .unit, .ok .unit, .ok .unit, .ok (.kv (some (1, 2))), .ok (.int 2), .ok (.bool true),
     .ok (.kv (some (1, 3))), .ok (.kv (some (3, 1))), .ok (.kv none)] := by decide

/-- Binomial heap (`heap/binomial.go`): for every lawful comparator and every finite history over a family of
heaps (Insert / Delete / DeleteAll / Peek / Size / IsEmpty / ContainsKey / ContainsValue on any heap of the
family, `Merge` of any heap of the family into any heap of the family, with both heaps used further), the trace
of the Model is admitted by the multiset Spec. -/
theorem C04_binomial {K V : Type} (cmp : K → K → Int) (hc : LawfulCmp cmp) (eqV : V → V → Bool)
    (ops : List (MOp K V)) :
    Admitted cmp eqV (fun _ => []) ops ((binomialImpl cmp eqV).run ops) :=
  (binomialRefines hc eqV).admitted ops

/-- non-vacuity: duplicate keys, a Merge of two non-empty heaps (which links twice), a tie on the extremal key,
the operand used again after the Merge, a second Merge of the same operand and a self-Merge. -/
example : (binomialImpl cmpAsc (fun a b : Int => a == b)).run
      [.on 0 (.insert 3 1), .on 0 (.insert 1 2), .on 1 (.insert 1 3), .on 1 (.insert 2 4), .merge 0 1,
       .on 0 .delete, .on 0 .size, .on 1 .size, .on 1 (.insert 0 5), .merge 0 1, .merge 0 0, .on 0 .delete,
       .on 0 .delete, .on 0 (.containsKey 3)] =
    [.ok .unit, .ok .unit, .ok .unit, .ok .unit, .ok .unit,
     .ok (.kv (some (1, 2))), .ok (.int 3), .ok (.int 0), .ok .unit, .ok .unit, .ok .unit, .ok (.kv (some (0, 5))),
     .ok (.kv (some (1, 3))), .ok (.bool true)] := by
  simp [Impl.run, Impl.runFrom, Impl.mstep, binomialImpl, Binomial.step, update, Binomial.insert, Binomial.union,
    Binomial.merge, Binomial.consolidate, Binomial.consLoop, Binomial.new, Tree.leaf, Tree.deg,
    Binomial.sibSameOrder, Tree.link, cmpAsc, Tree.key, Binomial.mergeWith, Binomial.delete, Binomial.findExt,
    Binomial.findExtLoop, Tree.children, Tree.val, Binomial.containsKey, Tree.anyF, Tree.any]

/-- non-vacuity for `mergeOther` (an operand of another type): the receiver keeps its two entries. -/
example : (binomialImpl cmpAsc (fun a b : Int => a == b)).run
      [.on 0 (.insert 3 1), .on 0 (.insert 1 2), .mergeOther 0, .on 0 .size, .on 0 .delete, .mergeOther 1, .on 0 .delete] =
    [.ok .unit, .ok .unit, .ok .unit, .ok (.int 2), .ok (.kv (some (1, 2))), .ok .unit, .ok (.kv (some (3, 1)))] := by
  simp [Impl.run, Impl.runFrom, Impl.mstep, binomialImpl, Binomial.step, update, Binomial.insert, Binomial.union,
    Binomial.merge, Binomial.consolidate, Binomial.consLoop, Binomial.new, Tree.leaf, Tree.deg,
    Binomial.sibSameOrder, Tree.link, cmpAsc, Tree.key, Binomial.delete, Binomial.findExt,
    Binomial.findExtLoop, Tree.children, Tree.val]

/-- Fibonacci heap (`heap/fibonacci.go`): for every lawful comparator and every finite history over a family of
heaps, the trace of the Model is admitted by the multiset Spec.  In particular `consolidate` never indexes
`roots` out of range (every tree is an unordered binomial tree, so `2 ^ degree ≤ n` and
`degree < maxDegree n`), never follows a pointer to a node already cut from the root list, returns within
its `(number of roots + 1)²` iterations, and leaves `h.ext` on a root with an extremal key. -/
theorem C04_fibonacci {K V : Type} (cmp : K → K → Int) (hc : LawfulCmp cmp) (eqV : V → V → Bool)
    (ops : List (MOp K V)) :
    Admitted cmp eqV (fun _ => []) ops ((fibImpl cmp eqV).run ops) :=
  (fibRefines hc eqV).admitted ops

/-- non-vacuity (max orientation): lazy inserts, a Merge of two non-empty heaps, a Delete whose `consolidate`
links three times (root list `3 2 4 5` → one tree of degree 2), a tie on the extremal key `5`, the operand used
again after the Merge and merged a second time. -/
example : (fibImpl cmpDesc (fun a b : Int => a == b)).run
      [.on 0 (.insert 3 1), .on 0 (.insert 5 2), .on 1 (.insert 5 3), .on 1 (.insert 2 4), .on 1 (.insert 4 5),
       .merge 0 1, .on 0 .delete, .on 0 .size, .on 1 .size, .on 1 (.insert 9 6), .merge 0 1, .on 0 .delete,
       .on 0 .delete, .on 0 (.containsKey 3)] =
    [.ok .unit, .ok .unit, .ok .unit, .ok .unit, .ok .unit, .ok .unit,
     .ok (.kv (some (5, 2))), .ok (.int 4), .ok (.int 0), .ok .unit, .ok .unit, .ok (.kv (some (9, 6))),
     .ok (.kv (some (5, 3))), .ok (.bool true)] := by
  decide

/-- non-vacuity for `mergeOther` (an operand of another type): the receiver keeps its two entries. -/
example : (fibImpl cmpDesc (fun a b : Int => a == b)).run
      [.on 0 (.insert 3 1), .on 0 (.insert 5 2), .mergeOther 0, .on 0 .size, .on 0 .delete, .mergeOther 1, .on 0 .delete] =
    [.ok .unit, .ok .unit, .ok .unit, .ok (.int 2), .ok (.kv (some (5, 2))), .ok .unit, .ok (.kv (some (3, 1)))] := by
  decide

/-- The arithmetic behind `roots[x.degree]` being in range: a tree of degree `d` that fits into `n` nodes
(`2 ^ d ≤ n`, which holds for the unordered binomial trees of the plain Fibonacci heap) has
`d < maxDegree n` for the integer `maxDegree` of the Model (`⌊log_φ n⌋ + 1`). -/
theorem C04_fibonacci_degree_in_range (n d : Nat) (h : 2 ^ d ≤ n) : maxDegree (n : Int) = .ok (floorLogPhi n + 1) ∧
    d < floorLogPhi n + 1 := by
  have hpos : 0 < n := Nat.lt_of_lt_of_le (Nat.two_pow_pos d) h
  refine ⟨?_, deg_lt_maxDegree n d h⟩
  unfold maxDegree
  rw [if_neg (by omega)]
  simp

/-- non-vacuity: 13 nodes can hold a tree of degree 3 (8 nodes); `maxDegree 13 = 6`. -/
example : maxDegree (13 : Int) = .ok 6 ∧ 3 < floorLogPhi 13 + 1 := by decide

/-- The integer `maxDegree` of the Model is exactly `⌊log_φ n⌋ + 1`: `floorLogPhi n` is the largest `k` with
`φ^k ≤ n`, where `φ^k ≤ n` is written over the integers through Binet's closed form
`φ^k = (L_k + F_k·√5)/2` as `PhiLe k n : L_k ≤ 2n ∧ 5·F_k² ≤ (2n − L_k)²`.  (What remains outside Lean is the
closed form itself and the agreement of Go's `float64` computation with this exact value, which the harness
checks for every `n` of a range on each run.) -/
theorem C04_fibonacci_maxDegree_exact (n : Nat) (hn : 1 ≤ n) :
    maxDegree (n : Int) = .ok (floorLogPhi n + 1) ∧
    (∀ k, k ≤ floorLogPhi n → PhiLe k n) ∧ (∀ k, floorLogPhi n < k → ¬ PhiLe k n) := by
  refine ⟨?_, floorLogPhi_spec n hn⟩
  unfold maxDegree
  rw [if_neg (by omega)]
  simp

/-- non-vacuity: `φ^3 ≈ 4.24 ≤ 5 < φ^4 ≈ 6.85`, and `floorLogPhi 5 = 3`. -/
example : floorLogPhi 5 = 3 ∧ PhiLe 3 5 ∧ ¬ PhiLe 4 5 := by
  refine ⟨by decide, ?_, ?_⟩ <;> (unfold PhiLe; decide)

/-- Structural property of the binomial heap (what the Go `verify()` checks besides heap order; not needed for
the priority-queue property): after every history over a family of heaps, in every heap the root list is
strictly increasing in order and every tree is a binomial tree (a node of order `k` has children of orders
`k-1, …, 0`). -/
theorem C04_binomial_shape {K V : Type} (cmp : K → K → Int) (hc : LawfulCmp cmp) (eqV : V → V → Bool)
    (ops : List (MOp K V)) (regs : Nat → Binomial K V)
    (hrun : (binomialImpl cmp eqV).stateAfter (fun _ => Binomial.new) ops = .ok regs) (r : Nat) :
    (regs r).head.Pairwise (fun a b => a.deg < b.deg) ∧ ∀ t ∈ (regs r).head, Tree.Binom t :=
  have h := binomial_shape hc eqV ops (fun _ => Binomial.new) regs (fun _ => BShape_new) hrun r
  ⟨h.sorted, h.binom⟩

/-- non-vacuity: the hypothesis holds for a history that builds the forest `[order 0, order 2]` out of 5 items. -/
example : (match (binomialImpl cmpAsc (fun a b : Int => a == b)).stateAfter (fun _ => Binomial.new)
      [.on 0 (.insert 3 1), .on 0 (.insert 1 2), .on 1 (.insert 1 3), .on 1 (.insert 2 4), .merge 0 1,
       .on 0 (.insert 7 5)] with
    | .ok regs => some ((regs 0).head.map (·.deg))
    | _ => none) = some [0, 2] := by
  simp [Impl.stateAfter, Impl.mstep, binomialImpl, Binomial.step, update, Binomial.insert, Binomial.union,
    Binomial.merge, Binomial.consolidate, Binomial.consLoop, Binomial.new, Tree.leaf, Tree.deg,
    Binomial.sibSameOrder, Tree.link, cmpAsc, Tree.key, Binomial.mergeWith]

/-! ## heaps of one family built with different comparators

`NewBinomial` / `NewFibonacci` store the comparator in the heap and `Merge` only asserts the implementation type of
its operand, so two heaps built with different comparator FUNCTIONS can be merged; the receiver's code then runs
with the receiver's comparator on the operand's trees (`ImplC.run cmps`: heap `r` of the family is built with
`cmps r`).  When all of them are comparators of one order — they agree in sign with a lawful `cmp` (`SignEq`), as
`min`, `a - b` and `7 * (a - b)` do — the family is a family of priority queues of that order: every history is
admitted by the Spec for `cmp`, Merge between any two of them included.  (For comparators of different orders —
a min-heap merged into a max-heap — the property promises nothing about extremality: the Model still says what
the code does and the harness compares it, the oracle then only claims the union of the entries.) -/

/-- Binomial heaps built with different comparators of one order. -/
theorem C04_binomial_mixed_comparators {K V : Type} (cmp : K → K → Int) (hc : LawfulCmp cmp) (eqV : V → V → Bool)
    (cmps : Nat → K → K → Int) (hs : ∀ r, SignEq (cmps r) cmp) (ops : List (MOp K V)) :
    Admitted cmp eqV (fun _ => []) ops ((binomialImplC eqV).run cmps ops) := by
  rw [binomial_mixed_run cmp eqV cmps hs ops]
  exact C04_binomial cmp hc eqV ops

/-- Fibonacci heaps built with different comparators of one order. -/
theorem C04_fibonacci_mixed_comparators {K V : Type} (cmp : K → K → Int) (hc : LawfulCmp cmp) (eqV : V → V → Bool)
    (cmps : Nat → K → K → Int) (hs : ∀ r, SignEq (cmps r) cmp) (ops : List (MOp K V)) :
    Admitted cmp eqV (fun _ => []) ops ((fibImplC eqV).run cmps ops) := by
  rw [fib_mixed_run cmp eqV cmps hs ops]
  exact C04_fibonacci cmp hc eqV ops

/-- non-vacuity: heap 0 built with the normalised comparator, heap 1 with `a - b`, heap 2 with `7 * (a - b)`: the
hypothesis holds, and a history that merges heap 1 into heap 0, heap 0 into heap 2 and drains heap 2 runs as the
theorem says (both implementations). -/
example : ∀ r, SignEq ((fun r : Nat => if r % 3 = 0 then cmpAsc else if r % 3 = 1 then cmpSub else cmpSub7) r) cmpAsc := by
  intro r
  show SignEq (if r % 3 = 0 then cmpAsc else if r % 3 = 1 then cmpSub else cmpSub7) cmpAsc
  split
  · exact SignEq.refl _
  · split
    · exact signEq_cmpSub
    · exact signEq_cmpSub7
example : (fibImplC (fun a b : Int => a == b)).run
      (fun r : Nat => if r % 3 = 0 then cmpAsc else if r % 3 = 1 then cmpSub else cmpSub7)
      [.on 0 (.insert 3 1), .on 1 (.insert 1 2), .on 1 (.insert 5 3), .on 1 .delete, .on 1 (.insert 4 4), .merge 0 1,
       .on 2 (.insert 2 5), .merge 2 0, .on 0 .size, .on 2 .delete, .on 2 .delete, .on 2 .delete, .on 2 .delete,
       .on 2 .delete] =
    [.ok .unit, .ok .unit, .ok .unit, .ok (.kv (some (1, 2))), .ok .unit, .ok .unit, .ok .unit, .ok .unit,
     .ok (.int 0), .ok (.kv (some (2, 5))), .ok (.kv (some (3, 1))), .ok (.kv (some (4, 4))),
     .ok (.kv (some (5, 3))), .ok (.kv none)] := by
  decide
example : (binomialImplC (fun a b : Int => a == b)).run
      (fun r : Nat => if r % 3 = 0 then cmpAsc else if r % 3 = 1 then cmpSub else cmpSub7)
      [.on 0 (.insert 3 1), .on 1 (.insert 1 2), .on 1 (.insert 5 3), .on 1 .delete, .on 1 (.insert 4 4), .merge 0 1,
       .on 2 (.insert 2 5), .merge 2 0, .on 0 .size, .on 2 .delete, .on 2 .delete] =
    [.ok .unit, .ok .unit, .ok .unit, .ok (.kv (some (1, 2))), .ok .unit, .ok .unit, .ok .unit, .ok .unit,
     .ok (.int 0), .ok (.kv (some (2, 5))), .ok (.kv (some (3, 1)))] := by
  simp [ImplC.run, ImplC.runFrom, ImplC.mstep, binomialImplC, Binomial.step, update, Binomial.insert, Binomial.union,
    Binomial.merge, Binomial.consolidate, Binomial.consLoop, Binomial.new, Tree.leaf, Tree.deg,
    Binomial.sibSameOrder, Tree.link, cmpSub, cmpSub7, Tree.key, Binomial.mergeWith, Binomial.delete,
    Binomial.findExt, Binomial.findExtLoop, Tree.children, Tree.val]

/-! ## the second tie (binary heap): the Model REGENERATED from the source

`AlgoVerif.Generated.Heap.*` (file `Generated/C04Gen.lean`) is produced from `/repo/heap/binary.go` by the
translator `/verif/extract/go2lean` on every run of this check (`bin/pre-C04`; `DOT` and the test-only `verify` are
excluded by name; scheme, subset and what is trusted: header of `extract/go2lean/main.go`).  The hand Model keeps
the count and every index as a `Nat` and a cell `*generic.KeyValue` as `Option (K × V)`; `Gen.toM` reads the
generated structure (count `Int`, cells `Option (KeyValue K V)`) as the Model's, for states with `0 ≤ h.n` — the
only ones the Model can express.  `x = .diverge ∨ x = y` ("refines"): the hand Model ran out of ITS fuel — which
`C04_binary` excludes for the states that occur — or the generated definition, given at least the stated fuel,
returns exactly the same outcome (same heap array, same result, same panic).  Each theorem is per operation, for
ANY state with `0 ≤ h.n` (reachable or not) and any callbacks.  An edit of `binary.go` that changes what a method
computes changes the generated file and these stop checking.  (`binomial.go`, `fibonacci.go`: pointer-linked trees,
outside the translator's subset.) -/

open AlgoVerif.Generated.Heap AlgoVerif.C04.Gen

/-- `NewBinary`, `DeleteAll`, `Size`, `IsEmpty`, `Peek` (no loop: equalities) -/
theorem C04_generated_binary_simple {K V : Type} [Inhabited K] [Inhabited V] (h : binary K V) (hn : 0 ≤ h.n)
    (size : Nat) (cmp : K → K → Int) (eq : V → V → Bool) :
    (NewBinary (size : Int) cmp eq).map toM = .ok (Binary.new size) ∧
    (binary.DeleteAll h).map toM = .ok (toM h).deleteAll ∧
    binary.Size h = ((toM h).n : Int) ∧ binary.IsEmpty h = decide ((toM h).n = 0) ∧
    (binary.Peek h).map kvOpt = (toM h).peek :=
  ⟨NewBinary_eq size cmp eq, DeleteAll_eq h, Size_eq h hn, IsEmpty_eq h hn, Peek_eq h hn⟩

/-- `ContainsKey`, `ContainsValue`: counted loops with a `return` inside (no fuel on the generated side) -/
theorem C04_generated_binary_contains_refines {K V : Type} [Inhabited K] [Inhabited V] (h : binary K V)
    (hn : 0 ≤ h.n) (key : K) (val : V) :
    ((toM h).containsKey h.cmpKey key = .diverge ∨ (toM h).containsKey h.cmpKey key = binary.ContainsKey h key) ∧
    ((toM h).containsValue h.eqVal val = .diverge ∨
      (toM h).containsValue h.eqVal val = binary.ContainsValue h val) :=
  ⟨ContainsKey_le h hn key, ContainsValue_le h hn val⟩

/-- `Insert` (optional `resize`, the swim loop, the store) with any fuel `≥ h.n + 2` -/
theorem C04_generated_binary_insert_refines {K V : Type} [Inhabited K] [Inhabited V] (h : binary K V)
    (hn : 0 ≤ h.n) (key : K) (val : V) (fuel : Nat) (hf : h.n.toNat + 2 ≤ fuel) :
    Binary.insert h.cmpKey (toM h) key val = .diverge ∨
      Binary.insert h.cmpKey (toM h) key val = (binary.Insert fuel h key val).map toM := by
  obtain ⟨d, rfl⟩ : ∃ d, fuel = h.n.toNat + 2 + d := ⟨fuel - (h.n.toNat + 2), by omega⟩
  exact Insert_le h hn key val d

/-- `Delete` (the sink loop with its `break`, two stores, optional `resize`) with any fuel `≥ h.n + 1`; Go's
`(K, V, bool)` result is read as the Model's `Option (K × V)` -/
theorem C04_generated_binary_delete_refines {K V : Type} [Inhabited K] [Inhabited V] (h : binary K V)
    (hn : 0 ≤ h.n) (fuel : Nat) (hf : h.n.toNat + 1 ≤ fuel) :
    Binary.delete h.cmpKey (toM h) = .diverge ∨
      Binary.delete h.cmpKey (toM h) = (binary.Delete fuel h).map (fun r => (toM r.1, kvOpt r.2)) := by
  obtain ⟨d, rfl⟩ : ∃ d, fuel = h.n.toNat + 1 + d := ⟨fuel - (h.n.toNat + 1), by omega⟩
  exact Delete_le h hn d

-- non-vacuity: the generated definitions compute (insert 5, 3, 8 into a heap of initial size 1, then delete the
-- minimum): keys come out in order and the array was resized on the way
example :
    (do let h0 ← NewBinary (K := Int) (V := Int) 1 (fun a b => a - b) (fun a b => a == b)
        let h1 ← binary.Insert 9 h0 5 50
        let h2 ← binary.Insert 9 h1 3 30
        let h3 ← binary.Insert 9 h2 8 80
        let (h4, k, v, ok) ← binary.Delete 9 h3
        pure (k, v, ok, h4.n, h4.heap.size, binary.Size h3)) = .ok (3, 30, true, 2, 4, 3) := by decide
