import AlgoVerif.Common
/-! # C04 — property theorems (none yet) -/
