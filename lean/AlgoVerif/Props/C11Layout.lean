import AlgoVerif.Generated.Layout

/-! # C11: the state space the Model was written for (written by bin/mklayout, checked on every run)

The hand Model mirrors the Go code's state: the fields of its structs and nothing else (no package-level
variables).  `AlgoVerif.Generated.Layout` is regenerated from /repo by the extractor on every check; the theorems
below pin, for every source file the Model mirrors, the struct types it declares, their fields (name : type) and
the package-level variables it declares.  A new field — a cache, a memoised result, a scratch buffer, a counter —
a new struct type or a new package-level variable is state the Model does not describe: the theorems of
`Props/C11.lean` then no longer speak about the code, the obligation here breaks, and the check searches for
a failing input with the enlarged budget (DESIGN.md §4.6). -/

open AlgoVerif.Generated

-- parser/lr/lr.go
theorem C11_layout_types_parser_lr_lr : Layout.types_parser_lr_lr = ["Parser", "Value"] := rfl
theorem C11_layout_vars_parser_lr_lr : Layout.vars_parser_lr_lr = [] := rfl
theorem C11_layout_parser_lr_Parser : Layout.parser_lr_Parser =
    ["L : lexer.Lexer", "T : *ParsingTable"] := rfl
theorem C11_layout_parser_lr_Value : Layout.parser_lr_Value =
    ["Val : any", "Pos : *lexer.Position"] := rfl

-- parser/lr/automaton.go
theorem C11_layout_types_parser_lr_automaton : Layout.types_parser_lr_automaton = ["automaton", "kernelAutomaton", "calculator0", "calculator1"] := rfl
theorem C11_layout_vars_parser_lr_automaton : Layout.vars_parser_lr_automaton = [] := rfl
theorem C11_layout_parser_lr_automaton : Layout.parser_lr_automaton =
    ["G : *grammar.CFG", "(embedded) : calculator"] := rfl
theorem C11_layout_parser_lr_kernelAutomaton : Layout.parser_lr_kernelAutomaton =
    ["G : *grammar.CFG", "(embedded) : calculator"] := rfl
theorem C11_layout_parser_lr_calculator0 : Layout.parser_lr_calculator0 =
    ["G : *grammar.CFG"] := rfl
theorem C11_layout_parser_lr_calculator1 : Layout.parser_lr_calculator1 =
    ["G : *grammar.CFG", "FIRST : grammar.FIRST"] := rfl

-- parser/lr/item.go
theorem C11_layout_types_parser_lr_item : Layout.types_parser_lr_item = ["Item0", "Item1", "itemSetStringer", "itemSetCollectionStringer"] := rfl
theorem C11_layout_vars_parser_lr_item : Layout.vars_parser_lr_item = ["EqItem", "CmpItem", "EqItemSet", "CmpItemSet"] := rfl
theorem C11_layout_parser_lr_Item0 : Layout.parser_lr_Item0 =
    ["(embedded) : *grammar.Production", "Start : grammar.NonTerminal", "Dot : int"] := rfl
theorem C11_layout_parser_lr_Item1 : Layout.parser_lr_Item1 =
    ["(embedded) : *grammar.Production", "Start : grammar.NonTerminal", "Dot : int", "Lookahead : grammar.Terminal"] := rfl
theorem C11_layout_parser_lr_itemSetStringer : Layout.parser_lr_itemSetStringer =
    ["state : *State", "items : []Item", "b : bytes.Buffer", "width : int"] := rfl
theorem C11_layout_parser_lr_itemSetCollectionStringer : Layout.parser_lr_itemSetCollectionStringer =
    ["sets : []ItemSet"] := rfl

-- parser/lr/state.go
theorem C11_layout_types_parser_lr_state : Layout.types_parser_lr_state = [] := rfl
theorem C11_layout_vars_parser_lr_state : Layout.vars_parser_lr_state = ["EqState", "HashState", "CmpState"] := rfl

-- parser/lr/parsing_table.go
theorem C11_layout_types_parser_lr_parsing_table : Layout.types_parser_lr_parsing_table = ["ParsingTable", "tableStringer"] := rfl
theorem C11_layout_vars_parser_lr_parsing_table : Layout.vars_parser_lr_parsing_table = [] := rfl
theorem C11_layout_parser_lr_ParsingTable : Layout.parser_lr_ParsingTable =
    ["States : []State", "Terminals : []grammar.Terminal", "NonTerminals : []grammar.NonTerminal", "precedences : PrecedenceLevels", "actions : symboltable.SymbolTable[State, symboltable.SymbolTable[grammar.Terminal, set.Set[*Action]]]", "gotos : symboltable.SymbolTable[State, symboltable.SymbolTable[grammar.NonTerminal, State]]"] := rfl
theorem C11_layout_parser_lr_tableStringer : Layout.parser_lr_tableStringer =
    ["K1Title : string", "K1Values : []K1", "K2Title : string", "K2Values : []K2", "K3Title : string", "K3Values : []K3", "GetK1K2 : func(K1, K2) string", "GetK1K3 : func(K1, K3) string", "b : bytes.Buffer", "cLens : []int", "tLen : int"] := rfl

-- parser/lr/precedence.go
theorem C11_layout_types_parser_lr_precedence : Layout.types_parser_lr_precedence = ["Precedence", "ActionHandlePair", "PrecedenceLevel", "PrecedenceHandle"] := rfl
theorem C11_layout_vars_parser_lr_precedence : Layout.vars_parser_lr_precedence = [] := rfl
theorem C11_layout_parser_lr_Precedence : Layout.parser_lr_Precedence =
    ["Order : int", "(embedded) : Associativity"] := rfl
theorem C11_layout_parser_lr_ActionHandlePair : Layout.parser_lr_ActionHandlePair =
    ["Action : *Action", "Handle : *PrecedenceHandle"] := rfl
theorem C11_layout_parser_lr_PrecedenceLevel : Layout.parser_lr_PrecedenceLevel =
    ["Associativity : Associativity", "Handles : PrecedenceHandles"] := rfl
theorem C11_layout_parser_lr_PrecedenceHandle : Layout.parser_lr_PrecedenceHandle =
    ["(embedded) : *grammar.Terminal", "(embedded) : *grammar.Production"] := rfl

-- parser/lr/conflict.go
theorem C11_layout_types_parser_lr_conflict : Layout.types_parser_lr_conflict = ["ConflictError", "precedenceHandleGroup"] := rfl
theorem C11_layout_vars_parser_lr_conflict : Layout.vars_parser_lr_conflict = [] := rfl
theorem C11_layout_parser_lr_ConflictError : Layout.parser_lr_ConflictError =
    ["State : State", "Terminal : grammar.Terminal", "Actions : set.Set[*Action]"] := rfl
theorem C11_layout_parser_lr_precedenceHandleGroup : Layout.parser_lr_precedenceHandleGroup =
    ["reduces : PrecedenceHandles", "shifts : PrecedenceHandles"] := rfl

-- parser/lr/grammar.go
theorem C11_layout_types_parser_lr_grammar : Layout.types_parser_lr_grammar = ["Grammar"] := rfl
theorem C11_layout_vars_parser_lr_grammar : Layout.vars_parser_lr_grammar = ["primeSuffixes"] := rfl
theorem C11_layout_parser_lr_Grammar : Layout.parser_lr_Grammar =
    ["(embedded) : *grammar.CFG", "(embedded) : Automaton"] := rfl

-- parser/lr/action.go
theorem C11_layout_types_parser_lr_action : Layout.types_parser_lr_action = ["Action"] := rfl
theorem C11_layout_vars_parser_lr_action : Layout.vars_parser_lr_action = ["eqAction", "eqActionSet"] := rfl
theorem C11_layout_parser_lr_Action : Layout.parser_lr_Action =
    ["Type : ActionType", "State : State", "Production : *grammar.Production"] := rfl

-- parser/lr/simple/parsing_table.go
theorem C11_layout_types_parser_lr_simple_parsing_table : Layout.types_parser_lr_simple_parsing_table = [] := rfl
theorem C11_layout_vars_parser_lr_simple_parsing_table : Layout.vars_parser_lr_simple_parsing_table = [] := rfl

-- parser/lr/lookahead/parsing_table.go
theorem C11_layout_types_parser_lr_lookahead_parsing_table : Layout.types_parser_lr_lookahead_parsing_table = ["scopedItem", "propagationTable", "lookaheadTable"] := rfl
theorem C11_layout_vars_parser_lr_lookahead_parsing_table : Layout.vars_parser_lr_lookahead_parsing_table = [] := rfl
theorem C11_layout_parser_lr_lookahead_scopedItem : Layout.parser_lr_lookahead_scopedItem =
    ["ItemSet : lr.State", "Item : int"] := rfl
theorem C11_layout_parser_lr_lookahead_propagationTable : Layout.parser_lr_lookahead_propagationTable =
    ["S : lr.StateMap", "table : symboltable.SymbolTable[*scopedItem, set.Set[*scopedItem]]"] := rfl
theorem C11_layout_parser_lr_lookahead_lookaheadTable : Layout.parser_lr_lookahead_lookaheadTable =
    ["S : lr.StateMap", "table : symboltable.SymbolTable[*scopedItem, set.Set[grammar.Terminal]]"] := rfl

-- parser/lr/canonical/parsing_table.go
theorem C11_layout_types_parser_lr_canonical_parsing_table : Layout.types_parser_lr_canonical_parsing_table = [] := rfl
theorem C11_layout_vars_parser_lr_canonical_parsing_table : Layout.vars_parser_lr_canonical_parsing_table = [] := rfl

-- parser/ast.go
theorem C11_layout_types_parser_ast : Layout.types_parser_ast = ["InternalNode", "LeafNode"] := rfl
theorem C11_layout_vars_parser_ast : Layout.vars_parser_ast = ["EqNode"] := rfl
theorem C11_layout_parser_InternalNode : Layout.parser_InternalNode =
    ["NonTerminal : grammar.NonTerminal", "Production : *grammar.Production", "Children : []Node", "annotation : any"] := rfl
theorem C11_layout_parser_LeafNode : Layout.parser_LeafNode =
    ["Terminal : grammar.Terminal", "Lexeme : string", "Position : lexer.Position", "annotation : any"] := rfl
