import AlgoVerif.Generated.Layout

/-! # C05: the state space the Model was written for (written by bin/mklayout, checked on every run)

The hand Model mirrors the Go code's state: the fields of its structs and nothing else (no package-level
variables).  `AlgoVerif.Generated.Layout` is regenerated from /repo by the extractor on every check; the theorems
below pin, for every source file the Model mirrors, the struct types it declares, their fields (name : type) and
the package-level variables it declares.  A new field — a cache, a memoised result, a scratch buffer, a counter —
a new struct type or a new package-level variable is state the Model does not describe: the theorems of
`Props/C05.lean` then no longer speak about the code, the obligation here breaks, and the check searches for
a failing input with the enlarged budget (DESIGN.md §4.6). -/

open AlgoVerif.Generated

-- heap/indexed_binary.go
theorem C05_layout_types_heap_indexed_binary : Layout.types_heap_indexed_binary = ["indexedBinary"] := rfl
theorem C05_layout_vars_heap_indexed_binary : Layout.vars_heap_indexed_binary = [] := rfl
theorem C05_layout_heap_indexedBinary : Layout.heap_indexedBinary =
    ["cmpKey : generic.CompareFunc[K]", "eqVal : generic.EqualFunc[V]", "n : int", "heap : []int", "pos : []int", "kvs : []*generic.KeyValue[K, V]"] := rfl

-- heap/indexed_binomial.go
theorem C05_layout_types_heap_indexed_binomial : Layout.types_heap_indexed_binomial = ["indexedBinomialNode", "indexedBinomial"] := rfl
theorem C05_layout_vars_heap_indexed_binomial : Layout.vars_heap_indexed_binomial = [] := rfl
theorem C05_layout_heap_indexedBinomialNode : Layout.heap_indexedBinomialNode =
    ["index : int", "key : K", "val : V", "order : int", "parent : *indexedBinomialNode[K, V]", "child : *indexedBinomialNode[K, V]", "sibling : *indexedBinomialNode[K, V]"] := rfl
theorem C05_layout_heap_indexedBinomial : Layout.heap_indexedBinomial =
    ["cmpKey : generic.CompareFunc[K]", "eqVal : generic.EqualFunc[V]", "n : int", "head : *indexedBinomialNode[K, V]", "nodes : []*indexedBinomialNode[K, V]"] := rfl

-- heap/indexed_fibonacci.go
theorem C05_layout_types_heap_indexed_fibonacci : Layout.types_heap_indexed_fibonacci = ["indexedFibonacciNode", "indexedFibonacci"] := rfl
theorem C05_layout_vars_heap_indexed_fibonacci : Layout.vars_heap_indexed_fibonacci = [] := rfl
theorem C05_layout_heap_indexedFibonacciNode : Layout.heap_indexedFibonacciNode =
    ["index : int", "key : K", "val : V", "degree : int", "mark : bool", "parent : *indexedFibonacciNode[K, V]", "child : *indexedFibonacciNode[K, V]", "prev : *indexedFibonacciNode[K, V]", "next : *indexedFibonacciNode[K, V]"] := rfl
theorem C05_layout_heap_indexedFibonacci : Layout.heap_indexedFibonacci =
    ["cmpKey : generic.CompareFunc[K]", "eqVal : generic.EqualFunc[V]", "n : int", "ext : *indexedFibonacciNode[K, V]", "nodes : []*indexedFibonacciNode[K, V]"] := rfl

-- heap/heap.go
theorem C05_layout_types_heap_heap : Layout.types_heap_heap = [] := rfl
theorem C05_layout_vars_heap_heap : Layout.vars_heap_heap = [] := rfl
