import AlgoVerif.Generated.Layout

/-! # C08: the state space the Model was written for (written by bin/mklayout, checked on every run)

The hand Model mirrors the Go code's state: the fields of its structs and nothing else (no package-level
variables).  `AlgoVerif.Generated.Layout` is regenerated from /repo by the extractor on every check; the theorems
below pin, for every source file the Model mirrors, the struct types it declares, their fields (name : type) and
the package-level variables it declares.  A new field — a cache, a memoised result, a scratch buffer, a counter —
a new struct type or a new package-level variable is state the Model does not describe: the theorems of
`Props/C08.lean` then no longer speak about the code, the obligation here breaks, and the check searches for
a failing input with the enlarged budget (DESIGN.md §4.6). -/

open AlgoVerif.Generated

-- grammar/cfg.go
theorem C08_layout_types_grammar_cfg : Layout.types_grammar_cfg = ["CFG"] := rfl
theorem C08_layout_vars_grammar_cfg : Layout.vars_grammar_cfg = ["primeSuffixes", "alphabeticSuffixes", "numericSuffixes"] := rfl
theorem C08_layout_grammar_CFG : Layout.grammar_CFG =
    ["Terminals : set.Set[Terminal]", "NonTerminals : set.Set[NonTerminal]", "Productions : *Productions", "Start : NonTerminal"] := rfl

-- grammar/production.go
theorem C08_layout_types_grammar_production : Layout.types_grammar_production = ["Production", "Productions"] := rfl
theorem C08_layout_vars_grammar_production : Layout.vars_grammar_production = ["CmpProduction", "HashProduction", "EqProduction", "EqProductionSet"] := rfl
theorem C08_layout_grammar_Production : Layout.grammar_Production =
    ["Head : NonTerminal", "Body : String[Symbol]"] := rfl
theorem C08_layout_grammar_Productions : Layout.grammar_Productions =
    ["table : symboltable.SymbolTable[NonTerminal, set.Set[*Production]]"] := rfl

-- grammar/string.go
theorem C08_layout_types_grammar_string : Layout.types_grammar_string = [] := rfl
theorem C08_layout_vars_grammar_string : Layout.vars_grammar_string = ["E", "CmpString", "HashString", "EqString", "eqStringSet"] := rfl

-- grammar/symbol.go
theorem C08_layout_types_grammar_symbol : Layout.types_grammar_symbol = [] := rfl
theorem C08_layout_vars_grammar_symbol : Layout.vars_grammar_symbol = ["EqSymbol", "CmpSymbol", "HashSymbol", "EqTerminal", "CmpTerminal", "HashTerminal", "EqNonTerminal", "CmpNonTerminal", "HashNonTerminal"] := rfl
