import AlgoVerif.Generated.Layout

/-! # C18: the state space the Model was written for (written by bin/mklayout, checked on every run)

The hand Model mirrors the Go code's state: the fields of its structs and nothing else (no package-level
variables).  `AlgoVerif.Generated.Layout` is regenerated from /repo by the extractor on every check; the theorems
below pin, for every source file the Model mirrors, the struct types it declares, their fields (name : type) and
the package-level variables it declares.  A new field — a cache, a memoised result, a scratch buffer, a counter —
a new struct type or a new package-level variable is state the Model does not describe: the theorems of
`Props/C18.lean` then no longer speak about the code, the obligation here breaks, and the check searches for
a failing input with the enlarged budget (DESIGN.md §4.6). -/

open AlgoVerif.Generated

-- list/list.go
theorem C18_layout_types_list_list : Layout.types_list_list = ["arrayNode"] := rfl
theorem C18_layout_vars_list_list : Layout.vars_list_list = [] := rfl
theorem C18_layout_list_arrayNode : Layout.list_arrayNode =
    ["block : []T", "next : *arrayNode[T]"] := rfl

-- list/queue.go
theorem C18_layout_types_list_queue : Layout.types_list_queue = ["arrayQueue"] := rfl
theorem C18_layout_vars_list_queue : Layout.vars_list_queue = [] := rfl
theorem C18_layout_list_arrayQueue : Layout.list_arrayQueue =
    ["nodeSize : int", "equal : generic.EqualFunc[T]", "listSize : int", "frontIndex : int", "rearIndex : int", "frontNode : *arrayNode[T]", "rearNode : *arrayNode[T]"] := rfl

-- list/stack.go
theorem C18_layout_types_list_stack : Layout.types_list_stack = ["arrayStack"] := rfl
theorem C18_layout_vars_list_stack : Layout.vars_list_stack = [] := rfl
theorem C18_layout_list_arrayStack : Layout.list_arrayStack =
    ["nodeSize : int", "equal : generic.EqualFunc[T]", "listSize : int", "topIndex : int", "topNode : *arrayNode[T]"] := rfl

-- list/soft_queue.go
theorem C18_layout_types_list_soft_queue : Layout.types_list_soft_queue = ["softQueue"] := rfl
theorem C18_layout_vars_list_soft_queue : Layout.vars_list_soft_queue = [] := rfl
theorem C18_layout_list_softQueue : Layout.list_softQueue =
    ["equal : generic.EqualFunc[T]", "front : int", "rear : int", "list : []T"] := rfl
