import AlgoVerif.Proofs.C08Total6
import AlgoVerif.Proofs.C08LeftRecMain
import AlgoVerif.Proofs.C08LeftFactorMain
import AlgoVerif.Proofs.C08LeftRecTotal
import AlgoVerif.Proofs.C08LeftFactorTotal
import AlgoVerif.Proofs.C08Productive
import AlgoVerif.Proofs.C08Aux
import AlgoVerif.Proofs.C08Hist
/-!
# C08 — CFG transformations preserve the generated language (statements; proofs in `Proofs/C08*.lean`)

Reading of the property.  `AlgoVerif.C08.elimEmpty`, `elimSingle`, `elimUnreachable`, `elimCycles`,
`elimLeftRec`, `leftFactor`, `cnf` (`Model/C08.lean`) are the Model of `EliminateEmptyProductions`,
`EliminateSingleProductions`, `EliminateUnreachableProductions`, `EliminateCycles`,
`EliminateLeftRecursion`, `LeftFactor`, `ChomskyNormalForm` of `/repo/grammar/cfg.go` (as patched: results
are pruned by `removeNonTerminalsWithoutProductions`; `LeftFactor` repeats until nothing changes).  Each
returns `Outcome G`; `Language g w` (`Model/GrammarCore.lean`) says the terminal string `w` is derivable from
the start symbol.  The property is, for every transformation `T`,

    ∀ g g', Valid g → Hygienic g → T g = .ok g' → ∀ w, Language g' w ↔ Language g w          (full statement)

together with `T g = .ok _` for valid hygienic `g` (no panic, no divergence) except where
`AddNewNonTerminal` runs out of suffixes.  There is no bound on grammar size, body length or sentence length
in any statement below.

What is proved here, each for every valid grammar and every sentence (no bounds anywhere):

* `EliminateEmptyProductions` (`C08_emptyfree`), `EliminateSingleProductions` (`C08_singlefree`),
  `EliminateUnreachableProductions` (`C08_unreachable`), `EliminateCycles` (`C08_cycles`), START
  (`C08_cnfstart`), TERM (`C08_cnfterm`), BIN (`C08_cnfbin`) and `ChomskyNormalForm` (`C08_cnf`, the
  composition START, TERM, BIN, DEL, UNIT, unreachable exactly as coded) return a grammar with exactly the
  same language — both inclusions;
* so does `removeNonTerminalsWithoutProductions` (`C08_prune`), the step the ε-, unit- and left-recursion
  elimination end with.

Proof shape: a general library about derivations (`Proofs/C08Lang.lean`: monotonicity, head-first induction
with step counts, the splitting lemma, the simulation lemma for renamings of non-terminals) plus, per
transformation, invariants of the Model's folds and fixpoint loops (`Proofs/C08Model.lean`, `C08Single*.lean`,
`C08Empty*.lean`): a fixpoint of a pass is closed under the rule the pass applies (DESIGN.md Appendix B), and
everything a pass adds is justified.

* `EliminateLeftRecursion` (`C08_leftrecursion`; proofs in `Proofs/C08LeftRec*.lean`: substitution of an
  earlier non-terminal and the Arden-style removal of immediate left recursion each preserve the language,
  folded over the loops, composed with `EliminateCycles` and the final pruning) and `LeftFactor`
  (`C08_leftfactoring`; `Proofs/C08LeftFactor*.lean`: folding a group of alternatives under pairwise different
  fresh names preserves the language, lifted through `lfHead`, `lfPass` and the repeat-until-stable loop) —
  both inclusions, for every valid grammar.

Names that already look generated.  None of the language theorems has a hygiene hypothesis: `A`, `A₁`, `A′`, `aₙ` may all be
declared.  What they rest on is `C08_fresh_name_not_declared`: whatever the prefix and the suffix list, the name
`AddNewNonTerminal` returns is not a declared non-terminal (so, in a valid grammar, it occurs in no production).  `Hygienic` is a
hypothesis of the *totality* theorems only, where it is needed: with `A′ … A⁗` declared `LeftFactor` on `A` really panics.

Objects.  `C08_history_apply` and `C08_history_frame` lift the statements from values to histories over grammar objects
(`Model/C08Hist.lean`; component `history` of the check): whatever was done before, `apply i T j` gives slot `j` the
language slot `i` has at the time of the call, and every op leaves all slots but the one it writes untouched.

Totality is `C08_*_total` below.  Two documented panics of `AddNewNonTerminal` remain reachable on valid input
and are excluded by computable hypotheses: `LeftFactor` needing a fifth primed name for one base name
(`lfNamesSuffice`; known finding `C08-fresh-names-exhausted`) and BIN / `ChomskyNormalForm` needing more than
99 numeric names for one head, e.g. a body of 102 symbols (`binNamesSuffice`; known findings
`C08-bin-names-cnfbin`, `C08-bin-names-cnf`).  The hypothesis `∃ w, Language g w` (`L(G) ≠ ∅`) of the pipelines
through unit-elimination is decidable: `C08_nonEmpty_iff` ties it to the Boolean `nonEmptyB g`.
-/
open AlgoVerif AlgoVerif.Gram AlgoVerif.C08 AlgoVerif.C08.Spec

/-- `EliminateUnreachableProductions` preserves the language — every grammar (valid or not), every sentence. -/
theorem C08_unreachable (g g' : G) (h : elimUnreachable g = .ok g') : SameLanguage g g' :=
  fun w => elimUnreachable_language h w

/-- non-vacuity: `B` is unreachable; it, its production and the terminal `b` go away -/
example : (elimUnreachable
      { terms := ["a", "b"]
        nonterms := ["S", "A", "B"]
        prods := [{ head := "S", body := [.term "a", .nonterm "A"] }, { head := "A", body := [.term "a"] },
                  { head := "B", body := [.term "b", .nonterm "S"] }]
        start := "S" }).map showGrammar = .ok "start=S T={a} N={A,S} P={A→a; S→a A}" := by
  decide

/-- `removeNonTerminalsWithoutProductions` (run at the end of ε-, unit- and left-recursion elimination)
preserves the language: a production that mentions a non-terminal without productions is used in no
derivation of a sentence. -/
theorem C08_prune (g : G) : SameLanguage g (prune g) :=
  fun w => prune_language g w

/-- non-vacuity: `A` has no production; `S → a A` goes, then nothing else -/
example : showGrammar (prune
      { terms := ["a"]
        nonterms := ["S", "A"]
        prods := [{ head := "S", body := [.term "a", .nonterm "A"] }, { head := "S", body := [.term "a"] }]
        start := "S" }) = "start=S T={a} N={S} P={S→a}" := by
  decide

/-- START (`eliminateStartSymbolFromRight`) preserves the language of every valid grammar. -/
theorem C08_cnfstart (g g' : G) (hv : Valid g) (h : cnfStart g = .ok g') : SameLanguage g g' :=
  fun w => cnfStart_language h hv.wellFormed w

example : (cnfStart
      { terms := ["a"]
        nonterms := ["S"]
        prods := [{ head := "S", body := [.term "a", .nonterm "S"] }, { head := "S", body := [] }]
        start := "S" }).map showGrammar = .ok "start=S′ T={a} N={S,S′} P={S′→S; S→a S; S→ε}" := by
  decide

/-- `EliminateSingleProductions` preserves the language of every valid grammar: closure of the unit
productions, re-attachment of the non-unit bodies, pruning. -/
theorem C08_singlefree (g g' : G) (hv : Valid g) (h : elimSingle g = .ok g') : SameLanguage g g' :=
  fun w => elimSingle_language h hv.wellFormed w

/-- non-vacuity: unit cycle `A ↔ B`, `S → A`; the result has no unit production -/
example : (elimSingle
      { terms := ["a", "b"]
        nonterms := ["S", "A", "B"]
        prods := [{ head := "S", body := [.nonterm "A"] }, { head := "S", body := [.term "a"] },
                  { head := "A", body := [.nonterm "B"] }, { head := "B", body := [.nonterm "A"] },
                  { head := "B", body := [.nonterm "S", .term "b"] }]
        start := "S" }).map showGrammar = .ok "start=S T={a,b} N={A,B,S} P={A→S b; B→S b; S→S b; S→a}" := by
  decide

/-- `EliminateEmptyProductions` preserves the language of every valid grammar, whatever the length of the
bodies and the positions of the nullable symbols in them (the statement D12 violated): every way of dropping
nullable occurrences is generated (`mem_expandBody`), each is derivable (`expandBody_spec`), `nullable` is
exactly the set of non-terminals deriving ε, and `S′ → S | ε` is added iff `S ⇒* ε`. -/
theorem C08_emptyfree (g g' : G) (hv : Valid g) (h : elimEmpty g = .ok g') : SameLanguage g g' :=
  fun w => elimEmpty_language h hv.wellFormed w

/-- non-vacuity: the D12 grammar (`S → a N b M c`, `N`, `M` nullable): all four variants, none duplicated -/
example : (elimEmpty
      { terms := ["a", "b", "c"]
        nonterms := ["S", "N", "M"]
        prods := [{ head := "S", body := [.term "a", .nonterm "N", .term "b", .nonterm "M", .term "c"] },
                  { head := "N", body := [.term "a"] }, { head := "N", body := [] },
                  { head := "M", body := [.term "b"] }, { head := "M", body := [] }]
        start := "S" }).map showGrammar
    = .ok "start=S T={a,b,c} N={M,N,S} P={M→b; N→a; S→a N b M c; S→a N b c; S→a b M c; S→a b c}" := by
  decide

/-- non-vacuity (D13): the ε-only non-terminal `A` disappears together with `S → a A` -/
example : (elimEmpty
      { terms := ["a"]
        nonterms := ["S", "A"]
        prods := [{ head := "S", body := [.term "a", .nonterm "A"] }, { head := "A", body := [] }]
        start := "S" }).map showGrammar = .ok "start=S T={a} N={S} P={S→a}" := by
  decide

/-- `EliminateCycles` (= ε-elimination, unit-elimination, unreachable-elimination) preserves the language of
every valid grammar. -/
theorem C08_cycles (g g' : G) (hv : Valid g) (h : elimCycles g = .ok g') : SameLanguage g g' :=
  fun w => elimCycles_language h hv.wellFormed w

/-- non-vacuity: nullable symbols at both ends and in the middle, a unit cycle `A ↔ B` -/
example : (elimCycles
      { terms := ["a", "b"]
        nonterms := ["S", "A", "B"]
        prods := [{ head := "S", body := [.nonterm "A", .term "a", .nonterm "B", .nonterm "A"] },
                  { head := "A", body := [.nonterm "B"] }, { head := "A", body := [] },
                  { head := "B", body := [.nonterm "A"] }, { head := "B", body := [.term "b"] }]
        start := "S" }).map showGrammar
    = .ok "start=S T={a,b} N={A,B,S} P={A→b; B→b; S→A a; S→A a A; S→A a B; S→A a B A; S→a; S→a A; S→a B; S→a B A}" := by
  decide

/-- TERM (`eliminateNonSolitaryTerminals`) preserves the language: every fresh `aₙ` has the single production
`aₙ → a`, so expanding it gives the original bodies back (`Language.of_expand`), and every original
production is derivable from its image. -/
theorem C08_cnfterm (g g' : G) (hv : Valid g) (h : cnfTerm g = .ok g') : SameLanguage g g' :=
  fun w => cnfTerm_language h hv.wellFormed w

example : (cnfTerm
      { terms := ["a", "b"]
        nonterms := ["S", "A"]
        prods := [{ head := "S", body := [.term "a", .nonterm "S", .term "b", .nonterm "A"] },
                  { head := "S", body := [.term "a"] }, { head := "A", body := [.term "b", .term "b"] }]
        start := "S" }).map showGrammar
    = .ok "start=S T={a,b} N={A,S,aₙ,bₙ} P={A→bₙ bₙ; S→a; S→aₙ S bₙ A; aₙ→a; bₙ→b}" := by
  decide

/-- BIN (`eliminateNonBinaryProductions`) preserves the language: the fresh `Aᵢ` of the chain
`A → X₁ A₁, A₁ → X₂ A₂, …, Aₙ₋₂ → Xₙ₋₁ Xₙ` stands for `Xᵢ₊₁ … Xₙ`. -/
theorem C08_cnfbin (g g' : G) (hv : Valid g) (h : cnfBin g = .ok g') : SameLanguage g g' :=
  fun w => cnfBin_language h hv.wellFormed w

set_option maxRecDepth 20000 in
example : (cnfBin
      { terms := ["a"]
        nonterms := ["S", "A"]
        prods := [{ head := "S", body := [.nonterm "A", .nonterm "S", .nonterm "A", .nonterm "A"] },
                  { head := "S", body := [.nonterm "A"] }, { head := "A", body := [.term "a"] }]
        start := "S" }).map showGrammar
    = .ok "start=S T={a} N={A,S,S₁,S₂} P={A→a; S₁→S S₂; S₂→A A; S→A; S→A S₁}" := by
  decide

/-- `ChomskyNormalForm` preserves the language of every valid grammar. -/
theorem C08_cnf (g g' : G) (hv : Valid g) (h : cnf g = .ok g') : SameLanguage g g' :=
  fun w => cnf_language h hv.wellFormed w

set_option maxRecDepth 40000 in
example : (cnf
      { terms := ["a", "b"]
        nonterms := ["S", "A"]
        prods := [{ head := "S", body := [.term "a", .nonterm "S", .term "b"] }, { head := "S", body := [.nonterm "A"] },
                  { head := "A", body := [.term "a"] }, { head := "A", body := [] }]
        start := "S" }).map showGrammar
    = .ok "start=S″ T={a,b} N={S,S″,S₁,aₙ,bₙ} P={S″→a; S″→aₙ S₁; S″→ε; S₁→S bₙ; S₁→b; S→a; S→aₙ S₁; aₙ→a; bₙ→b}" := by
  decide

/-! ## totality: the transformations return, and what they return has the same language -/

/-- `EliminateUnreachableProductions` returns for every grammar -/
theorem C08_unreachable_total (g : G) : ∃ g', elimUnreachable g = .ok g' ∧ SameLanguage g g' := by
  obtain ⟨g', h⟩ := elimUnreachable_total g
  exact ⟨g', h, C08_unreachable g g' h⟩

/-- `EliminateSingleProductions` returns for every valid grammar -/
theorem C08_singlefree_total (g : G) (hv : Valid g) : ∃ g', elimSingle g = .ok g' ∧ SameLanguage g g' := by
  obtain ⟨g', h⟩ := elimSingle_total hv
  exact ⟨g', h, C08_singlefree g g' hv h⟩

/-- `EliminateEmptyProductions` returns for every valid hygienic grammar -/
theorem C08_emptyfree_total (g : G) (hv : Valid g) (hh : Hygienic g) :
    ∃ g', elimEmpty g = .ok g' ∧ SameLanguage g g' := by
  obtain ⟨g', h⟩ := elimEmpty_total hv hh
  exact ⟨g', h, C08_emptyfree g g' hv h⟩

/-- `EliminateCycles` returns for every valid hygienic grammar with a non-empty language -/
theorem C08_cycles_total (g : G) (hv : Valid g) (hh : Hygienic g) (hl : ∃ w, Language g w) :
    ∃ g', elimCycles g = .ok g' ∧ SameLanguage g g' := by
  obtain ⟨g', h⟩ := elimCycles_total hv hh hl
  exact ⟨g', h, C08_cycles g g' hv h⟩

/-- TERM returns for every valid hygienic grammar -/
theorem C08_cnfterm_total (g : G) (hv : Valid g) (hh : Hygienic g) :
    ∃ g', cnfTerm g = .ok g' ∧ SameLanguage g g' := by
  obtain ⟨g', h⟩ := cnfTerm_total hv.wellFormed (hyg_alphaFree hh)
  exact ⟨g', h, C08_cnfterm g g' hv h⟩

/-- `ChomskyNormalForm` returns for every valid hygienic grammar with a non-empty language, unless BIN runs
out of numeric suffixes; BIN never diverges (`cnfBin_ne_diverge`) -/
theorem C08_cnf_total (g : G) (hv : Valid g) (hh : Hygienic g) (hl : ∃ w, Language g w)
    (hbin : binNamesSuffice g = true) :
    ∃ g', cnf g = .ok g' ∧ SameLanguage g g' := by
  obtain ⟨g', h⟩ := cnf_total hv hh hl (binNamesSuffice_spec hbin)
  exact ⟨g', h, C08_cnf g g' hv h⟩

/-- `L(G) ≠ ∅` is decidable: `nonEmptyB g` (the start symbol is in the least fixpoint of "has a body of
terminals and productive non-terminals") is true exactly when some sentence is derivable. -/
theorem C08_nonEmpty_iff (g : G) : nonEmptyB g = true ↔ ∃ w, Language g w :=
  nonEmptyB_iff g

example : nonEmptyB
      { terms := ["a"]
        nonterms := ["S", "A"]
        prods := [{ head := "S", body := [.nonterm "S", .term "a"] }, { head := "S", body := [.nonterm "A"] },
                  { head := "A", body := [.term "a", .nonterm "A"] }, { head := "A", body := [] }]
        start := "S" } = true ∧
    nonEmptyB
      { terms := ["a"]
        nonterms := ["S", "A"]
        prods := [{ head := "S", body := [.nonterm "S", .term "a"] }, { head := "S", body := [.nonterm "A"] },
                  { head := "A", body := [.term "a", .nonterm "A"] }]
        start := "S" } = false := by
  decide

/-! ## EliminateLeftRecursion and LeftFactor (proofs in `Proofs/C08LeftRec*.lean`, `Proofs/C08LeftFactor*.lean`) -/

/-- `EliminateLeftRecursion` preserves the language (both inclusions), for every valid grammar on which the
Model returns. -/
theorem C08_leftrecursion (g g' : G) (hv : Valid g) (h : elimLeftRec g = .ok g') : SameLanguage g g' :=
  AlgoVerif.C08.C08_leftrec g g' hv h

/-- non-vacuity: indirect left recursion `S → A a | b`, `A → S c | d` (the D14 grammar) -/
example : (elimLeftRec
      { terms := ["a", "b", "c", "d"]
        nonterms := ["S", "A"]
        prods := [{ head := "S", body := [.nonterm "A", .term "a"] }, { head := "S", body := [.term "b"] },
                  { head := "A", body := [.nonterm "S", .term "c"] }, { head := "A", body := [.term "d"] }]
        start := "S" }).map showGrammar
    = .ok "start=S T={a,b,c,d} N={A,A′,S} P={A′→a c A′; A′→ε; A→b c A′; A→d A′; S→A a; S→b}" := by
  decide

/-- `LeftFactor` preserves the language (both inclusions), for every valid grammar on which the Model
returns (i.e. unless the documented fresh-name panic occurs). -/
theorem C08_leftfactoring (g g' : G) (hv : Valid g) (h : leftFactor g = .ok g') :
    SameLanguage g g' :=
  AlgoVerif.C08.C08_leftfactor_of_wellFormed hv.wellFormed h

/-- non-vacuity: two rounds of factoring, `S → a S′ | c`, `S′ → b S″ | d`, `S″ → b | c` -/
example : (leftFactor
      { terms := ["a", "b", "c", "d"]
        nonterms := ["S"]
        prods := [{ head := "S", body := [.term "a", .term "b", .term "b"] }, { head := "S", body := [.term "a", .term "b", .term "c"] },
                  { head := "S", body := [.term "a", .term "d"] }, { head := "S", body := [.term "c"] }]
        start := "S" }).map showGrammar
    = .ok "start=S T={a,b,c,d} N={S,S′,S″} P={S′→b S″; S′→d; S″→b; S″→c; S→a S′; S→c}" := by
  decide

/-- Totality of `EliminateLeftRecursion`: for every valid hygienic grammar with a non-empty language the Model
returns (no panic: a primed name is always free; no divergence), the result has the same language and no left
recursion. -/
theorem C08_leftrecursion_total (g : G) (hv : Valid g) (hh : Hygienic g) (hl : ∃ w, Language g w) :
    ∃ g', elimLeftRec g = .ok g' ∧ SameLanguage g g' ∧ AlgoVerif.C09.Spec.NoLeftRecursion g' :=
  AlgoVerif.C08.C08_leftrec_total g hv hh hl

/-- Totality of `LeftFactor`: the repeat-until-stable loop never runs out of the Model's fuel, and the only panic
is `AddNewNonTerminal` running out of its four primed names (`lfNamesSuffice g`, a computable test; the known
finding `C08-fresh-names-exhausted` is its negation). -/
theorem C08_leftfactoring_total (g : G) (hv : Valid g) (hn : AlgoVerif.C08.lfNamesSuffice g = true) :
    ∃ g', leftFactor g = .ok g' ∧ SameLanguage g g' :=
  AlgoVerif.C08.C08_leftfactor_total hv hn

/-- `LeftFactor` never diverges on a well-formed grammar. -/
theorem C08_leftfactoring_ne_diverge (g : G) (hw : WellFormed g) : leftFactor g ≠ .diverge :=
  AlgoVerif.C08.C08_leftfactor_ne_diverge hw

/-! ## the helpers the transformations rest on (`Model/C08Aux.lean`; corresponded op by op: `cmp`, `hash`, `order`,
`orderprods`, `eq`, `symbols`, `match`, `iscnf`, `verify`, `write`) -/

/-- **The comparators are the orders the Model sorts by.**  `CmpString` / `CmpProduction` answer `-1` exactly when
`bodyLt` / `prodLt` hold — the strict orders by which `orderNT`, `cnfBin` and `lfHead` of the Model walk productions and
prefix groups — and `0` on equal operands; so the order the implementation's comparators are seen to produce on every run
is the order the theorems above are about. -/
theorem C08_comparators_are_model_orders (l r : List SSym) (p q : SProd) :
    (cmpBody l r = -1 ↔ bodyLt l r = true) ∧ (cmpProd p q = -1 ↔ prodLt p q = true) ∧
    cmpBody l l = 0 ∧ cmpProd p p = 0 := by
  refine ⟨cmpOfLt_neg_one _ _ _, cmpOfLt_neg_one _ _ _, cmpOfLt_self _ _ (bodyLt_irrefl l), cmpOfLt_self _ _ ?_⟩
  simp [prodLt, String.lt_irrefl, bodyLt_irrefl]

example : cmpBody [.nonterm "A", .term "a"] [.term "a", .term "b"] = -1 ∧
    cmpBody [.term "b"] [.term "a"] = 1 ∧ cmpBody [] [] = 0 ∧
    cmpProd ⟨"A", [.term "a"]⟩ ⟨"S", []⟩ = -1 ∧ cmpSymbol (.term "z") (.nonterm "A") = -1 := by decide

/-- **`Equal` grammars generate the same language**: what `CFG.Equal` compares (the three sets as sets, the start
symbol) determines the language. -/
theorem C08_equal_grammars_same_language (g h : G) (he : equalG g h = true) (w : List String) :
    Language g w ↔ Language h w :=
  equalG_language he w

example : equalG ⟨["a", "b"], ["S"], [⟨"S", [.term "a"]⟩, ⟨"S", []⟩], "S"⟩
    ⟨["b", "a"], ["S"], [⟨"S", []⟩, ⟨"S", [.term "a"]⟩], "S"⟩ = true := by decide

/-! ## fresh names, whatever the names in the grammar look like -/

/-- **`AddNewNonTerminal` returns a name that is not declared** — for every grammar (hygienic or not: `A₁`, `A′`, `aₙ` may be
declared), every prefix and every suffix list: the name is the stripped prefix plus one of the suffixes, it is not a
declared non-terminal, and it is the only thing added.  This is the fact the soundness of START, TERM, BIN,
`EliminateEmptyProductions`, `EliminateLeftRecursion` and `LeftFactor` rests on (a counter instead of the search loses it). -/
theorem C08_fresh_name_not_declared (g g1 : G) (pre n : String) (sufs : List String)
    (h : addNew g pre sufs = .ok (g1, n)) :
    n ∉ g.nonterms ∧ g1 = { g with nonterms := g.nonterms ++ [n] } ∧
    ∃ s ∈ sufs, n = sufs.foldl trimSuffix pre ++ s := by
  obtain ⟨h1, h2⟩ := addNew_ok h
  refine ⟨h1, h2, ?_⟩
  unfold addNew at h
  split at h
  · rename_i m hm
    cases h
    have := List.mem_of_find?_eq_some hm
    simp only [List.mem_map] at this
    obtain ⟨s, hs, rfl⟩ := this
    exact ⟨s, hs, rfl⟩
  · cases h

set_option maxRecDepth 40000 in
/-- non-vacuity, on names that look generated: `A₁` is taken, so `A` gets `A₂`; asked for `A₁` the search strips the suffix and
answers `A₂` as well; `A₁₂` only loses `₂` (one `TrimSuffix` per suffix, in list order) and gets `A₁₁`; `A₂₁` loses both;
with all four primed names taken there is no answer (the documented panic) -/
example : freshName ["S", "A", "A₁"] "A" numerics = some "A₂" ∧ freshName ["S", "A", "A₁"] "A₁" numerics = some "A₂" ∧
    freshName ["A₁₂"] "A₁₂" numerics = some "A₁₁" ∧ freshName ["A₂₁", "A₁"] "A₂₁" numerics = some "A₂" ∧
    freshName ["a", "aₙ"] "aₙ" alphas = some "aⁿ" ∧ freshName ["A", "A′", "A″", "A‴", "A⁗"] "A″" primes = none := by
  decide

/-! ## histories over grammar objects (`Model/C08Hist.lean`) -/

/-- **`apply i T j` preserves the language of the operand as it is at the time of the call**, whatever ops (transformations,
clones, edits through `Productions.Add/Remove`, `NonTerminals.Add`, `Terminals.Add`) produced the store `s`: if slot `i`
holds a valid grammar `g` and the op returns, slot `j` then holds `T g` — the pure transformation of the *current* value —
and `T g` has exactly the language of `g`.  `T` ranges over the seven transformations, the three steps of
`ChomskyNormalForm` and `Clone`. -/
theorem C08_history_apply (s s' : Hist.Store) (i j : Nat) (t : String) (g : G)
    (hi : Hist.get s i = some g) (hv : Valid g) (h : Hist.step s (.apply i t j) = some (.ok s')) :
    ∃ g', Hist.transform t g = some (.ok g') ∧ Hist.get s' j = some g' ∧ SameLanguage g g' :=
  Hist.step_apply hi hv h

/-- **Every op writes one slot**: a transformation leaves its operand (and every other object) as it is, an edit of a result
does not reach the operand it came from, and vice versa. -/
theorem C08_history_frame (s s' : Hist.Store) (op : Hist.Op) (h : Hist.step s op = some (.ok s')) (x : Nat)
    (hx : x ≠ op.target) : Hist.get s' x = Hist.get s x :=
  Hist.step_frame h x hx

set_option maxRecDepth 40000 in
/-- non-vacuity: the history `nullable-then-change` of the check — `S → a b | a | c` is left-factored into slot 1, the owner
adds `S → ε` to slot 0, both are made ε-free; slot 1's result has `S → a` (from `S′ → ε`), slot 0's has the new start `S′` -/
example :
    let g0 : G := { terms := ["a", "b", "c"], nonterms := ["S"], start := "S",
                    prods := [⟨"S", [.term "a", .term "b"]⟩, ⟨"S", [.term "a"]⟩, ⟨"S", [.term "c"]⟩] }
    let run := fun (s : Hist.Store) (ops : List Hist.Op) =>
      ops.foldl (fun (s : Option Hist.Store) op => s.bind fun s => match Hist.step s op with
        | some (.ok s') => some s'
        | _ => none) (some s)
    Valid g0 ∧
    ((run [(0, g0)] [.apply 0 "leftfactor" 1, .addProd 0 ⟨"S", []⟩, .apply 1 "emptyfree" 2, .apply 0 "emptyfree" 3]).map
      fun s => [0, 1, 2, 3].map fun i => (Hist.get s i).map showGrammar)
    = some [some "start=S T={a,b,c} N={S} P={S→a; S→a b; S→c; S→ε}",
            some "start=S T={a,b,c} N={S,S′} P={S′→b; S′→ε; S→a S′; S→c}",
            some "start=S T={a,b,c} N={S,S′} P={S′→b; S→a; S→a S′; S→c}",
            some "start=S′ T={a,b,c} N={S,S′} P={S′→S; S′→ε; S→a; S→a b; S→c}"] := by
  decide
