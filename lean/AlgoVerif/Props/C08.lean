import AlgoVerif.Common
/-! # C08 — property theorems (none yet) -/
