import AlgoVerif.Generated.Layout

/-! # C03: the state space the Model was written for (written by bin/mklayout, checked on every run)

The hand Model mirrors the Go code's state: the fields of its structs and nothing else (no package-level
variables).  `AlgoVerif.Generated.Layout` is regenerated from /repo by the extractor on every check; the theorems
below pin, for every source file the Model mirrors, the struct types it declares, their fields (name : type) and
the package-level variables it declares.  A new field — a cache, a memoised result, a scratch buffer, a counter —
a new struct type or a new package-level variable is state the Model does not describe: the theorems of
`Props/C03.lean` then no longer speak about the code, the obligation here breaks, and the check searches for
a failing input with the enlarged budget (DESIGN.md §4.6). -/

open AlgoVerif.Generated

-- symboltable/hash_table.go
theorem C03_layout_types_symboltable_hash_table : Layout.types_symboltable_hash_table = ["HashOpts", "hashTableEntry"] := rfl
theorem C03_layout_vars_symboltable_hash_table : Layout.vars_symboltable_hash_table = [] := rfl
theorem C03_layout_symboltable_HashOpts : Layout.symboltable_HashOpts =
    ["InitialCap : int", "MinLoadFactor : float32", "MaxLoadFactor : float32"] := rfl
theorem C03_layout_symboltable_hashTableEntry : Layout.symboltable_hashTableEntry =
    ["key : K", "val : V", "deleted : bool"] := rfl

-- symboltable/chain_hash_table.go
theorem C03_layout_types_symboltable_chain_hash_table : Layout.types_symboltable_chain_hash_table = ["chainNode", "chainHashTable"] := rfl
theorem C03_layout_vars_symboltable_chain_hash_table : Layout.vars_symboltable_chain_hash_table = [] := rfl
theorem C03_layout_symboltable_chainNode : Layout.symboltable_chainNode =
    ["key : K", "val : V", "next : *chainNode[K, V]"] := rfl
theorem C03_layout_symboltable_chainHashTable : Layout.symboltable_chainHashTable =
    ["buckets : []*chainNode[K, V]", "m : int", "n : int", "minLF : float32", "maxLF : float32", "hashKey : HashFunc[K]", "eqKey : EqualFunc[K]", "eqVal : EqualFunc[V]"] := rfl

-- symboltable/linear_hash_table.go
theorem C03_layout_types_symboltable_linear_hash_table : Layout.types_symboltable_linear_hash_table = ["linearHashTable"] := rfl
theorem C03_layout_vars_symboltable_linear_hash_table : Layout.vars_symboltable_linear_hash_table = [] := rfl
theorem C03_layout_symboltable_linearHashTable : Layout.symboltable_linearHashTable =
    ["entries : []*KeyValue[K, V]", "m : int", "n : int", "minLF : float32", "maxLF : float32", "hashKey : HashFunc[K]", "eqKey : EqualFunc[K]", "eqVal : EqualFunc[V]"] := rfl

-- symboltable/quadratic_hash_table.go
theorem C03_layout_types_symboltable_quadratic_hash_table : Layout.types_symboltable_quadratic_hash_table = ["quadraticHashTable"] := rfl
theorem C03_layout_vars_symboltable_quadratic_hash_table : Layout.vars_symboltable_quadratic_hash_table = [] := rfl
theorem C03_layout_symboltable_quadraticHashTable : Layout.symboltable_quadraticHashTable =
    ["entries : []*hashTableEntry[K, V]", "m : int", "n : int", "u : int", "minLF : float32", "maxLF : float32", "hashKey : HashFunc[K]", "eqKey : EqualFunc[K]", "eqVal : EqualFunc[V]"] := rfl

-- symboltable/double_hash_table.go
theorem C03_layout_types_symboltable_double_hash_table : Layout.types_symboltable_double_hash_table = ["doubleHashTable"] := rfl
theorem C03_layout_vars_symboltable_double_hash_table : Layout.vars_symboltable_double_hash_table = [] := rfl
theorem C03_layout_symboltable_doubleHashTable : Layout.symboltable_doubleHashTable =
    ["entries : []*hashTableEntry[K, V]", "m : int", "p : int", "n : int", "u : int", "minLF : float32", "maxLF : float32", "hashKey : HashFunc[K]", "eqKey : EqualFunc[K]", "eqVal : EqualFunc[V]"] := rfl

-- grammar/production.go
theorem C03_layout_types_grammar_production : Layout.types_grammar_production = ["Production", "Productions"] := rfl
theorem C03_layout_vars_grammar_production : Layout.vars_grammar_production = ["CmpProduction", "HashProduction", "EqProduction", "EqProductionSet"] := rfl
theorem C03_layout_grammar_Production : Layout.grammar_Production =
    ["Head : NonTerminal", "Body : String[Symbol]"] := rfl
theorem C03_layout_grammar_Productions : Layout.grammar_Productions =
    ["table : symboltable.SymbolTable[NonTerminal, set.Set[*Production]]"] := rfl

-- parser/lr/parsing_table.go
theorem C03_layout_types_parser_lr_parsing_table : Layout.types_parser_lr_parsing_table = ["ParsingTable", "tableStringer"] := rfl
theorem C03_layout_vars_parser_lr_parsing_table : Layout.vars_parser_lr_parsing_table = [] := rfl
theorem C03_layout_parser_lr_ParsingTable : Layout.parser_lr_ParsingTable =
    ["States : []State", "Terminals : []grammar.Terminal", "NonTerminals : []grammar.NonTerminal", "precedences : PrecedenceLevels", "actions : symboltable.SymbolTable[State, symboltable.SymbolTable[grammar.Terminal, set.Set[*Action]]]", "gotos : symboltable.SymbolTable[State, symboltable.SymbolTable[grammar.NonTerminal, State]]"] := rfl
theorem C03_layout_parser_lr_tableStringer : Layout.parser_lr_tableStringer =
    ["K1Title : string", "K1Values : []K1", "K2Title : string", "K2Values : []K2", "K3Title : string", "K3Values : []K3", "GetK1K2 : func(K1, K2) string", "GetK1K3 : func(K1, K3) string", "b : bytes.Buffer", "cLens : []int", "tLen : int"] := rfl

-- hash/hash.go
theorem C03_layout_types_hash_hash : Layout.types_hash_hash = [] := rfl
theorem C03_layout_vars_hash_hash : Layout.vars_hash_hash = [] := rfl
