import AlgoVerif.Model.C02Run
/-! # C03 — property theorems (under construction) -/
open AlgoVerif AlgoVerif.C02

theorem C03_placeholder : isPrime 31 = true := by decide
