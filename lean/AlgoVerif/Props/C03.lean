import AlgoVerif.Common
/-! # C03 — property theorems (none yet) -/
