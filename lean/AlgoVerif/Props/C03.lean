import AlgoVerif.Proofs.C02Chain
import AlgoVerif.Proofs.C02OA
import AlgoVerif.Proofs.C02LinDel
/-!
# C03 — every hash-table operation terminates, whatever the delete/insert churn

In the Model every probe loop has fuel `m` (one unit per inspected slot) and the `Put → resize → Put`
recursion has fuel `depth`; running out of fuel is the outcome `diverge`.  The theorems say: for every
hash function, valid options, shuffle and history `ops` the Model reaches a state (no earlier operation
failed), **any** further operation `op` returns `ok` (so its loops stopped within their fuel: at most
`m` probes), and in the reached state the probe walk of **every** key — present, deleted or never
seen — inspects at most `cover ≤ m` slots (`cover = (m+1)/2` for quadratic probing).

Ingredients (each a lemma with a real proof, in `Proofs/C02Num.lean` and `Proofs/C02OA.lean`):
`isPrime_correct`, `smallestPrimeLargerThan_terminates` (Bertrand's postulate, Mathlib), `quad_cover`,
`double_cover`, `h2of_coprime`, `pigeonhole`, `OA.u_lt_cover` (the bound `u ≤ (m-1)/2` that the new
check in `Put` establishes), `OA.exists_free`.
-/
open AlgoVerif AlgoVerif.C02

/-- separate chaining: no operation fails; a bucket walk visits at most `n` nodes -/
theorem C03_chain {K V σ : Type} [DecidableEq K] (hash : K → UInt64) (sh : Shuffle σ) (hsh : ShufflePerm sh)
    (eqVal : V → V → Bool) (opts : Opts) (hv : Chain.ValidOpts opts) (g : σ) (ops : List (Op K V)) (op : Op K V) :
    ∃ t0 : ChainTable K V, Chain.new opts = .ok t0 ∧
      ∃ st r, reach (Chain.impl sh hash eqVal) ⟨t0, t0, g⟩ ops = some st ∧
        step (Chain.impl sh hash eqVal) st op = .ok r ∧
        ∀ (b : Bool) (key : K),
          ((Chain.nodesVisited key (Chain.bucket (st.sel b) (Chain.hashIdx (st.sel b).m (mix (hash key)))) : Nat) : Int)
            ≤ (st.sel b).n := by
  obtain ⟨t0, hnew, hinv, hempty⟩ := Chain.init_spec (V := V) hash opts hv
  have hrel : Rel (Chain.Inv hash) Chain.Live t0 ([] : Spec.Map K V) :=
    ⟨hinv, Spec.nodupKeys_nil, fun k v => by simp [hempty k v]⟩
  obtain ⟨st, r, hreach, hstep⟩ :=
    step_ok_of_reach (Chain.correct hsh hash eqVal) ops ⟨t0, t0, g⟩ ⟨[], []⟩ hrel hrel op (Or.inl trivial)
  obtain ⟨st', hreach', ha, hb⟩ := reach_inv (Chain.correct hsh hash eqVal) ops ⟨t0, t0, g⟩ ⟨[], []⟩ (Or.inl trivial) hrel hrel
  rw [hreach] at hreach'
  cases hreach'
  refine ⟨t0, hnew, st, r, hreach, hstep, ?_⟩
  intro b key
  cases b
  · exact Chain.nodes_bound hash st.a key ha
  · exact Chain.nodes_bound hash st.b key hb

/-- linear probing (`linear_hash_table.go`): no operation fails (in particular the re-insertion loop of
`Delete` ends within `m` re-insertions) and every probe walk inspects at most `m` slots -/
theorem C03_linear {K V σ : Type} [DecidableEq K] (hash : K → UInt64) (sh : Shuffle σ) (hsh : ShufflePerm sh)
    (eqVal : V → V → Bool) (opts : Opts) (hv : Lin.ValidOpts opts) (g : σ) (ops : List (Op K V)) (op : Op K V) :
    ∃ t0 : LinTable K V, Lin.new opts = .ok t0 ∧
      ∃ st r, reach (Lin.impl sh hash eqVal) ⟨t0, t0, g⟩ ops = some st ∧
        step (Lin.impl sh hash eqVal) st op = .ok r ∧
        ∀ (b : Bool) (key : K), ∃ c,
          Lin.probes (st.sel b) (mix (hash key)) key (st.sel b).m 0 = some c ∧ c ≤ (st.sel b).m := by
  obtain ⟨t0, hnew, hinv, hempty⟩ := Lin.init_spec (V := V) hash opts hv
  have hrel : Rel (Lin.Inv hash) Lin.Live t0 ([] : Spec.Map K V) :=
    ⟨hinv, Spec.nodupKeys_nil, fun k v => by simp [hempty k v]⟩
  obtain ⟨st, r, hreach, hstep⟩ :=
    step_ok_of_reach (Lin.correct hsh hash eqVal) ops ⟨t0, t0, g⟩ ⟨[], []⟩ hrel hrel op (Or.inl trivial)
  obtain ⟨st', hreach', ha, hb⟩ := reach_inv (Lin.correct hsh hash eqVal) ops ⟨t0, t0, g⟩ ⟨[], []⟩ (Or.inl trivial) hrel hrel
  rw [hreach] at hreach'
  cases hreach'
  refine ⟨t0, hnew, st, r, hreach, hstep, ?_⟩
  intro b key
  have hsel : Lin.Inv hash (st.sel b) := by cases b <;> simp [State.sel, ha, hb]
  exact Lin.probes_bound hash (st.sel b) key hsel

/-- quadratic probing and double hashing share the Model; `kind` selects the probe sequence -/
theorem C03_openAddressing {K V σ : Type} [DecidableEq K] (kind : Kind) (hash : K → UInt64) (sh : Shuffle σ)
    (hsh : ShufflePerm sh) (eqVal : V → V → Bool) (opts : Opts) (hv : OA.ValidOpts kind opts) (g : σ)
    (ops : List (Op K V)) (op : Op K V) :
    ∃ t0 : OATable K V, OA.new kind opts = .ok t0 ∧
      ∃ st r, reach (OA.impl sh hash eqVal) ⟨t0, t0, g⟩ ops = some st ∧
        step (OA.impl sh hash eqVal) st op = .ok r ∧
        ∀ (b : Bool) (key : K), ∃ cg cf,
          OA.probesGet (st.sel b) (mix (hash key)) key (st.sel b).m 0 = some cg ∧
          OA.probesFind (st.sel b) (mix (hash key)) key (st.sel b).m 0 = some cf ∧
          cg ≤ cover (st.sel b).kind (st.sel b).m ∧ cf ≤ cover (st.sel b).kind (st.sel b).m ∧
          cover (st.sel b).kind (st.sel b).m ≤ (st.sel b).m := by
  obtain ⟨t0, hnew, hinv, hempty⟩ := OA.init_spec (V := V) hash kind opts hv
  have hrel : Rel (OA.Inv hash) OA.Live t0 ([] : Spec.Map K V) :=
    ⟨hinv, Spec.nodupKeys_nil, fun k v => by simp [hempty k v]⟩
  obtain ⟨st, r, hreach, hstep⟩ :=
    step_ok_of_reach (OA.correct hsh hash eqVal) ops ⟨t0, t0, g⟩ ⟨[], []⟩ hrel hrel op (Or.inl trivial)
  obtain ⟨st', hreach', ha, hb⟩ := reach_inv (OA.correct hsh hash eqVal) ops ⟨t0, t0, g⟩ ⟨[], []⟩ (Or.inl trivial) hrel hrel
  rw [hreach] at hreach'
  cases hreach'
  refine ⟨t0, hnew, st, r, hreach, hstep, ?_⟩
  intro b key
  have hsel : OA.Inv hash (st.sel b) := by cases b <;> simp [State.sel, ha, hb]
  obtain ⟨cg, cf, h1, h2, h3, h4⟩ := OA.probes_bound hash (st.sel b) key hsel
  exact ⟨cg, cf, h1, h2, h3, h4, cover_le _ _⟩

/-- quadratic probing (`quadratic_hash_table.go`): at most `(m+1)/2 ≤ m` probes -/
theorem C03_quadratic {K V σ : Type} [DecidableEq K] (hash : K → UInt64) (sh : Shuffle σ)
    (hsh : ShufflePerm sh) (eqVal : V → V → Bool) (opts : Opts) (hv : OA.ValidOpts .quad opts) (g : σ)
    (ops : List (Op K V)) (op : Op K V) :
    ∃ t0 : OATable K V, OA.new .quad opts = .ok t0 ∧
      ∃ st r, reach (OA.impl sh hash eqVal) ⟨t0, t0, g⟩ ops = some st ∧
        step (OA.impl sh hash eqVal) st op = .ok r ∧
        ∀ (b : Bool) (key : K), ∃ cg cf,
          OA.probesGet (st.sel b) (mix (hash key)) key (st.sel b).m 0 = some cg ∧
          OA.probesFind (st.sel b) (mix (hash key)) key (st.sel b).m 0 = some cf ∧
          cg ≤ cover (st.sel b).kind (st.sel b).m ∧ cf ≤ cover (st.sel b).kind (st.sel b).m ∧
          cover (st.sel b).kind (st.sel b).m ≤ (st.sel b).m :=
  C03_openAddressing .quad hash sh hsh eqVal opts hv g ops op

/-- double hashing (`double_hash_table.go`): at most `m` probes -/
theorem C03_double {K V σ : Type} [DecidableEq K] (hash : K → UInt64) (sh : Shuffle σ)
    (hsh : ShufflePerm sh) (eqVal : V → V → Bool) (opts : Opts) (hv : OA.ValidOpts .dbl opts) (g : σ)
    (ops : List (Op K V)) (op : Op K V) :
    ∃ t0 : OATable K V, OA.new .dbl opts = .ok t0 ∧
      ∃ st r, reach (OA.impl sh hash eqVal) ⟨t0, t0, g⟩ ops = some st ∧
        step (OA.impl sh hash eqVal) st op = .ok r ∧
        ∀ (b : Bool) (key : K), ∃ cg cf,
          OA.probesGet (st.sel b) (mix (hash key)) key (st.sel b).m 0 = some cg ∧
          OA.probesFind (st.sel b) (mix (hash key)) key (st.sel b).m 0 = some cf ∧
          cg ≤ cover (st.sel b).kind (st.sel b).m ∧ cf ≤ cover (st.sel b).kind (st.sel b).m ∧
          cover (st.sel b).kind (st.sel b).m ≤ (st.sel b).m :=
  C03_openAddressing .dbl hash sh hsh eqVal opts hv g ops op

/-! ## the hypotheses are satisfiable, on the states of the former defects -/
section NonVacuity

def idShuffle3 : Shuffle Unit := fun g n => (List.range n, g)

example : ShufflePerm idShuffle3 := fun _ _ => List.Perm.refl _
example : OA.ValidOpts .quad {} := ⟨Or.inl rfl, by constructor <;> decide⟩
example : OA.ValidOpts .dbl {} := ⟨Or.inl rfl, by constructor <;> decide⟩
example : Lin.ValidOpts {} := ⟨Or.inl rfl, by constructor <;> decide⟩
example : Chain.ValidOpts {} := ⟨Or.inl rfl, by constructor <;> decide⟩

/-- `put i; delete i` for `i = 0 … n-1` -/
def churn : Nat → List (Op Int Int)
  | 0 => []
  | n + 1 => churn n ++ [.put false n n, .delete false n]

/-- D3's history (constant hash, 16 churn cycles at `m = 31`, then `put 16`; before the fix the last `put`
never returned): the Model, as it is now, runs it to the end — `put 15` re-hashes into the same size and
drops the 15 tombstones — and the absent key 1000 is then found absent after 3 probes. -/
example : (match (OA.new .quad {} : Outcome (OATable Int Int)) with
    | .ok t0 =>
      match reach (OA.impl idShuffle3 (fun _ => 5) (fun a b => a == b)) ⟨t0, t0, ()⟩ (churn 16 ++ [.put false 16 16]) with
      | some st => (st.a.m, st.a.n, st.a.u, OA.probesGet st.a (mix 5) 1000 st.a.m 0)
      | none => (0, 0, 0, none)
    | _ => (0, 0, 0, none)) = (31, 1, 2, some 3) := by
  decide

/-- D26's history (constant hash, 16 colliding live keys, no delete): the 16th `put` now grows the table
to 67 slots, and looking up an absent colliding key takes 17 probes. -/
example : (match (OA.new .quad {} : Outcome (OATable Int Int)) with
    | .ok t0 =>
      match reach (OA.impl idShuffle3 (fun _ => 5) (fun a b => a == b)) ⟨t0, t0, ()⟩
          ((List.range 16).map fun i => .put false (i + 1 : Nat) 0) with
      | some st => (st.a.m, st.a.n, st.a.u, OA.probesGet st.a (mix 5) 1000 st.a.m 0)
      | none => (0, 0, 0, none)
    | _ => (0, 0, 0, none)) = (67, 16, 16, some 17) := by
  decide

end NonVacuity
