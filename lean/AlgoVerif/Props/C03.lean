import AlgoVerif.Proofs.C02Chain
import AlgoVerif.Proofs.C02OA
import AlgoVerif.Proofs.C02LinDel
import AlgoVerif.Proofs.C03Sites
import AlgoVerif.Proofs.C02Pool
/-!
# C03 — every hash-table operation terminates, whatever the delete/insert churn

In the Model every probe loop has fuel `m` (one unit per inspected slot) and the `Put → resize → Put`
recursion has fuel `depth`; running out of fuel is the outcome `diverge`.  The theorems say: for every
hash function, valid options, shuffle and history `ops` the Model reaches a state (no earlier operation
failed), **any** further operation `op` returns `ok` (so its loops stopped within their fuel: at most
`m` probes), and in the reached state the probe walk of **every** key — present, deleted or never
seen — inspects at most `cover ≤ m` slots (`cover = (m+1)/2` for quadratic probing).

Ingredients (each a lemma with a real proof, in `Proofs/C02Num.lean` and `Proofs/C02OA.lean`):
`isPrime_correct`, `smallestPrimeLargerThan_terminates` (Bertrand's postulate, Mathlib), `quad_cover`,
`double_cover`, `h2of_coprime`, `pigeonhole`, `OA.u_lt_cover` (the bound `u ≤ (m-1)/2` that the new
check in `Put` establishes), `OA.exists_free`.

The second part ties the hypothesis `ValidOpts` to the code that *uses* the tables: `Generated/C03CallSites.lean`
is rewritten from /repo's non-test source on every check and lists every call of the four constructors with its
statically evaluated `HashOpts`; `C03_repo_callsites_valid` (by `decide`) says each of them satisfies exactly the
hypothesis of the theorem of its table, so the library-internal tables (`grammar.Productions`, FIRST/FOLLOW,
the LR and predictive parsing tables) terminate (`C03_repo_tables_terminate`).  A `HashOpts` literal outside
`ValidOpts`, or one the translator cannot evaluate, makes this file fail to build.
-/
open AlgoVerif AlgoVerif.C02

/-- separate chaining: no operation fails; a bucket walk visits at most `n` nodes -/
theorem C03_chain {K V σ : Type} [DecidableEq K] (hash : K → UInt64) (sh : Shuffle σ) (hsh : ShufflePerm sh)
    (eqVal : V → V → Bool) (opts : Opts) (hv : Chain.ValidOpts opts) (g : σ) (ops : List (Op K V)) (op : Op K V) :
    ∃ t0 : ChainTable K V, Chain.new opts = .ok t0 ∧
      ∃ st r, reach (Chain.impl sh hash eqVal) ⟨t0, t0, g⟩ ops = some st ∧
        step (Chain.impl sh hash eqVal) st op = .ok r ∧
        ∀ (b : Bool) (key : K),
          ((Chain.nodesVisited key (Chain.bucket (st.sel b) (Chain.hashIdx (st.sel b).m (mix (hash key)))) : Nat) : Int)
            ≤ (st.sel b).n := by
  obtain ⟨t0, hnew, hinv, hempty⟩ := Chain.init_spec (V := V) hash opts hv
  have hrel : Rel (Chain.Inv hash) Chain.Live t0 ([] : Spec.Map K V) :=
    ⟨hinv, Spec.nodupKeys_nil, fun k v => by simp [hempty k v]⟩
  obtain ⟨st, r, hreach, hstep⟩ :=
    step_ok_of_reach (Chain.correct hsh hash eqVal) ops ⟨t0, t0, g⟩ ⟨[], []⟩ hrel hrel op (Or.inl trivial)
  obtain ⟨st', hreach', ha, hb⟩ := reach_inv (Chain.correct hsh hash eqVal) ops ⟨t0, t0, g⟩ ⟨[], []⟩ (Or.inl trivial) hrel hrel
  rw [hreach] at hreach'
  cases hreach'
  refine ⟨t0, hnew, st, r, hreach, hstep, ?_⟩
  intro b key
  cases b
  · exact Chain.nodes_bound hash st.a key ha
  · exact Chain.nodes_bound hash st.b key hb

/-- linear probing (`linear_hash_table.go`): no operation fails (in particular the re-insertion loop of
`Delete` ends within `m` re-insertions) and every probe walk inspects at most `m` slots -/
theorem C03_linear {K V σ : Type} [DecidableEq K] (hash : K → UInt64) (sh : Shuffle σ) (hsh : ShufflePerm sh)
    (eqVal : V → V → Bool) (opts : Opts) (hv : Lin.ValidOpts opts) (g : σ) (ops : List (Op K V)) (op : Op K V) :
    ∃ t0 : LinTable K V, Lin.new opts = .ok t0 ∧
      ∃ st r, reach (Lin.impl sh hash eqVal) ⟨t0, t0, g⟩ ops = some st ∧
        step (Lin.impl sh hash eqVal) st op = .ok r ∧
        ∀ (b : Bool) (key : K), ∃ c,
          Lin.probes (st.sel b) (mix (hash key)) key (st.sel b).m 0 = some c ∧ c ≤ (st.sel b).m := by
  obtain ⟨t0, hnew, hinv, hempty⟩ := Lin.init_spec (V := V) hash opts hv
  have hrel : Rel (Lin.Inv hash) Lin.Live t0 ([] : Spec.Map K V) :=
    ⟨hinv, Spec.nodupKeys_nil, fun k v => by simp [hempty k v]⟩
  obtain ⟨st, r, hreach, hstep⟩ :=
    step_ok_of_reach (Lin.correct hsh hash eqVal) ops ⟨t0, t0, g⟩ ⟨[], []⟩ hrel hrel op (Or.inl trivial)
  obtain ⟨st', hreach', ha, hb⟩ := reach_inv (Lin.correct hsh hash eqVal) ops ⟨t0, t0, g⟩ ⟨[], []⟩ (Or.inl trivial) hrel hrel
  rw [hreach] at hreach'
  cases hreach'
  refine ⟨t0, hnew, st, r, hreach, hstep, ?_⟩
  intro b key
  have hsel : Lin.Inv hash (st.sel b) := by cases b <;> simp [State.sel, ha, hb]
  exact Lin.probes_bound hash (st.sel b) key hsel

/-- quadratic probing and double hashing share the Model; `kind` selects the probe sequence -/
theorem C03_openAddressing {K V σ : Type} [DecidableEq K] (kind : Kind) (hash : K → UInt64) (sh : Shuffle σ)
    (hsh : ShufflePerm sh) (eqVal : V → V → Bool) (opts : Opts) (hv : OA.ValidOpts kind opts) (g : σ)
    (ops : List (Op K V)) (op : Op K V) :
    ∃ t0 : OATable K V, OA.new kind opts = .ok t0 ∧
      ∃ st r, reach (OA.impl sh hash eqVal) ⟨t0, t0, g⟩ ops = some st ∧
        step (OA.impl sh hash eqVal) st op = .ok r ∧
        ∀ (b : Bool) (key : K), ∃ cg cf,
          OA.probesGet (st.sel b) (mix (hash key)) key (st.sel b).m 0 = some cg ∧
          OA.probesFind (st.sel b) (mix (hash key)) key (st.sel b).m 0 = some cf ∧
          cg ≤ cover (st.sel b).kind (st.sel b).m ∧ cf ≤ cover (st.sel b).kind (st.sel b).m ∧
          cover (st.sel b).kind (st.sel b).m ≤ (st.sel b).m := by
  obtain ⟨t0, hnew, hinv, hempty⟩ := OA.init_spec (V := V) hash kind opts hv
  have hrel : Rel (OA.Inv hash) OA.Live t0 ([] : Spec.Map K V) :=
    ⟨hinv, Spec.nodupKeys_nil, fun k v => by simp [hempty k v]⟩
  obtain ⟨st, r, hreach, hstep⟩ :=
    step_ok_of_reach (OA.correct hsh hash eqVal) ops ⟨t0, t0, g⟩ ⟨[], []⟩ hrel hrel op (Or.inl trivial)
  obtain ⟨st', hreach', ha, hb⟩ := reach_inv (OA.correct hsh hash eqVal) ops ⟨t0, t0, g⟩ ⟨[], []⟩ (Or.inl trivial) hrel hrel
  rw [hreach] at hreach'
  cases hreach'
  refine ⟨t0, hnew, st, r, hreach, hstep, ?_⟩
  intro b key
  have hsel : OA.Inv hash (st.sel b) := by cases b <;> simp [State.sel, ha, hb]
  obtain ⟨cg, cf, h1, h2, h3, h4⟩ := OA.probes_bound hash (st.sel b) key hsel
  exact ⟨cg, cf, h1, h2, h3, h4, cover_le _ _⟩

/-- quadratic probing (`quadratic_hash_table.go`): at most `(m+1)/2 ≤ m` probes -/
theorem C03_quadratic {K V σ : Type} [DecidableEq K] (hash : K → UInt64) (sh : Shuffle σ)
    (hsh : ShufflePerm sh) (eqVal : V → V → Bool) (opts : Opts) (hv : OA.ValidOpts .quad opts) (g : σ)
    (ops : List (Op K V)) (op : Op K V) :
    ∃ t0 : OATable K V, OA.new .quad opts = .ok t0 ∧
      ∃ st r, reach (OA.impl sh hash eqVal) ⟨t0, t0, g⟩ ops = some st ∧
        step (OA.impl sh hash eqVal) st op = .ok r ∧
        ∀ (b : Bool) (key : K), ∃ cg cf,
          OA.probesGet (st.sel b) (mix (hash key)) key (st.sel b).m 0 = some cg ∧
          OA.probesFind (st.sel b) (mix (hash key)) key (st.sel b).m 0 = some cf ∧
          cg ≤ cover (st.sel b).kind (st.sel b).m ∧ cf ≤ cover (st.sel b).kind (st.sel b).m ∧
          cover (st.sel b).kind (st.sel b).m ≤ (st.sel b).m :=
  C03_openAddressing .quad hash sh hsh eqVal opts hv g ops op

/-- double hashing (`double_hash_table.go`): at most `m` probes -/
theorem C03_double {K V σ : Type} [DecidableEq K] (hash : K → UInt64) (sh : Shuffle σ)
    (hsh : ShufflePerm sh) (eqVal : V → V → Bool) (opts : Opts) (hv : OA.ValidOpts .dbl opts) (g : σ)
    (ops : List (Op K V)) (op : Op K V) :
    ∃ t0 : OATable K V, OA.new .dbl opts = .ok t0 ∧
      ∃ st r, reach (OA.impl sh hash eqVal) ⟨t0, t0, g⟩ ops = some st ∧
        step (OA.impl sh hash eqVal) st op = .ok r ∧
        ∀ (b : Bool) (key : K), ∃ cg cf,
          OA.probesGet (st.sel b) (mix (hash key)) key (st.sel b).m 0 = some cg ∧
          OA.probesFind (st.sel b) (mix (hash key)) key (st.sel b).m 0 = some cf ∧
          cg ≤ cover (st.sel b).kind (st.sel b).m ∧ cf ≤ cover (st.sel b).kind (st.sel b).m ∧
          cover (st.sel b).kind (st.sel b).m ≤ (st.sel b).m :=
  C03_openAddressing .dbl hash sh hsh eqVal opts hv g ops op

/-! ## tables used together -/

/-- a pool of tables (`Model/C02Pool.lean`: any number of tables, each of any of the four implementations with its own
hash function, `eqVal` and valid options; operations on any of them, `Equal` between any two, sequences and
traversals held on to): every history reaches a state, any further operation returns, and in the reached state the
probe walk of every key stays within the bound of its table in EVERY table of the pool -/
theorem C03_pool {K V σ : Type} [DecidableEq K] (sh : Shuffle σ) (hsh : ShufflePerm sh) (cfgs : List (Cfg K V))
    (hv : ∀ c ∈ cfgs, Tab.ValidOpts c.ty c.opts) (g : σ) (ops : List (POp K V)) (op : POp K V) :
    ∃ objs : List (Obj K V), Pool.new cfgs = .ok objs ∧
      ∃ st r, Pool.reach sh ⟨objs, g, {}⟩ ops = some st ∧ Pool.step sh st op = .ok r ∧
        ∀ o ∈ st.objs, Tab.ProbesBounded o.hash o.tab := by
  obtain ⟨objs, hnew, hrel⟩ := Pool.init_rel (σ := σ) cfgs hv
  obtain ⟨st, ss, hreach, hrel'⟩ := pool_reach hsh ops _ _ (hrel g)
  obtain ⟨st', o, _, hstep, _⟩ := pool_step_sim hsh st ss hrel' op
  exact ⟨objs, hnew, st, (st', o), hreach, hstep, fun o ho => Tab.probes_bounded o.hash o.tab (hrel'.inv o ho)⟩

/-- the hypothesis is satisfiable and the reached pool is not trivial: two quadratic tables under a constant hash, one
churned (16 cycles of put / delete of fresh keys: D3's history), one filled with 16 colliding keys (D26's), compared
with `Equal` at the end; table 0 has re-hashed in place (m = 31), table 1 has grown (m = 67) -/
example : (match (Pool.new [⟨.quadratic, fun _ => 5, fun a b => a == b, {}⟩, ⟨.quadratic, fun _ => 5, fun a b => a == b, {}⟩] :
      Outcome (List (Obj Int Int))) with
    | .ok objs =>
      match Pool.reach (fun g n => (List.range n, g)) ⟨objs, (), {}⟩
          (((List.range 16).flatMap fun i => [POp.put 0 (i : Int) 0, POp.delete 0 (i : Int)]) ++
           ((List.range 16).map fun i => POp.put 1 (i : Int) 0) ++ [.equal 0 1, .equal 1 1]) with
      | some st => st.objs.map fun o => match o.tab with
          | .oa t => (t.m, t.n, t.u)
          | _ => (0, 0, 0)
      | none => []
    | _ => []) = [(31, 0, 1), (67, 16, 16)] := by
  decide

/-! ## every constructor call site of /repo passes valid options -/

open AlgoVerif.C03 AlgoVerif.Generated in
/-- Every call of `NewQuadraticHashTable` / `NewDoubleHashTable` / `NewLinearHashTable` / `NewChainHashTable` in the
non-test source of /repo (the regenerated table `C03CallSites`) either passes a statically known `HashOpts` value
that satisfies exactly the hypothesis of `C03_quadratic` / `C03_double` / `C03_linear` / `C03_chain` (`ValidFor`:
what the constructor accepts after its own defaulting of zero fields, load-factor bounds no looser than the
defaults), or sits in a method of the table's own struct and hands the receiver's bounds on (`Inherits`: `resize`,
`SelectMatch`, `PartitionMatch`).  No entry is `unknown`. -/
theorem C03_repo_callsites_valid : ∀ s ∈ C03CallSites, SiteValid s := by
  decide

open AlgoVerif.C03 AlgoVerif.Generated in
/-- … therefore every table the library builds for itself with statically known options — `grammar.Productions`,
the FIRST/FOLLOW tables, the LR ACTION/GOTO tables and their rows, the predictive parsing table — terminates:
for every key type, hash function, shuffle and history the constructor accepts the options, the history reaches a
state and any further operation returns (`Terminates`, the conclusion of the four theorems above). -/
theorem C03_repo_tables_terminate : ∀ s ∈ C03CallSites, ∀ o, staticOpts s = some o → Terminates s.ctor o := by
  intro s hs o ho
  have hv : ValidFor s.ctor o := by
    have := C03_repo_callsites_valid s hs
    simpa [SiteValid, ho] using this
  cases hc : s.ctor <;> rw [hc] at hv
  · intro K V σ _ hash sh hsh eqVal g ops op
    obtain ⟨t0, h0, st, r, h1, h2, _⟩ := C03_quadratic (K := K) (V := V) hash sh hsh eqVal o hv g ops op
    exact ⟨t0, h0, st, r, h1, h2⟩
  · intro K V σ _ hash sh hsh eqVal g ops op
    obtain ⟨t0, h0, st, r, h1, h2, _⟩ := C03_double (K := K) (V := V) hash sh hsh eqVal o hv g ops op
    exact ⟨t0, h0, st, r, h1, h2⟩
  · intro K V σ _ hash sh hsh eqVal g ops op
    obtain ⟨t0, h0, st, r, h1, h2, _⟩ := C03_linear (K := K) (V := V) hash sh hsh eqVal o hv g ops op
    exact ⟨t0, h0, st, r, h1, h2⟩
  · intro K V σ _ hash sh hsh eqVal g ops op
    obtain ⟨t0, h0, st, r, h1, h2, _⟩ := C03_chain (K := K) (V := V) hash sh hsh eqVal o hv g ops op
    exact ⟨t0, h0, st, r, h1, h2⟩

open AlgoVerif.C03 AlgoVerif.Generated in
/-- the sites that inherit (`SelectMatch`, `PartitionMatch`: default capacity, the receiver's bounds): whenever the
receiver's bounds are valid — which `ValidOpts` of the receiver's own constructor call gives, the bounds never
change afterwards — the new table is built with valid options and terminates.  (The `resize` sites are the calls
`OA.resizeWith` / `Lin.resizeWith` / `Chain.resizeWith` of the Model and are inside the theorems above.) -/
theorem C03_repo_inherited_tables_terminate : ∀ s ∈ C03CallSites, staticOpts s = none → s.cap = .dflt →
    ∀ rmin rmax, ValidLF (dminOf s.ctor) (dmaxOf s.ctor) rmin rmax →
      ValidFor s.ctor ⟨0, rmin, rmax⟩ ∧ Terminates s.ctor ⟨0, rmin, rmax⟩ := by
  intro s _ _ _ rmin rmax hr
  have hv := inherits_valid s.ctor rmin rmax hr
  refine ⟨hv, ?_⟩
  cases hc : s.ctor <;> rw [hc] at hv
  · intro K V σ _ hash sh hsh eqVal g ops op
    obtain ⟨t0, h0, st, r, h1, h2, _⟩ := C03_quadratic (K := K) (V := V) hash sh hsh eqVal _ hv g ops op
    exact ⟨t0, h0, st, r, h1, h2⟩
  · intro K V σ _ hash sh hsh eqVal g ops op
    obtain ⟨t0, h0, st, r, h1, h2, _⟩ := C03_double (K := K) (V := V) hash sh hsh eqVal _ hv g ops op
    exact ⟨t0, h0, st, r, h1, h2⟩
  · intro K V σ _ hash sh hsh eqVal g ops op
    obtain ⟨t0, h0, st, r, h1, h2, _⟩ := C03_linear (K := K) (V := V) hash sh hsh eqVal _ hv g ops op
    exact ⟨t0, h0, st, r, h1, h2⟩
  · intro K V σ _ hash sh hsh eqVal g ops op
    obtain ⟨t0, h0, st, r, h1, h2, _⟩ := C03_chain (K := K) (V := V) hash sh hsh eqVal _ hv g ops op
    exact ⟨t0, h0, st, r, h1, h2⟩

open AlgoVerif.C03 AlgoVerif.Generated in
/-- the two users the property names, by name: the tables behind `grammar.NewProductions` and behind
`lr.NewParsingTable` (ACTION and GOTO) and the rows created by `AddACTION` / `SetGOTO` are in the table, are
quadratic tables with static options, and terminate — these are the options the Models `C03.Productions` and
`C03.LRTable` (corresponded with the Go code on every run) are constructed with. -/
theorem C03_productions_and_parsing_table_terminate :
    ∀ site ∈ [("grammar/production.go", "NewProductions", 0), ("parser/lr/parsing_table.go", "NewParsingTable", 0),
        ("parser/lr/parsing_table.go", "NewParsingTable", 1), ("parser/lr/parsing_table.go", "ParsingTable.AddACTION", 0),
        ("parser/lr/parsing_table.go", "ParsingTable.SetGOTO", 0)],
      (oaSite site.1 site.2.1 site.2.2).map Prod.fst = some Kind.quad ∧
      ∀ o, oaSite site.1 site.2.1 site.2.2 = some (.quad, o) → Terminates .quadratic o := by
  have key : ∀ file fn idx o, oaSite file fn idx = some (.quad, o) → Terminates .quadratic o := by
    intro file fn idx o h
    unfold oaSite at h
    cases hf : findSite file fn idx with
    | none => simp [hf] at h
    | some s =>
      have hmem : s ∈ C03CallSites := List.mem_of_find?_eq_some hf
      rw [hf] at h
      cases hk : oaKind s.ctor with
      | none => simp [hk] at h
      | some k =>
        cases hs : staticOpts s with
        | none => simp [hk, hs] at h
        | some o' =>
          simp [hk, hs] at h
          obtain ⟨h1, h2⟩ := h
          have hq : s.ctor = .quadratic := by
            cases hc : s.ctor <;> simp [oaKind, hc] at hk <;> simp_all
          have := C03_repo_tables_terminate s hmem o' hs
          rw [hq, h2] at this
          exact this
  have hsites : ∀ site ∈ [("grammar/production.go", "NewProductions", 0), ("parser/lr/parsing_table.go", "NewParsingTable", 0),
        ("parser/lr/parsing_table.go", "NewParsingTable", 1), ("parser/lr/parsing_table.go", "ParsingTable.AddACTION", 0),
        ("parser/lr/parsing_table.go", "ParsingTable.SetGOTO", 0)],
      (oaSite site.1 site.2.1 site.2.2).map Prod.fst = some Kind.quad := by decide
  intro site hm
  exact ⟨hsites site hm, fun o h => key _ _ _ o h⟩

/-! ## the hypotheses are satisfiable, on the states of the former defects -/
section NonVacuity

def idShuffle3 : Shuffle Unit := fun g n => (List.range n, g)

example : ShufflePerm idShuffle3 := fun _ _ => List.Perm.refl _
example : OA.ValidOpts .quad {} := ⟨Or.inl rfl, by constructor <;> decide⟩
example : OA.ValidOpts .dbl {} := ⟨Or.inl rfl, by constructor <;> decide⟩
example : Lin.ValidOpts {} := ⟨Or.inl rfl, by constructor <;> decide⟩
example : Chain.ValidOpts {} := ⟨Or.inl rfl, by constructor <;> decide⟩

/-- `put i; delete i` for `i = 0 … n-1` -/
def churn : Nat → List (Op Int Int)
  | 0 => []
  | n + 1 => churn n ++ [.put false n n, .delete false n]

/-- D3's history (constant hash, 16 churn cycles at `m = 31`, then `put 16`; before the fix the last `put`
never returned): the Model, as it is now, runs it to the end — `put 15` re-hashes into the same size and
drops the 15 tombstones — and the absent key 1000 is then found absent after 3 probes. -/
example : (match (OA.new .quad {} : Outcome (OATable Int Int)) with
    | .ok t0 =>
      match reach (OA.impl idShuffle3 (fun _ => 5) (fun a b => a == b)) ⟨t0, t0, ()⟩ (churn 16 ++ [.put false 16 16]) with
      | some st => (st.a.m, st.a.n, st.a.u, OA.probesGet st.a (mix 5) 1000 st.a.m 0)
      | none => (0, 0, 0, none)
    | _ => (0, 0, 0, none)) = (31, 1, 2, some 3) := by
  decide

/-- D26's history (constant hash, 16 colliding live keys, no delete): the 16th `put` now grows the table
to 67 slots, and looking up an absent colliding key takes 17 probes. -/
example : (match (OA.new .quad {} : Outcome (OATable Int Int)) with
    | .ok t0 =>
      match reach (OA.impl idShuffle3 (fun _ => 5) (fun a b => a == b)) ⟨t0, t0, ()⟩
          ((List.range 16).map fun i => .put false (i + 1 : Nat) 0) with
      | some st => (st.a.m, st.a.n, st.a.u, OA.probesGet st.a (mix 5) 1000 st.a.m 0)
      | none => (0, 0, 0, none)
    | _ => (0, 0, 0, none)) = (67, 16, 16, some 17) := by
  decide

open AlgoVerif.C03 AlgoVerif.Generated in
/-- the table of call sites is not empty, it contains both kinds of entry, and the validity predicate is not
trivially true: the options of the seeded changes C03-n2 / C03-n3 (`MaxLoadFactor` 0.6 resp. 0.75 at an external
site) and a site the translator could not evaluate are rejected. -/
example : C03CallSites.length ≥ 27 ∧ (∃ s ∈ C03CallSites, (staticOpts s).isSome) ∧ (∃ s ∈ C03CallSites, Inherits s) ∧
    ¬ SiteValid ⟨"parser/lr/parsing_table.go", "NewParsingTable", 0, .quadratic, false, .dflt, .dflt, .lit 3 5⟩ ∧
    ¬ SiteValid ⟨"grammar/production.go", "NewProductions", 0, .quadratic, false, .dflt, .dflt, .lit 3 4⟩ ∧
    ¬ SiteValid ⟨"x.go", "f", 0, .quadratic, false, .dflt, .dflt, .unknown⟩ ∧
    ¬ SiteValid ⟨"x.go", "f", 0, .quadratic, false, .dflt, .recvMin, .recvMax⟩ ∧
    SiteValid ⟨"x.go", "f", 0, .double, false, .lit 61, .lit 1 4, .lit 3 8⟩ := by
  decide

open AlgoVerif.C03 in
/-- bounds a receiver may have: the defaults of the quadratic table -/
example : ValidLF (dminOf .quadratic) (dmaxOf .quadratic) ⟨1, 8⟩ ⟨1, 2⟩ := by decide

/-- the bytes of the non-terminal name `N<n>` -/
def ntName (n : Nat) : List UInt8 := 78 :: (Nat.toDigits 10 n).map fun c => UInt8.ofNat c.toNat

open AlgoVerif.C03 in
/-- the witness of the seeded change C03-n3 on the Model of `grammar.Productions` (built with the options of its
call site): 17 heads whose default string hashes share the home slot 5 modulo 31 are added; the 16th `Add` grows
the table to 67 slots, every `Add` returns and every head is found. -/
example : (match Productions.new with
    | .ok p0 =>
      match ([28, 30, 57, 75, 128, 160, 180, 202, 270, 281, 291, 338, 363, 382, 418, 426, 443].map ntName).foldl
          (fun (acc : Outcome (Productions × Unit)) h =>
            match acc with
            | .ok (p, g) => Productions.add idShuffle3 p g h 0
            | o => o) (.ok (p0, ())) with
      | .ok (p, _) => (p.table.m, p.table.n, p.table.u,
          (Productions.get p (ntName 443)).map (Option.map List.length), (Productions.get p (ntName 444)).map (Option.map List.length))
      | _ => (0, 0, 0, .panic, .panic)
    | _ => (0, 0, 0, .panic, .panic)) = (67, 17, 17, .ok (some 1), .ok none) := by
  decide

end NonVacuity
