import AlgoVerif.Generated.Layout

/-! # C17: the state space the Model was written for (written by bin/mklayout, checked on every run)

The hand Model mirrors the Go code's state: the fields of its structs and nothing else (no package-level
variables).  `AlgoVerif.Generated.Layout` is regenerated from /repo by the extractor on every check; the theorems
below pin, for every source file the Model mirrors, the struct types it declares, their fields (name : type) and
the package-level variables it declares.  A new field — a cache, a memoised result, a scratch buffer, a counter —
a new struct type or a new package-level variable is state the Model does not describe: the theorems of
`Props/C17.lean` then no longer speak about the code, the obligation here breaks, and the check searches for
a failing input with the enlarged budget (DESIGN.md §4.6). -/

open AlgoVerif.Generated

-- unionfind/unionfind.go
theorem C17_layout_types_unionfind_unionfind : Layout.types_unionfind_unionfind = ["quickFind", "quickUnion", "weightedQuickUnion"] := rfl
theorem C17_layout_vars_unionfind_unionfind : Layout.vars_unionfind_unionfind = [] := rfl
theorem C17_layout_unionfind_quickFind : Layout.unionfind_quickFind =
    ["count : int", "id : []int"] := rfl
theorem C17_layout_unionfind_quickUnion : Layout.unionfind_quickUnion =
    ["count : int", "root : []int"] := rfl
theorem C17_layout_unionfind_weightedQuickUnion : Layout.unionfind_weightedQuickUnion =
    ["count : int", "root : []int", "size : []int"] := rfl
