import AlgoVerif.Proofs.C01Avl
import AlgoVerif.Proofs.C01RbTop
import AlgoVerif.Proofs.C01Inst
import AlgoVerif.Generated.C01
/-!
# C01 — ordered symbol tables behave as a sorted map on every operation history

`run kind cmp eqVal ops` executes the history `ops` on three fresh tables of the Model
(`Model/C01.lean`, the transcription of `symboltable/{bst,avl,red_black}.go`); `Spec.accepts` says that
the abstract sorted map (`Spec/C01.lean`) admits the sequence of results.  The theorems say: for
every lawful comparator, every value equality, every finite history of API calls (every predicate,
every argument), the Model neither panics nor diverges and every result is the one the abstract
sorted map gives.
-/
open AlgoVerif AlgoVerif.C01

theorem C01_bst {K V : Type} (cmp : K → K → Int) (h : LawfulCmp cmp) (eqVal : V → V → Bool)
    (ops : List (Op K V)) :
    ∃ s outs, run .bst cmp eqVal ops = .ok (s, outs) ∧ Spec.accepts cmp eqVal ([], [], []) ops outs := by
  obtain ⟨s, outs, e, -, acc⟩ := runFrom_ok (bst_kindOK h) h eqVal ops (.nil, .nil, .nil) ⟨inv_nil, inv_nil, inv_nil⟩
  exact ⟨s, outs, e, acc⟩

theorem C01_avl {K V : Type} (cmp : K → K → Int) (h : LawfulCmp cmp) (eqVal : V → V → Bool)
    (ops : List (Op K V)) :
    ∃ s outs, run .avl cmp eqVal ops = .ok (s, outs) ∧ Spec.accepts cmp eqVal ([], [], []) ops outs := by
  obtain ⟨s, outs, e, -, acc⟩ := runFrom_ok (avl_kindOK h) h eqVal ops (.nil, .nil, .nil) ⟨inv_nil, inv_nil, inv_nil⟩
  exact ⟨s, outs, e, acc⟩

theorem C01_rb {K V : Type} (cmp : K → K → Int) (h : LawfulCmp cmp) (eqVal : V → V → Bool)
    (ops : List (Op K V)) :
    ∃ s outs, run .rb cmp eqVal ops = .ok (s, outs) ∧ Spec.accepts cmp eqVal ([], [], []) ops outs := by
  obtain ⟨s, outs, e, -, acc⟩ := runFrom_ok (rb_kindOK h) h eqVal ops (.nil, .nil, .nil)
    ⟨⟨inv_nil, llrb_nil⟩, ⟨inv_nil, llrb_nil⟩, ⟨inv_nil, llrb_nil⟩⟩
  exact ⟨s, outs, e, acc⟩

/-- `Traverse` stated exactly (not only up to the enumeration the sorted map admits): in each of the eight
orders, with a visitor that stops after `limit` pairs (`0` = never), it visits precisely the first pairs of
the pre-order, in-order or post-order listing `listing o t` of the tree (a plain structural recursion, defined in
`Proofs/C01Traverse.lean`); for an invalid order it visits nothing.  Holds for every tree. -/
theorem C01_traverse_exact {K V : Type} (o : Order) (limit : Nat) (t : Tree K V) :
    traverseCollect o limit t = if o = .other then [] else Spec.takeLim limit (listing o t) := by
  by_cases ho : o = .other
  · subst ho; simp [traverseCollect_other]
  · rw [if_neg ho, traverseCollect_eq o ho]

/-- `FirstMatch` stated exactly: the first pair of the pre-order (VLR) listing that satisfies the
predicate; `AnyMatch`/`AllMatch` stop at the first decisive pair of the same listing but their result
does not depend on it. -/
theorem C01_firstMatch_exact {K V : Type} (p : K → V → Bool) (t : Tree K V) :
    firstMatch p t = (listing .vlr t).find? (fun x => p x.1 x.2) :=
  firstMatch_eq p t

/-- The Model has the query half of the three tables once.  This is the regenerated fact that justifies it:
on the current /repo the 29 query functions of `bst.go`, `avl.go` and `red_black.go` are identical after
renaming (`bin/pre-C01` rewrites `Generated/C01.lean` on every check). -/
theorem C01_queries_shared : AlgoVerif.Generated.C01.allShared = true := by decide

/-! ### non-vacuity -/

/-- the two comparators of the harness satisfy the law the theorems assume -/
example : LawfulCmp cmpAsc := lawful_cmpAsc
example : LawfulCmp cmpDesc := lawful_cmpDesc
/-- … and so do the non-normalised ones (`a-b`, `7*(a-b)`, `b-a`) -/
example : LawfulCmp cmpDiff := lawful_cmpDiff
example : LawfulCmp cmpDiff7 := lawful_cmpDiff7
example : LawfulCmp cmpRDiff := lawful_cmpRDiff

example : okAnd (run .rb cmpDiff7 eqInt
      [.put 1 1, .put 3 3, .put 2 2, .put 7 7, .put 6 6, .put 5 5, .put 4 4, .delete 2, .delete 6, .deleteMin,
        .deleteMax, .allUntil 2, .equalOther])
    (fun r => r.1.1.sz == 3) = true := by decide

/-- a history with a double rotation (AVL: 1, 3, 2) reaching a 7-key tree, then a two-child `Delete`,
`DeleteMin`, `DeleteMax`, a query on an absent key and a `SelectMatch`, runs to completion -/
example : okAnd (run .avl cmpAsc eqInt
      [.put 1 1, .put 3 3, .put 2 2, .put 7 7, .put 6 6, .put 5 5, .put 4 4, .size, .delete 4, .deleteMin,
        .deleteMax, .floor 4, .selectMatch (fun k _ => k % 2 == 0), .swap, .all])
    (fun r => r.1.1.sz == 2 && r.1.2.1.sz == 4) = true := by decide

example : okAnd (run .rb cmpDesc eqInt
      [.put 1 1, .put 3 3, .put 2 2, .put 7 7, .put 6 6, .put 5 5, .put 4 4, .delete 2, .delete 6, .deleteMin,
        .deleteMax, .rank 4, .equal])
    (fun r => r.1.1.sz == 3) = true := by decide

example : okAnd (run .bst cmpAsc eqInt
      [.put 4 4, .put 2 2, .put 6 6, .put 1 1, .put 3 3, .put 5 5, .put 7 7, .delete 4, .delete 2, .select 2])
    (fun r => r.1.1.sz == 5) = true := by decide
