import AlgoVerif.Common
/-! # C01 — property theorems (none yet) -/
