import AlgoVerif.Proofs.C01Avl
import AlgoVerif.Proofs.C01RbTop
import AlgoVerif.Proofs.C01Inst
import AlgoVerif.Proofs.C01Equal
import AlgoVerif.Generated.C01
/-!
# C01 — ordered symbol tables behave as a sorted map on every operation history

`run kind a b c ops` executes the history `ops` on three tables of the Model (`Model/C01.lean`, the
transcription of `symboltable/{bst,avl,red_black}.go`); the theorems take three *fresh* tables
`Table.new cmpA eqA`, `Table.new cmpB eqB`, `Table.new cmpC eqC`, i.e. `New…(cmp, eqVal)` called three times,
**each time with its own comparator and its own value equality**.  `Spec.accepts` says that the abstract
sorted maps (`Spec/C01.lean`; each one ascending in its own comparator) admit the sequence of results.  The
theorems say: for all lawful comparators (one per table — the same one, or e.g. the natural and the reverse
order), all value equalities, every finite history of API calls (every predicate, every argument), the Model
neither panics nor diverges and every result is the one the abstract sorted maps give.  In particular
`a.Equal(b)` between two tables that enumerate the same pairs in different orders is inside the theorems; by
`C01_equal_comparator_free` the admitted answer is the comparator-free "both hold the same key-value pairs".
`SelectMatch`/`PartitionMatch` results inherit the receiver's comparator and value equality.
-/
open AlgoVerif AlgoVerif.C01

theorem C01_bst {K V : Type} (cmpA cmpB cmpC : K → K → Int) (hA : LawfulCmp cmpA) (hB : LawfulCmp cmpB)
    (hC : LawfulCmp cmpC) (eqA eqB eqC : V → V → Bool) (ops : List (Op K V)) :
    ∃ s outs, run .bst (.new cmpA eqA) (.new cmpB eqB) (.new cmpC eqC) ops = .ok (s, outs) ∧
      Spec.accepts (.new cmpA eqA, .new cmpB eqB, .new cmpC eqC) ops outs := by
  obtain ⟨s, outs, e, -, acc⟩ := runFrom_ok (fun _ h => bst_kindOK h) ops _
    (goodS_new (fun _ h => bst_kindOK h) hA hB hC eqA eqB eqC)
  exact ⟨s, outs, e, acc⟩

theorem C01_avl {K V : Type} (cmpA cmpB cmpC : K → K → Int) (hA : LawfulCmp cmpA) (hB : LawfulCmp cmpB)
    (hC : LawfulCmp cmpC) (eqA eqB eqC : V → V → Bool) (ops : List (Op K V)) :
    ∃ s outs, run .avl (.new cmpA eqA) (.new cmpB eqB) (.new cmpC eqC) ops = .ok (s, outs) ∧
      Spec.accepts (.new cmpA eqA, .new cmpB eqB, .new cmpC eqC) ops outs := by
  obtain ⟨s, outs, e, -, acc⟩ := runFrom_ok (fun _ h => avl_kindOK h) ops _
    (goodS_new (fun _ h => avl_kindOK h) hA hB hC eqA eqB eqC)
  exact ⟨s, outs, e, acc⟩

theorem C01_rb {K V : Type} (cmpA cmpB cmpC : K → K → Int) (hA : LawfulCmp cmpA) (hB : LawfulCmp cmpB)
    (hC : LawfulCmp cmpC) (eqA eqB eqC : V → V → Bool) (ops : List (Op K V)) :
    ∃ s outs, run .rb (.new cmpA eqA) (.new cmpB eqB) (.new cmpC eqC) ops = .ok (s, outs) ∧
      Spec.accepts (.new cmpA eqA, .new cmpB eqB, .new cmpC eqC) ops outs := by
  obtain ⟨s, outs, e, -, acc⟩ := runFrom_ok (fun _ h => rb_kindOK h) ops _
    (goodS_new (fun _ h => rb_kindOK h) hA hB hC eqA eqB eqC)
  exact ⟨s, outs, e, acc⟩

/-- What the abstract maps answer to `Equal` does not depend on the comparators the two tables were built
with: for any two lawful comparators and maps ascending in them, `Spec.equal` (the answer `C01_bst/avl/rb`
prove the Model gives) is true exactly when every pair of either map has its key in the other one with an
`eqVal`-equal value — keys compared with `=`, no order involved.  So a natural-order table and a
reverse-order table holding the same pairs are `Equal`. -/
theorem C01_equal_comparator_free {K V : Type} (cmp₁ cmp₂ : K → K → Int) (h₁ : LawfulCmp cmp₁)
    (h₂ : LawfulCmp cmp₂) (eqVal : V → V → Bool) (m₁ m₂ : Spec.Map K V) (s₁ : Spec.Sorted cmp₁ m₁)
    (s₂ : Spec.Sorted cmp₂ m₂) :
    Spec.equal cmp₁ cmp₂ eqVal m₁ m₂ = true ↔ Spec.SamePairs eqVal m₁ m₂ :=
  equal_iff_samePairs h₁ h₂ eqVal s₁ s₂

/-- `Traverse` stated exactly (not only up to the enumeration the sorted map admits): in each of the eight
orders, with a visitor that stops after `limit` pairs (`0` = never), it visits precisely the first pairs of
the pre-order, in-order or post-order listing `listing o t` of the tree (a plain structural recursion, defined in
`Proofs/C01Traverse.lean`); for an invalid order it visits nothing.  Holds for every tree. -/
theorem C01_traverse_exact {K V : Type} (o : Order) (limit : Nat) (t : Tree K V) :
    traverseCollect o limit t = if o = .other then [] else Spec.takeLim limit (listing o t) := by
  by_cases ho : o = .other
  · subst ho; simp [traverseCollect_other]
  · rw [if_neg ho, traverseCollect_eq o ho]

/-- `FirstMatch` stated exactly: the first pair of the pre-order (VLR) listing that satisfies the
predicate; `AnyMatch`/`AllMatch` stop at the first decisive pair of the same listing but their result
does not depend on it. -/
theorem C01_firstMatch_exact {K V : Type} (p : K → V → Bool) (t : Tree K V) :
    firstMatch p t = (listing .vlr t).find? (fun x => p x.1 x.2) :=
  firstMatch_eq p t

/-- The Model has the query half of the three tables once.  This is the regenerated fact that justifies it:
on the current /repo the 29 query functions of `bst.go`, `avl.go` and `red_black.go` are identical after
renaming (`bin/pre-C01` rewrites `Generated/C01.lean` on every check). -/
theorem C01_queries_shared : AlgoVerif.Generated.C01.allShared = true := by decide

/-! ### non-vacuity -/

/-- the two comparators of the harness satisfy the law the theorems assume -/
example : LawfulCmp cmpAsc := lawful_cmpAsc
example : LawfulCmp cmpDesc := lawful_cmpDesc
/-- … and so do the non-normalised ones (`a-b`, `7*(a-b)`, `b-a`) -/
example : LawfulCmp cmpDiff := lawful_cmpDiff
example : LawfulCmp cmpDiff7 := lawful_cmpDiff7
example : LawfulCmp cmpRDiff := lawful_cmpRDiff
example : LawfulCmp cmpRDiff3 := lawful_cmpRDiff3
/-- … and two orders that are neither the natural one nor its reverse: by absolute value then sign, evens
before odds -/
example : LawfulCmp cmpAbsSign := lawful_cmpAbsSign
example : LawfulCmp cmpEvenOdd := lawful_cmpEvenOdd

/-- the seeded change C01-s1 in the Model's terms: a natural-order table and a reverse-order table of the same
kind holding the same three pairs are `Equal` (both ways round, and after `SelectMatch`, whose result inherits
the receiver's comparator), and stop being so after a `Put` of a different value -/
example : okAnd (run .avl (.new cmpAsc eqInt) (.new cmpDesc eqInt) (.new cmpAbsSign eqInt)
      [.put 0 7, .put 3 5, .put (-2) 1, .swap, .put 3 5, .put (-2) 1, .put 0 7, .equal, .swap, .equal, .all, .swap,
        .all, .selectMatch (fun _ _ => true), .swap, .equal, .equalSelf, .put 0 8, .equal])
    (fun r => outBools r.2 == [true, true, true, true, false] &&
      r.1.1.root.toList == [(3, 5), (0, 8), (-2, 1)] && r.1.2.1.root.toList == [(3, 5), (0, 7), (-2, 1)] &&
      r.1.2.2.root.toList == []) = true := by decide

/-- the hypotheses of `C01_equal_comparator_free` on those two listings -/
example : Spec.Sorted cmpAsc [((-2 : Int), (1 : Int)), (0, 7), (3, 5)] ∧
    Spec.Sorted cmpDesc [((3 : Int), (5 : Int)), (0, 7), (-2, 1)] ∧
    Spec.equal cmpAsc cmpDesc eqInt [((-2 : Int), (1 : Int)), (0, 7), (3, 5)] [(3, 5), (0, 7), (-2, 1)] = true := by
  refine ⟨?_, ?_, by decide⟩ <;> simp [Spec.Sorted, cmpAsc, cmpDesc]

example : okAnd (run1 .rb cmpDiff7 eqInt
      [.put 1 1, .put 3 3, .put 2 2, .put 7 7, .put 6 6, .put 5 5, .put 4 4, .delete 2, .delete 6, .deleteMin,
        .deleteMax, .allUntil 2, .equalOther])
    (fun r => r.1.1.root.sz == 3) = true := by decide

/-- a history with a double rotation (AVL: 1, 3, 2) reaching a 7-key tree, then a two-child `Delete`,
`DeleteMin`, `DeleteMax`, a query on an absent key and a `SelectMatch`, runs to completion -/
example : okAnd (run1 .avl cmpAsc eqInt
      [.put 1 1, .put 3 3, .put 2 2, .put 7 7, .put 6 6, .put 5 5, .put 4 4, .size, .delete 4, .deleteMin,
        .deleteMax, .floor 4, .selectMatch (fun k _ => k % 2 == 0), .swap, .all])
    (fun r => r.1.1.root.sz == 2 && r.1.2.1.root.sz == 4) = true := by decide

example : okAnd (run1 .rb cmpDesc eqInt
      [.put 1 1, .put 3 3, .put 2 2, .put 7 7, .put 6 6, .put 5 5, .put 4 4, .delete 2, .delete 6, .deleteMin,
        .deleteMax, .rank 4, .equal])
    (fun r => r.1.1.root.sz == 3) = true := by decide

example : okAnd (run1 .bst cmpAsc eqInt
      [.put 4 4, .put 2 2, .put 6 6, .put 1 1, .put 3 3, .put 5 5, .put 7 7, .delete 4, .delete 2, .select 2])
    (fun r => r.1.1.root.sz == 5) = true := by decide
