import AlgoVerif.Proofs.C01Bst
/-!
# C01 — ordered symbol tables behave as a sorted map on every operation history

`run kind cmp eqVal ops` executes the history `ops` on two fresh tables of the Model
(`Model/C01.lean`, the transcription of `symboltable/{bst,avl,red_black}.go`); `Spec.accepts` says that
the abstract sorted map (`Spec/C01.lean`) admits the sequence of results.  The theorems say: for
every lawful comparator, every value equality, every finite history of API calls (every predicate,
every argument), the Model neither panics nor diverges and every result is the one the abstract
sorted map gives.
-/
open AlgoVerif AlgoVerif.C01

theorem C01_bst {K V : Type} (cmp : K → K → Int) (h : LawfulCmp cmp) (eqVal : V → V → Bool)
    (ops : List (Op K V)) :
    ∃ s outs, run .bst cmp eqVal ops = .ok (s, outs) ∧ Spec.accepts cmp eqVal ([], []) ops outs := by
  obtain ⟨s, outs, e, -, acc⟩ := runFrom_ok (bst_kindOK h) h eqVal ops (.nil, .nil) ⟨inv_nil, inv_nil⟩
  exact ⟨s, outs, e, acc⟩
