import AlgoVerif.Generated.Layout

/-! # C02: the state space the Model was written for (written by bin/mklayout, checked on every run)

The hand Model mirrors the Go code's state: the fields of its structs and nothing else (no package-level
variables).  `AlgoVerif.Generated.Layout` is regenerated from /repo by the extractor on every check; the theorems
below pin, for every source file the Model mirrors, the struct types it declares, their fields (name : type) and
the package-level variables it declares.  A new field — a cache, a memoised result, a scratch buffer, a counter —
a new struct type or a new package-level variable is state the Model does not describe: the theorems of
`Props/C02.lean` then no longer speak about the code, the obligation here breaks, and the check searches for
a failing input with the enlarged budget (DESIGN.md §4.6). -/

open AlgoVerif.Generated

-- symboltable/hash_table.go
theorem C02_layout_types_symboltable_hash_table : Layout.types_symboltable_hash_table = ["HashOpts", "hashTableEntry"] := rfl
theorem C02_layout_vars_symboltable_hash_table : Layout.vars_symboltable_hash_table = [] := rfl
theorem C02_layout_symboltable_HashOpts : Layout.symboltable_HashOpts =
    ["InitialCap : int", "MinLoadFactor : float32", "MaxLoadFactor : float32"] := rfl
theorem C02_layout_symboltable_hashTableEntry : Layout.symboltable_hashTableEntry =
    ["key : K", "val : V", "deleted : bool"] := rfl

-- symboltable/chain_hash_table.go
theorem C02_layout_types_symboltable_chain_hash_table : Layout.types_symboltable_chain_hash_table = ["chainNode", "chainHashTable"] := rfl
theorem C02_layout_vars_symboltable_chain_hash_table : Layout.vars_symboltable_chain_hash_table = [] := rfl
theorem C02_layout_symboltable_chainNode : Layout.symboltable_chainNode =
    ["key : K", "val : V", "next : *chainNode[K, V]"] := rfl
theorem C02_layout_symboltable_chainHashTable : Layout.symboltable_chainHashTable =
    ["buckets : []*chainNode[K, V]", "m : int", "n : int", "minLF : float32", "maxLF : float32", "hashKey : HashFunc[K]", "eqKey : EqualFunc[K]", "eqVal : EqualFunc[V]"] := rfl

-- symboltable/linear_hash_table.go
theorem C02_layout_types_symboltable_linear_hash_table : Layout.types_symboltable_linear_hash_table = ["linearHashTable"] := rfl
theorem C02_layout_vars_symboltable_linear_hash_table : Layout.vars_symboltable_linear_hash_table = [] := rfl
theorem C02_layout_symboltable_linearHashTable : Layout.symboltable_linearHashTable =
    ["entries : []*KeyValue[K, V]", "m : int", "n : int", "minLF : float32", "maxLF : float32", "hashKey : HashFunc[K]", "eqKey : EqualFunc[K]", "eqVal : EqualFunc[V]"] := rfl

-- symboltable/quadratic_hash_table.go
theorem C02_layout_types_symboltable_quadratic_hash_table : Layout.types_symboltable_quadratic_hash_table = ["quadraticHashTable"] := rfl
theorem C02_layout_vars_symboltable_quadratic_hash_table : Layout.vars_symboltable_quadratic_hash_table = [] := rfl
theorem C02_layout_symboltable_quadraticHashTable : Layout.symboltable_quadraticHashTable =
    ["entries : []*hashTableEntry[K, V]", "m : int", "n : int", "u : int", "minLF : float32", "maxLF : float32", "hashKey : HashFunc[K]", "eqKey : EqualFunc[K]", "eqVal : EqualFunc[V]"] := rfl

-- symboltable/double_hash_table.go
theorem C02_layout_types_symboltable_double_hash_table : Layout.types_symboltable_double_hash_table = ["doubleHashTable"] := rfl
theorem C02_layout_vars_symboltable_double_hash_table : Layout.vars_symboltable_double_hash_table = [] := rfl
theorem C02_layout_symboltable_doubleHashTable : Layout.symboltable_doubleHashTable =
    ["entries : []*hashTableEntry[K, V]", "m : int", "p : int", "n : int", "u : int", "minLF : float32", "maxLF : float32", "hashKey : HashFunc[K]", "eqKey : EqualFunc[K]", "eqVal : EqualFunc[V]"] := rfl

-- hash/hash.go
theorem C02_layout_types_hash_hash : Layout.types_hash_hash = [] := rfl
theorem C02_layout_vars_hash_hash : Layout.vars_hash_hash = [] := rfl
