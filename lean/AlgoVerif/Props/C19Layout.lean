import AlgoVerif.Generated.Layout

/-! # C19: the state space the Model was written for (written by bin/mklayout, checked on every run)

The hand Model mirrors the Go code's state: the fields of its structs and nothing else (no package-level
variables).  `AlgoVerif.Generated.Layout` is regenerated from /repo by the extractor on every check; the theorems
below pin, for every source file the Model mirrors, the struct types it declares, their fields (name : type) and
the package-level variables it declares.  A new field — a cache, a memoised result, a scratch buffer, a counter —
a new struct type or a new package-level variable is state the Model does not describe: the theorems of
`Props/C19.lean` then no longer speak about the code, the obligation here breaks, and the check searches for
a failing input with the enlarged budget (DESIGN.md §4.6). -/

open AlgoVerif.Generated

-- lexer/input/input.go
theorem C19_layout_types_lexer_input_input : Layout.types_lexer_input_input = ["Input", "InputError"] := rfl
theorem C19_layout_vars_lexer_input_input : Layout.vars_lexer_input_input = [] := rfl
theorem C19_layout_lexer_input_Input : Layout.lexer_input_Input =
    ["filename : string", "src : io.Reader", "buff : []byte", "lexemeBegin : int", "forward : int", "ahead : bool", "offset : int", "line : int", "column : int", "nextColumn : int", "runeSizes : list.Stack[int]", "lastColumns : list.Stack[int]", "err : error"] := rfl
theorem C19_layout_lexer_input_InputError : Layout.lexer_input_InputError =
    ["Description : string", "Pos : lexer.Position"] := rfl

-- lexer/input/utf8.go
theorem C19_layout_types_lexer_input_utf8 : Layout.types_lexer_input_utf8 = ["acceptRange"] := rfl
theorem C19_layout_vars_lexer_input_utf8 : Layout.vars_lexer_input_utf8 = ["first", "acceptRanges"] := rfl
theorem C19_layout_lexer_input_acceptRange : Layout.lexer_input_acceptRange =
    ["lo : uint8", "hi : uint8"] := rfl

-- lexer/lexer.go
theorem C19_layout_types_lexer_lexer : Layout.types_lexer_lexer = ["Token", "Position"] := rfl
theorem C19_layout_vars_lexer_lexer : Layout.vars_lexer_lexer = [] := rfl
theorem C19_layout_lexer_Token : Layout.lexer_Token =
    ["(embedded) : grammar.Terminal", "Lexeme : string", "Pos : Position"] := rfl
theorem C19_layout_lexer_Position : Layout.lexer_Position =
    ["Filename : string", "Offset : int", "Line : int", "Column : int"] := rfl
