import AlgoVerif.Generated.Layout

/-! # C04: the state space the Model was written for (written by bin/mklayout, checked on every run)

The hand Model mirrors the Go code's state: the fields of its structs and nothing else (no package-level
variables).  `AlgoVerif.Generated.Layout` is regenerated from /repo by the extractor on every check; the theorems
below pin, for every source file the Model mirrors, the struct types it declares, their fields (name : type) and
the package-level variables it declares.  A new field — a cache, a memoised result, a scratch buffer, a counter —
a new struct type or a new package-level variable is state the Model does not describe: the theorems of
`Props/C04.lean` then no longer speak about the code, the obligation here breaks, and the check searches for
a failing input with the enlarged budget (DESIGN.md §4.6). -/

open AlgoVerif.Generated

-- heap/heap.go
theorem C04_layout_types_heap_heap : Layout.types_heap_heap = [] := rfl
theorem C04_layout_vars_heap_heap : Layout.vars_heap_heap = [] := rfl

-- heap/binary.go
theorem C04_layout_types_heap_binary : Layout.types_heap_binary = ["binary"] := rfl
theorem C04_layout_vars_heap_binary : Layout.vars_heap_binary = [] := rfl
theorem C04_layout_heap_binary : Layout.heap_binary =
    ["cmpKey : generic.CompareFunc[K]", "eqVal : generic.EqualFunc[V]", "n : int", "heap : []*generic.KeyValue[K, V]"] := rfl

-- heap/binomial.go
theorem C04_layout_types_heap_binomial : Layout.types_heap_binomial = ["binomialNode", "binomial"] := rfl
theorem C04_layout_vars_heap_binomial : Layout.vars_heap_binomial = [] := rfl
theorem C04_layout_heap_binomialNode : Layout.heap_binomialNode =
    ["key : K", "val : V", "order : int", "child : *binomialNode[K, V]", "sibling : *binomialNode[K, V]"] := rfl
theorem C04_layout_heap_binomial : Layout.heap_binomial =
    ["cmpKey : generic.CompareFunc[K]", "eqVal : generic.EqualFunc[V]", "n : int", "head : *binomialNode[K, V]"] := rfl

-- heap/fibonacci.go
theorem C04_layout_types_heap_fibonacci : Layout.types_heap_fibonacci = ["fibonacciNode", "fibonacci"] := rfl
theorem C04_layout_vars_heap_fibonacci : Layout.vars_heap_fibonacci = [] := rfl
theorem C04_layout_heap_fibonacciNode : Layout.heap_fibonacciNode =
    ["key : K", "val : V", "degree : int", "child : *fibonacciNode[K, V]", "prev : *fibonacciNode[K, V]", "next : *fibonacciNode[K, V]"] := rfl
theorem C04_layout_heap_fibonacci : Layout.heap_fibonacci =
    ["cmpKey : generic.CompareFunc[K]", "eqVal : generic.EqualFunc[V]", "n : int", "ext : *fibonacciNode[K, V]"] := rfl
