import AlgoVerif.Generated.Layout

/-! # C16: the state space the Model was written for (written by bin/mklayout, checked on every run)

The hand Model mirrors the Go code's state: the fields of its structs and nothing else (no package-level
variables).  `AlgoVerif.Generated.Layout` is regenerated from /repo by the extractor on every check; the theorems
below pin, for every source file the Model mirrors, the struct types it declares, their fields (name : type) and
the package-level variables it declares.  A new field — a cache, a memoised result, a scratch buffer, a counter —
a new struct type or a new package-level variable is state the Model does not describe: the theorems of
`Props/C16.lean` then no longer speak about the code, the obligation here breaks, and the check searches for
a failing input with the enlarged budget (DESIGN.md §4.6). -/

open AlgoVerif.Generated

-- set/set.go
theorem C16_layout_types_set_set : Layout.types_set_set = ["globalSource", "set"] := rfl
theorem C16_layout_vars_set_set : Layout.vars_set_set = ["r"] := rfl
theorem C16_layout_set_globalSource : Layout.set_globalSource =
    [] := rfl
theorem C16_layout_set_set : Layout.set_set =
    ["members : []T", "equal : generic.EqualFunc[T]", "format : StringFormat[T]"] := rfl

-- set/stable.go
theorem C16_layout_types_set_stable : Layout.types_set_stable = ["stable"] := rfl
theorem C16_layout_vars_set_stable : Layout.vars_set_stable = [] := rfl
theorem C16_layout_set_stable : Layout.set_stable =
    ["members : []T", "equal : generic.EqualFunc[T]", "format : StringFormat[T]"] := rfl

-- set/sorted.go
theorem C16_layout_types_set_sorted : Layout.types_set_sorted = ["sorted"] := rfl
theorem C16_layout_vars_set_sorted : Layout.vars_set_sorted = [] := rfl
theorem C16_layout_set_sorted : Layout.set_sorted =
    ["members : []T", "compare : generic.CompareFunc[T]", "format : StringFormat[T]"] := rfl

-- set/format.go
theorem C16_layout_types_set_format : Layout.types_set_format = [] := rfl
theorem C16_layout_vars_set_format : Layout.vars_set_format = [] := rfl
