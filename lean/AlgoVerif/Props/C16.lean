import AlgoVerif.Model.C16
import AlgoVerif.Spec.C16
import AlgoVerif.Proofs.C16Order
import AlgoVerif.Proofs.C16Instances
/-!
# C16 — property theorems (helper lemmas in `Proofs/C16*.lean`)

Vocabulary (defined in `Proofs/C16Basic.lean`, `Proofs/C16Algebra.lean`):

* `WF0 s` — the representation invariant of a set object `s : MSet α` of any of the three
  implementations: its `equal` callback decides `=` (`set`, `stable`) resp. its `compare` callback is a
  total order (`sorted`: returns a sign function `c` with `c a b = 0 ↔ a = b`, antisymmetric, `<`
  transitive), the member slice has no duplicates, and for `sorted` is strictly ascending for
  `compare`.  `MSet.new` of a lawful callback satisfies it and every operation below preserves it, so
  it holds after *every* history; each theorem is therefore one step of the refinement, for an
  arbitrary reachable state, arbitrary arguments and an arbitrary mix of implementations.
* `ShLaw sh` — all that is assumed of the shuffle behind the unordered set's `All()`: it returns a
  permutation of the indices.
* `Spec.FSet` — duplicate-free lists up to permutation (`FSet.Equiv`), with `insertAll`, `eraseAll`,
  `memAll`, `card`, `eq`, `subset`, `unionAll`, `interAll`, `diffAll`.
-/
open AlgoVerif AlgoVerif.C16 AlgoVerif.C16.Spec

/-! ## refinement of the single-set operations, for each implementation -/

/-- a freshly constructed set of any implementation with a lawful callback is a valid empty set -/
theorem C16_new_refines {α : Type} {impl : Impl α} (hl : ImplLaw (fun _ => True) Eq impl) :
    WF0 (MSet.new impl) ∧ (MSet.new impl).members = FSet.empty :=
  ⟨wf0_new hl, rfl⟩

example : WF0 (MSet.new (.sorted Driver.cmpDesc)) := (C16_new_refines (impl := .sorted Driver.cmpDesc) cmpDesc_law).1

/-- `Add(vals...)` never panics or diverges, keeps the invariant and the implementation, and the new
member list denotes the old set with the values inserted -/
theorem C16_add_refines {α : Type} [DecidableEq α] {s : MSet α} (h : WF0 s) (vs : List α) :
    ∃ s', s.add vs = .ok s' ∧ WF0 s' ∧ s'.impl = s.impl ∧
      FSet.Equiv s'.members (FSet.insertAll s.members vs) := by
  obtain ⟨s', h₁, hw, hi, hm⟩ := MSet.add_spec0 h vs
  refine ⟨s', h₁, hw, hi, equiv_of_mem_iff hw.nodup (FSet.valid_insertAll h.nodup) (fun x => ?_)⟩
  rw [hm, FSet.mem_insertAll]

example : ∃ s', exAsc.add [4, 1, 0] = .ok s' ∧ WF0 s' ∧ s'.impl = exAsc.impl ∧
    FSet.Equiv s'.members (FSet.insertAll exAsc.members [4, 1, 0]) := C16_add_refines exAsc_wf _

/-- `Remove(vals...)`: the new member list is the old one without the values — same set, and the
remaining members keep their order (all three implementations) -/
theorem C16_remove_refines {α : Type} [DecidableEq α] {s : MSet α} (h : WF0 s) (vs : List α) :
    ∃ s', s.remove vs = .ok s' ∧ WF0 s' ∧ s'.impl = s.impl ∧
      s'.members = FSet.eraseAll s.members vs := by
  obtain ⟨s', h₁, hw, hi, _⟩ := MSet.remove_spec0 h vs
  obtain ⟨s'', h₂, hm⟩ := MSet.remove_seq0 h vs
  rw [h₁] at h₂
  cases h₂
  exact ⟨s', h₁, hw, hi, hm⟩

example : ∃ s', exUnordered.remove [1, 9] = .ok s' ∧ WF0 s' ∧ s'.impl = exUnordered.impl ∧
    s'.members = FSet.eraseAll exUnordered.members [1, 9] := C16_remove_refines exUnordered_wf _

/-- `RemoveAll()` -/
theorem C16_removeAll_refines {α : Type} {s : MSet α} (h : WF0 s) :
    WF0 s.removeAll ∧ s.removeAll.impl = s.impl ∧ s.removeAll.members = FSet.empty :=
  ⟨⟨by simp [MSet.removeAll], by simp [MSet.removeAll], h.law, fun _ _ => by simp [MSet.removeAll, SortedBy]⟩,
    rfl, rfl⟩

example : WF0 exDesc.removeAll := (C16_removeAll_refines exDesc_wf).1

/-- `Contains(vals...)` answers "all values are members" -/
theorem C16_contains_refines {α : Type} [DecidableEq α] {s : MSet α} (h : WF0 s) (vs : List α) :
    s.contains vs = .ok (FSet.memAll s.members vs) := by
  obtain ⟨r, hr, hiff⟩ := MSet.contains_spec eq_equivalence h vs (fun _ _ => trivial)
  rw [hr]
  congr 1
  rw [Bool.eq_iff_iff, hiff, FSet.memAll_iff]
  simp

example : exDesc.contains [2, 6] = .ok (FSet.memAll exDesc.members [2, 6]) := C16_contains_refines exDesc_wf _

/-- `Size()`, `IsEmpty()` -/
theorem C16_size_refines {α : Type} (s : MSet α) :
    s.size = (FSet.card s.members : Int) ∧ s.isEmpty = (FSet.card s.members == 0) :=
  ⟨rfl, rfl⟩

/-- ranging over `All()` yields every member exactly once (for any lawful shuffle) -/
theorem C16_all_refines {α σ : Type} {sh : Shuffle σ} (hsh : ShLaw sh) (s : MSet α) (g : σ) :
    ∃ ms g', s.all sh g = .ok (ms, g') ∧ FSet.Equiv ms s.members := by
  obtain ⟨ms, g', h, hp, _⟩ := MSet.all_spec hsh s g
  exact ⟨ms, g', h, hp⟩

example : ∃ ms g', exUnordered.all revShuffle () = .ok (ms, g') ∧ FSet.Equiv ms exUnordered.members :=
  C16_all_refines revShuffle_law _ _

/-- `Equal` between any two implementations decides equality of the two sets -/
theorem C16_equal_refines {α : Type} [DecidableEq α] {s t : MSet α} (hs : WF0 s) (ht : WF0 t) :
    s.equal t = .ok (FSet.eq s.members t.members) := by
  obtain ⟨r, hr, hiff⟩ := MSet.equal_spec0 hs ht
  rw [hr]
  congr 1
  rw [Bool.eq_iff_iff, hiff, FSet.eq_iff]

example : exStable.equal exAsc = .ok (FSet.eq exStable.members exAsc.members) := C16_equal_refines exStable_wf exAsc_wf

/-- `IsSubset` between any two implementations -/
theorem C16_isSubset_refines {α σ : Type} [DecidableEq α] {sh : Shuffle σ} (hsh : ShLaw sh) {s t : MSet α}
    (ht : WF0 t) (g : σ) : ∃ g', s.isSubset sh t g = .ok (FSet.subset s.members t.members, g') := by
  obtain ⟨r, g', hr, hiff⟩ := MSet.isSubset_spec0 hsh (s := s) ht g
  refine ⟨g', ?_⟩
  rw [hr]
  congr 2
  rw [Bool.eq_iff_iff, hiff, FSet.subset_iff]

/-- `IsSuperset` between any two implementations -/
theorem C16_isSuperset_refines {α σ : Type} [DecidableEq α] {sh : Shuffle σ} (hsh : ShLaw sh) {s t : MSet α}
    (hs : WF0 s) (g : σ) : ∃ g', s.isSuperset sh t g = .ok (FSet.subset t.members s.members, g') := by
  obtain ⟨r, g', hr, hiff⟩ := MSet.isSuperset_spec0 hsh (t := t) hs g
  refine ⟨g', ?_⟩
  rw [hr]
  congr 2
  rw [Bool.eq_iff_iff, hiff, FSet.subset_iff]

example : ∃ g', exUnordered.isSubset revShuffle exDesc () = .ok (FSet.subset exUnordered.members exDesc.members, g') :=
  C16_isSubset_refines revShuffle_law exDesc_wf _

/-- `Clone` returns a set object with the same implementation and members; `CloneEmpty` a valid empty
one.  (In the functional Model a value cannot be changed through another one; that later writes to
either object do not reach the other in the Go code is validated on every explored run: the harness
compares every register other than the destination with its snapshot after every operation.) -/
theorem C16_clone_refines {α : Type} {s : MSet α} (h : WF0 s) :
    s.clone = s ∧ WF0 s.cloneEmpty ∧ s.cloneEmpty.impl = s.impl ∧ s.cloneEmpty.members = FSet.empty :=
  ⟨rfl, wf0_cloneEmpty h, rfl, rfl⟩

/-! ## set algebra with any number and mix of operand implementations -/

/-- `s.Union(sets...)`: a valid set of the receiver's implementation denoting `s ∪ ⋃ sets` -/
theorem C16_union_spec {α σ : Type} [DecidableEq α] {sh : Shuffle σ} (hsh : ShLaw sh) {s : MSet α} (h : WF0 s)
    (sets : List (MSet α)) (hsets : ∀ u ∈ sets, WF0 u) (g : σ) :
    ∃ t g', s.union sh sets g = .ok (t, g') ∧ WF0 t ∧ t.impl = s.impl ∧
      FSet.Equiv t.members (FSet.unionAll s.members (sets.map (·.members))) := by
  obtain ⟨t, g', h₁, hw, hi, hm, _⟩ := MSet.union_spec0 hsh h sets g
  refine ⟨t, g', h₁, hw, hi, equiv_of_mem_iff hw.nodup
    (FSet.valid_unionAll h.nodup (by
      intro b hb
      obtain ⟨u, hu, rfl⟩ := List.mem_map.1 hb
      exact (hsets u hu).nodup)) (fun x => ?_)⟩
  rw [hm, FSet.mem_unionAll, exists_mem_map_members sets (x ∈ ·)]

example : ∃ t g', exStable.union revShuffle [exUnordered, exDesc, exStable] () = .ok (t, g') ∧ WF0 t ∧
    t.impl = exStable.impl ∧
    FSet.Equiv t.members (FSet.unionAll exStable.members ([exUnordered, exDesc, exStable].map (·.members))) :=
  C16_union_spec revShuffle_law exStable_wf _ (by
    intro u hu; simp at hu; rcases hu with rfl | rfl | rfl
    · exact exUnordered_wf
    · exact exDesc_wf
    · exact exStable_wf) _

/-- `s.Intersection(sets...)`: a valid set of the receiver's implementation denoting `s ∩ ⋂ sets` -/
theorem C16_intersection_spec {α : Type} [DecidableEq α] {s : MSet α} (h : WF0 s)
    (sets : List (MSet α)) (hsets : ∀ u ∈ sets, WF0 u) :
    ∃ t, s.intersection sets = .ok t ∧ WF0 t ∧ t.impl = s.impl ∧
      FSet.Equiv t.members (FSet.interAll s.members (sets.map (·.members))) := by
  obtain ⟨t, h₁, hw, hi, hm, _⟩ := MSet.intersection_spec0 h sets hsets
  refine ⟨t, h₁, hw, hi, equiv_of_mem_iff hw.nodup
    (List.Pairwise.sublist FSet.interAll_sublist h.nodup) (fun x => ?_)⟩
  rw [hm, FSet.mem_interAll, forall_mem_map_members sets (x ∈ ·)]

example : ∃ t, exAsc.intersection [exStable, exUnordered] = .ok t ∧ WF0 t ∧ t.impl = exAsc.impl ∧
    FSet.Equiv t.members (FSet.interAll exAsc.members ([exStable, exUnordered].map (·.members))) :=
  C16_intersection_spec exAsc_wf _ (by
    intro u hu; simp at hu; rcases hu with rfl | rfl
    · exact exStable_wf
    · exact exUnordered_wf)

/-- `s.Difference(sets...)`: a valid set of the receiver's implementation whose member list is the
receiver's without the members of the operands, in the receiver's order -/
theorem C16_difference_spec {α σ : Type} [DecidableEq α] {sh : Shuffle σ} (hsh : ShLaw sh) {s : MSet α} (h : WF0 s)
    (sets : List (MSet α)) (g : σ) :
    ∃ t g', s.difference sh sets g = .ok (t, g') ∧ WF0 t ∧ t.impl = s.impl ∧
      t.members = FSet.diffAll s.members (sets.map (·.members)) := by
  obtain ⟨t, g', h₁, hw, hi, hm, hsub⟩ := MSet.difference_spec0 hsh h sets g
  refine ⟨t, g', h₁, hw, hi, sublist_ext h.nodup hsub FSet.diffAll_sublist (fun x => ?_)⟩
  rw [hm, FSet.mem_diffAll, forall_mem_map_members sets (x ∉ ·)]

example : ∃ t g', exDesc.difference revShuffle [exUnordered, exDesc] () = .ok (t, g') ∧ WF0 t ∧
    t.impl = exDesc.impl ∧ t.members = FSet.diffAll exDesc.members ([exUnordered, exDesc].map (·.members)) :=
  C16_difference_spec revShuffle_law exDesc_wf _ _

/-! ## iteration order -/

/-- the stable set iterates in insertion order: `All()` yields the stored sequence (no shuffle), `Add`
appends each new value (`Seq.insertAll`), `Remove` deletes in place (`Seq.eraseAll`), `Union` keeps the
receiver's sequence as a prefix, `Intersection`/`Difference` are the receiver's sequence filtered.
(Stated for every implementation that is not `sorted`, i.e. also for the slice inside the unordered set.) -/
theorem C16_stable_insertion_order {α σ : Type} [DecidableEq α] {sh : Shuffle σ} (hsh : ShLaw sh) {s : MSet α}
    (h : WF0 s) (hl : s.impl.isSorted = false) (vs : List α) (sets : List (MSet α)) (hsets : ∀ u ∈ sets, WF0 u) (g : σ) :
    (s.impl.isUnordered = false → s.all sh g = .ok (s.members, g)) ∧
    (∃ s', s.add vs = .ok s' ∧ s'.members = Seq.insertAll s.members vs) ∧
    (∃ s', s.remove vs = .ok s' ∧ s'.members = Seq.eraseAll s.members vs) ∧
    (∃ t g', s.union sh sets g = .ok (t, g') ∧ s.members <+: t.members) ∧
    (∃ t, s.intersection sets = .ok t ∧ t.members = FSet.interAll s.members (sets.map (·.members))) ∧
    (∃ t g', s.difference sh sets g = .ok (t, g') ∧ t.members = FSet.diffAll s.members (sets.map (·.members))) := by
  refine ⟨?_, MSet.add_seq0 h hl vs, MSet.remove_seq0 h vs, ?_, ?_, ?_⟩
  · intro hu
    obtain ⟨ms, g', h₁, _, hord⟩ := MSet.all_spec hsh s g
    obtain ⟨rfl, rfl⟩ := hord hu
    exact h₁
  · obtain ⟨t, g', h₁, _, _, _, hpre⟩ := MSet.union_spec0 hsh h sets g
    exact ⟨t, g', h₁, hpre hl⟩
  · obtain ⟨t, h₁, hw, _, hm, hsub⟩ := MSet.intersection_spec0 h sets hsets
    refine ⟨t, h₁, sublist_ext h.nodup (hsub hl) FSet.interAll_sublist (fun x => ?_)⟩
    rw [hm, FSet.mem_interAll, forall_mem_map_members sets (x ∈ ·)]
  · obtain ⟨t, g', h₁, _, _, hm⟩ := C16_difference_spec hsh h sets g
    exact ⟨t, g', h₁, hm⟩

example : exStable.impl.isSorted = false ∧ exStable.impl.isUnordered = false := ⟨rfl, rfl⟩

/-- the sorted set iterates in comparator order, for any lawful comparator: the stored sequence is
strictly ascending for `compare` in every reachable state — initially and after `Add`, `Remove`, `Union`,
`Intersection`, `Difference` with any operands — and `All()` yields exactly that sequence. -/
theorem C16_sorted_comparator_order {α σ : Type} {sh : Shuffle σ} (hsh : ShLaw sh) {s : MSet α} {compare : CompareFunc α}
    (h : WF0 s) (hi : s.impl = .sorted compare) (vs : List α) (sets : List (MSet α)) (hsets : ∀ u ∈ sets, WF0 u) (g : σ) :
    SortedBy compare s.members ∧ s.all sh g = .ok (s.members, g) ∧
    (∃ s', s.add vs = .ok s' ∧ SortedBy compare s'.members) ∧
    (∃ s', s.remove vs = .ok s' ∧ SortedBy compare s'.members) ∧
    (∃ t g', s.union sh sets g = .ok (t, g') ∧ SortedBy compare t.members) ∧
    (∃ t, s.intersection sets = .ok t ∧ SortedBy compare t.members) ∧
    (∃ t g', s.difference sh sets g = .ok (t, g') ∧ SortedBy compare t.members) := by
  refine ⟨h.sorted compare hi, ?_, ?_, ?_, ?_, ?_, ?_⟩
  · obtain ⟨ms, g', h₁, _, hord⟩ := MSet.all_spec hsh s g
    obtain ⟨rfl, rfl⟩ := hord (by rw [hi]; rfl)
    exact h₁
  · obtain ⟨s', h₁, hw, hi', _⟩ := MSet.add_spec0 h vs
    exact ⟨s', h₁, hw.sorted compare (hi'.trans hi)⟩
  · obtain ⟨s', h₁, hw, hi', _⟩ := MSet.remove_spec0 h vs
    exact ⟨s', h₁, hw.sorted compare (hi'.trans hi)⟩
  · obtain ⟨t, g', h₁, hw, hi', _⟩ := MSet.union_spec0 hsh h sets g
    exact ⟨t, g', h₁, hw.sorted compare (hi'.trans hi)⟩
  · obtain ⟨t, h₁, hw, hi', _⟩ := MSet.intersection_spec0 h sets hsets
    exact ⟨t, h₁, hw.sorted compare (hi'.trans hi)⟩
  · obtain ⟨t, g', h₁, hw, hi', _⟩ := MSet.difference_spec0 hsh h sets g
    exact ⟨t, g', h₁, hw.sorted compare (hi'.trans hi)⟩

example : SortedBy Driver.cmpDesc exDesc.members :=
  (C16_sorted_comparator_order revShuffle_law exDesc_wf rfl [] [] (by simp) ()).1

/-! ## Powerset and Partitions -/

/-- `Powerset(s)` returns (without panicking, and with recursion depth `Size()+1`) a set of set objects in
which every member is a valid subset of `s`, every subset of `s` — given as an arbitrary predicate on
the members — occurs, no two members denote the same set, and there are exactly `2^n` of them. -/
theorem C16_powerset_exact {α σ : Type} {sh : Shuffle σ} (hsh : ShLaw sh) {s : MSet α} (h : WF0 s) (g : σ) :
    ∃ PS g', s.powerset sh g = .ok (PS, g') ∧
      (∀ T ∈ PS.members, WF0 T ∧ ∀ x ∈ T.members, x ∈ s.members) ∧
      (∀ p : α → Prop, ∃ T ∈ PS.members, ∀ x, x ∈ T.members ↔ x ∈ s.members ∧ p x) ∧
      PS.members.Pairwise (fun A B => ¬ ∀ x, x ∈ A.members ↔ x ∈ B.members) ∧
      PS.members.length = 2 ^ s.members.length := by
  obtain ⟨PS, g', h₁, hspec⟩ := powerset_spec hsh (s.members.length + 1) s h g (by omega)
  exact ⟨PS, g', h₁, fun T hT => ⟨hspec.wf.mem_dom T hT, hspec.sound T hT⟩, hspec.complete, hspec.wf.nodup, hspec.card⟩

example : ∃ PS g', exAsc.powerset revShuffle () = .ok (PS, g') ∧ PS.members.length = 2 ^ 3 := by
  obtain ⟨PS, g', h, _, _, _, hc⟩ := C16_powerset_exact revShuffle_law exAsc_wf ()
  exact ⟨PS, g', h, hc⟩

/-
Full statement of `partitions_exact` (every set partition exactly once):

  theorem C16_partitions_exact … :
    ∃ Ps g', s.partitions sh g = .ok (Ps, g') ∧
      (∀ P ∈ Ps.members, IsPart s P) ∧                                            -- only partitions
      (∀ F : List (List α), IsPartition F s.members →
          ∃ P ∈ Ps.members, SameFamily (P.members.map (·.members)) F) ∧            -- every partition occurs
      Ps.members.Pairwise (fun P Q => ¬ FamEq P Q)                                 -- none twice
      (and hence `Ps.members.length = Bell (s.members.length)`)

Proved below: the first and the third conjunct, i.e. `Partitions(s)` returns (without panicking, with
recursion depth `Size()+1`) a set of pairwise different partitions of `s`.  Missing: the second conjunct
(and with it the count).  `Proofs/C16Partitions.lean` already proves the step it needs
(`partitionsLoop_spec`: for every partition `P` of the tail, the result contains `{head} ∪ P` and, for
every block `b` of `P`, `P` with the head put into `b`); what is not done is the induction that cuts the
head out of an arbitrary abstract partition.  On every run the harness checks count = Bell(n),
distinctness and partition-hood for n ≤ 6 on all four implementations/comparators.
-/
theorem C16_partitions_exact_partial {α σ : Type} {sh : Shuffle σ} (hsh : ShLaw sh) {s : MSet α} (h : WF0 s) (g : σ) :
    ∃ Ps g', s.partitions sh g = .ok (Ps, g') ∧
      (∀ P ∈ Ps.members, IsPart s P) ∧
      Ps.members.Pairwise (fun P Q => ¬ FamEq P Q) := by
  obtain ⟨Ps, g', h₁, hspec⟩ := partitions_spec hsh (s.members.length + 1) s h g (by omega)
  exact ⟨Ps, g', h₁, hspec.sound, hspec.wf.nodup⟩

example : ∃ Ps g', exUnordered.partitions revShuffle () = .ok (Ps, g') ∧ ∀ P ∈ Ps.members, IsPart exUnordered P := by
  obtain ⟨Ps, g', h, hs, _⟩ := C16_partitions_exact_partial revShuffle_law exUnordered_wf ()
  exact ⟨Ps, g', h, hs⟩
