import AlgoVerif.Common
/-! # C16 — property theorems (none yet) -/
-- y
