import AlgoVerif.Model.C16
import AlgoVerif.Spec.C16
import AlgoVerif.Proofs.C16Order
import AlgoVerif.Proofs.C16Instances
import AlgoVerif.Proofs.C16History
import AlgoVerif.Proofs.C16Store
import AlgoVerif.Proofs.C16HeapSim
import AlgoVerif.Proofs.C16Format
import AlgoVerif.Generated.C16
import AlgoVerif.Proofs.C16Gen
/-!
# C16 — property theorems (helper lemmas in `Proofs/C16*.lean`)

Vocabulary (defined in `Proofs/C16Basic.lean`, `Proofs/C16Algebra.lean`):

* `WF0 s` — the representation invariant of a set object `s : MSet α` of any of the three
  implementations: its `equal` callback decides `=` (`set`, `stable`) resp. its `compare` callback is a
  total order (`sorted`: returns a sign function `c` with `c a b = 0 ↔ a = b`, antisymmetric, `<`
  transitive), the member slice has no duplicates, and for `sorted` is strictly ascending for
  `compare`.  `MSet.new` of a lawful callback satisfies it and every operation below preserves it, so
  it holds after *every* history; each theorem is therefore one step of the refinement, for an
  arbitrary reachable state, arbitrary arguments and an arbitrary mix of implementations.
* `ShLaw sh` — all that is assumed of the shuffle behind the unordered set's `All()`: it returns a
  permutation of the indices.
* `Spec.FSet` — duplicate-free lists up to permutation (`FSet.Equiv`), with `insertAll`, `eraseAll`,
  `memAll`, `card`, `eq`, `subset`, `unionAll`, `interAll`, `diffAll`.
-/
open AlgoVerif AlgoVerif.C16 AlgoVerif.C16.Spec

/-! ## the hypotheses are met by what the correspondence runs -/

/-- the callbacks the line-protocol driver (and the Go harness: `==`; comparators returning -1/0/+1 ascending
and descending, and the non-normalised `a-b`, `7*(a-b)`, `b-a`) runs the Model with are lawful, and the driver's mirror of `math/rand`'s `Shuffle` over the
scripted source is a lawful shuffle — so every theorem below applies to every correspondence run -/
theorem C16_driver_instances_lawful :
    ImplLaw (fun _ => True) Eq (.unordered Driver.eqI) ∧ ImplLaw (fun _ => True) Eq (.stable Driver.eqI) ∧
    ImplLaw (fun _ => True) Eq (.sorted Driver.cmpAsc) ∧ ImplLaw (fun _ => True) Eq (.sorted Driver.cmpDesc) ∧
    ImplLaw (fun _ => True) Eq (.sorted Driver.cmpSub) ∧ ImplLaw (fun _ => True) Eq (.sorted Driver.cmpSub7) ∧
    ImplLaw (fun _ => True) Eq (.sorted Driver.cmpRevSub) ∧
    ShLaw Driver.shuffle :=
  ⟨eqI_law, eqI_law, cmpAsc_law, cmpDesc_law, cmpSub_law, cmpSub7_law, cmpRevSub_law, shuffle_law⟩

/-- the Model has one transcription of what `set.go`, `stable.go` and `sorted.go` repeat: its only
implementation-dependent functions are `find`, one round of `Add`, and `All`.  `bin/pre-C16` compares the
method texts of the three files on every run (`Generated/C16.lean`): the unordered and the stable set
differ exactly in `All`, the stable and the sorted set exactly in `Add`/`add`/`find` (up to the receiver
type and the name of the callback field).  Editing one copy makes this theorem fail. -/
theorem C16_shared_transcription_matches_source :
    Generated.set_unordered_stable_differ = ["All"] ∧
    Generated.set_stable_sorted_differ = ["Add", "find", "add"] := by
  decide

/-! ## all histories -/

/-- **Every finite history.**  Start from any file of freshly constructed sets of any mix of the three
implementations (lawful callbacks), run any list of operations — Add, Remove, RemoveAll, Contains, Size,
IsEmpty, All, Equal, IsSubset, IsSuperset, Clone, CloneEmpty, New, AnyMatch, AllMatch, FirstMatch, SelectMatch,
PartitionMatch, Union/Intersection/Difference with any number of operands taken from any registers (also the
receiver itself, also the same one twice), results stored into any register
— with any lawful shuffle: the Model never panics or diverges, every observation agrees with the one the
abstract finite sets of `Spec.srun` give (`TraceRel`: equal Booleans and sizes, element listings equal as
sets), and in the final state every register holds a valid set object (`WF0`, which for `sorted` includes
comparator order) denoting the abstract set (`Rel`).  The theorems below are the single steps; they also
give the stored order for `stable` and `sorted` in every such reachable state. -/
theorem C16_history_refines {α σ : Type} [DecidableEq α] {sh : Shuffle σ} (hsh : ShLaw sh)
    (impls : List (Impl α)) (himpls : ∀ impl ∈ impls, ImplLaw (fun _ => True) Eq impl)
    (ops : List (Op α)) (hops : ∀ op ∈ ops, op.Lawful) (g : σ) :
    ∃ regs' g' obs, runOps sh ops (impls.map MSet.new, g) = .ok ((regs', g'), obs) ∧
      Rel regs' (srun (ops.map Op.abs) (impls.map fun _ => FSet.empty)).1 ∧
      TraceRel obs (srun (ops.map Op.abs) (impls.map fun _ => FSet.empty)).2 := by
  obtain ⟨st', obs, h₁, h₂, h₃⟩ := runOps_refines hsh ops _ (impls.map MSet.new, g) (rel_init impls himpls) hops
  exact ⟨st'.1, st'.2, obs, h₁, h₂, h₃⟩

example : ∃ regs' g' obs,
    runOps revShuffle [.add 0 [3, 1], .add 1 [1, 2], .union 2 0 [1, 0], .equal 2 1, .all 2]
      ([Impl.unordered Driver.eqI, .sorted Driver.cmpDesc, .stable Driver.eqI].map MSet.new, ()) = .ok ((regs', g'), obs) ∧
    TraceRel obs (srun ([Op.add 0 [3, 1], .add 1 [1, 2], .union 2 0 [1, 0], .equal 2 1, .all 2].map Op.abs)
      ([Impl.unordered Driver.eqI, .sorted Driver.cmpDesc, .stable Driver.eqI].map fun _ => FSet.empty)).2 := by
  obtain ⟨r, g, o, h, _, ht⟩ := C16_history_refines revShuffle_law
    [Impl.unordered Driver.eqI, .sorted Driver.cmpDesc, .stable Driver.eqI]
    (by intro impl h; simp at h; rcases h with rfl | rfl | rfl
        · exact eqI_law
        · exact cmpDesc_law
        · exact eqI_law)
    [.add 0 [3, 1], .add 1 [1, 2], .union 2 0 [1, 0], .equal 2 1, .all 2]
    (by intro op h; simp at h; rcases h with rfl | rfl | rfl | rfl | rfl <;> trivial) ()
  exact ⟨r, g, o, h, ht⟩

/-! ## refinement of the single-set operations, for each implementation -/

/-- a freshly constructed set of any implementation with a lawful callback is a valid empty set -/
theorem C16_new_refines {α : Type} {impl : Impl α} (hl : ImplLaw (fun _ => True) Eq impl) :
    WF0 (MSet.new impl) ∧ (MSet.new impl).members = FSet.empty :=
  ⟨wf0_new hl, rfl⟩

example : WF0 (MSet.new (.sorted Driver.cmpDesc)) := (C16_new_refines (impl := .sorted Driver.cmpDesc) cmpDesc_law).1

/-- `Add(vals...)` never panics or diverges, keeps the invariant and the implementation, and the new
member list denotes the old set with the values inserted -/
theorem C16_add_refines {α : Type} [DecidableEq α] {s : MSet α} (h : WF0 s) (vs : List α) :
    ∃ s', s.add vs = .ok s' ∧ WF0 s' ∧ s'.impl = s.impl ∧
      FSet.Equiv s'.members (FSet.insertAll s.members vs) := by
  obtain ⟨s', h₁, hw, hi, hm⟩ := MSet.add_spec0 h vs
  refine ⟨s', h₁, hw, hi, equiv_of_mem_iff hw.nodup (FSet.valid_insertAll h.nodup) (fun x => ?_)⟩
  rw [hm, FSet.mem_insertAll]

example : ∃ s', exAsc.add [4, 1, 0] = .ok s' ∧ WF0 s' ∧ s'.impl = exAsc.impl ∧
    FSet.Equiv s'.members (FSet.insertAll exAsc.members [4, 1, 0]) := C16_add_refines exAsc_wf _

/-- `Remove(vals...)`: the new member list is the old one without the values — same set, and the
remaining members keep their order (all three implementations) -/
theorem C16_remove_refines {α : Type} [DecidableEq α] {s : MSet α} (h : WF0 s) (vs : List α) :
    ∃ s', s.remove vs = .ok s' ∧ WF0 s' ∧ s'.impl = s.impl ∧
      s'.members = FSet.eraseAll s.members vs := by
  obtain ⟨s', h₁, hw, hi, _⟩ := MSet.remove_spec0 h vs
  obtain ⟨s'', h₂, hm⟩ := MSet.remove_seq0 h vs
  rw [h₁] at h₂
  cases h₂
  exact ⟨s', h₁, hw, hi, hm⟩

example : ∃ s', exUnordered.remove [1, 9] = .ok s' ∧ WF0 s' ∧ s'.impl = exUnordered.impl ∧
    s'.members = FSet.eraseAll exUnordered.members [1, 9] := C16_remove_refines exUnordered_wf _

/-- `RemoveAll()` -/
theorem C16_removeAll_refines {α : Type} {s : MSet α} (h : WF0 s) :
    WF0 s.removeAll ∧ s.removeAll.impl = s.impl ∧ s.removeAll.members = FSet.empty :=
  ⟨⟨by simp [MSet.removeAll], by simp [MSet.removeAll], h.law, fun _ _ => by simp [MSet.removeAll, SortedBy]⟩,
    rfl, rfl⟩

example : WF0 exDesc.removeAll := (C16_removeAll_refines exDesc_wf).1

/-- `Contains(vals...)` answers "all values are members" -/
theorem C16_contains_refines {α : Type} [DecidableEq α] {s : MSet α} (h : WF0 s) (vs : List α) :
    s.contains vs = .ok (FSet.memAll s.members vs) := by
  obtain ⟨r, hr, hiff⟩ := MSet.contains_spec eq_equivalence h vs (fun _ _ => trivial)
  rw [hr]
  congr 1
  rw [Bool.eq_iff_iff, hiff, FSet.memAll_iff]
  simp

example : exDesc.contains [2, 6] = .ok (FSet.memAll exDesc.members [2, 6]) := C16_contains_refines exDesc_wf _

/-- `Size()`, `IsEmpty()` -/
theorem C16_size_refines {α : Type} (s : MSet α) :
    s.size = (FSet.card s.members : Int) ∧ s.isEmpty = (FSet.card s.members == 0) :=
  ⟨rfl, rfl⟩

/-- ranging over `All()` yields every member exactly once (for any lawful shuffle) -/
theorem C16_all_refines {α σ : Type} {sh : Shuffle σ} (hsh : ShLaw sh) (s : MSet α) (g : σ) :
    ∃ ms g', s.all sh g = .ok (ms, g') ∧ FSet.Equiv ms s.members := by
  obtain ⟨ms, g', h, hp, _⟩ := MSet.all_spec hsh s g
  exact ⟨ms, g', h, hp⟩

example : ∃ ms g', exUnordered.all revShuffle () = .ok (ms, g') ∧ FSet.Equiv ms exUnordered.members :=
  C16_all_refines revShuffle_law _ _

/-- `Equal` between any two implementations decides equality of the two sets -/
theorem C16_equal_refines {α : Type} [DecidableEq α] {s t : MSet α} (hs : WF0 s) (ht : WF0 t) :
    s.equal t = .ok (FSet.eq s.members t.members) := by
  obtain ⟨r, hr, hiff⟩ := MSet.equal_spec0 hs ht
  rw [hr]
  congr 1
  rw [Bool.eq_iff_iff, hiff, FSet.eq_iff]

example : exStable.equal exAsc = .ok (FSet.eq exStable.members exAsc.members) := C16_equal_refines exStable_wf exAsc_wf

/-- `IsSubset` between any two implementations -/
theorem C16_isSubset_refines {α σ : Type} [DecidableEq α] {sh : Shuffle σ} (hsh : ShLaw sh) {s t : MSet α}
    (ht : WF0 t) (g : σ) : ∃ g', s.isSubset sh t g = .ok (FSet.subset s.members t.members, g') := by
  obtain ⟨r, g', hr, hiff⟩ := MSet.isSubset_spec0 hsh (s := s) ht g
  refine ⟨g', ?_⟩
  rw [hr]
  congr 2
  rw [Bool.eq_iff_iff, hiff, FSet.subset_iff]

/-- `IsSuperset` between any two implementations -/
theorem C16_isSuperset_refines {α σ : Type} [DecidableEq α] {sh : Shuffle σ} (hsh : ShLaw sh) {s t : MSet α}
    (hs : WF0 s) (g : σ) : ∃ g', s.isSuperset sh t g = .ok (FSet.subset t.members s.members, g') := by
  obtain ⟨r, g', hr, hiff⟩ := MSet.isSuperset_spec0 hsh (t := t) hs g
  refine ⟨g', ?_⟩
  rw [hr]
  congr 2
  rw [Bool.eq_iff_iff, hiff, FSet.subset_iff]

example : ∃ g', exUnordered.isSubset revShuffle exDesc () = .ok (FSet.subset exUnordered.members exDesc.members, g') :=
  C16_isSubset_refines revShuffle_law exDesc_wf _

/-- `Clone` returns a set object with the same implementation and members; `CloneEmpty` a valid empty
one.  (In the functional Model a value cannot be changed through another one; that later writes to
either object do not reach the other in the Go code is validated on every explored run: the harness
compares every register other than the destination with its snapshot after every operation.) -/
/- (that later writes to a clone or to its source never reach the other object is
`C16_heap_history_owns` / `C16_mutators_touch_only_their_object` below, on the heap machine) -/
theorem C16_clone_refines {α : Type} {s : MSet α} (h : WF0 s) :
    s.clone = s ∧ WF0 s.cloneEmpty ∧ s.cloneEmpty.impl = s.impl ∧ s.cloneEmpty.members = FSet.empty :=
  ⟨rfl, wf0_cloneEmpty h, rfl, rfl⟩

/-- `New(callback, vals...)` (values may repeat): a valid set denoting the values -/
theorem C16_newWith_refines {α : Type} [DecidableEq α] {impl : Impl α} (hl : ImplLaw (fun _ => True) Eq impl)
    (vals : List α) :
    ∃ s, MSet.newWith impl vals = .ok s ∧ WF0 s ∧ s.impl = impl ∧
      FSet.Equiv s.members (FSet.insertAll FSet.empty vals) := by
  obtain ⟨s, h₁, hw, hi, he⟩ := C16_add_refines (wf0_new hl) vals
  exact ⟨s, h₁, hw, hi, he⟩

example : ∃ s, MSet.newWith (.sorted Driver.cmpSub7) [5, 2, 5, 5, -1] = .ok s ∧ WF0 s ∧ s.impl = .sorted Driver.cmpSub7 ∧
    FSet.Equiv s.members (FSet.insertAll FSet.empty [5, 2, 5, 5, -1]) :=
  C16_newWith_refines (impl := .sorted Driver.cmpSub7) cmpSub7_law _

/-- `AnyMatch`, `AllMatch`, `FirstMatch`: "some member satisfies `p`", "all members do", and a member
satisfying `p` — the first one in the stored order (insertion order for `stable`, comparator order for
`sorted`) — or none exactly when no member does -/
theorem C16_match_refines {α : Type} (s : MSet α) (p : α → Bool) :
    (s.anyMatch p = true ↔ ∃ x ∈ s.members, p x = true) ∧
    (s.allMatch p = true ↔ ∀ x ∈ s.members, p x = true) ∧
    (s.firstMatch p = none ↔ ∀ x ∈ s.members, p x = false) ∧
    (∀ x, s.firstMatch p = some x → ∃ before after, s.members = before ++ x :: after ∧ p x = true ∧
        ∀ y ∈ before, p y = false) := by
  refine ⟨by simp [MSet.anyMatch], by simp [MSet.allMatch], by simp [MSet.firstMatch], ?_⟩
  intro x hx
  simp only [MSet.firstMatch] at hx
  obtain ⟨hp, before, after, hs, hb⟩ := List.find?_eq_some_iff_append.1 hx
  exact ⟨before, after, hs, hp, fun y hy => by simpa using hb y hy⟩

example : exSub7.firstMatch (fun x => decide (0 ≤ x)) = some 0 := by decide

/-- `SelectMatch` / `PartitionMatch`: valid sets of the receiver's implementation holding the members that
satisfy / do not satisfy the predicate; for `set` and `stable` in the receiver's stored order -/
theorem C16_selectMatch_spec {α : Type} {s : MSet α} (h : WF0 s) (p : α → Bool) :
    ∃ t u, s.partitionMatch p = .ok (t, u) ∧ s.selectMatch p = .ok t ∧ WF0 t ∧ WF0 u ∧
      t.impl = s.impl ∧ u.impl = s.impl ∧
      FSet.Equiv t.members (s.members.filter p) ∧ FSet.Equiv u.members (s.members.filter (fun x => !p x)) ∧
      (s.impl.isSorted = false →
        t.members = s.members.filter p ∧ u.members = s.members.filter (fun x => !p x)) := by
  obtain ⟨t, u, h₁, h₂, hwt, hwu, hit, hiu, hmt, hmu, hsub⟩ := MSet.partitionMatch_spec0 h p
  have hmt' : ∀ x, x ∈ t.members ↔ x ∈ s.members.filter p := fun x => by rw [hmt x, List.mem_filter]
  have hmu' : ∀ x, x ∈ u.members ↔ x ∈ s.members.filter (fun x => !p x) := fun x => by
    rw [hmu x, List.mem_filter]; simp
  refine ⟨t, u, h₁, h₂, hwt, hwu, hit, hiu,
    equiv_of_mem_iff hwt.nodup (List.Pairwise.sublist List.filter_sublist h.nodup) hmt',
    equiv_of_mem_iff hwu.nodup (List.Pairwise.sublist List.filter_sublist h.nodup) hmu', fun hl => ⟨?_, ?_⟩⟩
  · exact sublist_ext h.nodup (hsub hl).1 List.filter_sublist hmt'
  · exact sublist_ext h.nodup (hsub hl).2 List.filter_sublist hmu'

example : ∃ t u, exStable.partitionMatch (fun x => decide (x < 5)) = .ok (t, u) ∧ t.members = [1, 4] ∧ u.members = [5] := by
  obtain ⟨t, u, h, _, _, _, _, _, _, _, ho⟩ := C16_selectMatch_spec exStable_wf (fun x => decide (x < 5))
  exact ⟨t, u, h, (ho rfl).1, (ho rfl).2⟩

/-! ## set algebra with any number and mix of operand implementations -/

/-- `s.Union(sets...)`: a valid set of the receiver's implementation denoting `s ∪ ⋃ sets` -/
theorem C16_union_spec {α σ : Type} [DecidableEq α] {sh : Shuffle σ} (hsh : ShLaw sh) {s : MSet α} (h : WF0 s)
    (sets : List (MSet α)) (hsets : ∀ u ∈ sets, WF0 u) (g : σ) :
    ∃ t g', s.union sh sets g = .ok (t, g') ∧ WF0 t ∧ t.impl = s.impl ∧
      FSet.Equiv t.members (FSet.unionAll s.members (sets.map (·.members))) := by
  obtain ⟨t, g', h₁, hw, hi, hm, _⟩ := MSet.union_spec0 hsh h sets g
  refine ⟨t, g', h₁, hw, hi, equiv_of_mem_iff hw.nodup
    (FSet.valid_unionAll h.nodup (by
      intro b hb
      obtain ⟨u, hu, rfl⟩ := List.mem_map.1 hb
      exact (hsets u hu).nodup)) (fun x => ?_)⟩
  rw [hm, FSet.mem_unionAll, exists_mem_map_members sets (x ∈ ·)]

example : ∃ t g', exStable.union revShuffle [exUnordered, exDesc, exStable] () = .ok (t, g') ∧ WF0 t ∧
    t.impl = exStable.impl ∧
    FSet.Equiv t.members (FSet.unionAll exStable.members ([exUnordered, exDesc, exStable].map (·.members))) :=
  C16_union_spec revShuffle_law exStable_wf _ (by
    intro u hu; simp at hu; rcases hu with rfl | rfl | rfl
    · exact exUnordered_wf
    · exact exDesc_wf
    · exact exStable_wf) _

/-- `s.Intersection(sets...)`: a valid set of the receiver's implementation denoting `s ∩ ⋂ sets` -/
theorem C16_intersection_spec {α : Type} [DecidableEq α] {s : MSet α} (h : WF0 s)
    (sets : List (MSet α)) (hsets : ∀ u ∈ sets, WF0 u) :
    ∃ t, s.intersection sets = .ok t ∧ WF0 t ∧ t.impl = s.impl ∧
      FSet.Equiv t.members (FSet.interAll s.members (sets.map (·.members))) := by
  obtain ⟨t, h₁, hw, hi, hm, _⟩ := MSet.intersection_spec0 h sets hsets
  refine ⟨t, h₁, hw, hi, equiv_of_mem_iff hw.nodup
    (List.Pairwise.sublist FSet.interAll_sublist h.nodup) (fun x => ?_)⟩
  rw [hm, FSet.mem_interAll, forall_mem_map_members sets (x ∈ ·)]

example : ∃ t, exAsc.intersection [exStable, exUnordered] = .ok t ∧ WF0 t ∧ t.impl = exAsc.impl ∧
    FSet.Equiv t.members (FSet.interAll exAsc.members ([exStable, exUnordered].map (·.members))) :=
  C16_intersection_spec exAsc_wf _ (by
    intro u hu; simp at hu; rcases hu with rfl | rfl
    · exact exStable_wf
    · exact exUnordered_wf)

/-- `s.Difference(sets...)`: a valid set of the receiver's implementation whose member list is the
receiver's without the members of the operands, in the receiver's order -/
theorem C16_difference_spec {α σ : Type} [DecidableEq α] {sh : Shuffle σ} (hsh : ShLaw sh) {s : MSet α} (h : WF0 s)
    (sets : List (MSet α)) (g : σ) :
    ∃ t g', s.difference sh sets g = .ok (t, g') ∧ WF0 t ∧ t.impl = s.impl ∧
      t.members = FSet.diffAll s.members (sets.map (·.members)) := by
  obtain ⟨t, g', h₁, hw, hi, hm, hsub⟩ := MSet.difference_spec0 hsh h sets g
  refine ⟨t, g', h₁, hw, hi, sublist_ext h.nodup hsub FSet.diffAll_sublist (fun x => ?_)⟩
  rw [hm, FSet.mem_diffAll, forall_mem_map_members sets (x ∉ ·)]

example : ∃ t g', exDesc.difference revShuffle [exUnordered, exDesc] () = .ok (t, g') ∧ WF0 t ∧
    t.impl = exDesc.impl ∧ t.members = FSet.diffAll exDesc.members ([exUnordered, exDesc].map (·.members)) :=
  C16_difference_spec revShuffle_law exDesc_wf _ _

/-! ## operands are not modified -/

/-- **No operand is modified** — the part of it that can be proved of a Model.  `Model/C16.lean` re-runs
Union / Intersection / Difference on set objects that carry the identity and capacity of the backing
array of their member slice (`HSet`) and records every array written (`Store`), with Go's rules for
`make`, `copy`, `append` and re-slicing (capacity growth is an arbitrary function).  For any receiver and
operands — any implementations, any aliasing between them, any store — the call returns the same set as
the functional Model, and every array it writes was allocated by the call itself (`WritesOnlyFresh`): the
only object written is the `Clone`/`CloneEmpty` made at the start, whose array is new, and a reallocating
`append` moves it to another new array.  Hence no array reachable from the receiver, an operand or any
other existing set object changes.  (That the Go code follows these rules is what the harness validates on
every run: every register other than the destination is compared with its `String()` snapshot after every
operation.) -/
theorem C16_algebra_writes_only_fresh_arrays {α σ : Type} {sh : Shuffle σ} (hsh : ShLaw sh) (grow : Nat → Nat)
    (s : HSet α) (hs : WF0 s.set) (sets : List (HSet α)) (hsets : ∀ u ∈ sets, WF0 u.set) (g : σ) (st : Store) :
    (∃ t g' st', s.union sh grow sets g st = .ok (t, g', st') ∧
        s.set.union sh (sets.map (·.set)) g = .ok (t.set, g') ∧ WritesOnlyFresh st st') ∧
    (∃ t st', s.intersection grow sets st = .ok (t, st') ∧
        s.set.intersection (sets.map (·.set)) = .ok t.set ∧ WritesOnlyFresh st st') ∧
    (∃ t g' st', s.difference sh sets g st = .ok (t, g', st') ∧
        s.set.difference sh (sets.map (·.set)) g = .ok (t.set, g') ∧ WritesOnlyFresh st st') := by
  have hsets' : ∀ u ∈ sets.map (·.set), WF0 u := by
    intro u hu
    obtain ⟨v, hv, rfl⟩ := List.mem_map.1 hu
    exact hsets v hv
  refine ⟨?_, ?_, ?_⟩
  · obtain ⟨r, g', h, _⟩ := MSet.union_spec0 hsh hs (sets.map (·.set)) g
    obtain ⟨t, st', e, ht, hf⟩ := HSet.union_fresh sh grow s sets g h st
    exact ⟨t, g', st', e, by rw [ht]; exact h, hf⟩
  · obtain ⟨r, h, _⟩ := MSet.intersection_spec0 hs (sets.map (·.set)) hsets'
    obtain ⟨t, st', e, ht, hf⟩ := HSet.intersection_fresh grow s sets h st
    exact ⟨t, st', e, by rw [ht]; exact h, hf⟩
  · obtain ⟨r, g', h, _⟩ := MSet.difference_spec0 hsh hs (sets.map (·.set)) g
    obtain ⟨t, st', e, ht, hf⟩ := HSet.difference_fresh sh s sets g h st
    exact ⟨t, g', st', e, by rw [ht]; exact h, hf⟩

/-- receiver and operand sharing one backing array (array 0, as after a hypothetical shallow copy), one
more operand: still only new arrays are written -/
example : ∃ t g' st', (HSet.mk exStable 0 3).difference revShuffle [HSet.mk exStable 0 3, HSet.mk exAsc 1 4] () ⟨2, []⟩
    = .ok (t, g', st') ∧ WritesOnlyFresh ⟨2, []⟩ st' := by
  obtain ⟨_, _, t, g', st', e, _, hf⟩ := C16_algebra_writes_only_fresh_arrays revShuffle_law (fun n => 2 * n)
    (HSet.mk exStable 0 3) exStable_wf [HSet.mk exStable 0 3, HSet.mk exAsc 1 4] (by
      intro u hu; simp at hu; rcases hu with rfl | rfl
      · exact exStable_wf
      · exact exAsc_wf) () ⟨2, []⟩
  exact ⟨t, g', st', e, hf⟩

/-! ## distinct set objects never share an array (the heap machine) -/

/-- **Ownership, for every history.**  `Model/C16.lean` (namespace `Hp`) runs the same operations on set
objects as Go has them: a slice header (`buf`, `len`; capacity = length of array `buf`) over a store of
arrays, with `make`/`copy` allocating, `append` overwriting the object's own array when the capacity
allows and moving to a new array otherwise, `Remove` shifting the tail down in place — so that two objects
sharing an array *would* disturb each other.  Start with any file of freshly constructed sets (each owns
its own empty array) and run any history — Add, Remove, RemoveAll, Clone, CloneEmpty, New, Union,
Intersection, Difference, SelectMatch, PartitionMatch with any operands, and all the reading operations —
with any lawful callbacks, any lawful shuffle and any growth rule: the heap machine never panics; in the
final state **no two registers share an array** (`Hp.Own`: hence a later mutation of a clone, of a
set-algebra result or of a source writes only that object's own array or a new one); and it is
observationally equal to the functional register machine — same observations, and every register's view of
the store is the functional machine's set value — which in turn refines the abstract finite sets
(`C16_history_refines`).  So no operation ever changes what another object holds. -/
theorem C16_heap_history_owns {α σ : Type} [DecidableEq α] {sh : Shuffle σ} (hsh : ShLaw sh) (grow : Nat → Nat)
    (impls : List (Impl α)) (himpls : ∀ impl ∈ impls, ImplLaw (fun _ => True) Eq impl)
    (ops : List (Op α)) (hops : ∀ op ∈ ops, op.Lawful) (g : σ) :
    ∃ regs' H' g' obs,
      Hp.runOps sh grow ops (Hp.initRegs 0 impls, Hp.initHeap impls, g) = .ok ((regs', H', g'), obs) ∧
      Hp.Own H' regs' ∧
      runOps sh ops (impls.map MSet.new, g) = .ok ((regs'.map (Hp.Obj.abs H'), g'), obs) ∧
      Rel (regs'.map (Hp.Obj.abs H')) (srun (ops.map Op.abs) (impls.map fun _ => FSet.empty)).1 ∧
      TraceRel obs (srun (ops.map Op.abs) (impls.map fun _ => FSet.empty)).2 := by
  obtain ⟨R', g', obs, h₁, h₂, h₃⟩ := C16_history_refines hsh impls himpls ops hops g
  have h₁' : runOps sh ops ((Hp.initRegs 0 impls).map (Hp.Obj.abs (Hp.initHeap impls)), g) = .ok ((R', g'), obs) := by
    rw [Hp.init_abs]; exact h₁
  obtain ⟨regs', H', e, hm, hown⟩ := Hp.runOps_sim sh grow ops (Hp.init_own impls) g h₁'
  subst hm
  exact ⟨regs', H', g', obs, e, hown, h₁, h₂, h₃⟩

/-- **A mutator touches only its own object.**  In any state in which no two registers share an array,
`Add(vals...)` and `Remove(vals...)` on the (valid) object in register `i` succeed on the heap machine, leave
the object in its old array or in a newly allocated one, and every other register keeps its slice header
valid, its view of the store — its members — unchanged, and an array different from the mutated object's;
`RemoveAll` gives the object a new array and changes no existing one. -/
theorem C16_mutators_touch_only_their_object {α : Type} (grow : Nat → Nat) {H : Hp.Heap α} {regs : List (Hp.Obj α)}
    (hown : Hp.Own H regs) {i : Nat} {o : Hp.Obj α} (hi : regs[i]? = some o) (hw : WF0 (o.abs H)) (vs : List α) :
    (∃ H' o', Hp.add grow H o vs = .ok (H', o') ∧ (o'.buf = o.buf ∨ H.size ≤ o'.buf) ∧
      ∀ j p, j ≠ i → regs[j]? = some p → Hp.Valid H' p ∧ p.view H' = p.view H ∧ p.buf ≠ o'.buf) ∧
    (∃ H' o', Hp.remove H o vs = .ok (H', o') ∧ (o'.buf = o.buf ∨ H.size ≤ o'.buf) ∧
      ∀ j p, j ≠ i → regs[j]? = some p → Hp.Valid H' p ∧ p.view H' = p.view H ∧ p.buf ≠ o'.buf) ∧
    (H.size ≤ (Hp.removeAll H o).2.buf ∧ Hp.Ext H (Hp.removeAll H o).1) := by
  have hvo := hown.1 o (List.mem_of_getElem? hi)
  have hne : ∀ j p, j ≠ i → regs[j]? = some p → Hp.Valid H p ∧ p.buf ≠ o.buf := by
    intro j p hji hj
    refine ⟨hown.1 p (List.mem_of_getElem? hj), ?_⟩
    exact Hp.nodup_getElem?_ne hown.2 (by rw [List.getElem?_map, hj]; rfl) (by rw [List.getElem?_map, hi]; rfl) hji
  refine ⟨?_, ?_, ?_⟩
  · obtain ⟨s', hs, _⟩ := MSet.add_spec0 hw vs
    obtain ⟨H', o', e, tr⟩ := Hp.add_trans grow vs hvo hs
    exact ⟨H', o', e, tr.buf, fun j p hji hj => tr.other (hne j p hji hj).1 (hne j p hji hj).2⟩
  · obtain ⟨s', hs, _⟩ := MSet.remove_spec0 hw vs
    obtain ⟨H', o', e, tr⟩ := Hp.remove_trans vs hvo hs
    exact ⟨H', o', e, tr.buf, fun j p hji hj => tr.other (hne j p hji hj).1 (hne j p hji hj).2⟩
  · obtain ⟨_, _, _, hb, hext⟩ := Hp.fresh_spec H o.impl [] []
    exact ⟨by simp only [Hp.removeAll]; rw [hb]; exact Nat.le_refl _, hext⟩

example : ∃ regs' H' g' obs,
    Hp.runOps revShuffle (fun n => n) [.add 0 [3, 1, 2], .clone 1 0, .remove 1 [1], .add 1 [9], .remove 0 [3], .union 2 0 [1]]
      (Hp.initRegs 0 [Impl.stable Driver.eqI, .stable Driver.eqI, .sorted Driver.cmpSub],
        Hp.initHeap [Impl.stable Driver.eqI, .stable Driver.eqI, .sorted Driver.cmpSub], ()) =
        .ok ((regs', H', g'), obs) ∧ Hp.Own H' regs' := by
  obtain ⟨r, H', g, o, h, hown, _⟩ := C16_heap_history_owns revShuffle_law (fun n => n)
    [Impl.stable Driver.eqI, .stable Driver.eqI, .sorted Driver.cmpSub]
    (by intro impl h; simp at h; rcases h with rfl | rfl
        · exact eqI_law
        · exact cmpSub_law)
    [.add 0 [3, 1, 2], .clone 1 0, .remove 1 [1], .add 1 [9], .remove 0 [3], .union 2 0 [1]]
    (by intro op h; simp at h; rcases h with rfl | rfl | rfl | rfl | rfl | rfl <;> trivial) ()
  exact ⟨r, H', g, o, h, hown⟩

/-! ## iteration order -/

/-- the stable set iterates in insertion order: `All()` yields the stored sequence (no shuffle), `Add`
appends each new value (`Seq.insertAll`), `Remove` deletes in place (`Seq.eraseAll`), `Union` is the
receiver's sequence followed, operand by operand, by the values not yet present in the order the operand's
`All()` yields them (`YieldsOf`: its stored sequence, or some permutation of it for an unordered operand),
`Intersection`/`Difference` are the receiver's sequence filtered.
(Stated for every implementation that is not `sorted`, i.e. also for the slice inside the unordered set.) -/
theorem C16_stable_insertion_order {α σ : Type} [DecidableEq α] {sh : Shuffle σ} (hsh : ShLaw sh) {s : MSet α}
    (h : WF0 s) (hl : s.impl.isSorted = false) (vs : List α) (sets : List (MSet α)) (hsets : ∀ u ∈ sets, WF0 u) (g : σ) :
    (s.impl.isUnordered = false → s.all sh g = .ok (s.members, g)) ∧
    (∃ s', s.add vs = .ok s' ∧ s'.members = Seq.insertAll s.members vs) ∧
    (∃ s', s.remove vs = .ok s' ∧ s'.members = Seq.eraseAll s.members vs) ∧
    (∃ t g' yields, s.union sh sets g = .ok (t, g') ∧ YieldsOf yields sets ∧
      t.members = FSet.unionAll s.members yields) ∧
    (∃ t, s.intersection sets = .ok t ∧ t.members = FSet.interAll s.members (sets.map (·.members))) ∧
    (∃ t g', s.difference sh sets g = .ok (t, g') ∧ t.members = FSet.diffAll s.members (sets.map (·.members))) := by
  refine ⟨?_, MSet.add_seq0 h hl vs, MSet.remove_seq0 h vs, ?_, ?_, ?_⟩
  · intro hu
    obtain ⟨ms, g', h₁, _, hord⟩ := MSet.all_spec hsh s g
    obtain ⟨rfl, rfl⟩ := hord hu
    exact h₁
  · exact MSet.union_seq0 hsh h hl sets hsets g
  · obtain ⟨t, h₁, hw, _, hm, hsub⟩ := MSet.intersection_spec0 h sets hsets
    refine ⟨t, h₁, sublist_ext h.nodup (hsub hl) FSet.interAll_sublist (fun x => ?_)⟩
    rw [hm, FSet.mem_interAll, forall_mem_map_members sets (x ∈ ·)]
  · obtain ⟨t, g', h₁, _, _, hm⟩ := C16_difference_spec hsh h sets g
    exact ⟨t, g', h₁, hm⟩

example : ∃ t g' yields, exStable.union revShuffle [exUnordered, exAsc] () = .ok (t, g') ∧
    YieldsOf yields [exUnordered, exAsc] ∧ t.members = FSet.unionAll exStable.members yields :=
  (C16_stable_insertion_order revShuffle_law exStable_wf rfl [] [exUnordered, exAsc] (by
    intro u hu; simp at hu; rcases hu with rfl | rfl
    · exact exUnordered_wf
    · exact exAsc_wf) ()).2.2.2.1

/-- the sorted set iterates in comparator order, for any lawful comparator: the stored sequence is
strictly ascending for `compare` in every reachable state — initially and after `Add`, `Remove`, `Union`,
`Intersection`, `Difference` with any operands — and `All()` yields exactly that sequence. -/
theorem C16_sorted_comparator_order {α σ : Type} {sh : Shuffle σ} (hsh : ShLaw sh) {s : MSet α} {compare : CompareFunc α}
    (h : WF0 s) (hi : s.impl = .sorted compare) (vs : List α) (sets : List (MSet α)) (hsets : ∀ u ∈ sets, WF0 u) (g : σ) :
    SortedBy compare s.members ∧ s.all sh g = .ok (s.members, g) ∧
    (∃ s', s.add vs = .ok s' ∧ SortedBy compare s'.members) ∧
    (∃ s', s.remove vs = .ok s' ∧ SortedBy compare s'.members) ∧
    (∃ t g', s.union sh sets g = .ok (t, g') ∧ SortedBy compare t.members) ∧
    (∃ t, s.intersection sets = .ok t ∧ SortedBy compare t.members) ∧
    (∃ t g', s.difference sh sets g = .ok (t, g') ∧ SortedBy compare t.members) := by
  refine ⟨h.sorted compare hi, ?_, ?_, ?_, ?_, ?_, ?_⟩
  · obtain ⟨ms, g', h₁, _, hord⟩ := MSet.all_spec hsh s g
    obtain ⟨rfl, rfl⟩ := hord (by rw [hi]; rfl)
    exact h₁
  · obtain ⟨s', h₁, hw, hi', _⟩ := MSet.add_spec0 h vs
    exact ⟨s', h₁, hw.sorted compare (hi'.trans hi)⟩
  · obtain ⟨s', h₁, hw, hi', _⟩ := MSet.remove_spec0 h vs
    exact ⟨s', h₁, hw.sorted compare (hi'.trans hi)⟩
  · obtain ⟨t, g', h₁, hw, hi', _⟩ := MSet.union_spec0 hsh h sets g
    exact ⟨t, g', h₁, hw.sorted compare (hi'.trans hi)⟩
  · obtain ⟨t, h₁, hw, hi', _⟩ := MSet.intersection_spec0 h sets hsets
    exact ⟨t, h₁, hw.sorted compare (hi'.trans hi)⟩
  · obtain ⟨t, g', h₁, hw, hi', _⟩ := MSet.difference_spec0 hsh h sets g
    exact ⟨t, g', h₁, hw.sorted compare (hi'.trans hi)⟩

example : SortedBy Driver.cmpDesc exDesc.members :=
  (C16_sorted_comparator_order revShuffle_law exDesc_wf rfl [] [] (by simp) ()).1

/-! ## Powerset and Partitions -/

/-- `Powerset(s)` returns (without panicking, and with recursion depth `Size()+1`) a set of set objects in
which every member is a valid subset of `s`, every subset of `s` — given as an arbitrary predicate on
the members — occurs, no two members denote the same set, and there are exactly `2^n` of them. -/
theorem C16_powerset_exact {α σ : Type} {sh : Shuffle σ} (hsh : ShLaw sh) {s : MSet α} (h : WF0 s) (g : σ) :
    ∃ PS g', s.powerset sh g = .ok (PS, g') ∧
      (∀ T ∈ PS.members, WF0 T ∧ ∀ x ∈ T.members, x ∈ s.members) ∧
      (∀ p : α → Prop, ∃ T ∈ PS.members, ∀ x, x ∈ T.members ↔ x ∈ s.members ∧ p x) ∧
      PS.members.Pairwise (fun A B => ¬ ∀ x, x ∈ A.members ↔ x ∈ B.members) ∧
      PS.members.length = 2 ^ s.members.length := by
  obtain ⟨PS, g', h₁, hspec⟩ := powerset_spec hsh (s.members.length + 1) s h g (by omega)
  exact ⟨PS, g', h₁, fun T hT => ⟨hspec.wf.mem_dom T hT, hspec.sound T hT⟩, hspec.complete, hspec.wf.nodup, hspec.card⟩

example : ∃ PS g', exAsc.powerset revShuffle () = .ok (PS, g') ∧ PS.members.length = 2 ^ 3 := by
  obtain ⟨PS, g', h, _, _, _, hc⟩ := C16_powerset_exact revShuffle_law exAsc_wf ()
  exact ⟨PS, g', h, hc⟩

/-- `Partitions(s)` returns (without panicking, and with recursion depth `Size()+1`) a set of partition
objects such that: every member is a partition of `s` (non-empty, duplicate-free, pairwise disjoint blocks
covering exactly the members of `s`); every partition of `s` — given as an arbitrary list of blocks —
occurs; no two members consist of the same blocks; and their number is the Bell number `bell n`
(`Spec.bell`, defined through the recurrence of the Stirling numbers of the second kind; in fact the number
of members with `k` blocks is `stirling2 n k`). -/
theorem C16_partitions_exact {α σ : Type} {sh : Shuffle σ} (hsh : ShLaw sh) {s : MSet α} (h : WF0 s) (g : σ) :
    ∃ Ps g', s.partitions sh g = .ok (Ps, g') ∧
      (∀ P ∈ Ps.members, IsPartition (P.members.map (·.members)) s.members) ∧
      (∀ F : List (List α), IsPartition F s.members →
        ∃ P ∈ Ps.members, SameFamily (P.members.map (·.members)) F) ∧
      Ps.members.Pairwise (fun P Q => ¬ SameFamily (P.members.map (·.members)) (Q.members.map (·.members))) ∧
      Ps.members.length = bell s.members.length ∧
      (∀ k, (Ps.members.filter (fun P => P.members.length == k)).length = stirling2 s.members.length k) := by
  obtain ⟨Ps, g', h₁, hspec⟩ := partitions_spec hsh (s.members.length + 1) s h g (by omega)
  refine ⟨Ps, g', h₁, fun P hP => (hspec.sound P hP).isPartition, fun F hF => ?_, ?_, ?_, ?_⟩
  · obtain ⟨P, hP, hrel⟩ := hspec.complete F hF
    exact ⟨P, hP, sameFamily_of_sameBlock (hspec.sound P hP) hF hrel⟩
  · refine List.Pairwise.imp ?_ hspec.wf.nodup
    intro P Q hne hsame
    exact hne ((famEq_iff_sameFamily P Q).2 hsame)
  · rw [length_eq_sumTo (fun P : MSet (MSet α) => P.members.length) (s.members.length + 1) Ps.members
      (fun P hP => Nat.lt_succ_of_le (hspec.blocks_le P hP))]
    exact sumTo_congr _ (fun k _ => hspec.count k)
  · intro k
    rw [← List.countP_eq_length_filter]
    exact hspec.count k

example : ∃ Ps g', exUnordered.partitions revShuffle () = .ok (Ps, g') ∧
    ∃ P ∈ Ps.members, SameFamily (P.members.map (·.members)) [[3, 4], [1]] := by
  obtain ⟨Ps, g', h, _, hc, _⟩ := C16_partitions_exact revShuffle_law exUnordered_wf ()
  refine ⟨Ps, g', h, hc _ ⟨?_, ?_, ?_⟩⟩
  · simp
  · simp
  · intro x; simp [exUnordered]; omega

example : ∃ Ps g', exUnordered.partitions revShuffle () = .ok (Ps, g') ∧ Ps.members.length = 5 := by
  obtain ⟨Ps, g', h, _, _, _, hn, _⟩ := C16_partitions_exact revShuffle_law exUnordered_wf ()
  exact ⟨Ps, g', h, hn⟩

/-! ## the `format` field (`New…WithFormat`, `String()`)

`Model/C16X.lean` adds the third field of the Go structs — `format`, an arbitrary function from the member slice
to a string, read only by `String()` — to the set objects (`FmtSet`), and to the register machine the
constructors with initial values and a format and `String()` (`stepX`, `runX`).  The property does not mention
`String()`; what it needs is that the constructors with a format build the same sets and that the format can
never influence a member slice.  That is what is proved here, together with where the format goes. -/

/-- `NewWithFormat` / `NewStableWithFormat` / `NewSortedWithFormat(callback, format, vals...)` with any format
function and any initial values (repeats too) builds the very set object `New` / `NewStable` / `NewSorted(callback,
vals...)` builds — a valid set denoting the values (`C16_newWith_refines`) — and differs from it only in the
`format` field: its `String()` is `format` applied to the member slice as stored, that of the plain
constructors' result is `format.go`'s `{a, b, c}`. -/
theorem C16_newWithFormat_refines {α : Type} [DecidableEq α] {impl : Impl α} (hl : ImplLaw (fun _ => True) Eq impl)
    (format : StringFormat α) (pv : α → String) (vals : List α) :
    ∃ s, MSet.newWith impl vals = .ok s ∧
      FmtSet.newWithFormat impl format vals = .ok ⟨s, format⟩ ∧
      FmtSet.new pv impl vals = .ok ⟨s, defaultStringFormat pv⟩ ∧
      WF0 s ∧ s.impl = impl ∧ FSet.Equiv s.members (FSet.insertAll FSet.empty vals) ∧
      (FmtSet.mk s format).string = format s.members ∧
      (FmtSet.mk s (defaultStringFormat pv)).string = s.string pv := by
  obtain ⟨s, h₁, hw, hi, he⟩ := C16_newWith_refines hl vals
  have h₂ : (MSet.new impl).add vals = .ok s := h₁
  refine ⟨s, h₁, ?_, ?_, hw, hi, he, rfl, rfl⟩
  · simp [FmtSet.newWithFormat, FmtSet.add, h₂]
  · simp [FmtSet.new, FmtSet.add, h₂]

example : ∃ s, FmtSet.newWithFormat (.sorted Driver.cmpDesc) (fun ms => toString ms.length) [5, 2, 5, 7] = .ok ⟨s, fun ms => toString ms.length⟩ ∧
    WF0 s ∧ FSet.Equiv s.members (FSet.insertAll FSet.empty [5, 2, 5, 7]) := by
  obtain ⟨s, _, h, _, hw, _, he, _⟩ := C16_newWithFormat_refines (impl := .sorted Driver.cmpDesc) cmpDesc_law
    (fun ms => toString ms.length) Driver.pvI [5, 2, 5, 7]
  exact ⟨s, h, hw, he⟩

/-- **The format of a result is the receiver's.**  `Clone` and `CloneEmpty` copy the format; `Add`, `Remove`,
`RemoveAll` keep it; `Union`, `Intersection`, `Difference` (any number of operands carrying any formats),
`SelectMatch` and `PartitionMatch` return objects with the receiver's format.  Each of these calls computes the
member slice the functional Model computes (`C16_format_is_ghost_state`), so together with the theorems above:
`String()` of a result is the receiver's format applied to the set the set-algebra theorems describe. -/
theorem C16_format_of_result_is_receivers {α σ : Type} (sh : Shuffle σ) (s : FmtSet α) (sets : List (FmtSet α))
    (vs : List α) (p : α → Bool) (g : σ) :
    s.clone.format = s.format ∧ s.cloneEmpty.format = s.format ∧ s.removeAll.format = s.format ∧
    (∀ t, s.add vs = .ok t → t.format = s.format) ∧
    (∀ t, s.remove vs = .ok t → t.format = s.format) ∧
    (∀ t g', s.union sh sets g = .ok (t, g') → t.format = s.format) ∧
    (∀ t, s.intersection sets = .ok t → t.format = s.format) ∧
    (∀ t g', s.difference sh sets g = .ok (t, g') → t.format = s.format) ∧
    (∀ t, s.selectMatch p = .ok t → t.format = s.format) ∧
    (∀ t u, s.partitionMatch p = .ok (t, u) → t.format = s.format ∧ u.format = s.format) :=
  ⟨rfl, rfl, rfl, fun _ h => FmtSet.add_format h, fun _ h => FmtSet.remove_format h,
    fun _ _ h => FmtSet.union_format h, fun _ h => FmtSet.intersection_format h,
    fun _ _ h => FmtSet.difference_format h, fun _ h => FmtSet.selectMatch_format h,
    fun _ _ h => FmtSet.partitionMatch_format h⟩

/-- a stable receiver made with a custom format, operands with two other formats: the union prints in the
receiver's -/
example : ∃ t g', (FmtSet.mk exStable (fun ms => "<" ++ toString ms.length ++ ">")).union revShuffle
      [⟨exUnordered, defaultStringFormat Driver.pvI⟩, ⟨exDesc, fun _ => "?"⟩] () = .ok (t, g') ∧
    t.string = "<" ++ toString t.set.members.length ++ ">" ∧
    FSet.Equiv t.set.members (FSet.unionAll exStable.members [exUnordered.members, exDesc.members]) := by
  obtain ⟨t, g', h, _, _, he⟩ := C16_union_spec revShuffle_law exStable_wf [exUnordered, exDesc] (by
    intro u hu; simp at hu; rcases hu with rfl | rfl
    · exact exUnordered_wf
    · exact exDesc_wf) ()
  have hx := FmtSet.union_set revShuffle (FmtSet.mk exStable (fun ms => "<" ++ toString ms.length ++ ">"))
    [⟨exUnordered, defaultStringFormat Driver.pvI⟩, ⟨exDesc, fun _ => "?"⟩] ()
  simp only [List.map_cons, List.map_nil] at hx
  rw [h] at hx
  cases hu : (FmtSet.mk exStable (fun ms => "<" ++ toString ms.length ++ ">")).union revShuffle
      [⟨exUnordered, defaultStringFormat Driver.pvI⟩, ⟨exDesc, fun _ => "?"⟩] () with
  | ok r =>
    rw [hu] at hx
    obtain ⟨t', g''⟩ := r
    simp only [map_ok, Outcome.ok.injEq, Prod.mk.injEq] at hx
    obtain ⟨rfl, _⟩ := hx
    refine ⟨t', g'', rfl, ?_, he⟩
    simp only [FmtSet.string, FmtSet.union_format hu]
  | panic => rw [hu] at hx; cases hx
  | diverge => rw [hu] at hx; cases hx

/-- **The format is ghost state.**  For any shuffle, any `%v`, any state of the register machine with formats
(any set objects carrying any format functions) and any operation, forgetting the formats and the `String()`
column of the step gives exactly the step of the functional register machine on the state with the formats
forgotten — same outcome (ok / panic / diverge), same registers, same shuffle state, same observation.  And for
every history, including the constructors with initial values and a format and `String()` calls
(`OpX.lower`: such a constructor is `New` followed by `Add(vals...)`, `String()` is no operation), the final
state with the formats forgotten is the final state of the functional machine.  Hence no format function can
influence a member slice, and every theorem of this file about histories of the functional Model is a theorem
about histories of sets with formats. -/
theorem C16_format_is_ghost_state {α σ : Type} (sh : Shuffle σ) (pv : α → String) (st : StateX α σ) :
    (∀ op : Op α, (stepX sh pv st (.base op)).map (fun r => (eraseX r.1, r.2.1)) = stepOp sh (eraseX st) op) ∧
    (∀ ops : List (OpX α), (runX sh pv ops st).map (fun r => eraseX r.1) =
      (runOps sh (ops.flatMap OpX.lower) (eraseX st)).map (·.1)) :=
  ⟨stepX_erase sh pv st, fun ops => runX_lower sh pv ops st⟩

/-- **Every finite history of sets with formats.**  Start from any file of freshly constructed sets of any mix
of the three implementations (lawful callbacks), each with any format function, and run any list of operations —
those of `C16_history_refines`, the constructors `New…(callback, vals...)` and `New…WithFormat(callback, format,
vals...)` with any format function, and `String()` — with any lawful shuffle: the machine never panics or
diverges, and in the final state every register holds a valid set object denoting the abstract set the lowered
history computes on `Spec.srun`. -/
theorem C16_history_with_formats_refines {α σ : Type} [DecidableEq α] {sh : Shuffle σ} (hsh : ShLaw sh) (pv : α → String)
    (init : List (Impl α × StringFormat α)) (hinit : ∀ p ∈ init, ImplLaw (fun _ => True) Eq p.1)
    (ops : List (OpX α)) (hops : ∀ op ∈ ops.flatMap OpX.lower, op.Lawful) (g : σ) :
    ∃ st' out, runX sh pv ops (init.map (fun p => ⟨MSet.new p.1, p.2⟩), g) = .ok (st', out) ∧
      Rel (st'.1.map (·.set)) (srun ((ops.flatMap OpX.lower).map Op.abs) (init.map fun _ => FSet.empty)).1 := by
  obtain ⟨regs', g', obs, h₁, h₂, _⟩ := C16_history_refines hsh (init.map (·.1))
    (by intro impl hi; obtain ⟨p, hp, rfl⟩ := List.mem_map.1 hi; exact hinit p hp)
    (ops.flatMap OpX.lower) hops g
  have he := runX_lower sh pv ops (init.map (fun p => (⟨MSet.new p.1, p.2⟩ : FmtSet α)), g)
  have hst : eraseX (init.map (fun p => (⟨MSet.new p.1, p.2⟩ : FmtSet α)), g) = ((init.map (·.1)).map MSet.new, g) := by
    simp [eraseX, List.map_map, Function.comp_def]
  rw [hst, h₁] at he
  simp only [List.map_map, Function.comp_def] at h₂
  cases hx : runX sh pv ops (init.map (fun p => (⟨MSet.new p.1, p.2⟩ : FmtSet α)), g) with
  | ok r =>
    rw [hx] at he
    simp only [map_ok, Outcome.ok.injEq] at he
    refine ⟨r.1, r.2, rfl, ?_⟩
    have : r.1.1.map (·.set) = regs' := by
      have := congrArg Prod.fst he
      simpa [eraseX] using this
    rw [this]
    exact h₂
  | panic => rw [hx] at he; cases he
  | diverge => rw [hx] at he; cases he

example : ∃ st' out,
    runX revShuffle Driver.pvI
      [.newWithFormat 0 (.unordered Driver.eqI) (fun ms => toString ms.length) [3, 1, 3], .base (.add 1 [1, 2]),
        .base (.union 2 0 [1, 0]), .string 2, .base (.equal 2 1)]
      ([(Impl.unordered Driver.eqI, defaultStringFormat Driver.pvI), (.sorted Driver.cmpDesc, fun _ => "x"),
        (.stable Driver.eqI, defaultStringFormat Driver.pvI)].map (fun p => ⟨MSet.new p.1, p.2⟩), ()) = .ok (st', out) := by
  obtain ⟨st', out, h, _⟩ := C16_history_with_formats_refines revShuffle_law Driver.pvI
    [(Impl.unordered Driver.eqI, defaultStringFormat Driver.pvI), (.sorted Driver.cmpDesc, fun _ => "x"),
      (.stable Driver.eqI, defaultStringFormat Driver.pvI)]
    (by intro p h; simp at h; rcases h with rfl | rfl | rfl
        · exact eqI_law
        · exact cmpDesc_law
        · exact eqI_law)
    [.newWithFormat 0 (.unordered Driver.eqI) (fun ms => toString ms.length) [3, 1, 3], .base (.add 1 [1, 2]),
      .base (.union 2 0 [1, 0]), .string 2, .base (.equal 2 1)]
    (by intro op h; simp [OpX.lower] at h; rcases h with rfl | rfl | rfl | rfl | rfl
        · exact eqI_law
        all_goals trivial) ()
  exact ⟨st', out, h⟩

/-- `Powerset(s)` / `Partitions(s)` of a set with a format, as `Model/C16X.lean` has them: the member sets
(blocks) are exactly those of the functional Model (so `C16_powerset_exact` / `C16_partitions_exact` describe
them), each carrying the format of `s`; the containers carry the default format over the members' own
`String()`.  (In the Model this is how the formats are attached — the rule follows from the Go code building
every member by `s.CloneEmpty()`, `head.Clone()`, `head.Union(…)`, cf. `C16_format_of_result_is_receivers`;
it is compared with `Powerset(s).String()` / `Partitions(s).String()` of the Go code on every run.) -/
theorem C16_format_of_powerset_members {α σ : Type} (sh : Shuffle σ) (s : FmtSet α) (g : σ) :
    (∀ PS g', s.powerset sh g = .ok (PS, g') →
      (∃ PS₀, s.set.powerset sh g = .ok (PS₀, g') ∧ PS.set.members.map (·.set) = PS₀.members) ∧
      (∀ T ∈ PS.set.members, T.format = s.format) ∧ PS.format = defaultStringFormat FmtSet.string) ∧
    (∀ Ps g', s.partitions sh g = .ok (Ps, g') →
      (∃ Ps₀, s.set.partitions sh g = .ok (Ps₀, g') ∧
        Ps.set.members.map (fun P => P.set.members.map (·.set)) = Ps₀.members.map (·.members)) ∧
      (∀ P ∈ Ps.set.members, P.format = defaultStringFormat FmtSet.string ∧ ∀ B ∈ P.set.members, B.format = s.format) ∧
      Ps.format = defaultStringFormat FmtSet.string) := by
  refine ⟨?_, ?_⟩
  · intro PS g' h
    simp only [FmtSet.powerset] at h
    cases hp : s.set.powerset sh g with
    | ok r =>
      obtain ⟨PS₀, g₀⟩ := r
      rw [hp] at h
      simp only [ok_bind, pure_eq_ok, Outcome.ok.injEq, Prod.mk.injEq] at h
      obtain ⟨rfl, rfl⟩ := h
      refine ⟨⟨PS₀, rfl, by simp [List.map_map, Function.comp_def]⟩, ?_, rfl⟩
      intro T hT
      obtain ⟨m, _, rfl⟩ := List.mem_map.1 hT
      rfl
    | panic => rw [hp] at h; cases h
    | diverge => rw [hp] at h; cases h
  · intro Ps g' h
    simp only [FmtSet.partitions] at h
    cases hp : s.set.partitions sh g with
    | ok r =>
      obtain ⟨Ps₀, g₀⟩ := r
      rw [hp] at h
      simp only [ok_bind, pure_eq_ok, Outcome.ok.injEq, Prod.mk.injEq] at h
      obtain ⟨rfl, rfl⟩ := h
      refine ⟨⟨Ps₀, rfl, by simp [List.map_map, Function.comp_def]⟩, ?_, rfl⟩
      intro P hP
      obtain ⟨Q, _, rfl⟩ := List.mem_map.1 hP
      refine ⟨rfl, ?_⟩
      intro B hB
      obtain ⟨b, _, rfl⟩ := List.mem_map.1 hB
      rfl
    | panic => rw [hp] at h; cases h
    | diverge => rw [hp] at h; cases h

example : ∃ PS g', (FmtSet.mk exAsc (fun ms => toString ms.length)).powerset revShuffle () = .ok (PS, g') ∧
    PS.set.members.length = 2 ^ 3 ∧ ∀ T ∈ PS.set.members, T.string = toString T.set.members.length := by
  obtain ⟨PS₀, g', h, _, _, _, hc⟩ := C16_powerset_exact revShuffle_law exAsc_wf ()
  have hx : (FmtSet.mk exAsc (fun ms => toString ms.length)).powerset revShuffle () =
      .ok (⟨⟨.unordered fmtSetEqFunc, PS₀.members.map fun m => ⟨m, fun ms => toString ms.length⟩⟩,
        defaultStringFormat FmtSet.string⟩, g') := by
    simp [FmtSet.powerset, h]
  refine ⟨_, g', hx, by simp only [List.length_map]; exact hc, ?_⟩
  intro T hT
  have := ((C16_format_of_powerset_members revShuffle (FmtSet.mk exAsc (fun ms => toString ms.length)) ()).1 _ _ hx).2.1 T hT
  simp only [FmtSet.string, this]

/-! ## one call per value = one variadic call; a traversal changes no set

The threshold families of the correspondence build and shrink sets both ways (`addseq`/`removeseq`: one `Add` /
`Remove` call per value, `addvar`/`removevar`: one variadic call) and use iterators in the ways a `for range`
loop does not (`all2`, `allnest`, `allpull`, `allbreak` of `Driver/C16.lean`, all compositions of `stepOp (.all i)`). -/

/-- `for _, v := range vs { s.Add(v) }` is `s.Add(vs...)` — for every implementation and every callback (lawful or
not), the panicking and the diverging outcomes included -/
theorem C16_add_one_by_one {α : Type} (s : MSet α) (vs : List α) : addEach s vs = s.add vs := by
  induction vs generalizing s with
  | nil => rfl
  | cons v vs ih =>
    simp only [addEach, MSet.add, bind, Outcome.bind]
    cases s.add1 v <;> simp [ih]

example : addEach exAsc [4, 1, 0, 4] = exAsc.add [4, 1, 0, 4] ∧
    (exAsc.add [4, 1, 0, 4]).map (·.members) = .ok [0, 1, 3, 4, 5] :=
  ⟨C16_add_one_by_one _ _, by decide⟩

/-- `for _, v := range vs { s.Remove(v) }` is `s.Remove(vs...)` -/
theorem C16_remove_one_by_one {α : Type} (s : MSet α) (vs : List α) : removeEach s vs = s.remove vs := by
  induction vs generalizing s with
  | nil => rfl
  | cons v vs ih =>
    simp only [removeEach, MSet.remove, bind, Outcome.bind]
    cases s.remove1 v <;> simp [ih]

example : removeEach exStable [4, 9, 5] = exStable.remove [4, 9, 5] ∧
    (exStable.remove [4, 9, 5]).map (·.members) = .ok [1] :=
  ⟨C16_remove_one_by_one _ _, by decide⟩

/-- `All()` — run to the end or abandoned, once or twice, nested in or interleaved with another traversal — leaves
every set object as it is: the only state it touches is the shuffle source -/
theorem C16_all_changes_no_set {α σ : Type} (sh : Shuffle σ) (regs regs' : List (MSet α)) (g g' : σ) (i : Nat)
    (obs : Obs α) (h : stepOp sh (regs, g) (.all i) = .ok ((regs', g'), obs)) : regs' = regs := by
  simp only [stepOp] at h
  split at h
  · cases h; rfl
  · simp only [bind, Outcome.bind] at h
    split at h <;> cases h
    rfl

example : (stepOp revShuffle ([exUnordered, exAsc], ()) (.all 0)).isOk = true ∧
    ∀ regs' g' obs, stepOp revShuffle ([exUnordered, exAsc], ()) (.all 0) = .ok ((regs', g'), obs) →
      regs' = [exUnordered, exAsc] :=
  ⟨by decide, fun _ _ _ h => C16_all_changes_no_set _ _ _ _ _ _ _ h⟩

/-- a sequence is a handle on its set (`Model/C16.lean`, `Seq`; defect D29, /repo 4fb90a5).  Obtaining it changes
nothing and draws nothing.  Running it in ANY later state — after any `Add`/`Remove`/`RemoveAll`, after other
traversals, for the second time — never fails, changes no register, and lists exactly the members the set object
has WHEN IT IS RUN, each once: for the stable and the sorted set in their order and without touching the shuffle
source, for the unordered set in the order of one fresh draw -/
theorem C16_seq_run_lists_members_at_run_time {α σ : Type} {sh : Shuffle σ} (hsh : ShLaw sh)
    (st₀ st : RegState α σ) (i : Nat) (s : MSet α) (hs : st.1[i]? = some s) :
    (obtainAll st₀ i).1 = st₀ ∧
    ∃ ms g', (obtainAll st₀ i).2.run sh st = .ok ((st.1, g'), .elems ms) ∧ FSet.Equiv ms s.members ∧
      (s.impl.isUnordered = false → ms = s.members ∧ g' = st.2) := by
  refine ⟨rfl, ?_⟩
  obtain ⟨ms, g', h, hp, ho⟩ := MSet.all_spec hsh s st.2
  refine ⟨ms, g', ?_, hp, ho⟩
  simp only [Seq.run, obtainAll, stepOp, hs, h, bind, Outcome.bind]
  rfl

/-- the D29 history: `seq := s.All()` on {4, 1, 3}, `s.Remove(4, 1)`, then the run — it lists [3] -/
example : ∃ st g', stepOp revShuffle ([exUnordered, exAsc], ()) (.remove 0 [4, 1]) = .ok (st, .unit) ∧
    (obtainAll ([exUnordered, exAsc], ()) 0).2.run revShuffle st = .ok ((st.1, g'), .elems [3]) := by
  exact ⟨([⟨exUnordered.impl, [3]⟩, exAsc], ()), (), rfl, rfl⟩

/-! ## the single-set methods GENERATED from `set/set.go` and `set/stable.go`

`AlgoVerif.Generated.Set.*` (file `Generated/C16Gen.lean`) is produced from `/repo/set/{set,stable}.go` by the translator
`/verif/extract/go2lean` on every run of this check (`bin/pre-C16`; scheme, subset and what is trusted: header of
`extract/go2lean/main.go`): `find`, `Contains`, `Add`, `Remove`, `RemoveAll`, `Clone`, `CloneEmpty`, `Size`, `IsEmpty`,
`AnyMatch`, `AllMatch`, `FirstMatch` (and `String`, which only applies the format callback) of both types.  `Gen.toM` /
`Gen.toM_st` read a generated object as the hand Model's; the callback is a pure function, as the translator assumes of
every function value.  `C16_generated_*_refines`: the generated method and the hand Model's compute the same outcome
for EVERY object, callback and argument list (no invariant assumed).  `C16_generated_add` … restate the C16 facts for
valid objects. -/

open AlgoVerif.Generated AlgoVerif.C16.Gen

theorem C16_generated_set_refines {α : Type} [Inhabited α] (s : Set.set α) (vals : Array α) (v : α) (p : α → Bool) :
    Set.set.find s v = (toM s).find v ∧
    Set.set.Contains s vals = (toM s).contains vals.toList ∧
    (Set.set.Add s vals).map toM = (toM s).add vals.toList ∧
    (Set.set.Remove s vals).map toM = (toM s).remove vals.toList ∧
    (Set.set.RemoveAll s).map toM = .ok (toM s).removeAll ∧
    (Set.set.Clone s).map toM = .ok (toM s).clone ∧
    (Set.set.CloneEmpty s).map toM = .ok (toM s).cloneEmpty ∧
    Set.set.Size s = (toM s).size ∧ Set.set.IsEmpty s = (toM s).isEmpty ∧
    Set.set.AnyMatch s p = .ok ((toM s).anyMatch p) ∧
    Set.set.AllMatch s p = .ok ((toM s).allMatch p) ∧
    (Set.set.FirstMatch s p).map optOf = .ok ((toM s).firstMatch p) :=
  ⟨find_eq s v, Contains_eq s vals, Add_eq s vals, Remove_eq s vals, RemoveAll_eq s, Clone_eq s, CloneEmpty_eq s,
    Size_eq s, IsEmpty_eq s, AnyMatch_eq s p, AllMatch_eq s p, FirstMatch_eq s p⟩

theorem C16_generated_stable_refines {α : Type} [Inhabited α] (s : Set.stable α) (vals : Array α) (v : α) (p : α → Bool) :
    Set.stable.find s v = (toM_st s).find v ∧
    Set.stable.Contains s vals = (toM_st s).contains vals.toList ∧
    (Set.stable.Add s vals).map toM_st = (toM_st s).add vals.toList ∧
    (Set.stable.Remove s vals).map toM_st = (toM_st s).remove vals.toList ∧
    (Set.stable.RemoveAll s).map toM_st = .ok (toM_st s).removeAll ∧
    (Set.stable.Clone s).map toM_st = .ok (toM_st s).clone ∧
    (Set.stable.CloneEmpty s).map toM_st = .ok (toM_st s).cloneEmpty ∧
    Set.stable.Size s = (toM_st s).size ∧ Set.stable.IsEmpty s = (toM_st s).isEmpty ∧
    Set.stable.AnyMatch s p = .ok ((toM_st s).anyMatch p) ∧
    Set.stable.AllMatch s p = .ok ((toM_st s).allMatch p) ∧
    (Set.stable.FirstMatch s p).map optOf = .ok ((toM_st s).firstMatch p) :=
  ⟨find_eq_st s v, Contains_eq_st s vals, Add_eq_st s vals, Remove_eq_st s vals, RemoveAll_eq_st s, Clone_eq_st s,
    CloneEmpty_eq_st s, Size_eq_st s, IsEmpty_eq_st s, AnyMatch_eq_st s p, AllMatch_eq_st s p, FirstMatch_eq_st s p⟩

/-- `Add(vals...)` of a valid `set` object, on the generated method: it returns, the result is valid and denotes the
old set with the values inserted -/
theorem C16_generated_add {α : Type} [Inhabited α] [DecidableEq α] (s : Set.set α) (h : WF0 (toM s)) (vals : Array α) :
    ∃ s', Set.set.Add s vals = .ok s' ∧ WF0 (toM s') ∧
      FSet.Equiv s'.members.toList (FSet.insertAll s.members.toList vals.toList) := by
  obtain ⟨m', h1, hw, -, he⟩ := C16_add_refines h vals.toList
  have := Add_eq s vals
  rw [h1] at this
  cases hs : Set.set.Add s vals with
  | ok s' => rw [hs] at this; cases this; exact ⟨s', rfl, hw, he⟩
  | panic => rw [hs] at this; cases this
  | diverge => rw [hs] at this; cases this

/-- `Remove(vals...)` of a valid `set` object, on the generated method: the members without the values, in order -/
theorem C16_generated_remove {α : Type} [Inhabited α] [DecidableEq α] (s : Set.set α) (h : WF0 (toM s)) (vals : Array α) :
    ∃ s', Set.set.Remove s vals = .ok s' ∧ WF0 (toM s') ∧
      s'.members.toList = FSet.eraseAll s.members.toList vals.toList := by
  obtain ⟨m', h1, hw, -, he⟩ := C16_remove_refines h vals.toList
  have := Remove_eq s vals
  rw [h1] at this
  cases hs : Set.set.Remove s vals with
  | ok s' => rw [hs] at this; cases this; exact ⟨s', rfl, hw, he⟩
  | panic => rw [hs] at this; cases this
  | diverge => rw [hs] at this; cases this

/-- `Contains(vals...)` of a valid `set` object, on the generated method -/
theorem C16_generated_contains {α : Type} [Inhabited α] [DecidableEq α] (s : Set.set α) (h : WF0 (toM s)) (vals : Array α) :
    Set.set.Contains s vals = .ok (FSet.memAll s.members.toList vals.toList) := by
  rw [Contains_eq]; exact C16_contains_refines h vals.toList

example : Set.set.Contains (⟨#[3, 1, 4], fun a b => a == b, fun _ => []⟩ : Set.set Int) #[4, 3] = .ok true ∧
    (Set.set.Remove (⟨#[3, 1, 4], fun a b => a == b, fun _ => []⟩ : Set.set Int) #[1, 9]).map (·.members) = .ok #[3, 4] ∧
    (Set.stable.Add (⟨#[3, 1], fun a b => a == b, fun _ => []⟩ : Set.stable Int) #[1, 7, 7]).map (·.members) = .ok #[3, 1, 7] := by
  decide

/-! ### round 3: `sorted.go`, and the methods that take or return other sets

The same generated file now also holds `set/sorted.go` and, for all three types, `Equal`, `SelectMatch`, `PartitionMatch`;
for `stable` and `sorted` also `IsSubset`, `IsSuperset`, `Union`, `Difference`.  Dynamic dispatch is resolved by
`extract/go2lean/devirt.go`; the one ASSUMPTION is that an argument of type `Set[T]` holds the receiver's own
implementation (two `stable` sets, two `sorted` sets, …) — the statements below are about such calls.  `stable` /
`sorted` iterate in stored order, so the generator state `g` of the hand Model is returned unchanged.  For `sorted` the
binary searches draw on the method's fuel: `x = diverge ∨ x = y` for every fuel covering the longest member list that
occurs (`total sets 0` = the number of members of all operands). -/

theorem C16_generated_set_binary_refines {α : Type} [Inhabited α] (s rhs : Set.set α) (p : α → Bool) :
    Set.set.Equal s rhs = (toM s).equal (toM rhs) ∧
    (Set.set.SelectMatch s p).map toM = (toM s).selectMatch p ∧
    (Set.set.PartitionMatch s p).map toM2 = (toM s).partitionMatch p :=
  ⟨Equal_eq s rhs, SelectMatch_eq s p, PartitionMatch_eq s p⟩

theorem C16_generated_stable_binary_refines {α σ : Type} [Inhabited α] (sh : Shuffle σ) (g : σ) (s rhs : Set.stable α)
    (sets : Array (Set.stable α)) (p : α → Bool) :
    Set.stable.Equal s rhs = (toM_st s).equal (toM_st rhs) ∧
    (Set.stable.SelectMatch s p).map toM_st = (toM_st s).selectMatch p ∧
    (Set.stable.PartitionMatch s p).map toM2_st = (toM_st s).partitionMatch p ∧
    (toM_st s).isSubset sh (toM_st rhs) g = (Set.stable.IsSubset s rhs).map (fun b => (b, g)) ∧
    (toM_st s).isSuperset sh (toM_st rhs) g = (Set.stable.IsSuperset s rhs).map (fun b => (b, g)) ∧
    (toM_st s).union sh (sets.toList.map toM_st) g = (Set.stable.Union s sets).map (fun t => (toM_st t, g)) ∧
    (toM_st s).difference sh (sets.toList.map toM_st) g = (Set.stable.Difference s sets).map (fun t => (toM_st t, g)) :=
  ⟨Equal_eq_st s rhs, SelectMatch_eq_st s p, PartitionMatch_eq_st s p, IsSubset_eq_st sh s rhs g,
    IsSuperset_eq_st sh s rhs g, Union_eq_st sh s sets g, Difference_eq_st sh s sets g⟩

/-- `sorted`: the single-set methods (those without a search are equalities) -/
theorem C16_generated_sorted_refines {α : Type} [Inhabited α] (s : Set.sorted α) (vals : Array α) (v : α) (p : α → Bool)
    (fuel : Nat) (hf : s.members.size + vals.size + 1 ≤ fuel) :
    ((toM_so s).find v = .diverge ∨ (toM_so s).find v = Set.sorted.find fuel s v) ∧
    ((toM_so s).contains vals.toList = .diverge ∨ (toM_so s).contains vals.toList = Set.sorted.Contains fuel s vals) ∧
    ((toM_so s).add vals.toList = .diverge ∨ (toM_so s).add vals.toList = (Set.sorted.Add fuel s vals).map toM_so) ∧
    ((toM_so s).remove vals.toList = .diverge ∨ (toM_so s).remove vals.toList = (Set.sorted.Remove fuel s vals).map toM_so) ∧
    (Set.sorted.RemoveAll s).map toM_so = .ok (toM_so s).removeAll ∧
    (Set.sorted.Clone s).map toM_so = .ok (toM_so s).clone ∧
    (Set.sorted.CloneEmpty s).map toM_so = .ok (toM_so s).cloneEmpty ∧
    Set.sorted.Size s = (toM_so s).size ∧ Set.sorted.IsEmpty s = (toM_so s).isEmpty ∧
    Set.sorted.AnyMatch s p = .ok ((toM_so s).anyMatch p) ∧
    Set.sorted.AllMatch s p = .ok ((toM_so s).allMatch p) ∧
    (Set.sorted.FirstMatch s p).map optOf = .ok ((toM_so s).firstMatch p) ∧
    ((toM_so s).selectMatch p = .diverge ∨ (toM_so s).selectMatch p = (Set.sorted.SelectMatch fuel s p).map toM_so) ∧
    ((toM_so s).partitionMatch p = .diverge ∨
      (toM_so s).partitionMatch p = (Set.sorted.PartitionMatch fuel s p).map toM2_so) :=
  ⟨find_le_so s v fuel (by omega), Contains_le_so s vals fuel (by omega), Add_le_so s vals fuel hf,
    Remove_le_so s vals fuel (by omega), RemoveAll_eq_so s, Clone_eq_so s, CloneEmpty_eq_so s, Size_eq_so s, IsEmpty_eq_so s,
    AnyMatch_eq_so s p, AllMatch_eq_so s p, FirstMatch_eq_so s p, SelectMatch_le_so s p fuel (by omega),
    PartitionMatch_le_so s p fuel (by omega)⟩

/-- `sorted`: the methods with other `sorted` sets as arguments -/
theorem C16_generated_sorted_binary_refines {α σ : Type} [Inhabited α] (sh : Shuffle σ) (g : σ) (s rhs : Set.sorted α)
    (sets : Array (Set.sorted α)) (fuel : Nat) (h1 : s.members.size + total sets 0 + 1 ≤ fuel)
    (h2 : rhs.members.size + 1 ≤ fuel) :
    ((toM_so s).equal (toM_so rhs) = .diverge ∨ (toM_so s).equal (toM_so rhs) = Set.sorted.Equal fuel s rhs) ∧
    ((toM_so s).isSubset sh (toM_so rhs) g = .diverge ∨
      (toM_so s).isSubset sh (toM_so rhs) g = (Set.sorted.IsSubset fuel s rhs).map (fun b => (b, g))) ∧
    ((toM_so s).isSuperset sh (toM_so rhs) g = .diverge ∨
      (toM_so s).isSuperset sh (toM_so rhs) g = (Set.sorted.IsSuperset fuel s rhs).map (fun b => (b, g))) ∧
    ((toM_so s).union sh (sets.toList.map toM_so) g = .diverge ∨
      (toM_so s).union sh (sets.toList.map toM_so) g = (Set.sorted.Union fuel s sets).map (fun t => (toM_so t, g))) ∧
    ((toM_so s).difference sh (sets.toList.map toM_so) g = .diverge ∨
      (toM_so s).difference sh (sets.toList.map toM_so) g =
        (Set.sorted.Difference fuel s sets).map (fun t => (toM_so t, g))) :=
  ⟨Equal_le_so s rhs fuel h2, IsSubset_le_so sh s rhs g fuel h2, IsSuperset_le_so sh s rhs g fuel (by omega),
    Union_le_so sh s sets g fuel h1, Difference_le_so sh s sets g fuel (by omega)⟩

/-- `Add(vals...)` of a valid `sorted` object on the generated method: it returns (the searches stay within the
fuel), the result is valid — in particular still sorted — and denotes the old set with the values inserted -/
theorem C16_generated_sorted_add {α : Type} [Inhabited α] [DecidableEq α] (s : Set.sorted α) (h : WF0 (toM_so s))
    (vals : Array α) (fuel : Nat) (hf : s.members.size + vals.size + 1 ≤ fuel) :
    ∃ s', Set.sorted.Add fuel s vals = .ok s' ∧ WF0 (toM_so s') ∧
      FSet.Equiv s'.members.toList (FSet.insertAll s.members.toList vals.toList) := by
  obtain ⟨m', h1, hw, -, he⟩ := C16_add_refines h vals.toList
  have := Outcome.le.ok (Add_le_so s vals fuel hf) h1
  cases hs : Set.sorted.Add fuel s vals with
  | ok s' => rw [hs] at this; cases this; exact ⟨s', rfl, hw, he⟩
  | panic => rw [hs] at this; cases this
  | diverge => rw [hs] at this; cases this

/-- `Equal` of two valid `stable` objects on the generated method decides equality of the denoted sets -/
theorem C16_generated_stable_equal {α : Type} [Inhabited α] [DecidableEq α] (s t : Set.stable α)
    (hs : WF0 (toM_st s)) (ht : WF0 (toM_st t)) :
    Set.stable.Equal s t = .ok (FSet.eq s.members.toList t.members.toList) := by
  rw [Equal_eq_st]; exact C16_equal_refines hs ht

/-- `Union` of valid `sorted` objects on the generated method: a valid `sorted` set denoting the union -/
theorem C16_generated_sorted_union {α : Type} [Inhabited α] [DecidableEq α] (s : Set.sorted α) (sets : Array (Set.sorted α))
    (h : WF0 (toM_so s)) (hsets : ∀ u ∈ sets.toList, WF0 (toM_so u)) (fuel : Nat)
    (hf : s.members.size + total sets 0 + 1 ≤ fuel) :
    ∃ t, Set.sorted.Union fuel s sets = .ok t ∧ WF0 (toM_so t) ∧
      FSet.Equiv t.members.toList (FSet.unionAll s.members.toList (sets.toList.map (·.members.toList))) := by
  have hsh : ShLaw (fun (n : Nat) (u : Unit) => (List.range n, u)) := by
    intro n u; exact List.Perm.refl _
  obtain ⟨m, g', h1, hw, -, he⟩ := C16_union_spec hsh h (sets.toList.map toM_so)
    (by intro u hu; obtain ⟨x, hx, rfl⟩ := List.mem_map.1 hu; exact hsets x hx) ()
  have := Outcome.le.ok (Union_le_so _ s sets () fuel hf) h1
  cases hs : Set.sorted.Union fuel s sets with
  | ok t =>
    rw [hs] at this
    simp only [Outcome.map_ok, Outcome.ok.injEq, Prod.mk.injEq] at this
    obtain ⟨rfl, -⟩ := this
    refine ⟨t, rfl, hw, ?_⟩
    have e : List.map (fun x => x.members) (List.map toM_so sets.toList) = List.map (fun x => x.members.toList) sets.toList := by
      rw [List.map_map]; rfl
    rw [e] at he
    exact he
  | panic => rw [hs] at this; cases this
  | diverge => rw [hs] at this; cases this

example : (Set.sorted.Add 9 (⟨#[1, 5], fun a b => a - b, fun _ => []⟩ : Set.sorted Int) #[3, 5, 0]).map (·.members) = .ok #[0, 1, 3, 5] ∧
    Set.stable.Equal (⟨#[2, 7], fun a b => a == b, fun _ => []⟩ : Set.stable Int) ⟨#[7, 2], fun a b => a == b, fun _ => []⟩ = .ok true ∧
    (Set.sorted.Union 9 (⟨#[1, 5], fun a b => a - b, fun _ => []⟩ : Set.sorted Int)
        #[⟨#[0, 5], fun a b => a - b, fun _ => []⟩, ⟨#[9], fun a b => a - b, fun _ => []⟩]).map (·.members) = .ok #[0, 1, 5, 9] := by
  decide
