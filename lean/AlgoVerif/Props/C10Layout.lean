import AlgoVerif.Generated.Layout

/-! # C10: the state space the Model was written for (written by bin/mklayout, checked on every run)

The hand Model mirrors the Go code's state: the fields of its structs and nothing else (no package-level
variables).  `AlgoVerif.Generated.Layout` is regenerated from /repo by the extractor on every check; the theorems
below pin, for every source file the Model mirrors, the struct types it declares, their fields (name : type) and
the package-level variables it declares.  A new field — a cache, a memoised result, a scratch buffer, a counter —
a new struct type or a new package-level variable is state the Model does not describe: the theorems of
`Props/C10.lean` then no longer speak about the code, the obligation here breaks, and the check searches for
a failing input with the enlarged budget (DESIGN.md §4.6). -/

open AlgoVerif.Generated

-- grammar/cfg.go
theorem C10_layout_types_grammar_cfg : Layout.types_grammar_cfg = ["CFG"] := rfl
theorem C10_layout_vars_grammar_cfg : Layout.vars_grammar_cfg = ["primeSuffixes", "alphabeticSuffixes", "numericSuffixes"] := rfl
theorem C10_layout_grammar_CFG : Layout.grammar_CFG =
    ["Terminals : set.Set[Terminal]", "NonTerminals : set.Set[NonTerminal]", "Productions : *Productions", "Start : NonTerminal"] := rfl

-- grammar/cfg_first.go
theorem C10_layout_types_grammar_cfg_first : Layout.types_grammar_cfg_first = ["TerminalsAndEmpty"] := rfl
theorem C10_layout_vars_grammar_cfg_first : Layout.vars_grammar_cfg_first = ["EqTerminalsAndEmpty"] := rfl
theorem C10_layout_grammar_TerminalsAndEmpty : Layout.grammar_TerminalsAndEmpty =
    ["Terminals : set.Set[Terminal]", "IncludesEmpty : bool"] := rfl

-- grammar/cfg_follow.go
theorem C10_layout_types_grammar_cfg_follow : Layout.types_grammar_cfg_follow = ["TerminalsAndEndmarker"] := rfl
theorem C10_layout_vars_grammar_cfg_follow : Layout.vars_grammar_cfg_follow = ["EqTerminalsAndEndmarker"] := rfl
theorem C10_layout_grammar_TerminalsAndEndmarker : Layout.grammar_TerminalsAndEndmarker =
    ["Terminals : set.Set[Terminal]", "IncludesEndmarker : bool"] := rfl

-- parser/predictive/parsing_table.go
theorem C10_layout_types_parser_predictive_parsing_table : Layout.types_parser_predictive_parsing_table = ["ParsingTable", "parsingTableEntry", "parsingTableError", "tableStringer"] := rfl
theorem C10_layout_vars_parser_predictive_parsing_table : Layout.vars_parser_predictive_parsing_table = ["eqParsingTableRow", "eqParsingTableEntry"] := rfl
theorem C10_layout_parser_predictive_ParsingTable : Layout.parser_predictive_ParsingTable =
    ["nonTerminals : []grammar.NonTerminal", "terminals : []grammar.Terminal", "table : symboltable.SymbolTable[grammar.NonTerminal, symboltable.SymbolTable[grammar.Terminal, *parsingTableEntry]]"] := rfl
theorem C10_layout_parser_predictive_parsingTableEntry : Layout.parser_predictive_parsingTableEntry =
    ["Productions : set.Set[*grammar.Production]", "Sync : bool"] := rfl
theorem C10_layout_parser_predictive_parsingTableError : Layout.parser_predictive_parsingTableError =
    ["NonTerminal : grammar.NonTerminal", "Terminal : grammar.Terminal", "Productions : set.Set[*grammar.Production]"] := rfl
theorem C10_layout_parser_predictive_tableStringer : Layout.parser_predictive_tableStringer =
    ["K1Title : string", "K1Values : []K1", "K2Title : string", "K2Values : []K2", "GetK1K2 : func(K1, K2) string", "b : bytes.Buffer", "cLens : []int", "tLen : int"] := rfl
