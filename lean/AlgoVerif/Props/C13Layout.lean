import AlgoVerif.Generated.Layout

/-! # C13: the state space the Model was written for (written by bin/mklayout, checked on every run)

The hand Model mirrors the Go code's state: the fields of its structs and nothing else (no package-level
variables).  `AlgoVerif.Generated.Layout` is regenerated from /repo by the extractor on every check; the theorems
below pin, for every source file the Model mirrors, the struct types it declares, their fields (name : type) and
the package-level variables it declares.  A new field — a cache, a memoised result, a scratch buffer, a counter —
a new struct type or a new package-level variable is state the Model does not describe: the theorems of
`Props/C13.lean` then no longer speak about the code, the obligation here breaks, and the check searches for
a failing input with the enlarged budget (DESIGN.md §4.6). -/

open AlgoVerif.Generated

-- automata/automata.go
theorem C13_layout_types_automata_automata : Layout.types_automata_automata = ["Transition", "stateManager"] := rfl
theorem C13_layout_vars_automata_automata : Layout.vars_automata_automata = ["EqState", "CmpState", "HashState", "EqSymbol", "CmpSymbol", "HashSymbol", "eqStateSet", "eqSymbolState", "eqSymbolStates"] := rfl
theorem C13_layout_automata_Transition : Layout.automata_Transition =
    ["(embedded) : State", "(embedded) : Symbol", "Next : T"] := rfl
theorem C13_layout_automata_stateManager : Layout.automata_stateManager =
    ["last : State", "states : map[int]map[State]State"] := rfl

-- automata/nfa.go
theorem C13_layout_types_automata_nfa : Layout.types_automata_nfa = ["NFA"] := rfl
theorem C13_layout_vars_automata_nfa : Layout.vars_automata_nfa = [] := rfl
theorem C13_layout_automata_NFA : Layout.automata_NFA =
    ["Start : State", "Final : States", "trans : symboltable.SymbolTable[State, symboltable.SymbolTable[Symbol, States]]"] := rfl

-- automata/dfa.go
theorem C13_layout_types_automata_dfa : Layout.types_automata_dfa = ["DFA"] := rfl
theorem C13_layout_vars_automata_dfa : Layout.vars_automata_dfa = [] := rfl
theorem C13_layout_automata_DFA : Layout.automata_DFA =
    ["Start : State", "Final : States", "trans : symboltable.SymbolTable[State, symboltable.SymbolTable[Symbol, State]]"] := rfl

-- automata/partition.go
theorem C13_layout_types_automata_partition : Layout.types_automata_partition = ["group", "partition"] := rfl
theorem C13_layout_vars_automata_partition : Layout.vars_automata_partition = [] := rfl
theorem C13_layout_automata_group : Layout.automata_group =
    ["(embedded) : States", "rep : State"] := rfl
theorem C13_layout_automata_partition : Layout.automata_partition =
    ["(embedded) : groups", "nextRep : State"] := rfl
