import AlgoVerif.Generated.Layout

/-! # C20: the state space the Model was written for (written by bin/mklayout, checked on every run)

The hand Model mirrors the Go code's state: the fields of its structs and nothing else (no package-level
variables).  `AlgoVerif.Generated.Layout` is regenerated from /repo by the extractor on every check; the theorems
below pin, for every source file the Model mirrors, the struct types it declares, their fields (name : type) and
the package-level variables it declares.  A new field — a cache, a memoised result, a scratch buffer, a counter —
a new struct type or a new package-level variable is state the Model does not describe: the theorems of
`Props/C20.lean` then no longer speak about the code, the obligation here breaks, and the check searches for
a failing input with the enlarged budget (DESIGN.md §4.6). -/

open AlgoVerif.Generated

-- symboltable/symbol_table.go
theorem C20_layout_types_symboltable_symbol_table : Layout.types_symboltable_symbol_table = ["globalSource"] := rfl
theorem C20_layout_vars_symboltable_symbol_table : Layout.vars_symboltable_symbol_table = ["r"] := rfl
theorem C20_layout_symboltable_globalSource : Layout.symboltable_globalSource =
    [] := rfl

-- set/set.go
theorem C20_layout_types_set_set : Layout.types_set_set = ["globalSource", "set"] := rfl
theorem C20_layout_vars_set_set : Layout.vars_set_set = ["r"] := rfl
theorem C20_layout_set_globalSource : Layout.set_globalSource =
    [] := rfl
theorem C20_layout_set_set : Layout.set_set =
    ["members : []T", "equal : generic.EqualFunc[T]", "format : StringFormat[T]"] := rfl

-- grammar/symbol.go
theorem C20_layout_types_grammar_symbol : Layout.types_grammar_symbol = [] := rfl
theorem C20_layout_vars_grammar_symbol : Layout.vars_grammar_symbol = ["EqSymbol", "CmpSymbol", "HashSymbol", "EqTerminal", "CmpTerminal", "HashTerminal", "EqNonTerminal", "CmpNonTerminal", "HashNonTerminal"] := rfl

-- grammar/string.go
theorem C20_layout_types_grammar_string : Layout.types_grammar_string = [] := rfl
theorem C20_layout_vars_grammar_string : Layout.vars_grammar_string = ["E", "CmpString", "HashString", "EqString", "eqStringSet"] := rfl

-- grammar/production.go
theorem C20_layout_types_grammar_production : Layout.types_grammar_production = ["Production", "Productions"] := rfl
theorem C20_layout_vars_grammar_production : Layout.vars_grammar_production = ["CmpProduction", "HashProduction", "EqProduction", "EqProductionSet"] := rfl
theorem C20_layout_grammar_Production : Layout.grammar_Production =
    ["Head : NonTerminal", "Body : String[Symbol]"] := rfl
theorem C20_layout_grammar_Productions : Layout.grammar_Productions =
    ["table : symboltable.SymbolTable[NonTerminal, set.Set[*Production]]"] := rfl

-- automata/automata.go
theorem C20_layout_types_automata_automata : Layout.types_automata_automata = ["Transition", "stateManager"] := rfl
theorem C20_layout_vars_automata_automata : Layout.vars_automata_automata = ["EqState", "CmpState", "HashState", "EqSymbol", "CmpSymbol", "HashSymbol", "eqStateSet", "eqSymbolState", "eqSymbolStates"] := rfl
theorem C20_layout_automata_Transition : Layout.automata_Transition =
    ["(embedded) : State", "(embedded) : Symbol", "Next : T"] := rfl
theorem C20_layout_automata_stateManager : Layout.automata_stateManager =
    ["last : State", "states : map[int]map[State]State"] := rfl

-- parser/lr/state.go
theorem C20_layout_types_parser_lr_state : Layout.types_parser_lr_state = [] := rfl
theorem C20_layout_vars_parser_lr_state : Layout.vars_parser_lr_state = ["EqState", "HashState", "CmpState"] := rfl

-- hash/hash.go
theorem C20_layout_types_hash_hash : Layout.types_hash_hash = [] := rfl
theorem C20_layout_vars_hash_hash : Layout.vars_hash_hash = [] := rfl
