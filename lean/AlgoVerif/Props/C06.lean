import AlgoVerif.Proofs.C06BinarySim
import AlgoVerif.Proofs.C06Patricia
import AlgoVerif.Proofs.C06PNul
/-!
# C06 — tries are ordered string maps with prefix and pattern queries

Only the property theorems live here; the helper lemmas are in `Proofs/C06*.lean`.

* `Spec.Map` (`Spec/C06.lean`): an association list strictly sorted by `klt`, the ordered-map queries
  and `withPrefix` / `longestPrefixOf` / `match` as plain `filter` / `find?` / `head?` / `getLast?`.
* `Binary`, `Patricia` (`Model/C06.lean`): transcriptions of `trie/binary.go` and `trie/patricia.go`
  (+ `bitstring.go`, `bitpattern.go`) after the `fix:` commits for D6, D7, D8, D9a–d.
* `Binary.run` / `Patricia.run` / `Spec.Map.run` (`Model/C06Run.lean`): a history is a list of `Op`;
  queries are operations, so "every query argument" is covered by "every history".
-/
open AlgoVerif AlgoVerif.C06

/-! ## the Spec's order is the lexicographic order on bytes, and Spec states stay strictly sorted -/

/-- `klt` (Go's `<` on strings) is core Lean's lexicographic order on `List UInt8`. -/
theorem C06_spec_order_is_lexicographic (a b : Key) : klt a b = true ↔ a < b := klt_iff_lt a b

/-- Whatever the history, the Spec's association list is strictly increasing — so `head?`, `getLast?`,
`filter` in the Spec's definitions really are minimum, maximum and the ascending sub-lists. -/
theorem C06_spec_sorted {V : Type} (ops : List (Op V)) (m : Spec.Map V) (hm : Sorted m) :
    Sorted (specFinal Spec.Map.step m ops) := by
  induction ops generalizing m with
  | nil => exact hm
  | cons op ops ih =>
    apply ih
    cases op <;> simp only [Spec.Map.step] <;> try exact hm
    · exact Spec.Map.put_sorted hm _ _
    · exact hm.filter _
    · exact List.Pairwise.sublist (List.tail_sublist m) hm
    · exact List.Pairwise.sublist (List.dropLast_sublist m) hm
    · exact Sorted.nil

/-! ## binary trie: the full statement -/

/-- **C06, binary trie.**  For every history of Put, Get, Delete, DeleteMin, DeleteMax, DeleteAll and all
queries (Size, Min, Max, Floor, Ceiling, Select, Rank, Range, RangeSize, All, WithPrefix, LongestPrefixOf,
Match) whose stored / looked-up / deleted keys are non-empty, over any value type, the binary trie never
panics and every operation returns exactly what the sorted map returns (lists in ascending order). -/
theorem C06_binary {V : Type} [Inhabited V] (ops : List (Op V)) (hk : ∀ op ∈ ops, op.keysNonempty = true) :
    Binary.run (Binary.new : Binary V) ops = (Spec.Map.run ([] : Spec.Map V) ops).map Outcome.ok :=
  Binary.run_sim BInv.new ops hk

/-- non-vacuity: a history that deletes a key which is a prefix (`a`) and one which is an extension
(`abc`) of held keys, with queries in between; the hypothesis of `C06_binary` holds for it. -/
example : ∀ op ∈ ([.put [97] 1, .put [97, 98] 2, .put [97, 98, 99] 3, .delete [97], .withPrefix [97], .delete [97, 98, 99],
    .longestPrefixOf [97, 98, 100], .match [97, 42], .rank [97, 97], .deleteMin, .all] : List (Op Int)),
    op.keysNonempty = true := by decide

example : Binary.run (Binary.new : Binary Int)
    [.put [97] 1, .put [97, 98] 2, .put [97, 98, 99] 3, .delete [97], .withPrefix [97], .delete [97, 98, 99],
     .longestPrefixOf [97, 98, 100], .match [97, 42], .rank [97, 97], .deleteMin, .all]
    = [.ok .unit, .ok .unit, .ok .unit, .ok (.val (some 1)), .ok (.list [([97, 98], 2), ([97, 98, 99], 3)]),
       .ok (.val (some 3)), .ok (.kv (some ([97, 98], 2))), .ok (.list [([97, 98], 2)]), .ok (.int 0),
       .ok (.kv (some ([97, 98], 2))), .ok (.list [])] := by decide

/-! ## Patricia trie -/

/-- `bitString.Bit`: position 0 panics (negative shift), position `i + 1` is bit `i` of the zero-padded
bit sequence. -/
theorem C06_bitstring_bit (b : BitString) :
    BitString.bit b 0 = .panic ∧ ∀ i, BitString.bit b (i + 1) = .ok (kbit b i) :=
  ⟨BitString.bit_zero b, BitString.bit_succ b⟩

/-- `bitString.DiffPos`: 0 exactly when the zero-padded bit sequences coincide (the case the Patricia
trie cannot represent), otherwise the 1-based position of the first differing bit. -/
theorem C06_bitstring_diffPos (b c : BitString) :
    (BitString.diffPos b c = 0 ↔ ∀ j, kbit b j = kbit c j) ∧
    (∀ p, BitString.diffPos b c = p + 1 → kbit b p ≠ kbit c p ∧ ∀ j, j < p → kbit b j = kbit c j) :=
  ⟨BitString.diffPos_eq_zero_iff b c, BitString.diffPos_succ b c⟩

/-- `bitString.Equal` is equality of the byte strings; `b.HasPrefix(c)` says the zero-padded `b` agrees
with `c` on the `len(c)` bits of `c`. -/
theorem C06_bitstring_equal_hasPrefix (b c : BitString) :
    (BitString.equal b c = true ↔ b = c) ∧
    (BitString.hasPrefix b c = true ↔ ∀ j, j < BitString.len c → kbit b j = kbit c j) :=
  ⟨BitString.equal_iff b c, BitString.hasPrefix_iff b c⟩

/-- `search` terminates: on every store whose links point into the store (only the root's right link is
nil, the root's bit position is 0) `search` returns a stored node, within the Model's fuel and
without dereferencing nil — the loop only follows links to strictly larger bit positions. -/
theorem C06_patricia_search_total {V : Type} (t : Patricia V) (hc : Patricia.Closed t) (key : BitString) :
    (t.root = none ∧ t.search key = .ok none) ∨ ∃ r, r < t.nodes.size ∧ t.search key = .ok (some r) :=
  Patricia.search_total hc key

example : Patricia.Closed (Patricia.new : Patricia Int) := Patricia.Closed.new

/-- **C06, Patricia trie, partial.**  For every history of Put, Get, DeleteAll and the ordered-map queries
(Size, Min, Max, Floor, Ceiling, Select, Rank, Range, RangeSize, All) in which no Put meets a different held key
with the same zero-padded bit string (`PatriciaHistory`, see `Model/C06Run.lean`), over any value type,
the Patricia trie never panics, never runs out of fuel, and every operation returns exactly what the sorted
map returns.

Full statement (not proved; the missing operations are tied to the code by the per-run correspondence and
oracle checks only):
```
theorem C06_patricia (ops : List (Op V)) (h : no Put in `ops` meets a held key equal to it up to trailing 0x00) :
    Patricia.run Patricia.new ops = (Spec.Map.run [] ops).map Outcome.ok
```
Missing: Delete / DeleteMin / DeleteMax (`remove`'s relinking of the cyclic store: the unfolding `Rep` of
`Proofs/C06PRep.lean` has to be re-established after up to four link updates and a node taking over another
node's bit position) and the three string queries WithPrefix / LongestPrefixOf / Match on the Patricia trie. -/
theorem C06_patricia_partial {V : Type} (ops : List (Op V)) (h : PatriciaHistory ([] : Spec.Map V) ops = true) :
    Patricia.run (Patricia.new : Patricia V) ops = (Spec.Map.run ([] : Spec.Map V) ops).map Outcome.ok :=
  Patricia.run_sim Patricia.PInv.new ops h

/-- The hypothesis of `C06_patricia_partial` holds in particular when no stored key ends in a 0x00 byte. -/
theorem C06_patricia_partial_no_trailing_nul {V : Type} (ops : List (Op V))
    (hs : ∀ op ∈ ops, op.patriciaScope = true)
    (hk : ∀ op ∈ ops, ∀ k v, op = .put k v → k.getLast? ≠ some 0) :
    Patricia.run (Patricia.new : Patricia V) ops = (Spec.Map.run ([] : Spec.Map V) ops).map Outcome.ok :=
  C06_patricia_partial ops (patriciaHistory_of_noTrail ops [] (by simp) hs hk)

/-- non-vacuity: a history with keys that are prefixes / extensions of each other, a key containing and one
ending in 0x00 (not clashing), an update, and queries; it satisfies `PatriciaHistory`. -/
example : PatriciaHistory ([] : Spec.Map Int)
    [.put [97, 98] 1, .put [97] 2, .put [97, 0, 98] 3, .put [98, 0] 4, .put [97] 5, .get [97], .rank [97, 97], .floor [97, 99],
     .ceiling [97, 0], .select 2, .range [97] [98], .min, .max, .all, .size] = true := by
  decide

example : Patricia.run (Patricia.new : Patricia Int)
    [.put [97, 98] 1, .put [97] 2, .put [97, 0, 98] 3, .put [98, 0] 4, .put [97] 5, .get [97], .rank [97, 97], .floor [97, 99],
     .ceiling [97, 0], .select 2, .range [97] [98], .min, .max, .all, .size]
    = [.ok .unit, .ok .unit, .ok .unit, .ok .unit, .ok .unit, .ok (.val (some 5)), .ok (.int 2), .ok (.kv (some ([97, 98], 1))),
       .ok (.kv (some ([97, 0, 98], 3))), .ok (.kv (some ([97, 98], 1))), .ok (.list [([97], 5), ([97, 0, 98], 3), ([97, 98], 1)]),
       .ok (.kv (some ([97], 5))), .ok (.kv (some ([98, 0], 4))),
       .ok (.list [([97], 5), ([97, 0, 98], 3), ([97, 98], 1), ([98, 0], 4)]), .ok (.int 4)] := by
  decide

/-- D9e (known finding, `known-findings.json`): the Patricia trie's keys are zero-padded bit strings,
so after `Put "a"`, `Put "a\x00"` finds `DiffPos = 0` and panics in `Bit(0)`; the Spec (and the binary
trie) store both keys. -/
theorem C06_patricia_trailing_nul_counterexample :
    Patricia.run (Patricia.new : Patricia Int) [.put [0x61] 1, .put [0x61, 0x00] 2] = [.ok .unit, .panic] ∧
    Spec.Map.run ([] : Spec.Map Int) [.put [0x61] 1, .put [0x61, 0x00] 2] = [.unit, .unit] := by
  decide
