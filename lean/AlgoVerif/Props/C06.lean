import AlgoVerif.Common
/-! # C06 — property theorems (none yet) -/
