import AlgoVerif.Proofs.C06BinarySim
import AlgoVerif.Proofs.C06Patricia
import AlgoVerif.Proofs.C06PDel3
import AlgoVerif.Proofs.C06XP
import AlgoVerif.Proofs.C06Fast
/-!
# C06 — tries are ordered string maps with prefix and pattern queries

Only the property theorems live here; the helper lemmas are in `Proofs/C06*.lean`.

* `Spec.Map` (`Spec/C06.lean`): an association list strictly sorted by `klt`, the ordered-map queries
  and `withPrefix` / `longestPrefixOf` / `match` as plain `filter` / `find?` / `head?` / `getLast?`.
* `Binary`, `Patricia` (`Model/C06.lean`): transcriptions of `trie/binary.go` and `trie/patricia.go`
  (+ `bitstring.go`, `bitpattern.go`) after the `fix:` commits for D6, D7, D8, D9a–e.
* `Binary.run` / `Patricia.run` / `Spec.Map.run` (`Model/C06Run.lean`): a history is a list of `Op`;
  queries are operations, so "every query argument" is covered by "every history".
-/
open AlgoVerif AlgoVerif.C06

/-! ## the Spec's order is the lexicographic order on bytes, and Spec states stay strictly sorted -/

/-- `klt` (Go's `<` on strings) is core Lean's lexicographic order on `List UInt8`. -/
theorem C06_spec_order_is_lexicographic (a b : Key) : klt a b = true ↔ a < b := klt_iff_lt a b

/-- Whatever the history, the Spec's association list is strictly increasing — so `head?`, `getLast?`,
`filter` in the Spec's definitions really are minimum, maximum and the ascending sub-lists. -/
theorem C06_spec_sorted {V : Type} (ops : List (Op V)) (m : Spec.Map V) (hm : Sorted m) :
    Sorted (specFinal Spec.Map.step m ops) := by
  induction ops generalizing m with
  | nil => exact hm
  | cons op ops ih =>
    apply ih
    cases op <;> simp only [Spec.Map.step] <;> try exact hm
    · exact Spec.Map.put_sorted hm _ _
    · exact hm.filter _
    · exact List.Pairwise.sublist (List.tail_sublist m) hm
    · exact List.Pairwise.sublist (List.dropLast_sublist m) hm
    · exact Sorted.nil

/-! ## binary trie: the full statement -/

/-- **C06, binary trie.**  For every history of Put, Get, Delete, DeleteMin, DeleteMax, DeleteAll and all
queries (Size, Min, Max, Floor, Ceiling, Select, Rank, Range, RangeSize, All, WithPrefix, LongestPrefixOf,
Match) whose stored / looked-up / deleted keys are non-empty, over any value type, the binary trie never
panics and every operation returns exactly what the sorted map returns (lists in ascending order). -/
theorem C06_binary {V : Type} [Inhabited V] (ops : List (Op V)) (hk : ∀ op ∈ ops, op.keysNonempty = true) :
    Binary.run (Binary.new : Binary V) ops = (Spec.Map.run ([] : Spec.Map V) ops).map Outcome.ok :=
  Binary.run_sim BInv.new ops hk

/-- non-vacuity: a history that deletes a key which is a prefix (`a`) and one which is an extension
(`abc`) of held keys, with queries in between; the hypothesis of `C06_binary` holds for it. -/
example : ∀ op ∈ ([.put [97] 1, .put [97, 98] 2, .put [97, 98, 99] 3, .delete [97], .withPrefix [97], .delete [97, 98, 99],
    .longestPrefixOf [97, 98, 100], .match [97, 42], .rank [97, 97], .deleteMin, .all] : List (Op Int)),
    op.keysNonempty = true := by decide

example : Binary.run (Binary.new : Binary Int)
    [.put [97] 1, .put [97, 98] 2, .put [97, 98, 99] 3, .delete [97], .withPrefix [97], .delete [97, 98, 99],
     .longestPrefixOf [97, 98, 100], .match [97, 42], .rank [97, 97], .deleteMin, .all]
    = [.ok .unit, .ok .unit, .ok .unit, .ok (.val (some 1)), .ok (.list [([97, 98], 2), ([97, 98, 99], 3)]),
       .ok (.val (some 3)), .ok (.kv (some ([97, 98], 2))), .ok (.list [([97, 98], 2)]), .ok (.int 0),
       .ok (.kv (some ([97, 98], 2))), .ok (.list [])] := by decide

/-! ## Patricia trie -/

/-- `bitString.Bit`: position 0 panics (negative shift; never asked for), position `i + 1` is bit `i` of the
sequence `xbit`: the zero-padded bits of the string below `lenPos`, one "has at least i bytes" bit per byte above. -/
theorem C06_bitstring_bit (b : BitString) :
    BitString.bit b 0 = .panic ∧ ∀ i, BitString.bit b (i + 1) = .ok (BitString.xbit b i) :=
  ⟨BitString.bit_zero b, BitString.bit_succ b⟩

/-- `bitString.DiffPos` (after the D9e fix): 0 exactly for equal strings; otherwise — for strings shorter than
`lenPos` bits — the 1-based position of the first bit of that sequence at which they differ. -/
theorem C06_bitstring_diffPos (b c : BitString) :
    (BitString.diffPos b c = 0 ↔ b = c) ∧
    (BitString.Small b → BitString.Small c → ∀ p, BitString.diffPos b c = p + 1 →
      BitString.xbit b p ≠ BitString.xbit c p ∧ ∀ j, j < p → BitString.xbit b j = BitString.xbit c j) :=
  ⟨BitString.diffPos_eq_zero_iff b c, fun hb hc => BitString.diffPos_succ b c hb hc⟩

/-- the order of first differing positions (bits before lengths) is the lexicographic order on byte strings. -/
theorem C06_bitstring_order {a b : Key} {d : Nat} (ha : BitString.Small a) (hb : BitString.Small b)
    (h0 : BitString.xbit a d = false) (h1 : BitString.xbit b d = true)
    (hj : ∀ j, j < d → BitString.xbit a j = BitString.xbit b j) : klt a b = true :=
  klt_of_xbits ha hb h0 h1 hj

/-- `bitString.Equal` is equality of the byte strings; `b.HasPrefix(c)` says the zero-padded `b` agrees
with `c` on the `len(c)` bits of `c`. -/
theorem C06_bitstring_equal_hasPrefix (b c : BitString) :
    (BitString.equal b c = true ↔ b = c) ∧
    (BitString.hasPrefix b c = true ↔ ∀ j, j < BitString.len c → kbit b j = kbit c j) :=
  ⟨BitString.equal_iff b c, BitString.hasPrefix_iff b c⟩

/-- `search` terminates: on every store whose links point into the store (only the root's right link is
nil, the root's bit position is 0) `search` returns a stored node, within the Model's fuel and
without dereferencing nil — the loop only follows links to strictly larger bit positions. -/
theorem C06_patricia_search_total {V : Type} (t : Patricia V) (hc : Patricia.Closed t) (key : BitString) :
    (t.root = none ∧ t.search key = .ok none) ∨ ∃ r, r < t.nodes.size ∧ t.search key = .ok (some r) :=
  Patricia.search_total hc key

example : Patricia.Closed (Patricia.new : Patricia Int) := Patricia.Closed.new

/-- **C06, Patricia trie: the full statement.**  For every history of all 19 operations — Put, Get, Delete, DeleteMin,
DeleteMax, DeleteAll and every query (Size, Min, Max, Floor, Ceiling, Select, Rank, Range, RangeSize, All, WithPrefix,
LongestPrefixOf, Match) — whose stored keys are non-empty and shorter than `lenPos = 2^30` bits (`PatriciaHistory`, see
`Model/C06Run.lean`; WithPrefix arguments that short too), over any value type — keys containing or ending in 0x00
included — the Patricia trie never panics, never runs out of fuel, and every operation returns exactly what the sorted
map returns; in particular deleting a key removes that key only, also when it is a prefix or an extension of held keys
(in the Patricia trie: when its node is the root, an inner node or the referrer of its own thread), and deleting an
absent key changes nothing.

Proof: the store (array of nodes with cyclic index links) unfolds from `root.left` into a crit-bit tree (`Rep`,
`Proofs/C06PRep.lean`); `_put` is insertion at the first differing bit (`Proofs/C06PPut.lean`), `remove` is the
contraction of the removed leaf's parent followed by the replacement of the removed leaf's node by the contracted
node (`Proofs/C06PDel*.lean`), traversals are folds over the in-order leaves. -/
theorem C06_patricia {V : Type} (ops : List (Op V)) (h : PatriciaHistory ops = true) :
    Patricia.run (Patricia.new : Patricia V) ops = (Spec.Map.run ([] : Spec.Map V) ops).map Outcome.ok :=
  Patricia.run_sim Patricia.PInv.new (by simp) ops h

/-- non-vacuity: keys that are prefixes / extensions of each other, keys that differ by trailing 0x00 bytes only
(D9e: `a`, `a\0`, `a\0\0`), keys differing in the last bit of a byte (`b`, `c`), an update, all kinds of queries, and
deletions of the root's key (`ab`, inserted first), of keys that are prefixes / extensions of held keys, of an absent key,
DeleteMin and DeleteMax. -/
example : PatriciaHistory
    ([.put [97, 98] 1, .put [97] 2, .put [97, 0] 3, .put [97, 0, 0] 4, .put [98, 120] 6, .put [99, 121] 7, .put [97] 5,
      .get [97, 0], .rank [97, 0, 0], .floor [97, 1], .ceiling [97, 0], .select 2, .range [97] [98], .min, .max, .all, .size,
      .withPrefix [97], .withPrefix [98], .withPrefix [99], .longestPrefixOf [97, 0, 0, 7], .match [97, 42],
      .match [42, 42, 42], .delete [97, 98], .all, .delete [97, 0], .withPrefix [97], .delete [100], .deleteMin, .all,
      .deleteMax, .all, .delete [97, 0, 0], .delete [98, 120], .size, .all] : List (Op Int)) = true := by
  decide

example : Patricia.run (Patricia.new : Patricia Int)
    [.put [97, 98] 1, .put [97] 2, .put [97, 0] 3, .put [97, 0, 0] 4, .put [98, 120] 6, .put [99, 121] 7, .put [97] 5,
      .get [97, 0], .rank [97, 0, 0], .floor [97, 1], .ceiling [97, 0], .select 2, .range [97] [98], .min, .max, .all, .size,
      .withPrefix [97], .withPrefix [98], .withPrefix [99], .longestPrefixOf [97, 0, 0, 7], .match [97, 42],
      .match [42, 42, 42], .delete [97, 98], .all, .delete [97, 0], .withPrefix [97], .delete [100], .deleteMin, .all,
      .deleteMax, .all, .delete [97, 0, 0], .delete [98, 120], .size, .all]
    = (Spec.Map.run ([] : Spec.Map Int)
    [.put [97, 98] 1, .put [97] 2, .put [97, 0] 3, .put [97, 0, 0] 4, .put [98, 120] 6, .put [99, 121] 7, .put [97] 5,
      .get [97, 0], .rank [97, 0, 0], .floor [97, 1], .ceiling [97, 0], .select 2, .range [97] [98], .min, .max, .all, .size,
      .withPrefix [97], .withPrefix [98], .withPrefix [99], .longestPrefixOf [97, 0, 0, 7], .match [97, 42],
      .match [42, 42, 42], .delete [97, 98], .all, .delete [97, 0], .withPrefix [97], .delete [100], .deleteMin, .all,
      .deleteMax, .all, .delete [97, 0, 0], .delete [98, 120], .size, .all]).map Outcome.ok := by
  decide

/-! ## the rest of `trie.Trie` (not named by the property; `Model/C06X.lean`)

`Traverse`, `AnyMatch`, `AllMatch`, `FirstMatch`, `SelectMatch`, `PartitionMatch`, `Equal`, `Height`, `IsEmpty` are
transcribed so that the correspondence run executes every branch of the `_traverse` functions the property's queries
share.  The theorems below say what these operations mean on the sorted map, for histories over two registers
(`a`: the trie all operations apply to; `b`: the result of the last `SelectMatch` / `PartitionMatch`; `swap`). -/

/-- The general `_traverse` of the binary trie (`Model/C06X.lean`) is, in the orders `Ascending` / `VLR` and
`Descending` / `RLV`, the very traversal the property's ordered queries are stated with (`Model/C06.lean`); an order
that is none of the eight constants visits nothing and reports "stopped" on a non-nil node. -/
theorem C06_binary_traverse_orders {V σ : Type} (visit : σ → Key → V → Bool → σ × Bool) (n : BNode V) (pre : Key) (s : σ) :
    BNode.trav .asc visit n pre s = BNode.travAsc visit n pre s ∧
    BNode.trav .vlr visit n pre s = BNode.travAsc visit n pre s ∧
    BNode.trav .desc visit n pre s = BNode.travDesc visit n pre s ∧
    BNode.trav .rlv visit n pre s = BNode.travDesc visit n pre s ∧
    BNode.trav .bad visit n pre s = (s, n.isNil) :=
  ⟨BNode.trav_asc .., BNode.trav_vlr .., BNode.trav_desc .., BNode.trav_rlv .., BNode.trav_bad ..⟩

/-- `Equal` as the Spec reads it (every pair of either map has a partner with the same key and an `eqVal`-related value
in the other) is equality of the sorted maps whenever `eqVal` decides equality of values. -/
theorem C06_spec_equal_is_equality {V : Type} (eqv : V → V → Bool) (heq : ∀ a b, eqv a b = true ↔ a = b)
    {m m2 : Spec.Map V} (hs : Sorted m) (hs2 : Sorted m2) : Spec.Map.equal eqv m m2 = true ↔ m = m2 :=
  Spec.Map.equal_iff eqv heq hs hs2

/-- **Binary trie, all of `trie.Trie`.**  For every history over the two registers — the 19 operations of the property
and IsEmpty, Height, Traverse (any order, any stopping visitor), AnyMatch, AllMatch, FirstMatch, SelectMatch,
PartitionMatch (any predicate), Equal (any `eqVal`), Equal against a trie of the other kind, swap — with non-empty
stored / looked-up / deleted keys, nothing panics and every result is admitted by the pair of sorted maps
(`Spec.admits`): IsEmpty / AnyMatch / AllMatch / Equal exactly; FirstMatch a held pair satisfying the predicate (none iff
there is none); SelectMatch / PartitionMatch tries whose `All()` and `Size()` are exactly the selected / rejected
sub-maps — and they are again tries of which all this holds; Traverse with an unknown order shows nothing.  (Height and
what the binary trie's Traverse shows — nodes, not keys — are not functions of the map: only "returns" is stated.) -/
theorem C06_binary_collection {V : Type} [Inhabited V] (eqv : V → V → Bool) (ops : List (XOp V))
    (hk : ∀ op ∈ ops, op.keysNonempty = true) :
    Spec.Admitted false eqv Binary.Holds (([], []) : Spec.Map V × Spec.Map V) ops
      (Binary.xrun eqv (Binary.new, Binary.new) ops) :=
  Binary.xrun_sim eqv BInv.new BInv.new ops hk

/-- the binary trie's FirstMatch is moreover exact: in every state that represents the sorted map `m` (`BInv`: right
links increasing, entries = `m`, size = length — the invariant every history of `C06_binary` / `C06_binary_collection`
maintains) it returns the first match in ascending key order -/
theorem C06_binary_firstMatch_exact {V : Type} (t : Binary V) (m : Spec.Map V) (h : BInv t m) (p : Key → V → Bool) :
    t.firstMatch p = m.find? fun e => p e.1 e.2 :=
  Binary.firstMatch_eq h p

example : BInv (Binary.new : Binary Int) [] := BInv.new

/-- Why the visitor of the binary trie's `Max` is never shown a node that does not end a key (`return true` in
`binary.go:271` is dead code; recorded in `meta/C06.json`, `unreachable_branches`): "a node without a left child ends a
key" (`BNode.Tight`) holds of the empty trie, is kept by every operation, and on a non-empty trie with this property
a descending (`RLV`) traversal whose visitor stops at the first `term` node stops at its very first call — two such
visitors that differ only on non-`term` nodes give the same result. -/
theorem C06_binary_max_sees_term_node_first {V σ : Type} [Inhabited V] :
    (Binary.new : Binary V).root.Tight ∧
    (∀ (t t' : Binary V) (op : Op V) (o : Out V), t.root.Tight → t.step op = .ok (t', o) → t'.root.Tight) ∧
    (∀ (t : Binary V) (v1 v2 : σ → Key → V → Bool → σ × Bool), t.root.Tight → t.root.isNil = false →
      (∀ s k v, v1 s k v true = v2 s k v true) → (∀ s k v, (v1 s k v true).2 = false) →
      ∀ s, t.root.travDesc v1 [] s = t.root.travDesc v2 [] s ∧ (t.root.travDesc v1 [] s).2 = false) :=
  ⟨trivial, fun _ _ op _ h hs => Binary.step_tight op h hs,
   fun t v1 v2 ht hn ha hs s => BNode.travDesc_first_term v1 v2 ha hs t.root hn ht [] s⟩

/-- non-vacuity: the trie holding `a`, `ab`, `b` is tight and non-empty -/
example : ((BNode.nil : BNode Int).put 97 [] 1 0).1.put 97 [98] 2 1 |>.1.put 98 [] 3 2 |>.1.Tight ∧
    (((BNode.nil : BNode Int).put 97 [] 1 0).1.put 97 [98] 2 1 |>.1.put 98 [] 3 2 |>.1.isNil) = false := by
  refine ⟨?_, rfl⟩
  simp [BNode.put, BNode.chain, BNode.Tight, BNode.isNil]

/-- **Patricia trie, all of `trie.Trie`.**  The same for the Patricia trie, for histories whose stored keys are non-empty
and shorter than `lenPos` bits (`XPatriciaHistory`); in addition Traverse shows keys: the ascending list cut where the
visitor stops for `Ascending`, the descending one for `Descending`, some arrangement of the held pairs cut there for the
six structural orders (they walk the nodes; every node is the target of exactly one thread), and Height, all traversals
and the `Put`s inside SelectMatch / PartitionMatch stay within the Model's fuel. -/
theorem C06_patricia_collection {V : Type} (eqv : V → V → Bool) (ops : List (XOp V)) (hk : XPatriciaHistory ops = true) :
    Spec.Admitted true eqv Patricia.Holds (([], []) : Spec.Map V × Spec.Map V) ops
      (Patricia.xrun eqv (Patricia.new, Patricia.new) ops) :=
  Patricia.xrun_sim eqv Patricia.XInv.new ops hk

/-- non-vacuity: a history using every extended operation satisfies both hypotheses, and runs to these booleans -/
example : (∀ op ∈ ([.base (.put [97] 1), .base (.put [97, 98] 2), .base (.put [98] 3), .isEmpty, .height,
      .traverse .lvr 2, .traverse .bad (-1), .anyMatch (fun _ v => v == 2), .allMatch (fun k _ => k.length == 1),
      .firstMatch (fun _ v => v > 1), .selectMatch (fun k _ => klt k [98]), .equal, .swap, .base .all,
      .partitionMatch (fun _ v => v == 1), .equal, .equalOther] : List (XOp Int)), op.keysNonempty = true) ∧
    XPatriciaHistory ([.base (.put [97] 1), .base (.put [97, 98] 2), .base (.put [98] 3), .isEmpty, .height,
      .traverse .lvr 2, .traverse .bad (-1), .anyMatch (fun _ v => v == 2), .allMatch (fun k _ => k.length == 1),
      .firstMatch (fun _ v => v > 1), .selectMatch (fun k _ => klt k [98]), .equal, .swap, .base .all,
      .partitionMatch (fun _ v => v == 1), .equal, .equalOther] : List (XOp Int)) = true := by
  decide

example : ((Patricia.xrun (fun a b : Int => a == b) (Patricia.new, Patricia.new)
      [.base (.put [97] 1), .base (.put [97, 98] 2), .base (.put [98] 3), .isEmpty,
       .anyMatch (fun _ v => v == 2), .allMatch (fun k _ => k.length == 1),
       .selectMatch (fun k _ => klt k [98]), .equal, .swap, .partitionMatch (fun _ v => v == 1), .equal]).map
      fun o => match o with
        | .ok (.bool b) => some b
        | _ => none)
    = [none, none, none, some false, some true, some false, none, some false, none, none, some false] := by
  decide

/-! ## what the driver executes is the Model

The correspondence driver answers `All` on the binary trie through `Binary.xstepFast` (linear in the number of keys,
needed for the sweeps over 65 536 and more keys; `Binary.all` appends to the list collected so far and is quadratic
when executed).  For every state and every operation it is the step function the theorems above are about. -/

theorem C06_driver_step_is_model_step {V : Type} [Inhabited V] (eqv : V → V → Bool) (s : Binary V × Binary V) (op : XOp V) :
    Binary.xstepFast eqv s op = Binary.xstep eqv s op := Binary.xstepFast_eq eqv s op

/-- the one operation on which the two differ syntactically, on a trie holding `a`, `ab`, `b` -/
example : (Binary.xstepFast (fun a b : Int => a == b)
      ({ size := 3, root := ((BNode.nil : BNode Int).put 97 [] 1 0).1.put 97 [98] 2 1 |>.1.put 98 [] 3 2 |>.1 }, Binary.new)
      (.base .all)).map (fun r => match r.2 with | .base (.list l) => l | _ => [])
    = .ok [([97], 1), ([97, 98], 2), ([98], 3)] := by decide

/-! ## the reach of the Patricia theorems in key length

`C06_patricia` and `C06_patricia_collection` are proved under an explicit hypothesis on the histories
(`PatriciaHistory` / `XPatriciaHistory`, i.e. `Op.smallKeys` for every operation): stored keys (and WithPrefix
arguments) are **shorter than `lenPos` bits**, `lenPos` being the base of `bitString`'s length positions, regenerated
from `trie/bitstring.go` on every run (`Generated.trie_lenPos`).  A smaller constant in the source would shrink the set
of histories those theorems speak about without breaking them (Model and code move together).  This theorem pins the
reach: `lenPos` is at least `2^30`, so every non-empty key of up to `2^27` bytes (128 MiB) is within the hypothesis.
Lowering `lenPos` in the source (seeded change C06-t2: `1 << 20`, wrong answers for keys sharing more than 131072
leading bytes) breaks this obligation. -/

theorem C06_patricia_key_length_reach :
    2 ^ 30 ≤ BitString.lenPos ∧
    ∀ {V : Type} (k : Key) (v : V), k ≠ [] → k.length ≤ 2 ^ 27 →
      (Op.put k v).smallKeys = true ∧ (Op.withPrefix k : Op V).smallKeys = true := by
  have h : 2 ^ 30 ≤ BitString.lenPos := by decide
  refine ⟨h, fun k v hk hl => ?_⟩
  have : 8 * k.length ≤ BitString.lenPos := by omega
  cases k with
  | nil => exact absurd rfl hk
  | cons c cs =>
    simp only [List.length_cons] at this
    simp [Op.smallKeys, this]

/-- a key of 200 000 bytes (beyond 2^17 = 131072) is within the hypothesis of `C06_patricia` -/
example : (Op.put (List.replicate 200000 (97 : UInt8)) (1 : Int)).smallKeys = true :=
  (C06_patricia_key_length_reach.2 _ _ (fun h => by
      have := congrArg List.length h
      rw [List.length_replicate, List.length_nil] at this
      omega)
    (by rw [List.length_replicate]; decide)).1
