import AlgoVerif.Model.C06Run
/-!
# C06 — property theorems (statements only live here; helper lemmas in `Proofs/C06*.lean`)
-/
open AlgoVerif AlgoVerif.C06

/-- D9e (known finding): after `Put "a"`, `Put "a\x00"` panics in the Patricia trie. -/
theorem C06_patricia_trailing_nul_counterexample :
    Patricia.run (Patricia.new : Patricia Int) [.put [0x61] 1, .put [0x61, 0x00] 2]
      = [.ok .unit, .panic] := by
  decide
