import AlgoVerif.Common
/-! # C17 — property theorems (none yet) -/
-- x
