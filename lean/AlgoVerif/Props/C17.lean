import AlgoVerif.Model.C17
import AlgoVerif.Spec.C17
import AlgoVerif.Proofs.C17QF
import AlgoVerif.Proofs.C17Gen
/-!
# C17 — union-find tracks the equivalence closure of all unions

Statements only; helper lemmas are in `Proofs/C17*.lean`.

Reading of the property (DESIGN.md §6).  A history is a list `us : List (Int × Int)` of `Union(p, q)`
calls with arbitrary Go `int` arguments; `X.run us` makes the calls one after the other on
`NewX(n)` (`X` = `QuickFind`, `QuickUnion`, `Weighted`, the line-by-line Models of
`unionfind/unionfind.go`).  Queries do not change the structure, so "after any sequence of calls"
is "for the state `u` with `(X.new n).run us = .ok u`".

* `Spec.Conn n us p q`  — `p`, `q` are in range and linked by a chain of unions of the history whose
  arguments were both in range (the reflexive-symmetric-transitive closure);
* `Spec.Tracks n us find isConnected count` — the four clauses of C17 about the query results
  (see `Spec/C17.lean`), each including that the modelled call returns (`.ok`: no index panic, and
  the `for p != root[p]` loop does not run out of its fuel `len(root)`).

Every theorem is for all `n` and all histories, valid and invalid arguments alike; there is no
`_partial` theorem in this file.
-/
open AlgoVerif AlgoVerif.C17 AlgoVerif.C17.Spec

/-! ## the main statement, once per implementation -/

/-- quick-find: every history runs to completion and the queries are those of the closure -/
theorem C17_quickFind_tracks (n : Nat) (us : List (Int × Int)) :
    ∃ u, (QuickFind.new n).run us = .ok u ∧ Tracks n us u.find u.isConnected u.getCount := by
  obtain ⟨u, h, I⟩ := QuickFind.run_inv us (QFInv.init n)
  exact ⟨u, h, QuickFind.tracks (by simpa using I)⟩

/-- quick-union -/
theorem C17_quickUnion_tracks (n : Nat) (us : List (Int × Int)) :
    ∃ u, (QuickUnion.new n).run us = .ok u ∧ Tracks n us u.find u.isConnected u.getCount := by
  obtain ⟨u, h, I⟩ := QuickUnion.run_inv (u := QuickUnion.new n) us (QUInv.init n)
  exact ⟨u, h, QuickUnion.tracks (by simpa using I)⟩

/-- weighted quick-union -/
theorem C17_weighted_tracks (n : Nat) (us : List (Int × Int)) :
    ∃ u, (Weighted.new n).run us = .ok u ∧ Tracks n us u.find u.isConnected u.getCount := by
  obtain ⟨u, h, I⟩ := Weighted.run_inv us (WQInv.init n)
  exact ⟨u, h, Weighted.tracks (by simpa using I)⟩

-- non-vacuity: a history with merges of two non-trivial trees, a redundant union, a self union and
-- invalid arguments; the three final states differ, the answers do not.
example : (QuickFind.new 6).run [(0, 1), (2, 3), (1, 3), (5, 0), (4, 4), (0, 7), (3, 0), (-1, 2)]
    = .ok ⟨2, #[3, 3, 3, 3, 4, 3]⟩ := by decide
example : (QuickUnion.new 6).run [(0, 1), (2, 3), (1, 3), (5, 0), (4, 4), (0, 7), (3, 0), (-1, 2)]
    = .ok ⟨2, #[1, 3, 3, 3, 4, 3]⟩ := by decide
example : (Weighted.new 6).run [(0, 1), (2, 3), (1, 3), (5, 0), (4, 4), (0, 7), (3, 0), (-1, 2)]
    = .ok ⟨2, #[0, 0, 0, 2, 4, 0], #[5, 1, 2, 1, 1, 1]⟩ := by decide
example : Conn 6 [(0, 1), (2, 3), (1, 3), (5, 0), (4, 4), (0, 7), (3, 0), (-1, 2)] 5 2 :=
  .trans (.pair (by decide) (by decide) (by decide))
    (.trans (.pair (p := 0) (q := 1) (by decide) (by decide) (by decide))
      (.trans (.pair (p := 1) (q := 3) (by decide) (by decide) (by decide))
        (.symm (.pair (p := 2) (q := 3) (by decide) (by decide) (by decide)))))

/-! ## the clauses of the property spelled out

`find`, `isConnected`, `count` stand for the three queries of any of the implementations. -/

/-- `IsConnected(p, q)` is true exactly when a chain of earlier unions links `p` and `q` -/
theorem C17_connected_iff_closure {n us find isConnected count}
    (T : Tracks n us find isConnected count) (p q : Int) :
    (isConnected p q = .ok true ↔ Conn n us p q) ∧ (isConnected p q = .ok false ↔ ¬ Conn n us p q) := by
  obtain ⟨b, hb, hiff⟩ := T.connected_iff p q
  rw [hb]
  cases b
  · have : ¬ Conn n us p q := fun h => by have := hiff.2 h; cases this
    simp [this]
  · have : Conn n us p q := hiff.1 rfl
    simp [this]

/-- `Find` gives two in-range elements the same representative iff they are connected, and the
representative is a member of the class -/
theorem C17_find_same_iff_connected {n us find isConnected count}
    (T : Tracks n us find isConnected count) (p q : Int) (hp : Valid n p) (hq : Valid n q) :
    ∃ rp rq, find p = .ok (rp, true) ∧ find q = .ok (rq, true) ∧ Conn n us p rp ∧ Conn n us q rq ∧
      (rp = rq ↔ Conn n us p q) := by
  obtain ⟨rp, h1, c1⟩ := T.find_valid p hp
  obtain ⟨rq, h2, c2⟩ := T.find_valid q hq
  exact ⟨rp, rq, h1, h2, c1, c2, T.find_same_iff p q rp rq true true hp hq h1 h2⟩

/-- `Count` is the number of equivalence classes, and it is `n` minus the number of unions that
joined two different classes -/
theorem C17_count_eq_classes {n us find isConnected count}
    (T : Tracks n us find isConnected count) :
    0 ≤ count ∧ IsClassCount n us count.toNat ∧ count = n - numMerges n us :=
  ⟨T.count_classes.1, T.count_classes.2, T.count_merges⟩

/-- the number of classes of a relation is determined: `IsClassCount` holds of one number only
(so the previous theorem does say "equals the number of classes") -/
theorem C17_classCount_unique {n us k k'} (h : IsClassCount n us k) (h' : IsClassCount n us k') :
    k = k' :=
  IsClassCount.unique h h'

/-- out-of-range `Find` is reported as not found -/
theorem C17_find_invalid {n us find isConnected count}
    (T : Tracks n us find isConnected count) (p : Int) (hp : ¬ (0 ≤ p ∧ p < n)) :
    find p = .ok (-1, false) :=
  T.find_invalid p hp

-- non-vacuity of the hypotheses `Tracks …`: the three `_tracks` theorems above provide them for every
-- history; on the example history: 5 and 2 are connected, 4 is alone, 2 classes.
example : ∃ u, (QuickUnion.new 6).run [(0, 1), (2, 3), (1, 3), (5, 0), (4, 4), (0, 7), (3, 0), (-1, 2)] = .ok u ∧
    u.isConnected 5 2 = .ok true ∧ u.isConnected 4 2 = .ok false ∧ u.find 5 = .ok (3, true) ∧
    u.find 6 = .ok (-1, false) ∧ u.getCount = 2 := ⟨⟨2, #[1, 3, 3, 3, 4, 3]⟩, by decide, by decide⟩
example : ¬ Conn 6 [(0, 1), (2, 3), (1, 3), (5, 0), (4, 4), (0, 7), (3, 0), (-1, 2)] 4 2 := by
  obtain ⟨u, h, T⟩ := C17_quickUnion_tracks 6 [(0, 1), (2, 3), (1, 3), (5, 0), (4, 4), (0, 7), (3, 0), (-1, 2)]
  have hu : u = ⟨2, #[1, 3, 3, 3, 4, 3]⟩ := by
    have h' : (QuickUnion.new 6).run [(0, 1), (2, 3), (1, 3), (5, 0), (4, 4), (0, 7), (3, 0), (-1, 2)]
      = .ok ⟨2, #[1, 3, 3, 3, 4, 3]⟩ := by decide
    rw [h'] at h; cases h; rfl
  subst hu
  exact ((C17_connected_iff_closure T 4 2).2).1 (by decide)

/-! ## invalid arguments change nothing — for ANY state, reachable or not -/

/-- quick-find: `Union` with an out-of-range argument returns the receiver unchanged,
`IsConnected` is false, `Find` is `(-1, false)` -/
theorem C17_quickFind_invalid_args (u : QuickFind) (p q : Int)
    (h : ¬ (0 ≤ p ∧ p < u.id.size) ∨ ¬ (0 ≤ q ∧ q < u.id.size)) :
    u.union p q = .ok u ∧ u.isConnected p q = .ok false ∧
      (¬ (0 ≤ p ∧ p < u.id.size) → u.find p = .ok (-1, false)) := by
  refine ⟨?_, ?_, fun hp => QuickFind.find_invalid (n := u.id.size) rfl hp⟩
  · simp only [QuickFind.union, QuickFind.isValid, decide_valid (n := u.id.size) rfl]
    rcases h with h | h <;> simp [Valid, h]
  · simp only [QuickFind.isConnected, QuickFind.isValid, decide_valid (n := u.id.size) rfl]
    rcases h with h | h <;> simp [Valid, h]

theorem C17_quickUnion_invalid_args (u : QuickUnion) (p q : Int)
    (h : ¬ (0 ≤ p ∧ p < u.root.size) ∨ ¬ (0 ≤ q ∧ q < u.root.size)) :
    u.union p q = .ok u ∧ u.isConnected p q = .ok false ∧
      (¬ (0 ≤ p ∧ p < u.root.size) → u.find p = .ok (-1, false)) := by
  refine ⟨?_, ?_, fun hp => QuickUnion.find_invalid (n := u.root.size) rfl hp⟩
  · simp only [QuickUnion.union, QuickUnion.isValid, decide_valid (n := u.root.size) rfl]
    rcases h with h | h <;> simp [Valid, h]
  · simp only [QuickUnion.isConnected, QuickUnion.isValid, decide_valid (n := u.root.size) rfl]
    rcases h with h | h <;> simp [Valid, h]

theorem C17_weighted_invalid_args (u : Weighted) (p q : Int)
    (h : ¬ (0 ≤ p ∧ p < u.root.size) ∨ ¬ (0 ≤ q ∧ q < u.root.size)) :
    u.union p q = .ok u ∧ u.isConnected p q = .ok false ∧
      (¬ (0 ≤ p ∧ p < u.root.size) → u.find p = .ok (-1, false)) := by
  refine ⟨?_, ?_, fun hp => Weighted.find_invalid (n := u.root.size) rfl hp⟩
  · simp only [Weighted.union, Weighted.isValid, decide_valid (n := u.root.size) rfl]
    rcases h with h | h <;> simp [Valid, h]
  · simp only [Weighted.isConnected, Weighted.isValid, decide_valid (n := u.root.size) rfl]
    rcases h with h | h <;> simp [Valid, h]

example : (⟨1, #[1, 1, 1]⟩ : QuickUnion).union 1 3 = .ok ⟨1, #[1, 1, 1]⟩ := by decide

/-- … and an invalid call leaves the closure itself unchanged -/
theorem C17_invalid_union_keeps_closure (n : Nat) (us : List (Int × Int)) (a b : Int)
    (h : ¬ ((0 ≤ a ∧ a < n) ∧ (0 ≤ b ∧ b < n))) (p q : Int) :
    Conn n (us ++ [(a, b)]) p q ↔ Conn n us p q :=
  conn_snoc_invalid h

/-! ## `Find` never diverges: the forest is acyclic, with an explicit rank -/

/-- quick-union after any history: there is a rank `rk` that strictly increases along every parent
link and satisfies `rk i + count ≤ n`; the number of roots is `count ≥ 1` (for `n > 0`); hence a climb
from any element takes at most `n - count ≤ n - 1` steps and `findLoop` with fuel `n = len(root)`
returns a root — it neither runs out of fuel (`diverge`) nor indexes out of range (`panic`). -/
theorem C17_quickUnion_find_terminates (n : Nat) (us : List (Int × Int)) (u : QuickUnion)
    (h : (QuickUnion.new n).run us = .ok u) :
    u.root.size = n ∧
    (∃ rk : Int → Nat, (∀ i, Valid n i → par u.root i ≠ i → rk i < rk (par u.root i)) ∧
      (∀ i, Valid n i → (rk i : Int) + u.count ≤ n)) ∧
    (0 < n → 1 ≤ u.count) ∧
    (∀ p, Valid n p → ∃ r, findLoop u.root n p = .ok r ∧ Valid n r ∧ par u.root r = r) := by
  obtain ⟨u', h', I⟩ := QuickUnion.run_inv (u := QuickUnion.new n) us (QUInv.init n)
  rw [h] at h'; cases h'
  have F := I.forest
  refine ⟨F.size, F.rank, ?_, ?_⟩
  · intro hn
    obtain ⟨r, hr⟩ := F.reaches 0 ⟨Int.le_refl 0, by omega⟩
    exact F.cnt_pos hr.is_root.1 hr.is_root.2
  · intro p hp
    obtain ⟨r, hr⟩ := F.reaches p hp
    exact ⟨r, F.findLoop_eq hr, hr.is_root⟩

/-- weighted quick-union: the same -/
theorem C17_weighted_find_terminates (n : Nat) (us : List (Int × Int)) (u : Weighted)
    (h : (Weighted.new n).run us = .ok u) :
    u.root.size = n ∧ u.size.size = n ∧
    (∃ rk : Int → Nat, (∀ i, Valid n i → par u.root i ≠ i → rk i < rk (par u.root i)) ∧
      (∀ i, Valid n i → (rk i : Int) + u.count ≤ n)) ∧
    (0 < n → 1 ≤ u.count) ∧
    (∀ p, Valid n p → ∃ r, findLoop u.root n p = .ok r ∧ Valid n r ∧ par u.root r = r) := by
  obtain ⟨u', h', W⟩ := Weighted.run_inv us (WQInv.init n)
  rw [h] at h'; cases h'
  have F := W.qu.forest
  refine ⟨F.size, W.sizes, F.rank, ?_, ?_⟩
  · intro hn
    obtain ⟨r, hr⟩ := F.reaches 0 ⟨Int.le_refl 0, by omega⟩
    exact F.cnt_pos hr.is_root.1 hr.is_root.2
  · intro p hp
    obtain ⟨r, hr⟩ := F.reaches p hp
    exact ⟨r, F.findLoop_eq hr, hr.is_root⟩

/-- quick-find has no loop: its forest has depth ≤ 1 (`id[id[i]] = id[i]`) -/
theorem C17_quickFind_flat (n : Nat) (us : List (Int × Int)) (u : QuickFind)
    (h : (QuickFind.new n).run us = .ok u) :
    u.id.size = n ∧ ∀ i, Valid n i → Valid n (par u.id i) ∧ par u.id (par u.id i) = par u.id i := by
  obtain ⟨u', h', I⟩ := QuickFind.run_inv us (QFInv.init n)
  rw [h] at h'; cases h'
  exact ⟨I.size, fun i hi => ⟨I.repr.valid i hi, I.repr.idem i hi⟩⟩

-- the fuel bound is met exactly: on the path 0 -> 1 -> 2 -> 3 the loop condition is evaluated n = 4
-- times from element 0; one unit less diverges.
example : (QuickUnion.new 4).run [(0, 1), (0, 2), (0, 3)] = .ok ⟨1, #[1, 2, 3, 3]⟩ := by decide
example : findLoop #[1, 2, 3, 3] 4 0 = .ok 3 ∧ findLoop #[1, 2, 3, 3] 3 0 = .diverge := by decide

/-! ## the three implementations agree -/

/-- same answers to `IsConnected` and `Count`, and `Find` induces the same partition, after the
same history — although the three internal states (and the representatives) differ -/
theorem C17_implementations_agree (n : Nat) (us : List (Int × Int)) :
    ∃ qf qu wq, (QuickFind.new n).run us = .ok qf ∧ (QuickUnion.new n).run us = .ok qu ∧
      (Weighted.new n).run us = .ok wq ∧
      (∀ p q, qf.isConnected p q = qu.isConnected p q ∧ qu.isConnected p q = wq.isConnected p q) ∧
      qf.getCount = qu.getCount ∧ qu.getCount = wq.getCount := by
  obtain ⟨qf, h1, T1⟩ := C17_quickFind_tracks n us
  obtain ⟨qu, h2, T2⟩ := C17_quickUnion_tracks n us
  obtain ⟨wq, h3, T3⟩ := C17_weighted_tracks n us
  refine ⟨qf, qu, wq, h1, h2, h3, ?_, ?_, ?_⟩
  · intro p q
    obtain ⟨b1, e1, i1⟩ := T1.connected_iff p q
    obtain ⟨b2, e2, i2⟩ := T2.connected_iff p q
    obtain ⟨b3, e3, i3⟩ := T3.connected_iff p q
    rw [e1, e2, e3]
    have h12 : b1 = b2 := by
      cases b1 <;> cases b2 <;> simp_all
    have h23 : b2 = b3 := by
      cases b2 <;> cases b3 <;> simp_all
    exact ⟨by rw [h12], by rw [h23]⟩
  · have := T1.count_merges; have := T2.count_merges; omega
  · have := T2.count_merges; have := T3.count_merges; omega

/-! ## the second tie: the Model REGENERATED from the source equals the hand Model

`AlgoVerif.Generated.UnionFind.*` (file `Generated/C17Gen.lean`) is produced from
`/repo/unionfind/unionfind.go` by the translator `/verif/extract/go2lean` on every run of this check
(`bin/pre-C17`; scheme, subset and what is trusted: header of `extract/go2lean/main.go`).  The theorems
below say that every generated definition IS the hand-written Model the theorems above are about — for all
arguments — and restate the main theorems directly about the generated definitions.  An edit of
`unionfind.go` that changes what a function computes changes the generated file and one of these stops
checking.  `qf`, `qu`, `wq` read a generated structure field by field as the Model's; the generated
`Find` / `Union` / `IsConnected` of the two quick-union types take the fuel of the
`for p != u.root[p]` loop as their first argument. -/

open AlgoVerif.Generated.UnionFind AlgoVerif.C17.Gen

/-- quick-find: `isValid`, `Find`, `IsConnected`, `Count` -/
theorem C17_generated_quickFind_queries (u : quickFind) (p q : Int) :
    quickFind.isValid u p = (qf u).isValid p ∧ quickFind.Find u p = (qf u).find p ∧
    quickFind.IsConnected u p q = (qf u).isConnected p q ∧ quickFind.Count u = (qf u).getCount :=
  ⟨quickFind_isValid u p, quickFind_Find u p, quickFind_IsConnected u p q, quickFind_Count u⟩

/-- quick-find: `Union` (the new receiver is the result) -/
theorem C17_generated_quickFind_Union (u : quickFind) (p q : Int) :
    (quickFind.Union u p q).map qf = (qf u).union p q :=
  quickFind_Union u p q

/-- quick-find: `NewQuickFind(n)`; the generated constructor also covers `n < 0` (`make` panics) -/
theorem C17_generated_quickFind_New :
    (∀ n : Nat, (NewQuickFind n).map qf = .ok (QuickFind.new n)) ∧ (∀ n : Int, n < 0 → NewQuickFind n = .panic) :=
  ⟨NewQuickFind_eq, fun _ h => NewQuickFind_neg h⟩

/-- quick-union, for EVERY fuel: the `for p != u.root[p] { p = u.root[p] }` loop is `findLoop` -/
theorem C17_generated_quickUnion_Find_loop (fuel : Nat) (u : quickUnion) (k : Nat) (p : Int) :
    quickUnion.Find.loop1 fuel u k p = findLoop u.root k p :=
  quickUnion_Find_loop fuel u k p

/-- quick-union with fuel `len(u.root)`: `isValid`, `Find`, `IsConnected`, `Count` -/
theorem C17_generated_quickUnion_queries (u : quickUnion) (p q : Int) :
    quickUnion.isValid u p = (qu u).isValid p ∧ quickUnion.Find u.root.size u p = (qu u).find p ∧
    quickUnion.IsConnected u.root.size u p q = (qu u).isConnected p q ∧ quickUnion.Count u = (qu u).getCount :=
  ⟨quickUnion_isValid u p, quickUnion_Find u p, quickUnion_IsConnected u p q, quickUnion_Count u⟩

theorem C17_generated_quickUnion_Union (u : quickUnion) (p q : Int) :
    (quickUnion.Union u.root.size u p q).map qu = (qu u).union p q :=
  quickUnion_Union u p q

theorem C17_generated_quickUnion_New :
    (∀ n : Nat, (NewQuickUnion n).map qu = .ok (QuickUnion.new n)) ∧ (∀ n : Int, n < 0 → NewQuickUnion n = .panic) :=
  ⟨NewQuickUnion_eq, fun _ h => NewQuickUnion_neg h⟩

/-- weighted quick-union, for every fuel -/
theorem C17_generated_weighted_Find_loop (fuel : Nat) (u : weightedQuickUnion) (k : Nat) (p : Int) :
    weightedQuickUnion.Find.loop1 fuel u k p = findLoop u.root k p :=
  weighted_Find_loop fuel u k p

theorem C17_generated_weighted_queries (u : weightedQuickUnion) (p q : Int) :
    weightedQuickUnion.isValid u p = (wq u).isValid p ∧ weightedQuickUnion.Find u.root.size u p = (wq u).find p ∧
    weightedQuickUnion.IsConnected u.root.size u p q = (wq u).isConnected p q ∧
    weightedQuickUnion.Count u = (wq u).getCount :=
  ⟨weighted_isValid u p, weighted_Find u p, weighted_IsConnected u p q, weighted_Count u⟩

theorem C17_generated_weighted_Union (u : weightedQuickUnion) (p q : Int) :
    (weightedQuickUnion.Union u.root.size u p q).map wq = (wq u).union p q :=
  weighted_Union u p q

theorem C17_generated_weighted_New :
    (∀ n : Nat, (NewWeightedQuickUnion n).map wq = .ok (Weighted.new n)) ∧
    (∀ n : Int, n < 0 → NewWeightedQuickUnion n = .panic) :=
  ⟨NewWeighted_eq, fun _ h => NewWeighted_neg h⟩

-- non-vacuity: the generated definitions compute; the states are those of the Model's example above
example : (do let u ← NewQuickFind 6
              quickFind.run u [(0, 1), (2, 3), (1, 3), (5, 0), (4, 4), (0, 7), (3, 0), (-1, 2)])
    = .ok ⟨2, #[3, 3, 3, 3, 4, 3]⟩ := by decide
example : (do let u ← NewQuickUnion 6
              quickUnion.run u [(0, 1), (2, 3), (1, 3), (5, 0), (4, 4), (0, 7), (3, 0), (-1, 2)])
    = .ok ⟨2, #[1, 3, 3, 3, 4, 3]⟩ := by decide
example : (do let u ← NewWeightedQuickUnion 6
              weightedQuickUnion.run u [(0, 1), (2, 3), (1, 3), (5, 0), (4, 4), (0, 7), (3, 0), (-1, 2)])
    = .ok ⟨2, #[0, 0, 0, 2, 4, 0], #[5, 1, 2, 1, 1, 1]⟩ := by decide
example : quickUnion.Find 4 ⟨1, #[1, 2, 3, 3]⟩ 0 = .ok (3, true) ∧
    quickUnion.Find 3 ⟨1, #[1, 2, 3, 3]⟩ 0 = .diverge ∧ quickUnion.Find 5 ⟨1, #[1, 2, 3, 7]⟩ 0 = .panic := by decide

/-! ### the C17 statements, about the generated definitions

`X.run u us` (defined in `Proofs/C17Gen.lean`) makes the generated `Union` calls of the history one after
the other, each with fuel `len(u.root)`. -/

/-- quick-find, generated: from `NewQuickFind(n)` every history runs to completion and the generated
queries are those of the equivalence closure -/
theorem C17_generated_quickFind_tracks (n : Nat) (us : List (Int × Int)) :
    ∃ u0 u, NewQuickFind n = .ok u0 ∧ quickFind.run u0 us = .ok u ∧
      Tracks n us (quickFind.Find u) (quickFind.IsConnected u) (quickFind.Count u) := by
  obtain ⟨m, hm, T⟩ := C17_quickFind_tracks n us
  obtain ⟨u0, h0, e0⟩ := map_eq_ok (NewQuickFind_eq n)
  have hr := quickFind_run us u0
  rw [e0, hm] at hr
  obtain ⟨u, hu, eu⟩ := map_eq_ok hr
  refine ⟨u0, u, h0, hu, ?_⟩
  have e1 : quickFind.Find u = m.find := funext fun p => eu ▸ quickFind_Find u p
  have e2 : quickFind.IsConnected u = m.isConnected :=
    funext fun p => funext fun q => eu ▸ quickFind_IsConnected u p q
  have e3 : quickFind.Count u = m.getCount := eu ▸ quickFind_Count u
  rw [e1, e2, e3]; exact T

/-- quick-union, generated; fuel `n = len(u.root)` suffices for every `Find` -/
theorem C17_generated_quickUnion_tracks (n : Nat) (us : List (Int × Int)) :
    ∃ u0 u, NewQuickUnion n = .ok u0 ∧ quickUnion.run u0 us = .ok u ∧ u.root.size = n ∧
      Tracks n us (quickUnion.Find n u) (quickUnion.IsConnected n u) (quickUnion.Count u) := by
  obtain ⟨m, hm, T⟩ := C17_quickUnion_tracks n us
  obtain ⟨u0, h0, e0⟩ := map_eq_ok (NewQuickUnion_eq n)
  have hr := quickUnion_run us u0
  rw [e0, hm] at hr
  obtain ⟨u, hu, eu⟩ := map_eq_ok hr
  have hs : u.root.size = n := by
    have := (C17_quickUnion_find_terminates n us m hm).1
    rw [← eu] at this; exact this
  refine ⟨u0, u, h0, hu, hs, ?_⟩
  have e1 : quickUnion.Find n u = m.find := funext fun p => by rw [← hs, ← eu]; exact quickUnion_Find u p
  have e2 : quickUnion.IsConnected n u = m.isConnected :=
    funext fun p => funext fun q => by rw [← hs, ← eu]; exact quickUnion_IsConnected u p q
  have e3 : quickUnion.Count u = m.getCount := eu ▸ quickUnion_Count u
  rw [e1, e2, e3]; exact T

/-- weighted quick-union, generated -/
theorem C17_generated_weighted_tracks (n : Nat) (us : List (Int × Int)) :
    ∃ u0 u, NewWeightedQuickUnion n = .ok u0 ∧ weightedQuickUnion.run u0 us = .ok u ∧ u.root.size = n ∧
      Tracks n us (weightedQuickUnion.Find n u) (weightedQuickUnion.IsConnected n u) (weightedQuickUnion.Count u) := by
  obtain ⟨m, hm, T⟩ := C17_weighted_tracks n us
  obtain ⟨u0, h0, e0⟩ := map_eq_ok (NewWeighted_eq n)
  have hr := weighted_run us u0
  rw [e0, hm] at hr
  obtain ⟨u, hu, eu⟩ := map_eq_ok hr
  have hs : u.root.size = n := by
    have := (C17_weighted_find_terminates n us m hm).1
    rw [← eu] at this; exact this
  refine ⟨u0, u, h0, hu, hs, ?_⟩
  have e1 : weightedQuickUnion.Find n u = m.find := funext fun p => by rw [← hs, ← eu]; exact weighted_Find u p
  have e2 : weightedQuickUnion.IsConnected n u = m.isConnected :=
    funext fun p => funext fun q => by rw [← hs, ← eu]; exact weighted_IsConnected u p q
  have e3 : weightedQuickUnion.Count u = m.getCount := eu ▸ weighted_Count u
  rw [e1, e2, e3]; exact T

/-- the caller may pass ANY fuel ≥ `len(u.root)`: after any history the generated `Find` of both
quick-union types answers as with fuel `n` (it never diverges, so more fuel changes nothing) -/
theorem C17_generated_find_any_fuel (n : Nat) (us : List (Int × Int)) (fuel : Nat) (hf : n ≤ fuel) (p : Int) :
    (∀ u0 u, NewQuickUnion n = .ok u0 → quickUnion.run u0 us = .ok u →
      quickUnion.Find fuel u p = quickUnion.Find n u p) ∧
    (∀ u0 u, NewWeightedQuickUnion n = .ok u0 → weightedQuickUnion.run u0 us = .ok u →
      weightedQuickUnion.Find fuel u p = weightedQuickUnion.Find n u p) := by
  obtain ⟨j, rfl⟩ : ∃ j, fuel = n + j := ⟨fuel - n, by omega⟩
  constructor
  · intro u0 u h0 hu
    have e0 : qu u0 = QuickUnion.new n := by
      have := NewQuickUnion_eq n; rw [h0] at this; simpa using this
    have hr := quickUnion_run us u0
    rw [hu, e0] at hr
    obtain ⟨hs, -, -, hfind⟩ := C17_quickUnion_find_terminates n us (qu u) (by simpa using hr.symm)
    simp only [quickUnion.Find, quickUnion_Find_loop]
    by_cases hv : quickUnion.isValid u p = true
    · have hp : Valid n p := by
        simpa [quickUnion.isValid, Valid, show u.root.size = n from hs] using hv
      obtain ⟨r, hr', -⟩ := hfind p hp
      simp only [qu_root] at hr'
      simp [hv, hr', findLoop_mono u.root n j p r hr']
    · simp [hv]
  · intro u0 u h0 hu
    have e0 : wq u0 = Weighted.new n := by
      have := NewWeighted_eq n; rw [h0] at this; simpa using this
    have hr := weighted_run us u0
    rw [hu, e0] at hr
    obtain ⟨hs, -, -, -, hfind⟩ := C17_weighted_find_terminates n us (wq u) (by simpa using hr.symm)
    simp only [weightedQuickUnion.Find, weighted_Find_loop]
    by_cases hv : weightedQuickUnion.isValid u p = true
    · have hp : Valid n p := by
        simpa [weightedQuickUnion.isValid, Valid, show u.root.size = n from hs] using hv
      obtain ⟨r, hr', -⟩ := hfind p hp
      simp only [wq_root] at hr'
      simp [hv, hr', findLoop_mono u.root n j p r hr']
    · simp [hv]

-- non-vacuity: the hypotheses of the last theorem are met by the example history, and fuel matters below n
example : ∃ u0 u, NewQuickUnion 4 = .ok u0 ∧ quickUnion.run u0 [(0, 1), (0, 2), (0, 3)] = .ok u ∧
    quickUnion.Find 4 u 0 = .ok (3, true) ∧ quickUnion.Find 9 u 0 = .ok (3, true) ∧
    quickUnion.Find 3 u 0 = .diverge :=
  ⟨⟨4, #[0, 1, 2, 3]⟩, ⟨1, #[1, 2, 3, 3]⟩, by decide, by decide, by decide, by decide, by decide⟩
