import AlgoVerif.Common
/-! # C02 — property theorems (none yet) -/
