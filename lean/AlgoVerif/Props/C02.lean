import AlgoVerif.Proofs.C02Chain
import AlgoVerif.Proofs.C02OA
import AlgoVerif.Proofs.C02LinDel
import AlgoVerif.Model.C02Hash
/-!
# C02 — the hash tables behave as a map for any hash function, options and history

`run I ⟨t0, t0, g⟩ ops` is the trace of a history on two tables built by the constructor with the same
options (every operation names its table; `equal` compares the two), `Spec.run` is the trace of the
same history on two finite maps, `Agree` says: same length, every Model operation returned `ok` (no
`panic`, no `diverge`) with the Spec's output (listings of `All` as multisets).

Quantified: the key type (with decidable equality), the value type, `eqVal`, the hash function
`hash : K → UInt64` (arbitrary), the shuffle `sh` and its generator state (any function returning
permutations of `[0,n)`), valid options (what the constructor accepts, load-factor bounds default or
tighter: `dmin ≤ minLF < maxLF ≤ dmax`), and the history.

The last part of the file is about `hash/hash.go` (`Model/C02Hash.lean`): the library's default hash functions
`HashFuncFor*(nil)` are modelled as pure functions — the FNV fold over the bytes each function writes — and
the four table theorems are instantiated at the default string and int hash.  That the Go closures (which
reuse a hasher and, for scalars, a buffer) really compute these pure functions on every call of a history is
what the correspondence component `hashfn` checks on every run.

Helper lemmas: `Proofs/C02Lists`, `C02Num`, `C02Sim` (generic refinement), `C02Chain`, `C02OA`, `C02Lin`,
`C02LinDel` (the cluster re-insertion loop of linear probing's `Delete`).
-/
open AlgoVerif AlgoVerif.C02

/-- separate chaining (`chain_hash_table.go`) -/
theorem C02_chain {K V σ : Type} [DecidableEq K] (hash : K → UInt64) (sh : Shuffle σ) (hsh : ShufflePerm sh)
    (eqVal : V → V → Bool) (opts : Opts) (hv : Chain.ValidOpts opts) (g : σ) (ops : List (Op K V)) :
    ∃ t0 : ChainTable K V, Chain.new opts = .ok t0 ∧
      Agree (run (Chain.impl sh hash eqVal) ⟨t0, t0, g⟩ ops) (Spec.run eqVal ⟨[], []⟩ ops) := by
  obtain ⟨t0, hnew, hinv, hempty⟩ := Chain.init_spec (V := V) hash opts hv
  have hrel : Rel (Chain.Inv hash) Chain.Live t0 ([] : Spec.Map K V) :=
    ⟨hinv, Spec.nodupKeys_nil, fun k v => by simp [hempty k v]⟩
  exact ⟨t0, hnew, sim (Chain.correct hsh hash eqVal) ops ⟨t0, t0, g⟩ ⟨[], []⟩ (Or.inl trivial) hrel hrel⟩

/-- linear probing (`linear_hash_table.go`), including `Delete` with re-insertion of the cluster -/
theorem C02_linear {K V σ : Type} [DecidableEq K] (hash : K → UInt64) (sh : Shuffle σ) (hsh : ShufflePerm sh)
    (eqVal : V → V → Bool) (opts : Opts) (hv : Lin.ValidOpts opts) (g : σ) (ops : List (Op K V)) :
    ∃ t0 : LinTable K V, Lin.new opts = .ok t0 ∧
      Agree (run (Lin.impl sh hash eqVal) ⟨t0, t0, g⟩ ops) (Spec.run eqVal ⟨[], []⟩ ops) := by
  obtain ⟨t0, hnew, hinv, hempty⟩ := Lin.init_spec (V := V) hash opts hv
  have hrel : Rel (Lin.Inv hash) Lin.Live t0 ([] : Spec.Map K V) :=
    ⟨hinv, Spec.nodupKeys_nil, fun k v => by simp [hempty k v]⟩
  exact ⟨t0, hnew, sim (Lin.correct hsh hash eqVal) ops ⟨t0, t0, g⟩ ⟨[], []⟩ (Or.inl trivial) hrel hrel⟩

/-- quadratic probing (`quadratic_hash_table.go`) -/
theorem C02_quadratic {K V σ : Type} [DecidableEq K] (hash : K → UInt64) (sh : Shuffle σ) (hsh : ShufflePerm sh)
    (eqVal : V → V → Bool) (opts : Opts) (hv : OA.ValidOpts .quad opts) (g : σ) (ops : List (Op K V)) :
    ∃ t0 : OATable K V, OA.new .quad opts = .ok t0 ∧
      Agree (run (OA.impl sh hash eqVal) ⟨t0, t0, g⟩ ops) (Spec.run eqVal ⟨[], []⟩ ops) := by
  obtain ⟨t0, hnew, hinv, hempty⟩ := OA.init_spec (V := V) hash .quad opts hv
  have hrel : Rel (OA.Inv hash) OA.Live t0 ([] : Spec.Map K V) :=
    ⟨hinv, Spec.nodupKeys_nil, fun k v => by simp [hempty k v]⟩
  exact ⟨t0, hnew, sim (OA.correct hsh hash eqVal) ops ⟨t0, t0, g⟩ ⟨[], []⟩ (Or.inl trivial) hrel hrel⟩

/-- double hashing (`double_hash_table.go`) -/
theorem C02_double {K V σ : Type} [DecidableEq K] (hash : K → UInt64) (sh : Shuffle σ) (hsh : ShufflePerm sh)
    (eqVal : V → V → Bool) (opts : Opts) (hv : OA.ValidOpts .dbl opts) (g : σ) (ops : List (Op K V)) :
    ∃ t0 : OATable K V, OA.new .dbl opts = .ok t0 ∧
      Agree (run (OA.impl sh hash eqVal) ⟨t0, t0, g⟩ ops) (Spec.run eqVal ⟨[], []⟩ ops) := by
  obtain ⟨t0, hnew, hinv, hempty⟩ := OA.init_spec (V := V) hash .dbl opts hv
  have hrel : Rel (OA.Inv hash) OA.Live t0 ([] : Spec.Map K V) :=
    ⟨hinv, Spec.nodupKeys_nil, fun k v => by simp [hempty k v]⟩
  exact ⟨t0, hnew, sim (OA.correct hsh hash eqVal) ops ⟨t0, t0, g⟩ ⟨[], []⟩ (Or.inl trivial) hrel hrel⟩

/-! ## the library's default hash functions (`hash/hash.go`) -/

open AlgoVerif.C02.Hash in
/-- the FNV fold: `Reset` gives the offset basis, every written byte is one `fnvStep` (FNV-1: multiply by the
prime, then xor the byte — the variant `ensureHasher` installs), and writing `a` then `b` is writing `a ++ b` -/
theorem C02_hash_fnv_fold (a b : Bytes) (c : UInt8) :
    fnv [] = offset64 ∧ fnv (a ++ [c]) = fnvStep (fnv a) c ∧ fnv (a ++ b) = b.foldl fnvStep (fnv a) := by
  refine ⟨rfl, ?_, ?_⟩ <;> simp [fnv, List.foldl_append]

open AlgoVerif.C02.Hash in
/-- every modelled `HashFuncFor<name>(nil)` is a function of the bytes it writes and of nothing else: two
arguments with the same byte encoding hash to the same value, which is the FNV fold of those bytes.  (In the
Model this holds by construction — the point of stating it is that the correspondence run compares every call
of a history of the Go closures with `hashOf`.) -/
theorem C02_hash_bytes_only (name : String) (x y : Arg) (bs : Bytes)
    (hx : encode name x = some bs) (hy : encode name y = some bs) :
    hashOf name x = hashOf name y ∧ hashOf name x = some (fnv bs) := by
  simp [hashOf, hx, hy]

open AlgoVerif.C02.Hash AlgoVerif.Generated in
/-- the empty string (and every empty slice) hashes to the offset basis — on every call; the integer 0 hashes to
the fold of eight zero bytes; and the Model covers exactly the `HashFuncFor*` constructors found in the source
(`hash_funcNames` is regenerated from hash/hash.go) -/
theorem C02_hash_zero_keys_and_coverage :
    forString [] = offset64 ∧ offset64 = 14695981039346656037 ∧ forStringSlice [] = offset64 ∧ forIntSlice [] = offset64 ∧
    forInt 0 = fnv [0, 0, 0, 0, 0, 0, 0, 0] ∧ forInt 0 ≠ forString [] ∧
    (∀ n ∈ hash_funcNames, n ∈ families.map Prod.fst) ∧ (∀ n ∈ families.map Prod.fst, n ∈ hash_funcNames) := by
  decide

open AlgoVerif.C02.Hash in
/-- C02 for tables keyed by strings under the library's default string hash `hash.HashFuncForString(nil)`
(`grammar.HashNonTerminal`, `HashTerminal`, …): instances of the four theorems -/
theorem C02_default_string_hash {V σ : Type} (sh : Shuffle σ) (hsh : ShufflePerm sh) (eqVal : V → V → Bool) (g : σ)
    (ops : List (Op Bytes V)) :
    (∀ opts, Chain.ValidOpts opts → ∃ t0 : ChainTable Bytes V, Chain.new opts = .ok t0 ∧
      Agree (run (Chain.impl sh forString eqVal) ⟨t0, t0, g⟩ ops) (Spec.run eqVal ⟨[], []⟩ ops)) ∧
    (∀ opts, Lin.ValidOpts opts → ∃ t0 : LinTable Bytes V, Lin.new opts = .ok t0 ∧
      Agree (run (Lin.impl sh forString eqVal) ⟨t0, t0, g⟩ ops) (Spec.run eqVal ⟨[], []⟩ ops)) ∧
    (∀ opts, OA.ValidOpts .quad opts → ∃ t0 : OATable Bytes V, OA.new .quad opts = .ok t0 ∧
      Agree (run (OA.impl sh forString eqVal) ⟨t0, t0, g⟩ ops) (Spec.run eqVal ⟨[], []⟩ ops)) ∧
    (∀ opts, OA.ValidOpts .dbl opts → ∃ t0 : OATable Bytes V, OA.new .dbl opts = .ok t0 ∧
      Agree (run (OA.impl sh forString eqVal) ⟨t0, t0, g⟩ ops) (Spec.run eqVal ⟨[], []⟩ ops)) :=
  ⟨fun opts hv => C02_chain forString sh hsh eqVal opts hv g ops,
   fun opts hv => C02_linear forString sh hsh eqVal opts hv g ops,
   fun opts hv => C02_quadratic forString sh hsh eqVal opts hv g ops,
   fun opts hv => C02_double forString sh hsh eqVal opts hv g ops⟩

open AlgoVerif.C02.Hash in
/-- C02 for tables keyed by Go `int`s under the library's default int hash `hash.HashFuncForInt(nil)`
(`lr.HashState`, …) -/
theorem C02_default_int_hash {V σ : Type} (sh : Shuffle σ) (hsh : ShufflePerm sh) (eqVal : V → V → Bool) (g : σ)
    (ops : List (Op Int V)) :
    (∀ opts, Chain.ValidOpts opts → ∃ t0 : ChainTable Int V, Chain.new opts = .ok t0 ∧
      Agree (run (Chain.impl sh forInt eqVal) ⟨t0, t0, g⟩ ops) (Spec.run eqVal ⟨[], []⟩ ops)) ∧
    (∀ opts, Lin.ValidOpts opts → ∃ t0 : LinTable Int V, Lin.new opts = .ok t0 ∧
      Agree (run (Lin.impl sh forInt eqVal) ⟨t0, t0, g⟩ ops) (Spec.run eqVal ⟨[], []⟩ ops)) ∧
    (∀ opts, OA.ValidOpts .quad opts → ∃ t0 : OATable Int V, OA.new .quad opts = .ok t0 ∧
      Agree (run (OA.impl sh forInt eqVal) ⟨t0, t0, g⟩ ops) (Spec.run eqVal ⟨[], []⟩ ops)) ∧
    (∀ opts, OA.ValidOpts .dbl opts → ∃ t0 : OATable Int V, OA.new .dbl opts = .ok t0 ∧
      Agree (run (OA.impl sh forInt eqVal) ⟨t0, t0, g⟩ ops) (Spec.run eqVal ⟨[], []⟩ ops)) :=
  ⟨fun opts hv => C02_chain forInt sh hsh eqVal opts hv g ops,
   fun opts hv => C02_linear forInt sh hsh eqVal opts hv g ops,
   fun opts hv => C02_quadratic forInt sh hsh eqVal opts hv g ops,
   fun opts hv => C02_double forInt sh hsh eqVal opts hv g ops⟩

/-! ## the hypotheses are satisfiable, on non-trivial states -/
section NonVacuity

/-- the identity shuffle is a shuffle -/
def idShuffle : Shuffle Unit := fun g n => (List.range n, g)

example : ShufflePerm idShuffle := fun _ _ => List.Perm.refl _

/-- default options and tighter explicit ones are valid -/
example : OA.ValidOpts .quad {} := ⟨Or.inl rfl, by constructor <;> decide⟩
example : OA.ValidOpts .dbl ⟨61, ⟨1, 4⟩, ⟨3, 8⟩⟩ := ⟨Or.inr (by decide), by constructor <;> decide⟩
example : Chain.ValidOpts ⟨8, ⟨3, 1⟩, ⟨5, 1⟩⟩ := ⟨Or.inr (by decide), by constructor <;> decide⟩
example : Lin.ValidOpts ⟨64, ⟨3, 8⟩, ⟨7, 16⟩⟩ := ⟨Or.inr (by decide), by constructor <;> decide⟩

/-- linear probing, constant hash: a cluster of four keys; deleting the first one moves the other three
back by one slot each (the re-insertion loop), and every key is still found. -/
example : (match (Lin.new {} : Outcome (LinTable Int Int)) with
    | .ok t0 => run (Lin.impl idShuffle (fun _ => 5) (fun a b => a == b)) ⟨t0, t0, ()⟩
        [.put false 1 10, .put false 2 20, .put false 3 30, .put false 4 40, .delete false 1,
         .get false 4, .get false 1, .size false, .all false]
    | _ => []) =
    [.ok .unit, .ok .unit, .ok .unit, .ok .unit, .ok (.val (some 10)),
     .ok (.val (some 40)), .ok (.val none), .ok (.int 3), .ok (.list [(2, 20), (3, 30), (4, 40)])] := by
  decide

/-- D2's witness on the Model as it is now, with a constant hash function: colliding keys, a tombstone
that is revived, and the count is right (before the fix the last output was 1). -/
example : (match (OA.new .quad {} : Outcome (OATable Int Int)) with
    | .ok t0 => run (OA.impl idShuffle (fun _ => 5) (fun a b => a == b)) ⟨t0, t0, ()⟩
        [.put false 1 10, .put false 2 20, .delete false 1, .put false 1 11, .size false, .get false 1]
    | _ => []) =
    [.ok .unit, .ok .unit, .ok (.val (some 10)), .ok .unit, .ok (.int 2), .ok (.val (some 11))] := by
  decide

open AlgoVerif.C02.Hash in
/-- the encodings are not all alike: "a" and "b" differ, `[1]` as `[]int8` is one byte and as `[]int` 24 bytes
(the `unsafe.Sizeof` quirk), −1 is sign-extended; `"ab","c"` and `"a","bc"` are written as the same bytes -/
example : encode "String" (.bytes [97]) ≠ encode "String" (.bytes [98]) ∧
    (encode "Int8Slice" (.ints [1])).map List.length = some 1 ∧ (encode "IntSlice" (.ints [1])).map List.length = some 24 ∧
    encode "Int16" (.int (-1)) = some [255, 255] ∧ encode "Bool" (.int 1) = none ∧
    encode "StringSlice" (.strs [[97, 98], [99]]) = encode "StringSlice" (.strs [[97], [98, 99]]) := by
  decide

open AlgoVerif.C02.Hash in
/-- the witness history of the seeded change C02-n2 on the Model: the empty string is the first key the default
string hash ever sees; it is found again after other keys have been hashed, and the count is right. -/
example : (match (OA.new .quad {} : Outcome (OATable Bytes Int)) with
    | .ok t0 => run (OA.impl idShuffle forString (fun a b => a == b)) ⟨t0, t0, ()⟩
        [.put false [] 1, .put false [97] 2, .get false [], .put false [] 3, .size false, .get false []]
    | _ => []) =
    [.ok .unit, .ok .unit, .ok (.val (some 1)), .ok .unit, .ok (.int 2), .ok (.val (some 3))] := by
  decide

end NonVacuity
