import AlgoVerif.Model.C02Run
/-! # C02 — property theorems (under construction) -/
open AlgoVerif AlgoVerif.C02

theorem C02_placeholder : isPrime 31 = true := by decide
