import AlgoVerif.Proofs.C02Chain
import AlgoVerif.Proofs.C02OA
import AlgoVerif.Proofs.C02LinDel
import AlgoVerif.Model.C02Hash
import AlgoVerif.Proofs.C02Gen
import AlgoVerif.Proofs.C02LinGen
import AlgoVerif.Proofs.C02Pool
/-!
# C02 — the hash tables behave as a map for any hash function, options and history

`run I ⟨t0, t0, g⟩ ops` is the trace of a history on two tables built by the constructor with the same
options (every operation names its table; `equal` compares the two), `Spec.run` is the trace of the
same history on two finite maps, `Agree` says: same length, every Model operation returned `ok` (no
`panic`, no `diverge`) with the Spec's output (listings of `All` as multisets).

Quantified: the key type (with decidable equality), the value type, `eqVal`, the hash function
`hash : K → UInt64` (arbitrary), the shuffle `sh` and its generator state (any function returning
permutations of `[0,n)`), valid options (what the constructor accepts, load-factor bounds default or
tighter: `dmin ≤ minLF < maxLF ≤ dmax`), and the history.

The last part of the file is about `hash/hash.go` (`Model/C02Hash.lean`): the library's default hash functions
`HashFuncFor*(nil)` are modelled as pure functions — the FNV fold over the bytes each function writes — and
the four table theorems are instantiated at the default string and int hash.  That the Go closures (which
reuse a hasher and, for scalars, a buffer) really compute these pure functions on every call of a history is
what the correspondence component `hashfn` checks on every run.

Helper lemmas: `Proofs/C02Lists`, `C02Num`, `C02Sim` (generic refinement), `C02Chain`, `C02OA`, `C02Lin`,
`C02LinDel` (the cluster re-insertion loop of linear probing's `Delete`), `C02Pool` (tables used together).
-/
open AlgoVerif AlgoVerif.C02

/-- separate chaining (`chain_hash_table.go`) -/
theorem C02_chain {K V σ : Type} [DecidableEq K] (hash : K → UInt64) (sh : Shuffle σ) (hsh : ShufflePerm sh)
    (eqVal : V → V → Bool) (opts : Opts) (hv : Chain.ValidOpts opts) (g : σ) (ops : List (Op K V)) :
    ∃ t0 : ChainTable K V, Chain.new opts = .ok t0 ∧
      Agree (run (Chain.impl sh hash eqVal) ⟨t0, t0, g⟩ ops) (Spec.run eqVal ⟨[], []⟩ ops) := by
  obtain ⟨t0, hnew, hinv, hempty⟩ := Chain.init_spec (V := V) hash opts hv
  have hrel : Rel (Chain.Inv hash) Chain.Live t0 ([] : Spec.Map K V) :=
    ⟨hinv, Spec.nodupKeys_nil, fun k v => by simp [hempty k v]⟩
  exact ⟨t0, hnew, sim (Chain.correct hsh hash eqVal) ops ⟨t0, t0, g⟩ ⟨[], []⟩ (Or.inl trivial) hrel hrel⟩

/-- linear probing (`linear_hash_table.go`), including `Delete` with re-insertion of the cluster -/
theorem C02_linear {K V σ : Type} [DecidableEq K] (hash : K → UInt64) (sh : Shuffle σ) (hsh : ShufflePerm sh)
    (eqVal : V → V → Bool) (opts : Opts) (hv : Lin.ValidOpts opts) (g : σ) (ops : List (Op K V)) :
    ∃ t0 : LinTable K V, Lin.new opts = .ok t0 ∧
      Agree (run (Lin.impl sh hash eqVal) ⟨t0, t0, g⟩ ops) (Spec.run eqVal ⟨[], []⟩ ops) := by
  obtain ⟨t0, hnew, hinv, hempty⟩ := Lin.init_spec (V := V) hash opts hv
  have hrel : Rel (Lin.Inv hash) Lin.Live t0 ([] : Spec.Map K V) :=
    ⟨hinv, Spec.nodupKeys_nil, fun k v => by simp [hempty k v]⟩
  exact ⟨t0, hnew, sim (Lin.correct hsh hash eqVal) ops ⟨t0, t0, g⟩ ⟨[], []⟩ (Or.inl trivial) hrel hrel⟩

/-- quadratic probing (`quadratic_hash_table.go`) -/
theorem C02_quadratic {K V σ : Type} [DecidableEq K] (hash : K → UInt64) (sh : Shuffle σ) (hsh : ShufflePerm sh)
    (eqVal : V → V → Bool) (opts : Opts) (hv : OA.ValidOpts .quad opts) (g : σ) (ops : List (Op K V)) :
    ∃ t0 : OATable K V, OA.new .quad opts = .ok t0 ∧
      Agree (run (OA.impl sh hash eqVal) ⟨t0, t0, g⟩ ops) (Spec.run eqVal ⟨[], []⟩ ops) := by
  obtain ⟨t0, hnew, hinv, hempty⟩ := OA.init_spec (V := V) hash .quad opts hv
  have hrel : Rel (OA.Inv hash) OA.Live t0 ([] : Spec.Map K V) :=
    ⟨hinv, Spec.nodupKeys_nil, fun k v => by simp [hempty k v]⟩
  exact ⟨t0, hnew, sim (OA.correct hsh hash eqVal) ops ⟨t0, t0, g⟩ ⟨[], []⟩ (Or.inl trivial) hrel hrel⟩

/-- double hashing (`double_hash_table.go`) -/
theorem C02_double {K V σ : Type} [DecidableEq K] (hash : K → UInt64) (sh : Shuffle σ) (hsh : ShufflePerm sh)
    (eqVal : V → V → Bool) (opts : Opts) (hv : OA.ValidOpts .dbl opts) (g : σ) (ops : List (Op K V)) :
    ∃ t0 : OATable K V, OA.new .dbl opts = .ok t0 ∧
      Agree (run (OA.impl sh hash eqVal) ⟨t0, t0, g⟩ ops) (Spec.run eqVal ⟨[], []⟩ ops) := by
  obtain ⟨t0, hnew, hinv, hempty⟩ := OA.init_spec (V := V) hash .dbl opts hv
  have hrel : Rel (OA.Inv hash) OA.Live t0 ([] : Spec.Map K V) :=
    ⟨hinv, Spec.nodupKeys_nil, fun k v => by simp [hempty k v]⟩
  exact ⟨t0, hnew, sim (OA.correct hsh hash eqVal) ops ⟨t0, t0, g⟩ ⟨[], []⟩ (Or.inl trivial) hrel hrel⟩

/-! ## tables used together: different implementations, hash functions, options and value equalities; iterator values

`Model/C02Pool.lean`: a history runs on a pool of tables, table `i` built by any of the four constructors (`c.ty`)
with its own hash function, its own `eqVal` and its own valid options.  Besides the operations of the four theorems
above: `equal i j` = `tables[i].Equal(tables[j])` for any `i`, `j` — the same table twice (`i = j`), tables that differ
in hash function / options / `eqVal` (each is searched with its own hash function, values are compared with the
receiver's `eqVal`), tables of different Go types (never equal: the type assertion) — and the iterator values a
program can keep: `seq i` (`tables[i].All()`: a handle on the table; the table is listed, and the shuffle drawn, whenever the sequence is
RUN), `pull s` (`iter.Pull2`), `next p` (the first one runs the sequence), `stop p`.  Nested `for range ht.All()` loops, two pulled iterators advanced alternately, a loop broken off half-way and
a sequence run twice are histories over these four operations.  `Spec.Admits`: every operation returned `ok` the
output of the Spec (finite maps, `Spec.pstep`) for *some* order of each listing that is a permutation of the map as it
is when the listing is made. -/

theorem C02_pool {K V σ : Type} [DecidableEq K] (sh : Shuffle σ) (hsh : ShufflePerm sh) (cfgs : List (Cfg K V))
    (hv : ∀ c ∈ cfgs, Tab.ValidOpts c.ty c.opts) (g : σ) (ops : List (POp K V)) :
    ∃ objs : List (Obj K V), Pool.new cfgs = .ok objs ∧
      Spec.Admits (specInit cfgs) ops (Pool.run sh ⟨objs, g, {}⟩ ops) := by
  obtain ⟨objs, hnew, hrel⟩ := Pool.init_rel (σ := σ) cfgs hv
  exact ⟨objs, hnew, pool_sim hsh ops _ _ (hrel g)⟩

/-- what a sequence and a traversal are worth, in EVERY state `s` the Spec reaches (whatever the listings chosen, as long
as each is a permutation of the map it lists) — in particular after `Put` / `Delete` / resizes / `DeleteAll` on the table
a sequence was obtained from:

* `ItersOK s`: every sequence and traversal is a handle on a table of the pool, and a traversal that is half-way has a
  suffix of a permutation of its table's CURRENT map left;
* a traversal `p` that has not started (obtained at any earlier time, from a sequence obtained at any earlier time): any
  permutation `ch` of the table's map as it is NOW is an admissible listing for its first `next`, and advancing it
  `|ch| + 1` times yields exactly the pairs of `ch`, in order, each once, and then the end — so a sequence obtained
  before a change and run after it lists the table as it is when it is run;
* a traversal that is half-way, advanced to its end, yields exactly what it has left, then the end — however many other
  traversals of the same table are in progress (they are other entries of `pulls`).

(What is deliberately not claimed: a traversal that is half-way when ITS table is changed — it is `broken`.) -/
theorem C02_pool_traversals {K V : Type} [DecidableEq K] (cfgs : List (Cfg K V))
    (steps : List (POp K V × List (K × V))) (hc : Spec.ChoicesOK (specInit cfgs) steps) :
    Spec.ItersOK (Spec.prun (specInit cfgs) steps) ∧
    ∀ (p : Nat) (pl : PullV K V), (Spec.prun (specInit cfgs) steps).it.pulls[p]? = some pl →
      (pl.phase = .fresh → ∃ t, (Spec.prun (specInit cfgs) steps).tabs[pl.tid]? = some t ∧
        ∀ ch : List (K × V), ch.Perm t.map → ∀ chs : List (List (K × V)), chs.length = ch.length →
          Spec.choiceOK (Spec.prun (specInit cfgs) steps) (.next p) ch ∧
          Spec.pouts (Spec.prun (specInit cfgs) steps) ((ch :: chs).map fun c => (POp.next p, c)) =
            ch.map POut.pair ++ [POut.done]) ∧
      (pl.phase = .running → ∃ t l, (Spec.prun (specInit cfgs) steps).tabs[pl.tid]? = some t ∧ l.Perm t.map ∧
        pl.rest <:+ l ∧
        ∀ chs : List (List (K × V)), chs.length = pl.rest.length + 1 →
          Spec.pouts (Spec.prun (specInit cfgs) steps) (chs.map fun c => (POp.next p, c)) =
            pl.rest.map POut.pair ++ [POut.done]) := by
  have hI := Spec.iters_ok steps _ hc (Spec.itersOK_init cfgs)
  refine ⟨hI, ?_⟩
  intro p pl hp
  obtain ⟨t, ht, hrun⟩ := hI.2 pl (List.mem_of_getElem? hp)
  constructor
  · intro hph
    refine ⟨t, ht, ?_⟩
    intro ch hperm chs hlen
    refine ⟨?_, Spec.drain_fresh _ p pl hp hph ch chs hlen⟩
    simp only [Spec.choiceOK, Iters.freshTid, hp, hph, if_true, Option.bind_some, ht]
    exact hperm
  · intro hph
    obtain ⟨l, hl, hsuf⟩ := hrun hph
    exact ⟨t, l, ht, hl, hsuf, fun chs hlen => Spec.drain_running pl.rest _ p pl hp hph rfl chs hlen⟩

section PoolNonVacuity

/-- a separate-chaining table (identity hash, default options) and a quadratic-probing table (constant hash, capacity
37, tighter bounds, values compared modulo 8): both option sets are valid -/
def poolCfgs : List (Cfg Int Int) :=
  [⟨.chain, fun k => UInt64.ofNat k.toNat, fun a b => a == b, {}⟩,
   ⟨.quadratic, fun _ => 5, fun a b => a % 8 == b % 8, ⟨37, ⟨1, 4⟩, ⟨3, 8⟩⟩⟩,
   ⟨.quadratic, fun k => UInt64.ofNat k.toNat, fun a b => a == b, {}⟩]

example : ∀ c ∈ poolCfgs, Tab.ValidOpts c.ty c.opts := by
  intro c hc
  simp only [poolCfgs, List.mem_cons, List.not_mem_nil, or_false] at hc
  rcases hc with rfl | rfl | rfl
  · exact ⟨Or.inl rfl, by constructor <;> decide⟩
  · exact ⟨Or.inr (by decide), by constructor <;> decide⟩
  · exact ⟨Or.inl rfl, by constructor <;> decide⟩

/-- the Model on that pool (identity shuffle): the two quadratic tables hold the same keys with values that differ by
8 — equal for the receiver that compares modulo 8, different for the other one; a table equals itself; a chaining
table never equals a quadratic one; two traversals of table 1 advanced alternately each yield both pairs; then two
more traversals of the same sequence are obtained, one is started, table 1 is changed: the one that was half-way is
broken (`invalid`), the one that had not started starts afterwards and lists the table as it is THEN (three pairs). -/
example : (match (Pool.new poolCfgs : Outcome (List (Obj Int Int))) with
    | .ok objs => Pool.run (fun g n => (List.range n, g)) ⟨objs, (), {}⟩
        [.put 1 1 10, .put 1 2 20, .put 2 1 18, .put 2 2 28, .put 0 1 10, .put 0 2 20,
         .equal 1 2, .equal 2 1, .equal 1 1, .equal 0 1, .equal 0 0,
         .seq 1, .seq 1, .pull 0, .pull 1, .next 0, .next 1, .next 1, .next 0, .next 0, .next 1,
         .pull 0, .pull 0, .next 3, .put 1 3 30, .next 3, .next 2, .next 2, .next 2, .next 2, .size 1]
    | _ => []) =
    [.ok .unit, .ok .unit, .ok .unit, .ok .unit, .ok .unit, .ok .unit,
     .ok (.bool true), .ok (.bool false), .ok (.bool true), .ok (.bool false), .ok (.bool true),
     .ok (.id 0), .ok (.id 1), .ok (.id 0), .ok (.id 1), .ok (.pair (1, 10)), .ok (.pair (1, 10)), .ok (.pair (2, 20)),
     .ok (.pair (2, 20)), .ok .done, .ok .done,
     .ok (.id 2), .ok (.id 3), .ok (.pair (1, 10)), .ok .unit, .ok .invalid, .ok (.pair (1, 10)), .ok (.pair (2, 20)),
     .ok (.pair (3, 30)), .ok .done, .ok (.int 3)] := by
  decide

/-- D29's history: 3 entries, the sequence is obtained, 14 more entries (a resize: 32 -> 64 slots), a traversal of the
sequence is obtained, all entries but one are deleted (the table shrinks back to 32 slots); `size`, `next`, `next` -/
def d29Ops : List (POp Int Int) :=
  [POp.put 0 1 1, POp.put 0 2 2, POp.put 0 3 3, POp.seq 0] ++
  ((List.range 14).map fun i => POp.put 0 ((100 + i : Nat) : Int) 7) ++ [POp.size 0, POp.pull 0] ++
  [POp.delete 0 2, POp.delete 0 3] ++ ((List.range 14).map fun i => POp.delete 0 ((100 + i : Nat) : Int)) ++
  [POp.size 0, POp.next 0, POp.next 0]

/-- D29's witness on the Model (linear probing, default options, the default int hash): the sequence and its traversal
are run only after the table has grown and shrunk again — they list the one pair the table holds THEN.  (Before the fix
of `All()` the Go code listed the slots with the index list of the old capacity: a partial listing after growth, an
index out of range after shrinking.) -/
example : (match (Pool.new [⟨.linear, Hash.forInt, fun a b => a == b, {}⟩] : Outcome (List (Obj Int Int))) with
    | .ok objs => (Pool.run (fun g n => (List.range n, g)) ⟨objs, (), {}⟩ d29Ops).drop 36
    | _ => []) = [.ok (.int 1), .ok (.pair (1, 1)), .ok .done] := by
  decide

/-- listings chosen for the Spec: `all` of an empty map; the first `next` of a traversal lists the one-pair map -/
example : Spec.ChoicesOK (specInit poolCfgs) [(.put 0 1 10, []), (.all 1, []), (.seq 0, []), (.pull 0, []), (.next 0, [(1, 10)])] := by
  simp [Spec.ChoicesOK, Spec.choiceOK, Spec.pstep, specInit, poolCfgs, Spec.Map.insert, Spec.Map.erase, Iters.addSeq,
    Iters.pull, Iters.freshTid, Iters.invalidate]

end PoolNonVacuity

/-! ## the library's default hash functions (`hash/hash.go`) -/

open AlgoVerif.C02.Hash in
/-- the FNV fold: `Reset` gives the offset basis, every written byte is one `fnvStep` (FNV-1: multiply by the
prime, then xor the byte — the variant `ensureHasher` installs), and writing `a` then `b` is writing `a ++ b` -/
theorem C02_hash_fnv_fold (a b : Bytes) (c : UInt8) :
    fnv [] = offset64 ∧ fnv (a ++ [c]) = fnvStep (fnv a) c ∧ fnv (a ++ b) = b.foldl fnvStep (fnv a) := by
  refine ⟨rfl, ?_, ?_⟩ <;> simp [fnv, List.foldl_append]

open AlgoVerif.C02.Hash in
/-- every modelled `HashFuncFor<name>(nil)` is a function of the bytes it writes and of nothing else: two
arguments with the same byte encoding hash to the same value, which is the FNV fold of those bytes.  (In the
Model this holds by construction — the point of stating it is that the correspondence run compares every call
of a history of the Go closures with `hashOf`.) -/
theorem C02_hash_bytes_only (name : String) (x y : Arg) (bs : Bytes)
    (hx : encode name x = some bs) (hy : encode name y = some bs) :
    hashOf name x = hashOf name y ∧ hashOf name x = some (fnv bs) := by
  simp [hashOf, hx, hy]

open AlgoVerif.C02.Hash AlgoVerif.Generated in
/-- the empty string (and every empty slice) hashes to the offset basis — on every call; the integer 0 hashes to
the fold of eight zero bytes; and the Model covers exactly the `HashFuncFor*` constructors found in the source
(`hash_funcNames` is regenerated from hash/hash.go) -/
theorem C02_hash_zero_keys_and_coverage :
    forString [] = offset64 ∧ offset64 = 14695981039346656037 ∧ forStringSlice [] = offset64 ∧ forIntSlice [] = offset64 ∧
    forInt 0 = fnv [0, 0, 0, 0, 0, 0, 0, 0] ∧ forInt 0 ≠ forString [] ∧
    (∀ n ∈ hash_funcNames, n ∈ families.map Prod.fst) ∧ (∀ n ∈ families.map Prod.fst, n ∈ hash_funcNames) := by
  decide

open AlgoVerif.C02.Hash in
/-- C02 for tables keyed by strings under the library's default string hash `hash.HashFuncForString(nil)`
(`grammar.HashNonTerminal`, `HashTerminal`, …): instances of the four theorems -/
theorem C02_default_string_hash {V σ : Type} (sh : Shuffle σ) (hsh : ShufflePerm sh) (eqVal : V → V → Bool) (g : σ)
    (ops : List (Op Bytes V)) :
    (∀ opts, Chain.ValidOpts opts → ∃ t0 : ChainTable Bytes V, Chain.new opts = .ok t0 ∧
      Agree (run (Chain.impl sh forString eqVal) ⟨t0, t0, g⟩ ops) (Spec.run eqVal ⟨[], []⟩ ops)) ∧
    (∀ opts, Lin.ValidOpts opts → ∃ t0 : LinTable Bytes V, Lin.new opts = .ok t0 ∧
      Agree (run (Lin.impl sh forString eqVal) ⟨t0, t0, g⟩ ops) (Spec.run eqVal ⟨[], []⟩ ops)) ∧
    (∀ opts, OA.ValidOpts .quad opts → ∃ t0 : OATable Bytes V, OA.new .quad opts = .ok t0 ∧
      Agree (run (OA.impl sh forString eqVal) ⟨t0, t0, g⟩ ops) (Spec.run eqVal ⟨[], []⟩ ops)) ∧
    (∀ opts, OA.ValidOpts .dbl opts → ∃ t0 : OATable Bytes V, OA.new .dbl opts = .ok t0 ∧
      Agree (run (OA.impl sh forString eqVal) ⟨t0, t0, g⟩ ops) (Spec.run eqVal ⟨[], []⟩ ops)) :=
  ⟨fun opts hv => C02_chain forString sh hsh eqVal opts hv g ops,
   fun opts hv => C02_linear forString sh hsh eqVal opts hv g ops,
   fun opts hv => C02_quadratic forString sh hsh eqVal opts hv g ops,
   fun opts hv => C02_double forString sh hsh eqVal opts hv g ops⟩

open AlgoVerif.C02.Hash in
/-- C02 for tables keyed by Go `int`s under the library's default int hash `hash.HashFuncForInt(nil)`
(`lr.HashState`, …) -/
theorem C02_default_int_hash {V σ : Type} (sh : Shuffle σ) (hsh : ShufflePerm sh) (eqVal : V → V → Bool) (g : σ)
    (ops : List (Op Int V)) :
    (∀ opts, Chain.ValidOpts opts → ∃ t0 : ChainTable Int V, Chain.new opts = .ok t0 ∧
      Agree (run (Chain.impl sh forInt eqVal) ⟨t0, t0, g⟩ ops) (Spec.run eqVal ⟨[], []⟩ ops)) ∧
    (∀ opts, Lin.ValidOpts opts → ∃ t0 : LinTable Int V, Lin.new opts = .ok t0 ∧
      Agree (run (Lin.impl sh forInt eqVal) ⟨t0, t0, g⟩ ops) (Spec.run eqVal ⟨[], []⟩ ops)) ∧
    (∀ opts, OA.ValidOpts .quad opts → ∃ t0 : OATable Int V, OA.new .quad opts = .ok t0 ∧
      Agree (run (OA.impl sh forInt eqVal) ⟨t0, t0, g⟩ ops) (Spec.run eqVal ⟨[], []⟩ ops)) ∧
    (∀ opts, OA.ValidOpts .dbl opts → ∃ t0 : OATable Int V, OA.new .dbl opts = .ok t0 ∧
      Agree (run (OA.impl sh forInt eqVal) ⟨t0, t0, g⟩ ops) (Spec.run eqVal ⟨[], []⟩ ops)) :=
  ⟨fun opts hv => C02_chain forInt sh hsh eqVal opts hv g ops,
   fun opts hv => C02_linear forInt sh hsh eqVal opts hv g ops,
   fun opts hv => C02_quadratic forInt sh hsh eqVal opts hv g ops,
   fun opts hv => C02_double forInt sh hsh eqVal opts hv g ops⟩

/-! ## the hypotheses are satisfiable, on non-trivial states -/
section NonVacuity

/-- the identity shuffle is a shuffle -/
def idShuffle : Shuffle Unit := fun g n => (List.range n, g)

example : ShufflePerm idShuffle := fun _ _ => List.Perm.refl _

/-- default options and tighter explicit ones are valid -/
example : OA.ValidOpts .quad {} := ⟨Or.inl rfl, by constructor <;> decide⟩
example : OA.ValidOpts .dbl ⟨61, ⟨1, 4⟩, ⟨3, 8⟩⟩ := ⟨Or.inr (by decide), by constructor <;> decide⟩
example : Chain.ValidOpts ⟨8, ⟨3, 1⟩, ⟨5, 1⟩⟩ := ⟨Or.inr (by decide), by constructor <;> decide⟩
example : Lin.ValidOpts ⟨64, ⟨3, 8⟩, ⟨7, 16⟩⟩ := ⟨Or.inr (by decide), by constructor <;> decide⟩

/-- linear probing, constant hash: a cluster of four keys; deleting the first one moves the other three
back by one slot each (the re-insertion loop), and every key is still found. -/
example : (match (Lin.new {} : Outcome (LinTable Int Int)) with
    | .ok t0 => run (Lin.impl idShuffle (fun _ => 5) (fun a b => a == b)) ⟨t0, t0, ()⟩
        [.put false 1 10, .put false 2 20, .put false 3 30, .put false 4 40, .delete false 1,
         .get false 4, .get false 1, .size false, .all false]
    | _ => []) =
    [.ok .unit, .ok .unit, .ok .unit, .ok .unit, .ok (.val (some 10)),
     .ok (.val (some 40)), .ok (.val none), .ok (.int 3), .ok (.list [(2, 20), (3, 30), (4, 40)])] := by
  decide

/-- D2's witness on the Model as it is now, with a constant hash function: colliding keys, a tombstone
that is revived, and the count is right (before the fix the last output was 1). -/
example : (match (OA.new .quad {} : Outcome (OATable Int Int)) with
    | .ok t0 => run (OA.impl idShuffle (fun _ => 5) (fun a b => a == b)) ⟨t0, t0, ()⟩
        [.put false 1 10, .put false 2 20, .delete false 1, .put false 1 11, .size false, .get false 1]
    | _ => []) =
    [.ok .unit, .ok .unit, .ok (.val (some 10)), .ok .unit, .ok (.int 2), .ok (.val (some 11))] := by
  decide

open AlgoVerif.C02.Hash in
/-- the encodings are not all alike: "a" and "b" differ, `[1]` as `[]int8` is one byte and as `[]int` 24 bytes
(the `unsafe.Sizeof` quirk), −1 is sign-extended; `"ab","c"` and `"a","bc"` are written as the same bytes -/
example : encode "String" (.bytes [97]) ≠ encode "String" (.bytes [98]) ∧
    (encode "Int8Slice" (.ints [1])).map List.length = some 1 ∧ (encode "IntSlice" (.ints [1])).map List.length = some 24 ∧
    encode "Int16" (.int (-1)) = some [255, 255] ∧ encode "Bool" (.int 1) = none ∧
    encode "StringSlice" (.strs [[97, 98], [99]]) = encode "StringSlice" (.strs [[97], [98, 99]]) := by
  decide

open AlgoVerif.C02.Hash in
/-- the witness history of the seeded change C02-n2 on the Model: the empty string is the first key the default
string hash ever sees; it is found again after other keys have been hashed, and the count is right. -/
example : (match (OA.new .quad {} : Outcome (OATable Bytes Int)) with
    | .ok t0 => run (OA.impl idShuffle forString (fun a b => a == b)) ⟨t0, t0, ()⟩
        [.put false [] 1, .put false [97] 2, .get false [], .put false [] 3, .size false, .get false []]
    | _ => []) =
    [.ok .unit, .ok .unit, .ok (.val (some 1)), .ok .unit, .ok (.int 2), .ok (.val (some 3))] := by
  decide

end NonVacuity

/-! ## the arithmetic helpers of the hash tables, GENERATED from `symboltable/hash_table.go`

`AlgoVerif.Generated.HashHelp.*` (file `Generated/C02Gen.lean`) is produced from `/repo/symboltable/hash_table.go` by
the translator `/verif/extract/go2lean` on every run of this check (`bin/pre-C02`; scheme, subset and what is
trusted: header of `extract/go2lean/main.go`): `gcd` over `UInt64`, the others over the unbounded `Int`, each loop with
the caller's fuel.  The capacity checks (`isPowerOf2`, `isPrime`), the second hash of double hashing (`gcd`,
`largestPrimeSmallerThan`) and the rehash sizes (`smallestPrimeLargerThan`) of the Model are these functions.  The
statements: on the natural numbers, with at least the stated fuel, the generated definition returns the hand Model's
value — and hence the mathematical one.  (The three open-addressing table files are outside the translator's subset:
closures with mutable captured state, `float32`, `Put` ↔ `resize` mutual recursion, range-over-func iterators.) -/

open AlgoVerif.Generated AlgoVerif.C02.Gen

theorem C02_generated_gcd_refines (a b : UInt64) (fuel : Nat) (hf : min a.toNat b.toNat + 1 ≤ fuel) :
    (HashHelp.gcd fuel a b).map UInt64.toNat = .ok (gcdGo a.toNat b.toNat) := gcd_eq a b fuel hf

/-- the generated `gcd` computes the greatest common divisor -/
theorem C02_generated_gcd (a b : UInt64) (fuel : Nat) (hf : min a.toNat b.toNat + 1 ≤ fuel) :
    (HashHelp.gcd fuel a b).map UInt64.toNat = .ok (Nat.gcd a.toNat b.toNat) := by
  rw [C02_generated_gcd_refines a b fuel hf, gcdGo_eq]

example : (HashHelp.gcd 13 12 18).map UInt64.toNat = .ok 6 := by decide

theorem C02_generated_isPowerOf2_refines (n : Nat) (hn : n < 2 ^ 63) :
    HashHelp.isPowerOf2 (n : Int) = C02.isPowerOf2 n := isPowerOf2_eq n hn

example : HashHelp.isPowerOf2 32 = true ∧ HashHelp.isPowerOf2 48 = false := by decide

theorem C02_generated_isPrime_refines (n fuel : Nat) (hf : n + 1 ≤ fuel) :
    HashHelp.isPrime fuel (n : Int) = .ok (C02.isPrime n) := isPrime_eq n fuel hf

/-- the generated `isPrime` decides primality -/
theorem C02_generated_isPrime (n fuel : Nat) (hf : n + 1 ≤ fuel) :
    ∃ b, HashHelp.isPrime fuel (n : Int) = .ok b ∧ (b = true ↔ Nat.Prime n) :=
  ⟨_, C02_generated_isPrime_refines n fuel hf, isPrime_correct n⟩

example : HashHelp.isPrime 132 131 = .ok true ∧ HashHelp.isPrime 134 133 = .ok false := by decide

theorem C02_generated_largestPrimeSmallerThan_refines (n fuel : Nat) (hf : n + 1 ≤ fuel) :
    HashHelp.largestPrimeSmallerThan fuel (n : Int) = .ok (C02.largestPrimeSmallerThan n) := largestPrime_eq n fuel hf

theorem C02_generated_smallestPrimeLargerThan_refines (n fuel : Nat) (hf : 2 * n + 3 ≤ fuel) :
    (C02.smallestPrimeLargerThan n).map (fun q => ((q : Nat) : Int)) = .diverge ∨
      (C02.smallestPrimeLargerThan n).map (fun q => ((q : Nat) : Int)) = HashHelp.smallestPrimeLargerThan fuel (n : Int) :=
  smallestPrime_le n fuel hf

/-- the generated `smallestPrimeLargerThan` terminates with a prime in `[n, 2n]` (Bertrand's postulate) -/
theorem C02_generated_smallestPrimeLargerThan (n fuel : Nat) (hn : 1 ≤ n) (hf : 2 * n + 3 ≤ fuel) :
    ∃ r : Nat, HashHelp.smallestPrimeLargerThan fuel (n : Int) = .ok (r : Int) ∧ Nat.Prime r ∧ n ≤ r ∧ r ≤ 2 * n := by
  obtain ⟨r, h, hp, h1, h2⟩ := smallestPrimeLargerThan_terminates n hn
  refine ⟨r, ?_, hp, h1, h2⟩
  exact Outcome.le.ok (C02_generated_smallestPrimeLargerThan_refines n fuel hf) (by simp [h])

example : HashHelp.smallestPrimeLargerThan 67 32 = .ok 37 := by decide

/-! ## the GENERATED `probe` / `Get` of `symboltable/linear_hash_table.go` (`Generated/C02LinGen.lean`)

`probe`'s closure is converted by the translator into the record of its captured variables (`M, h1, i, next`) and the
method `call` (extract/go2lean/closure.go); `Gen.ofLin` reads a table of the hand Model as the generated struct (entries as
`Option (KeyValue K V)`, `eqKey` = equality; the hash function, `eqVal` and the two float32 load factors are arbitrary),
`Gen.EnvOK m h j env`: the environment after `j` calls.  Helper lemmas: `Proofs/C02LinGen.lean`. -/

/-- the probe sequence: `probe(key)` starts the environment at 0 calls, and the `j`-th call of the closure returns the hand
Model's `Lin.probeIdx m h j` (`h & (M-1)` first, then `(h1 + j) % M`, computed on 64-bit words and converted to `int`),
for every table size `0 < m < 2^32` and every `j < 2^32`. -/
theorem C02_generated_linear_probe {K V : Type} [DecidableEq K] [Inhabited K] [Inhabited V]
    (hash : K → UInt64) (eqVal : V → V → Bool) (a b : Go.F32) (t : LinTable K V) (key : K)
    (hm0 : 0 < t.m) (hm : t.m < 2 ^ 32) :
    EnvOK t.m (mix (hash key)) 0 (LinHT.linearHashTable.probe (ofLin hash eqVal a b t) key) ∧
    ∀ (j : Nat) (env : LinHT.linearHashTable_probeEnv), EnvOK t.m (mix (hash key)) j env → j < 2 ^ 32 →
      ∃ env', LinHT.linearHashTable_probeEnv.call env = .ok (env', ((Lin.probeIdx t.m (mix (hash key)) j : Nat) : Int)) ∧
        EnvOK t.m (mix (hash key)) (j + 1) env' :=
  ⟨probe_ok hash eqVal a b t key hm0 hm, fun j env he hj => call_ok t.m _ j env he hm0 hm hj⟩

/-- `Get(key)`: with fuel `m` (one unit per inspected slot, as the hand Model has it) the generated function returns
exactly what the hand Model's `Lin.get` returns — `(v, true)` for `some v`, `(zero, false)` for `none`, the same panic
for a probe outside `entries`, the same `diverge` when `m` probes meet no nil slot. -/
theorem C02_generated_linear_get {K V : Type} [DecidableEq K] [Inhabited K] [Inhabited V]
    (hash : K → UInt64) (eqVal : V → V → Bool) (a b : Go.F32) (t : LinTable K V) (key : K)
    (hm0 : 0 < t.m) (hm : t.m < 2 ^ 32) :
    LinHT.linearHashTable.Get t.m (ofLin hash eqVal a b t) key = (Lin.get hash t key).map pairOf :=
  Get_eq hash eqVal a b t key hm0 hm

/-- `Size()` and `IsEmpty()` read the counter `n`. -/
theorem C02_generated_linear_size {K V : Type} [DecidableEq K] [Inhabited K] [Inhabited V]
    (hash : K → UInt64) (eqVal : V → V → Bool) (a b : Go.F32) (t : LinTable K V) :
    LinHT.linearHashTable.Size (ofLin hash eqVal a b t) = t.n ∧
    LinHT.linearHashTable.IsEmpty (ofLin hash eqVal a b t) = (t.n == 0) := ⟨rfl, rfl⟩

-- the hypotheses hold of every table the constructor builds with a capacity below 2^32; the generated `Get` on the table
-- of capacity 4 holding 6 ↦ 60 at slot 2 (hash = identity on `Nat` keys): found at the first probe of key 6
example : (LinHT.linearHashTable.Get 4 (ofLin (V := Nat) (fun k : Nat => UInt64.ofNat k) (· == ·) ⟨0⟩ ⟨0⟩
    ⟨#[none, none, some (6, 60), none], 4, 1, ⟨1, 8⟩, ⟨1, 2⟩⟩) 6) = .ok (60, true) :=
  (C02_generated_linear_get (fun k : Nat => UInt64.ofNat k) (· == ·) ⟨0⟩ ⟨0⟩
    (⟨#[none, none, some (6, 60), none], 4, 1, ⟨1, 8⟩, ⟨1, 2⟩⟩ : LinTable Nat Nat) 6 (by decide) (by decide)).trans (by decide)
