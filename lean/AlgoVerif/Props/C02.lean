import AlgoVerif.Proofs.C02Chain
import AlgoVerif.Proofs.C02OA
import AlgoVerif.Proofs.C02LinDel
/-!
# C02 — the hash tables behave as a map for any hash function, options and history

`run I ⟨t0, t0, g⟩ ops` is the trace of a history on two tables built by the constructor with the same
options (every operation names its table; `equal` compares the two), `Spec.run` is the trace of the
same history on two finite maps, `Agree` says: same length, every Model operation returned `ok` (no
`panic`, no `diverge`) with the Spec's output (listings of `All` as multisets).

Quantified: the key type (with decidable equality), the value type, `eqVal`, the hash function
`hash : K → UInt64` (arbitrary), the shuffle `sh` and its generator state (any function returning
permutations of `[0,n)`), valid options (what the constructor accepts, load-factor bounds default or
tighter: `dmin ≤ minLF < maxLF ≤ dmax`), and the history.

Helper lemmas: `Proofs/C02Lists`, `C02Num`, `C02Sim` (generic refinement), `C02Chain`, `C02OA`, `C02Lin`,
`C02LinDel` (the cluster re-insertion loop of linear probing's `Delete`).
-/
open AlgoVerif AlgoVerif.C02

/-- separate chaining (`chain_hash_table.go`) -/
theorem C02_chain {K V σ : Type} [DecidableEq K] (hash : K → UInt64) (sh : Shuffle σ) (hsh : ShufflePerm sh)
    (eqVal : V → V → Bool) (opts : Opts) (hv : Chain.ValidOpts opts) (g : σ) (ops : List (Op K V)) :
    ∃ t0 : ChainTable K V, Chain.new opts = .ok t0 ∧
      Agree (run (Chain.impl sh hash eqVal) ⟨t0, t0, g⟩ ops) (Spec.run eqVal ⟨[], []⟩ ops) := by
  obtain ⟨t0, hnew, hinv, hempty⟩ := Chain.init_spec (V := V) hash opts hv
  have hrel : Rel (Chain.Inv hash) Chain.Live t0 ([] : Spec.Map K V) :=
    ⟨hinv, Spec.nodupKeys_nil, fun k v => by simp [hempty k v]⟩
  exact ⟨t0, hnew, sim (Chain.correct hsh hash eqVal) ops ⟨t0, t0, g⟩ ⟨[], []⟩ (Or.inl trivial) hrel hrel⟩

/-- linear probing (`linear_hash_table.go`), including `Delete` with re-insertion of the cluster -/
theorem C02_linear {K V σ : Type} [DecidableEq K] (hash : K → UInt64) (sh : Shuffle σ) (hsh : ShufflePerm sh)
    (eqVal : V → V → Bool) (opts : Opts) (hv : Lin.ValidOpts opts) (g : σ) (ops : List (Op K V)) :
    ∃ t0 : LinTable K V, Lin.new opts = .ok t0 ∧
      Agree (run (Lin.impl sh hash eqVal) ⟨t0, t0, g⟩ ops) (Spec.run eqVal ⟨[], []⟩ ops) := by
  obtain ⟨t0, hnew, hinv, hempty⟩ := Lin.init_spec (V := V) hash opts hv
  have hrel : Rel (Lin.Inv hash) Lin.Live t0 ([] : Spec.Map K V) :=
    ⟨hinv, Spec.nodupKeys_nil, fun k v => by simp [hempty k v]⟩
  exact ⟨t0, hnew, sim (Lin.correct hsh hash eqVal) ops ⟨t0, t0, g⟩ ⟨[], []⟩ (Or.inl trivial) hrel hrel⟩

/-- quadratic probing (`quadratic_hash_table.go`) -/
theorem C02_quadratic {K V σ : Type} [DecidableEq K] (hash : K → UInt64) (sh : Shuffle σ) (hsh : ShufflePerm sh)
    (eqVal : V → V → Bool) (opts : Opts) (hv : OA.ValidOpts .quad opts) (g : σ) (ops : List (Op K V)) :
    ∃ t0 : OATable K V, OA.new .quad opts = .ok t0 ∧
      Agree (run (OA.impl sh hash eqVal) ⟨t0, t0, g⟩ ops) (Spec.run eqVal ⟨[], []⟩ ops) := by
  obtain ⟨t0, hnew, hinv, hempty⟩ := OA.init_spec (V := V) hash .quad opts hv
  have hrel : Rel (OA.Inv hash) OA.Live t0 ([] : Spec.Map K V) :=
    ⟨hinv, Spec.nodupKeys_nil, fun k v => by simp [hempty k v]⟩
  exact ⟨t0, hnew, sim (OA.correct hsh hash eqVal) ops ⟨t0, t0, g⟩ ⟨[], []⟩ (Or.inl trivial) hrel hrel⟩

/-- double hashing (`double_hash_table.go`) -/
theorem C02_double {K V σ : Type} [DecidableEq K] (hash : K → UInt64) (sh : Shuffle σ) (hsh : ShufflePerm sh)
    (eqVal : V → V → Bool) (opts : Opts) (hv : OA.ValidOpts .dbl opts) (g : σ) (ops : List (Op K V)) :
    ∃ t0 : OATable K V, OA.new .dbl opts = .ok t0 ∧
      Agree (run (OA.impl sh hash eqVal) ⟨t0, t0, g⟩ ops) (Spec.run eqVal ⟨[], []⟩ ops) := by
  obtain ⟨t0, hnew, hinv, hempty⟩ := OA.init_spec (V := V) hash .dbl opts hv
  have hrel : Rel (OA.Inv hash) OA.Live t0 ([] : Spec.Map K V) :=
    ⟨hinv, Spec.nodupKeys_nil, fun k v => by simp [hempty k v]⟩
  exact ⟨t0, hnew, sim (OA.correct hsh hash eqVal) ops ⟨t0, t0, g⟩ ⟨[], []⟩ (Or.inl trivial) hrel hrel⟩

/-! ## the hypotheses are satisfiable, on non-trivial states -/
section NonVacuity

/-- the identity shuffle is a shuffle -/
def idShuffle : Shuffle Unit := fun g n => (List.range n, g)

example : ShufflePerm idShuffle := fun _ _ => List.Perm.refl _

/-- default options and tighter explicit ones are valid -/
example : OA.ValidOpts .quad {} := ⟨Or.inl rfl, by constructor <;> decide⟩
example : OA.ValidOpts .dbl ⟨61, ⟨1, 4⟩, ⟨3, 8⟩⟩ := ⟨Or.inr (by decide), by constructor <;> decide⟩
example : Chain.ValidOpts ⟨8, ⟨3, 1⟩, ⟨5, 1⟩⟩ := ⟨Or.inr (by decide), by constructor <;> decide⟩
example : Lin.ValidOpts ⟨64, ⟨3, 8⟩, ⟨7, 16⟩⟩ := ⟨Or.inr (by decide), by constructor <;> decide⟩

/-- linear probing, constant hash: a cluster of four keys; deleting the first one moves the other three
back by one slot each (the re-insertion loop), and every key is still found. -/
example : (match (Lin.new {} : Outcome (LinTable Int Int)) with
    | .ok t0 => run (Lin.impl idShuffle (fun _ => 5) (fun a b => a == b)) ⟨t0, t0, ()⟩
        [.put false 1 10, .put false 2 20, .put false 3 30, .put false 4 40, .delete false 1,
         .get false 4, .get false 1, .size false, .all false]
    | _ => []) =
    [.ok .unit, .ok .unit, .ok .unit, .ok .unit, .ok (.val (some 10)),
     .ok (.val (some 40)), .ok (.val none), .ok (.int 3), .ok (.list [(2, 20), (3, 30), (4, 40)])] := by
  decide

/-- D2's witness on the Model as it is now, with a constant hash function: colliding keys, a tombstone
that is revived, and the count is right (before the fix the last output was 1). -/
example : (match (OA.new .quad {} : Outcome (OATable Int Int)) with
    | .ok t0 => run (OA.impl idShuffle (fun _ => 5) (fun a b => a == b)) ⟨t0, t0, ()⟩
        [.put false 1 10, .put false 2 20, .delete false 1, .put false 1 11, .size false, .get false 1]
    | _ => []) =
    [.ok .unit, .ok .unit, .ok (.val (some 10)), .ok .unit, .ok (.int 2), .ok (.val (some 11))] := by
  decide

end NonVacuity
