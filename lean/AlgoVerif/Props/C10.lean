import AlgoVerif.Common
/-! # C10 — property theorems (none yet) -/
