import AlgoVerif.Proofs.C10Main
import AlgoVerif.Proofs.C10Term
import AlgoVerif.Proofs.C10TableEq
import AlgoVerif.Proofs.C10Ext
import AlgoVerif.Proofs.C10Edit
/-!
# C10 — FIRST, FOLLOW and nullable are exact; the LL(1) verdict matches the predictive table

Model: `Model/C10.lean` (the three fixpoint loops of `grammar/cfg.go` with their `updated` logic, the
FIRST closure for strings, `IsLL1`'s pairwise conditions, `predictive.BuildParsingTable` as the sequence of
`addProduction` / `setSync` calls the code makes — `buildTable` — whose cells are the lists `cell g fi fo A a`
and whose `Conflicts()` is `conflicts g fi fo`, see `C10_table_built_is_cells`).
Spec: `Spec/C10.lean` (`Derives` of `Model/GrammarCore.lean`; sentential forms).

Every statement is for ALL grammars (`T`, `N` arbitrary types with decidable equality), ALL symbol
strings, and EVERY iteration order: `IterOrder.Fair` only asks that each `range` over a table or set
visits every element (in any order, which may differ from pass to pass and from head to head).
The hypotheses `… = .ok r` say that the loop returned; `C10_fixpoints_terminate` shows that on every
grammar that passes `Verify()` they do (the Model's `fixFuel g` passes always suffice, i.e. the Go loops
terminate), so the hypotheses are never vacuous.

Proof pattern (helper lemmas in `Proofs/C10*.lean`): the returned family is *closed* under the rules
because the last pass changed nothing, and *below every closed family* because each step only adds what
the rules force; the Spec's family is closed (by building derivations) and below every closed family (by
induction on the length of a derivation).
-/
open AlgoVerif AlgoVerif.Gram AlgoVerif.C10

section
variable {T N : Type} [DecidableEq T] [DecidableEq N]

/-- `NullableNonTerminals` returns exactly the non-terminals that derive ε. -/
theorem C10_nullable_exact (g : Grammar T N) (o : IterOrder T N) (ho : o.Fair) (R : List N)
    (h : nullable g o = .ok R) (A : N) : A ∈ R ↔ Spec.Nullable g A :=
  nullable_exact ho h A

/-- `FIRST(α)` holds exactly the terminals that can begin a sentential form derived from `α`, and the
empty marker iff `α ⇒* ε`. -/
theorem C10_first_exact (g : Grammar T N) (o : IterOrder T N) (ho : o.Fair) (fi : N → TE T)
    (h : computeFirst g o = .ok fi) (α : List (Sym T N)) :
    (∀ a, a ∈ (firstStr fi α).terms ↔ Spec.First g α a) ∧ ((firstStr fi α).eps = true ↔ Spec.Eps g α) :=
  ⟨fun a => first_exact_terms ho h α a, first_exact_eps ho h α⟩

/-- When every non-terminal is reachable, `FOLLOW(A)` holds exactly the terminals that can appear
immediately after `A` in a sentential form derived from the start symbol, and the endmarker iff `A` can
end one. -/
theorem C10_follow_exact (g : Grammar T N) (o₁ o₂ : IterOrder T N) (h₁ : o₁.Fair) (h₂ : o₂.Fair)
    (hv : validB g = true) (hreach : Spec.AllReachable g) (an : Analysis T N)
    (h : analyse g o₁ o₂ = .ok an) (A : N) :
    (∀ a, a ∈ (an.follow A).terms ↔ Spec.Follow g A a) ∧
    ((an.follow A).endm = true ↔ Spec.FollowEnd g A) :=
  follow_exact h₁ h₂ hv hreach h A

/-- Without any reachability assumption FOLLOW is still complete: whatever follows `A` in a sentential
form is in the set (the converse needs `A`'s occurrences to be reachable). -/
theorem C10_follow_complete (g : Grammar T N) (o₁ o₂ : IterOrder T N) (h₁ : o₁.Fair) (h₂ : o₂.Fair)
    (an : Analysis T N) (h : analyse g o₁ o₂ = .ok an) (A : N) :
    (∀ a, Spec.Follow g A a → a ∈ (an.follow A).terms) ∧ (Spec.FollowEnd g A → (an.follow A).endm = true) :=
  follow_complete h₁ h₂ h A

/-- The sets do not depend on the iteration order: two runs agree on every FIRST(α) and FOLLOW(A). -/
theorem C10_order_irrelevant (g : Grammar T N) (o₁ o₂ o₃ o₄ : IterOrder T N)
    (h₁ : o₁.Fair) (h₂ : o₂.Fair) (h₃ : o₃.Fair) (h₄ : o₄.Fair) (an an' : Analysis T N)
    (h : analyse g o₁ o₂ = .ok an) (h' : analyse g o₃ o₄ = .ok an') :
    SameSets (firstStr an.first) (firstStr an'.first) an.follow an'.follow :=
  analyse_sameSets h₁ h₂ h₃ h₄ h h'

/-- The three "until nothing changed" loops return, for every grammar that passes `Verify()` and every
iteration order: a pass that reports `updated` adds a member to one of `|N|` sets of terminals or raises
one of `|N|` flags, and nothing is ever removed. -/
theorem C10_fixpoints_terminate (g : Grammar T N) (hv : validB g = true) (o₁ o₂ : IterOrder T N)
    (h₁ : o₁.Fair) (h₂ : o₂.Fair) :
    (∃ R, nullable g o₁ = .ok R) ∧ (∃ an, analyse g o₁ o₂ = .ok an) :=
  ⟨nullable_terminates hv h₁, analyse_terminates hv h₁ h₂⟩

/-- **The table built call by call has the cells the theorems below talk about.**  For a duplicate-free
production list (what `G.Productions` is), whatever the order of the rows: every cell of `buildTable` is the
list `cell g fi fo A a` — the productions that belong into `M[A,a]`, each once, in the order of the
production list — and `Conflicts()` over the declared rows and columns is `conflicts g fi fo`; emptiness of
`Conflicts()` does not depend on the order in which rows and columns are visited. -/
theorem C10_table_built_is_cells (g : Grammar T N) (hnd : g.prods.Nodup) (fi : List (Sym T N) → TE T)
    (fo : N → TEnd T) (rows : List N) :
    tcell (buildTable fi fo g.prods rows) = cell g fi fo ∧
    tconflicts (buildTable fi fo g.prods rows) g.nonterms (columns g) = conflicts g fi fo ∧
    ∀ (rows' : List N) (cols' : List (Option T)), (∀ A, A ∈ g.nonterms ↔ A ∈ rows') →
      (∀ c, c ∈ columns g ↔ c ∈ cols') →
      (tconflicts (buildTable fi fo g.prods rows) rows' cols' = [] ↔ conflicts g fi fo = []) := by
  refine ⟨tcell_eq_cell hnd fi fo rows, tconflicts_eq hnd fi fo rows, ?_⟩
  intro rows' cols' hr hc
  rw [← tconflicts_eq hnd fi fo rows]
  exact (tconflicts_nil_iff _ hr hc).symm

/-- A conflict in the predictive parsing table (built from one run of FIRST/FOLLOW) always comes with an
`IsLL1` error (which runs FIRST/FOLLOW again, in another order). -/
theorem C10_conflict_implies_ll1_error (g : Grammar T N) (hnd : g.prods.Nodup)
    (o₁ o₂ o₃ o₄ : IterOrder T N) (h₁ : o₁.Fair) (h₂ : o₂.Fair) (h₃ : o₃.Fair) (h₄ : o₄.Fair)
    (anT anL : Analysis T N) (hT : analyse g o₁ o₂ = .ok anT) (hL : analyse g o₃ o₄ = .ok anL)
    (hc : conflicts g (firstStr anT.first) anT.follow ≠ []) :
    ll1Errors g (firstStr anL.first) anL.follow ≠ [] := by
  have s := analyse_sameSets h₁ h₂ h₃ h₄ hT hL
  exact (ll1Errors_ne_nil_iff hnd).2 (s.ll1Bad.1 (conflict_ll1Bad ((conflicts_ne_nil_iff hnd).1 hc)))

/-- For grammars whose non-terminals are all reachable and productive, `IsLL1` reports no error exactly
when the table has at most one production per cell. -/
theorem C10_ll1_iff_conflict_free (g : Grammar T N) (hv : validB g = true) (hnd : g.prods.Nodup)
    (hreach : Spec.AllReachable g) (hprod : Spec.AllProductive g)
    (o₁ o₂ o₃ o₄ : IterOrder T N) (h₁ : o₁.Fair) (h₂ : o₂.Fair) (h₃ : o₃.Fair) (h₄ : o₄.Fair)
    (anT anL : Analysis T N) (hT : analyse g o₁ o₂ = .ok anT) (hL : analyse g o₃ o₄ = .ok anL) :
    ll1Errors g (firstStr anL.first) anL.follow = [] ↔ conflicts g (firstStr anT.first) anT.follow = [] := by
  have s := analyse_sameSets h₁ h₂ h₃ h₄ hT hL
  constructor
  · intro hl
    apply Classical.byContradiction
    intro hc
    exact C10_conflict_implies_ll1_error g hnd o₁ o₂ o₃ o₄ h₁ h₂ h₃ h₄ anT anL hT hL hc hl
  · intro hc
    apply Classical.byContradiction
    intro hl
    have hbad := s.ll1Bad.2 ((ll1Errors_ne_nil_iff hnd).1 hl)
    exact (conflicts_ne_nil_iff hnd).2 (ll1Bad_conflict h₁ h₂ hv hreach hprod hT hbad) hc

/-! ### what the statements above take for granted: `Verify()`, no nil dereference, the memo table, the accessors -/

/-- `Verify()` returns nil (`validB`) exactly when the list of errors it collects (`verifyErrors`, compared with
the implementation's on every malformed grammar the generators produce) is empty. -/
theorem C10_verify_errors_iff_valid (g : Grammar T N) : verifyErrors g = [] ↔ validB g = true :=
  verifyErrors_nil_iff g

/-- **On a grammar that passes `Verify()` no table lookup of `NullableNonTerminals`, `ComputeFIRST`,
`ComputeFOLLOW` misses**: the Model of the three functions on arbitrary grammars (`nullableP`, `analyseP`, which
answer `panic` where the Go code dereferences the nil result of a lookup — corresponded on malformed grammars)
coincides with the Model the theorems above are about, for every iteration order. -/
theorem C10_valid_grammar_never_panics (g : Grammar T N) (hv : validB g = true) (o₁ o₂ : IterOrder T N)
    (h₁ : o₁.Fair) (h₂ : o₂.Fair) :
    analyseP g o₁ o₂ = analyse g o₁ o₂ ∧ nullableP g o₁ = nullable g o₁ ∧ ∃ an, analyseP g o₁ o₂ = .ok an := by
  refine ⟨analyseP_eq_analyse hv h₁ h₂, nullableP_eq_nullable hv h₁, ?_⟩
  rw [analyseP_eq_analyse hv h₁ h₂]
  exact analyse_terminates hv h₁ h₂

/-- **The memo table of the FIRST closure is transparent**: as long as the closure is called with declared
symbols only, every call — computed or answered from the table — returns `firstStr fi α`, the value
`C10_first_exact` is about, and the table stays good.  (A call that reaches an undeclared symbol panics and leaves
its partial value in the table; `firstCall` models that too, and the correspondence exercises it.) -/
theorem C10_first_memo_transparent (g : Grammar T N) (fi : N → TE T) (memo : FirstMemo T N)
    (α : List (Sym T N)) (hm : MemoGood fi memo) (hα : ∀ X, X ∈ α → symDeclared g X = true) :
    (firstCall g fi memo α).1 = .ok (firstStr fi α) ∧ MemoGood fi (firstCall g fi memo α).2 :=
  firstCall_good g fi memo α hm hα

/-- **No history of calls changes an answer.**  One FIRST closure (one memo table, empty when `ComputeFIRST` returns it)
is called with ANY sequence of strings `qs` — declared symbols or not, so calls that panic and leave a partial value in
the table are included: there is one answer per call, and every call whose string consists of declared symbols is
answered with `firstStr fi α`, the value `C10_first_exact` is about, whatever was asked before it.  (The memo table is
keyed by the string of symbols itself; two different strings never share an entry.) -/
theorem C10_first_memo_any_history (g : Grammar T N) (fi : N → TE T) (qs : List (List (Sym T N))) :
    (firstCalls g fi [] qs).1.length = qs.length ∧
    ∀ p, p ∈ qs.zip (firstCalls g fi [] qs).1 → (∀ X, X ∈ p.1 → symDeclared g X = true) →
      p.2 = .ok (firstStr fi p.1) :=
  ⟨firstCalls_length g fi qs [], (firstCalls_good g fi qs [] (fun _ _ h => by cases h)).2⟩

/-- **The memoising closure serves the analyses as the pure function does.**  `ComputeFOLLOW` asks the closure for the
rests `β` of bodies `A → α B β`, `IsLL1` and `BuildParsingTable` for whole bodies — all of them pieces of production
bodies, asked of ONE closure in an order that depends on the iteration order.  On a grammar that passes `Verify()`, for
every such history and every state of the table that earlier calls of this kind (or any other calls) have left, the
answers are `firstStr fi` of the strings, one by one: which is why the Model of the three functions calls `firstStr fi`
where the Go code calls the closure. -/
theorem C10_first_memo_serves_analyses (g : Grammar T N) (hv : validB g = true) (fi : N → TE T)
    (before qs : List (List (Sym T N)))
    (hq : ∀ s, s ∈ qs → ∃ p, p ∈ g.prods ∧ ∃ pre suf, p.body = pre ++ s ++ suf) :
    (firstCalls g fi (firstCalls g fi [] before).2 qs).1 = qs.map (fun s => .ok (firstStr fi s)) := by
  apply firstCalls_declared g fi qs _ (firstCalls_good g fi before [] (fun _ _ h => by cases h)).1
  intro s hs
  obtain ⟨p, hp, pre, suf, hb⟩ := hq s hs
  exact infix_declared hv hp hb

/-- **Every way of editing a grammar object in place keeps it a set grammar.**  `Edit` lists the ways the API lets a
caller change a `*CFG` (`Productions.Add / Remove / RemoveAll`, `Add` / `Remove` on the set `Productions.Get` returns or
`AllByHead` yields, the `Body` of a `*Production` inside the grammar assigned or written into, `Terminals` /
`NonTerminals` `Add` / `Remove`, `Start` assigned, a field replaced by its clone).  The Go code keeps nothing between two
calls, so a query on the edited object is the query on `applyEdits g es`, to which all theorems above apply; in
particular the hypothesis `g.prods.Nodup` of the IsLL1 / table theorems holds after every history of edits of a grammar
that `NewCFG` made. -/
theorem C10_edits_keep_sets (g : Grammar T N) (h : IsSetGrammar g) (es : List (Edit T N)) :
    IsSetGrammar (applyEdits g es) ∧ (applyEdits g es).prods.Nodup :=
  ⟨applyEdits_isSet es g h, (applyEdits_isSet es g h).2.2⟩

/-- **`IsEmpty` and `GetProduction` read the cells**: on the table `BuildParsingTable` builds for a duplicate-free
production list, `IsEmpty(A,a)` says whether `cell g fi fo A a` is empty and `GetProduction(A,a)` returns its
production exactly when it holds one. -/
theorem C10_accessors_read_cells (g : Grammar T N) (hnd : g.prods.Nodup) (fi : List (Sym T N) → TE T)
    (fo : N → TEnd T) (rows : List N) (A : N) (a : Option T) :
    (cellInfo (buildTable fi fo g.prods rows) A a).1 = (cell g fi fo A a).isEmpty ∧
    (cellInfo (buildTable fi fo g.prods rows) A a).2.2 = (match cell g fi fo A a with
      | [p] => some p
      | _ => none) := by
  rw [cellInfo_isEmpty, cellInfo_getProduction, tcell_eq_cell hnd]
  exact ⟨rfl, rfl⟩

end

/-! ## the hypotheses are satisfiable on a non-trivial grammar

`S → a A b`, `A → ε | a A | B`, `B → A` (an ε-chain with a unit cycle), terminals `0 = a`, `1 = b`,
non-terminals `0 = S`, `1 = A`, `2 = B`. -/

def C10ex : Grammar Nat Nat :=
  { terms := [0, 1], nonterms := [0, 1, 2], start := 0,
    prods := [⟨0, [.term 0, .nonterm 1, .term 1]⟩, ⟨1, []⟩, ⟨1, [.term 0, .nonterm 1]⟩,
              ⟨1, [.nonterm 2]⟩, ⟨2, [.nonterm 1]⟩] }

/-- an order that reverses every list, differently from the canonical one -/
def C10revOrder : IterOrder Nat Nat := ⟨fun _ l => l.reverse, fun _ l => l.reverse⟩

example : (IterOrder.canon : IterOrder Nat Nat).Fair := ⟨fun _ _ _ => Iff.rfl, fun _ _ _ => Iff.rfl⟩
example : C10revOrder.Fair := ⟨fun _ _ _ => List.mem_reverse, fun _ _ _ => List.mem_reverse⟩

example : nullable C10ex IterOrder.canon = .ok [1, 2] := by decide
example : nullable C10ex C10revOrder = .ok [1, 2] := by decide
example : validB C10ex = true := by decide
example : C10ex.prods.Nodup := by decide

example : ∃ an, analyse C10ex IterOrder.canon C10revOrder = .ok an ∧
    (firstStr an.first [.nonterm 1, .term 1]).terms = [0, 1] ∧ (firstStr an.first [.nonterm 2]).eps = true ∧
    (an.follow 2).terms = [1] ∧ (an.follow 0).endm = true ∧
    ll1Errors C10ex (firstStr an.first) an.follow ≠ [] ∧
    conflicts C10ex (firstStr an.first) an.follow ≠ [] := by
  refine ⟨_, rfl, ?_, ?_, ?_, ?_, ?_, ?_⟩ <;> decide

example : Spec.AllReachable C10ex := by
  intro A hA
  have hS : C10ex.start = 0 := rfl
  have step1 : Derives C10ex [Sym.nonterm 0] [.term 0, .nonterm 1, .term 1] :=
    Derives.of_prod (p := ⟨0, [.term 0, .nonterm 1, .term 1]⟩) (by decide)
  have step2 : Derives C10ex [Sym.nonterm 1] [.nonterm 2] :=
    Derives.of_prod (p := ⟨1, [.nonterm 2]⟩) (by decide)
  simp [C10ex] at hA
  rcases hA with rfl | rfl | rfl
  · exact ⟨[], [], Derives.refl _⟩
  · exact ⟨[.term 0], [.term 1], step1⟩
  · refine ⟨[.term 0], [.term 1], step1.trans ?_⟩
    have := (step2.append_left [Sym.term 0]).append_right [Sym.term 1]
    simpa using this

example : Spec.AllProductive C10ex := by
  have hA : Derives C10ex [Sym.nonterm 1] [] := Derives.of_prod (p := ⟨1, []⟩) (by decide)
  have hB : Derives C10ex [Sym.nonterm 2] [] :=
    (Derives.of_prod (p := ⟨2, [.nonterm 1]⟩) (by decide)).trans hA
  have hS : Derives C10ex [Sym.nonterm 0] [.term 0, .term 1] := by
    refine (Derives.of_prod (p := ⟨0, [.term 0, .nonterm 1, .term 1]⟩) (by decide)).trans ?_
    have := (hA.append_left [Sym.term 0]).append_right [Sym.term 1]
    simpa using this
  intro A hA'
  simp [C10ex] at hA'
  rcases hA' with rfl | rfl | rfl
  · exact ⟨[0, 1], hS⟩
  · exact ⟨[], hA⟩
  · exact ⟨[], hB⟩


/-- edits of every kind on `C10ex`: it stays a set grammar; `setBody` on a production that is not there, or towards one
that is there already, changes nothing; `getAdd` on a head without productions changes nothing -/
example : IsSetGrammar C10ex ∧
    (applyEdits C10ex [.getAdd ⟨2, [.term 1]⟩, .setBody ⟨1, [.nonterm 2]⟩ [.term 1, .nonterm 2], .removeAll 0,
      .addNonterm 3, .removeTerm 0, .addTerm 5, .getRemove ⟨1, []⟩, .refresh]).prods
      = [⟨1, [.term 0, .nonterm 1]⟩, ⟨1, [.term 1, .nonterm 2]⟩, ⟨2, [.nonterm 1]⟩, ⟨2, [.term 1]⟩] ∧
    applyEdit C10ex (.setBody ⟨1, [.nonterm 2]⟩ []) = C10ex ∧
    applyEdit C10ex (.setBody ⟨1, [.term 7]⟩ [.term 8]) = C10ex ∧
    (applyEdit C10ex (.getAdd ⟨7, []⟩)).prods = C10ex.prods :=
  ⟨⟨by decide, by decide, by decide⟩, by decide, rfl, rfl, rfl⟩

/-! ### the second part on examples -/

/-- a malformed grammar: start symbol `7` undeclared, non-terminal `2` without production, head `5` undeclared,
terminal `9` and non-terminal `8` undeclared in a body -/
def C10bad : Grammar Nat Nat :=
  { terms := [0, 1], nonterms := [0, 1, 2], start := 7,
    prods := [⟨0, [.term 0, .nonterm 1, .term 9]⟩, ⟨1, []⟩, ⟨5, [.nonterm 8]⟩] }

example : verifyErrors C10bad =
    [.startUndeclared, .noStartProd, .noProd 2, .termUndeclared 9, .headUndeclared 5, .nontermUndeclared 8] := by decide
example : validB C10bad = false := by decide
/-- `ComputeFIRST` dereferences nil on it (the undeclared head) -/
example : analyseP C10bad IterOrder.canon IterOrder.canon = .panic := rfl
/-- `S → a A z`, `A → ε` with `z` undeclared: `ComputeFIRST` returns (it stops at `a`), `ComputeFOLLOW` asks the
closure for FIRST(`z`) and panics -/
def C10bad2 : Grammar Nat Nat :=
  { terms := [0], nonterms := [0, 1], start := 0, prods := [⟨0, [.term 0, .nonterm 1, .term 9]⟩, ⟨1, []⟩] }
example : (∃ fi, computeFirstP C10bad2 IterOrder.canon = .ok fi) ∧
    analyseP C10bad2 IterOrder.canon IterOrder.canon = .panic := ⟨⟨_, rfl⟩, rfl⟩

/-- a history on one closure: FIRST(`A z`) (`z` undeclared) panics, asked again it answers the partial value, and the
strings of declared symbols asked before, between and after get their FIRST sets; `[A b]` is a piece of no body but
`[A, b]`'s symbols are declared, `[a A b]` is the body of `S` -/
example : ∃ an, analyse C10ex IterOrder.canon IterOrder.canon = .ok an ∧
    (firstCalls C10ex an.first []
      [[.nonterm 1, .term 1], [.nonterm 1, .term 9], [.term 0, .nonterm 1, .term 1], [.nonterm 1, .term 9],
       [.nonterm 1, .term 1], []]).1
      = [.ok ⟨[0, 1], false⟩, .panic, .ok ⟨[0], false⟩, .ok ⟨[0], false⟩, .ok ⟨[0, 1], false⟩, .ok ⟨[], true⟩] ∧
    validB C10ex = true ∧
    (∃ p, p ∈ C10ex.prods ∧ ∃ pre suf, p.body = pre ++ [Sym.nonterm 1, .term 1] ++ suf) :=
  ⟨_, rfl, by decide, by decide, ⟨⟨0, [.term 0, .nonterm 1, .term 1]⟩, by decide, [.term 0], [], rfl⟩⟩

/-- the memo table: FIRST(`A z`) with `z` undeclared panics behind the nullable `A` and leaves `{a}` without ε in the
table, which the second call returns; with declared symbols the table is transparent -/
example : ∃ an, analyse C10ex IterOrder.canon IterOrder.canon = .ok an ∧
    (firstCall C10ex an.first [] [.nonterm 1, .term 9]).1 = .panic ∧
    (firstCall C10ex an.first (firstCall C10ex an.first [] [.nonterm 1, .term 9]).2 [.nonterm 1, .term 9]).1
      = .ok ⟨[0], false⟩ ∧
    (firstCall C10ex an.first [] [.nonterm 1, .term 1]).1 = .ok ⟨[0, 1], false⟩ ∧
    MemoGood an.first ([] : FirstMemo Nat Nat) :=
  ⟨_, rfl, by decide, by decide, by decide, fun _ _ h => by cases h⟩
