import AlgoVerif.Model.C10
/-! # C10 — property theorems (under construction) -/
open AlgoVerif AlgoVerif.Gram AlgoVerif.C10

theorem C10_placeholder : (union [1, 2] [2, 3] : List Nat) = [1, 2, 3] := by decide
