import AlgoVerif.Model.C14
import AlgoVerif.Model.C14W
import AlgoVerif.Spec.C14
import AlgoVerif.Proofs.C14PathsTop
import AlgoVerif.Proofs.C14Build
import AlgoVerif.Proofs.C14Bfs
import AlgoVerif.Proofs.C14Comp
import AlgoVerif.Proofs.C14Cycle
import AlgoVerif.Proofs.C14Topo
import AlgoVerif.Proofs.C14Scc
import AlgoVerif.Proofs.C14Cert
import AlgoVerif.Proofs.C14Dijkstra
import AlgoVerif.Proofs.C14Prim
import AlgoVerif.Proofs.C14Admits
import AlgoVerif.Proofs.C14Kept
import AlgoVerif.Proofs.C14Gen
import AlgoVerif.Proofs.C14WGen
import AlgoVerif.Props.C18
/-!
# C14 — property theorems

`g : Graph` is the Model of any of the four Go graph types; `g.WF` is what `NewX(V)` + `AddEdge` establish
(`C14_build_directed` / `C14_build_undirected`: every graph built from a vertex count and an edge list is
well-formed, and its arc relation `g.HasArc` is the edge relation of the edge list).
Helper lemmas: `Proofs/C14*.lean`.
-/
open AlgoVerif AlgoVerif.C14

/-! ## graphs given as vertex count and edge list -/

/-- `NewDirected(n, es…)`: well-formed, `n` vertices, arcs = the valid edges of the list. -/
theorem C14_build_directed (n : Nat) (es : List EdgeIn) :
    (buildDirected n es).WF ∧ (buildDirected n es).n = n ∧
      ∀ a b, (buildDirected n es).HasArc a b ↔ DirE n es a b :=
  buildDirected_spec n es

/-- `NewUndirected(n, es…)`: additionally symmetric, arcs = valid edges in both directions. -/
theorem C14_build_undirected (n : Nat) (es : List EdgeIn) :
    (buildUndirected n es).WF ∧ (buildUndirected n es).Symmetric ∧ (buildUndirected n es).n = n ∧
      ∀ a b, (buildUndirected n es).HasArc a b ↔ UndirE n es a b :=
  buildUndirected_spec n es

/-- a directed multigraph with a cycle, a self-loop, parallel edges, an ignored edge and an unreachable vertex -/
def C14_exD : Graph :=
  buildDirected 5 [⟨0, 1, 0⟩, ⟨0, 1, 0⟩, ⟨1, 2, 0⟩, ⟨2, 2, 0⟩, ⟨2, 0, 0⟩, ⟨0, 3, 0⟩, ⟨7, 1, 0⟩, ⟨2, 3, 0⟩]

example : C14_exD.WF ∧ C14_exD.HasArc 2 0 ∧ ¬ C14_exD.HasArc 4 1 := by
  obtain ⟨h1, _, h3⟩ := C14_build_directed 5 [⟨0, 1, 0⟩, ⟨0, 1, 0⟩, ⟨1, 2, 0⟩, ⟨2, 2, 0⟩, ⟨2, 0, 0⟩, ⟨0, 3, 0⟩, ⟨7, 1, 0⟩, ⟨2, 3, 0⟩]
  refine ⟨h1, (h3 2 0).2 ⟨⟨2, 0, 0⟩, by simp, by decide⟩, fun h => ?_⟩
  obtain ⟨e, he, h⟩ := (h3 4 1).1 h
  simp at he
  rcases he with rfl | rfl | rfl | rfl | rfl | rfl | rfl | rfl <;> simp at h

/-! ## Paths (DFS, DFSi, BFS) -/

/-- **Totality.** `Paths(s, strategy)` returns for every source (valid or not) and every strategy — the
traversal loops never run out of fuel (`diverge`) and never index out of range (`panic`) — and `To(v)`
returns for every `v` in `[0, n)`; outside it panics (the Go code indexes `visited[v]`). -/
theorem C14_paths_total (g : Graph) (hg : g.WF) (s : Int) (strat : Strategy) :
    ∃ p, g.paths s strat = .ok p ∧
      ∀ v : Int, (0 ≤ v ∧ v < (g.n : Int) → ∃ r, p.to v = .ok r) ∧
                 (¬ (0 ≤ v ∧ v < (g.n : Int)) → p.to v = .panic) := by
  obtain ⟨p, h1, _, h3⟩ := paths_to_cases hg s strat
  refine ⟨p, h1, fun v => ⟨fun hv => ?_, (h3 v).1⟩⟩
  rcases (h3 v).2 hv with ⟨_, _, _, path, h, _⟩ | ⟨_, h⟩
  · exact ⟨_, h⟩
  · exact ⟨_, h⟩

/-- **Soundness.** Whatever `To(v)` returns is a real path: source and target are vertices, the list starts
at `s`, ends at `v`, and consecutive vertices are joined by an arc of the graph. -/
theorem C14_paths_sound (g : Graph) (hg : g.WF) (s : Int) (strat : Strategy) (p : Paths) (v : Int)
    (path : List Nat) (hp : g.paths s strat = .ok p) (hto : p.to v = .ok (some path)) :
    0 ≤ s ∧ s < (g.n : Int) ∧ 0 ≤ v ∧ v < (g.n : Int) ∧ WalkFromTo g.HasArc s.toNat v.toNat path := by
  obtain ⟨p', h1, _, h3⟩ := paths_to_cases hg s strat
  have : p' = p := by rw [h1] at hp; exact Outcome.ok.inj hp
  subst this
  by_cases hv : 0 ≤ v ∧ v < (g.n : Int)
  · rcases (h3 v).2 hv with ⟨k1, k2, _, path', k4, k5⟩ | ⟨_, h⟩
    · rw [k4] at hto
      have : path' = path := by simpa using hto
      subst this
      exact ⟨k1, k2, hv.1, hv.2, k5⟩
    · rw [h] at hto; simp at hto
  · rw [(h3 v).1 hv] at hto; simp at hto

/-- **Completeness.** If `v` is reachable from `s`, `To(v)` returns a path (for each of the three strategies). -/
theorem C14_paths_complete (g : Graph) (hg : g.WF) (s v : Int) (strat : Strategy)
    (hs : 0 ≤ s ∧ s < (g.n : Int)) (hv : 0 ≤ v ∧ v < (g.n : Int))
    (hr : Reach g.HasArc s.toNat v.toNat) :
    ∃ p path, g.paths s strat = .ok p ∧ p.to v = .ok (some path) ∧
      WalkFromTo g.HasArc s.toNat v.toNat path := by
  obtain ⟨p, h1, _, h3⟩ := paths_to_cases hg s strat
  rcases (h3 v).2 hv with ⟨_, _, _, path, k4, k5⟩ | ⟨h, _⟩
  · exact ⟨p, path, h1, k4, k5⟩
  · exact absurd ⟨hs.1, hs.2, hr⟩ h

/-- unreachable ⇒ `To(v)` answers `(nil, false)` -/
theorem C14_paths_none_iff (g : Graph) (hg : g.WF) (s v : Int) (strat : Strategy) (p : Paths)
    (hv : 0 ≤ v ∧ v < (g.n : Int)) (hp : g.paths s strat = .ok p) :
    p.to v = .ok none ↔ ¬ (0 ≤ s ∧ s < (g.n : Int) ∧ Reach g.HasArc s.toNat v.toNat) := by
  obtain ⟨p', h1, _, h3⟩ := paths_to_cases hg s strat
  have : p' = p := by rw [h1] at hp; exact Outcome.ok.inj hp
  subst this
  rcases (h3 v).2 hv with ⟨k1, k2, k3, path, k4, _⟩ | ⟨h, k⟩
  · rw [k4]; simp [k1, k2, k3]
  · simp [k, h]

-- non-vacuity: the three strategies find three different valid paths 0 → 3 in `C14_exD`, none to 4
example : (C14_exD.paths 0 .dfs).bind (·.to 3) = .ok (some [0, 1, 2, 3]) := by decide
example : (C14_exD.paths 0 .dfsi).bind (·.to 3) = .ok (some [0, 3]) := by decide
example : (C14_exD.paths 0 .bfs).bind (·.to 2) = .ok (some [0, 1, 2]) := by decide
example : (C14_exD.paths 0 .bfs).bind (·.to 4) = .ok none := by decide
example : (C14_exD.paths 9 .bfs).bind (·.to 0) = .ok none := by decide
example : (C14_exD.paths 0 .bfs).bind (·.to 5) = .panic := by decide

/-- **BFS paths have the fewest edges.** The answer of `To(v)` after `Paths(s, BFS)` has at most as many
edges (`path.length - 1`) as any walk from `s` to `v` (`WalkLen … m` = a walk of exactly `m` edges). -/
theorem C14_bfs_fewest_edges (g : Graph) (hg : g.WF) (s v : Int) (p : Paths) (path : List Nat)
    (hp : g.paths s .bfs = .ok p) (hto : p.to v = .ok (some path)) (m : Nat)
    (hw : WalkLen g.HasArc s.toNat m v.toNat) : path.length ≤ m + 1 := by
  obtain ⟨h1, h2, h3, h4, _⟩ := C14_paths_sound g hg s .bfs p v path hp hto
  obtain ⟨s', rfl⟩ : ∃ s' : Nat, s = (s' : Int) := ⟨s.toNat, by omega⟩
  obtain ⟨v', rfl⟩ : ∃ v' : Nat, v = (v' : Int) := ⟨v.toNat, by omega⟩
  exact bfs_fewest hg s' (by omega) p hp v' path hto m (by simpa using hw)

-- non-vacuity: DFS finds 0→1→2→3 (3 edges), BFS 0→3 (1 edge), and a 1-edge walk exists
example : (C14_exD.paths 0 .bfs).bind (·.to 3) = .ok (some [0, 3]) := by decide
example : WalkLen C14_exD.HasArc 0 1 3 := by
  refine .succ .zero ?_
  exact ⟨⟨3, ⟨0, 3, 0⟩⟩, by decide, rfl⟩

/-! ## ConnectedComponents -/

/-- **ConnectedComponents partitions the vertices exactly by reachability** (undirected = symmetric graphs):
it returns; every vertex gets an id `< count`; every id `< count` is in use (so `count` is the number of
components); two vertices have the same id iff one reaches the other. -/
theorem C14_cc_partition (g : Graph) (hg : g.WF) (hsym : g.Symmetric) :
    ∃ cc, g.connectedComponents = .ok cc ∧ cc.id.size = g.n ∧
      (∀ x, x < g.n → ∃ i, cc.id[x]? = some i ∧ i < cc.count) ∧
      (∀ i, i < cc.count → ∃ x, x < g.n ∧ cc.id[x]? = some i) ∧
      (∀ x y, x < g.n → y < g.n → (cc.id[x]? = cc.id[y]? ↔ Reach g.HasArc x y)) :=
  cc_spec hg hsym

/-- three components: {0,1,2} (with parallel edges), {3} (self-loop), {4,5}; the edge 6–7 is ignored -/
def C14_exU : Graph :=
  buildUndirected 6 [⟨0, 1, 0⟩, ⟨1, 0, 0⟩, ⟨1, 2, 0⟩, ⟨3, 3, 0⟩, ⟨4, 5, 0⟩, ⟨6, 7, 0⟩]

example : C14_exU.WF ∧ C14_exU.Symmetric :=
  ⟨(C14_build_undirected _ _).1, (C14_build_undirected _ _).2.1⟩
example : C14_exU.connectedComponents = .ok ⟨3, #[0, 0, 0, 1, 2, 2]⟩ := by decide

/-! ## DirectedCycle and Topological -/

/-- **A cycle is reported iff one exists, and the reported cycle is genuine**: `DirectedCycle` returns for every
graph; `Cycle()` answers `(c, true)` only for a closed walk `c = [v, w, …, v]` along arcs with at least one
edge; it answers `(nil, false)` iff the graph has no cycle. -/
theorem C14_cycle_iff_and_genuine (g : Graph) (hg : g.WF) :
    ∃ c, g.directedCycle = .ok c ∧
      (∀ cyc, c.cycleList = some cyc → IsCycle g.HasArc cyc) ∧
      (c.cycleList = none ↔ Acyclic g.HasArc) :=
  directedCycle_spec hg

example : (C14_exD.directedCycle).map (·.cycleList) = .ok (some [2, 2]) := by decide
example : ((buildDirected 4 [⟨0, 1, 0⟩, ⟨1, 2, 0⟩, ⟨2, 3, 0⟩, ⟨3, 1, 0⟩]).directedCycle).map (·.cycleList) =
    .ok (some [3, 1, 2, 3]) := by decide

/-- a DAG whose insertion order is not topological -/
def C14_exDag : Graph :=
  buildDirected 6 [⟨5, 0, 0⟩, ⟨4, 0, 0⟩, ⟨5, 2, 0⟩, ⟨2, 3, 0⟩, ⟨3, 1, 0⟩, ⟨4, 1, 0⟩]

example : (C14_exDag.directedCycle).map (·.cycleList) = .ok none := by decide

/-- **Topological returns an order iff the graph is acyclic, and the order respects every arc**: the order
lists every vertex exactly once, for every arc `u → v` the vertex `u` occurs strictly before `v`, and
`Rank` is the inverse of `Order`. -/
theorem C14_topological_iff_and_order_respects_edges (g : Graph) (hg : g.WF) :
    ∃ t, g.topological = .ok t ∧
      (t.order.isSome ↔ Acyclic g.HasArc) ∧ (t.rank.isSome ↔ t.order.isSome) ∧
      ∀ order, t.order = some order →
        IsPermOfRange g.n order ∧ RespectsArcs g.HasArc order ∧
        ∃ rank : Array Nat, t.rank = some rank ∧ rank.size = g.n ∧
          ∀ (j v : Nat), order[j]? = some v → rank[v]? = some j :=
  topological_spec hg

example : C14_exDag.topological = .ok ⟨some [5, 4, 2, 3, 1, 0], some #[5, 4, 2, 3, 1, 0]⟩ := by decide
example : C14_exD.topological = .ok ⟨none, none⟩ := by decide

/-! ## StronglyConnectedComponents (Kosaraju) -/

/-- **StronglyConnectedComponents partitions the vertices exactly by mutual reachability**: it returns for
every graph; every vertex gets an id `< count`; every id `< count` is in use; two vertices have the same id
iff each reaches the other. -/
theorem C14_scc_partition (g : Graph) (hg : g.WF) :
    ∃ cc, g.stronglyConnectedComponents = .ok cc ∧ cc.id.size = g.n ∧
      (∀ x, x < g.n → ∃ i, cc.id[x]? = some i ∧ i < cc.count) ∧
      (∀ i, i < cc.count → ∃ x, x < g.n ∧ cc.id[x]? = some i) ∧
      (∀ x y, x < g.n → y < g.n →
        (cc.id[x]? = cc.id[y]? ↔ Reach g.HasArc x y ∧ Reach g.HasArc y x)) :=
  scc_spec hg

example : C14_exD.stronglyConnectedComponents = .ok ⟨3, #[2, 2, 2, 1, 0]⟩ := by decide

/-- the SCC certificate the driver evaluates on every `scc` query is sound (second, independent line of
evidence for the same conjunct; it ties the *evaluated* result to the property without the Kosaraju proof). -/
theorem C14_scc_certificate_sound (g : Graph) (hg : g.WF) (c : Components) (h : sccCertificate g c = true) :
    c.id.size = g.n ∧
    (∀ v, v < g.n → c.id.getD v 0 < c.count) ∧
    (∀ i, i < c.count → ∃ v, v < g.n ∧ c.id.getD v 0 = i) ∧
    (∀ u v, u < g.n → v < g.n →
      (c.id.getD u 0 = c.id.getD v 0 ↔ Reach g.HasArc u v ∧ Reach g.HasArc v u)) :=
  sccCertificate_sound g hg c h

example : (C14_exD.stronglyConnectedComponents).map (sccCertificate C14_exD) = .ok true := by decide +kernel

/-! ## ShortestPathTree (Dijkstra) -/

/-- `NewWeightedDirected(n, es…)`: every entry of `adj[u]` stores an edge `u → to`; the stored edges are
exactly the valid edges of the list; no negative weight in the list ⇒ none in the graph. -/
theorem C14_build_weighted_directed (n : Nat) (es : List EdgeIn) :
    (buildDirected n es).DWF ∧ ((∀ e ∈ es, 0 ≤ e.w) → (buildDirected n es).NonNeg) ∧
    ∀ a b e, (buildDirected n es).HasEdge a b e ↔
      ∃ x ∈ es, 0 ≤ x.u ∧ x.u < (n : Int) ∧ 0 ≤ x.v ∧ x.v < (n : Int) ∧
        (a : Int) = x.u ∧ (b : Int) = x.v ∧ e = ⟨a, b, x.w⟩ := by
  refine ⟨(buildDirected_dwf n es).1, (buildDirected_dwf n es).2, ?_⟩
  intro a b e
  have := foldl_directed_hasEdge es (Graph.new n) (wf_new n) a b e
  have hnew : ¬ (Graph.new n).HasEdge a b e := by
    unfold Graph.HasEdge; rw [adj_new]; simp
  simp only [hnew, false_or] at this
  exact this

/-- **ShortestPathTree returns, for non-negative weights, the minimum distance to every reachable vertex
with a path of exactly that weight** (and `(nil, -1, false)` exactly for the unreachable ones): for a valid
source the Model returns (no `panic`, no `diverge` with the fuel `n + 1`), and for every vertex `v`
either no walk of stored edges leads from `s` to `v` and `PathTo(v)` answers `none`, or `PathTo(v)` answers a
walk `p` from `s` to `v` of stored edges together with `d = weight(p)`, and no walk from `s` to `v` is lighter. -/
theorem C14_spt_paths_realise_dist_and_shortest (g : Graph) (hg : g.WF) (hd : g.DWF) (hnn : g.NonNeg)
    (s : Nat) (hs : s < g.n) :
    ∃ t, g.shortestPathTree (s : Int) = .ok t ∧
      ∀ v, v < g.n →
        (t.pathTo (v : Int) = .ok none ∧ ¬ ∃ q, IsEdgeWalk g s v q) ∨
        (∃ p d, t.pathTo (v : Int) = .ok (some (p, d)) ∧ IsEdgeWalk g s v p ∧ walkWeight p = d ∧
          ∀ q, IsEdgeWalk g s v q → d ≤ walkWeight q) :=
  spt_spec hg hd hnn s hs

/-- zero weights, ties, a zero-weight cycle, parallel edges, an unreachable part -/
def C14_exW : Graph :=
  buildDirected 7 [⟨0, 1, 0⟩, ⟨1, 2, 0⟩, ⟨2, 0, 0⟩, ⟨0, 3, 5⟩, ⟨2, 3, 5⟩, ⟨1, 3, 4⟩, ⟨1, 3, 6⟩, ⟨3, 4, 1⟩,
    ⟨3, 4, 1⟩, ⟨4, 4, 0⟩, ⟨5, 6, 2⟩, ⟨0, 0, 0⟩]

example : C14_exW.WF ∧ C14_exW.DWF ∧ C14_exW.NonNeg :=
  ⟨(C14_build_directed _ _).1, (C14_build_weighted_directed _ _).1,
   (C14_build_weighted_directed _ _).2.1 (by decide)⟩
example : (C14_exW.shortestPathTree 0).bind (·.pathTo 4) =
    .ok (some ([⟨0, 1, 0⟩, ⟨1, 3, 4⟩, ⟨3, 4, 1⟩], 5)) := by decide
example : (C14_exW.shortestPathTree 0).bind (·.pathTo 6) = .ok none := by decide
example : (C14_exW.shortestPathTree 7).bind (·.pathTo 0) = .panic := by decide

/-- the shortest-path certificate the driver evaluates on every `spt`/`sptto` query is sound:
`distTo[s] = 0`, no relaxable edge and answers that realise their distance are shortest paths
(this lemma does not need non-negative weights). -/
theorem C14_spt_certificate_sound (g : Graph) (hg : g.WF) (s : Nat) (t : SPT)
    (answers : List (Nat × Option (List Edge × Int))) (h : sptCertificate g s t answers = true) :
    ∀ v a, (v, a) ∈ answers →
      match a with
      | none => ¬ ∃ q, IsEdgeWalk g s v q
      | some (p, d) => IsEdgeWalk g s v p ∧ walkWeight p = d ∧ ∀ q, IsEdgeWalk g s v q → d ≤ walkWeight q :=
  sptCertificate_sound g hg s t answers h

/-! ## MinimumSpanningTree (eager Prim) -/

/-- **MinimumSpanningTree returns a spanning forest** (undirected = symmetric graphs whose adjacency entries
store an edge joining owner and neighbour, `C14_build_undirected` + `buildUndirected_uwf`): the Model
returns (no `panic`/`diverge`); `Edges()` are the non-zero entries `edgeTo[w]` (`MST.edges`, by definition);
every such entry is a stored edge of the graph joining `w` with a parent `p` (`TLink`); parents have a smaller
rank, so the edges form a forest (every vertex has at most one parent edge and following parents never
returns); and two vertices are joined by tree edges iff they are connected in the graph (spanning). -/
theorem C14_mst_spanning_forest (g : Graph) (hg : g.WF) (hu : g.UWF) (hsym : g.Symmetric) :
    ∃ m, g.minimumSpanningTree = .ok m ∧ m.edgeTo.size = g.n ∧
      (∀ w, m.par w ≠ Edge.zero → ∃ p, TLink g m w p) ∧
      (∃ rank : Nat → Nat, ∀ w p, TLink g m w p → rank p < rank w) ∧
      (∀ u v, u < g.n → v < g.n → (Reach g.HasArc u v ↔ Reach (TArc g m) u v)) :=
  mst_spec hg hu hsym

/-- two components, parallel edges of different weight, zero and negative weights, a self-loop -/
def C14_exM : Graph :=
  buildUndirected 7 [⟨0, 1, 4⟩, ⟨1, 0, 2⟩, ⟨1, 2, 0⟩, ⟨0, 2, 0⟩, ⟨2, 3, -3⟩, ⟨3, 0, 5⟩, ⟨3, 3, -9⟩, ⟨4, 5, 1⟩,
    ⟨5, 6, 1⟩, ⟨6, 4, 1⟩]

example : C14_exM.WF ∧ C14_exM.UWF ∧ C14_exM.Symmetric :=
  ⟨(C14_build_undirected _ _).1, buildUndirected_uwf _ _, (C14_build_undirected _ _).2.1⟩
example : (C14_exM.minimumSpanningTree).map (fun m => (m.edges, m.weight)) =
    .ok ([⟨1, 2, 0⟩, ⟨0, 2, 0⟩, ⟨2, 3, -3⟩, ⟨4, 5, 1⟩, ⟨6, 4, 1⟩], -1) := by decide
example : (C14_exM.minimumSpanningTree).map (mstCertificate C14_exM) = .ok true := by decide +kernel

/-- `NewWeightedUndirected(n, es…)`: every adjacency entry stores an edge joining its owner and its neighbour
(`UWF`), and every edge is stored in the adjacency lists of both of its ends (`UStored`). -/
theorem C14_build_weighted_undirected (n : Nat) (es : List EdgeIn) :
    (buildUndirected n es).UWF ∧ (buildUndirected n es).UStored :=
  ⟨buildUndirected_uwf n es, buildUndirected_ustored n es⟩

/-- **MinimumSpanningTree returns a spanning forest of minimum total weight** (any integer weights, also
negative): `Edges()` is a spanning forest of the graph in the sense of `IsSpanningForest` (stored edges, no
repetition, no cycle: removing an edge disconnects its ends; the ends of every graph edge are connected), and
`Weight()` — the sum of their weights — is at most the weight of *every* spanning forest `F` of the graph.
Proof: every edge Prim adds is a lightest stored edge between the vertices visited before its child and the
rest (`ForestOK`, kept as an invariant of `prim`; uses `Delete` returning a least key), and the classical
exchange argument (`cut_rule_optimal`, `Proofs/C14Mst.lean`: a forest that contains the first `i` chosen
edges can be changed, without gaining weight, into one that also contains the next). -/
theorem C14_mst_minimum_weight (g : Graph) (hg : g.WF) (hu : g.UWF) (hsym : g.Symmetric) (hst : g.UStored) :
    ∃ m, g.minimumSpanningTree = .ok m ∧ IsSpanningForest g m.edges ∧ m.weight = wsum m.edges ∧
      ∀ F, IsSpanningForest g F → m.weight ≤ wsum F := by
  obtain ⟨m, h1, h2, h3⟩ := mst_minimum hg hu hsym hst
  exact ⟨m, h1, h2, wsum_edges m, h3⟩

example : C14_exM.UStored := (C14_build_weighted_undirected _ _).2
-- a competitor: the spanning forest that uses the heavy parallel edge 0–1:4 weighs 4 more (3 against -1)
example : wsum [⟨0, 1, 4⟩, ⟨1, 2, 0⟩, ⟨2, 3, -3⟩, ⟨4, 5, 1⟩, ⟨5, 6, 1⟩] = 3 := by decide

/-! ## the containers behind DFSi, BFS, `To`, `PathTo`, `Cycle` -/

/-- **Dependency on C18, made explicit.**  The Model of the traversals keeps the content of `list.Stack` /
`list.Queue` as a plain list: `pushStack`/`pushQueue` and taking the head are literally the operations of the
abstract stack and queue of `Spec/C18.lean`; and by `C18_stack_refines` / `C18_queue_refines` every history on
the block-linked Model of `/repo/list/{stack,queue}.go` with the block size the graph package uses
(`listNodeSize`, regenerated from the source) returns what the abstract sequence returns, never panicking or
hanging.  So the only thing trusted here is that the traversals use the containers through
`Push/Pop/IsEmpty` (`Enqueue/Dequeue/IsEmpty`) — which the correspondence run checks across block
boundaries. -/
theorem C14_containers_are_C18_spec :
    (∀ (w : Nat) (l : List Nat), pushStack w l = C18.Spec.S.push l w) ∧
    (∀ (w : Nat) (l : List Nat), pushQueue w l = C18.Spec.Q.enqueue l w) ∧
    (∀ (v : Nat) (l : List Nat), C18.Spec.S.pop (v :: l) = (l, some v) ∧ C18.Spec.Q.dequeue (v :: l) = (l, some v)) ∧
    (∀ (eq : Nat → Nat → Bool) (ops : List (C18.Op Nat)),
      C18.Stack.run 0 eq (C18.Stack.new C14.listNodeSize) ops = (C18.Spec.S.run eq [] ops).map Outcome.ok) ∧
    (∀ (eq : Nat → Nat → Bool) (ops : List (C18.Op Nat)),
      C18.Queue.run 0 eq (C18.Queue.new C14.listNodeSize) ops = (C18.Spec.Q.run eq [] ops).map Outcome.ok) := by
  have hB : 1 ≤ C14.listNodeSize := by decide
  exact ⟨fun _ _ => rfl, fun _ _ => rfl, fun _ _ => ⟨rfl, rfl⟩,
    fun eq ops => C18_stack_refines 0 eq _ hB ops, fun eq ops => C18_queue_refines 0 eq _ hB ops⟩

/-! ## graph objects over time: `AddEdge` interleaved with queries, `Reverse()`, several objects

`Model/C14S.lean`: a `GObj` is the fields of a Go graph struct, `World` the objects a client holds, `World.run`
a history of `AddEdge` calls, queries, `Reverse()` calls kept as further objects, and switches between objects.
`Spec/C14S.lean`: the same history on (kind, vertex count, list of `AddEdge` calls) triples, and `Admits`, the
property's demand on each query's answer.  The theorems above speak about a graph value; these say which
graph value every query of every history is answered on — the one with exactly the edges added so far. -/

/-- **Every history on one object.**  For every kind, vertex count and every sequence of `AddEdge` calls
interleaved with queries in any way: the object ends as the graph built from the calls (`GObj.build`, i.e.
`NewX(n, edges…)`), whose adjacency structure is `buildDirected`/`buildUndirected` of the calls — the graph the
theorems above are about — and the `i`-th step, if it is a query, returned exactly what that query returns on
the graph built from the calls made before step `i`. -/
theorem C14_history_state (k : Kind) (n : Nat) (ops : List Op) (hs : ∀ op ∈ ops, op.single = true) :
    ((World.init k n).run ops).1 = ⟨#[GObj.build k n (edgesOf ops)], 0⟩ ∧
    (GObj.build k n (edgesOf ops)).g = theGraph k n (edgesOf ops) ∧
    ((World.init k n).run ops).2.length = ops.length ∧
    ∀ i q, ops[i]? = some (.query q) →
      ((World.init k n).run ops).2[i]? = some ((GObj.build k n (edgesOf (ops.take i))).answer q) := by
  obtain ⟨h1, h2, h3, h4⟩ := run_single k n ops hs []
  simp only [List.nil_append] at h1 h4
  rw [← init_eval, run_refines]
  unfold SWorld.init
  refine ⟨?_, build_g k n _, h3, h4⟩
  show SWorld.eval _ = _
  unfold SWorld.eval
  rw [h1, h2]
  simp [SObj.eval]

/-- **Every query of every history returns what the property demands for the graph consisting of exactly the
edges added so far** (`Admits`, `Spec/C14S.lean`: paths sound, complete and — BFS — fewest edges; (strongly)
connected components partition by (mutual) reachability; a genuine cycle iff one exists; a topological order
respecting every edge iff none exists; a minimum spanning forest; shortest distances with realising paths for
non-negative weights; `panic` exactly for out-of-range arguments). -/
theorem C14_history_admitted (k : Kind) (n : Nat) (ops : List Op) (hs : ∀ op ∈ ops, op.single = true)
    (i : Nat) (q : Query) (hi : ops[i]? = some (.query q)) (hq : q.applies k = true) :
    ∃ a, ((World.init k n).run ops).2[i]? = some a ∧ Admits k n (edgesOf (ops.take i)) q a :=
  ⟨_, (C14_history_state k n ops hs).2.2.2 i q hi, answer_admitted k n _ q hq⟩

/-- the history of the regression case `corpus/C14/11-scc-after-addedge.ops`: query, add an edge, query again -/
def C14_exHist : List Op :=
  [.query .scc, .edge 1 0 0, .query .scc, .edge 0 1 0, .query .scc, .query (.path .bfs 1 0)]

example : ∀ op ∈ C14_exHist, op.single = true := by decide
example : edgesOf (C14_exHist.take 4) = [⟨1, 0, 0⟩, ⟨0, 1, 0⟩] := by decide
-- the three `scc` answers differ although they are asked of the same object: 2, 2, then 1 component
example : (((World.init .directed 2).run C14_exHist).2.map fun a => a.map fun
      | .comps c => c.count
      | _ => 99) = [.ok 2, .ok 99, .ok 2, .ok 99, .ok 1, .ok 99] := by
  decide

/-- **The instance behind seeded change C14-n1**, spelled out: on a directed object, after any interleaving of
`AddEdge` calls and queries, `StronglyConnectedComponents()` partitions the vertices by mutual reachability in
the edge relation of *all* calls made so far — whatever was queried in between. -/
theorem C14_history_scc (k : Kind) (hk : k.isDirected = true) (n : Nat) (ops : List Op)
    (hs : ∀ op ∈ ops, op.single = true) (i : Nat) (hi : ops[i]? = some (.query .scc)) :
    ∃ c, ((World.init k n).run ops).2[i]? = some (.ok (.comps c)) ∧ c.id.size = n ∧
      (∀ x, x < n → ∃ j, c.id[x]? = some j ∧ j < c.count) ∧
      (∀ j, j < c.count → ∃ x, x < n ∧ c.id[x]? = some j) ∧
      ∀ x y, x < n → y < n →
        (c.id[x]? = c.id[y]? ↔
          Reach (DirE n (edgesOf (ops.take i))) x y ∧ Reach (DirE n (edgesOf (ops.take i))) y x) := by
  obtain ⟨a, h1, h2⟩ := C14_history_admitted k n ops hs i .scc hi (by simp [Query.applies, hk])
  simp only [Admits] at h2
  obtain ⟨c, rfl, h3, h4, h5, h6⟩ := h2
  have hE : EdgeRel k n (edgesOf (ops.take i)) = DirE n (edgesOf (ops.take i)) := by
    unfold EdgeRel; rw [hk]; rfl
  rw [hE] at h6
  exact ⟨c, h1, h3, h4, h5, h6⟩

/-! ### accessors and `Reverse()` -/

/-- **The state of an object is its edge list.**  For the graph of kind `k` on `n` vertices that has received the
`AddEdge` calls `es` (in this order, invalid ones included): `V() = n`; `E()` is the number of calls with both
endpoints valid; `Adj(v)` is exactly the list of entries those calls append (`adjSpec`, in call order; an
undirected edge appears at both ends, a self-loop twice), `nil` for an invalid vertex; `OutDegree`/`Degree` is its
length, `-1` for an invalid vertex; `InDegree(v)` (directed kinds) counts the stored edges pointing to `v`;
`Edges()` (weighted kinds) lists the stored edge of every adjacency entry (undirected: only the entries whose
neighbour is larger than their owner, so every edge between distinct vertices once and no self-loop). None of
them panics. -/
theorem C14_accessors (k : Kind) (n : Nat) (es : List EdgeIn) :
    (GObj.build k n es).V = n ∧
    (GObj.build k n es).E = (es.filter (validE n)).length ∧
    (∀ v : Int, (GObj.build k n es).adjOf v =
      if 0 ≤ v ∧ v < (n : Int) then .ok (some (adjSpec k n es v.toNat)) else .ok none) ∧
    (∀ v : Int, (GObj.build k n es).outDegree v =
      if 0 ≤ v ∧ v < (n : Int) then .ok ((adjSpec k n es v.toNat).length : Int) else .ok (-1)) ∧
    (k.isDirected = true → ∀ v : Int, (GObj.build k n es).inDegree v =
      if 0 ≤ v ∧ v < (n : Int) then
        .ok ((es.filter fun e => validE n e && decide (e.v.toNat = v.toNat)).length : Int)
      else .ok (-1)) ∧
    (GObj.build k n es).edges =
      if k.isDirected then (List.range n).flatMap fun v => (adjSpec k n es v).map (·.e)
      else (List.range n).flatMap fun v => ((adjSpec k n es v).filter fun x => decide (v < x.to)).map (·.e) := by
  refine ⟨?_, ?_, build_adjOf k n es, build_outDegree k n es, fun hk => build_inDegree k hk n es, build_edges k n es⟩
  · show ((GObj.build k n es).g.n : Int) = n
    rw [build_n]
  · show ((GObj.build k n es).e : Int) = _
    rw [build_e]

-- a weighted undirected multigraph with a self-loop, parallel edges and an ignored call
example : (GObj.build .wundirected 3 [⟨0, 1, 5⟩, ⟨1, 1, 2⟩, ⟨2, 1, 7⟩, ⟨3, 0, 1⟩, ⟨1, 0, 4⟩]).E = 4 := by decide
example : adjSpec .wundirected 3 [⟨0, 1, 5⟩, ⟨1, 1, 2⟩, ⟨2, 1, 7⟩, ⟨3, 0, 1⟩, ⟨1, 0, 4⟩] 1 =
    [⟨0, ⟨0, 1, 5⟩⟩, ⟨1, ⟨1, 1, 2⟩⟩, ⟨1, ⟨1, 1, 2⟩⟩, ⟨2, ⟨2, 1, 7⟩⟩, ⟨0, ⟨1, 0, 4⟩⟩] := by decide
example : (GObj.build .wundirected 3 [⟨0, 1, 5⟩, ⟨1, 1, 2⟩, ⟨2, 1, 7⟩, ⟨3, 0, 1⟩, ⟨1, 0, 4⟩]).edges =
    [⟨0, 1, 5⟩, ⟨1, 0, 4⟩, ⟨2, 1, 7⟩] := by decide

/-- **`Reverse()`.**  For a directed kind, `Reverse()` of the graph with the calls `es` is the graph (a new
object) with the calls `flipSpec n es`: one call per stored edge — so `E()` is the same —, every stored edge turned
around with its weight, hence the converse edge relation, and the in- and out-degrees swapped. -/
theorem C14_reverse_object (k : Kind) (hk : k.isDirected = true) (n : Nat) (es : List EdgeIn) :
    (GObj.build k n es).reverse = GObj.build k n (flipSpec n es) ∧
    (∀ x, x ∈ flipSpec n es ↔ ∃ e ∈ es, validE n e = true ∧ x = ⟨e.v, e.u, e.w⟩) ∧
    (GObj.build k n es).reverse.E = (GObj.build k n es).E ∧
    (∀ a b, (GObj.build k n es).reverse.g.HasArc a b ↔ (GObj.build k n es).g.HasArc b a) := by
  have hr := build_reverse k hk n es
  refine ⟨hr, mem_flipSpec n es, ?_, ?_⟩
  · show (((GObj.build k n es).reverse.e : Nat) : Int) = ((GObj.build k n es).e : Nat)
    rw [hr, build_e, build_e]
    congr 1
    have hall : ∀ x ∈ flipSpec n es, validE n x = true := by
      intro x hx
      obtain ⟨e, _, hv, rfl⟩ := (mem_flipSpec n es x).1 hx
      rw [validE_flip]; exact hv
    rw [List.filter_eq_self.2 hall, length_flipSpec]
  · intro a b
    rw [hr, build_g, build_g, theGraph_hasArc, theGraph_hasArc]
    unfold EdgeRel
    rw [hk]
    exact dirE_flip n es a b

example : flipSpec 3 [⟨2, 0, 7⟩, ⟨0, 1, 5⟩, ⟨5, 1, 1⟩, ⟨0, 2, 6⟩, ⟨0, 1, 4⟩] =
    [⟨1, 0, 5⟩, ⟨2, 0, 6⟩, ⟨1, 0, 4⟩, ⟨0, 2, 7⟩] := by decide

/-- **Reverse of Reverse.**  Reversing a directed graph twice gives (a new object holding) the graph with exactly the
stored edges of the original: the calls are `flipSpec n (flipSpec n es)` — the valid calls of `es`, regrouped by head
vertex —, `E()` is the same and so is the edge relation.  (The order inside an adjacency list can differ from the
original's; `C14_accessors` gives it exactly.) -/
theorem C14_reverse_reverse (k : Kind) (hk : k.isDirected = true) (n : Nat) (es : List EdgeIn) :
    (GObj.build k n es).reverse.reverse = GObj.build k n (flipSpec n (flipSpec n es)) ∧
    (∀ x, x ∈ flipSpec n (flipSpec n es) ↔ x ∈ es ∧ validE n x = true) ∧
    (GObj.build k n es).reverse.reverse.E = (GObj.build k n es).E ∧
    (∀ a b, (GObj.build k n es).reverse.reverse.g.HasArc a b ↔ (GObj.build k n es).g.HasArc a b) := by
  obtain ⟨h1, hm1, he1, ha1⟩ := C14_reverse_object k hk n es
  obtain ⟨h2, hm2, he2, ha2⟩ := C14_reverse_object k hk n (flipSpec n es)
  rw [h1]
  refine ⟨h2, fun x => ?_, ?_, fun a b => ?_⟩
  · rw [hm2]
    constructor
    · rintro ⟨e, he, hv, rfl⟩
      obtain ⟨e', he', hv', rfl⟩ := (hm1 e).1 he
      exact ⟨he', hv'⟩
    · rintro ⟨hx, hv⟩
      exact ⟨⟨x.v, x.u, x.w⟩, (hm1 _).2 ⟨x, hx, hv, rfl⟩, by rw [validE_flip]; exact hv, rfl⟩
  · rw [he2, ← h1, he1]
  · rw [ha2 a b, ← h1, ha1 b a]

example : flipSpec 3 (flipSpec 3 [⟨2, 0, 7⟩, ⟨0, 1, 5⟩, ⟨5, 1, 1⟩, ⟨0, 2, 6⟩, ⟨0, 1, 4⟩]) =
    [⟨2, 0, 7⟩, ⟨0, 1, 5⟩, ⟨0, 1, 4⟩, ⟨0, 2, 6⟩] := by decide

/-! ### several objects -/

/-- **Every history on any number of objects refines the Spec world** (`SWorld`, `Spec/C14S.lean`): each object is
(kind, n, list of calls); `AddEdge` appends to the *current* object's list and leaves every other object as it
is; a query changes no object and returns the answer on the graph built from the current object's list;
`Reverse()` adds an object whose list is the flipped list of the current one *as it is at that moment* — nothing
done to either object afterwards reaches the other. -/
theorem C14_world_refines (k : Kind) (n : Nat) (ops : List Op) :
    (World.init k n).run ops = (((SWorld.init k n).run ops).1.eval, ((SWorld.init k n).run ops).2) := by
  rw [← init_eval]; exact run_refines ops _

/-- **`Reverse()` and the original are independent.**  Add `es1` to a directed object, keep `Reverse()`, add
`es2` to the original, switch to the reversed object and add `es3` to it (queries anywhere in between change
nothing, `C14_world_refines`): the original ends as the graph of `es1 ++ es2`, the other one as the graph of the
flipped `es1` followed by `es3`. -/
theorem C14_reverse_independent (k : Kind) (hk : k.isDirected = true) (n : Nat) (es1 es2 es3 : List EdgeIn) :
    let edges := fun (es : List EdgeIn) => es.map fun e => Op.edge e.u e.v e.w
    ((World.init k n).run (edges es1 ++ [.mkrev] ++ edges es2 ++ [.use 1] ++ edges es3)).1 =
      ⟨#[GObj.build k n (es1 ++ es2), GObj.build k n (flipSpec n es1 ++ es3)], 1⟩ := by
  intro edges
  rw [C14_world_refines]
  show SWorld.eval _ = _
  have e1 : ((SWorld.init k n).run (edges es1)).1 = ⟨#[⟨k, n, es1⟩], 0⟩ := by
    rw [srun_edges es1 _ (by simp [SWorld.init])]
    simp [SWorld.init, SWorld.obj, getD_eq]
  have e2 : ((⟨#[⟨k, n, es1⟩], 0⟩ : SWorld).run [.mkrev]).1 = ⟨#[⟨k, n, es1⟩, ⟨k, n, flipSpec n es1⟩], 0⟩ := by
    simp [SWorld.run, SWorld.step, SWorld.obj, hk, getD_eq]
  have e3 : ((⟨#[⟨k, n, es1⟩, ⟨k, n, flipSpec n es1⟩], 0⟩ : SWorld).run (edges es2)).1 =
      ⟨#[⟨k, n, es1 ++ es2⟩, ⟨k, n, flipSpec n es1⟩], 0⟩ := by
    rw [srun_edges es2 _ (by simp)]
    simp [SWorld.obj, getD_eq]
  have e4 : ((⟨#[⟨k, n, es1 ++ es2⟩, ⟨k, n, flipSpec n es1⟩], 0⟩ : SWorld).run [.use 1]).1 =
      ⟨#[⟨k, n, es1 ++ es2⟩, ⟨k, n, flipSpec n es1⟩], 1⟩ := by
    simp [SWorld.run, SWorld.step]
  have e5 : ((⟨#[⟨k, n, es1 ++ es2⟩, ⟨k, n, flipSpec n es1⟩], 1⟩ : SWorld).run (edges es3)).1 =
      ⟨#[⟨k, n, es1 ++ es2⟩, ⟨k, n, flipSpec n es1 ++ es3⟩], 1⟩ := by
    rw [srun_edges es3 _ (by simp)]
    simp [SWorld.obj, getD_eq]
  rw [srun_append, srun_append, srun_append, srun_append, e1, e2, e3, e4, e5]
  simp [SWorld.eval, SObj.eval]

example : (((World.init .directed 3).run
      [.edge 0 1 0, .mkrev, .edge 1 2 0, .use 1, .edge 2 2 0, .query .dump]).1.objs.toList.map fun o =>
        (o.e, (List.range 3).map fun v => (o.g.adj.getD v []).map (·.to))) =
    [(2, [[1], [2], []]), (2, [[], [0], [2]])] := by decide


/-! ### constructors with an edge list, and `AddEdge` afterwards

`Model/C14R.lean`: `World.initWith k n es0` is `NewX(n, es0…)` (the Go constructors allocate one empty list per
vertex and call `AddEdge` for every edge of the list). -/

/-- **`NewX(V, edges…)` and then `AddEdge`.**  The constructor with the edge list `es0` gives the object that
`NewX(V)` followed by the same `AddEdge` calls gives; and for every interleaving of further `AddEdge` calls and
queries on it, the object ends as the graph of `es0` followed by the calls, and every query returns its answer on
the graph consisting of exactly `es0` and the edges added before it — the answer the property demands (`Admits`).
(Seeded change C14-q1: adjacency lists carved out of one backing array by the constructor, so that a later
`AddEdge(v, ·)` overwrites the first entry of a later vertex, is excluded by this theorem for the Model and shows
as a difference between implementation and Model on `corpus/C14/16-ctor-edges-then-addedge.ops`.) -/
theorem C14_ctor_history (k : Kind) (n : Nat) (es0 : List EdgeIn) (ops : List Op)
    (hs : ∀ op ∈ ops, op.single = true) :
    World.initWith k n es0 = ((World.init k n).run (es0.map fun e => Op.edge e.u e.v e.w)).1 ∧
    ((World.initWith k n es0).run ops).1 = World.initWith k n (es0 ++ edgesOf ops) ∧
    ∀ i q, ops[i]? = some (.query q) → q.applies k = true →
      ∃ a, ((World.initWith k n es0).run ops).2[i]? = some a ∧
        a = (GObj.build k n (es0 ++ edgesOf (ops.take i))).answer q ∧
        Admits k n (es0 ++ edgesOf (ops.take i)) q a := by
  obtain ⟨h1, h2, _, h4⟩ := run_single k n ops hs es0
  refine ⟨initWith_eq_run k n es0, ?_, ?_⟩
  · rw [← initWith_eval, run_refines, ← initWith_eval]
    show SWorld.eval _ = SWorld.eval _
    unfold SWorld.eval
    rw [h1, h2]
  · intro i q hi hq
    refine ⟨_, ?_, rfl, answer_admitted k n _ q hq⟩
    rw [← initWith_eval, run_refines]
    exact h4 i q hi

-- the history of `corpus/C14/16-ctor-edges-then-addedge.ops`, case 1: NewDirected(5, 0→1, 1→2, 2→3), AddEdge(0, 4), Adj(1)
example : ((World.initWith .directed 5 [⟨0, 1, 0⟩, ⟨1, 2, 0⟩, ⟨2, 3, 0⟩]).run
      [.edge 0 4 0, .query (.adjOf 1)]).2.map (fun a => a.map fun
        | .arcs (some l) => l.map (·.to)
        | _ => []) = [.ok [], .ok [2]] := by decide

/-! ### result objects kept by the client

`Model/C14R.lean`: a `Session` is the graph objects (`World`) and the result objects the client holds; `keep q` makes
the call on the current object and keeps the object it returns, `ask i sel` reads result `i` (everything, or one
`To(v)` / `PathTo(v)`). -/

/-- **Keeping and reading results does nothing to the graphs.**  The objects at the end of any session are those
of the history with the `keep` and `ask` steps left out, and the `AddEdge` calls, direct queries, `Reverse()` calls of
the session returned what they return in that history — to which `C14_world_refines` and `C14_history_admitted`
apply. -/
theorem C14_session_objects (s : Session) (ops : List ROp) :
    (s.run ops).1.w = (s.w.run (baseOps ops)).1 ∧ pickBase ops (s.run ops).2 = (s.w.run (baseOps ops)).2 :=
  run_w ops s

/-- **A kept result keeps answering for the graph it was computed on.**  Take any session that starts with
`NewX(n, es0…)`: any history `pre` (on any number of objects), then `r := cur.Q(…)` kept as a result (the call
returned: `hr`), then any history `mid` — `AddEdge` on the same graph or another one, other traversals and
algorithms, further results kept, results read, `Reverse()` —, then a read of `r`, then anything.  The read returns
exactly what the query `Q` (for one target: `Paths(s).To(v)`, `ShortestPathTree(s).PathTo(v)`) returns when asked
and read in one step at the moment of the `keep`; the graph then was the one built from the current object's calls
so far (`so`, `C14_world_refines`), and the answer is what the property demands for exactly that graph (`Admits`:
paths sound, complete, fewest edges for BFS; components by (mutual) reachability; cycle / topological order;
minimum spanning forest; shortest paths).  Nothing in `mid` — and no earlier read — can change it.
(Seeded change C14-q2: a scratch slice of visited flags owned by the graph and retained by `*Paths` is excluded by
this theorem for the Model and shows as a difference between implementation and Model on
`corpus/C14/17-results-kept.ops`.) -/
theorem C14_kept_results (k : Kind) (n : Nat) (es0 : List EdgeIn) (pre mid post : List ROp) (q : Query)
    (sel : Option Int) (hq : q.keepable = true) (r : Res)
    (hr : ((Session.init k n es0).run pre).1.w.obj.compute q = .ok r) :
    let sj := ((Session.init k n es0).run pre).1
    let so := ((⟨#[⟨k, n, es0⟩], 0⟩ : SWorld).run (baseOps pre)).1.obj
    let a := sj.w.obj.answer (q.at sel)
    sj.w.obj = GObj.build so.k so.n so.es ∧
    ((Session.init k n es0).run
        (pre ++ (.keep q :: (mid ++ (.ask sj.kept.size sel :: post))))).2[pre.length + 1 + mid.length]? = some a ∧
    ((q.at sel).applies so.k = true → Admits so.k so.n so.es (q.at sel) a) := by
  intro sj so a
  have hw : sj.w = ((⟨#[⟨k, n, es0⟩], 0⟩ : SWorld).run (baseOps pre)).1.eval := by
    show ((Session.init k n es0).run pre).1.w = _
    rw [(run_w pre (Session.init k n es0)).1]
    show ((World.initWith k n es0).run _).1 = _
    rw [← initWith_eval, run_refines]
  have hobj : sj.w.obj = GObj.build so.k so.n so.es := by rw [hw, eval_obj]; rfl
  refine ⟨hobj, ?_, fun hap => ?_⟩
  · rw [(run_append pre _ (Session.init k n es0)).2,
      List.getElem?_append_right (by rw [run_length]; omega), run_length]
    have hidx : pre.length + 1 + mid.length - pre.length = mid.length + 1 := by omega
    rw [hidx]
    have hstep : sj.step (.keep q) = ({ sj with kept := sj.kept.push ⟨sj.w.obj, q, r⟩ }, .ok .unit) := by
      simp only [Session.step]
      rw [show sj.w.obj.compute q = .ok r from hr]
    show (sj.run (.keep q :: (mid ++ (.ask sj.kept.size sel :: post)))).2[mid.length + 1]? = some a
    simp only [Session.run, List.getElem?_cons_succ, hstep]
    rw [run_ask mid _ sj.kept.size ⟨sj.w.obj, q, r⟩ sel post (by simp)]
    have hc := compute_ask sj.w.obj q hq sel
    rw [show sj.w.obj.compute q = .ok r from hr] at hc
    exact congrArg some hc
  · show Admits so.k so.n so.es (q.at sel) (sj.w.obj.answer (q.at sel))
    rw [hobj]
    exact answer_admitted so.k so.n so.es _ hap

/-- the session of `corpus/C14/17-results-kept.ops`, case 1 (beginning): `p := g.Paths(0, DFS)` kept, then
`g.Paths(3, BFS)`, `g.ConnectedComponents()` and `AddEdge(2, 3)`, then `p.To(2)`, `p.To(4)` -/
def C14_exKept : List ROp :=
  [.keep (.paths .dfs 0), .keep (.paths .bfs 3), .keep .cc, .base (.edge 2 3 0), .ask 0 (some 2), .ask 0 (some 4),
   .base (.query (.path .dfs 0 4))]

-- `p` still says: 2 is reached by 0-1-2, 4 is not reachable — although it is in the graph as it is now
example : ((Session.init .undirected 6 [⟨0, 1, 0⟩, ⟨1, 2, 0⟩, ⟨3, 4, 0⟩]).run C14_exKept).2.map (fun a => a.map fun
      | .path p => p
      | _ => none) =
    [.ok none, .ok none, .ok none, .ok none, .ok (some [0, 1, 2]), .ok none, .ok (some [0, 1, 2, 3, 4])] := by
  decide
-- the hypothesis `hr` for its first step: the call returns (visited = {0, 1, 2}, edgeTo[2] = 1)
example : (((Session.init .undirected 6 [⟨0, 1, 0⟩, ⟨1, 2, 0⟩, ⟨3, 4, 0⟩]).run []).1.w.obj.compute
      (.paths .dfs 0)).map (fun
        | .paths p => (p.visited.toList, p.edgeTo.toList)
        | _ => ([], [])) = .ok ([true, true, true, false, false, false], [0, 0, 1, 0, 0, 0]) := by decide

/-! ## the GENERATED adjacency code (`Generated/C14Gen.lean`, rewritten from `graph/{graph,directed,undirected}.go` by
`/verif/extract/go2lean` on every check run) against the hand Model of the graph objects

`Gen.ofD o` / `Gen.ofU o` read a hand-Model object `o : GObj` as the generated `Directed` / `Undirected` structure,
`Gen.WFd` / `Gen.WFu` say that `adj` (and `ins`) have `V` entries — what the constructor establishes and `AddEdge` keeps
(part of each statement).  All statements are equalities of outcomes for ALL arguments, invalid vertices included.
An edit of the Go text of these functions that changes what they compute changes the generated definitions and breaks
these theorems (helper lemmas: `Proofs/C14Gen.lean`). -/

/-- `NewDirected(V, edges...)`: the generated constructor (both loops, one `AddEdge` per pair) is `GObj.build`;
for `V < 0` it panics (`make`). -/
theorem C14_generated_directed_new (n : Nat) (es : List EdgeIn) (V : Int) (hV : V < 0) (edges : Array (Array Int)) :
    Generated.Graph.NewDirected (n : Int) (Gen.edgesOf es) = .ok (Gen.ofD (GObj.build .directed n es)) ∧
    Gen.WFd (GObj.build .directed n es) ∧
    Generated.Graph.NewDirected V edges = .panic :=
  ⟨(Gen.D_New n es).1, (Gen.D_New n es).2, Gen.D_New_neg V hV edges⟩

/-- `(*Directed).AddEdge(v, w)` at ANY point of a history (every well-formed object, every pair of `int`s):
the generated code is `GObj.addEdge`, and well-formedness is kept. -/
theorem C14_generated_directed_addEdge (o : GObj) (hw : Gen.WFd o) (u v wt : Int) :
    Generated.Graph.Directed.AddEdge (Gen.ofD o) u v = .ok (Gen.ofD (o.addEdge u v wt)) ∧
    Gen.WFd (o.addEdge u v wt) :=
  Gen.D_AddEdge o hw u v wt

/-- `V()`, `E()`, `isVertexValid`, `InDegree(v)`, `OutDegree(v)` of `*Directed`: the generated accessors are the hand
Model's, for every object and every `int` (`-1` for an invalid vertex; a panic where the Go code would index outside
`ins` / `adj`). -/
theorem C14_generated_directed_accessors (o : GObj) (v : Int) :
    Generated.Graph.Directed.V (Gen.ofD o) = o.V ∧ Generated.Graph.Directed.E (Gen.ofD o) = o.E ∧
    Generated.Graph.Directed.isVertexValid (Gen.ofD o) v = o.g.isVertexValid v ∧
    Generated.Graph.Directed.InDegree (Gen.ofD o) v = o.inDegree v ∧
    Generated.Graph.Directed.OutDegree (Gen.ofD o) v = o.outDegree v :=
  ⟨Gen.D_V o, Gen.D_E o, Gen.D_isVertexValid o v, Gen.D_InDegree o v, Gen.D_OutDegree o v⟩

/-- `(*Directed).Reverse()`: with fuel for the `V+1` tests of its `for v := 0; v < g.V(); v++` loop the generated code
(constructor, both loops, `rev.AddEdge(w, v)`) is `GObj.reverse`, a well-formed object. -/
theorem C14_generated_directed_reverse (fuel : Nat) (o : GObj) (hw : Gen.WFd o) (hf : o.g.n + 1 ≤ fuel) :
    Generated.Graph.Directed.Reverse fuel (Gen.ofD o) = .ok (Gen.ofD o.reverse) ∧ Gen.WFd o.reverse :=
  Gen.D_Reverse fuel o hw hf

/-- `NewUndirected(V, edges...)` is `GObj.build`; for `V < 0` it panics. -/
theorem C14_generated_undirected_new (n : Nat) (es : List EdgeIn) (V : Int) (hV : V < 0) (edges : Array (Array Int)) :
    Generated.Graph.NewUndirected (n : Int) (Gen.edgesOf es) = .ok (Gen.ofU (GObj.build .undirected n es)) ∧
    Gen.WFu (GObj.build .undirected n es) ∧
    Generated.Graph.NewUndirected V edges = .panic :=
  ⟨(Gen.U_New n es).1, (Gen.U_New n es).2, Gen.U_New_neg V hV edges⟩

/-- `(*Undirected).AddEdge(v, w)` at any point of a history, self-loops included. -/
theorem C14_generated_undirected_addEdge (o : GObj) (hw : Gen.WFu o) (u v wt : Int) :
    Generated.Graph.Undirected.AddEdge (Gen.ofU o) u v = .ok (Gen.ofU (o.addEdge u v wt)) ∧
    Gen.WFu (o.addEdge u v wt) :=
  Gen.U_AddEdge o hw u v wt

/-- `V()`, `E()`, `isVertexValid`, `Degree(v)` of `*Undirected`. -/
theorem C14_generated_undirected_accessors (o : GObj) (v : Int) :
    Generated.Graph.Undirected.V (Gen.ofU o) = o.V ∧ Generated.Graph.Undirected.E (Gen.ofU o) = o.E ∧
    Generated.Graph.Undirected.isVertexValid (Gen.ofU o) v = o.g.isVertexValid v ∧
    Generated.Graph.Undirected.Degree (Gen.ofU o) v = o.outDegree v :=
  ⟨Gen.U_V o, Gen.U_E o, Gen.U_isVertexValid o v, Gen.U_Degree o v⟩

/-- `(*Orders).ReversePostOrder()` (the loop writing `revOrder[l-1-i]`) is the hand Model's `reversePostOrder`;
`PreRank(v)` / `PostRank(v)` are the table reads. -/
theorem C14_generated_orders (o : Orders) (v : Nat) (h1 : v < o.preRank.size) (h2 : v < o.postRank.size) :
    Generated.Graph.Orders.ReversePostOrder (Gen.ofO o) = .ok (o.reversePostOrder.map Int.ofNat).toArray ∧
    Generated.Graph.Orders.PreRank (Gen.ofO o) v = .ok (o.preRank[v] : Int) ∧
    Generated.Graph.Orders.PostRank (Gen.ofO o) v = .ok (o.postRank[v] : Int) := by
  refine ⟨Gen.O_ReversePostOrder o, ?_, ?_⟩
  · rw [Gen.O_PreRank]; simp [h1]
  · rw [Gen.O_PostRank]; simp [h2]

/-- `(*ConnectedComponents).Components()` and `(*StronglyConnectedComponents).Components()` (the two copies of the
grouping loop) are the hand Model's `Components.components` — also its panic for an `id` entry ≥ `count`;
`ID`, `IsConnected`, `IsStronglyConnected` are reads of the `id` table. -/
theorem C14_generated_components (c : Components) (v w : Nat) (hv : v < c.id.size) (hw : w < c.id.size) :
    Generated.Graph.ConnectedComponents.Components (Gen.ofCC c) = c.components.map Gen.compsOf ∧
    Generated.Graph.StronglyConnectedComponents.Components (Gen.ofSCC c) = c.components.map Gen.compsOf ∧
    Generated.Graph.ConnectedComponents.ID (Gen.ofCC c) v = .ok (c.id[v] : Int) ∧
    Generated.Graph.StronglyConnectedComponents.ID (Gen.ofSCC c) v = .ok (c.id[v] : Int) ∧
    Generated.Graph.ConnectedComponents.IsConnected (Gen.ofCC c) v w = .ok (c.id[v] == c.id[w]) ∧
    Generated.Graph.StronglyConnectedComponents.IsStronglyConnected (Gen.ofSCC c) v w = .ok (c.id[v] == c.id[w]) := by
  refine ⟨Gen.CC_Components c, Gen.SCC_Components c, ?_, ?_, Gen.CC_IsConnected c v w hv hw,
    Gen.SCC_IsStronglyConnected c v w hv hw⟩
  · rw [Gen.CC_ID]; simp [hv]
  · rw [Gen.SCC_ID]; simp [hv]

-- the generated code run on the graph 0→1, 1→2, 2→0, 0→7 (invalid, ignored) over 3 vertices, then reversed
example : (Generated.Graph.NewDirected 3 #[#[0, 1], #[1, 2], #[2, 0], #[0, 7]]).bind (Generated.Graph.Directed.Reverse 4)
    = .ok ⟨3, 3, #[1, 1, 1], #[#[2], #[0], #[1]]⟩ := by decide
-- the hypotheses of the theorems above hold of every object a client can build (here with a self-loop)
example : Gen.WFd (GObj.build .directed 3 [⟨0, 1, 0⟩, ⟨1, 1, 0⟩]) := (Gen.D_New 3 _).2
example : Gen.WFu (GObj.build .undirected 3 [⟨0, 1, 0⟩, ⟨1, 1, 0⟩]) := (Gen.U_New 3 _).2
example : Generated.Graph.ConnectedComponents.Components ⟨2, #[0, 1, 0, 1]⟩ = .ok #[#[0, 2], #[1, 3]] := by decide

/-! ### the weighted types (`Generated/C14WGen.lean`, rewritten from `graph/{weighted_directed,weighted_undirected}.go`)

The Go code only copies a `float64` weight (the translator refuses every operator on the type), the hand Model carries an
`Int`: each statement holds for EVERY map `wOf : Int → Go.F64` of the hand Model's weights to float64 values.
`Gen.ofWD wOf o` / `Gen.ofWU wOf o`: the object `o` as the generated structure, an adjacency entry `x` being the edge struct
`⟨x.e.a, x.e.b, wOf x.e.w⟩`; `Gen.WFwd` / `Gen.WFwu`: lengths of `adj` / `ins`, and for the undirected type that an entry of
`adj[v]` has `v` as an endpoint and stores the other one (so `e.Other(v)` is the neighbour the hand Model stores). -/

/-- `NewWeightedDirected(V, edges...)` is `GObj.build`; for `V < 0` it panics. -/
theorem C14_generated_wdirected_new (wOf : Int → Go.F64) (n : Nat) (es : List EdgeIn) (V : Int) (hV : V < 0)
    (edges : Array Generated.GraphW.DirectedEdge) :
    Generated.GraphW.NewWeightedDirected (n : Int) (Gen.dedgesOf wOf es) = .ok (Gen.ofWD wOf (GObj.build .wdirected n es)) ∧
    Gen.WFwd (GObj.build .wdirected n es) ∧
    Generated.GraphW.NewWeightedDirected V edges = .panic :=
  ⟨(Gen.WD_New wOf n es).1, (Gen.WD_New wOf n es).2, Gen.WD_New_neg V hV edges⟩

/-- `(*WeightedDirected).AddEdge(DirectedEdge{u, v, w})` at any point of a history, for every pair of `int`s. -/
theorem C14_generated_wdirected_addEdge (wOf : Int → Go.F64) (o : GObj) (hw : Gen.WFwd o) (u v wt : Int) :
    Generated.GraphW.WeightedDirected.AddEdge (Gen.ofWD wOf o) ⟨u, v, wOf wt⟩ = .ok (Gen.ofWD wOf (o.addEdge u v wt)) ∧
    Gen.WFwd (o.addEdge u v wt) :=
  Gen.WD_AddEdge wOf o hw u v wt

/-- `V()`, `E()`, `isVertexValid`, `InDegree`, `OutDegree`, `Adj` (the value returned; `nil` and the empty list are both
`#[]`) of `*WeightedDirected`, and `Edges()` (every list of `adj` in turn): the hand Model's, for every object and `int`. -/
theorem C14_generated_wdirected_accessors (wOf : Int → Go.F64) (o : GObj) (hk : o.kind.isDirected = true) (v : Int) :
    Generated.GraphW.WeightedDirected.V (Gen.ofWD wOf o) = o.V ∧ Generated.GraphW.WeightedDirected.E (Gen.ofWD wOf o) = o.E ∧
    Generated.GraphW.WeightedDirected.isVertexValid (Gen.ofWD wOf o) v = o.g.isVertexValid v ∧
    Generated.GraphW.WeightedDirected.InDegree (Gen.ofWD wOf o) v = o.inDegree v ∧
    Generated.GraphW.WeightedDirected.OutDegree (Gen.ofWD wOf o) v = o.outDegree v ∧
    Generated.GraphW.WeightedDirected.Adj (Gen.ofWD wOf o) v = (o.adjOf v).map (Gen.sliceOf (Gen.deOf wOf)) ∧
    Generated.GraphW.WeightedDirected.Edges (Gen.ofWD wOf o) = .ok (o.edges.map (Gen.deE wOf)).toArray :=
  ⟨Gen.WD_V wOf o, Gen.WD_E wOf o, Gen.WD_isVertexValid wOf o v, Gen.WD_InDegree wOf o v, Gen.WD_OutDegree wOf o v,
    Gen.WD_Adj wOf o v, Gen.WD_Edges wOf o hk⟩

/-- `(*WeightedDirected).Reverse()` (each stored edge re-added as `DirectedEdge{e.To(), e.From(), e.Weight()}`), with
fuel for the `V+1` tests of its loop, is `GObj.reverse`. -/
theorem C14_generated_wdirected_reverse (wOf : Int → Go.F64) (fuel : Nat) (o : GObj) (hw : Gen.WFwd o)
    (hf : o.g.n + 1 ≤ fuel) :
    Generated.GraphW.WeightedDirected.Reverse fuel (Gen.ofWD wOf o) = .ok (Gen.ofWD wOf o.reverse) ∧ Gen.WFwd o.reverse :=
  Gen.WD_Reverse wOf fuel o hw hf

/-- `NewWeightedUndirected(V, edges...)` is `GObj.build`; for `V < 0` it panics. -/
theorem C14_generated_wundirected_new (wOf : Int → Go.F64) (n : Nat) (es : List EdgeIn) (V : Int) (hV : V < 0)
    (edges : Array Generated.GraphW.UndirectedEdge) :
    Generated.GraphW.NewWeightedUndirected (n : Int) (Gen.uedgesOf wOf es) = .ok (Gen.ofWU wOf (GObj.build .wundirected n es)) ∧
    Gen.WFwu (GObj.build .wundirected n es) ∧
    Generated.GraphW.NewWeightedUndirected V edges = .panic :=
  ⟨(Gen.WU_New wOf n es).1, (Gen.WU_New wOf n es).2, Gen.WU_New_neg V hV edges⟩

/-- `(*WeightedUndirected).AddEdge(UndirectedEdge{u, v, w})` (`v := e.Either(); w := e.Other(v)`, the edge stored in both
lists) at any point of a history, self-loops included. -/
theorem C14_generated_wundirected_addEdge (wOf : Int → Go.F64) (o : GObj) (hw : Gen.WFwu o) (u v wt : Int) :
    Generated.GraphW.WeightedUndirected.AddEdge (Gen.ofWU wOf o) ⟨u, v, wOf wt⟩ = .ok (Gen.ofWU wOf (o.addEdge u v wt)) ∧
    Gen.WFwu (o.addEdge u v wt) :=
  Gen.WU_AddEdge wOf o hw u v wt

/-- `V()`, `E()`, `isVertexValid`, `Degree`, `Adj` of `*WeightedUndirected`; `Edges()` — each edge once, listed from
the endpoint `v` with `e.Other(v) > v`, a self-loop never — is the hand Model's `edges`; `Other` is its `switch`. -/
theorem C14_generated_wundirected_accessors (wOf : Int → Go.F64) (o : GObj) (hw : Gen.WFwu o) (v : Int)
    (e : Generated.GraphW.UndirectedEdge) :
    Generated.GraphW.WeightedUndirected.V (Gen.ofWU wOf o) = o.V ∧ Generated.GraphW.WeightedUndirected.E (Gen.ofWU wOf o) = o.E ∧
    Generated.GraphW.WeightedUndirected.isVertexValid (Gen.ofWU wOf o) v = o.g.isVertexValid v ∧
    Generated.GraphW.WeightedUndirected.Degree (Gen.ofWU wOf o) v = o.outDegree v ∧
    Generated.GraphW.WeightedUndirected.Adj (Gen.ofWU wOf o) v = (o.adjOf v).map (Gen.sliceOf (Gen.ueOf wOf)) ∧
    Generated.GraphW.WeightedUndirected.Edges (Gen.ofWU wOf o) = .ok (o.edges.map (Gen.ueE wOf)).toArray ∧
    Generated.GraphW.UndirectedEdge.Other e v = (if v = e.v then e.w else if v = e.w then e.v else -1) :=
  ⟨Gen.WU_V wOf o, Gen.WU_E wOf o, Gen.WU_isVertexValid wOf o v, Gen.WU_Degree wOf o v, Gen.WU_Adj wOf o v,
    Gen.WU_Edges wOf o hw, Gen.other_eq e v⟩

-- the generated code run on the weighted undirected graph 0–1 (w₁), 1–1 (w₂), 2–0 (w₃) over 3 vertices: Edges() lists
-- 0–1 once, from vertex 0, the edge {2,0} once, from vertex 0 too (Other(0) = 2 > 0), and never the self-loop
example : (Generated.GraphW.NewWeightedUndirected 3 #[⟨0, 1, ⟨11⟩⟩, ⟨1, 1, ⟨22⟩⟩, ⟨2, 0, ⟨33⟩⟩]).bind
    Generated.GraphW.WeightedUndirected.Edges = .ok #[⟨0, 1, ⟨11⟩⟩, ⟨2, 0, ⟨33⟩⟩] := by decide
example : Gen.WFwu (GObj.build .wundirected 3 [⟨0, 1, 5⟩, ⟨1, 1, -2⟩, ⟨2, 0, 7⟩]) := (Gen.WU_New (fun _ => ⟨0⟩) 3 _).2
example : Gen.WFwd (GObj.build .wdirected 3 [⟨0, 1, 5⟩, ⟨1, 1, -2⟩]) := (Gen.WD_New (fun _ => ⟨0⟩) 3 _).2
