import AlgoVerif.Model.C14
import AlgoVerif.Model.C14W
import AlgoVerif.Spec.C14
/-! # C14 — property theorems (under construction) -/
open AlgoVerif AlgoVerif.C14

theorem C14_placeholder : (Graph.new 0).n = 0 := rfl
