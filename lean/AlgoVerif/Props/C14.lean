import AlgoVerif.Common
/-! # C14 — property theorems (none yet) -/
