import AlgoVerif.Proofs.C19Top
import AlgoVerif.Proofs.C19Pos
/-!
# C19 — property theorems (statements only live here; helper lemmas in `Proofs/C19*.lean`)

Reading of the property.  `runNew ⟨bytes, script, tailEof⟩ n ops` (`Model/C19Run.lean`) is `New(_, src, n)` followed
by the calls `ops` on the Model of `/repo/lexer/input/{input,utf8}.go`; `src` is the reader that delivers `bytes`
according to `script` (any finite list of answers: at most `cap` bytes / half of the request / a zero-length
read, `io.EOF` together with the last bytes or on the call after, an I/O error) and then fills every request.
"Every io.Reader that eventually delivers the source" is every `script` without I/O-error answers, every
`tailEof`.  The decoded source is a `List Char`; its bytes are `Spec.encode` = `String.utf8EncodeChar` of each
rune (Lean core's UTF-8 encoder).  `Spec.run (Spec.init cs) ops` is the abstract reader of `Spec/C19.lean`
(three cursors `flushed ++ pending ++ rest = cs`); `Spec.Keeps n … ops` says that after every call the pending
lexeme has at most `n` bytes — the property's precondition.

What is proved for ALL sources without U+0000, ALL buffer sizes `n ≥ 1`, ALL such readers, ALL call sequences:
the UTF-8 decoder is exact (`C19_utf8_decode_correct`), `Next` until end of input delivers the decoded source
(`C19_next_delivers_source_partial`), any interleaving of Next/Retract/Lexeme/Skip within the precondition returns
exactly what the Spec returns, nothing panics or hangs (`C19_lexemes_concat_partial`), positions are offset/line/
column of the first rune of each lexeme (`C19_positions_correct_partial`), ill-formed UTF-8 is reported
(`C19_invalid_utf8_reported_partial`) with the offset, line and column of the first byte of the ill-formed sequence
and the text `file:line:column: invalid utf-8 character` (`C19_invalid_utf8_position_partial`); what a caller prints
of a lexeme's position is `file:line:column` of its first rune (`C19_position_string_linecol`,
`C19_lexeme_position_rendered_partial`; `Model/C19X.lean` transcribes `lexer.Position`, `lexer.Token` and
`(*InputError).Error`, the file name being the argument of `New`).  The two gaps are the known findings C19-NUL and
C19-TRUNC; for each a kernel-checked counterexample on the Model stands next to the `_partial` theorem.

Proof: buffer invariant `Inv` (which bytes the two halves hold, what `forward`, `err`, `ahead` mean), preserved
by `next()` for every reader behaviour (`Proofs/C19Reader`, `C19Buf`); `Next` = the table-driven decoder on the
bytes at `forward` (`C19Next`), the decoder = UTF-8 by cases on the lead-byte class read off the regenerated
tables (`C19Utf8`); `Retract`, the copy loop of `Lexeme`, `Skip` (`C19Retract`, `C19Lexeme`); forward simulation
`Rel` by induction over the call sequence (`C19Refine`, `C19Top`).  No bound on anything.
-/
open AlgoVerif AlgoVerif.C19

/-! ## 1. the decoder -/

/-- The table-driven decoder of `Next` (`decodeRune`: tables `first`, `acceptRanges` regenerated from
utf8.go, masks and shifts as in the code) returns rune `r` of length `k` for a byte sequence **iff** the
sequence starts with the UTF-8 encoding of the scalar value `r`, whose length is `k`: it decodes every scalar
value correctly whatever follows it, and accepts nothing else (overlong forms, surrogates, values above U+10FFFF,
stray continuation bytes, bad continuation bytes all fail).  `Input.Next` runs exactly this function on the bytes
at `forward` (`Next_spec`, used by every theorem below). -/
theorem C19_utf8_decode_correct (bs : List UInt8) (r k : Nat) :
    decodeRune bs = .rune r k ↔
      ∃ (c : Char) (rest : List UInt8), bs = String.utf8EncodeChar c ++ rest ∧ r = c.toNat ∧ k = c.utf8Size :=
  decodeRune_eq_rune_iff bs r k

set_option maxRecDepth 100000 in
/-- non-vacuity: the first and the last scalar value of every length, followed by arbitrary bytes; and
ill-formed sequences of every class (lone continuation byte, C0/C1, overlong E0/F0, surrogate, above U+10FFFF,
bad second / third / fourth byte) are rejected after the byte that makes them ill-formed. -/
example :
    [[0x00, 0xff], [0x7f], [0xc2, 0x80, 0x80], [0xdf, 0xbf], [0xe0, 0xa0, 0x80], [0xed, 0x9f, 0xbf], [0xee, 0x80, 0x80],
     [0xef, 0xbf, 0xbf, 0x41], [0xf0, 0x90, 0x80, 0x80], [0xf4, 0x8f, 0xbf, 0xbf]].map decodeRune
      = [.rune 0 1, .rune 0x7f 1, .rune 0x80 2, .rune 0x7ff 2, .rune 0x800 3, .rune 0xd7ff 3, .rune 0xe000 3,
         .rune 0xffff 3, .rune 0x10000 4, .rune 0x10ffff 4] ∧
    [[0x80], [0xc0, 0x80], [0xc1, 0xbf], [0xe0, 0x9f, 0xbf], [0xed, 0xa0, 0x80], [0xf0, 0x8f, 0xbf, 0xbf],
     [0xf4, 0x90, 0x80, 0x80], [0xf5, 0x80, 0x80, 0x80], [0xc3, 0x41], [0xe2, 0x82, 0x41], [0xf0, 0x90, 0x80, 0x41],
     [0xc3], [0xe2, 0x82], [0xf0, 0x90, 0x80]].map decodeRune
      = [.invalid 1, .invalid 1, .invalid 1, .invalid 2, .invalid 2, .invalid 2, .invalid 2, .invalid 1, .invalid 2,
         .invalid 3, .invalid 4, .short, .short, .short] := by
  decide

/-! ## 2. `Next` until end of input -/

/-
Full statement (false of the code, known finding C19-NUL): the theorem below without the hypothesis `hnul`.
Missing: sources that contain U+0000.  The code uses the byte 0x00 as end-of-input sentinel
(`const eof byte = 0x00`, tested after every byte except the first of a half), and the repository's unit tests
build `Input` values whose buffers end in NUL and expect `io.EOF`, so the sentinel cannot go without editing them.
-/
/-- For every list of runes without U+0000, every buffer size `n ≥ 1`, every reader without I/O errors (however
it chunks its reads, however often it returns `(0, nil)`, whether it reports `io.EOF` with the last bytes or
afterwards): `New`, then `Next` called (number of runes + `k`) times, returns exactly the runes in order and then
`io.EOF` `k` times; nothing panics, nothing hangs.  For the empty source `New` itself returns `io.EOF`.
(`n` may be smaller than a rune: `Next` alone never needs more than one byte of look-back.) -/
theorem C19_next_delivers_source_partial (cs : List Char) (hnul : ∀ c ∈ cs, c.toNat ≠ 0) (n : Nat) (hn : 0 < n)
    (script : List Answer) (tailEof : Bool) (hio : ∀ a ∈ script, a.flag ≠ .ioerr) (k : Nat) :
    runNew ⟨Spec.encode cs, script, tailEof⟩ n (List.replicate (cs.length + k) .next) =
      if cs = [] then .failed .eof
      else .ran (cs.map (fun c => .ok (.rune c.toNat)) ++ List.replicate k (.ok (.err .eof))) :=
  next_delivers_source cs hnul n hn script tailEof hio k

set_option maxRecDepth 100000 in
/-- non-vacuity, and the historic defect D23 on the Model: `"hé€𐀀\n"` through a reader that answers with one
byte, nothing, half of the request, then `io.EOF` together with the last bytes, buffer size 2 (every multi-byte
rune straddles a half boundary). -/
example :
    runNew ⟨Spec.encode "hé€𐀀\n".toList, [{ cap := 1 }, { cap := 0 }, { half := true, cap := 0 }, { cap := 1 }], true⟩ 2
        (List.replicate 7 .next)
      = .ran [.ok (.rune 104), .ok (.rune 233), .ok (.rune 8364), .ok (.rune 65536), .ok (.rune 10),
              .ok (.err .eof), .ok (.err .eof)] := by
  decide

set_option maxRecDepth 100000 in
/-- Known finding C19-NUL, kernel-checked on the Model: source `a b NUL c d`, buffer size 8, a reader that fills
every request: the third `Next` returns `io.EOF` although three more runes follow. -/
theorem C19_counterexample_nul_ends_input :
    runNew { rest := [0x61, 0x62, 0x00, 0x63, 0x64] } 8 [.next, .next, .next]
      = .ran [.ok (.rune 97), .ok (.rune 98), .ok (.err .eof)] := by decide

set_option maxRecDepth 100000 in
/-- …but a NUL that is the first byte of a buffer half is an ordinary rune (same source, buffer size 2). -/
example :
    runNew { rest := [0x61, 0x62, 0x00, 0x63, 0x64] } 2 [.next, .next, .skip, .next, .next, .lexeme, .next, .next]
      = .ran [.ok (.rune 97), .ok (.rune 98), .ok (.skipped ⟨0, 1, 1⟩), .ok (.rune 0), .ok (.rune 99),
              .ok (.lexeme [0, 0x63] ⟨2, 1, 3⟩), .ok (.rune 100), .ok (.err .eof)] := by decide

/-! ## 3. any interleaving of Next / Retract / Lexeme / Skip -/

/-
Full statement (false of the code, known finding C19-NUL): as below without `hnul`.
Missing: sources that contain U+0000 (see section 2).
-/
/-- For every list of runes `cs` without U+0000, every `n ≥ 1`, every reader without I/O errors and EVERY call
sequence `ops` that keeps the pending lexeme within `n` bytes:
1. the Model's trace is exactly the Spec's outputs, each wrapped in `ok` — every `Next` returns the next rune of
   the source (or `io.EOF` at its end), every `Retract` gives back exactly the last rune, every `Lexeme` returns
   the bytes of the pending runes, nothing panics or hangs (this includes the historic defects D24: `Retract`
   after the last rune, `Retract` across a half boundary, and D27: `Lexeme` when the source ends with the buffer);
2. the spans handed out by `Lexeme` and passed over by `Skip`, in order, concatenate to the bytes of the runes
   consumed and flushed so far;
3. flushed, pending and unread runes always partition the source. -/
theorem C19_lexemes_concat_partial (cs : List Char) (hnul : ∀ c ∈ cs, c.toNat ≠ 0) (n : Nat) (hn : 0 < n)
    (script : List Answer) (tailEof : Bool) (hio : ∀ a ∈ script, a.flag ≠ .ioerr)
    (ops : List Op) (hkeep : Spec.Keeps n (Spec.init cs) ops) :
    runNew ⟨Spec.encode cs, script, tailEof⟩ n ops =
        (if cs = [] then .failed .eof else .ran ((Spec.run (Spec.init cs) ops).map .ok)) ∧
    (Spec.spans (Spec.init cs) ops).flatten = Spec.encode (Spec.final (Spec.init cs) ops).flushed ∧
    (Spec.final (Spec.init cs) ops).flushed ++ (Spec.final (Spec.init cs) ops).pending
        ++ (Spec.final (Spec.init cs) ops).rest = cs :=
  ⟨runNew_refines cs hnul n hn script tailEof hio ops hkeep,
   by simpa [Spec.init, Spec.encode] using Spec.spans_flatten (Spec.init cs) ops,
   Spec.final_partition (Spec.init cs) ops⟩

/-- the call sequence of the example below: scanner style (read past the delimiter, retract it, take the lexeme),
retraction of several runes, a skip, retraction across half boundaries and at end of input -/
def C19_exampleOps : List Op :=
  [.next, .next, .next, .retract, .lexeme, .next, .next, .retract, .retract, .next, .skip, .next, .lexeme, .next,
   .lexeme, .next, .lexeme, .next, .next, .retract, .lexeme, .next, .next, .retract, .next, .lexeme]

/-- non-vacuity: the hypothesis `Keeps` holds for that call sequence on `"ab\nc€é𐀀d"` with buffer size 5 … -/
example : Spec.Keeps 5 (Spec.init "ab\nc€é𐀀d".toList) C19_exampleOps := by decide

set_option maxRecDepth 100000 in
/-- … and the Model (one-byte / zero-length / half / EOF-with-data reader) returns: lexemes `ab`, `c`, `€`, `é`,
`𐀀`, `d`, one skipped newline, positions 1:1, 1:3, 2:1, 2:2, 2:3, 2:4, 2:5. -/
example :
    runNew ⟨Spec.encode "ab\nc€é𐀀d".toList,
        [{ cap := 1 }, { cap := 0 }, { half := true, cap := 0 }, { cap := 3, flag := .eofWithData }], true⟩ 5 C19_exampleOps
      = .ran [.ok (.rune 97), .ok (.rune 98), .ok (.rune 10), .ok .unit, .ok (.lexeme [97, 98] ⟨0, 1, 1⟩),
          .ok (.rune 10), .ok (.rune 99), .ok .unit, .ok .unit, .ok (.rune 10), .ok (.skipped ⟨2, 1, 3⟩),
          .ok (.rune 99), .ok (.lexeme [99] ⟨3, 2, 1⟩), .ok (.rune 8364), .ok (.lexeme [226, 130, 172] ⟨4, 2, 2⟩),
          .ok (.rune 233), .ok (.lexeme [195, 169] ⟨5, 2, 3⟩), .ok (.rune 65536), .ok (.rune 100), .ok .unit,
          .ok (.lexeme [240, 144, 128, 128] ⟨6, 2, 4⟩), .ok (.rune 100), .ok (.err .eof), .ok .unit,
          .ok (.rune 100), .ok (.lexeme [100] ⟨7, 2, 5⟩)] := by
  decide

/-! ## 4. positions -/

/-
Full statement (false of the code, known finding C19-NUL): as below without `hnul`.
Missing: sources that contain U+0000 (see section 2).
-/
/-- Under the hypotheses of section 3: when a call sequence `ops` is followed by `Lexeme` (or `Skip`), that call
returns the position `Spec.posAfter flushed` — the number of runes before, the 1-based line (1 + newlines before)
and the 1-based column (1 + runes since the last newline) — computed from exactly the runes `flushed` that
precede the lexeme in the source: `flushed ++ pending ++ rest = cs`, `pending` being the lexeme returned.
(`Position.Offset` counts runes, as the comment on `Input.offset` says; `lexer.Position` documents it as a byte
offset — the property asks for line and column only.) -/
theorem C19_positions_correct_partial (cs : List Char) (hnul : ∀ c ∈ cs, c.toNat ≠ 0) (hne : cs ≠ [])
    (n : Nat) (hn : 0 < n) (script : List Answer) (tailEof : Bool) (hio : ∀ a ∈ script, a.flag ≠ .ioerr)
    (ops : List Op) (last : Op) (hlast : last = .lexeme ∨ last = .skip)
    (hkeep : Spec.Keeps n (Spec.init cs) (ops ++ [last])) :
    let st := Spec.final (Spec.init cs) ops
    st.flushed ++ st.pending ++ st.rest = cs ∧
    runNew ⟨Spec.encode cs, script, tailEof⟩ n (ops ++ [last]) =
      .ran ((Spec.run (Spec.init cs) ops).map .ok ++
        [.ok (if last = .lexeme then .lexeme (Spec.encode st.pending) (Spec.posAfter st.flushed)
              else .skipped (Spec.posAfter st.flushed))]) := by
  intro st
  refine ⟨Spec.final_partition (Spec.init cs) ops, ?_⟩
  rw [runNew_refines cs hnul n hn script tailEof hio _ hkeep, if_neg hne, Spec.run_append]
  rcases hlast with h | h <;> subst h <;> simp [Spec.run, Spec.step, st]

/-- non-vacuity of the position function: line and column of the rune after `"ab\ncd\n\né"` (8 runes). -/
example : Spec.posAfter "ab\ncd\n\né".toList = ⟨8, 4, 2⟩ := by decide

/-! ## 5. invalid UTF-8 -/

/-
Full statement (false of the code, known finding C19-TRUNC): as below with the weaker hypothesis "`tail` does not
start with the encoding of a scalar value" (i.e. `∀ r k, decodeRune tail ≠ .rune r k`, by
`C19_utf8_decode_correct`).  Missing: `decodeRune tail = .short` — the source ends inside a multi-byte sequence
whose bytes so far are admissible; `next()` then returns the sticky `io.EOF` and `Next` passes it on, and the
repository's tests (`SecondByte_EOF`, `ThirdByte_EOF`, `FourthByte_EOF`) expect exactly that.
-/
/-- A source made of well-formed runes `cs` followed by bytes `tail` on which the decoder fails after `k` bytes
(`.invalid k`: a byte that cannot start a sequence, or a second/third/fourth byte outside its range — by
`C19_utf8_decode_correct` nothing well-formed is ever classified so), without NUL bytes: the `Next` that reaches
`tail` returns the error "invalid utf-8 character" after all runes of `cs` were delivered unaltered — for every
buffer size and every reader without I/O errors. -/
theorem C19_invalid_utf8_reported_partial (cs : List Char) (tail : List UInt8) (k : Nat)
    (hbad : decodeRune tail = .invalid k) (hnul : ∀ b ∈ Spec.encode cs ++ tail, b ≠ 0)
    (n : Nat) (hn : 0 < n) (script : List Answer) (tailEof : Bool) (hio : ∀ a ∈ script, a.flag ≠ .ioerr) :
    ∃ pos, runNew ⟨Spec.encode cs ++ tail, script, tailEof⟩ n (List.replicate cs.length .next ++ [.next])
      = .ran (cs.map (fun c => .ok (.rune c.toNat)) ++ [.ok (.invalid pos)]) :=
  invalid_reported cs tail k hbad hnul n hn script tailEof hio

set_option maxRecDepth 100000 in
/-- non-vacuity: `"a\n"` followed by an overlong `E0 9F BF`, one-byte reader, buffer size 2: the error carries the
position 2:1 (rune offset 2). -/
example :
    runNew ⟨[0x61, 0x0a, 0xe0, 0x9f, 0xbf], List.replicate 7 { cap := 1 }, false⟩ 2 [.next, .next, .next]
      = .ran [.ok (.rune 97), .ok (.rune 10), .ok (.invalid ⟨2, 2, 1⟩)] := by decide

set_option maxRecDepth 100000 in
/-- Known finding C19-TRUNC, kernel-checked on the Model: `a` followed by the lone lead byte `0xC3` at the very end
of the source is reported as `io.EOF`, the ordinary end of input, not as invalid UTF-8. -/
theorem C19_counterexample_truncated_rune_is_eof :
    runNew { rest := [0x61, 0xc3] } 8 [.next, .next] = .ran [.ok (.rune 97), .ok (.err .eof)] := by decide

set_option maxRecDepth 100000 in
/-- …followed by any other byte the same lead byte is reported as invalid UTF-8. -/
example :
    runNew { rest := [0x61, 0xc3, 0x62] } 8 [.next, .next]
      = .ran [.ok (.rune 97), .ok (.invalid ⟨1, 1, 2⟩)] := by decide

/-! ## 6. positions and errors as the caller sees them (`Position.String`, `(*InputError).Error`) -/

/-- `Position.String` (lexer.go) of the position of the rune that follows ANY list of runes `cs`, in an `Input`
made by `New(filename, …)`: line (1 + newlines in `cs`) and column (1 + runes since the last newline) are both
positive, so the rendering is always `line:column` — after `filename:` when there is a file name — and never the bare
offset.  By `C19_positions_correct_partial` these are the positions `Lexeme` and `Skip` return. -/
theorem C19_position_string_linecol (filename : String) (cs : List Char) :
    ((Spec.posAfter cs).at filename).String =
      (if filename = "" then "" else filename ++ ":") ++
        toString (Spec.advance (1, 1) cs).1 ++ ":" ++ toString (Spec.advance (1, 1) cs).2 :=
  String_at_posAfter filename cs

/-- non-vacuity: after `"ab\ncd\n\né"`, with and without a file name; and the other branch of `Position.String`
(line or column not positive: the offset), `Equal` on positions differing in exactly one field, `IsZero`. -/
example :
    ((Spec.posAfter "ab\ncd\n\né".toList).at "dir/a.src").String = "dir/a.src:4:2" ∧
    ((Spec.posAfter "ab\ncd\n\né".toList).at "").String = "4:2" ∧
    [(⟨"f", 7, 0, 3⟩ : Position).String, (⟨"", 7, 2, 0⟩ : Position).String, (⟨"", -7, -1, -1⟩ : Position).String]
      = ["f:7", "7", "-7"] ∧
    [Position.Equal ⟨"f", 7, 2, 3⟩ ⟨"f", 7, 2, 3⟩, Position.Equal ⟨"f", 7, 2, 3⟩ ⟨"g", 7, 2, 3⟩,
     Position.Equal ⟨"f", 7, 2, 3⟩ ⟨"f", 8, 2, 3⟩, Position.Equal ⟨"f", 7, 2, 3⟩ ⟨"f", 7, 1, 3⟩,
     Position.Equal ⟨"f", 7, 2, 3⟩ ⟨"f", 7, 2, 4⟩] = [true, false, false, false, false] ∧
    [Position.IsZero {}, Position.IsZero ⟨"f", 0, 0, 0⟩, Position.IsZero ⟨"", 1, 0, 0⟩, Position.IsZero ⟨"", 0, 1, 0⟩,
     Position.IsZero ⟨"", 0, 0, 1⟩] = [true, false, false, false, false] := by
  decide

/-
Full statement (false of the code, known finding C19-NUL): as below without `hnul`.
Missing: sources that contain U+0000 (see section 2).
-/
/-- Under the hypotheses of section 4, for an `Input` made by `New(filename, …)`: the position returned by the
`Lexeme` (or `Skip`) that follows a call sequence `ops`, printed by `Position.String`, reads `filename:line:column`
(`line:column` without a file name) with the line and the column of the first rune of the lexeme — the rune that
follows `flushed` in the source `flushed ++ pending ++ rest`. -/
theorem C19_lexeme_position_rendered_partial (filename : String) (cs : List Char) (hnul : ∀ c ∈ cs, c.toNat ≠ 0)
    (hne : cs ≠ []) (n : Nat) (hn : 0 < n) (script : List Answer) (tailEof : Bool)
    (hio : ∀ a ∈ script, a.flag ≠ .ioerr) (ops : List Op) (last : Op) (hlast : last = .lexeme ∨ last = .skip)
    (hkeep : Spec.Keeps n (Spec.init cs) (ops ++ [last])) :
    let st := Spec.final (Spec.init cs) ops
    ∃ o, runNew ⟨Spec.encode cs, script, tailEof⟩ n (ops ++ [last]) =
          .ran ((Spec.run (Spec.init cs) ops).map .ok ++ [.ok o]) ∧
      (o.position filename).map Position.String =
        some ((if filename = "" then "" else filename ++ ":") ++
          toString (Spec.advance (1, 1) st.flushed).1 ++ ":" ++ toString (Spec.advance (1, 1) st.flushed).2) := by
  intro st
  have h := (C19_positions_correct_partial cs hnul hne n hn script tailEof hio ops last hlast hkeep).2
  refine ⟨_, h, ?_⟩
  rcases hlast with hl | hl <;> subst hl <;>
    simp [Out.position, st, String_at_posAfter, filePrefix]

set_option maxRecDepth 100000 in
/-- non-vacuity: `"ab\ncé"` read through a one-byte reader with buffer size 3, file name `a.src`: the lexeme `cé`
starts at `a.src:2:1`. -/
example :
    Spec.Keeps 3 (Spec.init "ab\ncé".toList) [.next, .next, .next, .skip, .next, .next, .lexeme] ∧
    (match runNew ⟨Spec.encode "ab\ncé".toList, List.replicate 9 { cap := 1 }, false⟩ 3
        [.next, .next, .next, .skip, .next, .next, .lexeme] with
      | .ran outs => outs.map fun o => match o with
          | .ok o => (o.position "a.src").map Position.String
          | _ => none
      | _ => [])
      = [none, none, none, some "a.src:1:1", none, none, some "a.src:2:1"] := by
  decide

/-
Full statement (false of the code, known findings C19-NUL and C19-TRUNC): as below without `hnul` and with the weaker
hypothesis "`tail` does not start with the encoding of a scalar value" instead of `hbad`.  Missing: sources with
U+0000 (section 2) and a `tail` that is an admissible but incomplete sequence (section 5): `Next` then returns
`io.EOF`, which carries no position at all.
-/
/-- Where the error points.  A source made of well-formed runes `cs` followed by bytes `tail` on which the decoder
fails (as in section 5), an `Input` made by `New(filename, …)`, and ANY call sequence `ops` of
Next/Retract/Lexeme/Skip within the precondition that has not run into the ill-formed sequence yet (`hclean`) and
after which all of `cs` has been read (`hall`; e.g. `Next` × number of runes, with `Lexeme`s, `Skip`s and
retract-and-reread anywhere in between).  Then the next `Next` returns the `*InputError` whose position is
`Spec.posAfter cs`: the number of runes, the line and the column of the FIRST byte of the ill-formed sequence
(not of the byte at which the decoder gave up), whatever the buffer size and the reader; and its `Error()` text is
`filename:line:column: invalid utf-8 character` (`line:column: …` without a file name). -/
theorem C19_invalid_utf8_position_partial (filename : String) (cs : List Char) (tail : List UInt8) (k : Nat)
    (hbad : decodeRune tail = .invalid k) (hnul : ∀ b ∈ Spec.encode cs ++ tail, b ≠ 0)
    (n : Nat) (hn : 0 < n) (script : List Answer) (tailEof : Bool) (hio : ∀ a ∈ script, a.flag ≠ .ioerr)
    (ops : List Op) (hkeep : Spec.Keeps n (Spec.initT cs tail) (ops ++ [.next]))
    (hclean : ∀ o ∈ Spec.run (Spec.initT cs tail) ops, o.isInvalid = false)
    (hall : (Spec.final (Spec.initT cs tail) ops).rest = []) :
    runNew ⟨Spec.encode cs ++ tail, script, tailEof⟩ n (ops ++ [.next]) =
      .ran ((Spec.run (Spec.initT cs tail) ops).map .ok ++ [.ok (.invalid (Spec.posAfter cs))]) ∧
    (Out.invalid (Spec.posAfter cs)).errorText filename =
      some ((if filename = "" then "" else filename ++ ":") ++
        toString (Spec.advance (1, 1) cs).1 ++ ":" ++ toString (Spec.advance (1, 1) cs).2 ++
        ": invalid utf-8 character") := by
  refine ⟨invalid_position cs tail k hbad hnul n hn script tailEof hio ops hkeep hclean hall, ?_⟩
  simp only [Out.errorText, Pos.invalidError, InputError.Error, invalidUtf8, String_at_posAfter, filePrefix]
  rw [String.append_assoc (s₂ := ": ") (s₃ := "invalid utf-8 character")]
  have : ": " ++ "invalid utf-8 character" = ": invalid utf-8 character" := by decide
  rw [this]

set_option maxRecDepth 100000 in
/-- non-vacuity: `"a\nb"` followed by the surrogate encoding `ED A0 80` (the decoder gives up at its second byte),
buffer size 2, one-byte reader, the calls next next lexeme next retract next skip: hypotheses hold, and the error
reads `a.src:2:2: invalid utf-8 character`. -/
example :
    decodeRune [0xed, 0xa0, 0x80] = .invalid 2 ∧
    Spec.Keeps 2 (Spec.initT "a\nb".toList [0xed, 0xa0, 0x80]) ([.next, .next, .lexeme, .next, .retract, .next, .skip] ++ [.next]) ∧
    (∀ o ∈ Spec.run (Spec.initT "a\nb".toList [0xed, 0xa0, 0x80]) [.next, .next, .lexeme, .next, .retract, .next, .skip],
      o.isInvalid = false) ∧
    (Spec.final (Spec.initT "a\nb".toList [0xed, 0xa0, 0x80]) [.next, .next, .lexeme, .next, .retract, .next, .skip]).rest = [] ∧
    runNew ⟨[0x61, 0x0a, 0x62, 0xed, 0xa0, 0x80], List.replicate 8 { cap := 1 }, false⟩ 2
        [.next, .next, .lexeme, .next, .retract, .next, .skip, .next]
      = .ran [.ok (.rune 97), .ok (.rune 10), .ok (.lexeme [0x61, 0x0a] ⟨0, 1, 1⟩), .ok (.rune 98), .ok .unit,
              .ok (.rune 98), .ok (.skipped ⟨2, 2, 1⟩), .ok (.invalid ⟨3, 2, 2⟩)] ∧
    (Out.invalid ⟨3, 2, 2⟩).errorText "a.src" = some "a.src:2:2: invalid utf-8 character" := by
  decide
