import AlgoVerif.Common
/-! # C19 — property theorems (none yet) -/
