import AlgoVerif.Generated.Layout

/-! # C07: the state space the Model was written for (written by bin/mklayout, checked on every run)

The hand Model mirrors the Go code's state: the fields of its structs and nothing else (no package-level
variables).  `AlgoVerif.Generated.Layout` is regenerated from /repo by the extractor on every check; the theorems
below pin, for every source file the Model mirrors, the struct types it declares, their fields (name : type) and
the package-level variables it declares.  A new field — a cache, a memoised result, a scratch buffer, a counter —
a new struct type or a new package-level variable is state the Model does not describe: the theorems of
`Props/C07.lean` then no longer speak about the code, the obligation here breaks, and the check searches for
a failing input with the enlarged budget (DESIGN.md §4.6). -/

open AlgoVerif.Generated

-- sort/heap.go
theorem C07_layout_types_sort_heap : Layout.types_sort_heap = [] := rfl
theorem C07_layout_vars_sort_heap : Layout.vars_sort_heap = [] := rfl

-- sort/insertion.go
theorem C07_layout_types_sort_insertion : Layout.types_sort_insertion = [] := rfl
theorem C07_layout_vars_sort_insertion : Layout.vars_sort_insertion = [] := rfl

-- sort/merge.go
theorem C07_layout_types_sort_merge : Layout.types_sort_merge = [] := rfl
theorem C07_layout_vars_sort_merge : Layout.vars_sort_merge = [] := rfl

-- sort/quick.go
theorem C07_layout_types_sort_quick : Layout.types_sort_quick = [] := rfl
theorem C07_layout_vars_sort_quick : Layout.vars_sort_quick = [] := rfl

-- sort/selection.go
theorem C07_layout_types_sort_selection : Layout.types_sort_selection = [] := rfl
theorem C07_layout_vars_sort_selection : Layout.vars_sort_selection = [] := rfl

-- sort/shell.go
theorem C07_layout_types_sort_shell : Layout.types_sort_shell = [] := rfl
theorem C07_layout_vars_sort_shell : Layout.vars_sort_shell = [] := rfl

-- sort/shuffle.go
theorem C07_layout_types_sort_shuffle : Layout.types_sort_shuffle = [] := rfl
theorem C07_layout_vars_sort_shuffle : Layout.vars_sort_shuffle = [] := rfl

-- radixsort/lsd.go
theorem C07_layout_types_radixsort_lsd : Layout.types_radixsort_lsd = [] := rfl
theorem C07_layout_vars_radixsort_lsd : Layout.vars_radixsort_lsd = [] := rfl

-- radixsort/msd.go
theorem C07_layout_types_radixsort_msd : Layout.types_radixsort_msd = [] := rfl
theorem C07_layout_vars_radixsort_msd : Layout.vars_radixsort_msd = [] := rfl

-- radixsort/quick.go
theorem C07_layout_types_radixsort_quick : Layout.types_radixsort_quick = [] := rfl
theorem C07_layout_vars_radixsort_quick : Layout.vars_radixsort_quick = [] := rfl

-- radixsort/radixsort.go
theorem C07_layout_types_radixsort_radixsort : Layout.types_radixsort_radixsort = [] := rfl
theorem C07_layout_vars_radixsort_radixsort : Layout.vars_radixsort_radixsort = [] := rfl
