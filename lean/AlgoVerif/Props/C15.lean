import AlgoVerif.Proofs.C15Run
import AlgoVerif.Proofs.C01Inst
/-!
# C15 — balanced trees stay logarithmic and report their true height

`run kind a b c ops = .ok (s, outs)` says: the history `ops`, executed on the three tables `a b c` of the
Model of `symboltable/{bst,avl,red_black}.go` — here three fresh ones, `Table.new cmpA eqA` etc., each
constructed with its own comparator and value equality — ended in the state `s` (three table objects, the
first one being the table the calls act on; `.root` is its tree).  Every prefix of a history is a history,
so "after `ops`" is "after every step of every history".

* `Balanced` : the real heights of the two subtrees of every node differ by at most one;
* `HeightOK` : every cached `avlNode.height` is the real height of its subtree;
* `LLRB`     : black root, no red right link, no red node with a red left child, equal black height
  on every path (`RB`, `bh` in `Proofs/C01RbColor.lean`);
* `realHeight` : the longest root-to-leaf path, counted in nodes.

The AVL theorems need no assumption on the comparators at all; the LLRB ones assume `LawfulCmp` (of each
table's comparator) because `Delete` looks the key up first and relies on finding it again on the way down.
-/
open AlgoVerif AlgoVerif.C01

/-- AVL: balanced, and every cached height is the real one, after every history. -/
theorem C15_avl {K V : Type} (cmpA cmpB cmpC : K → K → Int) (eqA eqB eqC : V → V → Bool) (ops : List (Op K V))
    (s : State K V) (outs : List (Out K V))
    (hrun : run .avl (.new cmpA eqA) (.new cmpB eqB) (.new cmpC eqC) ops = .ok (s, outs)) :
    (Balanced s.1.root ∧ HeightOK s.1.root) ∧ (Balanced s.2.1.root ∧ HeightOK s.2.1.root) ∧
      (Balanced s.2.2.root ∧ HeightOK s.2.2.root) := by
  have := runFrom_inv (fun cmp => avl_kindInv cmp) ops (.new cmpA eqA, .new cmpB eqB, .new cmpC eqC) s outs
      ⟨trivial, trivial, trivial⟩ hrun
  exact ⟨this.1.balanced, this.2.1.balanced, this.2.2.balanced⟩

/-- A balanced tree of height `h` holds at least `fib (h+2) - 1` keys (so `h ≤ 1.44·log2(n+2)`). -/
theorem C15_avl_height {K V : Type} (t : Tree K V) (hb : Balanced t) :
    fib (t.realHeight + 2) ≤ t.nodes + 1 :=
  balanced_nodes_ge_fib hb

/-- AVL, in API terms: after every history `fib (Height() + 2) ≤ Size() + 1`. -/
theorem C15_avl_log {K V : Type} (cmpA cmpB cmpC : K → K → Int) (hA : LawfulCmp cmpA) (hB : LawfulCmp cmpB)
    (hC : LawfulCmp cmpC) (eqA eqB eqC : V → V → Bool)
    (ops : List (Op K V)) (s : State K V) (outs : List (Out K V))
    (hrun : run .avl (.new cmpA eqA) (.new cmpB eqB) (.new cmpC eqC) ops = .ok (s, outs)) :
    fib (height .avl s.1.root + 2) ≤ s.1.root.sz + 1 := by
  have ha := (runFrom_inv (fun cmp => avl_kindInv cmp) ops (.new cmpA eqA, .new cmpB eqB, .new cmpC eqC) s outs
      ⟨trivial, trivial, trivial⟩ hrun).1
  obtain ⟨s', outs', e, g, -⟩ := runFrom_ok (fun _ h => avl_kindOK h) ops _
    (goodS_new (fun _ h => avl_kindOK h) hA hB hC eqA eqB eqC)
  have hs : s' = s := by
    have : Outcome.ok (s', outs') = Outcome.ok (s, outs) := by rw [← e]; exact hrun
    simp only [Outcome.ok.injEq, Prod.mk.injEq] at this; exact this.1
  subst hs
  have hz := g.1.2.2
  rw [sz_eq_length hz, ← nodes_eq_length]
  exact avl_nodes_ge_fib ha

/-- LLRB: a left-leaning red-black tree after every history (all five mutators). -/
theorem C15_rb {K V : Type} (cmpA cmpB cmpC : K → K → Int) (hA : LawfulCmp cmpA) (hB : LawfulCmp cmpB)
    (hC : LawfulCmp cmpC) (eqA eqB eqC : V → V → Bool)
    (ops : List (Op K V)) (s : State K V) (outs : List (Out K V))
    (hrun : run .rb (.new cmpA eqA) (.new cmpB eqB) (.new cmpC eqC) ops = .ok (s, outs)) :
    LLRB s.1.root ∧ LLRB s.2.1.root ∧ LLRB s.2.2.root := by
  obtain ⟨s', outs', e, g, -⟩ := runFrom_ok (fun _ h => rb_kindOK h) ops _
    (goodS_new (fun _ h => rb_kindOK h) hA hB hC eqA eqB eqC)
  have hs : s' = s := by
    have : Outcome.ok (s', outs') = Outcome.ok (s, outs) := by rw [← e]; exact hrun
    simp only [Outcome.ok.injEq, Prod.mk.injEq] at this; exact this.1
  subst hs
  exact ⟨g.1.2.2, g.2.1.2.2, g.2.2.2.2⟩

/-- A left-leaning red-black tree of height `h` with `n` keys has `2^h ≤ (n+1)^2`, i.e.
`h ≤ 2·log2(n+1)`. -/
theorem C15_llrb_height {K V : Type} (t : Tree K V) (ht : LLRB t) : 2 ^ t.realHeight ≤ (t.nodes + 1) ^ 2 :=
  llrb_pow_height_le ht

/-- LLRB, in API terms: after every history `2^Height() ≤ (Size() + 1)^2`. -/
theorem C15_rb_log {K V : Type} (cmpA cmpB cmpC : K → K → Int) (hA : LawfulCmp cmpA) (hB : LawfulCmp cmpB)
    (hC : LawfulCmp cmpC) (eqA eqB eqC : V → V → Bool)
    (ops : List (Op K V)) (s : State K V) (outs : List (Out K V))
    (hrun : run .rb (.new cmpA eqA) (.new cmpB eqB) (.new cmpC eqC) ops = .ok (s, outs)) :
    2 ^ height .rb s.1.root ≤ (s.1.root.sz + 1) ^ 2 := by
  obtain ⟨s', outs', e, g, -⟩ := runFrom_ok (fun _ h => rb_kindOK h) ops _
    (goodS_new (fun _ h => rb_kindOK h) hA hB hC eqA eqB eqC)
  have hs : s' = s := by
    have : Outcome.ok (s', outs') = Outcome.ok (s, outs) := by rw [← e]; exact hrun
    simp only [Outcome.ok.injEq, Prod.mk.injEq] at this; exact this.1
  subst hs
  rw [sz_eq_length g.1.2.1.2, ← nodes_eq_length]
  exact llrb_pow_height_le g.1.2.2

/-- `Height()` is the length of the longest root-to-leaf path, for the three trees, after every history
(BST and LLRB recompute it; AVL returns the cached height of the root). -/
theorem C15_height_true {K V : Type} (kind : Kind) (cmpA cmpB cmpC : K → K → Int) (eqA eqB eqC : V → V → Bool)
    (ops : List (Op K V)) (s : State K V) (outs : List (Out K V))
    (hrun : run kind (.new cmpA eqA) (.new cmpB eqB) (.new cmpC eqC) ops = .ok (s, outs)) :
    height kind s.1.root = s.1.root.realHeight := by
  cases kind with
  | bst => rfl
  | rb => rfl
  | avl =>
    have := runFrom_inv (fun cmp => avl_kindInv cmp) ops (.new cmpA eqA, .new cmpB eqB, .new cmpC eqC) s outs
      ⟨trivial, trivial, trivial⟩ hrun
    exact this.1.ht_eq

/-! ### non-vacuity: the hypotheses are satisfiable on non-trivial states -/

/-- D1's witness (`Put 2; Put 3; DeleteMax`) and a longer history run to completion on the AVL Model and
reach non-trivial trees -/
example : okAnd (run1 .avl cmpAsc eqInt [.put 2 2, .put 3 3, .deleteMax, .height])
    (fun r => r.1.1.root.ht == 1 && r.1.1.root.sz == 1) = true := by decide

example : okAnd (run1 .avl cmpAsc eqInt
      [.put 1 1, .put 2 2, .put 3 3, .put 4 4, .put 5 5, .put 6 6, .put 7 7, .delete 4, .deleteMin, .deleteMax])
    (fun r => r.1.1.root.ht == 3 && r.1.1.root.sz == 4) = true := by decide

/-- an LLRB history with all kinds of deletes ends in a 5-key tree of height 3 -/
example : okAnd (run1 .rb cmpDesc eqInt
      [.put 1 1, .put 2 2, .put 3 3, .put 4 4, .put 5 5, .put 6 6, .put 7 7, .put 8 8, .delete 4, .deleteMin,
        .deleteMax])
    (fun r => r.1.1.root.sz == 5 && r.1.1.root.realHeight == 3 && !r.1.1.root.isRed) = true := by decide

example : LawfulCmp cmpAsc := lawful_cmpAsc
example : LawfulCmp cmpDesc := lawful_cmpDesc

/-- a balanced seven-node shape and an LLRB shape satisfy the hypotheses of the two height bounds -/
example : Balanced (Tree.node (.node .nil 1 1 1 1 false .nil) 2 2 3 2 false (.node .nil (3 : Int) (3 : Int) 1 1 false .nil)) := by
  simp [Balanced, Tree.realHeight]

example : LLRB (Tree.node (.node .nil 1 1 1 0 true .nil) (2 : Int) (2 : Int) 2 0 false .nil) := by
  simp [LLRB]
