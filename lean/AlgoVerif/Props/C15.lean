import AlgoVerif.Common
/-! # C15 — property theorems (none yet) -/
