import AlgoVerif.Model.C07
import AlgoVerif.Model.C07Radix
import AlgoVerif.Spec.C07
import AlgoVerif.Proofs.C07Examples
import AlgoVerif.Proofs.C07Insertion
import AlgoVerif.Proofs.C07Simple
import AlgoVerif.Proofs.C07Shell
import AlgoVerif.Proofs.C07Merge
import AlgoVerif.Proofs.C07Quick
import AlgoVerif.Proofs.C07Quick3
import AlgoVerif.Proofs.C07Heap
import AlgoVerif.Proofs.C07Counting
import AlgoVerif.Proofs.C07LSD
import AlgoVerif.Proofs.C07Q3String
import AlgoVerif.Proofs.C07MsdString
import AlgoVerif.Proofs.C07MsdWords
import AlgoVerif.Proofs.C07Gen
/-!
# C07 — every sort returns the sorted permutation of its input

Statements only; the proofs are in `Proofs/C07*.lean`.  Every theorem says that the Model of the
Go function, run on an arbitrary slice (no length bound) with an arbitrary comparator that is a
total preorder (`TotalPreorder`: sign flip + transitivity, not necessarily injective), returns `ok`
(it neither indexes out of range nor runs out of loop fuel) and that the result is sorted and a
permutation of the input (`IsSortOf`).  The clock-seeded shuffle of `Quick` / `Select` is an arbitrary
function `choice` subject only to the contract of `rand.Intn` (`IntnContract`).
-/
open AlgoVerif AlgoVerif.C07

theorem C07_insertion {α : Type} (cmp : α → α → Int) (tp : TotalPreorder cmp) (a : Array α) :
    ∃ out, insertion cmp a = .ok out ∧ IsSortOf cmp out a := insertion_spec tp a

example : insertion exCmp #[(5, 0), (3, 1), (2, 2), (4, 3), (0, 4)] = .ok #[(3, 1), (0, 4), (4, 3), (5, 0), (2, 2)] := by decide

theorem C07_selection {α : Type} (cmp : α → α → Int) (tp : TotalPreorder cmp) (a : Array α) :
    ∃ out, selection cmp a = .ok out ∧ IsSortOf cmp out a := selection_spec tp a

example : selection exCmp #[(5, 0), (3, 1), (2, 2), (4, 3), (0, 4)] = .ok #[(3, 1), (0, 4), (4, 3), (2, 2), (5, 0)] := by decide

theorem C07_shell {α : Type} (cmp : α → α → Int) (tp : TotalPreorder cmp) (a : Array α) :
    ∃ out, shell cmp a = .ok out ∧ IsSortOf cmp out a := shell_spec tp a

example : ∃ out, shell exCmp #[(5, 0), (3, 1), (2, 2), (4, 3), (0, 4), (7, 5), (1, 6)] = .ok out ∧
    IsSortOf exCmp out #[(5, 0), (3, 1), (2, 2), (4, 3), (0, 4), (7, 5), (1, 6)] := C07_shell _ exCmp_tp _

theorem C07_merge {α : Type} (cmp : α → α → Int) (tp : TotalPreorder cmp) (zero : α) (a : Array α) :
    ∃ out, mergeBU cmp zero a = .ok out ∧ IsSortOf cmp out a := mergeBU_spec tp zero a

example : mergeBU exCmp (0, 0) #[(5, 0), (3, 1), (2, 2), (4, 3), (0, 4)] = .ok #[(3, 1), (0, 4), (4, 3), (5, 0), (2, 2)] := by decide

theorem C07_mergeRec {α : Type} (cmp : α → α → Int) (tp : TotalPreorder cmp) (zero : α) (a : Array α) :
    ∃ out, mergeRec cmp zero a = .ok out ∧ IsSortOf cmp out a := mergeRec_spec tp zero a

example : mergeRec exCmp (0, 0) #[(5, 0), (3, 1), (2, 2), (4, 3), (0, 4)] = .ok #[(3, 1), (0, 4), (4, 3), (5, 0), (2, 2)] := by decide

/-- `Shuffle` yields a permutation, for every outcome of the random source that respects the
contract of `r.Intn` -/
theorem C07_shuffle {α : Type} (choice : Nat → Int) (a : Array α) (hc : IntnContract choice a.size) :
    ∃ out, shuffle choice a = .ok out ∧ out.toList.Perm a.toList := by
  obtain ⟨out, h1, h2⟩ := shuffle_spec a hc
  exact ⟨out, h1, Array.perm_iff_toList_perm.1 h2⟩

example : IntnContract (fun i => if i = 0 then 2 else 0) 3 := by
  intro i hi; dsimp only; split <;> omega

/-- `Quick` (shuffle, then `quick`) for every shuffle outcome -/
theorem C07_quick {α : Type} (cmp : α → α → Int) (tp : TotalPreorder cmp) (choice : Nat → Int) (a : Array α)
    (hc : IntnContract choice a.size) :
    ∃ out, quick choice cmp a = .ok out ∧ IsSortOf cmp out a := by
  obtain ⟨s, h1, h2⟩ := shuffle_spec a hc
  obtain ⟨out, h3, h4, h5⟩ := quickCore_spec tp s
  exact ⟨out, by simp [quick, h1, h3], h4, h5.trans (Array.perm_iff_toList_perm.1 h2)⟩

example : quick (fun i => if i = 0 then 2 else 0) exCmp #[(5, 0), (3, 1), (2, 2), (4, 3)] = .ok #[(3, 1), (4, 3), (2, 2), (5, 0)] := by decide

/-- the deterministic core of `Quick` (what the verif hook `VerifQuickNoShuffle` runs) -/
theorem C07_quickCore {α : Type} (cmp : α → α → Int) (tp : TotalPreorder cmp) (a : Array α) :
    ∃ out, quickCore cmp a = .ok out ∧ IsSortOf cmp out a := quickCore_spec tp a

theorem C07_quick3way {α : Type} (cmp : α → α → Int) (tp : TotalPreorder cmp) (a : Array α) :
    ∃ out, quick3Way cmp a = .ok out ∧ IsSortOf cmp out a := quick3Way_spec tp a

example : quick3Way exCmp #[(5, 0), (3, 1), (2, 2), (4, 3), (0, 4)] = .ok #[(3, 1), (0, 4), (4, 3), (5, 0), (2, 2)] := by decide

theorem C07_heap {α : Type} (cmp : α → α → Int) (tp : TotalPreorder cmp) (zero : α) (a : Array α) :
    ∃ out, heap cmp zero a = .ok out ∧ IsSortOf cmp out a := heap_spec tp zero a

example : ∃ out, heap exCmp (0, 0) #[(5, 0), (3, 1), (2, 2), (4, 3), (0, 4)] = .ok out ∧
    IsSortOf exCmp out #[(5, 0), (3, 1), (2, 2), (4, 3), (0, 4)] := C07_heap _ exCmp_tp _ _

/-- `Select(a, k)` returns an element of rank `k`, for every `0 ≤ k < len(a)` and every shuffle
outcome; the slice stays a permutation of the input -/
theorem C07_select {α : Type} (cmp : α → α → Int) (tp : TotalPreorder cmp) (choice : Nat → Int) (a : Array α)
    (hc : IntnContract choice a.size) (k : Nat) (hk : k < a.size) :
    ∃ out v, select choice cmp a (k : Int) = .ok (out, v) ∧ out.toList.Perm a.toList ∧ HasRank cmp a.toList k v := by
  obtain ⟨s, h1, h2⟩ := shuffle_spec a hc
  have hsz : s.size = a.size := h2.size_eq
  obtain ⟨out, v, h3, h4, h5⟩ := selectLoop_spec tp s k (by omega)
  refine ⟨out, v, by simp [select, h1, h3], ?_, ?_⟩
  · exact Array.perm_iff_toList_perm.1 (h4.trans h2)
  · exact hasRank_of_perm (Array.perm_iff_toList_perm.1 h2) h5

example : ∃ out v, select (fun _ => 0) exCmp #[(5, 0), (3, 1), (2, 2), (4, 3), (0, 4)] ((2 : Nat) : Int) = .ok (out, v) ∧
    out.toList.Perm [(5, 0), (3, 1), (2, 2), (4, 3), (0, 4)] ∧ HasRank exCmp [(5, 0), (3, 1), (2, 2), (4, 3), (0, 4)] 2 v :=
  C07_select _ exCmp_tp (fun _ => 0) _ (by intro i hi; simp only [List.size_toArray, List.length_cons, List.length_nil] at hi ⊢; omega) 2 (by decide)

/-! ## radix sorts: the output *equals* the reference sort (core `List.mergeSort`) by the native order -/

/-- `LSDUint` sorts every slice of 64-bit words by the `uint` order -/
theorem C07_lsdUint (a : Array UInt64) :
    ∃ out, lsdUint a = .ok out ∧ out.toList = a.toList.mergeSort uLe := lsdUint_spec countingPass_spec a

/-- `LSDInt` sorts every slice of 64-bit words by the `int` order (two's complement) -/
theorem C07_lsdInt (a : Array UInt64) :
    ∃ out, lsdInt a = .ok out ∧ out.toList = a.toList.mergeSort iLe := lsdInt_spec countingPass_spec a

/-- `LSDString(a, w)`: every key has at least `w` bytes ⇒ the stable sort by the first `w` bytes -/
theorem C07_lsdString_prefix (a : Array (List UInt8)) (w : Nat) (hw : ∀ s, s ∈ a.toList → w ≤ s.length) :
    ∃ out, lsdString a (w : Int) = .ok out ∧ out.toList = a.toList.mergeSort (prefixLe w) :=
  lsdString_spec countingPass_spec a w hw

/-- `LSDString(a, w)` on keys of width exactly `w` (the documented use): the native string order -/
theorem C07_lsdString (a : Array (List UInt8)) (w : Nat) (hw : ∀ s, s ∈ a.toList → s.length = w) :
    ∃ out, lsdString a (w : Int) = .ok out ∧ out.toList = a.toList.mergeSort bytesLe :=
  lsdString_fixed_spec countingPass_spec a w hw

example : ∀ s, s ∈ (#[[0xff, 0x61], [0x00, 0xff], [0x61, 0x61]] : Array (List UInt8)).toList → s.length = 2 := by decide

/-- `MSDString` sorts every slice of byte strings (any lengths, embedded NULs, shared prefixes) by the
native string order -/
theorem C07_msdString (a : Array (List UInt8)) :
    ∃ out, msdString a = .ok out ∧ out.toList = a.toList.mergeSort bytesLe := msdString_spec countingPass_spec a

/-- `Quick3WayString` (shuffle with the package-global source, then 3-way radix quicksort) sorts every
slice of byte strings by the native string order, for every shuffle outcome -/
theorem C07_q3String (choice : Nat → Int) (a : Array (List UInt8)) (hc : IntnContract choice a.size) :
    ∃ out, q3String choice a = .ok out ∧ out.toList = a.toList.mergeSort bytesLe := q3String_spec choice a hc

example : IntnContract (fun _ => 0) 20 := by intro i hi; dsimp only; omega

/-- `MSDUint` sorts every slice of 64-bit words by the `uint` order (after the fix of D11) -/
theorem C07_msdUint (a : Array UInt64) :
    ∃ out, msdUint a = .ok out ∧ out.toList = a.toList.mergeSort uLe := msdUint_spec a

/-- `MSDInt` sorts every slice of 64-bit words by the `int` order (two's complement) -/
theorem C07_msdInt (a : Array UInt64) :
    ∃ out, msdInt a = .ok out ∧ out.toList = a.toList.mergeSort iLe := msdInt_spec a

/-- the D11 shape: 17 words whose top bytes are 0 and 1 -/
example : ∃ out, msdUint (Array.ofFn (n := 17) fun i => (UInt64.ofNat (i.val % 2) <<< 56) ||| UInt64.ofNat (17 - i.val)) = .ok out ∧
    out.toList = (Array.ofFn (n := 17) fun i => (UInt64.ofNat (i.val % 2) <<< 56) ||| UInt64.ofNat (17 - i.val)).toList.mergeSort uLe :=
  C07_msdUint _

/-! ## the second tie: the Model REGENERATED from the source

`AlgoVerif.Generated.Sort.*` (file `Generated/C07Gen.lean`) is produced from
`/repo/sort/{insertion,selection,shell,heap,merge}.go` by the translator `/verif/extract/go2lean` on every run
of this check (`bin/pre-C07`; scheme, subset and what is trusted: header of `extract/go2lean/main.go`).
The hand Model gives every loop its own fuel; a generated definition recurses on the trip count in its counted
loops and hands the ONE `fuel` its caller supplies to every other loop.  `C07_generated_X_refines` therefore
says: for every slice, every comparator (no law assumed) and every fuel of at least the stated size, the hand
Model's result is `diverge` (its own fuel ran out) or the generated definition returns exactly the same
outcome — same slice, same panic.  `C07_generated_X` is the C07 statement about the generated definition
itself.  An edit of the Go source that changes what a function computes changes the generated file and these
stop checking.  Go's zero value of the element type is the `default` of the `Inhabited` instance. -/

open AlgoVerif.Generated.Sort AlgoVerif.Outcome AlgoVerif.C07.Gen

theorem C07_generated_insertion_refines {α : Type} [Inhabited α] (cmp : α → α → Int) (a : Array α) (fuel : Nat)
    (hf : a.size + 1 ≤ fuel) : insertion cmp a = .diverge ∨ insertion cmp a = Insertion fuel a cmp := by
  obtain ⟨d, rfl⟩ : ∃ d, fuel = a.size + 1 + d := ⟨fuel - (a.size + 1), by omega⟩
  exact insertion_le cmp a d

theorem C07_generated_insertion {α : Type} [Inhabited α] (cmp : α → α → Int) (tp : TotalPreorder cmp) (a : Array α)
    (fuel : Nat) (hf : a.size + 1 ≤ fuel) : ∃ out, Insertion fuel a cmp = .ok out ∧ IsSortOf cmp out a := by
  obtain ⟨out, h, s⟩ := C07_insertion cmp tp a
  exact ⟨out, Outcome.le.ok (C07_generated_insertion_refines cmp a fuel hf) h, s⟩

example : Insertion 6 #[(5, 0), (3, 1), (2, 2), (4, 3), (0, 4)] exCmp = .ok #[(3, 1), (0, 4), (4, 3), (5, 0), (2, 2)] := by decide

/-- `Selection` has counted loops only: the generated definition takes no fuel -/
theorem C07_generated_selection_refines {α : Type} [Inhabited α] (cmp : α → α → Int) (a : Array α) :
    selection cmp a = .diverge ∨ selection cmp a = Selection a cmp := selection_le cmp a

theorem C07_generated_selection {α : Type} [Inhabited α] (cmp : α → α → Int) (tp : TotalPreorder cmp) (a : Array α) :
    ∃ out, Selection a cmp = .ok out ∧ IsSortOf cmp out a := by
  obtain ⟨out, h, s⟩ := C07_selection cmp tp a
  exact ⟨out, Outcome.le.ok (C07_generated_selection_refines cmp a) h, s⟩

example : Selection #[(5, 0), (3, 1), (2, 2), (4, 3), (0, 4)] exCmp = .ok #[(3, 1), (0, 4), (4, 3), (2, 2), (5, 0)] := by decide

theorem C07_generated_shell_refines {α : Type} [Inhabited α] (cmp : α → α → Int) (a : Array α) (fuel : Nat)
    (hf : a.size + 2 ≤ fuel) : shell cmp a = .diverge ∨ shell cmp a = Shell fuel a cmp := by
  obtain ⟨d, rfl⟩ : ∃ d, fuel = a.size + 2 + d := ⟨fuel - (a.size + 2), by omega⟩
  exact shell_le cmp a d

theorem C07_generated_shell {α : Type} [Inhabited α] (cmp : α → α → Int) (tp : TotalPreorder cmp) (a : Array α)
    (fuel : Nat) (hf : a.size + 2 ≤ fuel) : ∃ out, Shell fuel a cmp = .ok out ∧ IsSortOf cmp out a := by
  obtain ⟨out, h, s⟩ := C07_shell cmp tp a
  exact ⟨out, Outcome.le.ok (C07_generated_shell_refines cmp a fuel hf) h, s⟩

example : ∃ out, Shell 9 #[(5, 0), (3, 1), (2, 2), (4, 3), (0, 4), (7, 5), (1, 6)] exCmp = .ok out ∧
    IsSortOf exCmp out #[(5, 0), (3, 1), (2, 2), (4, 3), (0, 4), (7, 5), (1, 6)] :=
  C07_generated_shell _ exCmp_tp _ 9 (by decide)

theorem C07_generated_heap_refines {α : Type} [Inhabited α] (cmp : α → α → Int) (a : Array α) (fuel : Nat)
    (hf : a.size + 2 ≤ fuel) : heap cmp default a = .diverge ∨ heap cmp default a = Heap fuel a cmp := by
  obtain ⟨d, rfl⟩ : ∃ d, fuel = a.size + 2 + d := ⟨fuel - (a.size + 2), by omega⟩
  exact heap_le cmp default a d

theorem C07_generated_heap {α : Type} [Inhabited α] (cmp : α → α → Int) (tp : TotalPreorder cmp) (a : Array α)
    (fuel : Nat) (hf : a.size + 2 ≤ fuel) : ∃ out, Heap fuel a cmp = .ok out ∧ IsSortOf cmp out a := by
  obtain ⟨out, h, s⟩ := C07_heap cmp tp default a
  exact ⟨out, Outcome.le.ok (C07_generated_heap_refines cmp a fuel hf) h, s⟩

example : ∃ out, Heap 7 #[(5, 0), (3, 1), (2, 2), (4, 3), (0, 4)] exCmp = .ok out ∧
    IsSortOf exCmp out #[(5, 0), (3, 1), (2, 2), (4, 3), (0, 4)] := C07_generated_heap _ exCmp_tp _ 7 (by decide)

/-- the internal `merge(a, aux, lo, mid, hi, cmp)`: returns the new `a` and `aux`; no fuel on the generated side -/
theorem C07_generated_mergeStep_refines {α : Type} [Inhabited α] (cmp : α → α → Int) (a aux : Array α) (lo mid hi : Int) :
    AlgoVerif.C07.merge cmp a aux lo mid hi = .diverge ∨
      AlgoVerif.C07.merge cmp a aux lo mid hi = AlgoVerif.Generated.Sort.merge a aux lo mid hi cmp :=
  merge_le cmp a aux lo mid hi

theorem C07_generated_merge_refines {α : Type} [Inhabited α] (cmp : α → α → Int) (a : Array α) (fuel : Nat)
    (hf : a.size + 1 ≤ fuel) : mergeBU cmp default a = .diverge ∨ mergeBU cmp default a = Merge fuel a cmp := by
  obtain ⟨d, rfl⟩ : ∃ d, fuel = a.size + 1 + d := ⟨fuel - (a.size + 1), by omega⟩
  exact mergeBU_le cmp default a d

theorem C07_generated_merge {α : Type} [Inhabited α] (cmp : α → α → Int) (tp : TotalPreorder cmp) (a : Array α)
    (fuel : Nat) (hf : a.size + 1 ≤ fuel) : ∃ out, Merge fuel a cmp = .ok out ∧ IsSortOf cmp out a := by
  obtain ⟨out, h, s⟩ := C07_merge cmp tp default a
  exact ⟨out, Outcome.le.ok (C07_generated_merge_refines cmp a fuel hf) h, s⟩

example : ∃ out, Merge 6 #[(5, 0), (3, 1), (2, 2), (4, 3), (0, 4)] exCmp = .ok out ∧
    IsSortOf exCmp out #[(5, 0), (3, 1), (2, 2), (4, 3), (0, 4)] := C07_generated_merge _ exCmp_tp _ 6 (by decide)
example : Merge 3 #[(5, 0), (3, 1)] exCmp = .ok #[(3, 1), (5, 0)] := by decide

theorem C07_generated_mergeRec_refines {α : Type} [Inhabited α] (cmp : α → α → Int) (a : Array α) (fuel : Nat)
    (hf : a.size + 1 ≤ fuel) :
    mergeRec cmp default a = .diverge ∨ mergeRec cmp default a = MergeRec fuel a cmp := by
  obtain ⟨d, rfl⟩ : ∃ d, fuel = a.size + 1 + d := ⟨fuel - (a.size + 1), by omega⟩
  exact mergeRec_le cmp default a d

theorem C07_generated_mergeRec {α : Type} [Inhabited α] (cmp : α → α → Int) (tp : TotalPreorder cmp) (a : Array α)
    (fuel : Nat) (hf : a.size + 1 ≤ fuel) : ∃ out, MergeRec fuel a cmp = .ok out ∧ IsSortOf cmp out a := by
  obtain ⟨out, h, s⟩ := C07_mergeRec cmp tp default a
  exact ⟨out, Outcome.le.ok (C07_generated_mergeRec_refines cmp a fuel hf) h, s⟩

example : ∃ out, MergeRec 6 #[(5, 0), (3, 1), (2, 2), (4, 3), (0, 4)] exCmp = .ok out ∧
    IsSortOf exCmp out #[(5, 0), (3, 1), (2, 2), (4, 3), (0, 4)] := C07_generated_mergeRec _ exCmp_tp _ 6 (by decide)
example : MergeRec 3 #[(5, 0), (3, 1)] exCmp = .ok #[(3, 1), (5, 0)] := by decide
