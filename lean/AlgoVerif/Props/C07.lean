import AlgoVerif.Model.C07
import AlgoVerif.Model.C07Radix
import AlgoVerif.Spec.C07
import AlgoVerif.Proofs.C07Insertion
import AlgoVerif.Proofs.C07Simple
import AlgoVerif.Proofs.C07Shell
/-!
# C07 — every sort returns the sorted permutation of its input

Statements only; the proofs are in `Proofs/C07*.lean`.  Every theorem says that the Model of the
Go function, run on an arbitrary slice (no length bound) with an arbitrary comparator that is a
total preorder, returns `ok` (it neither indexes out of range nor runs out of loop fuel) and that
the result is sorted and a permutation of the input (`IsSortOf`).
-/
open AlgoVerif AlgoVerif.C07

/-- a non-injective total preorder used by the non-vacuity examples: compare `key % 3` only -/
def C07.exCmp (a b : Int × Int) : Int := (a.1 % 3) - (b.1 % 3)

theorem C07.exCmp_tp : TotalPreorder C07.exCmp :=
  ⟨by intro a b; unfold C07.exCmp; omega, by intro a b c; unfold C07.exCmp; omega⟩

theorem C07_insertion {α : Type} (cmp : α → α → Int) (tp : TotalPreorder cmp) (a : Array α) :
    ∃ out, insertion cmp a = .ok out ∧ IsSortOf cmp out a := insertion_spec tp a

example : insertion C07.exCmp #[(5, 0), (3, 1), (2, 2), (4, 3), (0, 4)] = .ok #[(3, 1), (0, 4), (4, 3), (5, 0), (2, 2)] := by decide

theorem C07_selection {α : Type} (cmp : α → α → Int) (tp : TotalPreorder cmp) (a : Array α) :
    ∃ out, selection cmp a = .ok out ∧ IsSortOf cmp out a := selection_spec tp a

example : selection C07.exCmp #[(5, 0), (3, 1), (2, 2), (4, 3), (0, 4)] = .ok #[(3, 1), (0, 4), (4, 3), (2, 2), (5, 0)] := by decide

theorem C07_shell {α : Type} (cmp : α → α → Int) (tp : TotalPreorder cmp) (a : Array α) :
    ∃ out, shell cmp a = .ok out ∧ IsSortOf cmp out a := shell_spec tp a

/-- `Shuffle` yields a permutation, for every outcome of the random source that respects the
contract of `r.Intn` -/
theorem C07_shuffle {α : Type} (choice : Nat → Int) (a : Array α) (hc : IntnContract choice a.size) :
    ∃ out, shuffle choice a = .ok out ∧ out.toList.Perm a.toList := by
  obtain ⟨out, h1, h2⟩ := shuffle_spec a hc
  exact ⟨out, h1, Array.perm_iff_toList_perm.1 h2⟩

example : IntnContract (fun i => if i = 0 then 2 else 0) 3 := by
  intro i hi; dsimp only; split <;> omega
