import AlgoVerif.Common
/-! # C07 — property theorems (none yet) -/
