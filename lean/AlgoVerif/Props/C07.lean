import AlgoVerif.Model.C07
import AlgoVerif.Model.C07Radix
import AlgoVerif.Spec.C07
import AlgoVerif.Proofs.C07Examples
import AlgoVerif.Proofs.C07Insertion
import AlgoVerif.Proofs.C07Simple
import AlgoVerif.Proofs.C07Shell
import AlgoVerif.Proofs.C07Merge
import AlgoVerif.Proofs.C07Quick
import AlgoVerif.Proofs.C07Quick3
import AlgoVerif.Proofs.C07Heap
import AlgoVerif.Proofs.C07Counting
import AlgoVerif.Proofs.C07LSD
import AlgoVerif.Proofs.C07Q3String
import AlgoVerif.Proofs.C07MsdString
import AlgoVerif.Proofs.C07MsdWords
import AlgoVerif.Proofs.C07Sub
import AlgoVerif.Proofs.C07Fast
import AlgoVerif.Proofs.C07Gen
import AlgoVerif.Proofs.C07QuickGen
import AlgoVerif.Proofs.C07RadixGen
/-!
# C07 — every sort returns the sorted permutation of its input

Statements only; the proofs are in `Proofs/C07*.lean`.  Every theorem says that the Model of the
Go function, run on an arbitrary slice (no length bound) with an arbitrary comparator that is a
total preorder (`TotalPreorder`: sign flip + transitivity, not necessarily injective), returns `ok`
(it neither indexes out of range nor runs out of loop fuel) and that the result is sorted and a
permutation of the input (`IsSortOf`).  The clock-seeded shuffle of `Quick` / `Select` is an arbitrary
function `choice` subject only to the contract of `rand.Intn` (`IntnContract`).
-/
open AlgoVerif AlgoVerif.C07

theorem C07_insertion {α : Type} (cmp : α → α → Int) (tp : TotalPreorder cmp) (a : Array α) :
    ∃ out, insertion cmp a = .ok out ∧ IsSortOf cmp out a := insertion_spec tp a

example : insertion exCmp #[(5, 0), (3, 1), (2, 2), (4, 3), (0, 4)] = .ok #[(3, 1), (0, 4), (4, 3), (5, 0), (2, 2)] := by decide

theorem C07_selection {α : Type} (cmp : α → α → Int) (tp : TotalPreorder cmp) (a : Array α) :
    ∃ out, selection cmp a = .ok out ∧ IsSortOf cmp out a := selection_spec tp a

example : selection exCmp #[(5, 0), (3, 1), (2, 2), (4, 3), (0, 4)] = .ok #[(3, 1), (0, 4), (4, 3), (2, 2), (5, 0)] := by decide

theorem C07_shell {α : Type} (cmp : α → α → Int) (tp : TotalPreorder cmp) (a : Array α) :
    ∃ out, shell cmp a = .ok out ∧ IsSortOf cmp out a := shell_spec tp a

example : ∃ out, shell exCmp #[(5, 0), (3, 1), (2, 2), (4, 3), (0, 4), (7, 5), (1, 6)] = .ok out ∧
    IsSortOf exCmp out #[(5, 0), (3, 1), (2, 2), (4, 3), (0, 4), (7, 5), (1, 6)] := C07_shell _ exCmp_tp _

theorem C07_merge {α : Type} (cmp : α → α → Int) (tp : TotalPreorder cmp) (zero : α) (a : Array α) :
    ∃ out, mergeBU cmp zero a = .ok out ∧ IsSortOf cmp out a := mergeBU_spec tp zero a

example : mergeBU exCmp (0, 0) #[(5, 0), (3, 1), (2, 2), (4, 3), (0, 4)] = .ok #[(3, 1), (0, 4), (4, 3), (5, 0), (2, 2)] := by decide

theorem C07_mergeRec {α : Type} (cmp : α → α → Int) (tp : TotalPreorder cmp) (zero : α) (a : Array α) :
    ∃ out, mergeRec cmp zero a = .ok out ∧ IsSortOf cmp out a := mergeRec_spec tp zero a

example : mergeRec exCmp (0, 0) #[(5, 0), (3, 1), (2, 2), (4, 3), (0, 4)] = .ok #[(3, 1), (0, 4), (4, 3), (5, 0), (2, 2)] := by decide

/-- `Shuffle` yields a permutation, for every outcome of the random source that respects the
contract of `r.Intn` -/
theorem C07_shuffle {α : Type} (choice : Nat → Int) (a : Array α) (hc : IntnContract choice a.size) :
    ∃ out, shuffle choice a = .ok out ∧ out.toList.Perm a.toList := by
  obtain ⟨out, h1, h2⟩ := shuffle_spec a hc
  exact ⟨out, h1, Array.perm_iff_toList_perm.1 h2⟩

example : IntnContract (fun i => if i = 0 then 2 else 0) 3 := by
  intro i hi; dsimp only; split <;> omega

/-- `Quick` (shuffle, then `quick`) for every shuffle outcome -/
theorem C07_quick {α : Type} (cmp : α → α → Int) (tp : TotalPreorder cmp) (choice : Nat → Int) (a : Array α)
    (hc : IntnContract choice a.size) :
    ∃ out, quick choice cmp a = .ok out ∧ IsSortOf cmp out a := by
  obtain ⟨s, h1, h2⟩ := shuffle_spec a hc
  obtain ⟨out, h3, h4, h5⟩ := quickCore_spec tp s
  exact ⟨out, by simp [quick, h1, h3], h4, h5.trans (Array.perm_iff_toList_perm.1 h2)⟩

example : quick (fun i => if i = 0 then 2 else 0) exCmp #[(5, 0), (3, 1), (2, 2), (4, 3)] = .ok #[(3, 1), (4, 3), (2, 2), (5, 0)] := by decide

/-- the deterministic core of `Quick` (what the verif hook `VerifQuickNoShuffle` runs) -/
theorem C07_quickCore {α : Type} (cmp : α → α → Int) (tp : TotalPreorder cmp) (a : Array α) :
    ∃ out, quickCore cmp a = .ok out ∧ IsSortOf cmp out a := quickCore_spec tp a

theorem C07_quick3way {α : Type} (cmp : α → α → Int) (tp : TotalPreorder cmp) (a : Array α) :
    ∃ out, quick3Way cmp a = .ok out ∧ IsSortOf cmp out a := quick3Way_spec tp a

example : quick3Way exCmp #[(5, 0), (3, 1), (2, 2), (4, 3), (0, 4)] = .ok #[(3, 1), (0, 4), (4, 3), (5, 0), (2, 2)] := by decide

theorem C07_heap {α : Type} (cmp : α → α → Int) (tp : TotalPreorder cmp) (zero : α) (a : Array α) :
    ∃ out, heap cmp zero a = .ok out ∧ IsSortOf cmp out a := heap_spec tp zero a

example : ∃ out, heap exCmp (0, 0) #[(5, 0), (3, 1), (2, 2), (4, 3), (0, 4)] = .ok out ∧
    IsSortOf exCmp out #[(5, 0), (3, 1), (2, 2), (4, 3), (0, 4)] := C07_heap _ exCmp_tp _ _

/-- `Select(a, k)` returns an element of rank `k`, for every `0 ≤ k < len(a)` and every shuffle
outcome; the slice stays a permutation of the input -/
theorem C07_select {α : Type} (cmp : α → α → Int) (tp : TotalPreorder cmp) (choice : Nat → Int) (a : Array α)
    (hc : IntnContract choice a.size) (k : Nat) (hk : k < a.size) :
    ∃ out v, select choice cmp a (k : Int) = .ok (out, v) ∧ out.toList.Perm a.toList ∧ HasRank cmp a.toList k v := by
  obtain ⟨s, h1, h2⟩ := shuffle_spec a hc
  have hsz : s.size = a.size := h2.size_eq
  obtain ⟨out, v, h3, h4, h5⟩ := selectLoop_spec tp s k (by omega)
  refine ⟨out, v, by simp [select, h1, h3], ?_, ?_⟩
  · exact Array.perm_iff_toList_perm.1 (h4.trans h2)
  · exact hasRank_of_perm (Array.perm_iff_toList_perm.1 h2) h5

example : ∃ out v, select (fun _ => 0) exCmp #[(5, 0), (3, 1), (2, 2), (4, 3), (0, 4)] ((2 : Nat) : Int) = .ok (out, v) ∧
    out.toList.Perm [(5, 0), (3, 1), (2, 2), (4, 3), (0, 4)] ∧ HasRank exCmp [(5, 0), (3, 1), (2, 2), (4, 3), (0, 4)] 2 v :=
  C07_select _ exCmp_tp (fun _ => 0) _ (by intro i hi; simp only [List.size_toArray, List.length_cons, List.length_nil] at hi ⊢; omega) 2 (by decide)

/-! ## radix sorts: the output *equals* the reference sort (core `List.mergeSort`) by the native order -/

/-- `LSDUint` sorts every slice of 64-bit words by the `uint` order -/
theorem C07_lsdUint (a : Array UInt64) :
    ∃ out, lsdUint a = .ok out ∧ out.toList = a.toList.mergeSort uLe := lsdUint_spec countingPass_spec a

/-- `LSDInt` sorts every slice of 64-bit words by the `int` order (two's complement) -/
theorem C07_lsdInt (a : Array UInt64) :
    ∃ out, lsdInt a = .ok out ∧ out.toList = a.toList.mergeSort iLe := lsdInt_spec countingPass_spec a

/-- `LSDString(a, w)`: every key has at least `w` bytes ⇒ the stable sort by the first `w` bytes -/
theorem C07_lsdString_prefix (a : Array (List UInt8)) (w : Nat) (hw : ∀ s, s ∈ a.toList → w ≤ s.length) :
    ∃ out, lsdString a (w : Int) = .ok out ∧ out.toList = a.toList.mergeSort (prefixLe w) :=
  lsdString_spec countingPass_spec a w hw

/-- `LSDString(a, w)` on keys of width exactly `w` (the documented use): the native string order -/
theorem C07_lsdString (a : Array (List UInt8)) (w : Nat) (hw : ∀ s, s ∈ a.toList → s.length = w) :
    ∃ out, lsdString a (w : Int) = .ok out ∧ out.toList = a.toList.mergeSort bytesLe :=
  lsdString_fixed_spec countingPass_spec a w hw

example : ∀ s, s ∈ (#[[0xff, 0x61], [0x00, 0xff], [0x61, 0x61]] : Array (List UInt8)).toList → s.length = 2 := by decide

/-- `MSDString` sorts every slice of byte strings (any lengths, embedded NULs, shared prefixes) by the
native string order -/
theorem C07_msdString (a : Array (List UInt8)) :
    ∃ out, msdString a = .ok out ∧ out.toList = a.toList.mergeSort bytesLe := msdString_spec countingPass_spec a

/-- `Quick3WayString` (shuffle with the package-global source, then 3-way radix quicksort) sorts every
slice of byte strings by the native string order, for every shuffle outcome -/
theorem C07_q3String (choice : Nat → Int) (a : Array (List UInt8)) (hc : IntnContract choice a.size) :
    ∃ out, q3String choice a = .ok out ∧ out.toList = a.toList.mergeSort bytesLe := q3String_spec choice a hc

example : IntnContract (fun _ => 0) 20 := by intro i hi; dsimp only; omega

/-- `MSDUint` sorts every slice of 64-bit words by the `uint` order (after the fix of D11) -/
theorem C07_msdUint (a : Array UInt64) :
    ∃ out, msdUint a = .ok out ∧ out.toList = a.toList.mergeSort uLe := msdUint_spec a

/-- `MSDInt` sorts every slice of 64-bit words by the `int` order (two's complement) -/
theorem C07_msdInt (a : Array UInt64) :
    ∃ out, msdInt a = .ok out ∧ out.toList = a.toList.mergeSort iLe := msdInt_spec a

/-- the D11 shape: 17 words whose top bytes are 0 and 1 -/
example : ∃ out, msdUint (Array.ofFn (n := 17) fun i => (UInt64.ofNat (i.val % 2) <<< 56) ||| UInt64.ofNat (17 - i.val)) = .ok out ∧
    out.toList = (Array.ofFn (n := 17) fun i => (UInt64.ofNat (i.val % 2) <<< 56) ||| UInt64.ofNat (17 - i.val)).toList.mergeSort uLe :=
  C07_msdUint _

/-! ## a sort handed a sub-slice `a[lo:hi]` of a larger slice (`Model/C07Sub.lean`)

The sorts work in place, so a caller may hand them a window of a larger backing array and, afterwards, another
window that overlaps the first (the harness ops `sub` and `alias`). Whatever a sort guarantees about a whole slice
(`R out in`: sorted permutation, or equality with the reference sort) it guarantees about the window, and every
element outside the window is left alone — for every array, every window and every sort. -/

/-- generic form: `f` returns `ok` on every input with an output of the same length that is `R`-related to the input -/
theorem C07_subslice {α : Type} (R : Array α → Array α → Prop) (f : Array α → Outcome (Array α))
    (hf : ∀ x, ∃ y, f x = .ok y ∧ y.size = x.size ∧ R y x)
    (a : Array α) (lo hi : Nat) (h1 : lo ≤ hi) (h2 : hi ≤ a.size) :
    ∃ out, onSub f a lo hi = .ok out ∧ out.size = a.size ∧
      (∀ i, i < lo → out[i]? = a[i]?) ∧ (∀ i, hi ≤ i → out[i]? = a[i]?) ∧
      R (out.extract lo hi) (a.extract lo hi) := onSub_spec R f hf a lo hi h1 h2

/-- any sort that returns the sorted permutation of every slice (all of `C07_insertion … C07_heap`) does so on a window -/
theorem C07_subslice_sorted {α : Type} (cmp : α → α → Int) (f : Array α → Outcome (Array α))
    (hf : ∀ x, ∃ y, f x = .ok y ∧ IsSortOf cmp y x)
    (a : Array α) (lo hi : Nat) (h1 : lo ≤ hi) (h2 : hi ≤ a.size) :
    ∃ out, onSub f a lo hi = .ok out ∧ out.size = a.size ∧
      (∀ i, i < lo → out[i]? = a[i]?) ∧ (∀ i, hi ≤ i → out[i]? = a[i]?) ∧
      IsSortOf cmp (out.extract lo hi) (a.extract lo hi) := by
  refine C07_subslice (IsSortOf cmp) f (fun x => ?_) a lo hi h1 h2
  obtain ⟨y, h, hs⟩ := hf x
  exact ⟨y, h, by simpa using hs.2.length_eq, hs⟩

example : ∃ out, onSub (insertion exCmp) #[(9, 0), (5, 1), (3, 2), (2, 3), (4, 4), (0, 5)] 1 4 = .ok out ∧ out.size = 6 ∧
    (∀ i, i < 1 → out[i]? = #[(9, 0), (5, 1), (3, 2), (2, 3), (4, 4), (0, 5)][i]?) ∧
    (∀ i, 4 ≤ i → out[i]? = #[(9, 0), (5, 1), (3, 2), (2, 3), (4, 4), (0, 5)][i]?) ∧
    IsSortOf exCmp (out.extract 1 4) (#[(9, 0), (5, 1), (3, 2), (2, 3), (4, 4), (0, 5)].extract 1 4) :=
  C07_subslice_sorted exCmp _ (C07_insertion exCmp exCmp_tp) _ 1 4 (by decide) (by decide)

example : onSub (insertion exCmp) #[(9, 0), (5, 1), (3, 2), (2, 3), (4, 4), (0, 5)] 1 4 =
    .ok #[(9, 0), (3, 2), (5, 1), (2, 3), (4, 4), (0, 5)] := by decide

/-- a radix sort on a window: the window equals the reference sort of what it held -/
theorem C07_subslice_radix {α : Type} (le : α → α → Bool) (f : Array α → Outcome (Array α))
    (hf : ∀ x, ∃ y, f x = .ok y ∧ y.toList = x.toList.mergeSort le)
    (a : Array α) (lo hi : Nat) (h1 : lo ≤ hi) (h2 : hi ≤ a.size) :
    ∃ out, onSub f a lo hi = .ok out ∧ out.size = a.size ∧
      (∀ i, i < lo → out[i]? = a[i]?) ∧ (∀ i, hi ≤ i → out[i]? = a[i]?) ∧
      (out.extract lo hi).toList = (a.extract lo hi).toList.mergeSort le := by
  refine C07_subslice (fun y x => y.toList = x.toList.mergeSort le) f (fun x => ?_) a lo hi h1 h2
  obtain ⟨y, h, hs⟩ := hf x
  refine ⟨y, h, ?_, hs⟩
  have := congrArg List.length hs
  simpa using this

example (a : Array UInt64) (lo hi : Nat) (h1 : lo ≤ hi) (h2 : hi ≤ a.size) :
    ∃ out, onSub lsdInt a lo hi = .ok out ∧ out.size = a.size ∧
      (∀ i, i < lo → out[i]? = a[i]?) ∧ (∀ i, hi ≤ i → out[i]? = a[i]?) ∧
      (out.extract lo hi).toList = (a.extract lo hi).toList.mergeSort iLe :=
  C07_subslice_radix iLe lsdInt C07_lsdInt a lo hi h1 h2

/-! ## what the driver executes for `Merge` / `MergeRec` is the Model

The Model's `copyRange` is `Array.ofFn` over the whole slice (convenient for the proofs above), which makes the
*executable* `mergeBU` / `mergeRec` quadratic.  The correspondence driver therefore runs `mergeBUFast` / `mergeRecFast`
(`Proofs/C07Fast.lean`: the same functions with an in-place copy of the merged range).  For every comparator, zero
value and slice they are the functions `C07_merge` / `C07_mergeRec` are about. -/

theorem C07_driver_merge_is_model_merge {α : Type} (cmp : α → α → Int) (zero : α) (a : Array α) :
    mergeBUFast cmp zero a = mergeBU cmp zero a ∧ mergeRecFast cmp zero a = mergeRec cmp zero a :=
  ⟨mergeBUFast_eq cmp zero a, mergeRecFast_eq cmp zero a⟩

example : mergeBUFast exCmp (0, 0) #[(5, 0), (3, 1), (2, 2), (4, 3), (0, 4)] = .ok #[(3, 1), (0, 4), (4, 3), (5, 0), (2, 2)] ∧
    mergeRecFast exCmp (0, 0) #[(5, 0), (3, 1), (2, 2), (4, 3), (0, 4)] = .ok #[(3, 1), (0, 4), (4, 3), (5, 0), (2, 2)] := by decide

/-! ## the second tie: the Model REGENERATED from the source

`AlgoVerif.Generated.Sort.*` (file `Generated/C07Gen.lean`) is produced from
`/repo/sort/{insertion,selection,shell,heap,merge}.go` by the translator `/verif/extract/go2lean` on every run
of this check (`bin/pre-C07`; scheme, subset and what is trusted: header of `extract/go2lean/main.go`).
The hand Model gives every loop its own fuel; a generated definition recurses on the trip count in its counted
loops and hands the ONE `fuel` its caller supplies to every other loop.  `C07_generated_X_refines` therefore
says: for every slice, every comparator (no law assumed) and every fuel of at least the stated size, the hand
Model's result is `diverge` (its own fuel ran out) or the generated definition returns exactly the same
outcome — same slice, same panic.  `C07_generated_X` is the C07 statement about the generated definition
itself.  An edit of the Go source that changes what a function computes changes the generated file and these
stop checking.  Go's zero value of the element type is the `default` of the `Inhabited` instance. -/

open AlgoVerif.Generated.Sort AlgoVerif.Outcome AlgoVerif.C07.Gen

theorem C07_generated_insertion_refines {α : Type} [Inhabited α] (cmp : α → α → Int) (a : Array α) (fuel : Nat)
    (hf : a.size + 1 ≤ fuel) : insertion cmp a = .diverge ∨ insertion cmp a = Insertion fuel a cmp := by
  obtain ⟨d, rfl⟩ : ∃ d, fuel = a.size + 1 + d := ⟨fuel - (a.size + 1), by omega⟩
  exact insertion_le cmp a d

theorem C07_generated_insertion {α : Type} [Inhabited α] (cmp : α → α → Int) (tp : TotalPreorder cmp) (a : Array α)
    (fuel : Nat) (hf : a.size + 1 ≤ fuel) : ∃ out, Insertion fuel a cmp = .ok out ∧ IsSortOf cmp out a := by
  obtain ⟨out, h, s⟩ := C07_insertion cmp tp a
  exact ⟨out, Outcome.le.ok (C07_generated_insertion_refines cmp a fuel hf) h, s⟩

example : Insertion 6 #[(5, 0), (3, 1), (2, 2), (4, 3), (0, 4)] exCmp = .ok #[(3, 1), (0, 4), (4, 3), (5, 0), (2, 2)] := by decide

/-- `Selection` has counted loops only: the generated definition takes no fuel -/
theorem C07_generated_selection_refines {α : Type} [Inhabited α] (cmp : α → α → Int) (a : Array α) :
    selection cmp a = .diverge ∨ selection cmp a = Selection a cmp := selection_le cmp a

theorem C07_generated_selection {α : Type} [Inhabited α] (cmp : α → α → Int) (tp : TotalPreorder cmp) (a : Array α) :
    ∃ out, Selection a cmp = .ok out ∧ IsSortOf cmp out a := by
  obtain ⟨out, h, s⟩ := C07_selection cmp tp a
  exact ⟨out, Outcome.le.ok (C07_generated_selection_refines cmp a) h, s⟩

example : Selection #[(5, 0), (3, 1), (2, 2), (4, 3), (0, 4)] exCmp = .ok #[(3, 1), (0, 4), (4, 3), (2, 2), (5, 0)] := by decide

theorem C07_generated_shell_refines {α : Type} [Inhabited α] (cmp : α → α → Int) (a : Array α) (fuel : Nat)
    (hf : a.size + 2 ≤ fuel) : shell cmp a = .diverge ∨ shell cmp a = Shell fuel a cmp := by
  obtain ⟨d, rfl⟩ : ∃ d, fuel = a.size + 2 + d := ⟨fuel - (a.size + 2), by omega⟩
  exact shell_le cmp a d

theorem C07_generated_shell {α : Type} [Inhabited α] (cmp : α → α → Int) (tp : TotalPreorder cmp) (a : Array α)
    (fuel : Nat) (hf : a.size + 2 ≤ fuel) : ∃ out, Shell fuel a cmp = .ok out ∧ IsSortOf cmp out a := by
  obtain ⟨out, h, s⟩ := C07_shell cmp tp a
  exact ⟨out, Outcome.le.ok (C07_generated_shell_refines cmp a fuel hf) h, s⟩

example : ∃ out, Shell 9 #[(5, 0), (3, 1), (2, 2), (4, 3), (0, 4), (7, 5), (1, 6)] exCmp = .ok out ∧
    IsSortOf exCmp out #[(5, 0), (3, 1), (2, 2), (4, 3), (0, 4), (7, 5), (1, 6)] :=
  C07_generated_shell _ exCmp_tp _ 9 (by decide)

theorem C07_generated_heap_refines {α : Type} [Inhabited α] (cmp : α → α → Int) (a : Array α) (fuel : Nat)
    (hf : a.size + 2 ≤ fuel) : heap cmp default a = .diverge ∨ heap cmp default a = Heap fuel a cmp := by
  obtain ⟨d, rfl⟩ : ∃ d, fuel = a.size + 2 + d := ⟨fuel - (a.size + 2), by omega⟩
  exact heap_le cmp default a d

theorem C07_generated_heap {α : Type} [Inhabited α] (cmp : α → α → Int) (tp : TotalPreorder cmp) (a : Array α)
    (fuel : Nat) (hf : a.size + 2 ≤ fuel) : ∃ out, Heap fuel a cmp = .ok out ∧ IsSortOf cmp out a := by
  obtain ⟨out, h, s⟩ := C07_heap cmp tp default a
  exact ⟨out, Outcome.le.ok (C07_generated_heap_refines cmp a fuel hf) h, s⟩

example : ∃ out, Heap 7 #[(5, 0), (3, 1), (2, 2), (4, 3), (0, 4)] exCmp = .ok out ∧
    IsSortOf exCmp out #[(5, 0), (3, 1), (2, 2), (4, 3), (0, 4)] := C07_generated_heap _ exCmp_tp _ 7 (by decide)

/-- the internal `merge(a, aux, lo, mid, hi, cmp)`: returns the new `a` and `aux`; no fuel on the generated side -/
theorem C07_generated_mergeStep_refines {α : Type} [Inhabited α] (cmp : α → α → Int) (a aux : Array α) (lo mid hi : Int) :
    AlgoVerif.C07.merge cmp a aux lo mid hi = .diverge ∨
      AlgoVerif.C07.merge cmp a aux lo mid hi = AlgoVerif.Generated.Sort.merge a aux lo mid hi cmp :=
  merge_le cmp a aux lo mid hi

theorem C07_generated_merge_refines {α : Type} [Inhabited α] (cmp : α → α → Int) (a : Array α) (fuel : Nat)
    (hf : a.size + 1 ≤ fuel) : mergeBU cmp default a = .diverge ∨ mergeBU cmp default a = Merge fuel a cmp := by
  obtain ⟨d, rfl⟩ : ∃ d, fuel = a.size + 1 + d := ⟨fuel - (a.size + 1), by omega⟩
  exact mergeBU_le cmp default a d

theorem C07_generated_merge {α : Type} [Inhabited α] (cmp : α → α → Int) (tp : TotalPreorder cmp) (a : Array α)
    (fuel : Nat) (hf : a.size + 1 ≤ fuel) : ∃ out, Merge fuel a cmp = .ok out ∧ IsSortOf cmp out a := by
  obtain ⟨out, h, s⟩ := C07_merge cmp tp default a
  exact ⟨out, Outcome.le.ok (C07_generated_merge_refines cmp a fuel hf) h, s⟩

example : ∃ out, Merge 6 #[(5, 0), (3, 1), (2, 2), (4, 3), (0, 4)] exCmp = .ok out ∧
    IsSortOf exCmp out #[(5, 0), (3, 1), (2, 2), (4, 3), (0, 4)] := C07_generated_merge _ exCmp_tp _ 6 (by decide)
example : Merge 3 #[(5, 0), (3, 1)] exCmp = .ok #[(3, 1), (5, 0)] := by decide

theorem C07_generated_mergeRec_refines {α : Type} [Inhabited α] (cmp : α → α → Int) (a : Array α) (fuel : Nat)
    (hf : a.size + 1 ≤ fuel) :
    mergeRec cmp default a = .diverge ∨ mergeRec cmp default a = MergeRec fuel a cmp := by
  obtain ⟨d, rfl⟩ : ∃ d, fuel = a.size + 1 + d := ⟨fuel - (a.size + 1), by omega⟩
  exact mergeRec_le cmp default a d

theorem C07_generated_mergeRec {α : Type} [Inhabited α] (cmp : α → α → Int) (tp : TotalPreorder cmp) (a : Array α)
    (fuel : Nat) (hf : a.size + 1 ≤ fuel) : ∃ out, MergeRec fuel a cmp = .ok out ∧ IsSortOf cmp out a := by
  obtain ⟨out, h, s⟩ := C07_mergeRec cmp tp default a
  exact ⟨out, Outcome.le.ok (C07_generated_mergeRec_refines cmp a fuel hf) h, s⟩

example : ∃ out, MergeRec 6 #[(5, 0), (3, 1), (2, 2), (4, 3), (0, 4)] exCmp = .ok out ∧
    IsSortOf exCmp out #[(5, 0), (3, 1), (2, 2), (4, 3), (0, 4)] := C07_generated_mergeRec _ exCmp_tp _ 6 (by decide)
example : MergeRec 3 #[(5, 0), (3, 1)] exCmp = .ok #[(3, 1), (5, 0)] := by decide

/-! ### `sort/quick.go` and `sort/shuffle.go` (file `Generated/C07QuickGen.lean`)

A `*rand.Rand` is a `Go.Rand` — the stream of its future draws and the number consumed; `r.Intn(n)` is the next
draw reduced into `[0, n)` (`Model/GoRt.lean`).  The clock-seeded generator of `Quick` / `Select` is the parameter
`rand : Nat → Int`, its stream; the statements hold for EVERY stream, with no hypothesis about it (the hand
Model's `IntnContract` is proved of the induced `choiceOf`).  `quick` / `quick3Way` recurse on their fuel and pass
the remaining fuel on, so `2·len(a) + 2` units are asked for (`len(a) + 1` levels of recursion, then `len(a) + 1`
for the loops of the deepest call). -/

theorem C07_generated_shuffle_refines {α : Type} [Inhabited α] (r : Go.Rand) (a : Array α) :
    shuffle (choiceOf r a.size) a = .diverge ∨ shuffle (choiceOf r a.size) a = (Shuffle a r).map Prod.fst :=
  shuffle_le r a

/-- `Shuffle` yields a permutation, for every generator -/
theorem C07_generated_shuffle {α : Type} [Inhabited α] (r : Go.Rand) (a : Array α) :
    ∃ out r', Shuffle a r = .ok (out, r') ∧ out.toList.Perm a.toList := by
  obtain ⟨out, h, p⟩ := C07_shuffle (choiceOf r a.size) a (choiceOf_contract r a.size)
  have := Outcome.le.ok (C07_generated_shuffle_refines r a) h
  cases hs : Shuffle a r with
  | ok c => rw [hs] at this; cases this; exact ⟨c.1, c.2, rfl, p⟩
  | panic => rw [hs] at this; cases this
  | diverge => rw [hs] at this; cases this

example : (Shuffle #[10, 20, 30, 40] (Go.Rand.new fun k => 5 * k + 3)).map Prod.fst = .ok #[40, 10, 20, 30] := by decide

/-- the internal `partition(a, lo, hi, cmp)`: returns the new `a` and the pivot's index -/
theorem C07_generated_partition_refines {α : Type} [Inhabited α] (cmp : α → α → Int) (a : Array α) (lo hi : Int)
    (fuel : Nat) (hf : a.size + 1 ≤ fuel) :
    C07.partition cmp a lo hi = .diverge ∨ C07.partition cmp a lo hi = Generated.Sort.partition fuel a lo hi cmp :=
  partition_le cmp a lo hi fuel hf

/-- the internal `quick(a, 0, len(a)-1, cmp)` -/
theorem C07_generated_quickCore_refines {α : Type} [Inhabited α] (cmp : α → α → Int) (a : Array α) (fuel : Nat)
    (hf : 2 * a.size + 2 ≤ fuel) :
    quickCore cmp a = .diverge ∨ quickCore cmp a = Generated.Sort.quick fuel a 0 ((a.size : Int) - 1) cmp := by
  obtain ⟨d, rfl⟩ : ∃ d, fuel = 2 * a.size + 2 + d := ⟨fuel - (2 * a.size + 2), by omega⟩
  exact quickCore_le cmp a d

theorem C07_generated_quick_refines {α : Type} [Inhabited α] (cmp : α → α → Int) (rand : Nat → Int) (a : Array α)
    (fuel : Nat) (hf : 2 * a.size + 2 ≤ fuel) :
    C07.quick (choiceOf (Go.Rand.new rand) a.size) cmp a = .diverge ∨
      C07.quick (choiceOf (Go.Rand.new rand) a.size) cmp a = Quick fuel rand a cmp := by
  obtain ⟨d, rfl⟩ : ∃ d, fuel = 2 * a.size + 2 + d := ⟨fuel - (2 * a.size + 2), by omega⟩
  exact quick_pub_le cmp rand a d

/-- `Quick` sorts, for every stream of its clock-seeded generator -/
theorem C07_generated_quick {α : Type} [Inhabited α] (cmp : α → α → Int) (tp : TotalPreorder cmp) (rand : Nat → Int)
    (a : Array α) (fuel : Nat) (hf : 2 * a.size + 2 ≤ fuel) :
    ∃ out, Quick fuel rand a cmp = .ok out ∧ IsSortOf cmp out a := by
  obtain ⟨out, h, s⟩ := C07_quick cmp tp _ a (choiceOf_contract (Go.Rand.new rand) a.size)
  exact ⟨out, Outcome.le.ok (C07_generated_quick_refines cmp rand a fuel hf) h, s⟩

example : Quick 10 (fun k => 5 * k + 3) #[(5, 0), (3, 1), (2, 2), (4, 3)] exCmp = .ok #[(3, 1), (4, 3), (2, 2), (5, 0)] := by decide

theorem C07_generated_select_refines {α : Type} [Inhabited α] (cmp : α → α → Int) (rand : Nat → Int) (a : Array α)
    (k : Int) (fuel : Nat) (hf : a.size + 1 ≤ fuel) :
    C07.select (choiceOf (Go.Rand.new rand) a.size) cmp a k = .diverge ∨
      C07.select (choiceOf (Go.Rand.new rand) a.size) cmp a k = Select fuel rand a k cmp := by
  obtain ⟨d, rfl⟩ : ∃ d, fuel = a.size + 1 + d := ⟨fuel - (a.size + 1), by omega⟩
  exact select_le cmp rand a k d

/-- `Select(a, k)` returns an element of rank `k` and leaves a permutation, for every stream of its generator -/
theorem C07_generated_select {α : Type} [Inhabited α] (cmp : α → α → Int) (tp : TotalPreorder cmp) (rand : Nat → Int)
    (a : Array α) (k : Nat) (hk : k < a.size) (fuel : Nat) (hf : a.size + 1 ≤ fuel) :
    ∃ out v, Select fuel rand a (k : Int) cmp = .ok (out, v) ∧ out.toList.Perm a.toList ∧ HasRank cmp a.toList k v := by
  obtain ⟨out, v, h, p, r⟩ := C07_select cmp tp _ a (choiceOf_contract (Go.Rand.new rand) a.size) k hk
  exact ⟨out, v, Outcome.le.ok (C07_generated_select_refines cmp rand a k fuel hf) h, p, r⟩

example : ∃ out v, Select 6 (fun k => 7 * k + 1) #[(5, 0), (3, 1), (2, 2), (4, 3), (0, 4)] ((2 : Nat) : Int) exCmp = .ok (out, v) ∧
    out.toList.Perm [(5, 0), (3, 1), (2, 2), (4, 3), (0, 4)] ∧ HasRank exCmp [(5, 0), (3, 1), (2, 2), (4, 3), (0, 4)] 2 v :=
  C07_generated_select _ exCmp_tp _ _ 2 (by decide) 6 (by decide)

theorem C07_generated_quick3way_refines {α : Type} [Inhabited α] (cmp : α → α → Int) (a : Array α) (fuel : Nat)
    (hf : 2 * a.size + 2 ≤ fuel) : C07.quick3Way cmp a = .diverge ∨ C07.quick3Way cmp a = Quick3Way fuel a cmp := by
  obtain ⟨d, rfl⟩ : ∃ d, fuel = 2 * a.size + 2 + d := ⟨fuel - (2 * a.size + 2), by omega⟩
  exact quick3Way_pub_le cmp a d

theorem C07_generated_quick3way {α : Type} [Inhabited α] (cmp : α → α → Int) (tp : TotalPreorder cmp) (a : Array α)
    (fuel : Nat) (hf : 2 * a.size + 2 ≤ fuel) : ∃ out, Quick3Way fuel a cmp = .ok out ∧ IsSortOf cmp out a := by
  obtain ⟨out, h, s⟩ := C07_quick3way cmp tp a
  exact ⟨out, Outcome.le.ok (C07_generated_quick3way_refines cmp a fuel hf) h, s⟩

example : Quick3Way 12 #[(5, 0), (3, 1), (2, 2), (4, 3), (0, 4)] exCmp = .ok #[(3, 1), (0, 4), (4, 3), (5, 0), (2, 2)] := by decide

/-! ### `radixsort/{radixsort,lsd,msd,quick}.go` (file `Generated/C07RadixGen.lean`)

`uint` is `UInt64`, a string is the list of its bytes — as in the hand Model.  A (signed) `int` is the unbounded `Int`
of the translator, with Go's arithmetic `>>` and the 64-bit `&`: the statements about `LSDInt` / `MSDInt` are for the
slice `a.map toI` of the two's-complement values of the hand Model's words `a`, and their result is the image of the
hand Model's.  `shuffle` draws from math/rand's package-level generator, an extra parameter `g : Go.Rand` of the
generated `Quick3WayString`; the statements hold for every state of it.  The counted loops of the radix sorts need no
fuel; the stated fuels cover the recursion (digits, `maxLen`) and the insertion-sort cutoff. -/

open AlgoVerif.C07.RGen

theorem C07_generated_lsdString_refines (a : Array (List UInt8)) (w : Int) :
    lsdString a w = .diverge ∨ lsdString a w = Generated.Radix.LSDString a w := LSDString_le a w

/-- `LSDString(a, w)`: every key has at least `w` bytes ⇒ the stable sort by the first `w` bytes -/
theorem C07_generated_lsdString_prefix (a : Array (List UInt8)) (w : Nat) (hw : ∀ s, s ∈ a.toList → w ≤ s.length) :
    ∃ out, Generated.Radix.LSDString a (w : Int) = .ok out ∧ out.toList = a.toList.mergeSort (prefixLe w) := by
  obtain ⟨out, h, s⟩ := C07_lsdString_prefix a w hw
  exact ⟨out, Outcome.le.ok (C07_generated_lsdString_refines a w) h, s⟩

theorem C07_generated_lsdString (a : Array (List UInt8)) (w : Nat) (hw : ∀ s, s ∈ a.toList → s.length = w) :
    ∃ out, Generated.Radix.LSDString a (w : Int) = .ok out ∧ out.toList = a.toList.mergeSort bytesLe := by
  obtain ⟨out, h, s⟩ := C07_lsdString a w hw
  exact ⟨out, Outcome.le.ok (C07_generated_lsdString_refines a w) h, s⟩

example : ∃ out, Generated.Radix.LSDString #[[0xff, 0x61], [0x00, 0xff], [0x61, 0x61]] ((2 : Nat) : Int) = .ok out ∧
    out.toList = [[0xff, 0x61], [0x00, 0xff], [0x61, 0x61]].mergeSort bytesLe :=
  C07_generated_lsdString _ 2 (by decide)

theorem C07_generated_lsdUint_refines (a : Array UInt64) :
    lsdUint a = .diverge ∨ lsdUint a = Generated.Radix.LSDUint a := LSDUint_le a

theorem C07_generated_lsdUint (a : Array UInt64) :
    ∃ out, Generated.Radix.LSDUint a = .ok out ∧ out.toList = a.toList.mergeSort uLe := by
  obtain ⟨out, h, s⟩ := C07_lsdUint a
  exact ⟨out, Outcome.le.ok (C07_generated_lsdUint_refines a) h, s⟩

theorem C07_generated_lsdInt_refines (a : Array UInt64) :
    (lsdInt a).map (fun b => b.map toI) = .diverge ∨
      (lsdInt a).map (fun b => b.map toI) = Generated.Radix.LSDInt (a.map toI) := LSDInt_le a

/-- `LSDInt` on the `int`s `toI a[0], toI a[1], …` returns the `int`s of the words sorted by the `int` order -/
theorem C07_generated_lsdInt (a : Array UInt64) :
    ∃ out : Array UInt64, Generated.Radix.LSDInt (a.map toI) = .ok (out.map toI) ∧ out.toList = a.toList.mergeSort iLe := by
  obtain ⟨out, h, s⟩ := C07_lsdInt a
  exact ⟨out, Outcome.le.ok (C07_generated_lsdInt_refines a) (by simp [h]), s⟩

example : ∃ out : Array UInt64, Generated.Radix.LSDInt ((#[3, 0 - 1, 256, 0 - 256, 0] : Array UInt64).map toI) = .ok (out.map toI) ∧
    out.toList = [3, 0 - 1, 256, 0 - 256, 0].mergeSort iLe := C07_generated_lsdInt _

theorem C07_generated_msdString_refines (a : Array (List UInt8)) (fuel : Nat) (hf : maxLen a + a.size + 3 ≤ fuel) :
    msdString a = .diverge ∨ msdString a = Generated.Radix.MSDString fuel a := by
  obtain ⟨e, rfl⟩ : ∃ e, fuel = maxLen a + 2 + (a.size + 1) + e := ⟨fuel - (maxLen a + 2 + (a.size + 1)), by omega⟩
  exact MSDString_le a e

theorem C07_generated_msdString (a : Array (List UInt8)) (fuel : Nat) (hf : maxLen a + a.size + 3 ≤ fuel) :
    ∃ out, Generated.Radix.MSDString fuel a = .ok out ∧ out.toList = a.toList.mergeSort bytesLe := by
  obtain ⟨out, h, s⟩ := C07_msdString a
  exact ⟨out, Outcome.le.ok (C07_generated_msdString_refines a fuel hf) h, s⟩

theorem C07_generated_msdUint_refines (a : Array UInt64) (fuel : Nat) (hf : a.size + 10 ≤ fuel) :
    msdUint a = .diverge ∨ msdUint a = Generated.Radix.MSDUint fuel a := by
  obtain ⟨e, rfl⟩ : ∃ e, fuel = 8 + 1 + (a.size + 1) + e := ⟨fuel - (8 + 1 + (a.size + 1)), by omega⟩
  exact MSDUint_le a e

theorem C07_generated_msdUint (a : Array UInt64) (fuel : Nat) (hf : a.size + 10 ≤ fuel) :
    ∃ out, Generated.Radix.MSDUint fuel a = .ok out ∧ out.toList = a.toList.mergeSort uLe := by
  obtain ⟨out, h, s⟩ := C07_msdUint a
  exact ⟨out, Outcome.le.ok (C07_generated_msdUint_refines a fuel hf) h, s⟩

theorem C07_generated_msdInt_refines (a : Array UInt64) (fuel : Nat) (hf : a.size + 10 ≤ fuel) :
    (msdInt a).map (fun b => b.map toI) = .diverge ∨
      (msdInt a).map (fun b => b.map toI) = Generated.Radix.MSDInt fuel (a.map toI) := by
  obtain ⟨e, rfl⟩ : ∃ e, fuel = 8 + 1 + (a.size + 1) + e := ⟨fuel - (8 + 1 + (a.size + 1)), by omega⟩
  exact MSDInt_le a e

theorem C07_generated_msdInt (a : Array UInt64) (fuel : Nat) (hf : a.size + 10 ≤ fuel) :
    ∃ out : Array UInt64, Generated.Radix.MSDInt fuel (a.map toI) = .ok (out.map toI) ∧ out.toList = a.toList.mergeSort iLe := by
  obtain ⟨out, h, s⟩ := C07_msdInt a
  exact ⟨out, Outcome.le.ok (C07_generated_msdInt_refines a fuel hf) (by simp [h]), s⟩

/-- 17 words (above the insertion-sort cutoff) with both signs, run on the generated definitions -/
example : ∃ out : Array UInt64, Generated.Radix.MSDInt 27 ((Array.ofFn (n := 17) fun i => (UInt64.ofNat (i.val % 2) <<< 63) ||| UInt64.ofNat (17 - i.val)).map toI) =
      .ok (out.map toI) ∧
    out.toList = (Array.ofFn (n := 17) fun i => (UInt64.ofNat (i.val % 2) <<< 63) ||| UInt64.ofNat (17 - i.val)).toList.mergeSort iLe :=
  C07_generated_msdInt _ 27 (by simp)

theorem C07_generated_q3String_refines (g : Go.Rand) (a : Array (List UInt8)) (fuel : Nat)
    (hf : 2 * a.size + maxLen a + 3 ≤ fuel) :
    q3String (choiceOf g a.size) a = .diverge ∨
      q3String (choiceOf g a.size) a = (Generated.Radix.Quick3WayString fuel a g).map Prod.fst := by
  refine Quick3WayString_le g a fuel fun a1 h1 => ?_
  obtain ⟨out, h2, p⟩ := C07_shuffle (choiceOf g a.size) a (choiceOf_contract g a.size)
  have e : out = a1 := by rw [h2] at h1; exact Outcome.ok.inj h1
  subst e
  have hs : out.size = a.size := by simpa using p.length_eq
  have hm := maxLen_perm p
  omega

/-- `Quick3WayString` sorts, for every state of math/rand's package-level generator -/
theorem C07_generated_q3String (g : Go.Rand) (a : Array (List UInt8)) (fuel : Nat)
    (hf : 2 * a.size + maxLen a + 3 ≤ fuel) :
    ∃ out g', Generated.Radix.Quick3WayString fuel a g = .ok (out, g') ∧ out.toList = a.toList.mergeSort bytesLe := by
  obtain ⟨out, h, s⟩ := C07_q3String (choiceOf g a.size) a (choiceOf_contract g a.size)
  have := Outcome.le.ok (C07_generated_q3String_refines g a fuel hf) h
  cases hq : Generated.Radix.Quick3WayString fuel a g with
  | ok c => rw [hq] at this; cases this; exact ⟨c.1, c.2, rfl, s⟩
  | panic => rw [hq] at this; cases this
  | diverge => rw [hq] at this; cases this

example : (Generated.Radix.Quick3WayString 13 #[[0x62], [0x61, 0x62], [], [0x61]] (Go.Rand.new fun k => 3 * k + 1)).map Prod.fst =
    .ok #[[], [0x61], [0x61, 0x62], [0x62]] := by decide
