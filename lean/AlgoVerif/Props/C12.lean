import AlgoVerif.Proofs.C12Complete
import AlgoVerif.Proofs.C12AST
import AlgoVerif.Proofs.C12Term
import AlgoVerif.Proofs.C10TableEq
import AlgoVerif.Proofs.C12ASTStack
import AlgoVerif.Proofs.C12Faults
import AlgoVerif.Proofs.C10Edit
/-!
# C12 — the predictive parser accepts exactly L(G) for LL(1) grammars

Model: `Model/C10.lean` (`parseLoop` = the stack/input loop of `predictive.Parse` after the D19 fix,
`parseWith` = `Parse` including `BuildParsingTable` — the table filled by the `addProduction` / `setSync`
calls in the order the code makes them — and the `Conflicts()` gate, `buildASTStack` = the callbacks of
`ParseAndBuildAST` with their explicit stack of node pointers).  Spec: `Language` of
`Model/GrammarCore.lean`, `Spec.LeftmostDerives`.

Two refinement facts carry the proofs (`C12_table_refinement`, `C12_ast_refinement`): for a duplicate-free
production list the cells of the table built call by call are the lists `cell g fi fo A a` (so
`Conflicts()` is `conflicts g fi fo`), and the pointer-stack builder computes the same tree as "complete the
leftmost incomplete node" (`buildAST`).  Hypotheses of the form `conflicts g … = []` below therefore say
"`Conflicts()` of the built table is empty".

All statements are for ALL grammars, ALL token strings and EVERY iteration order of the FIRST/FOLLOW
computation the table is built from; `parseWith … = .ok (.done …)` already says that the table had no
conflict (otherwise the answer is `.tableError`).  The hypothesis `analyse … = .ok an` (FIRST/FOLLOW
returned) holds for every grammar that passes `Verify()` by `C10_fixpoints_terminate`.
-/
open AlgoVerif AlgoVerif.Gram AlgoVerif.C10
set_option linter.unusedSectionVars false

section
variable {T N : Type} [DecidableEq T] [DecidableEq N]

/-- **Soundness.**  If `Parse` returns no error, the productions it emitted are the leftmost derivation
of the input from the start symbol (so the input is a sentence), the token callback saw exactly the
input, and `ParseAndBuildAST` returns a complete tree whose leaves are the input tokens in order
(yield = input).  No hypothesis on the grammar or on how FIRST/FOLLOW were obtained is needed. -/
theorem C12_sound (g : Grammar T N) (an : Analysis T N) (fuel : Nat) (w : List T) (E : List (Event T N))
    (h : parseWith g an fuel w = .ok (.done (.accept E))) :
    Spec.LeftmostDerives g (eventProds E) [Sym.nonterm g.start] (w.map Sym.term) ∧
    Language g w ∧
    eventToks E = withPos w 0 ∧
    ∃ t, buildASTStack g.start E = .ok t ∧
      t.frontier = (withPos w 0).map (fun x => (x.1, some x.2)) ∧ t.yield = w := by
  unfold parseWith at h
  dsimp only at h
  split at h
  · cases hl : parseLoop (tcell (buildTable (firstStr an.first) an.follow g.prods g.nonterms)) fuel
        [Sym.nonterm g.start] w 0 [] with
    | ok r =>
      rw [hl] at h
      simp [Outcome.map] at h
      subst h
      obtain ⟨h1, h2⟩ := parse_sound (tcell_tableSound g _ _ _) hl
      refine ⟨h1, LeftmostDerives.toDerives h1, h2, ?_⟩
      rw [buildASTStack_eq]
      exact ast_of_parse hl
    | panic => rw [hl] at h; simp [Outcome.map] at h
    | diverge => rw [hl] at h; simp [Outcome.map] at h
  · cases h

/-- **The table built call by call is the table of cells.**  For a duplicate-free production list (what
`G.Productions` is) and any order of the rows: every cell of `buildTable` is the list `cell g fi fo A a`,
`Conflicts()` is `conflicts g fi fo`, and `Parse` is `parseWithCells`. -/
theorem C12_table_refinement (g : Grammar T N) (hnd : g.prods.Nodup) (an : Analysis T N) (rows : List N) :
    tcell (buildTable (firstStr an.first) an.follow g.prods rows) = cell g (firstStr an.first) an.follow ∧
    tconflicts (buildTable (firstStr an.first) an.follow g.prods rows) g.nonterms (columns g)
      = conflicts g (firstStr an.first) an.follow ∧
    ∀ fuel w, parseWith g an fuel w = parseWithCells g an fuel w :=
  ⟨tcell_eq_cell hnd _ _ rows, tconflicts_eq hnd _ _ rows, fun fuel w => parseWith_eq_cells hnd an fuel w⟩

/-- **The pointer-stack AST builder is "complete the leftmost incomplete node".** -/
theorem C12_ast_refinement (S : N) (es : List (Event T N)) :
    buildASTStack S es = buildAST es (Tree.node S none []) :=
  buildASTStack_eq S es

/-- **A sentence followed by further tokens is rejected** (unless the longer string is a sentence
itself): `Parse` never answers "no error" on a non-sentence.  (Before the D19 fix the Model accepted
`a a` for `S → a`; see the `example` below for today's answer.) -/
theorem C12_rejects_trailing (g : Grammar T N) (an : Analysis T N) (fuel : Nat) (u v : List T)
    (_hu : Language g u) (hv : ¬ Language g (u ++ v)) (E : List (Event T N)) :
    parseWith g an fuel (u ++ v) ≠ .ok (.done (.accept E)) :=
  fun h => hv (C12_sound g an fuel (u ++ v) E h).2.1

/-- the step that implements it: stack down to `$`, input not at its end ⇒ error -/
theorem C12_stack_empty_input_left (M : N → Option T → List (GProd T N)) (fuel : Nat) (a : T)
    (rest : List T) (pos : Nat) (evs : List (Event T N)) :
    parseLoop M (fuel + 1) [] (a :: rest) pos evs = .ok (.reject .trailing) := rfl

/-- **Completeness, with termination on sentences.**  For a valid grammar whose table (built from any
fair run of FIRST/FOLLOW) is conflict-free, `Parse` accepts every sentence after finitely many steps. -/
theorem C12_complete (g : Grammar T N) (hv : validB g = true) (hnd : g.prods.Nodup)
    (o₁ o₂ : IterOrder T N) (h₁ : o₁.Fair) (h₂ : o₂.Fair) (an : Analysis T N)
    (han : analyse g o₁ o₂ = .ok an) (hcf : conflicts g (firstStr an.first) an.follow = [])
    (w : List T) (hw : Language g w) :
    ∃ fuel₀ E, ∀ fuel, fuel ≥ fuel₀ → parseWith g an fuel w = .ok (.done (.accept E)) := by
  obtain ⟨n, hn⟩ := Derives.toDerivesN hw
  obtain ⟨fuel₀, E, hE⟩ := parseLoop_complete hv (cell_tableComplete hnd h₁ h₂ han hcf) n
    [Sym.nonterm g.start] w [] 0 [] hn (by simpa using Derives.refl _)
  refine ⟨fuel₀, E, ?_⟩
  intro fuel hf
  obtain ⟨k, rfl⟩ : ∃ k, fuel = fuel₀ + k := ⟨fuel - fuel₀, by omega⟩
  rw [parseWith_eq_cells hnd]
  unfold parseWithCells
  simp [hcf, parseLoop_mono _ _ _ _ _ _ hE k, Outcome.map]

/-- **Exactness** (what the parser decides, given enough steps): accepted iff sentence. -/
theorem C12_accepts_iff_sentence (g : Grammar T N) (hv : validB g = true) (hnd : g.prods.Nodup)
    (o₁ o₂ : IterOrder T N) (h₁ : o₁.Fair) (h₂ : o₂.Fair) (an : Analysis T N)
    (han : analyse g o₁ o₂ = .ok an) (hcf : conflicts g (firstStr an.first) an.follow = [])
    (w : List T) :
    (∃ fuel E, parseWith g an fuel w = .ok (.done (.accept E))) ↔ Language g w := by
  constructor
  · rintro ⟨fuel, E, h⟩
    exact (C12_sound g an fuel w E h).2.1
  · intro hw
    obtain ⟨fuel₀, E, h⟩ := C12_complete g hv hnd o₁ o₂ h₁ h₂ an han hcf w hw
    exact ⟨fuel₀, E, h fuel₀ (Nat.le_refl _)⟩

/-- **Termination on every token sequence.**  For a valid grammar and a table built from any fair run
of FIRST/FOLLOW, `Parse` returns after finitely many steps on every input — sentence or not (if the
table has a conflict it returns the table error at once).  Between two matches the lookahead is fixed:
either the stack can still derive a string starting with it, and then the single production in the cell
is the first step of every such derivation, which gets shorter; or it cannot, and then only productions
with a vanishing body are used on the vanishing prefix of the stack, whose erasing derivation gets
shorter (`Proofs/C12Term.lean`). -/
theorem C12_terminates (g : Grammar T N) (hv : validB g = true) (hnd : g.prods.Nodup)
    (o₁ o₂ : IterOrder T N) (h₁ : o₁.Fair) (h₂ : o₂.Fair) (an : Analysis T N)
    (han : analyse g o₁ o₂ = .ok an) (w : List T) :
    ∃ fuel₀ r, ∀ fuel, fuel ≥ fuel₀ → parseWith g an fuel w = .ok r := by
  by_cases hcf : conflicts g (firstStr an.first) an.follow = []
  · obtain ⟨fuel₀, r, hr⟩ := parse_terminates hv hnd h₁ h₂ han hcf w
    refine ⟨fuel₀, .done r, ?_⟩
    intro fuel hf
    obtain ⟨k, rfl⟩ : ∃ k, fuel = fuel₀ + k := ⟨fuel - fuel₀, by omega⟩
    rw [parseWith_eq_cells hnd]
    unfold parseWithCells
    simp [hcf, parseLoop_mono _ _ _ _ _ _ hr k, Outcome.map]
  · refine ⟨0, .tableError, ?_⟩
    intro fuel _
    rw [parseWith_eq_cells hnd]
    unfold parseWithCells
    have : (conflicts g (firstStr an.first) an.follow).isEmpty = false := by
      cases hc : conflicts g (firstStr an.first) an.follow with
      | nil => exact absurd hc hcf
      | cons _ _ => rfl
    simp [this]

/-- **The property in one statement.**  For a valid grammar whose predictive table is conflict-free, and
every token sequence `w`: `Parse` terminates, and it returns no error iff `w` is a sentence of `G`. -/
theorem C12_decides_language (g : Grammar T N) (hv : validB g = true) (hnd : g.prods.Nodup)
    (o₁ o₂ : IterOrder T N) (h₁ : o₁.Fair) (h₂ : o₂.Fair) (an : Analysis T N)
    (han : analyse g o₁ o₂ = .ok an) (hcf : conflicts g (firstStr an.first) an.follow = [])
    (w : List T) :
    ∃ fuel₀ r, (∀ fuel, fuel ≥ fuel₀ → parseWith g an fuel w = .ok (.done r)) ∧
      ((∃ E, r = .accept E) ↔ Language g w) := by
  obtain ⟨fuel₀, r, hr⟩ := parse_terminates hv hnd h₁ h₂ han hcf w
  have hall : ∀ fuel, fuel ≥ fuel₀ → parseWith g an fuel w = .ok (.done r) := by
    intro fuel hf
    obtain ⟨k, rfl⟩ : ∃ k, fuel = fuel₀ + k := ⟨fuel - fuel₀, by omega⟩
    rw [parseWith_eq_cells hnd]
    unfold parseWithCells
    simp [hcf, parseLoop_mono _ _ _ _ _ _ hr k, Outcome.map]
  refine ⟨fuel₀, r, hall, ?_⟩
  constructor
  · rintro ⟨E, rfl⟩
    exact (C12_sound g an fuel₀ w E (hall fuel₀ (Nat.le_refl _))).2.1
  · intro hw
    obtain ⟨f₁, E, hE⟩ := C12_complete g hv hnd o₁ o₂ h₁ h₂ an han hcf w hw
    have h1 := hall (max fuel₀ f₁) (Nat.le_max_left _ _)
    have h2 := hE (max fuel₀ f₁) (Nat.le_max_right _ _)
    rw [h1] at h2
    injection h2 with h2
    injection h2 with h2
    exact ⟨E, h2⟩

/-! ### a lexer that fails, callbacks that return errors

`parseWithF` is `Parse` with a lexer whose call number `lexFail` answers an error other than `io.EOF`, a token
callback that returns an error for the token at position `tokFail` and a production callback that returns an error
at its call number `prodFail` (`none` = never); its result lists the callbacks that returned nil.  The property
words the parser's answer for lexers and callbacks that do not fail (the theorems above); these theorems say what
the three `return &parser.ParseError{Cause: err}` branches do, for all grammars, inputs and fault positions. -/

/-- **Nothing fails ⇒ the `Parse` of the theorems above**, and such a run never ends in a failure. -/
theorem C12_faultfree_is_parse (g : Grammar T N) (an : Analysis T N) (fuel : Nat) (w : List T) :
    (parseWith g an fuel w = (parseWithF g an none none none fuel w).bind fun r => match r with
      | .tableError => .ok .tableError
      | .done E .accept => .ok (.done (.accept E))
      | .done _ (.reject why) => .ok (.done (.reject why))
      | .done _ (.fail _) => .panic) ∧
    ∀ E f, parseWithF g an none none none fuel w ≠ .ok (.done E (.fail f)) := by
  constructor
  · unfold parseWith parseWithF
    dsimp only
    split
    · rw [parseRunF_none _ fuel _ w 0 0 []]
      simp only [reduceCtorEq, if_false]
      cases parseRunF (tcell (buildTable (firstStr an.first) an.follow g.prods g.nonterms)) none none none fuel
          [Sym.nonterm g.start] w 0 0 with
      | ok r =>
        obtain ⟨E, e⟩ := r
        cases e <;> simp [Outcome.bind, Outcome.map, toPResult]
      | panic => rfl
      | diverge => rfl
    · rfl
  · intro E f h
    unfold parseWithF at h
    dsimp only at h
    split at h
    · simp only [reduceCtorEq, if_false] at h
      cases hr : parseRunF (tcell (buildTable (firstStr an.first) an.follow g.prods g.nonterms)) none none none fuel
          [Sym.nonterm g.start] w 0 0 with
      | ok r =>
        rw [hr] at h
        obtain ⟨E', e'⟩ := r
        simp only [Outcome.map, Outcome.ok.injEq, ParseOutF.done.injEq] at h
        obtain ⟨rfl, rfl⟩ := h
        exact parseRunF_none_ne_fail _ fuel _ w 0 0 _ f hr
      | panic => rw [hr] at h; simp [Outcome.map] at h
      | diverge => rw [hr] at h; simp [Outcome.map] at h
    · cases h

/-- **An error of the lexer or of a callback stops `Parse` at that call.**  Whatever fails and wherever: the
run is the run in which nothing fails, cut at the first call that returns an error (`cutEvents`) — `Parse` returns
that error, and the callbacks it made before are exactly those of the undisturbed run up to there. -/
theorem C12_error_stops_parse (g : Grammar T N) (an : Analysis T N) (lexFail tokFail prodFail : Option Nat)
    (fuel : Nat) (w : List T) (E : List (Event T N)) (e : Ending)
    (h : parseWithF g an none none none fuel w = .ok (.done E e)) :
    parseWithF g an lexFail tokFail prodFail fuel w =
      .ok (if lexFail = some 0 then .done [] (.fail .lexer)
           else .done (cutEvents lexFail tokFail prodFail 0 E e).1 (cutEvents lexFail tokFail prodFail 0 E e).2) := by
  unfold parseWithF at h ⊢
  dsimp only at h ⊢
  split at h
  · rename_i hc
    rw [if_pos hc]
    simp only [reduceCtorEq, if_false] at h
    by_cases h0 : lexFail = some 0
    · simp [h0]
    · simp only [h0, if_false]
      cases hr : parseRunF (tcell (buildTable (firstStr an.first) an.follow g.prods g.nonterms)) none none none fuel
          [Sym.nonterm g.start] w 0 0 with
      | ok r =>
        rw [hr] at h
        obtain ⟨E', e'⟩ := r
        simp only [Outcome.map, Outcome.ok.injEq, ParseOutF.done.injEq] at h
        obtain ⟨rfl, rfl⟩ := h
        rw [parseRunF_cut _ lexFail tokFail prodFail fuel _ w 0 0 _ _ hr]
        rfl
      | panic => rw [hr] at h; simp [Outcome.map] at h
      | diverge => rw [hr] at h; simp [Outcome.map] at h
  · cases h

/-- **Nothing is emitted after the error, and without an error nothing changes**: the callbacks made under faults
are a prefix of the callbacks of the undisturbed run; if `Parse` does not end with an injected error, its answer
and its callbacks are those of the undisturbed run (so `C12_sound` … `C12_decides_language` apply to it). -/
theorem C12_nothing_emitted_after_error (g : Grammar T N) (an : Analysis T N)
    (lexFail tokFail prodFail : Option Nat) (fuel : Nat) (w : List T) (E E' : List (Event T N)) (e e' : Ending)
    (h : parseWithF g an none none none fuel w = .ok (.done E e))
    (h' : parseWithF g an lexFail tokFail prodFail fuel w = .ok (.done E' e')) :
    E' <+: E ∧ ((∀ f, e' ≠ .fail f) → E' = E ∧ e' = e) := by
  rw [C12_error_stops_parse g an lexFail tokFail prodFail fuel w E e h] at h'
  by_cases h0 : lexFail = some 0
  · simp only [h0, if_true, Outcome.ok.injEq, ParseOutF.done.injEq] at h'
    obtain ⟨rfl, rfl⟩ := h'
    exact ⟨List.nil_prefix, fun hf => absurd rfl (hf .lexer)⟩
  · simp only [h0, if_false, Outcome.ok.injEq, ParseOutF.done.injEq] at h'
    obtain ⟨rfl, rfl⟩ := h'
    refine ⟨cutEvents_prefix _ _ _ E 0 e, fun hf => ?_⟩
    rw [cutEvents_not_fail _ _ _ E 0 e hf]
    exact ⟨rfl, rfl⟩

/-- **The token callback's error is returned**: if the undisturbed run hands the token at position `j` to the token
callback (after the callbacks `E₁`), and that call returns an error, `Parse` returns that error (with the position
of the token) having made exactly the callbacks `E₁`. -/
theorem C12_token_callback_error_returned (g : Grammar T N) (an : Analysis T N) (fuel : Nat) (w : List T)
    (E₁ E₂ : List (Event T N)) (t : T) (j : Nat) (e : Ending)
    (h : parseWithF g an none none none fuel w = .ok (.done (E₁ ++ .tok t j :: E₂) e))
    (hfirst : ∀ t' p, Event.tok t' p ∈ E₁ → p ≠ j) :
    parseWithF g an none (some j) none fuel w = .ok (.done E₁ (.fail (.token j))) := by
  rw [C12_error_stops_parse g an none (some j) none fuel w _ e h, cutEvents_token j t E₁ E₂ 0 e hfirst]
  simp

/-- **The production callback's error is returned**: if its call number `k` returns an error, `Parse` returns that
error having made exactly the callbacks before it. -/
theorem C12_production_callback_error_returned (g : Grammar T N) (an : Analysis T N) (fuel : Nat) (w : List T)
    (E₁ E₂ : List (Event T N)) (p : GProd T N) (e : Ending)
    (h : parseWithF g an none none none fuel w = .ok (.done (E₁ ++ .prod p :: E₂) e)) :
    parseWithF g an none none (some (eventProds E₁).length) fuel w = .ok (.done E₁ (.fail .prod)) := by
  rw [C12_error_stops_parse g an none none (some (eventProds E₁).length) fuel w _ e h,
    cutEvents_prod (eventProds E₁).length p E₁ E₂ 0 e (by omega)]
  simp

/-- **The lexer's error is returned**: an error at the first `NextToken` is returned before any callback; an error
at the call that follows the token at position `j` is returned right after that token's callback. -/
theorem C12_lexer_error_returned (g : Grammar T N) (an : Analysis T N) (fuel : Nat) (w : List T)
    (E : List (Event T N)) (e : Ending) (h : parseWithF g an none none none fuel w = .ok (.done E e)) :
    parseWithF g an (some 0) none none fuel w = .ok (.done [] (.fail .lexer)) ∧
    ∀ (E₁ E₂ : List (Event T N)) (t : T) (j : Nat), E = E₁ ++ .tok t j :: E₂ →
      (∀ t' p, Event.tok t' p ∈ E₁ → p ≠ j) →
      parseWithF g an (some (j + 1)) none none fuel w = .ok (.done (E₁ ++ [.tok t j]) (.fail .lexer)) := by
  constructor
  · rw [C12_error_stops_parse g an (some 0) none none fuel w E e h]
    simp
  · intro E₁ E₂ t j hE hfirst
    subst hE
    rw [C12_error_stops_parse g an (some (j + 1)) none none fuel w _ e h, cutEvents_lexer j t E₁ E₂ 0 e hfirst]
    simp

/-! ### the lexer's end of input, one parser object over time (`Model/C10Edit.lean`)

`nextToken` turns every error `err` with `errors.Is(err, io.EOF)` into the endmarker and hands every other error back;
`parseWithL` is `Parse` on a lexer given by what its calls return (`LexAnswer`: a token, an end-of-input error of any
make with any token beside it, another error).  `predictive.New` keeps the pointer to the caller's grammar and `Parse`
builds the table from it every time; `parserHistory` is one parser object over a history of in-place edits of that
grammar (every way the API allows: `Edit`) and `Parse` calls. -/

/-- **`Parse` sees the tokens and nothing else.**  For every lexer — whatever error it ends its input with (`io.EOF`,
wrapped, joined, a type of its own), whatever token it returns beside that error, wherever it fails — `Parse` is
`parseWithF` on the tokens delivered before the first call that returned an error, failing at that call iff the error
is not an end-of-input error; so all theorems above apply, and two lexers that deliver the same tokens and then end
give the same result. -/
theorem C12_lexer_end_of_input (g : Grammar T N) (an : Analysis T N) (lx : List (LexAnswer T))
    (tokFail prodFail : Option Nat) (fuel : Nat) :
    parseWithL g an lx tokFail prodFail fuel = parseWithF g an (lexFailAt lx) tokFail prodFail fuel (lexTokens lx) ∧
    ∀ lx' : List (LexAnswer T), lexTokens lx' = lexTokens lx → lexFailAt lx' = lexFailAt lx →
      parseWithL g an lx' tokFail prodFail fuel = parseWithL g an lx tokFail prodFail fuel := by
  refine ⟨parseWithL_eq g an lx tokFail prodFail fuel, ?_⟩
  intro lx' ht hf
  rw [parseWithL_eq, parseWithL_eq, ht, hf]

/-- **A parser object answers for the grammar as it is.**  One parser made for a grammar object `g` (a set grammar, as
`NewCFG` makes it), any history of in-place edits of `g` and `Parse` calls of that parser on new inputs: the `Parse` that
comes after the steps `pre` is the `Parse` of a fresh parser on `applyEdits g (editsOf pre)`; so when THAT grammar
passes `Verify()` and its table is conflict-free, the call terminates and returns no error iff its input is a sentence
of that grammar — whatever the parser has parsed before and whatever the grammar was then. -/
theorem C12_parser_object_history (g : Grammar T N) (hset : IsSetGrammar g) (pre post : List (PStep T N))
    (w : List T) (o₁ o₂ : IterOrder T N) (h₁ : o₁.Fair) (h₂ : o₂.Fair)
    (hv : validB (applyEdits g (editsOf pre)) = true) (an : Analysis T N)
    (han : analyse (applyEdits g (editsOf pre)) o₁ o₂ = .ok an)
    (hcf : conflicts (applyEdits g (editsOf pre)) (firstStr an.first) an.follow = []) :
    (∀ fuel, (parserHistory fuel g (pre ++ .parse w o₁ o₂ :: post))[parsesIn pre]? =
      some (freshParse fuel (applyEdits g (editsOf pre)) w o₁ o₂)) ∧
    ∃ fuel₀ r, (∀ fuel, fuel ≥ fuel₀ →
        (parserHistory fuel g (pre ++ .parse w o₁ o₂ :: post))[parsesIn pre]? = some (.ok (.done r))) ∧
      ((∃ E, r = .accept E) ↔ Language (applyEdits g (editsOf pre)) w) := by
  refine ⟨fun fuel => parserHistory_at fuel g pre post w o₁ o₂, ?_⟩
  have hnd := (applyEdits_isSet (editsOf pre) g hset).2.2
  obtain ⟨fuel₀, r, hall, hiff⟩ := C12_decides_language _ hv hnd o₁ o₂ h₁ h₂ an han hcf w
  refine ⟨fuel₀, r, ?_, hiff⟩
  intro fuel hf
  rw [parserHistory_at]
  simp only [freshParse, han]
  rw [hall fuel hf]

end

/-! ## non-vacuity: `S → a A b`, `A → ε | a A` (terminals `0 = a`, `1 = b`; non-terminals `0 = S`, `1 = A`) -/

def C12ex : Grammar Nat Nat :=
  { terms := [0, 1], nonterms := [0, 1], start := 0,
    prods := [⟨0, [.term 0, .nonterm 1, .term 1]⟩, ⟨1, []⟩, ⟨1, [.term 0, .nonterm 1]⟩] }

example : validB C12ex = true := by decide
example : C12ex.prods.Nodup := by decide

/-- the table is conflict-free, `a a b` is accepted with the expected leftmost derivation, `a b b`
(sentence + trailing token) and `a` (truncated sentence) are rejected -/
example : ∃ an, analyse C12ex IterOrder.canon IterOrder.canon = .ok an ∧
    conflicts C12ex (firstStr an.first) an.follow = [] ∧
    (∃ E, parseWith C12ex an 50 [0, 0, 1] = .ok (.done (.accept E)) ∧
      eventProds E = [⟨0, [.term 0, .nonterm 1, .term 1]⟩, ⟨1, [.term 0, .nonterm 1]⟩, ⟨1, []⟩] ∧
      ∃ t, buildASTStack 0 E = .ok t ∧ t.yield = [0, 0, 1]) ∧
    parseWith C12ex an 50 [0, 1, 1] = .ok (.done (.reject .trailing)) ∧
    parseWith C12ex an 50 [0] = .ok (.done (.reject .noEntry)) :=
  ⟨_, rfl, by decide, ⟨_, rfl, by decide, _, rfl, by decide⟩, rfl, rfl⟩

example : Language C12ex [0, 0, 1] := by
  have hA0 : Derives C12ex [Sym.nonterm 1] [] := Derives.of_prod (p := ⟨1, []⟩) (by decide)
  have hA1 : Derives C12ex [Sym.nonterm 1] [.term 0] := by
    refine (Derives.of_prod (p := ⟨1, [.term 0, .nonterm 1]⟩) (by decide)).trans ?_
    simpa using hA0.append_left [Sym.term 0]
  refine (Derives.of_prod (p := ⟨0, [.term 0, .nonterm 1, .term 1]⟩) (by decide)).trans ?_
  have := (hA1.append_left [Sym.term 0]).append_right [Sym.term 1]
  simpa using this

/-- D19 witness, today: `S → a` on `a a` is rejected because input is left when the stack is empty -/
def C12d19 : Grammar Nat Nat :=
  { terms := [0], nonterms := [0], start := 0, prods := [⟨0, [.term 0]⟩] }

example : ∃ an, analyse C12d19 IterOrder.canon IterOrder.canon = .ok an ∧
    (∃ E, parseWith C12d19 an 10 [0] = .ok (.done (.accept E))) ∧
    parseWith C12d19 an 10 [0, 0] = .ok (.done (.reject .trailing)) :=
  ⟨_, rfl, ⟨_, rfl⟩, rfl⟩

/-- faults on `a a b` for `S → a A b`, `A → ε | a A`: the undisturbed run makes six callbacks; an error of the token
callback at position 1, of production callback number 1, of the lexer at its calls 0 and 2 each stop it there -/
example : ∃ an, analyse C12ex IterOrder.canon IterOrder.canon = .ok an ∧
    parseWithF C12ex an none none none 50 [0, 0, 1] = .ok (.done
      [.prod ⟨0, [.term 0, .nonterm 1, .term 1]⟩, .tok 0 0, .prod ⟨1, [.term 0, .nonterm 1]⟩, .tok 0 1, .prod ⟨1, []⟩,
       .tok 1 2] .accept) ∧
    parseWithF C12ex an none (some 1) none 50 [0, 0, 1] = .ok (.done
      [.prod ⟨0, [.term 0, .nonterm 1, .term 1]⟩, .tok 0 0, .prod ⟨1, [.term 0, .nonterm 1]⟩] (.fail (.token 1))) ∧
    parseWithF C12ex an none none (some 1) 50 [0, 0, 1] = .ok (.done
      [.prod ⟨0, [.term 0, .nonterm 1, .term 1]⟩, .tok 0 0] (.fail .prod)) ∧
    parseWithF C12ex an (some 0) none none 50 [0, 0, 1] = .ok (.done [] (.fail .lexer)) ∧
    parseWithF C12ex an (some 2) none none 50 [0, 0, 1] = .ok (.done
      [.prod ⟨0, [.term 0, .nonterm 1, .term 1]⟩, .tok 0 0, .prod ⟨1, [.term 0, .nonterm 1]⟩, .tok 0 1] (.fail .lexer)) :=
  ⟨_, rfl, rfl, rfl, rfl, rfl, rfl⟩

/-- the lexer's ways of ending: `a a b` then `io.EOF` (the answers end), then an end-of-input error with a token `9`
beside it, then nothing but that error — the same accepting run; a failure at call 2 is the failing call of `parseWithF` -/
example : ∃ an, analyse C12ex IterOrder.canon IterOrder.canon = .ok an ∧
    parseWithL C12ex an [.tok 0, .tok 0, .tok 1] none none 50 = parseWithF C12ex an none none none 50 [0, 0, 1] ∧
    parseWithL C12ex an [.tok 0, .tok 0, .tok 1, .eof (some 9), .tok 1] none none 50 =
      parseWithF C12ex an none none none 50 [0, 0, 1] ∧
    parseWithL C12ex an [.tok 0, .tok 0, .fail, .tok 1] none none 50 = parseWithF C12ex an (some 2) none none 50 [0, 0] ∧
    lexTokens [LexAnswer.tok 0, .tok 0, .tok 1, .eof (some 9), .tok 1] = [0, 0, 1] ∧
    lexFailAt [LexAnswer.tok (0 : Nat), .tok 0, .fail, .tok 1] = some 2 :=
  ⟨_, rfl, rfl, rfl, rfl, rfl, rfl⟩

/-- one parser object: made for `C12ex`, it accepts `a a b`; `S → a A b` is then turned into `S → a A` through the pointer
of the production (`setBody`), `A → b` added through the set `Get` returns (`getAdd`) and removed again: the same object
now rejects `a a b` and accepts `a a` — the grammar stays a set grammar all along -/
example : IsSetGrammar C12ex ∧
    (parserHistory 50 C12ex
      [.parse [0, 0, 1] IterOrder.canon IterOrder.canon,
       .edit (.setBody ⟨0, [.term 0, .nonterm 1, .term 1]⟩ [.term 0, .nonterm 1]),
       .edit (.getAdd ⟨1, [.term 1]⟩), .edit (.removeProd ⟨1, [.term 1]⟩),
       .parse [0, 0, 1] IterOrder.canon IterOrder.canon,
       .parse [0, 0] IterOrder.canon IterOrder.canon]).map (fun r => match r with
        | .ok (.done (.accept _)) => 1
        | .ok (.done (.reject _)) => 0
        | _ => 2) = [1, 0, 1] :=
  ⟨⟨by decide, by decide, by decide⟩, by decide⟩
