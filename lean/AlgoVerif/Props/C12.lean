import AlgoVerif.Common
/-! # C12 — property theorems (none yet) -/
