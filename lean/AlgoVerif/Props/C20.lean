import AlgoVerif.Proofs.C20Example
import AlgoVerif.Model.C20
/-!
# C20 — property theorems (helper lemmas in `Proofs/C20.lean`)

Reading of the property.  "Two goroutines that each work only on objects they created themselves
never race with one another; results are the same as when the goroutines run one after the other,
under every interleaving."  It has two halves, and only the first can be a theorem about all
interleavings:

**Abstract half (proved here, for all programs, schedules and memories).**  `Spec/C20.lean`: any number
of threads, each an arbitrary deterministic state machine whose steps `load`/`store` single memory
locations (control flow may depend on the values read); locations are partitioned by `owner` into
per-thread private heaps (`some t`) and the package-level cells `G` (`none`); no synchronisation events,
so a data race is a pair of accesses to one location by different threads, one of them a write.
`Disciplined P owner` = every thread reads only its own heap and `G`, and writes only its own heap
(`∀ t, writes t ∩ G = ∅`, and private heaps are private).  Then, for EVERY schedule:
no race (`C20_race_free`); the final configuration — every thread's local state, i.e. its results,
and the whole memory — depends only on how many steps each thread took (`C20_schedule_independent`),
in particular it is the configuration reached when the goroutines run one after the other
(`C20_drf_of_no_shared_writes`); and two schedules that both run every goroutine to completion agree
whatever their lengths (`C20_complete_results_agree`).  The hypothesis is necessary: the two
`example`s at the end exhibit a race and a schedule-dependent result (a lost update) as soon as two
threads write one package-level cell — the abstract shape of defect D25.

**Repo half (a `decide` over a table regenerated from /repo's source on every run).**
`Generated/C20.lean` is written by `bin/pre-C20`: all package-level variables of the library and, for
every exported API entry, the package-level variables that reachable code may mutate (assigned
through, state-changing method called on it, passed to something that writes through it, or a closure
value that mutates what it captured).  `C20_repo` says the mutated list of every API entry is empty —
the library instance of `writes t ∩ G = ∅`.  A new package-level cache written by some API, a shared
hasher captured by a package-level closure, or a package-level `*rand.Rand` with its own state makes
the regenerated table non-empty and this file stops compiling.

What is NOT proved (named in meta/C20.json): that Go code is such a state machine under the Go
memory model; that the extractor's may-mutate analysis is sound; that instances created by one
goroutine are unreachable from the other (that is the premise "objects they created themselves").
The race-detector runs of the harness cover the concrete code under many schedules.
-/
open AlgoVerif AlgoVerif.C20

/-- **No data race under any interleaving.**  If every thread writes only its own heap (no write to a
package-level cell) and reads only its own heap and package-level cells, then no schedule — of any
length, any number of threads, any programs, any initial memory — contains two conflicting accesses by
different threads. -/
theorem C20_race_free {Loc Val Local : Type} [DecidableEq Loc]
    (P : Prog Loc Val Local) (owner : Loc → Option Tid) (hD : Disciplined P owner)
    (s : List Tid) (c : Cfg Loc Val Local) : RaceFree (trace P s c) := by
  intro e₁ h₁ e₂ h₂ hne hloc
  have o₁ := trace_owner hD s c e₁ h₁
  have o₂ := trace_owner hD s c e₂ h₂
  have key : ∀ (a b : Event Loc), a.tid ≠ b.tid → a.loc = b.loc →
      ((a.isWrite = true → owner a.loc = some a.tid) ∧
        (a.isWrite = false → owner a.loc = some a.tid ∨ owner a.loc = none)) →
      ((b.isWrite = true → owner b.loc = some b.tid) ∧
        (b.isWrite = false → owner b.loc = some b.tid ∨ owner b.loc = none)) →
      a.isWrite = false := by
    intro a b hab hl oa ob
    cases hw : a.isWrite with
    | false => rfl
    | true =>
      exfalso
      have ha : owner a.loc = some a.tid := oa.1 hw
      cases hb : b.isWrite with
      | true =>
        have := ob.1 hb
        rw [← hl, ha] at this
        exact hab (Option.some.inj this)
      | false =>
        rcases ob.2 hb with h | h
        · rw [← hl, ha] at h
          exact hab (Option.some.inj h)
        · rw [← hl, ha] at h
          cases h
  exact ⟨key e₁ e₂ hne hloc o₁ o₂, key e₂ e₁ (fun e => hne e.symm) hloc.symm o₂ o₁⟩

/-- **Results do not depend on the interleaving.**  Two schedules in which every thread takes the same
number of steps (one is a permutation of the other) end in the same configuration: same local state
of every thread (its results) and same memory. -/
theorem C20_schedule_independent {Loc Val Local : Type} [DecidableEq Loc]
    (P : Prog Loc Val Local) (owner : Loc → Option Tid) (hD : Disciplined P owner)
    (s s' : List Tid) (h : ∀ t, s.count t = s'.count t) (c : Cfg Loc Val Local) :
    run P s c = run P s' c :=
  run_perm hD (List.perm_iff_count.mpr h) c

/-- **C20, abstract form** (`drf_of_no_shared_writes` of DESIGN.md §6): under the ownership discipline
every schedule is race free AND ends in the configuration of the sequential schedule that runs the
goroutines one after the other (thread 0's steps, then thread 1's, …; `sequentialOf s` is sorted by
thread id and gives every thread as many steps as `s` does). -/
theorem C20_drf_of_no_shared_writes {Loc Val Local : Type} [DecidableEq Loc]
    (P : Prog Loc Val Local) (owner : Loc → Option Tid) (hD : Disciplined P owner)
    (s : List Tid) (c : Cfg Loc Val Local) :
    RaceFree (trace P s c) ∧ run P s c = run P (sequentialOf s) c ∧
      (sequentialOf s).Pairwise (· ≤ ·) ∧ ∀ t, (sequentialOf s).count t = s.count t := by
  refine ⟨C20_race_free P owner hD s c, ?_, ?_, ?_⟩
  · exact run_perm hD (List.mergeSort_perm s _).symm c
  · have := List.pairwise_mergeSort (le := fun a b : Nat => decide (a ≤ b))
      (fun a b c h1 h2 => by
        simp only [decide_eq_true_eq] at *
        exact Nat.le_trans h1 h2)
      (fun a b => by
        simp only [Bool.or_eq_true, decide_eq_true_eq]
        exact Nat.le_total a b) s
    exact this.imp (fun h => by simpa using h)
  · intro t
    exact (List.mergeSort_perm s _).count_eq t

/-- Two schedules that both run every goroutine to completion end in the same configuration, whatever
their lengths and orders (steps taken after a goroutine has finished change nothing). -/
theorem C20_complete_results_agree {Loc Val Local : Type} [DecidableEq Loc]
    (P : Prog Loc Val Local) (owner : Loc → Option Tid) (hD : Disciplined P owner)
    (s s' : List Tid) (c : Cfg Loc Val Local)
    (hs : Complete P (run P s c)) (hs' : Complete P (run P s' c)) :
    run P s c = run P s' c := by
  have e1 : run P (s ++ s') c = run P s c := by
    rw [run_append, run_of_complete P hs]
  have e2 : run P (s' ++ s) c = run P s' c := by
    rw [run_append, run_of_complete P hs']
  rw [← e1, ← e2]
  exact run_perm hD List.perm_append_comm c

/-- **The library instance** of `∀ t, writes t ∩ G = ∅`: in the table regenerated from /repo's current
source no exported API entry reaches code that may mutate a package-level variable. -/
theorem C20_repo : ∀ api ∈ Generated.C20.apiReach, api.mutatedGlobals = [] := by
  have h : ∀ chunk ∈ Generated.C20.apiChunks, ∀ api ∈ chunk, api.mutatedGlobals = [] := by
    decide +kernel
  intro api hapi
  rcases List.mem_flatten.mp hapi with ⟨chunk, hc, ha⟩
  exact h chunk hc api ha

/-- the same fact read from the table of package-level variables: none is marked as mutated by
API-reachable code, and the derived list of mutated variables is empty -/
theorem C20_repo_globals :
    (∀ g ∈ Generated.C20.globals, g.mutated = false) ∧ Generated.C20.mutatedGlobals = [] := by
  decide

/-- hence the Model (whose answer the driver prints, computed from the table) never predicts a race,
for ANY list of API entries a workload might exercise: it answers `norace`, or reports entries that
are missing from the table. -/
theorem C20_model_predicts_norace (es : List String) :
    predictEntries es = Prediction.norace ∨ ∃ ns, predictEntries es = Prediction.unknownApi ns := by
  unfold predictEntries
  simp only
  split
  · exact Or.inr ⟨_, rfl⟩
  · left
    have hall : ∀ e, (lookupApi e).getD [] = [] := by
      intro e
      unfold lookupApi
      cases hf : Generated.C20.apiReach.find? (fun x => decide (x.api = e)) with
      | none => rfl
      | some a =>
        have hm : a ∈ Generated.C20.apiReach := List.mem_of_find?_eq_some hf
        simp [C20_repo a hm]
    have hnil : ∀ l : List String, (l.flatMap fun e => (lookupApi e).getD []) = [] := by
      intro l
      induction l with
      | nil => rfl
      | cons e l ih => rw [List.flatMap_cons, hall e, ih]; rfl
    rw [hnil es]
    rfl

/-! ### non-vacuity -/

open C20Example

/-- an interleaved schedule of three goroutines and the sequential one give the same memory and the
same results; the interleaved trace has 12 accesses, 3 of them to the shared read-only cell -/
example : run prog [0, 1, 2, 1, 0, 2, 2, 0, 1, 1, 2, 0] c0 = run prog [0, 0, 0, 0, 1, 1, 1, 1, 2, 2, 2, 2] c0 :=
  C20_schedule_independent prog owner disciplined _ _ (List.perm_iff_count.mp (by decide)) c0

example : ((run prog [0, 1, 2, 1, 0, 2, 2, 0, 1, 1, 2, 0] c0).mem 0,
           (run prog [0, 1, 2, 1, 0, 2, 2, 0, 1, 1, 2, 0] c0).mem 1,
           (run prog [0, 1, 2, 1, 0, 2, 2, 0, 1, 1, 2, 0] c0).mem 2) = (16, 27, 20) := by decide

example : (trace prog [0, 1, 2, 1, 0, 2, 2, 0, 1, 1, 2, 0] c0).length = 12 := by decide

example : RaceFree (trace prog [0, 1, 2, 1, 0, 2, 2, 0, 1, 1, 2, 0] c0) :=
  C20_race_free prog owner disciplined _ c0

/-- D25 in the abstract (`C20Example.bad`): both threads do `cell100 := cell100 + 1` on the PACKAGE-LEVEL
cell 100 (a shared hasher / random source).  The discipline fails, there is a race, and the result
depends on the schedule (lost update: 9 when the goroutines run one after the other, 8 interleaved). -/
example : ¬ RaceFree (trace bad [0, 1, 0, 1] c0) := by
  intro h
  have := h ⟨0, 100, false⟩ (by decide) ⟨1, 100, true⟩ (by decide) (by decide) rfl
  exact absurd this.2 (by decide)

example : (run bad [0, 0, 1, 1] c0).mem 100 = 9 ∧ (run bad [0, 1, 0, 1] c0).mem 100 = 8 := by decide

