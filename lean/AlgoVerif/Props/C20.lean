import AlgoVerif.Common
/-! # C20 — property theorems (none yet) -/
