import AlgoVerif.Proofs.C08Total5
import AlgoVerif.Proofs.C09LeftRecMain
import AlgoVerif.Proofs.C09LeftFactorPost
import AlgoVerif.Proofs.C09LeftRecValid
import AlgoVerif.Proofs.C08Aux
/-!
# C09 — normal forms are reached, results pass `Verify()`, inputs are never mutated

Reading of the property.  The post-conditions are the predicates of `Spec/C09.lean` (`NoEmptyExceptFreshStart`,
`NoUnit`, `AllReachable`, `NoCycle`, `NoLeftRecursion`, `LeftFactored`, `IsCNF`, and `Spec.Valid` =
`Verify()`), evaluated on the result of the Model (`Model/C08.lean`, shared with C08) of each transformation.
Full statement, for every transformation `T` with post-condition `Post_T`:

    ∀ g g', Valid g → Hygienic g → T g = .ok g' → Post_T g g' ∧ Valid g'

Input immutability is not a statement about the functional Model (a function cannot change its argument); it
is validated on every explored run by the harness (a clone and a deep textual rendering taken before the
call; `Equal` and the rendering compared after it — the rendering because `Clone` shares the production values
with the original — for the receiver of each transformation and for grammars handed to
`predictive.BuildParsingTable` and the three LR table constructors).

Proved here, for every grammar, no size bounds:

* `EliminateSingleProductions` yields no unit production (`C09_singlefree_noUnit`);
* `EliminateEmptyProductions` yields no ε-production except `S′ → ε` for a start symbol `S′` that is new and
  occurs in no body (`C09_emptyfree_noEmpty`);
* `EliminateUnreachableProductions` yields only reachable non-terminals, productions and terminals
  (`C09_unreachable_allReachable`);
* `EliminateCycles` yields no unit production, only reachable symbols, and no derivation `A ⇒⁺ A` — the
  semantic statement, not only the graph test (`C09_cycles_noUnit`, `C09_cycles_allReachable`,
  `C09_cycles_noCycle`);
* `ChomskyNormalForm` yields a grammar in Chomsky normal form, strict sense (`C09_cnf_isCNF`), accepted by
  `IsCNF()` (`C09_cnf_agrees_with_IsCNF`); `EliminateLeftRecursion` yields no left recursion
  (`C09_leftrecursion_noLeftRecursion`); what `LeftFactor` guarantees is `C09_leftfactoring_*`;
* every result passes `Verify()`: `C09_emptyfree_valid`, `C09_unreachable_valid`, `C09_leftfactoring_valid`
  for every valid grammar; `C09_singlefree_valid`, `C09_cycles_valid`, `C09_leftrecursion_valid`,
  `C09_cnf_valid` under the hypothesis `L(G) ≠ ∅` (decidable: `C08_nonEmpty_iff`), which
  `C09_empty_language_counterexample` shows cannot be dropped for unit-elimination and everything built on it.

Kernel-checked counterexamples (`decide` on the Model) for what remains a known finding:
`C09_leftfactor_counterexample`, `C09_empty_language_counterexample`, `C09_fresh_names_counterexample`.
-/
open AlgoVerif AlgoVerif.Gram AlgoVerif.C08 AlgoVerif.C08.Spec AlgoVerif.C09.Spec

/-- the result of `EliminateSingleProductions` has no production `A → B` -/
theorem C09_singlefree_noUnit (g g' : G) (h : elimSingle g = .ok g') : NoUnit g' :=
  elimSingle_noUnit h

/-- the only ε-production `EliminateEmptyProductions` leaves is `S′ → ε` for a fresh start symbol `S′`
(a new name: not a declared non-terminal of the input; occurring in no body) -/
theorem C09_emptyfree_noEmpty (g g' : G) (hv : Valid g) (h : elimEmpty g = .ok g') :
    NoEmptyExceptFreshStart g g' :=
  elimEmpty_noEmpty h hv.wellFormed

/-- non-vacuity: nullable start symbol, nullable symbols in the middle of a body -/
example : (elimEmpty
      { terms := ["a", "b"]
        nonterms := ["S", "A"]
        prods := [{ head := "S", body := [.nonterm "A", .term "b", .nonterm "A"] }, { head := "S", body := [] },
                  { head := "A", body := [.term "a"] }, { head := "A", body := [] }]
        start := "S" }).map showGrammar
    = .ok "start=S′ T={a,b} N={A,S,S′} P={A→a; S′→S; S′→ε; S→A b; S→A b A; S→b; S→b A}" := by
  decide

/-- every non-terminal, production and terminal of the result of `EliminateUnreachableProductions` is
reachable from the start symbol -/
theorem C09_unreachable_allReachable (g g' : G) (h : elimUnreachable g = .ok g') : AllReachable g' :=
  elimUnreachable_allReachable h

/-- the result of `EliminateCycles` has no unit production -/
theorem C09_cycles_noUnit (g g' : G) (h : elimCycles g = .ok g') : NoUnit g' :=
  elimCycles_noUnit h

/-- the result of `EliminateCycles` has only reachable symbols -/
theorem C09_cycles_allReachable (g g' : G) (h : elimCycles g = .ok g') : AllReachable g' :=
  elimCycles_allReachable h

-- non-vacuity: a cyclic grammar (`A ⇒ B ⇒ A`, `S ⇒ S S ⇒* S` through the nullable `A`)
set_option maxRecDepth 8000 in
example : (elimCycles
      { terms := ["a", "b"]
        nonterms := ["S", "A", "B"]
        prods := [{ head := "S", body := [.nonterm "A", .nonterm "B", .nonterm "A"] },
                  { head := "S", body := [.nonterm "S", .nonterm "S"] },
                  { head := "A", body := [.nonterm "B"] }, { head := "A", body := [] },
                  { head := "B", body := [.nonterm "A"] }, { head := "B", body := [.term "b"] }]
        start := "S" }).map (fun g' => (noUnitB g', noCycleB g', allReachableB g', validB g'))
    = .ok (true, true, true, true) := by
  decide

/-- the result of `EliminateCycles` has no derivation `A ⇒⁺ A` (one or more steps), for any `A` -/
theorem C09_cycles_noCycle (g g' : G) (hv : Valid g) (h : elimCycles g = .ok g') : NoCycle g' :=
  elimCycles_noCycle h hv.wellFormed

/-- the result of `EliminateEmptyProductions` passes `Verify()` (start symbol declared, every non-terminal
has a production, every symbol declared) — for every valid grammar, `L(G) = ∅` included: everything the final
pruning removes is nullable, and the start symbol keeps a production -/
theorem C09_emptyfree_valid (g g' : G) (hv : Valid g) (h : elimEmpty g = .ok g') : Valid g' :=
  elimEmpty_valid' h hv

/-- the result of `EliminateSingleProductions` passes `Verify()` when `L(G) ≠ ∅` -/
theorem C09_singlefree_valid (g g' : G) (hv : Valid g) (hl : ∃ w, Language g w) (h : elimSingle g = .ok g') :
    Valid g' :=
  elimSingle_valid h hv hl

/-- the result of `EliminateUnreachableProductions` passes `Verify()` -/
theorem C09_unreachable_valid (g g' : G) (hv : Valid g) (h : elimUnreachable g = .ok g') : Valid g' :=
  elimUnreachable_valid h hv

/-- the result of `EliminateCycles` passes `Verify()` when `L(G) ≠ ∅` -/
theorem C09_cycles_valid (g g' : G) (hv : Valid g) (hl : ∃ w, Language g w) (h : elimCycles g = .ok g') :
    Valid g' :=
  elimCycles_valid h hv hl

/-- non-vacuity of the hypotheses: a valid grammar with a sentence (`b`), an ε-only non-terminal `C` (D13),
a unit-only non-terminal `D`; the results are valid -/
example :
    let g : G := { terms := ["a", "b"]
                   nonterms := ["S", "C", "D"]
                   prods := [{ head := "S", body := [.nonterm "C", .term "b"] }, { head := "S", body := [.nonterm "D", .term "a"] },
                             { head := "C", body := [] }, { head := "D", body := [.nonterm "D"] }]
                   start := "S" }
    Valid g ∧ (elimEmpty g).map (fun g' => (showGrammar g', validB g')) = .ok ("start=S T={a,b} N={D,S} P={D→D; S→D a; S→b}", true)
      ∧ (elimCycles g).map (fun g' => (showGrammar g', validB g')) = .ok ("start=S T={b} N={S} P={S→b}", true) := by
  decide

/-- the result of `ChomskyNormalForm` is in Chomsky normal form in the strict sense of the doc comment of
`IsCNF`: every production is `A → B C` with `B`, `C` non-terminals other than the start symbol, `A → a`, or
`S → ε` for the start symbol `S` -/
theorem C09_cnf_isCNF (g g' : G) (hv : Valid g) (h : cnf g = .ok g') : IsCNF g' :=
  cnf_isCNF h hv.wellFormed

/-- … and therefore passes the check `(*CFG).IsCNF()` performs (`looseCnfProd`: the same without looking for
the start symbol in bodies) -/
theorem C09_cnf_agrees_with_IsCNF (g g' : G) (hv : Valid g) (h : cnf g = .ok g') : looseCNFB g' = true := by
  have := cnf_isCNF h hv.wellFormed
  unfold looseCNFB
  refine List.all_eq_true.mpr (fun p hp => ?_)
  have hp' := this p hp
  unfold cnfProd at hp'
  unfold looseCnfProd
  split <;> simp_all

/-- the result of `ChomskyNormalForm` passes `Verify()` when `L(G) ≠ ∅` -/
theorem C09_cnf_valid (g g' : G) (hv : Valid g) (hl : ∃ w, Language g w) (h : cnf g = .ok g') : Valid g' :=
  cnf_valid h hv hl

/-- unconditional form for `EliminateCycles`: on a valid hygienic grammar with a non-empty language it returns
a valid grammar without unit productions, without cycles, with reachable symbols only -/
theorem C09_cycles_total (g : G) (hv : Valid g) (hh : Hygienic g) (hl : ∃ w, Language g w) :
    ∃ g', elimCycles g = .ok g' ∧ NoUnit g' ∧ NoCycle g' ∧ AllReachable g' ∧ Valid g' := by
  obtain ⟨g', h⟩ := elimCycles_total hv hh hl
  exact ⟨g', h, elimCycles_noUnit h, elimCycles_noCycle h hv.wellFormed, elimCycles_allReachable h,
    elimCycles_valid h hv hl⟩

/-- unconditional form for `ChomskyNormalForm`: on a valid hygienic grammar with a non-empty language it
returns a valid grammar in Chomsky normal form, unless BIN runs out of numeric suffixes -/
theorem C09_cnf_total (g : G) (hv : Valid g) (hh : Hygienic g) (hl : ∃ w, Language g w)
    (hbin : binNamesSuffice g = true) :
    ∃ g', cnf g = .ok g' ∧ IsCNF g' ∧ Valid g' := by
  obtain ⟨g', h⟩ := cnf_total hv hh hl (binNamesSuffice_spec hbin)
  exact ⟨g', h, cnf_isCNF h hv.wellFormed, cnf_valid h hv hl⟩

def cnfTotalWitness : G :=
  { terms := ["a", "b"]
    nonterms := ["S", "A"]
    prods := [{ head := "S", body := [.term "a", .nonterm "S", .term "b", .nonterm "A"] },
              { head := "S", body := [.nonterm "A"] }, { head := "A", body := [.term "a"] },
              { head := "A", body := [] }]
    start := "S" }

-- non-vacuity of the hypotheses of `C09_cnf_total` / `C08_cnf_total`
set_option maxRecDepth 40000 in
example : Valid cnfTotalWitness ∧ Hygienic cnfTotalWitness ∧ (∃ w, Language cnfTotalWitness w) ∧
    binNamesSuffice cnfTotalWitness = true := by
  refine ⟨by decide, by decide, ⟨[], ?_⟩, by decide⟩
  -- S ⇒ A ⇒ ε
  have h1 : Derives cnfTotalWitness [Sym.nonterm "S"] [Sym.nonterm "A"] :=
    Derives.of_prod (g := cnfTotalWitness) (p := { head := "S", body := [.nonterm "A"] }) (by decide)
  have h2 : Derives cnfTotalWitness [Sym.nonterm "A"] [] :=
    Derives.of_prod (g := cnfTotalWitness) (p := { head := "A", body := [] }) (by decide)
  exact h1.trans h2

/-! ## known findings: kernel-checked witnesses on the Model -/

def leftFactorWitness : G :=
  { terms := ["a", "b", "c"]
    nonterms := ["S"]
    prods := [{ head := "S", body := [.term "a", .term "b"] }, { head := "S", body := [.term "a", .term "c"] }]
    start := "S" }

/-- `LeftFactor` returns `S → a b | a c` unchanged (it factors a head only when the head also has an
alternative with a unique first symbol): the result is not left-factored.  Known finding
`C09-leftfactor-residual`; the behaviour is pinned by `TestCFG_LeftFactor/5th`. -/
theorem C09_leftfactor_counterexample :
    Valid leftFactorWitness ∧ Hygienic leftFactorWitness ∧
    (leftFactor leftFactorWitness).map (fun g' => (showGrammar g', leftFactoredB g'))
      = .ok ("start=S T={a,b,c} N={S} P={S→a b; S→a c}", false) := by
  decide

def emptyLanguageWitness : G :=
  { terms := ["a"]
    nonterms := ["S", "A"]
    prods := [{ head := "S", body := [.nonterm "S"] }, { head := "S", body := [.nonterm "A"] },
              { head := "A", body := [.nonterm "S"] }]
    start := "S" }

/-- `L(G) = ∅` and the start symbol reaches unit productions only: the result of
`EliminateSingleProductions` keeps the start symbol without any production, which `Verify()` rejects.
Known finding `C09-empty-language-*`. -/
theorem C09_empty_language_counterexample :
    Valid emptyLanguageWitness ∧ Hygienic emptyLanguageWitness ∧
    (elimSingle emptyLanguageWitness).map (fun g' => (showGrammar g', validB g'))
      = .ok ("start=S T={a} N={S} P={}", false) := by
  decide

def freshNamesWitness : G :=
  { terms := ["a", "b", "c", "d", "e", "x", "y"]
    nonterms := ["S"]
    prods := (["a", "b", "c", "d", "e"].flatMap fun t =>
                [({ head := "S", body := [.term t, .term "x"] } : SProd), { head := "S", body := [.term t, .term "y"] }])
             ++ [{ head := "S", body := [.term "x"] }]
    start := "S" }

/-- five groups of alternatives with a common first symbol need five fresh names; `AddNewNonTerminal` has
four prime suffixes and panics.  Known finding `C09-fresh-names-exhausted`. -/
theorem C09_fresh_names_counterexample :
    Valid freshNamesWitness ∧ Hygienic freshNamesWitness ∧
    (leftFactor freshNamesWitness).map showGrammar = .panic := by
  decide

/-
Not proved (decided on every run by the harness' independent analyses and by the correspondence of `post` lines
between the implementation's result and the Lean decision procedures):

    theorem C09_noCycleB_iff (g : G) : noCycleB g = true ↔ NoCycle g
    theorem C09_noLeftRecB_iff (g : G) : noLeftRecB g = true ↔ NoLeftRecursion g
      -- the two graph analyses the driver prints decide the semantic statements (the theorems above are about
      -- the semantic statements themselves).
    `LeftFactored (leftFactor g)` is false in general (`C09_leftfactor_counterexample`, known finding
    `C09-leftfactor-residual`); what holds is `C09_leftfactoring_uniformHeads` / `…_leftFactored_of_unique`.
-/

/-! ## EliminateLeftRecursion and LeftFactor post-conditions
(proofs in `Proofs/C09LeftRec*.lean`, `Proofs/C09LeftFactorPost.lean`) -/

/-- `EliminateLeftRecursion` yields no non-terminal `A` with `A ⇒⁺ A α` (direct or indirect), for every valid
grammar on which the Model returns. -/
theorem C09_leftrecursion_noLeftRecursion (g g' : G) (hv : Valid g) (h : elimLeftRec g = .ok g') :
    NoLeftRecursion g' :=
  AlgoVerif.C08.C09_leftrec_noLeftRecursion g g' hv h

/-- the result of `EliminateLeftRecursion` passes `Verify()` when `L(G) ≠ ∅` -/
theorem C09_leftrecursion_valid (g g' : G) (hv : Valid g) (hl : ∃ w, Language g w) (h : elimLeftRec g = .ok g') :
    Valid g' :=
  elimLeftRec_valid h hv hl

/-- non-vacuity: the D14 grammar; the result has no left recursion and is valid -/
example : (elimLeftRec
      { terms := ["a", "b", "c", "d"]
        nonterms := ["S", "A"]
        prods := [{ head := "S", body := [.nonterm "A", .term "a"] }, { head := "S", body := [.term "b"] },
                  { head := "A", body := [.nonterm "S", .term "c"] }, { head := "A", body := [.term "d"] }]
        start := "S" }).map (fun g' => (noLeftRecB g', validB g')) = .ok (true, true) := by
  decide

/-- What `LeftFactor` guarantees unconditionally: for every non-terminal of the result either no alternative
shares its first symbol with another alternative, or every alternative does (the second case is exactly the
known finding `C09-leftfactor-residual`). -/
theorem C09_leftfactoring_uniformHeads (g g' : G) (h : leftFactor g = .ok g') : AlgoVerif.C08.UniformHeads g' :=
  AlgoVerif.C08.C09_leftfactor_uniformHeads h

/-- The result of `LeftFactor` passes `Verify()`. -/
theorem C09_leftfactoring_valid (g g' : G) (hv : Valid g) (h : leftFactor g = .ok g') : Valid g' :=
  AlgoVerif.C08.C09_leftfactor_valid hv h

/-- non-vacuity: two rounds of factoring end in a left-factored, valid grammar -/
example : (leftFactor
      { terms := ["a", "b", "c", "d"]
        nonterms := ["S"]
        prods := [{ head := "S", body := [.term "a", .term "b", .term "b"] }, { head := "S", body := [.term "a", .term "b", .term "c"] },
                  { head := "S", body := [.term "a", .term "d"] }, { head := "S", body := [.term "c"] }]
        start := "S" }).map (fun g' => (leftFactoredB g', validB g')) = .ok (true, true) := by
  decide

/-- The result of `LeftFactor` is left-factored whenever every head keeps an alternative that shares its first
symbol with no other (the situation `LeftFactor` is written for). -/
theorem C09_leftfactoring_leftFactored_of_unique (g g' : G) (hw : WellFormed g) (h : leftFactor g = .ok g')
    (huniq : ∀ p ∈ g'.prods, ∃ q ∈ g'.prods, q.head = p.head ∧ ¬ AlgoVerif.C08.SharesFirst g' q) :
    AlgoVerif.C09.Spec.LeftFactored g' :=
  AlgoVerif.C08.C09_leftfactor_leftFactored_of_unique hw h huniq

/-! ## `Verify()` and `IsCNF()` as the lists of errors they return (`verifyErrors`, `cnfErrors`; corresponded with the
implementation's errors on valid and on malformed grammars, ops `verify` and `iscnf`) -/

/-- **`Verify()` returns no error exactly on the grammars the theorems call `Valid`**: the list of errors the Model of
`Verify()` collects (one per offence: start symbol undeclared / without production, non-terminal without production,
undeclared head, undeclared terminal or non-terminal in a body) is empty iff `Spec.Valid g`. -/
theorem C09_verify_errors_iff_valid (g : G) : AlgoVerif.C10.verifyErrors g = [] ↔ Valid g :=
  verifyErrors_nil_iff_Valid g

/-- **`IsCNF()` returns no error exactly when every production has one of the three forms it checks** (`looseCNFB`,
the predicate `C09_cnf_agrees_with_IsCNF` proves of `ChomskyNormalForm`'s result). -/
theorem C09_iscnf_errors_iff (g : G) : cnfErrors g = [] ↔ looseCNFB g = true :=
  cnfErrors_nil_iff g

example : AlgoVerif.C10.verifyErrors (⟨["a"], ["S", "Y"], [⟨"S", [.term "a", .nonterm "Z", .term "z"]⟩, ⟨"W", []⟩], "Q"⟩ : G)
    = [.startUndeclared, .noStartProd, .noProd "Y", .nontermUndeclared "Z", .termUndeclared "z", .headUndeclared "W"] := by
  decide

example : cnfErrors (⟨["a"], ["S", "A"], [⟨"S", [.nonterm "A", .nonterm "A"]⟩, ⟨"S", []⟩, ⟨"A", [.term "a"]⟩,
    ⟨"A", []⟩, ⟨"A", [.nonterm "S"]⟩], "S"⟩ : G) = [⟨"A", []⟩, ⟨"A", [.nonterm "S"]⟩] := by decide
