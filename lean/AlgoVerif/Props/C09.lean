import AlgoVerif.Common
/-! # C09 — property theorems (none yet) -/
