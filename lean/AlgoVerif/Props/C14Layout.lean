import AlgoVerif.Generated.Layout

/-! # C14: the state space the Model was written for (written by bin/mklayout, checked on every run)

The hand Model mirrors the Go code's state: the fields of its structs and nothing else (no package-level
variables).  `AlgoVerif.Generated.Layout` is regenerated from /repo by the extractor on every check; the theorems
below pin, for every source file the Model mirrors, the struct types it declares, their fields (name : type) and
the package-level variables it declares.  A new field — a cache, a memoised result, a scratch buffer, a counter —
a new struct type or a new package-level variable is state the Model does not describe: the theorems of
`Props/C14.lean` then no longer speak about the code, the obligation here breaks, and the check searches for
a failing input with the enlarged budget (DESIGN.md §4.6). -/

open AlgoVerif.Generated

-- graph/graph.go
theorem C14_layout_types_graph_graph : Layout.types_graph_graph = ["Visitors", "Paths", "Orders", "ConnectedComponents", "StronglyConnectedComponents", "DirectedCycle", "Topological", "MinimumSpanningTree", "ShortestPathTree"] := rfl
theorem C14_layout_vars_graph_graph : Layout.vars_graph_graph = [] := rfl
theorem C14_layout_graph_Visitors : Layout.graph_Visitors =
    ["VertexPreOrder : func(int) bool", "VertexPostOrder : func(int) bool", "EdgePreOrder : func(int, int, float64) bool"] := rfl
theorem C14_layout_graph_Paths : Layout.graph_Paths =
    ["s : int", "visited : []bool", "edgeTo : []int"] := rfl
theorem C14_layout_graph_Orders : Layout.graph_Orders =
    ["preRank : []int", "postRank : []int", "preOrder : []int", "postOrder : []int"] := rfl
theorem C14_layout_graph_ConnectedComponents : Layout.graph_ConnectedComponents =
    ["count : int", "id : []int"] := rfl
theorem C14_layout_graph_StronglyConnectedComponents : Layout.graph_StronglyConnectedComponents =
    ["count : int", "id : []int"] := rfl
theorem C14_layout_graph_DirectedCycle : Layout.graph_DirectedCycle =
    ["visited : []bool", "edgeTo : []int", "onStack : []bool", "cycle : list.Stack[int]"] := rfl
theorem C14_layout_graph_Topological : Layout.graph_Topological =
    ["order : []int", "rank : []int"] := rfl
theorem C14_layout_graph_MinimumSpanningTree : Layout.graph_MinimumSpanningTree =
    ["visited : []bool", "edgeTo : []UndirectedEdge", "distTo : []float64", "pq : heap.IndexedHeap[float64, any]"] := rfl
theorem C14_layout_graph_ShortestPathTree : Layout.graph_ShortestPathTree =
    ["edgeTo : []DirectedEdge", "distTo : []float64", "pq : heap.IndexedHeap[float64, any]"] := rfl

-- graph/undirected.go
theorem C14_layout_types_graph_undirected : Layout.types_graph_undirected = ["Undirected"] := rfl
theorem C14_layout_vars_graph_undirected : Layout.vars_graph_undirected = [] := rfl
theorem C14_layout_graph_Undirected : Layout.graph_Undirected =
    ["v : int", "e : int", "adj : [][]int"] := rfl

-- graph/directed.go
theorem C14_layout_types_graph_directed : Layout.types_graph_directed = ["Directed"] := rfl
theorem C14_layout_vars_graph_directed : Layout.vars_graph_directed = [] := rfl
theorem C14_layout_graph_Directed : Layout.graph_Directed =
    ["v : int", "e : int", "ins : []int", "adj : [][]int"] := rfl

-- graph/weighted_undirected.go
theorem C14_layout_types_graph_weighted_undirected : Layout.types_graph_weighted_undirected = ["UndirectedEdge", "WeightedUndirected"] := rfl
theorem C14_layout_vars_graph_weighted_undirected : Layout.vars_graph_weighted_undirected = [] := rfl
theorem C14_layout_graph_UndirectedEdge : Layout.graph_UndirectedEdge =
    ["v : int", "w : int", "weight : float64"] := rfl
theorem C14_layout_graph_WeightedUndirected : Layout.graph_WeightedUndirected =
    ["v : int", "e : int", "adj : [][]UndirectedEdge"] := rfl

-- graph/weighted_directed.go
theorem C14_layout_types_graph_weighted_directed : Layout.types_graph_weighted_directed = ["DirectedEdge", "WeightedDirected"] := rfl
theorem C14_layout_vars_graph_weighted_directed : Layout.vars_graph_weighted_directed = [] := rfl
theorem C14_layout_graph_DirectedEdge : Layout.graph_DirectedEdge =
    ["from : int", "to : int", "weight : float64"] := rfl
theorem C14_layout_graph_WeightedDirected : Layout.graph_WeightedDirected =
    ["v : int", "e : int", "ins : []int", "adj : [][]DirectedEdge"] := rfl

-- heap/indexed_binary.go
theorem C14_layout_types_heap_indexed_binary : Layout.types_heap_indexed_binary = ["indexedBinary"] := rfl
theorem C14_layout_vars_heap_indexed_binary : Layout.vars_heap_indexed_binary = [] := rfl
theorem C14_layout_heap_indexedBinary : Layout.heap_indexedBinary =
    ["cmpKey : generic.CompareFunc[K]", "eqVal : generic.EqualFunc[V]", "n : int", "heap : []int", "pos : []int", "kvs : []*generic.KeyValue[K, V]"] := rfl

-- list/stack.go
theorem C14_layout_types_list_stack : Layout.types_list_stack = ["arrayStack"] := rfl
theorem C14_layout_vars_list_stack : Layout.vars_list_stack = [] := rfl
theorem C14_layout_list_arrayStack : Layout.list_arrayStack =
    ["nodeSize : int", "equal : generic.EqualFunc[T]", "listSize : int", "topIndex : int", "topNode : *arrayNode[T]"] := rfl

-- list/queue.go
theorem C14_layout_types_list_queue : Layout.types_list_queue = ["arrayQueue"] := rfl
theorem C14_layout_vars_list_queue : Layout.vars_list_queue = [] := rfl
theorem C14_layout_list_arrayQueue : Layout.list_arrayQueue =
    ["nodeSize : int", "equal : generic.EqualFunc[T]", "listSize : int", "frontIndex : int", "rearIndex : int", "frontNode : *arrayNode[T]", "rearNode : *arrayNode[T]"] := rfl
