import AlgoVerif.Common
/-! # C13 — property theorems (none yet) -/
