import AlgoVerif.Model.C13
/-! # C13 — property theorems (placeholder while the proofs are being written) -/
open AlgoVerif AlgoVerif.C13

theorem C13_placeholder : (NFA.new 0 [1]).start = 0 := rfl
