import AlgoVerif.Proofs.C13Subset
import AlgoVerif.Proofs.C13Union
import AlgoVerif.Proofs.C13Star
import AlgoVerif.Proofs.C13DfaOps
import AlgoVerif.Proofs.C13SubsetTerm
import AlgoVerif.Proofs.C13DfaTerm
import AlgoVerif.Proofs.C13Min
import AlgoVerif.Proofs.C13Concat
import AlgoVerif.Proofs.C13CombineMap
import AlgoVerif.Proofs.C13Refine
import AlgoVerif.Proofs.C13Iso
import AlgoVerif.Proofs.C13Minimal
import AlgoVerif.Proofs.C13MinimalFull
import AlgoVerif.Proofs.C13IsoDFA
import AlgoVerif.Proofs.C13IsoNFA
import AlgoVerif.Proofs.C13Results
import AlgoVerif.Proofs.C13X
/-!
# C13 — automata conversions and combinators compute the intended regular languages

Objects.  `NFA`/`DFA` are the Models of `automata/nfa.go` / `automata/dfa.go` (`Model/C13.lean`).
`n.lang : List Int → Prop` is the *relational* language of an ε-NFA (`Spec.nfaLang` of the transition
relation `n.Δ` the tables denote: some path spelling the word, ε-moves free, ends in a final state);
`d.lang` is the run-based language of a partial DFA (`Spec.dfaLang`).  Union, concatenation and the
Kleene star of languages are the textbook definitions in `Spec/C13.lean`, independent of automata.

Standing hypotheses (each is a documented convention of the package, and every automaton built with
`New…`/`Add` and non-negative ids satisfies them):
* `WF` — the tables are key-sorted (what the Red-Black tables guarantee; `NFA.WF_new`, `NFA.WF_add`);
* `E ∉ w` — "E is the empty string ε and is never a member of an input alphabet" (automata.go);
* `DFA.Proper` — `-1` ("invalid state", returned by `Next`) is not used as a state id;
  `DFA.NoEps` — a DFA has no transition labelled `E`.
-/
open AlgoVerif AlgoVerif.C13 AlgoVerif.C13.Spec

/-- `NFA.Accept` always returns (the ε-closure loop never runs out of fuel, nothing panics) and
decides the relational language. -/
theorem C13_nfa_accept_spec (n : NFA) (w : Word) :
    ∃ b, n.accept w = .ok b ∧ (b = true ↔ n.lang w) :=
  n.accept_spec w

example : (NFA.new 0 [1] |>.add 0 97 [1] |>.add 1 E [0]).accept [97, 97] = .ok true := by decide

/-- `DFA.Accept` decides the run-based language of a DFA that does not use `-1` as a state. -/
theorem C13_dfa_accept_spec (d : DFA) (hp : d.Proper) (w : Word) : d.accept w = true ↔ d.lang w :=
  d.accept_spec hp w

example : ((DFA.new 2 [4]).add 2 97 4).Proper := DFA.proper_of_properB (by decide)

/-- `ToNFA` preserves the language. -/
theorem C13_toNFA_accepts (d : DFA) (hwf : d.WF) (he : d.NoEps) (w : Word) : d.toNFA.lang w ↔ d.lang w :=
  DFA.toNFA_lang hwf he w

example : ((DFA.new 2 [4]).add 2 97 4 |>.add 4 98 2).NoEps ∧ ((DFA.new 2 [4]).add 2 97 4 |>.add 4 98 2).WF :=
  ⟨DFA.noEps_of_noEpsB (by decide), DFA.WF_add (DFA.WF_add (DFA.WF_new _ _) _ _ _) _ _ _⟩

/-- `Clone` preserves the language (NFA and DFA). -/
theorem C13_clone_accepts_nfa (n : NFA) (hwf : n.WF) (w : Word) : n.clone.lang w ↔ n.lang w :=
  NFA.clone_lang hwf w

theorem C13_clone_accepts_dfa (d : DFA) (hwf : d.WF) (w : Word) : d.clone.lang w ↔ d.lang w :=
  DFA.clone_lang hwf w

example : ((NFA.new 0 [1]).add 0 97 [1, 0]).WF := NFA.WF_add (NFA.WF_new _ _) _ _ _

/-- Subset construction: `ToDFA` always returns (the fuel `2^|Q| + 1` is never exhausted, because the
queue holds pairwise distinct subsets of the state set; nothing panics) and the DFA accepts exactly the
NFA's language. -/
theorem C13_toDFA_accepts (n : NFA) (w : Word) (hE : E ∉ w) :
    ∃ d, n.toDFA = .ok d ∧ (d.lang w ↔ n.lang w) := by
  obtain ⟨d, hd⟩ := n.toDFA_ok
  exact ⟨d, hd, n.toDFA_lang d hd w hE⟩

/-- Termination of the subset construction, stated on the loop: with any fuel `≥ 2^|Q|` the loop returns. -/
theorem C13_toDFA_terminates (n : NFA) (fuel : Nat) (hf : 2 ^ n.states.length ≤ fuel) (S0 : List Int)
    (h0 : n.εClosure (mkSet [n.start]) = .ok S0) :
    ∃ r, subsetLoop n n.symbols fuel [S0] 0 (DFA.new 0 []) = .ok r := by
  apply subsetLoop_ok n n.symbols fuel [S0] 0 _ _ (by omega)
  refine ⟨by simp, ?_⟩
  intro S hS; simp at hS; subst hS
  refine ⟨n.εClosure_sorted _ _ h0 (ssorted_mkSet _), n.closure_subset_states _ _ h0 ?_⟩
  intro x hx; simp at hx; subst hx
  exact n.mem_states_of _ (Or.inl rfl)

example : (NFA.new 0 [1] |>.add 0 97 [0, 1] |>.add 0 E [1]).toDFA.isOk = true := by decide

/-- `Union` accepts exactly the union of the operand languages. -/
theorem C13_union_lang (nfas : List NFA) (hwf : ∀ n ∈ nfas, n.WF) (w : Word) (hE : E ∉ w) :
    (NFA.union nfas).lang w ↔ Lang.unionAll (nfas.map NFA.lang) w := by
  rw [NFA.union_lang nfas hwf w hE]
  constructor
  · rintro ⟨n, h1, h2⟩; exact ⟨n.lang, List.mem_map.2 ⟨n, h1, rfl⟩, h2⟩
  · rintro ⟨L, hL, h2⟩
    obtain ⟨n, h1, rfl⟩ := List.mem_map.1 hL
    exact ⟨n, h1, h2⟩

example : Lang.unionAll [(NFA.new 0 [1] |>.add 0 97 [1]).lang, (NFA.new 3 [3]).lang] [] :=
  ⟨(NFA.new 3 [3]).lang, by simp, 3, by decide, Path.eps (EReach.refl _)⟩

/-- `Star` accepts exactly the Kleene closure of the operand language. -/
theorem C13_star_lang (n : NFA) (hwf : n.WF) (w : Word) (hE : E ∉ w) :
    n.star.lang w ↔ Lang.star n.lang w :=
  n.star_lang hwf w hE

example : (NFA.new 4 [6] |>.add 4 97 [6]).star.accept [97, 97, 97] = .ok true := by decide

/-- `EliminateDeadStates` always returns (the DFS never exhausts its fuel) and preserves the language. -/
theorem C13_elimDead_accepts (d : DFA) (hwf : d.WF) (hp : d.Proper) (w : Word) :
    ∃ d', d.elimDead = .ok d' ∧ (d'.lang w ↔ d.lang w) := by
  obtain ⟨d', hd'⟩ := d.elimDead_ok
  exact ⟨d', hd', d.elimDead_lang d' hwf hp hd' w⟩

example : ((DFA.new 0 [1]).add 0 97 1 |>.add 0 98 2 |>.add 2 97 2).elimDead
    = .ok ((DFA.new 0 [1]).add 0 97 1) := by decide

/-- `ReindexStates` always returns (the BFS never exhausts its fuel) and preserves the language. -/
theorem C13_reindex_accepts (d : DFA) (hwf : d.WF) (w : Word) :
    ∃ d', d.reindex = .ok d' ∧ (d'.lang w ↔ d.lang w) := by
  obtain ⟨d', hd'⟩ := d.reindex_ok
  exact ⟨d', hd', d.reindex_lang d' hwf hd' w⟩

example : ((DFA.new 5 [9]).add 5 97 9 |>.add 9 98 5).reindex = .ok ((DFA.new 0 [1]).add 0 97 1 |>.add 1 98 0) := by
  decide

/-- `Concat` (as fixed: D20) accepts exactly the concatenation of the operand languages — for every
word, any number of operands, operands whose start state is accepting or has incoming edges included. -/
theorem C13_concat_lang (nfas : List NFA) (hwf : ∀ n ∈ nfas, n.WF) (w : Word) :
    (NFA.concat nfas).lang w ↔ Lang.concatAll (nfas.map NFA.lang) w :=
  NFA.concat_lang nfas hwf w

/-- the D20 witnesses on the Model of the fixed code: `a*·b` accepts `b`, `ab*·c(dc)*` rejects `acdbc` -/
example : (NFA.concat [NFA.new 0 [0] |>.add 0 97 [0], NFA.new 0 [1] |>.add 0 98 [1]]).accept [98] = .ok true := by
  decide
example : (NFA.concat [NFA.new 0 [1] |>.add 0 97 [1] |>.add 1 98 [1],
    NFA.new 0 [1] |>.add 0 99 [1] |>.add 1 100 [0]]).accept [97, 99, 100, 98, 99] = .ok false := by
  decide

/-- The refinement loop of `Minimize` exits within its fuel `|Q| + 3`: from any partition of the states into
disjoint sorted groups it returns after at most `|Q| + 2` rounds, because an unsuccessful round strictly
increases the number of groups, which never exceeds `|Q|`. -/
theorem C13_minimize_terminates (d : DFA) (hwf : d.WF) (hfs : SSorted d.final) (fuel : Nat)
    (hf : d.states.length + 2 ≤ fuel) : ∃ P, refineLoop d fuel d.initPartition = .ok P :=
  refineLoop_ok d hwf fuel d.initPartition (d.initPartition_pinv hfs) hf

/-- `Minimize` always returns and the result accepts the same language: the loop keeps a partition of the
states into disjoint sorted groups that never mix accepting and non-accepting states, the exit test
`Πnew.Equal(Π)` makes every group uniform for the signatures `BuildGroupTrans` computes, and the quotient by
such a partition preserves the language.  (`SSorted d.final` holds for every DFA made by `NewDFA`.) -/
theorem C13_minimize_accepts (d : DFA) (hwf : d.WF) (hfs : SSorted d.final) (w : Word) :
    ∃ d', d.minimize = .ok d' ∧ (d'.lang w ↔ d.lang w) := by
  obtain ⟨d', hd'⟩ := d.minimize_ok hwf hfs
  exact ⟨d', hd', d.minimize_lang d' hwf hfs hd' w⟩

example : ((DFA.new 0 [2, 3]).add 0 97 1 |>.add 0 98 1 |>.add 1 97 2 |>.add 1 98 3).minimize
    = .ok ((DFA.new 0 [2]).add 0 97 1 |>.add 0 98 1 |>.add 1 97 2 |>.add 1 98 2) := by decide

/-- Step 4 of `Minimize` on its own: the quotient of a DFA by ANY stable partition accepts the same language. -/
theorem C13_minimize_quotient (d : DFA) (hwf : d.WF) (P : Partition) (hs : Stable d P) (w : Word) :
    (buildMin d P).lang w ↔ d.lang w :=
  buildMin_lang d hwf P hs w

/-- non-vacuity: a stable partition of a four-state DFA into three groups -/
example : Stable ((DFA.new 0 [2, 3]).add 0 97 1 |>.add 0 98 1 |>.add 1 97 2 |>.add 1 98 3)
    ⟨[([0], 0), ([1], 1), ([2, 3], 2)], 3⟩ :=
  stable_of_stableB _ (DFA.WF_add (DFA.WF_add (DFA.WF_add (DFA.WF_add (DFA.WF_new _ _) _ _ _) _ _ _) _ _ _) _ _ _) _ (by decide)

/-- `CombineDFA` always returns, accepts the union of the operand languages, and its final-state map
tells, for each operand, exactly the states in which that operand accepts: after reading `w` the
combined DFA is in a state listed in `fm[i]` iff operand `i` accepts `w`. -/
theorem C13_combine_lang (ds : List DFA) (hwf : ∀ d ∈ ds, d.WF) (hne : ∀ d ∈ ds, d.NoEps) (w : Word) (hE : E ∉ w) :
    ∃ D fm, combineDFA ds = .ok (D, fm) ∧ (D.lang w ↔ ∃ d ∈ ds, d.lang w) := by
  obtain ⟨⟨D, fm⟩, h⟩ := combineDFA_ok ds
  exact ⟨D, fm, h, combineDFA_lang ds hwf hne D fm h w hE⟩

theorem C13_combine_finalMap (ds : List DFA) (hwf : ∀ d ∈ ds, d.WF) (hne : ∀ d ∈ ds, d.NoEps)
    (D : DFA) (fm : List (List Int)) (h : combineDFA ds = .ok (D, fm)) (w : Word) (hE : E ∉ w) :
    fm.length = ds.length ∧
    ∀ (i : Nat) (d : DFA), ds[i]? = some d → ∃ l : List Int, fm[i]? = some l ∧ (∀ q ∈ l, (-1 : Int) < q) ∧
      ∀ q, dfaRun D.δ (some D.start) w = some q → (q ∈ l ↔ d.lang w) :=
  combineDFA_finalMap ds hwf hne D fm h w hE

example : combineDFA [(DFA.new 0 [1]).add 0 97 1, (DFA.new 4 [4]).add 4 98 4]
    = .ok ((DFA.new 0 [0, 1, 2]).add 0 97 1 |>.add 0 98 2 |>.add 2 98 2, [[1], [0, 2]]) := by decide

/-- `Minimize` of a DFA without unreachable or dead states has the fewest states of any equivalent DFA:
for every (partial) DFA `(δ2, start2, final2)` with the same language whose reachable states lie in `Q2`,
the result of `Minimize` has at most `|Q2|` states.  (Different groups of the final partition are
distinguished by a word — by induction over the splits; a split on a missing transition uses that the
existing target is live — and the states of the quotient are reachable and live when those of `d` are;
then the Myhill–Nerode argument below.) -/
theorem C13_minimize_minimal (d d' : DFA) (hwf : d.WF) (hfs : SSorted d.final)
    (hreach : ∀ s ∈ d.states, ∃ u, dfaRun d.δ (some d.start) u = some s)
    (hlive : ∀ s ∈ d.states, ∃ v, d.acc s v)
    (h : d.minimize = .ok d')
    (δ2 : Int → Int → Option Int) (start2 : Int) (final2 : Int → Prop) (Q2 : List Int)
    (hQ2 : ∀ u t, dfaRun δ2 (some start2) u = some t → t ∈ Q2)
    (hlang : ∀ w, d.lang w ↔ dfaLang δ2 start2 final2 w) :
    d'.states.length ≤ Q2.length :=
  d.minimize_minimal d' hwf hfs hreach hlive h δ2 start2 final2 Q2 hQ2 hlang

/-- non-vacuity: every state of the DFA for `(a|b)a*` with a redundant state is reachable and live -/
example : let d := ((DFA.new 0 [1, 2]).add 0 97 1 |>.add 0 98 2 |>.add 1 97 1 |>.add 2 97 2)
    (∀ s ∈ d.states, ∃ u, dfaRun d.δ (some d.start) u = some s) ∧ (∀ s ∈ d.states, ∃ v, d.acc s v) ∧
    d.minimize = .ok ((DFA.new 0 [1]).add 0 97 1 |>.add 0 98 1 |>.add 1 97 1) := by
  refine ⟨?_, ?_, by decide⟩
  · intro s hs
    have : s = 0 ∨ s = 1 ∨ s = 2 := by revert hs; decide +revert
    rcases this with rfl | rfl | rfl
    · exact ⟨[], rfl⟩
    · exact ⟨[97], by decide⟩
    · exact ⟨[98], by decide⟩
  · intro s hs
    have : s = 0 ∨ s = 1 ∨ s = 2 := by revert hs; decide +revert
    rcases this with rfl | rfl | rfl
    · exact ⟨[97], 1, by decide, by decide⟩
    · exact ⟨[], 1, rfl, by decide⟩
    · exact ⟨[], 2, rfl, by decide⟩

/-- The Myhill–Nerode half on its own, for partial DFAs: reachable + live + pairwise distinguishable states
⇒ no more states than any DFA for the same language. -/
theorem C13_minimal_criterion
    (δ : Int → Int → Option Int) (start : Int) (final : Int → Prop) (Q : List Int) (hnd : Q.Nodup)
    (hreach : ∀ q ∈ Q, ∃ u, dfaRun δ (some start) u = some q)
    (hlive : ∀ q ∈ Q, ∃ v, accFrom δ final q v)
    (hdist : ∀ p ∈ Q, ∀ q ∈ Q, p ≠ q → ∃ v, ¬ (accFrom δ final p v ↔ accFrom δ final q v))
    (δ2 : Int → Int → Option Int) (start2 : Int) (final2 : Int → Prop) (Q2 : List Int)
    (hQ2 : ∀ u t, dfaRun δ2 (some start2) u = some t → t ∈ Q2)
    (hlang : ∀ w, dfaLang δ start final w ↔ dfaLang δ2 start2 final2 w) :
    Q.length ≤ Q2.length :=
  minimal_of_distinguishable δ start final Q hnd hreach hlive hdist δ2 start2 final2 Q2 hQ2 hlang

/-- non-vacuity: the two states of the DFA for `a(aa)*` are reachable, live and distinguishable -/
example : let d := ((DFA.new 0 [1]).add 0 97 1 |>.add 1 97 0)
    (∀ q ∈ [(0 : Int), 1], ∃ u, dfaRun d.δ (some 0) u = some q) ∧
    (∀ q ∈ [(0 : Int), 1], ∃ v, accFrom d.δ (fun f => f ∈ d.final) q v) := by
  refine ⟨?_, ?_⟩
  · intro q hq; simp at hq; rcases hq with rfl | rfl
    · exact ⟨[], rfl⟩
    · exact ⟨[97], by decide⟩
  · intro q hq; simp at hq; rcases hq with rfl | rfl
    · exact ⟨[97], 1, by decide, by decide⟩
    · exact ⟨[], 1, rfl, by decide⟩

/-- `Isomorphic` (as fixed: D21) is true for any NFA and a copy with its states renamed by an arbitrary map
that is injective on the states (the copy is built the way a caller would: `NewNFA` of the renamed start
and final states, `Add` of every renamed transition).  The pre-checks (numbers of states and final states,
alphabet, sorted degree sequence — never read out of range) are invariant under the renaming,
`generatePermutations` reaches the arrangement that realises the renaming, and the renamed copy is `Equal`
to the automaton the search builds for it.  `hts`: target sets are sorted, as `Add` keeps them. -/
theorem C13_isomorphic_renamed (n : NFA) (hwf : n.WF) (hfs : SSorted n.final)
    (hts : ∀ s a nx, (s, a, nx) ∈ entries n.trans → SSorted nx) (f : Int → Int)
    (hinj : ∀ s ∈ n.states, ∀ t ∈ n.states, f s = f t → s = t) :
    n.isomorphic (n.permuted f) = .ok true :=
  n.isomorphic_permuted hwf hfs hts f hinj

theorem C13_isomorphic_renamed_dfa (d : DFA) (hwf : d.WF) (hfs : SSorted d.final) (f : Int → Int)
    (hinj : ∀ s ∈ d.states, ∀ t ∈ d.states, f s = f t → s = t) :
    d.isomorphic (d.permuted f) = .ok true :=
  d.isomorphic_permuted hwf hfs f hinj

/-- non-vacuity: the hypotheses hold for a two-state NFA with an ε-move and a non-monotone renaming -/
example : let n := (NFA.new 3 [5]).add 3 97 [3, 5] |>.add 5 E [3]
    let f : Int → Int := fun x => if x = 3 then 10 else if x = 5 then 2 else x
    n.WF ∧ SSorted n.final ∧ (∀ s a nx, (s, a, nx) ∈ entries n.trans → SSorted nx) ∧
    (∀ s ∈ n.states, ∀ t ∈ n.states, f s = f t → s = t) :=
  ⟨NFA.WF_add (NFA.WF_add (NFA.WF_new _ _) _ _ _) _ _ _, ssorted_mkSet _,
   targets_sorted_of_all _ (by decide), by decide⟩

/-- The search on its own: `Isomorphic` answers `true` whenever its pre-checks pass and the first
arrangement `generatePermutations` yields (i-th smallest state ↦ i-th smallest state) works. -/
theorem C13_isomorphic_first_arrangement (n rhs : NFA)
    (h1 : n.final.length = rhs.final.length) (h2 : n.states.length = rhs.states.length)
    (h3 : setEq n.symbols rhs.symbols = true)
    (h4 : degreesAgree n.sortedDegrees rhs.sortedDegrees = some true)
    (hne : rhs.states.isEmpty = false)
    (heq : (n.permuted (bij n.states rhs.states)).equal rhs = true) :
    n.isomorphic rhs = .ok true :=
  n.isomorphic_of_sorted_renaming rhs h1 h2 h3 h4 hne heq

/-- non-vacuity: the hypotheses hold for the D21 witness (states {0,1} against {5,7}) -/
example : let n := (NFA.new 0 [1]).add 0 97 [1]; let rhs := (NFA.new 5 [7]).add 5 97 [7]
    n.final.length = rhs.final.length ∧ n.states.length = rhs.states.length ∧ setEq n.symbols rhs.symbols = true ∧
    degreesAgree n.sortedDegrees rhs.sortedDegrees = some true ∧ rhs.states.isEmpty = false ∧
    (n.permuted (bij n.states rhs.states)).equal rhs = true := by decide

/-- the D21 witnesses on the Model of the fixed code: states {0,1} against {5,7}; a swapped copy (not
order-preserving); automata whose degree sequences the old code made of different lengths -/
example : ((DFA.new 0 [1]).add 0 97 1).isomorphic ((DFA.new 5 [7]).add 5 97 7) = .ok true := by decide
example : ((NFA.new 3 [5]).add 3 97 [3, 5] |>.add 5 E [3]).isomorphic
    ((NFA.new 5 [3]).add 5 97 [5, 3] |>.add 3 E [5]) = .ok true := by decide
example : ((DFA.new 0 [1, 2]).add 0 97 1 |>.add 1 97 0).isomorphic ((DFA.new 0 [1, 2]).add 0 97 0) = .ok false := by
  decide

/-! ## The results are well-formed again

`DFA.Good` bundles what the theorems above ask of a DFA (key-sorted tables, `-1` not a state, sorted final
set, no `E`-labelled edge); for NFAs it is `NFA.WF`.  Every automaton built with `New…`/`Add` from state
ids `≠ -1` and symbols `≠ E` has the property, and every operation returns an automaton that has it — so
`Accept` of a result decides its language and results can be fed to further operations. -/

theorem C13_api_result_wf (s : Int) (f : List Int) (hf : (-1 : Int) ∉ f) :
    (DFA.new s f).Good ∧ (NFA.new s f).WF ∧
    (∀ d : DFA, d.Good → ∀ s a t : Int, s ≠ -1 → a ≠ E → (d.add s a t).Good) ∧
    (∀ n : NFA, n.WF → ∀ (s a : Int) (nx : List Int), (n.add s a nx).WF) :=
  ⟨DFA.Good_new s f hf, NFA.WF_new s f, fun _ h s a t hs ha => DFA.Good_add h s a t hs ha,
   fun _ h s a nx => NFA.WF_add h s a nx⟩

theorem C13_toDFA_result_wf (n : NFA) (d : DFA) (h : n.toDFA = .ok d) : d.Good := n.toDFA_good d h
theorem C13_toNFA_result_wf (d : DFA) : d.toNFA.WF := d.toNFA_WF
theorem C13_minimize_result_wf (d d' : DFA) (hg : d.Good) (h : d.minimize = .ok d') : d'.Good := d.minimize_good d' hg h
theorem C13_elimDead_result_wf (d d' : DFA) (hg : d.Good) (h : d.elimDead = .ok d') : d'.Good := d.elimDead_good d' hg h
theorem C13_reindex_result_wf (d d' : DFA) (hg : d.Good) (h : d.reindex = .ok d') : d'.Good := d.reindex_good d' hg h
theorem C13_combine_result_wf (ds : List DFA) (D : DFA) (fm : List (List Int)) (h : combineDFA ds = .ok (D, fm)) :
    D.Good := combineDFA_good ds D fm h
theorem C13_clone_result_wf (n : NFA) (d : DFA) (hg : d.Good) : n.clone.WF ∧ d.clone.Good := ⟨n.clone_WF, d.clone_good hg⟩
theorem C13_union_result_wf (nfas : List NFA) : (NFA.union nfas).WF := NFA.union_WF nfas
theorem C13_concat_result_wf (nfas : List NFA) : (NFA.concat nfas).WF := NFA.concat_WF nfas
theorem C13_star_result_wf (n : NFA) : n.star.WF := n.star_WF

example : ((DFA.new 2 [4]).add 2 97 4 |>.add 4 98 2).Good :=
  DFA.Good_add (DFA.Good_add (DFA.Good_new 2 [4] (by decide)) 2 97 4 (by decide) (by decide)) 4 98 2 (by decide) (by decide)

/-! ## The property with `Accept` on both sides

`n.accept w = .ok true` is "`N.Accept(w)` returns true" for the NFA model (it always returns),
`d.accept w = true` the same for the DFA model. -/

theorem C13_toDFA_accept (n : NFA) (w : Word) (hE : E ∉ w) :
    ∃ d, n.toDFA = .ok d ∧ d.Good ∧ (d.accept w = true ↔ n.accept w = .ok true) := by
  obtain ⟨d, hd, hl⟩ := C13_toDFA_accepts n w hE
  have hg := n.toDFA_good d hd
  exact ⟨d, hd, hg, by rw [d.accept_iff_lang hg, n.accept_iff_lang, hl]⟩

theorem C13_toNFA_accept (d : DFA) (hg : d.Good) (w : Word) : d.toNFA.accept w = .ok true ↔ d.accept w = true := by
  rw [NFA.accept_iff_lang, d.accept_iff_lang hg, DFA.toNFA_lang hg.wf hg.noEps]

theorem C13_clone_accept (n : NFA) (hwf : n.WF) (d : DFA) (hg : d.Good) (w : Word) :
    (n.clone.accept w = .ok true ↔ n.accept w = .ok true) ∧ (d.clone.accept w = true ↔ d.accept w = true) := by
  refine ⟨by rw [NFA.accept_iff_lang, NFA.accept_iff_lang, NFA.clone_lang hwf], ?_⟩
  rw [d.clone.accept_iff_lang (d.clone_good hg), d.accept_iff_lang hg, DFA.clone_lang hg.wf]

theorem C13_minimize_accept (d : DFA) (hg : d.Good) (w : Word) :
    ∃ d', d.minimize = .ok d' ∧ d'.Good ∧ (d'.accept w = true ↔ d.accept w = true) := by
  obtain ⟨d', hd', hl⟩ := C13_minimize_accepts d hg.wf hg.fin w
  have hg' := d.minimize_good d' hg hd'
  exact ⟨d', hd', hg', by rw [d'.accept_iff_lang hg', d.accept_iff_lang hg, hl]⟩

theorem C13_elimDead_accept (d : DFA) (hg : d.Good) (w : Word) :
    ∃ d', d.elimDead = .ok d' ∧ d'.Good ∧ (d'.accept w = true ↔ d.accept w = true) := by
  obtain ⟨d', hd', hl⟩ := C13_elimDead_accepts d hg.wf hg.proper w
  have hg' := d.elimDead_good d' hg hd'
  exact ⟨d', hd', hg', by rw [d'.accept_iff_lang hg', d.accept_iff_lang hg, hl]⟩

theorem C13_reindex_accept (d : DFA) (hg : d.Good) (w : Word) :
    ∃ d', d.reindex = .ok d' ∧ d'.Good ∧ (d'.accept w = true ↔ d.accept w = true) := by
  obtain ⟨d', hd', hl⟩ := C13_reindex_accepts d hg.wf w
  have hg' := d.reindex_good d' hg hd'
  exact ⟨d', hd', hg', by rw [d'.accept_iff_lang hg', d.accept_iff_lang hg, hl]⟩

theorem C13_union_accept (nfas : List NFA) (hwf : ∀ n ∈ nfas, n.WF) (w : Word) (hE : E ∉ w) :
    (NFA.union nfas).accept w = .ok true ↔ ∃ n ∈ nfas, n.accept w = .ok true := by
  rw [NFA.accept_iff_lang, NFA.union_lang nfas hwf w hE]
  constructor
  · rintro ⟨n, hn, h⟩; exact ⟨n, hn, (n.accept_iff_lang w).2 h⟩
  · rintro ⟨n, hn, h⟩; exact ⟨n, hn, (n.accept_iff_lang w).1 h⟩

theorem C13_concat_accept (nfas : List NFA) (hwf : ∀ n ∈ nfas, n.WF) (w : Word) :
    (NFA.concat nfas).accept w = .ok true ↔ Lang.concatAll (nfas.map NFA.acceptsL) w := by
  rw [NFA.accept_iff_lang, NFA.concat_lang nfas hwf w]
  have : nfas.map NFA.acceptsL = nfas.map NFA.lang := List.map_congr_left (fun n _ => n.acceptsL_eq)
  rw [this]

theorem C13_star_accept (n : NFA) (hwf : n.WF) (w : Word) (hE : E ∉ w) :
    n.star.accept w = .ok true ↔ Lang.star n.acceptsL w := by
  rw [NFA.accept_iff_lang, n.star_lang hwf w hE, n.acceptsL_eq]

/-- `CombineDFA` with `Accept` and `Next` as the code exposes them: the state `Next` leads to after `w`
(`-1` when the run dies) is listed in `finalMap[i]` iff operand `i` accepts `w`. -/
theorem C13_combine_accept (ds : List DFA) (hg : ∀ d ∈ ds, d.Good) (w : Word) (hE : E ∉ w) :
    ∃ D fm, combineDFA ds = .ok (D, fm) ∧ D.Good ∧ (D.accept w = true ↔ ∃ d ∈ ds, d.accept w = true) ∧
      fm.length = ds.length ∧
      ∀ (i : Nat) (d : DFA), ds[i]? = some d → ∃ l : List Int, fm[i]? = some l ∧
        (w.foldl D.next D.start ∈ l ↔ d.accept w = true) := by
  obtain ⟨⟨D, fm⟩, h⟩ := combineDFA_ok ds
  have hG := combineDFA_good ds D fm h
  have hlang := combineDFA_lang ds (fun d hd => (hg d hd).wf) (fun d hd => (hg d hd).noEps) D fm h w hE
  obtain ⟨hlen, hmap⟩ := combineDFA_finalMap ds (fun d hd => (hg d hd).wf) (fun d hd => (hg d hd).noEps) D fm h w hE
  refine ⟨D, fm, h, hG, ?_, hlen, ?_⟩
  · rw [D.accept_iff_lang hG, hlang]
    constructor
    · rintro ⟨d, hd, hl⟩; exact ⟨d, hd, (d.accept_iff_lang (hg d hd) w).2 hl⟩
    · rintro ⟨d, hd, hl⟩; exact ⟨d, hd, (d.accept_iff_lang (hg d hd) w).1 hl⟩
  · intro i d hd
    have hdm : d ∈ ds := List.mem_of_getElem? hd
    obtain ⟨l, hl, hpos, hq⟩ := hmap i d hd
    refine ⟨l, hl, ?_⟩
    rw [D.foldl_next hG.proper.2, d.accept_iff_lang (hg d hdm)]
    cases hr : dfaRun D.δ (some D.start) w with
    | some q => simpa using hq q hr
    | none =>
      simp only [Option.getD_none]
      constructor
      · intro hm; have := hpos _ hm; omega
      · intro hdl
        have : D.lang w := hlang.2 ⟨d, hdm, hdl⟩
        obtain ⟨f, hf, _⟩ := this
        rw [hr] at hf; simp at hf

/-- End to end, on `Accept` only: `Minimize(ToDFA(Concat(ns…)))` always exists and accepts `w` iff `w` splits
into words the operands accept, one after the other. -/
theorem C13_chain_accept (nfas : List NFA) (hwf : ∀ n ∈ nfas, n.WF) (w : Word) (hE : E ∉ w) :
    ∃ d m, (NFA.concat nfas).toDFA = .ok d ∧ d.minimize = .ok m ∧
      (m.accept w = true ↔ Lang.concatAll (nfas.map NFA.acceptsL) w) := by
  obtain ⟨d, hd, hg, h1⟩ := C13_toDFA_accept (NFA.concat nfas) w hE
  obtain ⟨m, hm, _, h2⟩ := C13_minimize_accept d hg w
  exact ⟨d, m, hd, hm, by rw [h2, h1, C13_concat_accept nfas hwf w]⟩

example : let a := NFA.new 0 [0] |>.add 0 97 [0]; let b := NFA.new 0 [1] |>.add 0 98 [1]
    (((NFA.concat [a, b]).toDFA.bind DFA.minimize).map (fun m => (m.accept [97, 97, 98], m.accept [98, 97])))
      = .ok (true, false) := by decide

/-! ## The read-only public API: `Symbols`, `States`, `Next`, `Transitions`

These methods read the same tables the language theorems are about (`Model/C13X.lean` has the Models the older
file lacks: the exported `NFA.Next` and the two `Transitions()` iterators with their early exit).  `d.δ` is the
transition function and `n.next` / `n.Δ` the transition relation the languages above are defined from. -/

/-- `DFA.Symbols` and `NFA.Symbols` return the strictly increasing (sorted, duplicate-free) list of the symbols that
label an entry of the table; the NFA leaves `E` out, the DFA does not. -/
theorem C13_symbols_spec (d : DFA) (n : NFA) (hd : d.WF) (hn : n.WF) :
    (SSorted d.symbols ∧ ∀ a, a ∈ d.symbols ↔ ∃ s t, d.δ s a = some t) ∧
    (SSorted n.symbols ∧ ∀ a, a ∈ n.symbols ↔ a ≠ E ∧ ∃ s nx, n.next s a = some nx) := by
  refine ⟨⟨d.symbols_sorted, fun a => ?_⟩, ⟨n.symbols_sorted, fun a => ?_⟩⟩
  · rw [d.mem_symbols_iff]
    exact ⟨fun ⟨s, t, h⟩ => ⟨s, t, (mem_entries_DFA hd _ _ _).1 h⟩, fun ⟨s, t, h⟩ => ⟨s, t, (mem_entries_DFA hd _ _ _).2 h⟩⟩
  · rw [n.mem_symbols_iff]
    exact ⟨fun ⟨h0, s, nx, h⟩ => ⟨h0, s, nx, (mem_entries_NFA hn _ _ _).1 h⟩,
      fun ⟨h0, s, nx, h⟩ => ⟨h0, s, nx, (mem_entries_NFA hn _ _ _).2 h⟩⟩

example : ((DFA.new 2 [4]).add 2 98 4 |>.add 4 97 2 |>.add 4 98 4).symbols = [97, 98] ∧
    ((NFA.new 1 [3]).add 1 98 [] |>.add 1 E [3] |>.add 3 97 [1, 3]).symbols = [97, 98] := by decide

/-- `States` returns the strictly increasing list of: the start state, the final states, and every source and
target of an entry of the table. -/
theorem C13_states_spec (d : DFA) (n : NFA) (hd : d.WF) (hn : n.WF) :
    (SSorted d.states ∧
      ∀ x, x ∈ d.states ↔ x = d.start ∨ x ∈ d.final ∨ ∃ s a t, d.δ s a = some t ∧ (x = s ∨ x = t)) ∧
    (SSorted n.states ∧
      ∀ x, x ∈ n.states ↔ x = n.start ∨ x ∈ n.final ∨ ∃ s a nx, n.next s a = some nx ∧ (x = s ∨ x ∈ nx)) := by
  refine ⟨⟨d.states_sorted, fun x => ?_⟩, ⟨n.states_sorted, fun x => ?_⟩⟩
  · rw [d.mem_states_iff]
    constructor
    · rintro (h | h | ⟨s, a, t, h, hx⟩)
      · exact Or.inl h
      · exact Or.inr (Or.inl h)
      · exact Or.inr (Or.inr ⟨s, a, t, (mem_entries_DFA hd _ _ _).1 h, hx⟩)
    · rintro (h | h | ⟨s, a, t, h, hx⟩)
      · exact Or.inl h
      · exact Or.inr (Or.inl h)
      · exact Or.inr (Or.inr ⟨s, a, t, (mem_entries_DFA hd _ _ _).2 h, hx⟩)
  · rw [n.mem_states_iff]
    constructor
    · rintro (h | h | ⟨s, a, nx, h, hx⟩)
      · exact Or.inl h
      · exact Or.inr (Or.inl h)
      · exact Or.inr (Or.inr ⟨s, a, nx, (mem_entries_NFA hn _ _ _).1 h, hx⟩)
    · rintro (h | h | ⟨s, a, nx, h, hx⟩)
      · exact Or.inl h
      · exact Or.inr (Or.inl h)
      · exact Or.inr (Or.inr ⟨s, a, nx, (mem_entries_NFA hn _ _ _).2 h, hx⟩)

example : ((NFA.new 7 [3]).add 1 98 [] |>.add 1 E [3] |>.add 3 97 [9, 3]).states = [1, 3, 7, 9] := by decide

/-- The exported `NFA.Next(s, a)` returns exactly the targets of the transition relation `Δ` the language of the NFA
is defined from (`nil` = `none` when the table has no entry); on an automaton made with `NewNFA` it is `nil`
everywhere, and `Add(s', a', nx)` changes it at `(s', a')` only, to the sorted union of the old targets and `nx`. -/
theorem C13_nfa_next_spec (n : NFA) (s a : Int) :
    (∀ t, (∃ nx, n.nextPub s a = some nx ∧ t ∈ nx) ↔ n.Δ s a t) ∧
    (∀ st f, (NFA.new st f).nextPub s a = none) ∧
    (∀ s' a' l, (n.add s' a' l).nextPub s a =
      if s = s' ∧ a = a' then some (saddAll ((n.nextPub s' a').getD []) l) else n.nextPub s a) := by
  refine ⟨fun t => ?_, fun st f => ?_, fun s' a' l => ?_⟩
  · rw [n.nextPub_eq]; exact Iff.rfl
  · rw [NFA.nextPub_eq, NFA.next_new]
  · simp only [NFA.nextPub_eq, NFA.next_add]

/-- the slice `Next` returns is strictly increasing on every NFA made with `NewNFA` and `Add` -/
theorem C13_nfa_next_sorted :
    (∀ st f, (NFA.new st f).TSorted) ∧ (∀ (n : NFA) s a l, n.TSorted → (n.add s a l).TSorted) ∧
    (∀ (n : NFA) s a nx, n.TSorted → n.nextPub s a = some nx → SSorted nx) :=
  ⟨NFA.TSorted_new, fun _ s a l h => NFA.TSorted_add h s a l, fun n s a nx h hn => h s a nx (by rw [← n.nextPub_eq]; exact hn)⟩

example : ((NFA.new 1 [3]).add 1 98 [] |>.add 3 97 [3, 1] |>.add 3 97 [2]).nextPub 3 97 = some [1, 2, 3] ∧
    ((NFA.new 1 [3]).add 1 98 []).nextPub 1 98 = some [] ∧ ((NFA.new 1 [3]).add 1 98 []).nextPub 1 97 = none := by decide

/-- `DFA.Next(s, a)` is the transition function with `-1` for "no transition"; `-1` everywhere after `NewDFA`, and
`Add(s', a', t)` overwrites the entry `(s', a')` only. -/
theorem C13_dfa_next_spec (d : DFA) (s a : Int) :
    d.next s a = (d.δ s a).getD (-1) ∧
    (∀ st f, (DFA.new st f).next s a = -1) ∧
    (∀ s' a' t, (d.add s' a' t).next s a = if s = s' ∧ a = a' then t else d.next s a) := by
  refine ⟨d.next_eq s a, fun st f => ?_, fun s' a' t => ?_⟩
  · rw [DFA.next_eq, DFA.δ_new]; rfl
  · simp only [DFA.next_eq, DFA.δ_add]; split <;> rfl

example : ((DFA.new 2 [4]).add 2 97 4 |>.add 2 97 6).next 2 97 = 6 ∧ ((DFA.new 2 [4]).add 2 97 4).next 2 98 = -1 := by decide

/-- `Transitions()` is a range-over-func iterator: two nested loops over the table that `return` as soon as the
consumer's `yield` answers false.  For EVERY consumer (state `σ`, body `yield`) running it is the same as one
`for … { … break … }` loop (`Spec.foldUntil`) over the entries of the table in iteration order — nothing is
yielded after the consumer stopped, nothing is skipped before. -/
theorem C13_transitions_iter {σ : Type} (d : DFA) (n : NFA)
    (yd : σ → Int × Int × Int → σ × Bool) (yn : σ → Int × Int × List Int → σ × Bool) (init : σ) :
    d.transitionsIter yd init = foldUntil yd (entries d.trans) init ∧
    n.transitionsIter yn init = foldUntil yn (entries n.trans) init :=
  ⟨iterOuter_eq yd d.trans init, iterOuter_eq yn n.trans init⟩

/-- a consumer that breaks after `k` transitions (the op `trans X k` of the harness) gets the first `k` entries, and
the entries are exactly the transitions: `(s, a, t)` is yielded iff `δ s a = some t` (DFA), `(s, a, nx)` iff
`next s a = some nx` (NFA). -/
theorem C13_transitions_prefix (d : DFA) (n : NFA) (hd : d.WF) (hn : n.WF) (k : Nat) :
    d.transPrefix k = (entries d.trans).take k ∧ n.transPrefix k = (entries n.trans).take k ∧
    (∀ s a t, (s, a, t) ∈ d.transPrefix (entries d.trans).length ↔ d.δ s a = some t) ∧
    (∀ s a nx, (s, a, nx) ∈ n.transPrefix (entries n.trans).length ↔ n.next s a = some nx) := by
  refine ⟨d.transPrefix_eq k, n.transPrefix_eq k, fun s a t => ?_, fun s a nx => ?_⟩
  · rw [d.transPrefix_eq, List.take_length]; exact mem_entries_DFA hd s a t
  · rw [n.transPrefix_eq, List.take_length]; exact mem_entries_NFA hn s a nx

example : ((DFA.new 2 [4]).add 4 98 2 |>.add 2 97 4 |>.add 4 97 4).transPrefix 2 = [(2, 97, 4), (4, 97, 4)] ∧
    ((NFA.new 1 [3]).add 3 98 [3, 1] |>.add 1 98 [] |>.add 1 E [3]).transPrefix 0 = [] ∧
    ((NFA.new 1 [3]).add 3 98 [3, 1] |>.add 1 98 [] |>.add 1 E [3]).transPrefix 5 = [(1, 0, [3]), (1, 98, []), (3, 98, [1, 3])] := by
  decide

/-! ## `Final.Add`, and one object used several times in one call

The exported field `Final` is a set the caller may add to in place (`X.Final.Add(s)`, Model: `addFinal`): the
transition tables are untouched, the language grows by exactly the words that lead to `s`, the automaton stays
well-formed.  Everything else the hardening round exercises needs no new operation of the Model: an operand list
is a `List NFA` / `List DFA` of *values*, so `C13_union_lang`, `C13_concat_lang`, `C13_combine_lang`,
`C13_combine_finalMap` already speak about lists in which the same automaton occurs several times (`a.Concat(a)`,
`CombineDFA(d, d, d)`), and `C13_isomorphic_renamed` with the identity renaming about `a.Isomorphic(a)`. -/

/-- `n.Final.Add(s)` on an NFA: accepted afterwards = accepted before, or some path from the start state spelling the
word ends in `s`; `Accept` decides it; `WF` is kept. -/
theorem C13_addFinal_nfa (n : NFA) (s : Int) (w : Word) :
    ((n.addFinal s).lang w ↔ n.lang w ∨ Path n.Δ n.start w s) ∧
    (∃ b, (n.addFinal s).accept w = .ok b ∧ (b = true ↔ n.lang w ∨ Path n.Δ n.start w s)) ∧
    (n.WF → (n.addFinal s).WF) := by
  refine ⟨n.addFinal_lang s w, ?_, fun h => h⟩
  obtain ⟨b, hb, hl⟩ := (n.addFinal s).accept_spec w
  exact ⟨b, hb, hl.trans (n.addFinal_lang s w)⟩

example : ((NFA.new 0 [2] |>.add 0 E [1] |>.add 1 97 [2]).addFinal 1).accept [] = .ok true ∧
    (NFA.new 0 [2] |>.add 0 E [1] |>.add 1 97 [2]).accept [] = .ok false := by decide

/-- `d.Final.Add(s)` on a DFA: accepted afterwards = accepted before, or the run ends in `s` — for the language and
for the executable `Accept`; a `Good` DFA stays `Good` (for `s ≠ -1`, which is not a state). -/
theorem C13_addFinal_dfa (d : DFA) (s : Int) (w : Word) :
    ((d.addFinal s).lang w ↔ d.lang w ∨ dfaRun d.δ (some d.start) w = some s) ∧
    (d.addFinal s).accept w = (d.accept w || (w.foldl d.next d.start == s)) ∧
    (d.Good → s ≠ -1 → (d.addFinal s).Good) :=
  ⟨d.addFinal_lang s w, d.addFinal_accept s w, fun h hs => DFA.addFinal_good h s hs⟩

example : (((DFA.new 2 [4]).add 2 97 4 |>.add 4 98 6).addFinal 6).accept [97, 98] = true ∧
    ((DFA.new 2 [4]).add 2 97 4 |>.add 4 98 6).accept [97, 98] = false := by decide

/-- the same object twice in one call, on the Model: `a.Concat(a)` for `a = a*b` (the witness of the seeded change
C13-s2) accepts `abab` and `bb` and rejects `ab`; `CombineDFA(d, d)` has both operands accept in the same states -/
example : (NFA.concat [NFA.new 0 [1] |>.add 0 97 [0] |>.add 0 98 [1], NFA.new 0 [1] |>.add 0 97 [0] |>.add 0 98 [1]]).accept [97, 98, 97, 98] = .ok true ∧
    (NFA.concat [NFA.new 0 [1] |>.add 0 97 [0] |>.add 0 98 [1], NFA.new 0 [1] |>.add 0 97 [0] |>.add 0 98 [1]]).accept [98, 98] = .ok true ∧
    (NFA.concat [NFA.new 0 [1] |>.add 0 97 [0] |>.add 0 98 [1], NFA.new 0 [1] |>.add 0 97 [0] |>.add 0 98 [1]]).accept [97, 98] = .ok false := by
  decide
example : combineDFA [(DFA.new 2 [4]).add 2 97 4, (DFA.new 2 [4]).add 2 97 4]
    = .ok ((DFA.new 0 [1]).add 0 97 1, [[1], [1]]) := by decide
