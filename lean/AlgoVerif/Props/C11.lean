import AlgoVerif.Common
/-! # C11 — property theorems (none yet) -/
