import AlgoVerif.Proofs.C11Resolve
import AlgoVerif.Proofs.C11NoPanic
import AlgoVerif.Proofs.C11Demo
import AlgoVerif.Proofs.C11Valid
import AlgoVerif.Proofs.C11LalrValid
import AlgoVerif.Proofs.C11Term
import AlgoVerif.Proofs.C11CompleteCheck
import AlgoVerif.Proofs.C11CompleteSLRCheck
import AlgoVerif.Proofs.C11Chain
import AlgoVerif.Proofs.C11BuiltCompleteMain
import AlgoVerif.Proofs.C11LalrDemo
import AlgoVerif.Proofs.C11ChainMain
import AlgoVerif.Proofs.C11TermSLR
import AlgoVerif.Proofs.C11GroupDemo
import AlgoVerif.Proofs.C11Hard
/-!
# C11 — property theorems

Model: `Model/C11Core.lean` (driver, conflict resolution), `Model/C11.lean` (the three constructions);
Spec: `Spec/C11.lean` (rightmost derivations, the table validator, the declared precedence rule).
-/
open AlgoVerif AlgoVerif.Gram AlgoVerif.C11 AlgoVerif.C11.Spec AlgoVerif.C11.Sound AlgoVerif.C11.NoPanic AlgoVerif.C11.Demo AlgoVerif.C11.Built AlgoVerif.C11.Term AlgoVerif.C11.Complete

/-! ## 0. facts regenerated from the source on every run (`bin/pre-C11`) that the Model relies on -/

/-- the enumerations are declared in the order the Model's constructors assume (`Action`: shift, reduce, accept;
`Assoc`: none, left, right), four primed suffixes are tried for the new start symbol, and the endmarker is one
character outside ASCII (so it sorts after every ASCII terminal name and `%q` never applies to it) -/
theorem C11_generated_facts :
    AlgoVerif.Generated.C11.lr_ActionType_names = ["SHIFT", "REDUCE", "ACCEPT", "ERROR"] ∧
    AlgoVerif.Generated.C11.lr_ActionType_base = 1 ∧
    AlgoVerif.Generated.C11.lr_Associativity_names = ["NONE", "LEFT", "RIGHT"] ∧
    primeSuffixes.length = 4 ∧
    endmarker.toList.length = 1 ∧ endmarker.toList.all (fun c => c.toNat > 127) = true := by decide

/-! ## 1. the decision logic of `PrecedenceLevels.Compare` / `resolveConflict`, for all level lists -/

/-- `Precedence(h)` is the *first* level that lists `h` (so "listed earlier" is well defined) … -/
theorem C11_precedence_first_level (ls : List Level) (h : Handle) (i : Nat) (as : Assoc) :
    precedenceOf ls h = some (i, as) ↔
      ∃ l, ls[i]? = some l ∧ h ∈ l.handles ∧ l.assoc = as ∧ ∀ k, k < i → ∀ m, ls[k]? = some m → h ∉ m.handles := by
  induction ls generalizing i with
  | nil => simp [precedenceOf]
  | cons l ls ih =>
    unfold precedenceOf
    by_cases hm : h ∈ l.handles
    · simp only [hm, if_true, Option.some.injEq, Prod.mk.injEq]
      constructor
      · rintro ⟨rfl, rfl⟩
        exact ⟨l, by simp, hm, rfl, by intro k hk; omega⟩
      · rintro ⟨l', hl', _, has, hfirst⟩
        cases i with
        | zero => simp at hl'; subst hl'; exact ⟨rfl, has⟩
        | succ i => exact absurd hm (hfirst 0 (by omega) l (by simp))
    · simp only [hm, if_false]
      cases hp : precedenceOf ls h with
      | none =>
        simp only [false_iff, reduceCtorEq]
        rintro ⟨l', hl', hmem, has, hfirst⟩
        cases i with
        | zero => simp at hl'; subst hl'; exact hm hmem
        | succ i =>
          have := (ih i).mpr ⟨l', by simpa using hl', hmem, has, fun k hk m hkm => hfirst (k + 1) (by omega) m (by simpa using hkm)⟩
          rw [hp] at this; cases this
      | some r =>
        obtain ⟨i', as'⟩ := r
        simp only [Option.some.injEq, Prod.mk.injEq]
        constructor
        · rintro ⟨rfl, rfl⟩
          obtain ⟨l', hl', hmem, has, hfirst⟩ := (ih i').mp hp
          refine ⟨l', by simpa using hl', hmem, has, ?_⟩
          intro k hk m hkm
          cases k with
          | zero => simp at hkm; subst hkm; exact hm
          | succ k => exact hfirst k (by omega) m (by simpa using hkm)
        · rintro ⟨l', hl', hmem, has, hfirst⟩
          cases i with
          | zero => simp at hl'; subst hl'; exact absurd hmem hm
          | succ i =>
            have := (ih i).mpr ⟨l', by simpa using hl', hmem, has, fun k hk m hkm => hfirst (k + 1) (by omega) m (by simpa using hkm)⟩
            rw [hp] at this
            simp only [Option.some.injEq, Prod.mk.injEq] at this
            exact ⟨by omega, this.2⟩

/-- … and it is `none` exactly for an unlisted handle. -/
theorem C11_precedence_unlisted (ls : List Level) (h : Handle) :
    precedenceOf ls h = none ↔ ∀ l ∈ ls, h ∉ l.handles := by
  induction ls with
  | nil => simp [precedenceOf]
  | cons l ls ih =>
    unfold precedenceOf
    by_cases hm : h ∈ l.handles
    · simp [hm]
    · cases hp : precedenceOf ls h with
      | none => simp [hm, hp] at ih ⊢; exact ih
      | some r => simp [hm, hp] at ih ⊢; exact ih

/-- `C11_compare_rule`: for ALL level lists, productions, terminals and shift targets, `Compare` between the
reduce by `p` and the shift of `a` says: reduce wins (`1`) iff the declared rule says reduce, shift wins (`-1`) iff it
says shift, and it returns an error — never a choice — when the rule gives none (NONE, unlisted handle). -/
theorem C11_compare_rule (ls : List Level) (p : Pr) (a : String) (j : Int) :
    compareAH ls (.reduce p, handleOfProd p) (.shift j, .term a) =
      (match declared ls p a with
       | .reduce => some 1
       | .shift => some (-1)
       | .error => none) := by
  unfold compareAH declared
  have hne : ((Action.reduce p, handleOfProd p) = (Action.shift j, Handle.term a)) = False := by simp
  simp only [hne, if_false, isReduce, isShift, Bool.and_self]
  cases precedenceOf ls (handleOfProd p) with
  | none => simp
  | some r =>
    obtain ⟨i, as⟩ := r
    cases precedenceOf ls (Handle.term a) with
    | none => simp
    | some r' =>
      obtain ⟨k, as'⟩ := r'
      simp only
      by_cases h1 : i < k
      · simp [h1]
      · by_cases h2 : k < i
        · simp [h1, h2]
        · simp only [h1, h2, if_false]
          cases as <;> simp

/-- two handles of the same level have that level's associativity -/
theorem C11_same_level_same_assoc (ls : List Level) (h1 h2 : Handle) (i : Nat) (a1 a2 : Assoc)
    (e1 : precedenceOf ls h1 = some (i, a1)) (e2 : precedenceOf ls h2 = some (i, a2)) : a1 = a2 := by
  obtain ⟨l1, hl1, _, ha1, _⟩ := (C11_precedence_first_level ls h1 i a1).mp e1
  obtain ⟨l2, hl2, _, ha2, _⟩ := (C11_precedence_first_level ls h2 i a2).mp e2
  rw [hl1] at hl2
  simp only [Option.some.injEq] at hl2
  subst hl2
  rw [← ha1, ← ha2]

/-- the same rule with the arguments swapped (`Compare` is antisymmetric on a shift/reduce pair) -/
theorem C11_compare_rule_swapped (ls : List Level) (p : Pr) (a : String) (j : Int) :
    compareAH ls (.shift j, .term a) (.reduce p, handleOfProd p) =
      (match declared ls p a with
       | .reduce => some (-1)
       | .shift => some 1
       | .error => none) := by
  unfold compareAH declared
  have hne : ((Action.shift j, Handle.term a) = (Action.reduce p, handleOfProd p)) = False := by simp
  simp only [hne, if_false, isReduce, isShift, Bool.and_self]
  cases e1 : precedenceOf ls (handleOfProd p) with
  | none => cases precedenceOf ls (Handle.term a) <;> simp
  | some r =>
    obtain ⟨i, as⟩ := r
    cases e2 : precedenceOf ls (Handle.term a) with
    | none => simp
    | some r' =>
      obtain ⟨k, as'⟩ := r'
      simp only
      by_cases h1 : i < k
      · have : ¬ k < i := by omega
        simp [h1, this]
      · by_cases h2 : k < i
        · simp [h1, h2]
        · have hik : i = k := by omega
          subst hik
          have has : as = as' := C11_same_level_same_assoc ls _ _ i as as' e1 e2
          subst has
          simp only [h1, if_false]
          cases as <;> simp

/-- `resolveConflict` on a shift/reduce cell follows the declared rule, whichever of the two actions the
(shuffled) set iteration delivers first -/
theorem C11_resolve_shift_reduce (ls : List Level) (p : Pr) (a : String) (j : Int) :
    resolveConflict ls a [.reduce p, .shift j] = .ok (chosen (declared ls p a) p j) ∧
    resolveConflict ls a [.shift j, .reduce p] = .ok (chosen (declared ls p a) p j) := by
  have hself1 : compareAH ls (Action.reduce p, handleOfProd p) (Action.reduce p, handleOfProd p) = some 0 := by
    simp [compareAH]
  have hself2 : compareAH ls (Action.shift j, Handle.term a) (Action.shift j, Handle.term a) = some 0 := by
    simp [compareAH]
  have h1 := C11_compare_rule_swapped ls p a j
  have h2 := C11_compare_rule ls p a j
  cases hd : declared ls p a <;> rw [hd] at h1 h2 <;> simp only at h1 h2 <;>
    constructor <;>
    simp [resolveConflict, pairUp, handleOfAction, maxLoop, hself1, hself2, h1, h2, chosen]

example : declared [⟨.left, [.term "*"]⟩, ⟨.left, [.term "+"]⟩]
    ⟨"E", [.nonterm "E", .term "*", .nonterm "E"]⟩ "+" = .reduce := by decide
example : declared [⟨.right, [.term "^"]⟩] ⟨"E", [.nonterm "E", .term "^", .nonterm "E"]⟩ "^" = .shift := by decide
example : declared [⟨.none, [.term "<"]⟩] ⟨"E", [.nonterm "E", .term "<", .nonterm "E"]⟩ "<" = .error := by decide

/-! ## 2. never panics -/

/-- the resolution of a conflict never panics, for every level list, every non-empty cell and EVERY order in
which the unordered action set is traversed (`acts` is that order).  Before the D18 patch this was false:
`resolveConflict ls "$" [.accept, .reduce p]` dereferenced the nil handle of ACCEPT. -/
theorem C11_resolve_never_panics (ls : List Level) (a : String) (acts : List Action) (hne : acts ≠ []) :
    resolveConflict ls a acts ≠ Outcome.panic :=
  resolveConflict_no_panic ls a acts hne

example : resolveConflict [] endmarker [.accept, .reduce ⟨"S", []⟩] = .ok none := by decide

/-- `ResolveConflicts` (all cells) never panics either, whatever the per-cell iteration orders are, as long as
an order does not drop all actions of a cell -/
theorem C11_resolveAll_never_panics (ls : List Level) (order : Int → String → List Action → List Action)
    (hord : ∀ s a acts, acts ≠ [] → order s a acts ≠ []) (T : Table) :
    resolveAll ls order T ≠ Outcome.panic := by
  unfold resolveAll
  split
  · simp
  · suffices h : ∀ (es : List ((Int × String) × List Action)) (acc : Table × Verdict),
        resolveCells ls order es acc ≠ Outcome.panic from h _ _
    intro es
    induction es with
    | nil => intro acc; simp [resolveCells]
    | cons e es ih =>
      intro acc
      unfold resolveCells
      split
      · exact ih acc
      · rename_i hlen
        have hne : e.2 ≠ [] := by
          intro h; rw [h] at hlen; simp at hlen
        have := resolveConflict_no_panic ls e.1.2 (order e.1.1 e.1.2 e.2) (hord _ _ _ hne)
        cases hr : resolveConflict ls e.1.2 (order e.1.1 e.1.2 e.2) with
        | panic => exact absurd hr this
        | diverge => simp
        | ok o => cases o <;> simp <;> exact ih _

/-
Full statement (`C11_never_panics`): for every reduced grammar `g` and every `fuel`,
    `build k g fuel ≠ .panic`  for `k ∈ {slr, lalr, lr1}`,  and with enough fuel `≠ .diverge`.
Proved below for SLR and canonical LR(1) (their Models have no panic point besides the exhaustion of the primed
names `S′ … S⁗` in `augment`), and for the conflict resolution of all three (above); for LALR in §13 (`C11_never_panics`,
for grammars with productive non-terminals).  Missing: no-divergence of the builders (`build … ≠ .diverge` for
`fuel ≥ defaultFuel g`), which is checked on every generated grammar by the correspondence run (a `hang` line would differ
from the implementation's or be objected to by the harness).
-/
theorem C11_never_panics_partial (g : SGrammar) (fuel : Nat) (h : augStart g ≠ none) :
    buildSLR g fuel ≠ Outcome.panic ∧ buildLR1 g fuel ≠ Outcome.panic :=
  ⟨np_buildSLR g fuel h, np_buildLR1 g fuel h⟩

example : augStart { terms := ["a"], nonterms := ["S"], prods := [⟨"S", [.term "a"]⟩], start := "S" } ≠ none := by
  decide

/-! ## 3. soundness: `lr_stack_invariant` ⇒ `C11_sound` -/

/-- `lr_stack_invariant`, restated: on a table whose actions are justified by the item sets `items`
(`SoundTable`), whenever the frames of the stack form a chain of table transitions, every item `A → α•β` of the top
state has `α` as the top `|α|` symbols of the stack, and `A → •αβ` lies in the state below them. -/
theorem C11_lr_stack_invariant {g : SGrammar} {start' : String} {items : Int → List Item} {T : Tbl}
    (hT : SoundTable g start' items T) (fr : List Frame) (it : Item)
    (hch : Chain items fr) (hit : it ∈ items (topOf fr)) :
    it.dot ≤ fr.length ∧ symsOf (fr.take it.dot) = it.prod.body.take it.dot ∧
      ∃ j ∈ items (topOf (fr.drop it.dot)), j.prod = it.prod ∧ j.dot = 0 :=
  lr_stack_invariant hT it.dot fr it hch hit rfl

/-- `C11_sound` for the driver: on ANY table that passes the validator's soundness conditions — and on any table
obtained from it by deleting actions, such as the table after `ResolveConflicts` — for EVERY token string `w`
(not containing the endmarker) and every amount of fuel: if `Parse` accepts and emits `π`, then `π` reversed is a
rightmost derivation of `w` from the start symbol, and the AST returned by `ParseAndBuildAST` has yield `w`. -/
theorem C11_sound (g : SGrammar) (b : Built) (T : Table)
    (hv : soundOK g b = true) (hw : Within b.table T)
    (w : List String) (hend : endmarker ∉ w) (fuel : Nat) (π : List Pr) (root : Tree)
    (h : parse T.toTbl fuel w = .ok (.accept π root)) :
    RightmostDerivation g π.reverse w ∧ Language g w ∧ root.yield = w := by
  have hs := parse_sound (soundTable_of_within g b T hv hw) w hend fuel π root h
  refine ⟨hs.1, ?_, hs.2⟩
  -- a rightmost derivation is a derivation
  have aux : ∀ (π : List Pr) (α β : List Sy), RDeriv g π α β → Derives g α β := by
    intro π α β hd
    induction hd with
    | nil α => exact Derives.refl α
    | cons u v p hp _ ih => exact (Derives.single (Step.mk u (v.map Sym.term) p hp)).trans ih
  exact aux _ _ _ hs.1

/-- every table ANY of the three constructions of the Model returns — for EVERY well-formed grammar and every amount
of fuel — passes the soundness validator: each kernel item of a transition's target comes from an item of its source
(for LALR this is exactly what the same-core condition of the patched `findSuperset` provides), reduce/accept actions
belong to complete items of their state, state 0 is the closure of `S′ → •S` and the only state holding it (an item of
`S′` never receives a lookahead other than the endmarker), and the endmarker is never shifted. -/
theorem C11_built_tables_valid (k : Kind) (g : SGrammar) (hv : ValidG g) (fuel : Nat) (b : Built)
    (hb : build k g fuel = .ok b) : soundOK g b = true := by
  cases k with
  | slr => exact soundOK_buildSLR hv hb
  | lalr => exact soundOK_buildLALR hv hb
  | lr1 => exact soundOK_buildLR1 hv hb

/-- `C11_sound`, unconditionally, for SLR(1), LALR(1) and canonical LR(1): for every well-formed grammar `g`, fuel,
level list, iteration orders of the conflict resolution and token string `w` without the endmarker: whatever the
driver accepts on the (resolved) table was derived — the emitted productions reversed are a rightmost derivation of
`w`, `w ∈ L(g)`, and the AST's yield is `w`. -/
theorem C11_sound_all (k : Kind) (g : SGrammar) (hv : ValidG g) (fuel : Nat) (b : Built)
    (ls : List Level) (order : Int → String → List Action → List Action)
    (hord : ∀ s a acts x, x ∈ order s a acts → x ∈ acts) (T : Table) (verdict : Verdict)
    (hb : build k g fuel = .ok b) (hr : resolveAll ls order b.table = .ok (T, verdict))
    (w : List String) (hend : endmarker ∉ w) (fuel' : Nat) (π : List Pr) (root : Tree)
    (h : parse T.toTbl fuel' w = .ok (.accept π root)) :
    RightmostDerivation g π.reverse w ∧ Language g w ∧ root.yield = w :=
  C11_sound g b T (C11_built_tables_valid k g hv fuel b hb)
    (resolveAll_within ls order b.table hord (T, verdict) hr) w hend fuel' π root h

example : ValidG g17 := validG_sound (by decide)

/-- the same with the validator's verdict as a hypothesis instead of `ValidG` (kept: it is the form the per-case
`check` op of the driver instantiates, and it does not need the grammar to be well formed) -/
theorem C11_sound_validated (k : Kind) (g : SGrammar) (fuel : Nat) (b : Built) (ls : List Level)
    (order : Int → String → List Action → List Action) (hord : ∀ s a acts x, x ∈ order s a acts → x ∈ acts)
    (T : Table) (verdict : Verdict)
    (hb : build k g fuel = .ok b) (hv : soundOK g b = true)
    (hr : resolveAll ls order b.table = .ok (T, verdict))
    (w : List String) (hend : endmarker ∉ w) (fuel' : Nat) (π : List Pr) (root : Tree)
    (h : parse T.toTbl fuel' w = .ok (.accept π root)) :
    RightmostDerivation g π.reverse w ∧ Language g w ∧ root.yield = w := by
  have _ := hb
  exact C11_sound g b T hv (resolveAll_within ls order b.table hord (T, verdict) hr) w hend fuel' π root h

/-- fuel is only a technicality: once `parse` returns with some fuel it returns the same with any larger fuel
(so `hang` lines of the driver mean the Go loop would not return either) -/
theorem C11_parse_fuel_monotone (T : Tbl) (w : List String) (n m : Nat) (r : PResult)
    (h : parse T n w = .ok r) (hnm : n ≤ m) : parse T m w = .ok r := by
  unfold parse at *
  suffices aux : ∀ (n : Nat) (st : PState) (m : Nat), n ≤ m → prun T n st = .ok r → prun T m st = .ok r from
    aux n _ m hnm h
  intro n
  induction n with
  | zero => intro st m _ h; simp [prun] at h
  | succ n ih =>
    intro st m hm h
    cases m with
    | zero => omega
    | succ m =>
      unfold prun at h ⊢
      cases hs : pstep T st with
      | inl st' => rw [hs] at h; simp only; exact ih st' m (by omega) h
      | inr r' => rw [hs] at h; simpa using h

/-! ## 4. termination (fuel sufficiency) -/

/-
Full statement (`C11_terminates`): for every reduced grammar `g`, every construction `k` and conflict-free table,
there is a bound `B(g, |w|)` such that `parse T.toTbl fuel w ≠ .diverge` for every `w` and every `fuel ≥ B`.
Proved: this for every grammar without ε-productions whose unit productions decrease a rank (= no unit cycles),
for ALL three constructions, with or without conflicts and precedence resolution, with the explicit bound
`(2·R + 1)·|w| + 1` (at most `|w|` shifts and `2·R·|w|` reductions, because the productions emitted so far always
are a rightmost derivation of the input from the current sentential form, and every derivation step increases a
potential bounded by `2·R·|w|`).
The general statement — every well-formed grammar with productive non-terminals, ε-productions and unit productions
included, every conflict-free built table — is `C11_terminates` (§11), without an explicit bound (the argument does use
the completeness side: a reduce loop would make the driver run for ever on a sentence).  This theorem is kept: it gives a
bound, and holds for tables WITH conflicts and after precedence resolution, where `C11_terminates` does not apply
(`C11_termination_needs_conflict_freeness`).
-/
theorem C11_terminates_partial (k : Kind) (g : SGrammar) (hv : ValidG g) (rank : String → Nat) (R : Nat)
    (hn : NoEpsUnitCycle g rank R) (fuel : Nat) (b : Built)
    (ls : List Level) (order : Int → String → List Action → List Action)
    (hord : ∀ s a acts x, x ∈ order s a acts → x ∈ acts) (T : Table) (verdict : Verdict)
    (hb : build k g fuel = .ok b) (hr : resolveAll ls order b.table = .ok (T, verdict))
    (w : List String) (hend : endmarker ∉ w) (fuel' : Nat) (hf : (2 * R + 1) * w.length < fuel') :
    parse T.toTbl fuel' w ≠ Outcome.diverge :=
  parse_terminates
    (soundTable_of_within g b T (C11_built_tables_valid k g hv fuel b hb)
      (resolveAll_within ls order b.table hord (T, verdict) hr)) hn w hend fuel' hf

set_option maxRecDepth 1000000 in
/-- why `C11_terminates_partial` cannot simply be extended to grammars with ε-productions "but no cycles" on the basis of
the soundness validator: `Y → A Y c | d`, `A → ε` has no cycle, its three tables are validated, the levels `[A → ε] > d`
resolve every conflict — and the resolved driver reduces by `A → ε` for ever on the input `d` (still running after 300
steps, where the ε-free bound would be `(2R+1)·1`).  Termination for ε-grammars therefore needs conflict-freeness of
the RAW table plus the top-down "valid item" (viable prefix) invariant — every item of a state is reachable from
`S′ → •S` along the stack — which neither validator group provides (the soundness group justifies items bottom-up
only, the completeness group is about items that must be present, not about items that may be present); with it the
number of reductions between two shifts is bounded because the stack then is a prefix of a sentential form of a
cycle-free grammar.  (Proved since: `C11_terminates` in §11 rests on exactly that invariant, `Term.TD` / `Term.wv_cover`.) -/
theorem C11_termination_needs_conflict_freeness :
    loops .slr = true ∧ loops .lalr = true ∧ loops .lr1 = true := by decide

/-- the expression grammar `E → E + E | E * E | id`: no ε-production, no unit production at all -/
example : NoEpsUnitCycle
    { terms := ["id", "+", "*"], nonterms := ["E"], start := "E",
      prods := [⟨"E", [.nonterm "E", .term "+", .nonterm "E"]⟩, ⟨"E", [.nonterm "E", .term "*", .nonterm "E"]⟩,
                ⟨"E", [.term "id"]⟩] } (fun _ => 0) 1 := by
  refine ⟨?_, ?_, ?_⟩ <;> intro p hp <;> simp at hp <;> rcases hp with rfl | rfl | rfl <;> simp

/-! ## 5. completeness and exactness on validated tables -/

/-
Full statement (`C11_complete`): for every reduced grammar `g`, every construction `k` whose table `b.table` is
conflict-free, and every `w`:   `Language g w → ∃ fuel π root, parse b.table.toTbl fuel w = .ok (.accept π root)`.
Proved: this for every table — SLR(1), LALR(1) or canonical LR(1) — that passes the executable completeness validator
`Spec.completeOKFor k` (conflict-free; initial item in state 0; item sets closed under CLOSURE; nullable, FIRST (and,
for SLR, FOLLOW) closed under the productions; a transition for every symbol after a dot into a state holding the
advanced item; a reduce/accept action for every complete item on each of its lookaheads / on FOLLOW of its head) — in
the stronger form: the driver returns the sentence's derivation tree as AST and emits its productions bottom-up (so
a grammar with such a table is unambiguous).  The validator is evaluated on the Model's table of every generated
case (`check` op: a conflict-free table that fails it prints `ok invalid completeness-validator`), and the Model's table
and item sets are compared byte for byte with the implementation's.
The link `∀ g reduced, build k g fuel = .ok b → conflict-free → completeOKFor k g b = true` that was missing here is now
proved for all three constructions (§8: `C11_exact_slr`, `C11_exact_lr1`; §9: `C11_exact_lalr`, `C11_built_lalr_complete`),
so `C11_complete` / `C11_exact` hold without the validator hypothesis (`C11_exact` in §10); the validated form below is
kept (it needs neither well-formedness nor productivity of the grammar, and is what the per-case `check` op instantiates).
-/
theorem C11_complete_validated (k : Kind) (g : SGrammar) (b : Built) (hc : completeOKFor k g b = true)
    (w : List String) (hw : Language g w) :
    ∃ fuel t, derivesT g t (Sym.nonterm g.start) ∧ t.yield = w ∧
      parse b.table.toTbl fuel w = .ok (.accept (postT t) t) := by
  cases k with
  | slr =>
    obtain ⟨nl, fe, fo, hC⟩ := completeTable0_of_check g b hc
    exact complete_language0 hC w hw
  | lalr =>
    obtain ⟨g', nl, fe, hC, _⟩ := completeTable_of_check g b hc
    exact complete_language hC w hw
  | lr1 =>
    obtain ⟨g', nl, fe, hC, _⟩ := completeTable_of_check g b hc
    exact complete_language hC w hw

/-- "accepts exactly L(G)": for every well-formed grammar and every table of the Model (any construction) that passes
the completeness validator, the driver accepts `w` (for some, hence every larger, amount of fuel) iff `w ∈ L(g)`. -/
theorem C11_exact_validated (k : Kind) (g : SGrammar) (hv : ValidG g) (fuel : Nat) (b : Built)
    (hb : build k g fuel = .ok b) (hc : completeOKFor k g b = true) (w : List String) (hend : endmarker ∉ w) :
    Language g w ↔ ∃ fuel' π root, parse b.table.toTbl fuel' w = .ok (.accept π root) := by
  constructor
  · intro hw
    obtain ⟨f, t, _, _, hp⟩ := C11_complete_validated k g b hc w hw
    exact ⟨f, _, _, hp⟩
  · rintro ⟨f, π, root, hp⟩
    exact (C11_sound g b b.table (C11_built_tables_valid k g hv fuel b hb) (within_refl _) w hend f π root hp).2.1

/-- all validated constructions accept the same strings (the second half of the inclusion-chain conjunct) -/
theorem C11_agree_validated (k₁ k₂ : Kind) (g : SGrammar) (hv : ValidG g) (f₁ f₂ : Nat) (b₁ b₂ : Built)
    (hb₁ : build k₁ g f₁ = .ok b₁) (hb₂ : build k₂ g f₂ = .ok b₂)
    (hc₁ : completeOKFor k₁ g b₁ = true) (hc₂ : completeOKFor k₂ g b₂ = true) (w : List String) (hend : endmarker ∉ w) :
    (∃ fuel π root, parse b₁.table.toTbl fuel w = .ok (.accept π root)) ↔
    (∃ fuel π root, parse b₂.table.toTbl fuel w = .ok (.accept π root)) :=
  (C11_exact_validated k₁ g hv f₁ b₁ hb₁ hc₁ w hend).symm.trans (C11_exact_validated k₂ g hv f₂ b₂ hb₂ hc₂ w hend)

/-- the success chain, in validated form: if the per-run certificate `Spec.chainCert` holds between the SLR(1) and
the LALR(1) table and between the LALR(1) and the LR(1) table of a grammar (mapping states by kernel cores, every
action of the finer table is present in the corresponding cell of the coarser one: per-core lookahead inclusion),
then LALR is conflict-free whenever SLR is, and LR(1) whenever LALR is.  The certificate is evaluated by the driver
(`chain` op) on the three tables of every generated grammar.
The unconditional chain is `C11_chain` (§10), proved directly from the item sets (LALR lookaheads ⊆ FOLLOW, LR(1) states ⊆
closures of LALR kernels) rather than through this certificate; the validated form is kept. -/
theorem C11_chain_validated (bS bL bC : Built) (h1 : chainCert bS bL = true) (h2 : chainCert bL bC = true) :
    (chkConflictFree bS.table = true → chkConflictFree bL.table = true) ∧
    (chkConflictFree bL.table = true → chkConflictFree bC.table = true) :=
  ⟨AlgoVerif.C11.Chain.conflictFree_of_cert bS bL h1, AlgoVerif.C11.Chain.conflictFree_of_cert bL bC h2⟩

set_option maxRecDepth 1000000 in
/-- the certificate holds between the tables of the dragon-book grammar `S → L = R | R` … (SLR has a conflict there,
LALR and LR(1) have none), so the theorem's hypotheses are satisfiable on a grammar where the constructions differ -/
theorem C11_chain_witness :
    (match build .slr gLR 60, build .lalr gLR 60, build .lr1 gLR 60 with
     | .ok a, .ok b, .ok c =>
       chainCert a b && chainCert b c && !chkConflictFree a.table && chkConflictFree b.table && chkConflictFree c.table
     | _, _, _ => false) = true := by decide

set_option maxRecDepth 1000000 in
/-- the validator accepts the SLR(1), LALR(1) and LR(1) tables of `S → a S b | ε` and the LALR(1) and LR(1) tables of the
D17 grammar (so the three theorems above apply to them) -/
theorem C11_tables_complete_witness :
    (match build .slr gAnBn 40 with | .ok b => completeOKFor .slr gAnBn b | _ => false) = true ∧
    (match build .lalr gAnBn 40 with | .ok b => completeOKFor .lalr gAnBn b | _ => false) = true ∧
    (match build .lr1 gAnBn 40 with | .ok b => completeOKFor .lr1 gAnBn b | _ => false) = true ∧
    (match build .lalr g17 40 with | .ok b => completeOKFor .lalr g17 b | _ => false) = true ∧
    (match build .lr1 g17 40 with | .ok b => completeOKFor .lr1 g17 b | _ => false) = true := by decide

/-! ### the hypotheses are satisfiable, and the D17 witness is handled by the Model of the patched code -/

set_option maxRecDepth 1000000 in
/-- the three tables of the D17 grammar pass the validator (so `C11_sound_validated` applies to them) … -/
theorem C11_D17_tables_validated :
    validated .slr g17 = true ∧ validated .lalr g17 = true ∧ validated .lr1 g17 = true := by decide

set_option maxRecDepth 1000000 in
/-- … and the LALR table of the patched construction rejects `a` and `a a` (which the table built with the old
`findSuperset` accepted) and accepts `a a a`, `a a a a`. -/
theorem C11_D17_witness :
    acceptsWith .lalr g17 ["a"] = some false ∧ acceptsWith .lalr g17 ["a", "a"] = some false ∧
    acceptsWith .lalr g17 ["a", "a", "a"] = some true ∧ acceptsWith .lalr g17 ["a", "a", "a", "a"] = some true := by
  decide

set_option maxRecDepth 1000000 in
example : (acceptTrace .lalr g17 ["a", "a", "a", "a"]).isSome = true := by decide

/-- `C11_sound_validated` at work (all its hypotheses hold on a 6-state LALR table): whatever the Model's LALR parser
emits for `a a a a` is a rightmost derivation of it, and the AST has that yield -/
example (π : List Pr) (root : Tree) (h : acceptTrace .lalr g17 ["a", "a", "a", "a"] = some (π, root)) :
    RightmostDerivation g17 π.reverse ["a", "a", "a", "a"] ∧ root.yield = ["a", "a", "a", "a"] := by
  unfold acceptTrace at h
  split at h
  · rename_i b hb
    split at h
    · rename_i T v hr
      split at h
      · rename_i π' root' hp
        simp only [Option.some.injEq, Prod.mk.injEq] at h
        obtain ⟨rfl, rfl⟩ := h
        have hv : soundOK g17 b = true := by
          have := C11_D17_tables_validated.2.1
          unfold validated at this
          rw [hb] at this
          exact this
        have := C11_sound_validated .lalr g17 40 b [] _ (fun _ _ _ _ h => h) T v hb hv hr _ (by decide) 200 π' root' hp
        exact ⟨this.1, this.2.2⟩
      · simp at h
    · simp at h
  · simp at h

/-! ## 6. grouping by declared precedence: kernel-checked witnesses only -/

set_option maxRecDepth 1000000 in
/-- on `E → E + E | E * E | E ^ E | id` with `^` right > `*` left > `+` left, the resolved SLR(1), LALR(1) and LR(1)
parsers of the Model return exactly the tree the precedence-climbing reference `Spec.climb` prescribes, for a few
expressions that exercise every pair of levels and both associativities (witnesses, not the universal statement;
see the comment below) -/
theorem C11_grouping_witness :
    groupsAsDeclared .slr ["id", "+", "id", "*", "id", "^", "id", "^", "id", "+", "id"] = true ∧
    groupsAsDeclared .lalr ["id", "^", "id", "*", "id", "+", "id", "*", "id"] = true ∧
    groupsAsDeclared .lr1 ["id", "*", "id", "*", "id", "+", "id", "+", "id", "^", "id"] = true ∧
    groupsAsDeclared .slr ["id", "^", "id", "^", "id", "^", "id"] = true ∧
    groupsAsDeclared .slr ["id"] = true := by decide

/-
## 7. stated, not proved (status after §8–§10)

Soundness ("accepts only L(G), with a valid derivation and AST") is proved for all three constructions and all
well-formed grammars; completeness and exactness for every conflict-free table built by any of the three constructions
(§8, §9, `C11_exact` in §10; LALR for grammars with productive non-terminals); the inclusion chain and equal acceptance
(§10); termination for grammars without ε-productions and unit cycles.  Not proved:

* (done: `C11_exact_slr`, `C11_exact_lalr`, `C11_exact_lr1`, `C11_exact`) `C11_complete` / `C11_exact` without the validator
  hypothesis.
* (done: `C11_terminates`, §11) termination for grammars with ε-productions or unit productions.  Still open: fuel
  sufficiency of the builders (`build … ≠ .diverge` for `fuel ≥ defaultFuel g`: finite item universe).
* (done: `C11_never_panics`, §13) `C11_never_panics` for LALR.  The analysis that was recorded here: the two panic points of `ComputeLALR1Kernels` need: (a) `FindItemSet(GOTO(I,X))`
  succeeds — the LR(0) kernel collection returned by `canonicalLoop` is closed under GOTO (it stopped because
  `canonicalNew` found nothing new), CLOSURE/GOTO respect set equality (so the sorted kernels behave like the
  collected ones), and the collection has no two set-equal members; (b) every kernel item has a lookahead entry — by
  induction along the collection order every kernel item is the target of a spontaneous lookahead or of a propagation
  link from an item that has one, which needs the propagation loop to have reached its fixpoint, duplicate-free
  kernels, and FIRST(β·$) ≠ ∅ for every suffix β (true when every non-terminal is productive: the "reduced grammar" of
  the property; for a grammar with an unproductive non-terminal the Go code does dereference a nil set there).
  A conditional form with per-run conditions was considered and rejected: the only decidable conditions that imply
  "no panic" (the kernel state map is closed under GOTO; every kernel item has a lookahead entry after propagation) are
  the two panic tests themselves, evaluated on intermediate values of the builder — running the Model's builder (which
  every `build lalr` line of the correspondence run does, `panic` being a visible outcome) already is that evaluation.
* (done: `C11_chain`, `C11_agree` in §10) Inclusion chain and equal acceptance; the validated forms `C11_chain_validated`
  (per-run certificate `Spec.chainCert`, still evaluated by the driver's `chain` op on every generated grammar) and
  `C11_agree_validated` are kept.
* (done, §11) Termination beyond the ε-free case: see `C11_termination_needs_conflict_freeness` for why the validators do
  not suffice; the missing invariant is `Term.TD`.
* (validated form done: `C11_groups_validated`, `C11_groups_gExpr` in §14) Grouping (`C11_groups_as_declared`): on `E → E op E | id` with every operator listed in a LEFT/RIGHT level, for every
  `w`: the resolved parser accepts `w` iff `Spec.climb ls w = some e`, and then its AST is `e`.  Proved: the per-cell
  content (`C11_compare_rule`, `C11_resolve_shift_reduce`: in the state holding `E → E opᵢ E •` on lookahead `opⱼ` the
  resolved action is the declared one), soundness (the AST is a derivation tree with yield `w`), and kernel-evaluated
  witnesses (`C11_grouping_witness`).  Missing: the operator-precedence stack invariant (the operators on the stack
  are strictly increasing in binding strength up to associativity) relating the shift-reduce run to the recursive
  descent of `climb`, and the shape of the automaton of this grammar family for an arbitrary operator list.
All of these are checked as oracles on every generated case (exact bounded language, all strings up to the bound,
the three constructions side by side, both validator groups, precedence-climbing reference), not proved.
-/

/-! ## 8. Exactness for built SLR(1) and canonical LR(1) tables (proofs in `Proofs/C11BuiltComplete*.lean`)

The link that §5 lists as missing is closed for two of the three constructions: every conflict-free table BUILT by
the Model's SLR and canonical LR(1) builders passes the completeness validator (CLOSURE reaches its fixpoint, the
collection is closed under GOTO, nullable/FIRST/FOLLOW are closed under the productions, the fill enters every
shift, goto, reduce and accept), so "accepts exactly L(G)" holds without any per-run validation.  (LALR: §9.) -/

/-- A conflict-free canonical LR(1) table built for a well-formed grammar accepts exactly L(G). -/
theorem C11_exact_lr1 (g : SGrammar) (hv : ValidG g) (ht : AlgoVerif.C11.BuiltComplete.TermsListed g) (fuel : Nat)
    (b : Built) (hb : build .lr1 g fuel = .ok b) (hcf : chkConflictFree b.table = true) (w : List String)
    (hend : endmarker ∉ w) :
    Language g w ↔ ∃ fuel' π root, parse b.table.toTbl fuel' w = .ok (.accept π root) :=
  AlgoVerif.C11.BuiltComplete.C11_exact_lr1 g hv ht fuel b hb hcf w hend

/-- A conflict-free SLR(1) table built for a well-formed grammar accepts exactly L(G). -/
theorem C11_exact_slr (g : SGrammar) (hv : ValidG g) (ht : AlgoVerif.C11.BuiltComplete.TermsListed g) (fuel : Nat)
    (b : Built) (hb : build .slr g fuel = .ok b) (hcf : chkConflictFree b.table = true) (w : List String)
    (hend : endmarker ∉ w) :
    Language g w ↔ ∃ fuel' π root, parse b.table.toTbl fuel' w = .ok (.accept π root) :=
  AlgoVerif.C11.BuiltComplete.C11_exact_slr g hv ht fuel b hb hcf w hend

/-! ## 9. Exactness for built LALR(1) tables (proofs in `Proofs/C11Lalr{Clo,Las,LA,States,Rows,Complete}.lean`)

The last of the three links: every conflict-free table BUILT by the Model's LALR(1) construction — LR(0) kernel
automaton, spontaneous lookaheads and propagation links computed from CLOSURE(`[k, $]`), propagation to a fixpoint,
kernels with their lookaheads, state lookup by `findSuperset` (same core), table fill from the closures — passes the
completeness validator, for every well-formed grammar in which every non-terminal derives a terminal string (the
productive half of "reduced", which the property assumes).  Proof: the finished lookahead table is closed under GOTO
(`Lalr.la_closed`: the dummy-lookahead lemma `Lalr.clo_dummy` with the endmarker as dummy — sound because no FIRST set of
the augmented grammar contains it —, every spontaneous lookahead entered, every link recorded, propagation stopped only
when a pass added nothing), so for every transition the kernel with the right core contains GOTO of the closure;
productivity makes that kernel's core EQUAL to the core of GOTO (`Lalr.superset_found`), which the patched `findSuperset`
requires.  No hypothesis on fuel: the statement is about whatever table `build` returns. -/

/-- A conflict-free LALR(1) table built for a well-formed grammar with productive non-terminals accepts exactly L(G). -/
theorem C11_exact_lalr (g : SGrammar) (hv : ValidG g) (ht : AlgoVerif.C11.BuiltComplete.TermsListed g)
    (hprod : AlgoVerif.C11.Lalr.Productive g) (fuel : Nat)
    (b : Built) (hb : build .lalr g fuel = .ok b) (hcf : chkConflictFree b.table = true) (w : List String)
    (hend : endmarker ∉ w) :
    Language g w ↔ ∃ fuel' π root, parse b.table.toTbl fuel' w = .ok (.accept π root) :=
  AlgoVerif.C11.Lalr.C11_exact_lalr g hv ht hprod fuel b hb hcf w hend

/-- the hypotheses are satisfiable on a grammar that is LALR(1) but not SLR(1) (see also the `example` in
`Proofs/C11LalrDemo.lean`, which applies the theorem to the table the builder returns for it) -/
example : ValidG gLR ∧ AlgoVerif.C11.BuiltComplete.TermsListed gLR ∧ AlgoVerif.C11.Lalr.Productive gLR ∧
    (match build .lalr gLR 60 with | .ok b => chkConflictFree b.table | _ => false) = true :=
  ⟨validG_sound (by decide), AlgoVerif.C11.BuiltComplete.termsListed_sound (by decide),
    AlgoVerif.C11.Lalr.gLR_productive, AlgoVerif.C11.Lalr.gLR_lalr_conflict_free⟩

/-- the validator-level statement behind it: every conflict-free LALR(1) table the Model builds passes
`Spec.completeOKFor .lalr` (so `C11_complete_validated` / `C11_exact_validated` apply to it without running the validator) -/
theorem C11_built_lalr_complete (g : SGrammar) (hv : ValidG g) (ht : AlgoVerif.C11.BuiltComplete.TermsListed g)
    (hprod : AlgoVerif.C11.Lalr.Productive g) (fuel : Nat) (b : Built) (hb : build .lalr g fuel = .ok b)
    (hcf : chkConflictFree b.table = true) : completeOKFor .lalr g b = true :=
  AlgoVerif.C11.Lalr.built_complete_lalr g hv ht hprod fuel b hb hcf

/-- `Productive` cannot be dropped: for `S → B U | E | c B d | c E e`, `B → b y`, `E → b z`, `U → U c` (`U` unproductive) the
LALR(1) table of the Model has no conflict and its parser rejects the sentence `b z` (the canonical LR(1) parser accepts
it).  The property quantifies over reduced grammars, so this is outside its scope, but it is a behaviour of the
patched `findSuperset` worth knowing. -/
theorem C11_exact_lalr_needs_productive :
    (match build .lalr AlgoVerif.C11.Lalr.gUnprod 40 with | .ok b => chkConflictFree b.table | _ => false) = true ∧
    acceptsWith .lalr AlgoVerif.C11.Lalr.gUnprod ["b", "z"] = some false ∧
    acceptsWith .lr1 AlgoVerif.C11.Lalr.gUnprod ["b", "z"] = some true :=
  AlgoVerif.C11.Lalr.unproductive_witness

/-! ## 10. The success chain and equal acceptance, without a certificate (proofs in `Proofs/C11Chain{Fill,Main}.lean`,
`Proofs/C11LalrFollow.lean`, `Proofs/C11Reach.lean`)

A cell of a built table has a conflict iff the items of its row ask for two different kinds of action (`Lalr.cf_of_semCF`,
`Lalr.semCF_of_cf`).  Every LALR(1) row asks for no more than the SLR(1) row holding its cores, because every LALR(1)
lookahead the Model computes lies in FOLLOW of the head of its item (`Lalr.las_follow`, `Lalr.clo_follow`) and every LR(0)
kernel state lies inside an SLR state (`Lalr.lr0_cover`); every canonical LR(1) row asks for no more than the LALR(1) row
whose closure covers it (`Lalr.lr1_cover`, from `Lalr.la_closed`).  For every well-formed grammar, every amount of fuel with
which the builders return; productivity is not needed. -/

/-- SLR(1) success ⇒ LALR(1) success ⇒ canonical LR(1) success ("success" = no conflict in the table before
`ResolveConflicts`, which then returns it unchanged with a nil error: `BuiltComplete.resolveAll_conflictFree`) -/
theorem C11_chain (g : SGrammar) (hv : ValidG g) (ht : AlgoVerif.C11.BuiltComplete.TermsListed g) (fS fL fC : Nat) :
    (∀ bS bL, build .slr g fS = .ok bS → build .lalr g fL = .ok bL →
      chkConflictFree bS.table = true → chkConflictFree bL.table = true) ∧
    (∀ bL bC, build .lalr g fL = .ok bL → build .lr1 g fC = .ok bC →
      chkConflictFree bL.table = true → chkConflictFree bC.table = true) :=
  ⟨fun bS bL hS hL hcf => AlgoVerif.C11.Lalr.chain_slr_lalr g hv ht fS fL bS bL hS hL hcf,
   fun bL bC hL hC hcf => AlgoVerif.C11.Lalr.chain_lalr_lr1 g hv ht fL fC bL bC hL hC hcf⟩

set_option maxRecDepth 1000000 in
/-- the chain at work where the constructions differ: the LALR(1) table of `S → L = R | R …` is conflict-free (the SLR(1)
table is not, `C11_chain_witness`), hence so is whatever table the canonical builder returns -/
example (bC : Built) (hC : build .lr1 gLR 60 = .ok bC) : chkConflictFree bC.table = true := by
  have hw := AlgoVerif.C11.Lalr.gLR_lalr_conflict_free
  split at hw
  · rename_i bL hL
    exact (C11_chain gLR (validG_sound (by decide)) (AlgoVerif.C11.BuiltComplete.termsListed_sound (by decide))
      60 60 60).2 bL bC hL hC hw
  · cases hw

/-- "accepts exactly L(G)" for all three constructions in one statement -/
theorem C11_exact (k : Kind) (g : SGrammar) (hv : ValidG g) (ht : AlgoVerif.C11.BuiltComplete.TermsListed g)
    (hprod : AlgoVerif.C11.Lalr.Productive g) (fuel : Nat)
    (b : Built) (hb : build k g fuel = .ok b) (hcf : chkConflictFree b.table = true) (w : List String)
    (hend : endmarker ∉ w) :
    Language g w ↔ ∃ fuel' π root, parse b.table.toTbl fuel' w = .ok (.accept π root) := by
  cases k with
  | slr => exact C11_exact_slr g hv ht fuel b hb hcf w hend
  | lalr => exact C11_exact_lalr g hv ht hprod fuel b hb hcf w hend
  | lr1 => exact C11_exact_lr1 g hv ht fuel b hb hcf w hend

/-- all successful constructions accept the same strings -/
theorem C11_agree (k₁ k₂ : Kind) (g : SGrammar) (hv : ValidG g) (ht : AlgoVerif.C11.BuiltComplete.TermsListed g)
    (hprod : AlgoVerif.C11.Lalr.Productive g) (f₁ f₂ : Nat) (b₁ b₂ : Built)
    (hb₁ : build k₁ g f₁ = .ok b₁) (hb₂ : build k₂ g f₂ = .ok b₂)
    (hc₁ : chkConflictFree b₁.table = true) (hc₂ : chkConflictFree b₂.table = true)
    (w : List String) (hend : endmarker ∉ w) :
    (∃ fuel π root, parse b₁.table.toTbl fuel w = .ok (.accept π root)) ↔
    (∃ fuel π root, parse b₂.table.toTbl fuel w = .ok (.accept π root)) :=
  (C11_exact k₁ g hv ht hprod f₁ b₁ hb₁ hc₁ w hend).symm.trans (C11_exact k₂ g hv ht hprod f₂ b₂ hb₂ hc₂ w hend)

/-- `C11_agree` on the LALR(1) and LR(1) tables of the dragon-book grammar -/
example (bL bC : Built) (hL : build .lalr gLR 60 = .ok bL) (hC : build .lr1 gLR 60 = .ok bC)
    (hcL : chkConflictFree bL.table = true) (w : List String) (hend : endmarker ∉ w) :
    (∃ fuel π root, parse bL.table.toTbl fuel w = .ok (.accept π root)) ↔
    (∃ fuel π root, parse bC.table.toTbl fuel w = .ok (.accept π root)) :=
  C11_agree .lalr .lr1 gLR (validG_sound (by decide)) (AlgoVerif.C11.BuiltComplete.termsListed_sound (by decide))
    AlgoVerif.C11.Lalr.gLR_productive 60 60 bL bC hL hC hcL
    ((C11_chain gLR (validG_sound (by decide)) (AlgoVerif.C11.BuiltComplete.termsListed_sound (by decide))
      60 60 60).2 bL bC hL hC hcL) w hend

/-! ## 11. Termination on every input, for grammars with ε-productions and unit productions
(proofs in `Proofs/C11Term{Base,Valid,Seq,Main,Built,SLR}.lean`)

`C11_terminates_partial` (§4) bounds the fuel for grammars without ε-productions and unit cycles.  Here: for EVERY
well-formed grammar with productive non-terminals, on a conflict-free table built by any of the three constructions the
driver halts on every token string — no bound on the fuel is given, the argument is by contradiction.  An infinite run
would from some point on consist of reductions only; a combinatorial lemma about such stack sequences (`Term.stack_seq`)
yields two times with (A) the same stack below the top and the same non-terminal on top, with a strictly larger tree, or
(B) a stack that has grown by frames with empty yields over a state that is on top again.  The stack of any run carries
a *witnessed valid* item (`Term.WV`, `Term.wv_cover` — this needs the top-down structure of the built item sets, `Term.TD`,
which neither validator asks for and which is what `C11_termination_needs_conflict_freeness` says is missing), and for
witnessed valid items the completeness theorem (`Complete.proc_tree`) lets one run the driver on a *sentence* into the same
situation: in case (A) the driver reaches the same control state with two different trees (`Term.no_two_trees`), in case (B)
it climbs the ε-frames again and again (`Term.no_eps_growth`) — either way it would not halt on a sentence, contradicting
`Complete.complete_tree`.  SLR(1) tables are treated as tables over LR(1) items `[it, a]`, `a ∈ FOLLOW(head it)`
(`Term.virt`). -/

/-- on a conflict-free table built by any of the three constructions — which `ResolveConflicts` returns unchanged
whatever the precedence levels are — the driver halts on every token string: with some amount of fuel, hence with every
larger amount, `Parse` returns (accept or reject) -/
theorem C11_terminates (k : Kind) (g : SGrammar) (hv : ValidG g) (ht : AlgoVerif.C11.BuiltComplete.TermsListed g)
    (hprod : AlgoVerif.C11.Lalr.Productive g) (fuel : Nat) (b : Built) (hb : build k g fuel = .ok b)
    (hcf : chkConflictFree b.table = true)
    (ls : List Level) (order : Int → String → List Action → List Action) (T : Table) (verdict : Verdict)
    (hr : resolveAll ls order b.table = .ok (T, verdict))
    (w : List String) (hend : endmarker ∉ w) :
    ∃ fuel' r, ∀ fuel'', fuel' ≤ fuel'' → parse T.toTbl fuel'' w = .ok r := by
  have hT : T = b.table := by
    rw [AlgoVerif.C11.BuiltComplete.resolveAll_conflictFree ls order b.table hcf] at hr
    simp only [Outcome.ok.injEq, Prod.mk.injEq] at hr
    exact hr.1.symm
  subst hT
  have : ∃ fuel' r, parse b.table.toTbl fuel' w = .ok r := by
    cases k with
    | slr => exact AlgoVerif.C11.Term.terminates_slr g hv ht hprod fuel b hb hcf w hend
    | lalr => exact AlgoVerif.C11.Term.terminates_lalr g hv ht hprod fuel b hb hcf w hend
    | lr1 => exact AlgoVerif.C11.Term.terminates_lr1 g hv ht hprod fuel b hb hcf w hend
  obtain ⟨f, r, hf⟩ := this
  exact ⟨f, r, fun f' hle => C11_parse_fuel_monotone _ w f f' r hf hle⟩

/-- `S → a S b | ε` (an ε-production: outside the class of `C11_terminates_partial`) has productive non-terminals -/
theorem C11_gAnBn_productive : AlgoVerif.C11.Lalr.Productive gAnBn := by
  intro B hB
  simp only [gAnBn, List.mem_singleton] at hB
  subst hB
  exact ⟨[], by simpa using Derives.single (Step.mk (g := gAnBn) [] [] ⟨"S", []⟩ (by simp [gAnBn]))⟩

/-- `C11_terminates` at work: whatever SLR(1) table the builder returns for `S → a S b | ε` with fuel 40 (it is
conflict-free: `BuiltComplete.built_conflict_free_witness`), the driver halts on every token string -/
example (b : Built) (hb : build .slr gAnBn 40 = .ok b) (w : List String) (hend : endmarker ∉ w) :
    ∃ fuel' r, ∀ fuel'', fuel' ≤ fuel'' → parse b.table.toTbl fuel'' w = .ok r := by
  have hcf : chkConflictFree b.table = true := by
    have := AlgoVerif.C11.BuiltComplete.built_conflict_free_witness.2.1
    rw [hb] at this
    exact this
  exact C11_terminates .slr gAnBn (validG_sound (by decide)) (AlgoVerif.C11.BuiltComplete.termsListed_sound (by decide))
    C11_gAnBn_productive 40 b hb hcf [] (fun _ _ acts => acts) b.table _
    (AlgoVerif.C11.BuiltComplete.resolveAll_conflictFree [] _ b.table hcf) w hend

/-! ## 12. The main conjunct, in one statement -/

/-- For every well-formed grammar `g` whose non-terminals are productive, every construction `k`, every amount of builder
fuel with which `build` returns a table, if that table has no conflict (so `BuildParsingTable` returns it with a nil error,
whatever the precedence levels), then for EVERY token string `w` (without the endmarker): the driver halts; it accepts iff
`w ∈ L(g)`; and whenever it accepts, the productions it emitted, reversed, are a rightmost derivation of `w` and the AST
it returns has yield `w`. -/
theorem C11_main (k : Kind) (g : SGrammar) (hv : ValidG g) (ht : AlgoVerif.C11.BuiltComplete.TermsListed g)
    (hprod : AlgoVerif.C11.Lalr.Productive g) (fuel : Nat) (b : Built) (hb : build k g fuel = .ok b)
    (hcf : chkConflictFree b.table = true)
    (ls : List Level) (order : Int → String → List Action → List Action) (T : Table) (verdict : Verdict)
    (hr : resolveAll ls order b.table = .ok (T, verdict))
    (w : List String) (hend : endmarker ∉ w) :
    (∃ fuel' r, ∀ fuel'', fuel' ≤ fuel'' → parse T.toTbl fuel'' w = .ok r) ∧
    (Language g w ↔ ∃ fuel' π root, parse T.toTbl fuel' w = .ok (.accept π root)) ∧
    (∀ fuel' π root, parse T.toTbl fuel' w = .ok (.accept π root) →
      RightmostDerivation g π.reverse w ∧ root.yield = w) := by
  refine ⟨C11_terminates k g hv ht hprod fuel b hb hcf ls order T verdict hr w hend, ?_, ?_⟩
  · have hT : T = b.table := by
      rw [AlgoVerif.C11.BuiltComplete.resolveAll_conflictFree ls order b.table hcf] at hr
      simp only [Outcome.ok.injEq, Prod.mk.injEq] at hr
      exact hr.1.symm
    subst hT
    exact C11_exact k g hv ht hprod fuel b hb hcf w hend
  · intro fuel' π root hp
    have hT : T = b.table := by
      rw [AlgoVerif.C11.BuiltComplete.resolveAll_conflictFree ls order b.table hcf] at hr
      simp only [Outcome.ok.injEq, Prod.mk.injEq] at hr
      exact hr.1.symm
    subst hT
    have := C11_sound g b b.table (C11_built_tables_valid k g hv fuel b hb) (within_refl _) w hend fuel' π root hp
    exact ⟨this.1, this.2.2⟩

/-- `C11_main` on the LALR(1) table of the dragon-book grammar -/
example (b : Built) (hb : build .lalr gLR 60 = .ok b) (w : List String) (hend : endmarker ∉ w) :
    (∃ fuel' r, ∀ fuel'', fuel' ≤ fuel'' → parse b.table.toTbl fuel'' w = .ok r) ∧
    (Language gLR w ↔ ∃ fuel' π root, parse b.table.toTbl fuel' w = .ok (.accept π root)) := by
  have hcf : chkConflictFree b.table = true := by
    have := AlgoVerif.C11.Lalr.gLR_lalr_conflict_free
    rw [hb] at this
    exact this
  have := C11_main .lalr gLR (validG_sound (by decide)) (AlgoVerif.C11.BuiltComplete.termsListed_sound (by decide))
    AlgoVerif.C11.Lalr.gLR_productive 60 b hb hcf [] (fun _ _ acts => acts) b.table _
    (AlgoVerif.C11.BuiltComplete.resolveAll_conflictFree [] _ b.table hcf) w hend
  exact ⟨this.1, this.2.1⟩

/-! ## 13. The LALR(1) builder never panics (proof in `Proofs/C11Lalr{Uniq,NoPanic}.lean`)

`C11_never_panics_partial` (§2) covers the SLR(1) and canonical LR(1) builders.  The two panic points of
`ComputeLALR1Kernels` (§7) are closed for every well-formed grammar with productive non-terminals: the LR(0) kernel
collection is closed under GOTO, has no two set-equal members and duplicate-free members (so `FindItemSet`/`FindItem`
return the indices the lookahead table is keyed by), and every kernel item receives a lookahead — by induction along the
way the collection was found, spontaneously or through a link from an item that has one. -/

/-- none of the three builders panics, for any amount of fuel (`S′ … S⁗` not all taken) -/
theorem C11_never_panics (k : Kind) (g : SGrammar) (hv : ValidG g) (ht : AlgoVerif.C11.BuiltComplete.TermsListed g)
    (hprod : AlgoVerif.C11.Lalr.Productive g) (fuel : Nat) (h : augStart g ≠ none) :
    build k g fuel ≠ Outcome.panic := by
  cases k with
  | slr => exact np_buildSLR g fuel h
  | lalr => exact AlgoVerif.C11.Lalr.np_buildLALR g hv ht hprod fuel h
  | lr1 => exact np_buildLR1 g fuel h

example : build .lalr gLR 60 ≠ Outcome.panic :=
  C11_never_panics .lalr gLR (validG_sound (by decide)) (AlgoVerif.C11.BuiltComplete.termsListed_sound (by decide))
    AlgoVerif.C11.Lalr.gLR_productive 60 (by decide)

/-- productivity cannot be dropped for LALR: on `S → B U | a`, `B → b`, `U → U c` (`U` unproductive) the LALR(1) builder of
the Model (= the Go code: `lookaheads.Get(item).All()` on a nil set) panics; the SLR(1) builder does not.  Outside the
property's scope (reduced grammars). -/
theorem C11_never_panics_needs_productive :
    (match build .lalr AlgoVerif.C11.Lalr.gUnprod2 40 with | .panic => true | _ => false) = true ∧
    (match build .slr AlgoVerif.C11.Lalr.gUnprod2 40 with | .ok _ => true | _ => false) = true :=
  AlgoVerif.C11.Lalr.unproductive_panic_witness

/-! ## 14. Grouping of whole expressions by declared precedence, in validated form
(proofs in `Proofs/C11Group{,Main,Demo}.lean`)

For the operator grammars `E → E op E | id` the statement of §7 (`C11_groups_as_declared`) is proved for every table that has
the SHAPE of the resolved LR table of such a grammar (`Group.OpTable`, decided by the executable `Group.opTableOK`: state 0,
the state after `id`, after the first operand, and per operator the states after `E op` and `E op E`, where the cell of a
lookahead `op′` holds exactly the action `Spec.declared` prescribes; every other cell rejects): on such a table, for EVERY
token string, the driver accepts iff the precedence-climbing reference `Spec.climb` returns an expression, and the AST is
its tree.  Proof: simulation of `climbExpr`/`climbLoop` by the driver (an operand call pushes the operand's tree; the loop
shifts an operator that binds at least as tightly as the context asks, and otherwise the pending production is reduced —
`Group.declared_strength` turns the declared rule into that comparison), and of the failing calls by rejections.
That the built and resolved tables of an operator grammar have this shape is kernel-evaluated for the witness grammar
(`C11_groups_gExpr`, all three constructions); for an arbitrary operator list it is not proved (it needs the symbolic shape of
`BuildStateMap`'s numbering) — there the precedence-climbing oracle of the harness remains the check. -/

/-- grouping, validated: a table that passes `Group.opTableOK ops ls` parses every token string as `Spec.climb ls` groups it -/
theorem C11_groups_validated (ops : List String) (ls : List Level) (hL : AlgoVerif.C11.Group.LevelsFor ops ls)
    (T : Table) (hok : AlgoVerif.C11.Group.opTableOK ops ls T = true) (w : List String) (hw : endmarker ∉ w) :
    (∀ e, climb ls w = some e →
      ∃ fuel π, parse T.toTbl fuel w = .ok (.accept π (AlgoVerif.C11.Group.treeOf e))) ∧
    (climb ls w = none → ∃ fuel pos, parse T.toTbl fuel w = .ok (.reject pos)) := by
  obtain ⟨C⟩ := AlgoVerif.C11.Group.opTable_of_ok hok
  exact AlgoVerif.C11.Group.group_correct C hL (by decide) w hw

/-- the hypotheses hold for `E → E + E | E * E | E ^ E | id` with `^` right > `*` left > `+` left and each of the three resolved
tables of the Model; hence these parsers group EVERY expression as declared (`C11_grouping_witness` checks five) -/
theorem C11_groups_gExpr (k : Kind) (T : Table)
    (hT : AlgoVerif.C11.Group.resolvedTable k gExpr exprLevels 60 = some T) (w : List String) (hw : endmarker ∉ w) :
    (∀ e, climb exprLevels w = some e →
      ∃ fuel π, parse T.toTbl fuel w = .ok (.accept π (AlgoVerif.C11.Group.treeOf e))) ∧
    (climb exprLevels w = none → ∃ fuel pos, parse T.toTbl fuel w = .ok (.reject pos)) :=
  AlgoVerif.C11.Group.gExpr_groups k T hT w hw

/-- `Group.treeOf` is the AST shape `Demo.treeToExpr` reads back -/
example (e : Expr) : treeToExpr (AlgoVerif.C11.Group.treeOf e) = some e := by
  induction e with
  | id => rfl
  | bin l o r ihl ihr => simp [AlgoVerif.C11.Group.treeOf, treeToExpr, ihl, ihr]

/-- the hypotheses of `C11_groups_validated` are satisfiable: the levels of the witness grammar (the validator's verdict
on its three resolved tables is `Group.gExpr_opTable`, by kernel evaluation) -/
example : AlgoVerif.C11.Group.LevelsFor ["+", "*", "^"] exprLevels := AlgoVerif.C11.Group.exprLevels_for

/-! ## 15. Statements added with the hardening round (`Proofs/C11Hard.lean`)

The Model grew in two places.

(a) `augStart` now follows `AddNewNonTerminal` for start symbols that already end in the primes `augment` appends: the
suffixes are trimmed first (one after the other, in the order of `primeSuffixes`: `S′ ↦ S`, `S″′ ↦ S`, `S′″ ↦ S′`) and
the first of `base′ base″ base‴ base⁗` that is not a non-terminal yet is taken.  The assumption "the start symbol does
not end in a prime" of the earlier rounds is gone; every theorem above holds for the new definition unchanged
(`C11_never_panics*` keep the hypothesis `augStart g ≠ none`, which `C11_augStart_none_iff` turns into "one of the four
candidates is free").

(b) The line protocol has a `parsefail` op (the lexer returns an error that is not `io.EOF` when asked for token number
`k`); its Model is the driver run on `w.take k ++ [bad]` for a token `bad` no table has a column for.
`C11_lexer_failure_never_accepts` is the statement behind it: on any table whose `accept` entries sit in the endmarker
column only (`SoundTable.acceptOK`: every built table, resolved or not), such a run never accepts — it rejects at a token
index `≤ k` (at `k`: the lexer's own error, printed without a position) or, on a table that makes the driver loop, runs out
of fuel. -/

/-- the new start symbol is fresh, and it is the FIRST free one of the candidates `base′ base″ base‴ base⁗` -/
theorem C11_augStart_spec (g : SGrammar) (s' : String) :
    augStart g = some s' ↔
      s' ∉ g.nonterms ∧ ∃ before after, AlgoVerif.C11.Hard.augCandidates g = before ++ s' :: after ∧
        ∀ n ∈ before, n ∈ g.nonterms :=
  AlgoVerif.C11.Hard.augStart_some_iff g s'

/-- `augment` panics (its only panic point) exactly when all four candidates are taken -/
theorem C11_augStart_none_iff (g : SGrammar) :
    augStart g = none ↔ ∀ n ∈ AlgoVerif.C11.Hard.augCandidates g, n ∈ g.nonterms :=
  AlgoVerif.C11.Hard.augStart_none_iff g

/-- the base name, on start symbols that end in primes (what `strings.TrimSuffix` in a loop over the suffixes gives), and
the candidate chosen when earlier ones are taken -/
example :
    augBase { terms := [], nonterms := ["S′"], prods := [], start := "S′" } = "S" ∧
    augBase { terms := [], nonterms := ["S″′"], prods := [], start := "S″′" } = "S" ∧
    augBase { terms := [], nonterms := ["S′″"], prods := [], start := "S′″" } = "S′" ∧
    augBase { terms := [], nonterms := ["′"], prods := [], start := "′" } = "" ∧
    augStart { terms := ["a"], nonterms := ["S′", "S", "S″"], prods := [], start := "S′" } = some "S‴" ∧
    augStart { terms := ["a"], nonterms := ["S", "S′", "S″", "S‴", "S⁗"], prods := [], start := "S" } = none := by
  decide

/-- a failing lexer never leads to acceptance: on a table with `accept` in the endmarker column only, the driver run on
`pre ++ [bad]` (`bad`: a token without a column — the lexer's error after `pre`) does not accept, for any fuel; it
diverges (a looping table) or rejects at a token index `≤ |pre|` -/
theorem C11_lexer_failure_never_accepts (T : Tbl) (pre : List String) (bad : String)
    (hbad : ∀ s, T.cell s bad = [])
    (hacc : ∀ s a, Action.accept ∈ T.cell s a → a = endmarker)
    (hpre : endmarker ∉ pre) (fuel : Nat) :
    parse T fuel (pre ++ [bad]) = .diverge ∨ ∃ i, parse T fuel (pre ++ [bad]) = .ok (.reject i) ∧ i ≤ pre.length :=
  AlgoVerif.C11.Hard.prun_lexInv hbad hacc fuel (AlgoVerif.C11.Hard.lexInv_init pre bad hpre)

/-- the hypotheses are satisfiable on a table that does accept sentences: the LALR table of `S → a S | a a a` (the D17
witness) accepts `a a a`, and rejects `a a a` cut short by a lexer failure after the second token at index 2 -/
example :
    acceptsWith .lalr g17 ["a", "a", "a"] = some true ∧
    acceptsWith .lalr g17 (["a", "a"] ++ ["\x00lexer-error"]) = some false := by
  decide
