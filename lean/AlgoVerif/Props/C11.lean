import AlgoVerif.Proofs.C11Resolve
import AlgoVerif.Proofs.C11NoPanic
import AlgoVerif.Proofs.C11Demo
import AlgoVerif.Proofs.C11Valid
import AlgoVerif.Proofs.C11LalrValid
import AlgoVerif.Proofs.C11Term
import AlgoVerif.Proofs.C11CompleteCheck
import AlgoVerif.Proofs.C11CompleteSLRCheck
import AlgoVerif.Proofs.C11Chain
import AlgoVerif.Proofs.C11BuiltCompleteMain
/-!
# C11 — property theorems

Model: `Model/C11Core.lean` (driver, conflict resolution), `Model/C11.lean` (the three constructions);
Spec: `Spec/C11.lean` (rightmost derivations, the table validator, the declared precedence rule).
-/
open AlgoVerif AlgoVerif.Gram AlgoVerif.C11 AlgoVerif.C11.Spec AlgoVerif.C11.Sound AlgoVerif.C11.NoPanic AlgoVerif.C11.Demo AlgoVerif.C11.Built AlgoVerif.C11.Term AlgoVerif.C11.Complete

/-! ## 0. facts regenerated from the source on every run (`bin/pre-C11`) that the Model relies on -/

/-- the enumerations are declared in the order the Model's constructors assume (`Action`: shift, reduce, accept;
`Assoc`: none, left, right), four primed suffixes are tried for the new start symbol, and the endmarker is one
character outside ASCII (so it sorts after every ASCII terminal name and `%q` never applies to it) -/
theorem C11_generated_facts :
    AlgoVerif.Generated.C11.lr_ActionType_names = ["SHIFT", "REDUCE", "ACCEPT", "ERROR"] ∧
    AlgoVerif.Generated.C11.lr_ActionType_base = 1 ∧
    AlgoVerif.Generated.C11.lr_Associativity_names = ["NONE", "LEFT", "RIGHT"] ∧
    primeSuffixes.length = 4 ∧
    endmarker.toList.length = 1 ∧ endmarker.toList.all (fun c => c.toNat > 127) = true := by decide

/-! ## 1. the decision logic of `PrecedenceLevels.Compare` / `resolveConflict`, for all level lists -/

/-- `Precedence(h)` is the *first* level that lists `h` (so "listed earlier" is well defined) … -/
theorem C11_precedence_first_level (ls : List Level) (h : Handle) (i : Nat) (as : Assoc) :
    precedenceOf ls h = some (i, as) ↔
      ∃ l, ls[i]? = some l ∧ h ∈ l.handles ∧ l.assoc = as ∧ ∀ k, k < i → ∀ m, ls[k]? = some m → h ∉ m.handles := by
  induction ls generalizing i with
  | nil => simp [precedenceOf]
  | cons l ls ih =>
    unfold precedenceOf
    by_cases hm : h ∈ l.handles
    · simp only [hm, if_true, Option.some.injEq, Prod.mk.injEq]
      constructor
      · rintro ⟨rfl, rfl⟩
        exact ⟨l, by simp, hm, rfl, by intro k hk; omega⟩
      · rintro ⟨l', hl', _, has, hfirst⟩
        cases i with
        | zero => simp at hl'; subst hl'; exact ⟨rfl, has⟩
        | succ i => exact absurd hm (hfirst 0 (by omega) l (by simp))
    · simp only [hm, if_false]
      cases hp : precedenceOf ls h with
      | none =>
        simp only [false_iff, reduceCtorEq]
        rintro ⟨l', hl', hmem, has, hfirst⟩
        cases i with
        | zero => simp at hl'; subst hl'; exact hm hmem
        | succ i =>
          have := (ih i).mpr ⟨l', by simpa using hl', hmem, has, fun k hk m hkm => hfirst (k + 1) (by omega) m (by simpa using hkm)⟩
          rw [hp] at this; cases this
      | some r =>
        obtain ⟨i', as'⟩ := r
        simp only [Option.some.injEq, Prod.mk.injEq]
        constructor
        · rintro ⟨rfl, rfl⟩
          obtain ⟨l', hl', hmem, has, hfirst⟩ := (ih i').mp hp
          refine ⟨l', by simpa using hl', hmem, has, ?_⟩
          intro k hk m hkm
          cases k with
          | zero => simp at hkm; subst hkm; exact hm
          | succ k => exact hfirst k (by omega) m (by simpa using hkm)
        · rintro ⟨l', hl', hmem, has, hfirst⟩
          cases i with
          | zero => simp at hl'; subst hl'; exact absurd hmem hm
          | succ i =>
            have := (ih i).mpr ⟨l', by simpa using hl', hmem, has, fun k hk m hkm => hfirst (k + 1) (by omega) m (by simpa using hkm)⟩
            rw [hp] at this
            simp only [Option.some.injEq, Prod.mk.injEq] at this
            exact ⟨by omega, this.2⟩

/-- … and it is `none` exactly for an unlisted handle. -/
theorem C11_precedence_unlisted (ls : List Level) (h : Handle) :
    precedenceOf ls h = none ↔ ∀ l ∈ ls, h ∉ l.handles := by
  induction ls with
  | nil => simp [precedenceOf]
  | cons l ls ih =>
    unfold precedenceOf
    by_cases hm : h ∈ l.handles
    · simp [hm]
    · cases hp : precedenceOf ls h with
      | none => simp [hm, hp] at ih ⊢; exact ih
      | some r => simp [hm, hp] at ih ⊢; exact ih

/-- `C11_compare_rule`: for ALL level lists, productions, terminals and shift targets, `Compare` between the
reduce by `p` and the shift of `a` says: reduce wins (`1`) iff the declared rule says reduce, shift wins (`-1`) iff it
says shift, and it returns an error — never a choice — when the rule gives none (NONE, unlisted handle). -/
theorem C11_compare_rule (ls : List Level) (p : Pr) (a : String) (j : Int) :
    compareAH ls (.reduce p, handleOfProd p) (.shift j, .term a) =
      (match declared ls p a with
       | .reduce => some 1
       | .shift => some (-1)
       | .error => none) := by
  unfold compareAH declared
  have hne : ((Action.reduce p, handleOfProd p) = (Action.shift j, Handle.term a)) = False := by simp
  simp only [hne, if_false, isReduce, isShift, Bool.and_self]
  cases precedenceOf ls (handleOfProd p) with
  | none => simp
  | some r =>
    obtain ⟨i, as⟩ := r
    cases precedenceOf ls (Handle.term a) with
    | none => simp
    | some r' =>
      obtain ⟨k, as'⟩ := r'
      simp only
      by_cases h1 : i < k
      · simp [h1]
      · by_cases h2 : k < i
        · simp [h1, h2]
        · simp only [h1, h2, if_false]
          cases as <;> simp

/-- two handles of the same level have that level's associativity -/
theorem C11_same_level_same_assoc (ls : List Level) (h1 h2 : Handle) (i : Nat) (a1 a2 : Assoc)
    (e1 : precedenceOf ls h1 = some (i, a1)) (e2 : precedenceOf ls h2 = some (i, a2)) : a1 = a2 := by
  obtain ⟨l1, hl1, _, ha1, _⟩ := (C11_precedence_first_level ls h1 i a1).mp e1
  obtain ⟨l2, hl2, _, ha2, _⟩ := (C11_precedence_first_level ls h2 i a2).mp e2
  rw [hl1] at hl2
  simp only [Option.some.injEq] at hl2
  subst hl2
  rw [← ha1, ← ha2]

/-- the same rule with the arguments swapped (`Compare` is antisymmetric on a shift/reduce pair) -/
theorem C11_compare_rule_swapped (ls : List Level) (p : Pr) (a : String) (j : Int) :
    compareAH ls (.shift j, .term a) (.reduce p, handleOfProd p) =
      (match declared ls p a with
       | .reduce => some (-1)
       | .shift => some 1
       | .error => none) := by
  unfold compareAH declared
  have hne : ((Action.shift j, Handle.term a) = (Action.reduce p, handleOfProd p)) = False := by simp
  simp only [hne, if_false, isReduce, isShift, Bool.and_self]
  cases e1 : precedenceOf ls (handleOfProd p) with
  | none => cases precedenceOf ls (Handle.term a) <;> simp
  | some r =>
    obtain ⟨i, as⟩ := r
    cases e2 : precedenceOf ls (Handle.term a) with
    | none => simp
    | some r' =>
      obtain ⟨k, as'⟩ := r'
      simp only
      by_cases h1 : i < k
      · have : ¬ k < i := by omega
        simp [h1, this]
      · by_cases h2 : k < i
        · simp [h1, h2]
        · have hik : i = k := by omega
          subst hik
          have has : as = as' := C11_same_level_same_assoc ls _ _ i as as' e1 e2
          subst has
          simp only [h1, if_false]
          cases as <;> simp

/-- `resolveConflict` on a shift/reduce cell follows the declared rule, whichever of the two actions the
(shuffled) set iteration delivers first -/
theorem C11_resolve_shift_reduce (ls : List Level) (p : Pr) (a : String) (j : Int) :
    resolveConflict ls a [.reduce p, .shift j] = .ok (chosen (declared ls p a) p j) ∧
    resolveConflict ls a [.shift j, .reduce p] = .ok (chosen (declared ls p a) p j) := by
  have hself1 : compareAH ls (Action.reduce p, handleOfProd p) (Action.reduce p, handleOfProd p) = some 0 := by
    simp [compareAH]
  have hself2 : compareAH ls (Action.shift j, Handle.term a) (Action.shift j, Handle.term a) = some 0 := by
    simp [compareAH]
  have h1 := C11_compare_rule_swapped ls p a j
  have h2 := C11_compare_rule ls p a j
  cases hd : declared ls p a <;> rw [hd] at h1 h2 <;> simp only at h1 h2 <;>
    constructor <;>
    simp [resolveConflict, pairUp, handleOfAction, maxLoop, hself1, hself2, h1, h2, chosen]

example : declared [⟨.left, [.term "*"]⟩, ⟨.left, [.term "+"]⟩]
    ⟨"E", [.nonterm "E", .term "*", .nonterm "E"]⟩ "+" = .reduce := by decide
example : declared [⟨.right, [.term "^"]⟩] ⟨"E", [.nonterm "E", .term "^", .nonterm "E"]⟩ "^" = .shift := by decide
example : declared [⟨.none, [.term "<"]⟩] ⟨"E", [.nonterm "E", .term "<", .nonterm "E"]⟩ "<" = .error := by decide

/-! ## 2. never panics -/

/-- the resolution of a conflict never panics, for every level list, every non-empty cell and EVERY order in
which the unordered action set is traversed (`acts` is that order).  Before the D18 patch this was false:
`resolveConflict ls "$" [.accept, .reduce p]` dereferenced the nil handle of ACCEPT. -/
theorem C11_resolve_never_panics (ls : List Level) (a : String) (acts : List Action) (hne : acts ≠ []) :
    resolveConflict ls a acts ≠ Outcome.panic :=
  resolveConflict_no_panic ls a acts hne

example : resolveConflict [] endmarker [.accept, .reduce ⟨"S", []⟩] = .ok none := by decide

/-- `ResolveConflicts` (all cells) never panics either, whatever the per-cell iteration orders are, as long as
an order does not drop all actions of a cell -/
theorem C11_resolveAll_never_panics (ls : List Level) (order : Int → String → List Action → List Action)
    (hord : ∀ s a acts, acts ≠ [] → order s a acts ≠ []) (T : Table) :
    resolveAll ls order T ≠ Outcome.panic := by
  unfold resolveAll
  split
  · simp
  · suffices h : ∀ (es : List ((Int × String) × List Action)) (acc : Table × Verdict),
        resolveCells ls order es acc ≠ Outcome.panic from h _ _
    intro es
    induction es with
    | nil => intro acc; simp [resolveCells]
    | cons e es ih =>
      intro acc
      unfold resolveCells
      split
      · exact ih acc
      · rename_i hlen
        have hne : e.2 ≠ [] := by
          intro h; rw [h] at hlen; simp at hlen
        have := resolveConflict_no_panic ls e.1.2 (order e.1.1 e.1.2 e.2) (hord _ _ _ hne)
        cases hr : resolveConflict ls e.1.2 (order e.1.1 e.1.2 e.2) with
        | panic => exact absurd hr this
        | diverge => simp
        | ok o => cases o <;> simp <;> exact ih _

/-
Full statement (`C11_never_panics`): for every reduced grammar `g` and every `fuel`,
    `build k g fuel ≠ .panic`  for `k ∈ {slr, lalr, lr1}`,  and with enough fuel `≠ .diverge`.
Proved below for SLR and canonical LR(1) (their Models have no panic point besides the exhaustion of the primed
names `S′ … S⁗` in `augment`), and for the conflict resolution of all three (above).  Missing: LALR — see the analysis
of its two panic points in section 7; and no-divergence of the builders.
Both are checked on every generated grammar by the correspondence run (a `panic`/`hang` line would differ from
the implementation's or be objected to by the harness).
-/
theorem C11_never_panics_partial (g : SGrammar) (fuel : Nat) (h : augStart g ≠ none) :
    buildSLR g fuel ≠ Outcome.panic ∧ buildLR1 g fuel ≠ Outcome.panic :=
  ⟨np_buildSLR g fuel h, np_buildLR1 g fuel h⟩

example : augStart { terms := ["a"], nonterms := ["S"], prods := [⟨"S", [.term "a"]⟩], start := "S" } ≠ none := by
  decide

/-! ## 3. soundness: `lr_stack_invariant` ⇒ `C11_sound` -/

/-- `lr_stack_invariant`, restated: on a table whose actions are justified by the item sets `items`
(`SoundTable`), whenever the frames of the stack form a chain of table transitions, every item `A → α•β` of the top
state has `α` as the top `|α|` symbols of the stack, and `A → •αβ` lies in the state below them. -/
theorem C11_lr_stack_invariant {g : SGrammar} {start' : String} {items : Int → List Item} {T : Tbl}
    (hT : SoundTable g start' items T) (fr : List Frame) (it : Item)
    (hch : Chain items fr) (hit : it ∈ items (topOf fr)) :
    it.dot ≤ fr.length ∧ symsOf (fr.take it.dot) = it.prod.body.take it.dot ∧
      ∃ j ∈ items (topOf (fr.drop it.dot)), j.prod = it.prod ∧ j.dot = 0 :=
  lr_stack_invariant hT it.dot fr it hch hit rfl

/-- `C11_sound` for the driver: on ANY table that passes the validator's soundness conditions — and on any table
obtained from it by deleting actions, such as the table after `ResolveConflicts` — for EVERY token string `w`
(not containing the endmarker) and every amount of fuel: if `Parse` accepts and emits `π`, then `π` reversed is a
rightmost derivation of `w` from the start symbol, and the AST returned by `ParseAndBuildAST` has yield `w`. -/
theorem C11_sound (g : SGrammar) (b : Built) (T : Table)
    (hv : soundOK g b = true) (hw : Within b.table T)
    (w : List String) (hend : endmarker ∉ w) (fuel : Nat) (π : List Pr) (root : Tree)
    (h : parse T.toTbl fuel w = .ok (.accept π root)) :
    RightmostDerivation g π.reverse w ∧ Language g w ∧ root.yield = w := by
  have hs := parse_sound (soundTable_of_within g b T hv hw) w hend fuel π root h
  refine ⟨hs.1, ?_, hs.2⟩
  -- a rightmost derivation is a derivation
  have aux : ∀ (π : List Pr) (α β : List Sy), RDeriv g π α β → Derives g α β := by
    intro π α β hd
    induction hd with
    | nil α => exact Derives.refl α
    | cons u v p hp _ ih => exact (Derives.single (Step.mk u (v.map Sym.term) p hp)).trans ih
  exact aux _ _ _ hs.1

/-- every table ANY of the three constructions of the Model returns — for EVERY well-formed grammar and every amount
of fuel — passes the soundness validator: each kernel item of a transition's target comes from an item of its source
(for LALR this is exactly what the same-core condition of the patched `findSuperset` provides), reduce/accept actions
belong to complete items of their state, state 0 is the closure of `S′ → •S` and the only state holding it (an item of
`S′` never receives a lookahead other than the endmarker), and the endmarker is never shifted. -/
theorem C11_built_tables_valid (k : Kind) (g : SGrammar) (hv : ValidG g) (fuel : Nat) (b : Built)
    (hb : build k g fuel = .ok b) : soundOK g b = true := by
  cases k with
  | slr => exact soundOK_buildSLR hv hb
  | lalr => exact soundOK_buildLALR hv hb
  | lr1 => exact soundOK_buildLR1 hv hb

/-- `C11_sound`, unconditionally, for SLR(1), LALR(1) and canonical LR(1): for every well-formed grammar `g`, fuel,
level list, iteration orders of the conflict resolution and token string `w` without the endmarker: whatever the
driver accepts on the (resolved) table was derived — the emitted productions reversed are a rightmost derivation of
`w`, `w ∈ L(g)`, and the AST's yield is `w`. -/
theorem C11_sound_all (k : Kind) (g : SGrammar) (hv : ValidG g) (fuel : Nat) (b : Built)
    (ls : List Level) (order : Int → String → List Action → List Action)
    (hord : ∀ s a acts x, x ∈ order s a acts → x ∈ acts) (T : Table) (verdict : Verdict)
    (hb : build k g fuel = .ok b) (hr : resolveAll ls order b.table = .ok (T, verdict))
    (w : List String) (hend : endmarker ∉ w) (fuel' : Nat) (π : List Pr) (root : Tree)
    (h : parse T.toTbl fuel' w = .ok (.accept π root)) :
    RightmostDerivation g π.reverse w ∧ Language g w ∧ root.yield = w :=
  C11_sound g b T (C11_built_tables_valid k g hv fuel b hb)
    (resolveAll_within ls order b.table hord (T, verdict) hr) w hend fuel' π root h

example : ValidG g17 := validG_sound (by decide)

/-- the same with the validator's verdict as a hypothesis instead of `ValidG` (kept: it is the form the per-case
`check` op of the driver instantiates, and it does not need the grammar to be well formed) -/
theorem C11_sound_validated (k : Kind) (g : SGrammar) (fuel : Nat) (b : Built) (ls : List Level)
    (order : Int → String → List Action → List Action) (hord : ∀ s a acts x, x ∈ order s a acts → x ∈ acts)
    (T : Table) (verdict : Verdict)
    (hb : build k g fuel = .ok b) (hv : soundOK g b = true)
    (hr : resolveAll ls order b.table = .ok (T, verdict))
    (w : List String) (hend : endmarker ∉ w) (fuel' : Nat) (π : List Pr) (root : Tree)
    (h : parse T.toTbl fuel' w = .ok (.accept π root)) :
    RightmostDerivation g π.reverse w ∧ Language g w ∧ root.yield = w := by
  have _ := hb
  exact C11_sound g b T hv (resolveAll_within ls order b.table hord (T, verdict) hr) w hend fuel' π root h

/-- fuel is only a technicality: once `parse` returns with some fuel it returns the same with any larger fuel
(so `hang` lines of the driver mean the Go loop would not return either) -/
theorem C11_parse_fuel_monotone (T : Tbl) (w : List String) (n m : Nat) (r : PResult)
    (h : parse T n w = .ok r) (hnm : n ≤ m) : parse T m w = .ok r := by
  unfold parse at *
  suffices aux : ∀ (n : Nat) (st : PState) (m : Nat), n ≤ m → prun T n st = .ok r → prun T m st = .ok r from
    aux n _ m hnm h
  intro n
  induction n with
  | zero => intro st m _ h; simp [prun] at h
  | succ n ih =>
    intro st m hm h
    cases m with
    | zero => omega
    | succ m =>
      unfold prun at h ⊢
      cases hs : pstep T st with
      | inl st' => rw [hs] at h; simp only; exact ih st' m (by omega) h
      | inr r' => rw [hs] at h; simpa using h

/-! ## 4. termination (fuel sufficiency) -/

/-
Full statement (`C11_terminates`): for every reduced grammar `g`, every construction `k` and conflict-free table,
there is a bound `B(g, |w|)` such that `parse T.toTbl fuel w ≠ .diverge` for every `w` and every `fuel ≥ B`.
Proved: this for every grammar without ε-productions whose unit productions decrease a rank (= no unit cycles),
for ALL three constructions, with or without conflicts and precedence resolution, with the explicit bound
`(2·R + 1)·|w| + 1` (at most `|w|` shifts and `2·R·|w|` reductions, because the productions emitted so far always
are a rightmost derivation of the input from the current sentential form, and every derivation step increases a
potential bounded by `2·R·|w|`).
Missing: grammars with ε-productions / unit cycles (there a conflict-free table still cannot loop, but the argument
needs the completeness side: a reduce loop would give two derivation trees for one sentence).
-/
theorem C11_terminates_partial (k : Kind) (g : SGrammar) (hv : ValidG g) (rank : String → Nat) (R : Nat)
    (hn : NoEpsUnitCycle g rank R) (fuel : Nat) (b : Built)
    (ls : List Level) (order : Int → String → List Action → List Action)
    (hord : ∀ s a acts x, x ∈ order s a acts → x ∈ acts) (T : Table) (verdict : Verdict)
    (hb : build k g fuel = .ok b) (hr : resolveAll ls order b.table = .ok (T, verdict))
    (w : List String) (hend : endmarker ∉ w) (fuel' : Nat) (hf : (2 * R + 1) * w.length < fuel') :
    parse T.toTbl fuel' w ≠ Outcome.diverge :=
  parse_terminates
    (soundTable_of_within g b T (C11_built_tables_valid k g hv fuel b hb)
      (resolveAll_within ls order b.table hord (T, verdict) hr)) hn w hend fuel' hf

set_option maxRecDepth 1000000 in
/-- why `C11_terminates_partial` cannot simply be extended to grammars with ε-productions "but no cycles" on the basis of
the soundness validator: `Y → A Y c | d`, `A → ε` has no cycle, its three tables are validated, the levels `[A → ε] > d`
resolve every conflict — and the resolved driver reduces by `A → ε` for ever on the input `d` (still running after 300
steps, where the ε-free bound would be `(2R+1)·1`).  Termination for ε-grammars therefore needs conflict-freeness of
the RAW table plus the top-down "valid item" (viable prefix) invariant — every item of a state is reachable from
`S′ → •S` along the stack — which neither validator group provides (the soundness group justifies items bottom-up
only, the completeness group is about items that must be present, not about items that may be present); with it the
number of reductions between two shifts is bounded because the stack then is a prefix of a sentential form of a
cycle-free grammar.  Stated, not proved. -/
theorem C11_termination_needs_conflict_freeness :
    loops .slr = true ∧ loops .lalr = true ∧ loops .lr1 = true := by decide

/-- the expression grammar `E → E + E | E * E | id`: no ε-production, no unit production at all -/
example : NoEpsUnitCycle
    { terms := ["id", "+", "*"], nonterms := ["E"], start := "E",
      prods := [⟨"E", [.nonterm "E", .term "+", .nonterm "E"]⟩, ⟨"E", [.nonterm "E", .term "*", .nonterm "E"]⟩,
                ⟨"E", [.term "id"]⟩] } (fun _ => 0) 1 := by
  refine ⟨?_, ?_, ?_⟩ <;> intro p hp <;> simp at hp <;> rcases hp with rfl | rfl | rfl <;> simp

/-! ## 5. completeness and exactness on validated tables -/

/-
Full statement (`C11_complete`): for every reduced grammar `g`, every construction `k` whose table `b.table` is
conflict-free, and every `w`:   `Language g w → ∃ fuel π root, parse b.table.toTbl fuel w = .ok (.accept π root)`.
Proved: this for every table — SLR(1), LALR(1) or canonical LR(1) — that passes the executable completeness validator
`Spec.completeOKFor k` (conflict-free; initial item in state 0; item sets closed under CLOSURE; nullable, FIRST (and,
for SLR, FOLLOW) closed under the productions; a transition for every symbol after a dot into a state holding the
advanced item; a reduce/accept action for every complete item on each of its lookaheads / on FOLLOW of its head) — in
the stronger form: the driver returns the sentence's derivation tree as AST and emits its productions bottom-up (so
a grammar with such a table is unambiguous).  The validator is evaluated on the Model's table of every generated
case (`check` op: a conflict-free table that fails it prints `ok invalid completeness-validator`), and the Model's table
and item sets are compared byte for byte with the implementation's.
Missing: `∀ g reduced, build k g fuel = .ok b → conflict-free → completeOKFor k g b = true` (needs: the "until nothing
new" loops ended because a fixpoint was reached — CLOSURE, the collection, LALR propagation, nullable/FIRST/FOLLOW —
and exactness of `FindItemSet`/`findSuperset` on the sorted sets).
-/
theorem C11_complete_validated (k : Kind) (g : SGrammar) (b : Built) (hc : completeOKFor k g b = true)
    (w : List String) (hw : Language g w) :
    ∃ fuel t, derivesT g t (Sym.nonterm g.start) ∧ t.yield = w ∧
      parse b.table.toTbl fuel w = .ok (.accept (postT t) t) := by
  cases k with
  | slr =>
    obtain ⟨nl, fe, fo, hC⟩ := completeTable0_of_check g b hc
    exact complete_language0 hC w hw
  | lalr =>
    obtain ⟨g', nl, fe, hC, _⟩ := completeTable_of_check g b hc
    exact complete_language hC w hw
  | lr1 =>
    obtain ⟨g', nl, fe, hC, _⟩ := completeTable_of_check g b hc
    exact complete_language hC w hw

/-- "accepts exactly L(G)": for every well-formed grammar and every table of the Model (any construction) that passes
the completeness validator, the driver accepts `w` (for some, hence every larger, amount of fuel) iff `w ∈ L(g)`. -/
theorem C11_exact_validated (k : Kind) (g : SGrammar) (hv : ValidG g) (fuel : Nat) (b : Built)
    (hb : build k g fuel = .ok b) (hc : completeOKFor k g b = true) (w : List String) (hend : endmarker ∉ w) :
    Language g w ↔ ∃ fuel' π root, parse b.table.toTbl fuel' w = .ok (.accept π root) := by
  constructor
  · intro hw
    obtain ⟨f, t, _, _, hp⟩ := C11_complete_validated k g b hc w hw
    exact ⟨f, _, _, hp⟩
  · rintro ⟨f, π, root, hp⟩
    exact (C11_sound g b b.table (C11_built_tables_valid k g hv fuel b hb) (within_refl _) w hend f π root hp).2.1

/-- all validated constructions accept the same strings (the second half of the inclusion-chain conjunct) -/
theorem C11_agree_validated (k₁ k₂ : Kind) (g : SGrammar) (hv : ValidG g) (f₁ f₂ : Nat) (b₁ b₂ : Built)
    (hb₁ : build k₁ g f₁ = .ok b₁) (hb₂ : build k₂ g f₂ = .ok b₂)
    (hc₁ : completeOKFor k₁ g b₁ = true) (hc₂ : completeOKFor k₂ g b₂ = true) (w : List String) (hend : endmarker ∉ w) :
    (∃ fuel π root, parse b₁.table.toTbl fuel w = .ok (.accept π root)) ↔
    (∃ fuel π root, parse b₂.table.toTbl fuel w = .ok (.accept π root)) :=
  (C11_exact_validated k₁ g hv f₁ b₁ hb₁ hc₁ w hend).symm.trans (C11_exact_validated k₂ g hv f₂ b₂ hb₂ hc₂ w hend)

/-- the success chain, in validated form: if the per-run certificate `Spec.chainCert` holds between the SLR(1) and
the LALR(1) table and between the LALR(1) and the LR(1) table of a grammar (mapping states by kernel cores, every
action of the finer table is present in the corresponding cell of the coarser one: per-core lookahead inclusion),
then LALR is conflict-free whenever SLR is, and LR(1) whenever LALR is.  The certificate is evaluated by the driver
(`chain` op) on the three tables of every generated grammar.
Missing for the unconditional chain: `∀ g reduced, chainCert (slr) (lalr) ∧ chainCert (lalr) (lr1)` (LALR lookaheads ⊆
FOLLOW, LR(1) lookaheads ⊆ LALR lookaheads per core: exactness of FOLLOW and of the propagation algorithm). -/
theorem C11_chain_validated (bS bL bC : Built) (h1 : chainCert bS bL = true) (h2 : chainCert bL bC = true) :
    (chkConflictFree bS.table = true → chkConflictFree bL.table = true) ∧
    (chkConflictFree bL.table = true → chkConflictFree bC.table = true) :=
  ⟨AlgoVerif.C11.Chain.conflictFree_of_cert bS bL h1, AlgoVerif.C11.Chain.conflictFree_of_cert bL bC h2⟩

set_option maxRecDepth 1000000 in
/-- the certificate holds between the tables of the dragon-book grammar `S → L = R | R` … (SLR has a conflict there,
LALR and LR(1) have none), so the theorem's hypotheses are satisfiable on a grammar where the constructions differ -/
theorem C11_chain_witness :
    (match build .slr gLR 60, build .lalr gLR 60, build .lr1 gLR 60 with
     | .ok a, .ok b, .ok c =>
       chainCert a b && chainCert b c && !chkConflictFree a.table && chkConflictFree b.table && chkConflictFree c.table
     | _, _, _ => false) = true := by decide

set_option maxRecDepth 1000000 in
/-- the validator accepts the SLR(1), LALR(1) and LR(1) tables of `S → a S b | ε` and the LALR(1) and LR(1) tables of the
D17 grammar (so the three theorems above apply to them) -/
theorem C11_tables_complete_witness :
    (match build .slr gAnBn 40 with | .ok b => completeOKFor .slr gAnBn b | _ => false) = true ∧
    (match build .lalr gAnBn 40 with | .ok b => completeOKFor .lalr gAnBn b | _ => false) = true ∧
    (match build .lr1 gAnBn 40 with | .ok b => completeOKFor .lr1 gAnBn b | _ => false) = true ∧
    (match build .lalr g17 40 with | .ok b => completeOKFor .lalr g17 b | _ => false) = true ∧
    (match build .lr1 g17 40 with | .ok b => completeOKFor .lr1 g17 b | _ => false) = true := by decide

/-! ### the hypotheses are satisfiable, and the D17 witness is handled by the Model of the patched code -/

set_option maxRecDepth 1000000 in
/-- the three tables of the D17 grammar pass the validator (so `C11_sound_validated` applies to them) … -/
theorem C11_D17_tables_validated :
    validated .slr g17 = true ∧ validated .lalr g17 = true ∧ validated .lr1 g17 = true := by decide

set_option maxRecDepth 1000000 in
/-- … and the LALR table of the patched construction rejects `a` and `a a` (which the table built with the old
`findSuperset` accepted) and accepts `a a a`, `a a a a`. -/
theorem C11_D17_witness :
    acceptsWith .lalr g17 ["a"] = some false ∧ acceptsWith .lalr g17 ["a", "a"] = some false ∧
    acceptsWith .lalr g17 ["a", "a", "a"] = some true ∧ acceptsWith .lalr g17 ["a", "a", "a", "a"] = some true := by
  decide

set_option maxRecDepth 1000000 in
example : (acceptTrace .lalr g17 ["a", "a", "a", "a"]).isSome = true := by decide

/-- `C11_sound_validated` at work (all its hypotheses hold on a 6-state LALR table): whatever the Model's LALR parser
emits for `a a a a` is a rightmost derivation of it, and the AST has that yield -/
example (π : List Pr) (root : Tree) (h : acceptTrace .lalr g17 ["a", "a", "a", "a"] = some (π, root)) :
    RightmostDerivation g17 π.reverse ["a", "a", "a", "a"] ∧ root.yield = ["a", "a", "a", "a"] := by
  unfold acceptTrace at h
  split at h
  · rename_i b hb
    split at h
    · rename_i T v hr
      split at h
      · rename_i π' root' hp
        simp only [Option.some.injEq, Prod.mk.injEq] at h
        obtain ⟨rfl, rfl⟩ := h
        have hv : soundOK g17 b = true := by
          have := C11_D17_tables_validated.2.1
          unfold validated at this
          rw [hb] at this
          exact this
        have := C11_sound_validated .lalr g17 40 b [] _ (fun _ _ _ _ h => h) T v hb hv hr _ (by decide) 200 π' root' hp
        exact ⟨this.1, this.2.2⟩
      · simp at h
    · simp at h
  · simp at h

/-! ## 6. grouping by declared precedence: kernel-checked witnesses only -/

set_option maxRecDepth 1000000 in
/-- on `E → E + E | E * E | E ^ E | id` with `^` right > `*` left > `+` left, the resolved SLR(1), LALR(1) and LR(1)
parsers of the Model return exactly the tree the precedence-climbing reference `Spec.climb` prescribes, for a few
expressions that exercise every pair of levels and both associativities (witnesses, not the universal statement;
see the comment below) -/
theorem C11_grouping_witness :
    groupsAsDeclared .slr ["id", "+", "id", "*", "id", "^", "id", "^", "id", "+", "id"] = true ∧
    groupsAsDeclared .lalr ["id", "^", "id", "*", "id", "+", "id", "*", "id"] = true ∧
    groupsAsDeclared .lr1 ["id", "*", "id", "*", "id", "+", "id", "+", "id", "^", "id"] = true ∧
    groupsAsDeclared .slr ["id", "^", "id", "^", "id", "^", "id"] = true ∧
    groupsAsDeclared .slr ["id"] = true := by decide

/-
## 7. stated, not proved

Soundness ("accepts only L(G), with a valid derivation and AST") is proved for all three constructions and all
well-formed grammars; completeness and exactness for every table that passes the completeness validator;
termination for grammars without ε-productions and unit cycles.  Not proved:

* `C11_complete` / `C11_exact` without the validator hypothesis (see section 5).
* `C11_terminates` for grammars with ε-productions or unit cycles, and fuel sufficiency of the builders (`build … ≠
  .diverge` for `fuel ≥ defaultFuel g`: finite item universe).
* `C11_never_panics` for LALR (section 2).  The two panic points of `ComputeLALR1Kernels` need: (a) `FindItemSet(GOTO(I,X))`
  succeeds — the LR(0) kernel collection returned by `canonicalLoop` is closed under GOTO (it stopped because
  `canonicalNew` found nothing new), CLOSURE/GOTO respect set equality (so the sorted kernels behave like the
  collected ones), and the collection has no two set-equal members; (b) every kernel item has a lookahead entry — by
  induction along the collection order every kernel item is the target of a spontaneous lookahead or of a propagation
  link from an item that has one, which needs the propagation loop to have reached its fixpoint, duplicate-free
  kernels, and FIRST(β·$) ≠ ∅ for every suffix β (true when every non-terminal is productive: the "reduced grammar" of
  the property; for a grammar with an unproductive non-terminal the Go code does dereference a nil set there).
  A conditional form with per-run conditions was considered and rejected: the only decidable conditions that imply
  "no panic" (the kernel state map is closed under GOTO; every kernel item has a lookahead entry after propagation) are
  the two panic tests themselves, evaluated on intermediate values of the builder — running the Model's builder (which
  every `build lalr` line of the correspondence run does, `panic` being a visible outcome) already is that evaluation.
* Inclusion chain: proved in validated form (`C11_chain_validated`: the per-run certificate `Spec.chainCert` — per-core
  lookahead inclusion along the kernel-core state map — implies LALR conflict-free whenever SLR is, LR(1) whenever LALR
  is; the driver's `chain` op evaluates it on every generated grammar).  Unconditionally it needs exactness of FOLLOW
  and of the propagation algorithm.  The second half of that conjunct — all successful constructions accept the same
  strings — is `C11_agree_validated`.
* Termination beyond the ε-free case: see `C11_termination_needs_conflict_freeness` for why the validators do not
  suffice and what invariant is missing.
* Grouping (`C11_groups_as_declared`): on `E → E op E | id` with every operator listed in a LEFT/RIGHT level, for every
  `w`: the resolved parser accepts `w` iff `Spec.climb ls w = some e`, and then its AST is `e`.  Proved: the per-cell
  content (`C11_compare_rule`, `C11_resolve_shift_reduce`: in the state holding `E → E opᵢ E •` on lookahead `opⱼ` the
  resolved action is the declared one), soundness (the AST is a derivation tree with yield `w`), and kernel-evaluated
  witnesses (`C11_grouping_witness`).  Missing: the operator-precedence stack invariant (the operators on the stack
  are strictly increasing in binding strength up to associativity) relating the shift-reduce run to the recursive
  descent of `climb`, and the shape of the automaton of this grammar family for an arbitrary operator list.
All of these are checked as oracles on every generated case (exact bounded language, all strings up to the bound,
the three constructions side by side, both validator groups, precedence-climbing reference), not proved.
-/

/-! ## 8. Exactness for built SLR(1) and canonical LR(1) tables (proofs in `Proofs/C11BuiltComplete*.lean`)

The link that §5 lists as missing is closed for two of the three constructions: every conflict-free table BUILT by
the Model's SLR and canonical LR(1) builders passes the completeness validator (CLOSURE reaches its fixpoint, the
collection is closed under GOTO, nullable/FIRST/FOLLOW are closed under the productions, the fill enters every
shift, goto, reduce and accept), so "accepts exactly L(G)" holds without any per-run validation. LALR remains in
validated form (`C11_exact_validated`). -/

/-- A conflict-free canonical LR(1) table built for a well-formed grammar accepts exactly L(G). -/
theorem C11_exact_lr1 (g : SGrammar) (hv : ValidG g) (ht : AlgoVerif.C11.BuiltComplete.TermsListed g) (fuel : Nat)
    (b : Built) (hb : build .lr1 g fuel = .ok b) (hcf : chkConflictFree b.table = true) (w : List String)
    (hend : endmarker ∉ w) :
    Language g w ↔ ∃ fuel' π root, parse b.table.toTbl fuel' w = .ok (.accept π root) :=
  AlgoVerif.C11.BuiltComplete.C11_exact_lr1 g hv ht fuel b hb hcf w hend

/-- A conflict-free SLR(1) table built for a well-formed grammar accepts exactly L(G). -/
theorem C11_exact_slr (g : SGrammar) (hv : ValidG g) (ht : AlgoVerif.C11.BuiltComplete.TermsListed g) (fuel : Nat)
    (b : Built) (hb : build .slr g fuel = .ok b) (hcf : chkConflictFree b.table = true) (w : List String)
    (hend : endmarker ∉ w) :
    Language g w ↔ ∃ fuel' π root, parse b.table.toTbl fuel' w = .ok (.accept π root) :=
  AlgoVerif.C11.BuiltComplete.C11_exact_slr g hv ht fuel b hb hcf w hend
