import AlgoVerif.Generated.Layout

/-! # C15: the state space the Model was written for (written by bin/mklayout, checked on every run)

The hand Model mirrors the Go code's state: the fields of its structs and nothing else (no package-level
variables).  `AlgoVerif.Generated.Layout` is regenerated from /repo by the extractor on every check; the theorems
below pin, for every source file the Model mirrors, the struct types it declares, their fields (name : type) and
the package-level variables it declares.  A new field — a cache, a memoised result, a scratch buffer, a counter —
a new struct type or a new package-level variable is state the Model does not describe: the theorems of
`Props/C15.lean` then no longer speak about the code, the obligation here breaks, and the check searches for
a failing input with the enlarged budget (DESIGN.md §4.6). -/

open AlgoVerif.Generated

-- symboltable/avl.go
theorem C15_layout_types_symboltable_avl : Layout.types_symboltable_avl = ["avlNode", "avl"] := rfl
theorem C15_layout_vars_symboltable_avl : Layout.vars_symboltable_avl = [] := rfl
theorem C15_layout_symboltable_avlNode : Layout.symboltable_avlNode =
    ["key : K", "val : V", "left : *avlNode[K, V]", "right : *avlNode[K, V]", "size : int", "height : int"] := rfl
theorem C15_layout_symboltable_avl : Layout.symboltable_avl =
    ["root : *avlNode[K, V]", "cmpKey : CompareFunc[K]", "eqVal : EqualFunc[V]"] := rfl

-- symboltable/red_black.go
theorem C15_layout_types_symboltable_red_black : Layout.types_symboltable_red_black = ["rbNode", "redBlack"] := rfl
theorem C15_layout_vars_symboltable_red_black : Layout.vars_symboltable_red_black = [] := rfl
theorem C15_layout_symboltable_rbNode : Layout.symboltable_rbNode =
    ["key : K", "val : V", "left : *rbNode[K, V]", "right : *rbNode[K, V]", "size : int", "color : bool"] := rfl
theorem C15_layout_symboltable_redBlack : Layout.symboltable_redBlack =
    ["root : *rbNode[K, V]", "cmpKey : CompareFunc[K]", "eqVal : EqualFunc[V]"] := rfl

-- symboltable/bst.go
theorem C15_layout_types_symboltable_bst : Layout.types_symboltable_bst = ["bstNode", "bst"] := rfl
theorem C15_layout_vars_symboltable_bst : Layout.vars_symboltable_bst = [] := rfl
theorem C15_layout_symboltable_bstNode : Layout.symboltable_bstNode =
    ["key : K", "val : V", "left : *bstNode[K, V]", "right : *bstNode[K, V]", "size : int"] := rfl
theorem C15_layout_symboltable_bst : Layout.symboltable_bst =
    ["root : *bstNode[K, V]", "cmpKey : CompareFunc[K]", "eqVal : EqualFunc[V]"] := rfl
