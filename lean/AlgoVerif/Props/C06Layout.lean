import AlgoVerif.Generated.Layout

/-! # C06: the state space the Model was written for (written by bin/mklayout, checked on every run)

The hand Model mirrors the Go code's state: the fields of its structs and nothing else (no package-level
variables).  `AlgoVerif.Generated.Layout` is regenerated from /repo by the extractor on every check; the theorems
below pin, for every source file the Model mirrors, the struct types it declares, their fields (name : type) and
the package-level variables it declares.  A new field — a cache, a memoised result, a scratch buffer, a counter —
a new struct type or a new package-level variable is state the Model does not describe: the theorems of
`Props/C06.lean` then no longer speak about the code, the obligation here breaks, and the check searches for
a failing input with the enlarged budget (DESIGN.md §4.6). -/

open AlgoVerif.Generated

-- trie/trie.go
theorem C06_layout_types_trie_trie : Layout.types_trie_trie = [] := rfl
theorem C06_layout_vars_trie_trie : Layout.vars_trie_trie = [] := rfl

-- trie/binary.go
theorem C06_layout_types_trie_binary : Layout.types_trie_binary = ["binaryNode", "binary"] := rfl
theorem C06_layout_vars_trie_binary : Layout.vars_trie_binary = [] := rfl
theorem C06_layout_trie_binaryNode : Layout.trie_binaryNode =
    ["char : byte", "val : V", "term : bool", "left : *binaryNode[V]", "right : *binaryNode[V]"] := rfl
theorem C06_layout_trie_binary : Layout.trie_binary =
    ["size : int", "root : *binaryNode[V]", "eqVal : EqualFunc[V]"] := rfl

-- trie/patricia.go
theorem C06_layout_types_trie_patricia : Layout.types_trie_patricia = ["patriciaNode", "patricia"] := rfl
theorem C06_layout_vars_trie_patricia : Layout.vars_trie_patricia = [] := rfl
theorem C06_layout_trie_patriciaNode : Layout.trie_patriciaNode =
    ["bp : int", "key : *bitString", "val : V", "left : *patriciaNode[V]", "right : *patriciaNode[V]"] := rfl
theorem C06_layout_trie_patricia : Layout.trie_patricia =
    ["size : int", "root : *patriciaNode[V]", "eqVal : EqualFunc[V]"] := rfl

-- trie/bitstring.go
theorem C06_layout_types_trie_bitstring : Layout.types_trie_bitstring = ["bitString"] := rfl
theorem C06_layout_vars_trie_bitstring : Layout.vars_trie_bitstring = ["empty", "zero", "one"] := rfl
theorem C06_layout_trie_bitString : Layout.trie_bitString =
    ["bits : []byte", "len : int"] := rfl

-- trie/bitpattern.go
theorem C06_layout_types_trie_bitpattern : Layout.types_trie_bitpattern = ["bitPattern"] := rfl
theorem C06_layout_vars_trie_bitpattern : Layout.vars_trie_bitpattern = [] := rfl
theorem C06_layout_trie_bitPattern : Layout.trie_bitPattern =
    ["(embedded) : *bitString"] := rfl
