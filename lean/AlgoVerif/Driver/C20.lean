import AlgoVerif.Model.C20
/-! Line-protocol component for C20.

One case = one run of a race workload: header `comp=<workload> procs=<GOMAXPROCS> seed=<n> iters=<n> k=<n>`,
a single op `run`.  The Model's line does not depend on procs/seed/iters/k — that is the content of the
property (every schedule) — it is read off the table regenerated from /repo (`Generated/C20.lean`). -/
namespace AlgoVerif.C20.Driver
open AlgoVerif AlgoVerif.C20

def runCase (hdr : List String) (ops : List String) : List String :=
  let w := (headerGet hdr "comp").getD ""
  ops.map fun op =>
    match words op with
    | ["run"] => predictLine w
    | _ => "bad-op"

end AlgoVerif.C20.Driver
