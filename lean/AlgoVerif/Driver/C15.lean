import AlgoVerif.Driver.C01
/-! Line-protocol component for C15: the same state machine as C01 (`height`, `traverse vlr/lvr`
and `dump` are the calls C15's harness uses). -/
namespace AlgoVerif.C15.Driver

def runCase (hdr : List String) (ops : List String) : List String :=
  AlgoVerif.C01.Driver.runCase hdr ops

end AlgoVerif.C15.Driver
