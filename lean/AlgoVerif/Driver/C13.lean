import AlgoVerif.Common
/-! Line-protocol component for C13 — not built yet. -/
namespace AlgoVerif.C13.Driver

def runCase (_hdr : List String) (ops : List String) : List String :=
  ops.map fun _ => "bad-case"

end AlgoVerif.C13.Driver
