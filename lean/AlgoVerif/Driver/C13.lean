import AlgoVerif.Model.C13X
/-!
Line-protocol component for C13.  A case is a little program over named registers holding NFAs/DFAs:

    nfa X <start> <f1,f2|->        add X <s> <a> <t1,t2|->        dfa X <start> <finals>      dadd X <s> <a> <t>
    todfa Y X   tonfa Y X   star Y X   union Y X1 X2 …   concat Y X1 X2 …   min Y X   elim Y X   reidx Y X
    clone Y X   rename Y X <s:t,s:t,…|->   combine Y X1 X2 …   iso X Y   equal X Y   dump X   states X   symbols X
    setstart X <s>   setfinal X <sorted|stable|unordered> <f1,f2|->     (direct field assignment)
    addfinal X <s>   (X.Final.Add(s); `bad-op` once a `setfinal` of the case has made some Final a set that is not sorted)
    acc X       (one bit per word of length ≤ k over the header's alphabet, shortest first)
    accw X <a1,a2,…|->
    next X <s> <a>   (NFA.Next: `nil` or the target list; DFA.Next: the target or -1)
    trans X <k>      (range over X.Transitions(), break when k transitions have been collected)

Every constructing op prints the dump of its result (`n|d start [finals] [s/a/t,t …]`).
-/
namespace AlgoVerif.C13.Driver
open AlgoVerif AlgoVerif.C13

inductive Reg where
  | nfa (n : NFA)
  | dfa (d : DFA)

def parseList (s : String) : Option (List Int) :=
  if s = "-" then some [] else (s.splitOn ",").mapM parseInt?

def showInts (l : List Int) : String := "[" ++ " ".intercalate (l.map toString) ++ "]"

def commaInts (l : List Int) : String := ",".intercalate (l.map toString)

def dumpNFA (n : NFA) : String :=
  let ts := n.trans.flatMap (fun st => st.2.map (fun e => s!"{st.1}/{e.1}/{commaInts e.2}"))
  s!"n {n.start} {showInts (mkSet n.final)} [" ++ " ".intercalate ts ++ "]"

def dumpDFA (d : DFA) : String :=
  let ts := d.trans.flatMap (fun st => st.2.map (fun e => s!"{st.1}/{e.1}/{e.2}"))
  s!"d {d.start} {showInts (mkSet d.final)} [" ++ " ".intercalate ts ++ "]"

def dumpReg : Reg → String
  | .nfa n => dumpNFA n
  | .dfa d => dumpDFA d

/-- all words over `sigma` of length exactly `k`, lexicographic in `sigma` order -/
def wordsOfLen (sigma : List Int) : Nat → List (List Int)
  | 0 => [[]]
  | k + 1 => sigma.flatMap (fun a => (wordsOfLen sigma k).map (fun w => a :: w))

def wordsUpTo (sigma : List Int) (k : Nat) : List (List Int) :=
  (List.range (k + 1)).flatMap (wordsOfLen sigma)

/-- `s:t,s:t,…` (or `-`) -/
def parseRenaming (spec : String) : Option (List (Int × Int)) :=
  if spec = "-" then some [] else
  (spec.splitOn ",").mapM (fun p => match p.splitOn ":" with
    | [a, b] => (match parseInt? a, parseInt? b with | some a, some b => some (a, b) | _, _ => none)
    | _ => none)

/-- later pairs win, as in the Go map the harness fills -/
def applyRenaming (mp : List (Int × Int)) (s : Int) : Int :=
  match mp.reverse.find? (fun p => p.1 == s) with
  | some p => p.2
  | none => s

abbrev Regs := List (String × Reg)

def getReg (rs : Regs) (x : String) : Option Reg := (rs.find? (fun p => p.1 == x)).map (·.2)
def setReg (rs : Regs) (x : String) (r : Reg) : Regs := (x, r) :: rs.filter (fun p => p.1 != x)

def getNFAs (rs : Regs) (xs : List String) : Option (List NFA) :=
  xs.mapM (fun x => match getReg rs x with | some (.nfa n) => some n | _ => none)

def getDFAs (rs : Regs) (xs : List String) : Option (List DFA) :=
  xs.mapM (fun x => match getReg rs x with | some (.dfa d) => some d | _ => none)

/-- result of one op: new registers and the output line; `none` line = panic/hang marker handled by caller -/
inductive Step where
  | out (rs : Regs) (line : String)
  | dead (line : String)

def lift {α : Type} (o : Outcome α) (k : α → Step) : Step :=
  match o with
  | .ok a => k a
  | .panic => .dead "panic"
  | .diverge => .dead "hang"

def bits (bs : List Bool) : String := String.ofList (bs.map (fun b => if b then '1' else '0'))

def accAll (r : Reg) (ws : List (List Int)) : Outcome (List Bool) :=
  match r with
  | .dfa d => .ok (ws.map d.accept)
  | .nfa n => ws.foldl (fun (acc : Outcome (List Bool)) w =>
      match acc with
      | .ok l => (match n.accept w with | .ok b => .ok (l ++ [b]) | .panic => .panic | .diverge => .diverge)
      | o => o) (.ok [])

def step (sigma : List Int) (k : Nat) (unsorted : Bool) (rs : Regs) (line : String) : Step :=
  let bad := Step.out rs "bad-op"
  match words line with
  | ["addfinal", x, v] =>
    -- `X.Final.Add(v)` while every `Final` of the case is a sorted set
    match getReg rs x, parseInt? v with
    | some (.nfa n), some v => if unsorted then bad else .out (setReg rs x (.nfa (n.addFinal v))) "ok"
    | some (.dfa d), some v => if unsorted then bad else .out (setReg rs x (.dfa (d.addFinal v))) "ok"
    | _, _ => bad
  | ["nfa", x, s, f] =>
    match parseInt? s, parseList f with
    | some s, some f => .out (setReg rs x (.nfa (NFA.new s f))) "ok"
    | _, _ => bad
  | ["dfa", x, s, f] =>
    match parseInt? s, parseList f with
    | some s, some f => .out (setReg rs x (.dfa (DFA.new s f))) "ok"
    | _, _ => bad
  | ["add", x, s, a, t] =>
    match getReg rs x, parseInt? s, parseInt? a, parseList t with
    | some (.nfa n), some s, some a, some t => .out (setReg rs x (.nfa (n.add s a t))) "ok"
    | _, _, _, _ => bad
  | ["dadd", x, s, a, t] =>
    match getReg rs x, parseInt? s, parseInt? a, parseInt? t with
    | some (.dfa d), some s, some a, some t => .out (setReg rs x (.dfa (d.add s a t))) "ok"
    | _, _, _, _ => bad
  | ["setstart", x, v] =>
    -- direct assignment of the exported `Start` field
    match getReg rs x, parseInt? v with
    | some (.nfa n), some v => .out (setReg rs x (.nfa { n with start := v })) "ok"
    | some (.dfa d), some v => .out (setReg rs x (.dfa { d with start := v })) "ok"
    | _, _ => bad
  | ["setfinal", x, kind, fs] =>
    -- direct assignment of the exported `Final` field: `sorted` = NewStates, `stable` = set.NewStable (insertion
    -- order), `unordered` = set.New (iteration order unspecified: such cases only compare languages)
    match getReg rs x, parseList fs with
    | some r, some fs =>
      if kind = "sorted" ∨ kind = "stable" ∨ kind = "unordered" then
        let fin := if kind = "sorted" then mkSet fs else fs.foldl (fun acc v => if acc.contains v then acc else acc ++ [v]) []
        match r with
        | .nfa n => .out (setReg rs x (.nfa { n with final := fin })) "ok"
        | .dfa d => .out (setReg rs x (.dfa { d with final := fin })) "ok"
      else bad
    | _, _ => bad
  | ["dump", x] =>
    match getReg rs x with
    | some r => .out rs ("ok " ++ dumpReg r)
    | none => bad
  | ["states", x] =>
    match getReg rs x with
    | some (.nfa n) => .out rs ("ok " ++ showInts n.states)
    | some (.dfa d) => .out rs ("ok " ++ showInts d.states)
    | none => bad
  | ["symbols", x] =>
    match getReg rs x with
    | some (.nfa n) => .out rs ("ok " ++ showInts n.symbols)
    | some (.dfa d) => .out rs ("ok " ++ showInts d.symbols)
    | none => bad
  | ["next", x, s, a] =>
    match getReg rs x, parseInt? s, parseInt? a with
    | some (.nfa n), some s, some a =>
      .out rs ("ok " ++ (match n.nextPub s a with | some nx => showInts nx | none => "nil"))
    | some (.dfa d), some s, some a => .out rs s!"ok {d.next s a}"
    | _, _, _ => bad
  | ["trans", x, k] =>
    match getReg rs x, parseNat? k with
    | some (.nfa n), some k =>
      .out rs ("ok [" ++ " ".intercalate ((n.transPrefix k).map (fun t => s!"{t.1}/{t.2.1}/{commaInts t.2.2}")) ++ "]")
    | some (.dfa d), some k =>
      .out rs ("ok [" ++ " ".intercalate ((d.transPrefix k).map (fun t => s!"{t.1}/{t.2.1}/{t.2.2}")) ++ "]")
    | _, _ => bad
  | ["acc", x] =>
    match getReg rs x with
    | some r => lift (accAll r (wordsUpTo sigma k)) (fun bs => .out rs ("ok " ++ bits bs))
    | none => bad
  | ["accw", x, w] =>
    match getReg rs x, parseList w with
    | some r, some w => lift (accAll r [w]) (fun bs => .out rs ("ok " ++ showBool (bs.headD false)))
    | _, _ => bad
  | ["todfa", y, x] =>
    match getReg rs x with
    | some (.nfa n) => lift n.toDFA (fun d => .out (setReg rs y (.dfa d)) ("ok " ++ dumpDFA d))
    | _ => bad
  | ["tonfa", y, x] =>
    match getReg rs x with
    | some (.dfa d) => .out (setReg rs y (.nfa d.toNFA)) ("ok " ++ dumpNFA d.toNFA)
    | _ => bad
  | ["star", y, x] =>
    match getReg rs x with
    | some (.nfa n) => .out (setReg rs y (.nfa n.star)) ("ok " ++ dumpNFA n.star)
    | _ => bad
  | "union" :: y :: xs =>
    match getNFAs rs xs with
    | some (n :: ns) => .out (setReg rs y (.nfa (NFA.union (n :: ns)))) ("ok " ++ dumpNFA (NFA.union (n :: ns)))
    | _ => bad
  | "concat" :: y :: xs =>
    match getNFAs rs xs with
    | some (n :: ns) => .out (setReg rs y (.nfa (NFA.concat (n :: ns)))) ("ok " ++ dumpNFA (NFA.concat (n :: ns)))
    | _ => bad
  | ["min", y, x] =>
    match getReg rs x with
    | some (.dfa d) => lift d.minimizePartition (fun P =>
        let m := buildMin d P
        -- the marker is never printed by the implementation: an unstable final partition is a mismatch.  A self-check
        -- of the Model (C13_minimize_accepts proves the partition stable for every DFA); cubic, so only up to 64 states
        let marker := if d.states.length ≤ 64 then (if stableB d P then "" else " !unstable-partition") else ""
        .out (setReg rs y (.dfa m)) ("ok " ++ dumpDFA m ++ marker))
    | _ => bad
  | ["elim", y, x] =>
    match getReg rs x with
    | some (.dfa d) => lift d.elimDead (fun m => .out (setReg rs y (.dfa m)) ("ok " ++ dumpDFA m))
    | _ => bad
  | ["reidx", y, x] =>
    match getReg rs x with
    | some (.dfa d) => lift d.reindex (fun m => .out (setReg rs y (.dfa m)) ("ok " ++ dumpDFA m))
    | _ => bad
  | ["clone", y, x] =>
    match getReg rs x with
    | some (.dfa d) => .out (setReg rs y (.dfa d.clone)) ("ok " ++ dumpDFA d.clone)
    | some (.nfa n) => .out (setReg rs y (.nfa n.clone)) ("ok " ++ dumpNFA n.clone)
    | _ => bad
  | ["rename", y, x, spec] =>
    match getReg rs x, parseRenaming spec with
    | some (.nfa n), some mp => .out (setReg rs y (.nfa (n.permuted (applyRenaming mp)))) ("ok " ++ dumpNFA (n.permuted (applyRenaming mp)))
    | some (.dfa d), some mp => .out (setReg rs y (.dfa (d.permuted (applyRenaming mp)))) ("ok " ++ dumpDFA (d.permuted (applyRenaming mp)))
    | _, _ => bad
  | "combine" :: y :: xs =>
    match getDFAs rs xs with
    | some ds => lift (combineDFA ds) (fun r =>
        .out (setReg rs y (.dfa r.1)) ("ok " ++ dumpDFA r.1 ++ " | " ++ " ".intercalate (r.2.map showInts)))
    | none => bad
  | ["iso", x, y] =>
    match getReg rs x, getReg rs y with
    | some (.nfa a), some (.nfa b) => lift (a.isomorphic b) (fun r => .out rs ("ok " ++ showBool r))
    | some (.dfa a), some (.dfa b) => lift (a.isomorphic b) (fun r => .out rs ("ok " ++ showBool r))
    | _, _ => bad
  | ["equal", x, y] =>
    match getReg rs x, getReg rs y with
    | some (.nfa a), some (.nfa b) => .out rs ("ok " ++ showBool (a.equal b))
    | some (.dfa a), some (.dfa b) => .out rs ("ok " ++ showBool (a.equal b))
    | _, _ => bad
  | _ => bad

/-- ops whose output is a structure; in a `quiet=1` case (unordered `Final`) they print `ok` only -/
def quietOps : List String :=
  ["dump", "todfa", "tonfa", "star", "union", "concat", "min", "elim", "reidx", "clone", "rename", "combine"]

/-- did this op assign a `Final` that is not a sorted set?  (`setfinal X stable|unordered …` that was carried out) -/
def setsUnsorted (line out : String) : Bool :=
  match words line with
  | ["setfinal", _, kind, _] => out == "ok" && kind != "sorted"
  | _ => false

def runOps (sigma : List Int) (k : Nat) (quiet : Bool) : Bool → Regs → List String → List String
  | _, _, [] => []
  | unsorted, rs, l :: rest =>
    match step sigma k unsorted rs l with
    | .out rs' o =>
      let o' := if quiet && quietOps.contains ((words l).headD "") && o.startsWith "ok " then "ok" else o
      o' :: runOps sigma k quiet (unsorted || setsUnsorted l o) rs' rest
    | .dead o => o :: rest.map (fun _ => "skip")

def runCase (hdr : List String) (ops : List String) : List String :=
  let sigma := match headerGet hdr "sig" with
    | some s => (parseList s).getD [97, 98]
    | none => [97, 98]
  runOps sigma (headerNat hdr "k" 5) ((headerGet hdr "quiet").isSome) false [] ops

end AlgoVerif.C13.Driver
