import AlgoVerif.Model.C01
/-!
Line-protocol component for C01 and C15 (keys and values are `Int`, `eqVal` is `==`).

Header: `comp=bst|avl|rb cmp=<c> [cmp2=<c>] [cmp3=<c>] [eq=<e>] [eq2=<e>] [eq3=<e>] [dump=1]` with
`<c>` = `asc|desc|diff|diff7|rdiff|rdiff3|abssign|evenodd` (`diff` = `a-b`, `diff7` = `7*(a-b)`, `rdiff` = `b-a`,
`rdiff3` = `3*(b-a)`: comparators that do not return -1/0/+1; `abssign` = by absolute value then sign,
`evenodd` = even keys first) and `<e>` = `id|par|any` (`==`, same parity, always true).  `cmp`/`eq` are the
constructor arguments of table `a`, `cmp2`/`eq2` of table `b`, `cmp3`/`eq3` of table `c` (default: those of
`a`).  Lines that are not a single call of the Model: `dump`; `rangekeep lo hi` (= `range`; the harness keeps
the returned slice and re-reads it after every later call); `alltwice` (one `All()` sequence ranged over
twice), `allnested` (an `All()` loop inside an `All()` loop), `allpull n` (two `iter.Pull2` iterators over
`All()` advanced alternately, the first abandoned after `n` pairs): each prints two listings; `allcount` (the
number of pairs `All()` lists; the harness compares the listing itself with its oracle).  The header words
`kt=int|str` and `vt=int|struct|slice|any` choose the Go types the harness instantiates `K` and `V` with; every key
and value stands for an `Int` and is printed as that `Int`, so they do not concern the Model (generic in `K`, `V`).
With `dump=1` every state-changing call appends
` | <dump of the table it changed>`.  `dump` prints the current table: pre-order
`(key val size L R)` for the BST, `(key val size height L R)` for AVL, `(key val size R|B L R)` for
LLRB, `.` for nil — the format of the hook `symboltable.VerifDump`.
-/
namespace AlgoVerif.C01.Driver
open AlgoVerif AlgoVerif.C01

def eqI (a b : Int) : Bool := eqInt a b

def dumpTree (kind : Kind) : Tree Int Int → String
  | .nil => "."
  | .node l k v s h c r =>
    let extra := match kind with
      | .bst => ""
      | .avl => s!" {h}"
      | .rb => if c then " R" else " B"
    s!"({k} {v} {s}{extra} {dumpTree kind l} {dumpTree kind r})"

def showKVs (l : List (Int × Int)) : String :=
  "[" ++ " ".intercalate (l.map fun (k, v) => s!"{k}:{v}") ++ "]"

def showOut : Out Int Int → String
  | .unit => "ok"
  | .bool b => s!"ok {showBool b}"
  | .nat n => s!"ok {n}"
  | .int i => s!"ok {i}"
  | .optV (some v) => s!"ok some {v}"
  | .optV none => "ok none"
  | .optKV (some (k, v)) => s!"ok some {k} {v}"
  | .optKV none => "ok none"
  | .list l => s!"ok {showKVs l}"
  | .list2 a b => s!"ok {showKVs a} {showKVs b}"

def parseOrder : String → Option Order
  | "vlr" => some .vlr
  | "vrl" => some .vrl
  | "lvr" => some .lvr
  | "rvl" => some .rvl
  | "lrv" => some .lrv
  | "rlv" => some .rlv
  | "ascending" => some .ascending
  | "descending" => some .descending
  | "other" => some .other
  | _ => none

/-- predicate families of the harness; `%` is Go's (truncated) remainder -/
def parsePred : List String → Option (Int → Int → Bool)
  | ["true"] => some fun _ _ => true
  | ["false"] => some fun _ _ => false
  | ["kmod", m, r] => do
    let m ← parseInt? m; let r ← parseInt? r
    if m = 0 then none else some fun k _ => Int.tmod k m == r
  | ["vmod", m, r] => do
    let m ← parseInt? m; let r ← parseInt? r
    if m = 0 then none else some fun _ v => Int.tmod v m == r
  | ["klt", c] => do let c ← parseInt? c; some fun k _ => k < c
  | ["sumlt", c] => do let c ← parseInt? c; some fun k v => k + v < c
  | _ => none

def parseOp (ws : List String) : Option (Op Int Int) :=
  match ws with
  | ["put", k, v] => do some (.put (← parseInt? k) (← parseInt? v))
  | ["delete", k] => do some (.delete (← parseInt? k))
  | ["deletemin"] => some .deleteMin
  | ["deletemax"] => some .deleteMax
  | ["deleteall"] => some .deleteAll
  | ["swap"] => some .swap
  | ["swapc"] => some .swapC
  | ["size"] => some .size
  | ["isempty"] => some .isEmpty
  | ["height"] => some .height
  | ["get", k] => do some (.get (← parseInt? k))
  | ["min"] => some .min
  | ["max"] => some .max
  | ["floor", k] => do some (.floor (← parseInt? k))
  | ["ceiling", k] => do some (.ceiling (← parseInt? k))
  | ["select", i] => do some (.select (← parseInt? i))
  | ["rank", k] => do some (.rank (← parseInt? k))
  | ["range", lo, hi] => do some (.range (← parseInt? lo) (← parseInt? hi))
  | ["rangesize", lo, hi] => do some (.rangeSize (← parseInt? lo) (← parseInt? hi))
  | ["all"] => some .all
  | ["alluntil", lim] => do some (.allUntil (← parseNat? lim))
  | ["equalother"] => some .equalOther
  | ["traverse", o, lim] => do some (.traverse (← parseOrder o) (← parseNat? lim))
  | ["equal"] => some .equal
  | ["equalself"] => some .equalSelf
  | ["rangekeep", lo, hi] => do some (.range (← parseInt? lo) (← parseInt? hi))
  | "anymatch" :: p => do some (.anyMatch (← parsePred p))
  | "allmatch" :: p => do some (.allMatch (← parsePred p))
  | "firstmatch" :: p => do some (.firstMatch (← parsePred p))
  | "selectmatch" :: p => do some (.selectMatch (← parsePred p))
  | "partitionmatch" :: p => do some (.partitionMatch (← parsePred p))
  | _ => none

/-- which table(s) a call changed, for the `dump=1` suffix -/
def dumpSuffix (kind : Kind) (s : State Int Int) : Op Int Int → String
  | .put .. | .delete .. | .deleteMin | .deleteMax | .deleteAll | .swap | .swapC => " | " ++ dumpTree kind s.1.root
  | .selectMatch _ => " | " ++ dumpTree kind s.2.1.root
  | .partitionMatch _ => " | " ++ dumpTree kind s.2.1.root ++ " | " ++ dumpTree kind s.2.2.root
  | _ => ""

def parseCmp : Option String → Option (Int → Int → Int)
  | some "asc" => some cmpAsc
  | some "desc" => some cmpDesc
  | some "diff" => some cmpDiff
  | some "diff7" => some cmpDiff7
  | some "rdiff" => some cmpRDiff
  | some "rdiff3" => some cmpRDiff3
  | some "abssign" => some cmpAbsSign
  | some "evenodd" => some cmpEvenOdd
  | _ => none

def parseEq : Option String → Option (Int → Int → Bool)
  | some "id" => some eqInt
  | some "par" => some eqParity
  | some "any" => some eqAny
  | _ => none

def runCase (hdr : List String) (ops : List String) : List String := Id.run do
  let kind? : Option Kind := match headerGet hdr "comp" with
    | some "bst" => some .bst
    | some "avl" => some .avl
    | some "rb" => some .rb
    | _ => none
  let some kind := kind? | return ops.map fun _ => "bad-case"
  let cmpA := (parseCmp (headerGet hdr "cmp")).getD cmpAsc
  let cmpB := (parseCmp (headerGet hdr "cmp2")).getD cmpA
  let cmpC := (parseCmp (headerGet hdr "cmp3")).getD cmpA
  let eqA := (parseEq (headerGet hdr "eq")).getD eqI
  let eqB := (parseEq (headerGet hdr "eq2")).getD eqA
  let eqC := (parseEq (headerGet hdr "eq3")).getD eqA
  let withDump := headerNat hdr "dump" 0 == 1
  let mut s : State Int Int := (.new cmpA eqA, .new cmpB eqB, .new cmpC eqC)
  let mut dead := false
  let mut out : Array String := #[]
  for line in ops do
    if dead then out := out.push "skip"; continue
    let ws := words line
    if ws == ["dump"] then
      out := out.push ("ok " ++ dumpTree kind s.1.root)
      continue
    if ws == ["alltwice"] || ws == ["allnested"] then
      let l := showKVs (all s.1.root)
      out := out.push s!"ok {l} {l}"
      continue
    if ws == ["allcount"] then
      out := out.push s!"ok {(all s.1.root).length}"
      continue
    if let ["allpull", n] := ws then
      if let some n := parseNat? n then
        out := out.push s!"ok {showKVs (allUntil n s.1.root)} {showKVs (all s.1.root)}"
        continue
    match parseOp ws with
    | none => out := out.push "bad-op"
    | some op =>
      match step kind s op with
      | .ok (s', o) =>
        let suffix := if withDump then dumpSuffix kind s' op else ""
        s := s'
        out := out.push (showOut o ++ suffix)
      | .panic => dead := true; out := out.push "panic"
      | .diverge => dead := true; out := out.push "hang"
  return out.toList

end AlgoVerif.C01.Driver
