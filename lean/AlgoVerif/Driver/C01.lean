import AlgoVerif.Model.C01
/-!
Line-protocol component for C01 and C15 (keys and values are `Int`, `eqVal` is `==`).

Header: `comp=bst|avl|rb cmp=asc|desc|diff|diff7|rdiff [dump=1]` (`diff` = `a-b`, `diff7` = `7*(a-b)`,
`rdiff` = `b-a`: comparators that do not return -1/0/+1).  With `dump=1` every state-changing call appends
` | <dump of the table it changed>`.  `dump` prints the current table: pre-order
`(key val size L R)` for the BST, `(key val size height L R)` for AVL, `(key val size R|B L R)` for
LLRB, `.` for nil — the format of the hook `symboltable.VerifDump`.
-/
namespace AlgoVerif.C01.Driver
open AlgoVerif AlgoVerif.C01

def eqI (a b : Int) : Bool := eqInt a b

def dumpTree (kind : Kind) : Tree Int Int → String
  | .nil => "."
  | .node l k v s h c r =>
    let extra := match kind with
      | .bst => ""
      | .avl => s!" {h}"
      | .rb => if c then " R" else " B"
    s!"({k} {v} {s}{extra} {dumpTree kind l} {dumpTree kind r})"

def showKVs (l : List (Int × Int)) : String :=
  "[" ++ " ".intercalate (l.map fun (k, v) => s!"{k}:{v}") ++ "]"

def showOut : Out Int Int → String
  | .unit => "ok"
  | .bool b => s!"ok {showBool b}"
  | .nat n => s!"ok {n}"
  | .int i => s!"ok {i}"
  | .optV (some v) => s!"ok some {v}"
  | .optV none => "ok none"
  | .optKV (some (k, v)) => s!"ok some {k} {v}"
  | .optKV none => "ok none"
  | .list l => s!"ok {showKVs l}"
  | .list2 a b => s!"ok {showKVs a} {showKVs b}"

def parseOrder : String → Option Order
  | "vlr" => some .vlr
  | "vrl" => some .vrl
  | "lvr" => some .lvr
  | "rvl" => some .rvl
  | "lrv" => some .lrv
  | "rlv" => some .rlv
  | "ascending" => some .ascending
  | "descending" => some .descending
  | "other" => some .other
  | _ => none

/-- predicate families of the harness; `%` is Go's (truncated) remainder -/
def parsePred : List String → Option (Int → Int → Bool)
  | ["true"] => some fun _ _ => true
  | ["false"] => some fun _ _ => false
  | ["kmod", m, r] => do
    let m ← parseInt? m; let r ← parseInt? r
    if m = 0 then none else some fun k _ => Int.tmod k m == r
  | ["vmod", m, r] => do
    let m ← parseInt? m; let r ← parseInt? r
    if m = 0 then none else some fun _ v => Int.tmod v m == r
  | ["klt", c] => do let c ← parseInt? c; some fun k _ => k < c
  | ["sumlt", c] => do let c ← parseInt? c; some fun k v => k + v < c
  | _ => none

def parseOp (ws : List String) : Option (Op Int Int) :=
  match ws with
  | ["put", k, v] => do some (.put (← parseInt? k) (← parseInt? v))
  | ["delete", k] => do some (.delete (← parseInt? k))
  | ["deletemin"] => some .deleteMin
  | ["deletemax"] => some .deleteMax
  | ["deleteall"] => some .deleteAll
  | ["swap"] => some .swap
  | ["swapc"] => some .swapC
  | ["size"] => some .size
  | ["isempty"] => some .isEmpty
  | ["height"] => some .height
  | ["get", k] => do some (.get (← parseInt? k))
  | ["min"] => some .min
  | ["max"] => some .max
  | ["floor", k] => do some (.floor (← parseInt? k))
  | ["ceiling", k] => do some (.ceiling (← parseInt? k))
  | ["select", i] => do some (.select (← parseInt? i))
  | ["rank", k] => do some (.rank (← parseInt? k))
  | ["range", lo, hi] => do some (.range (← parseInt? lo) (← parseInt? hi))
  | ["rangesize", lo, hi] => do some (.rangeSize (← parseInt? lo) (← parseInt? hi))
  | ["all"] => some .all
  | ["alluntil", lim] => do some (.allUntil (← parseNat? lim))
  | ["equalother"] => some .equalOther
  | ["traverse", o, lim] => do some (.traverse (← parseOrder o) (← parseNat? lim))
  | ["equal"] => some .equal
  | "anymatch" :: p => do some (.anyMatch (← parsePred p))
  | "allmatch" :: p => do some (.allMatch (← parsePred p))
  | "firstmatch" :: p => do some (.firstMatch (← parsePred p))
  | "selectmatch" :: p => do some (.selectMatch (← parsePred p))
  | "partitionmatch" :: p => do some (.partitionMatch (← parsePred p))
  | _ => none

/-- which table(s) a call changed, for the `dump=1` suffix -/
def dumpSuffix (kind : Kind) (s : State Int Int) : Op Int Int → String
  | .put .. | .delete .. | .deleteMin | .deleteMax | .deleteAll | .swap | .swapC => " | " ++ dumpTree kind s.1
  | .selectMatch _ => " | " ++ dumpTree kind s.2.1
  | .partitionMatch _ => " | " ++ dumpTree kind s.2.1 ++ " | " ++ dumpTree kind s.2.2
  | _ => ""

def runCase (hdr : List String) (ops : List String) : List String := Id.run do
  let kind? : Option Kind := match headerGet hdr "comp" with
    | some "bst" => some .bst
    | some "avl" => some .avl
    | some "rb" => some .rb
    | _ => none
  let some kind := kind? | return ops.map fun _ => "bad-case"
  let cmp := match headerGet hdr "cmp" with
    | some "desc" => cmpDesc
    | some "diff" => cmpDiff
    | some "diff7" => cmpDiff7
    | some "rdiff" => cmpRDiff
    | _ => cmpAsc
  let withDump := headerNat hdr "dump" 0 == 1
  let mut s : State Int Int := (.nil, .nil, .nil)
  let mut dead := false
  let mut out : Array String := #[]
  for line in ops do
    if dead then out := out.push "skip"; continue
    let ws := words line
    if ws == ["dump"] then
      out := out.push ("ok " ++ dumpTree kind s.1)
      continue
    match parseOp ws with
    | none => out := out.push "bad-op"
    | some op =>
      match step kind cmp eqI s op with
      | .ok (s', o) =>
        let suffix := if withDump then dumpSuffix kind s' op else ""
        s := s'
        out := out.push (showOut o ++ suffix)
      | .panic => dead := true; out := out.push "panic"
      | .diverge => dead := true; out := out.push "hang"
  return out.toList

end AlgoVerif.C01.Driver
