import AlgoVerif.Common
/-! Line-protocol component for C01 — not built yet. -/
namespace AlgoVerif.C01.Driver

def runCase (_hdr : List String) (ops : List String) : List String :=
  ops.map fun _ => "bad-case"

end AlgoVerif.C01.Driver
