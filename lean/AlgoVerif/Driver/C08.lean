import AlgoVerif.Common
/-! Line-protocol component for C08 — not built yet. -/
namespace AlgoVerif.C08.Driver

def runCase (_hdr : List String) (ops : List String) : List String :=
  ops.map fun _ => "bad-case"

end AlgoVerif.C08.Driver
