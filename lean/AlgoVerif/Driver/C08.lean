import AlgoVerif.Model.C08
import AlgoVerif.Spec.C08
/-!
Line-protocol component for C08 (and the part of it C09 reuses).

A case is the grammar description (`terms …`, `nonterms …`, `start S`, `prod H : body`; each answered
`ok`) followed by ops, each evaluated on the described grammar (ops do not chain):

* `emptyfree | singlefree | unreachable | cycles | leftrec | leftfactor | cnf | cnfstart | cnfterm | cnfbin`
  → `ok <showGrammar of the Model's result>` | `panic` | `hang`;
* `lang <op|id> <k>` → `ok <n> <w₁>|<w₂>|…`: the sentences of length ≤ k of the Model's result
  (`langK`), sorted, words separated by spaces, `ε` for the empty sentence.
-/
namespace AlgoVerif.C08.Driver
open AlgoVerif AlgoVerif.Gram AlgoVerif.C08

def showOutcome : Outcome G → String
  | .ok g => "ok " ++ showGrammar g
  | .panic => "panic"
  | .diverge => "hang"

def showSentence (w : List String) : String := if w.isEmpty then "ε" else " ".intercalate w

def showLang (g : G) (k : Nat) : String :=
  let ws := sortDedup ((langK g k).map showSentence)
  s!"ok {ws.length} {"|".intercalate ws}"

/-- ops shared by the C08 and C09 drivers; `none` = not one of them -/
def commonOp (g : G) (ws : List String) : Option String :=
  match ws with
  | [op] => (applyOp op g).map showOutcome
  | ["lang", op, k] =>
    match applyOp op g, k.toNat? with
    | some (.ok g'), some k => some (showLang g' k)
    | some .panic, some _ => some "panic"
    | some .diverge, some _ => some "hang"
    | _, _ => none
  | _ => none

def runWith (extra : G → List String → Option String) (ops : List String) : List String := Id.run do
  let mut g : SGrammar := SGrammar.empty
  let mut out : Array String := #[]
  for line in ops do
    let (g', consumed) := parseGrammarLine g line
    if consumed then
      g := g'
      out := out.push "ok"
    else
      let gn := normalize g
      let ws := words line
      match commonOp gn ws with
      | some s => out := out.push s
      | none =>
        match extra gn ws with
        | some s => out := out.push s
        | none => out := out.push "bad-op"
  return out.toList

def runCase (_hdr : List String) (ops : List String) : List String :=
  runWith (fun _ _ => none) ops

end AlgoVerif.C08.Driver
