import AlgoVerif.Model.C08
import AlgoVerif.Spec.C08
/-!
Line-protocol component for C08 (and the part of it C09 reuses).

A case is the grammar description (`terms …`, `nonterms …`, `start S`, `prod H : body`; each answered
`ok`) followed by ops, each evaluated on the described grammar (ops do not chain):

* `emptyfree | singlefree | unreachable | cycles | leftrec | leftfactor | cnf | cnfstart | cnfterm | cnfbin`
  → `ok <showGrammar of the Model's result>` | `panic` | `hang`;
* `lang <op|id> <k>` → `ok <n> <w₁>|<w₂>|…`: the sentences of length ≤ k of the Model's result
  (`langK`), sorted, words separated by spaces, `ε` for the empty sentence.
-/
namespace AlgoVerif.C08.Driver
open AlgoVerif AlgoVerif.Gram AlgoVerif.C08

/-! Terminals named like non-terminals.  The shared protocol tells body words apart by name; in C08/C09 case
files a word that starts with `'` is the terminal named by the rest of the word.  `unquote` gives the Model the
bare names (its symbols carry their kind); `requote` writes the quote, in the printed result, exactly on the
terminals whose name is a declared non-terminal of that grammar (the harness prints the same). -/

def bare (t : String) : String :=
  match t.toList with
  | '\'' :: r => String.ofList r
  | _ => t

def unquote (g : G) : G :=
  { g with terms := g.terms.map bare,
           prods := g.prods.map fun p => { p with body := p.body.map fun s => match s with
             | .term t => .term (bare t)
             | .nonterm n => .nonterm n } }

def requote (g : G) : G :=
  let q := fun (t : String) => if g.nonterms.contains t then "'" ++ t else t
  { g with terms := g.terms.map q,
           prods := g.prods.map fun p => { p with body := p.body.map fun s => match s with
             | .term t => .term (q t)
             | .nonterm n => .nonterm n } }

def showOutcome : Outcome G → String
  | .ok g => "ok " ++ showGrammar (requote g)
  | .panic => "panic"
  | .diverge => "hang"

def showSentence (w : List String) : String := if w.isEmpty then "ε" else " ".intercalate w

def showLang (g : G) (k : Nat) : String :=
  let ws := sortDedup ((langK g k).map showSentence)
  s!"ok {ws.length} {"|".intercalate ws}"

/-- ops shared by the C08 and C09 drivers; `none` = not one of them -/
def commonOp (g : G) (ws : List String) : Option String :=
  match ws with
  | [op] => (applyOp op g).map showOutcome
  | ["lang", op, k] =>
    match applyOp op g, k.toNat? with
    | some (.ok g'), some k => some (showLang g' k)
    | some .panic, some _ => some "panic"
    | some .diverge, some _ => some "hang"
    | _, _ => none
  | _ => none

def runWith (extra : G → List String → Option String) (ops : List String) : List String := Id.run do
  let mut g : SGrammar := SGrammar.empty
  let mut out : Array String := #[]
  for line in ops do
    let (g', consumed) := parseGrammarLine g line
    if consumed then
      g := g'
      out := out.push "ok"
    else
      let gn := normalize (unquote g)
      let ws := words line
      match commonOp gn ws with
      | some s => out := out.push s
      | none =>
        match extra gn ws with
        | some s => out := out.push s
        | none => out := out.push "bad-op"
  return out.toList

def runCase (_hdr : List String) (ops : List String) : List String :=
  runWith (fun _ _ => none) ops

end AlgoVerif.C08.Driver
