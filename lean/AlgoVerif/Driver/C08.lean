import AlgoVerif.Model.C08
import AlgoVerif.Model.C08Aux
import AlgoVerif.Model.C08Hist
import AlgoVerif.Model.NameCodec
import AlgoVerif.Model.C10Ext
import AlgoVerif.Spec.C08
/-!
Line-protocol component for C08 (and the part of it C09 reuses).

A case is the grammar description (`terms …`, `nonterms …`, `start S`, `prod H : body`; each answered
`ok`) followed by ops, each evaluated on the described grammar (ops do not chain):

* `emptyfree | singlefree | unreachable | cycles | leftrec | leftfactor | cnf | cnfstart | cnfterm | cnfbin`
  → `ok <showGrammar of the Model's result>` | `panic` | `hang`;
* `lang <op|id> <k>` → `ok <n> <w₁>|<w₂>|…`: the sentences of length ≤ k of the Model's result
  (`langK`), sorted, words separated by spaces, `ε` for the empty sentence;
* the helpers the transformations rest on (`Model/C08Aux.lean`), on the described grammar:
  `verify` → `ok valid` | `ok invalid [head:Z; no-prod:A; nonterm:Y; start; start-prod; term:z]` (sorted multiset);
  `iscnf` → `ok true` | `ok false [p; q]`;  `symbols` → `ok [n:A n:S t:a]`;  `eq <op|id>` → `ok true|false` (`Equal` of the
  grammar and the result);  `match <pred>` → `ok any=… all=… select=[p; q]` (`pred`: empty single leftrec binary termprod
  true false head=A);  `order` → `ok terms=[a b] nonterms=[S A]` (`OrderTerminals`, `OrderNonTerminals`);
  `orderprods` → `ok A: p | q; S: r` (`OrderProductionSet` per head, heads sorted);
  `cmp sym X Y`, `cmp str α | β`, `cmp prod H : α | K : β` → `ok -1|0|1` (`CmpSymbol`, `CmpString`, `CmpProduction`);
  `hash sym X`, `hash str α`, `hash prod H : α`, `hash term a`, `hash nonterm A` → `ok <uint64>`;
  `write k : α` → `ok n=<bytes> err=true|false` (`WriteString` on a writer whose k-th `Write` takes half and fails);
  `lcp α | β | …` → `ok <longest common prefix>` (`LongestCommonPrefixOf`; `lcp none`: of no strings);  `strops α | β` → `ok prefix=… suffix=… prepend=<β α> anyterm=…`
  (`α.HasPrefix(β)`, `α.HasSuffix(β)`, `α.Prepend(β...)`, `α.AnyMatch(IsTerminal)`).
  In arguments `'x` is the terminal `x`, `^Z` the non-terminal `Z` (declared or not), any other word a non-terminal iff declared.

A case whose header says `comp=history` is a history over grammar objects (`Model/C08Hist.lean`): the described grammar is
the value of slot 0 and the ops are `apply i T j` (T a transformation or `clone`; `ok <grammar>` | `panic` | `hang`),
`addprod i H : α`, `rmprod i H : α`, `addnt i N`, `addterm i t` (each `ok <grammar of slot i>`), `nullable i` → `ok [A B]`,
`nullable! i` / `terms! i` (the caller overwrites the set / slice it was handed), `iterate i` → `ok prods=n pairs=m²`,
`analyse i` → `ok nullable=[A B]` | `ok not-valid`, `prods i`, `lang i k`, `eq i j`; an op on an empty slot answers
`ok undefined`; after a `panic` / `hang` the rest of the case is answered `skip`.
-/
namespace AlgoVerif.C08.Driver
open AlgoVerif AlgoVerif.Gram AlgoVerif.C08 AlgoVerif.NameCodec

/-! Terminals named like non-terminals.  The shared protocol tells body words apart by name; in C08/C09 case
files a word that starts with `'` is the terminal named by the rest of the word.  `unquote` gives the Model the
bare names (its symbols carry their kind); `requote` writes the quote, in the printed result, exactly on the
terminals whose name is a declared non-terminal of that grammar (the harness prints the same). -/

def bare (t : String) : String :=
  match t.toList with
  | '\'' :: r => decName (String.ofList r)
  | _ => decName t

/-- `^Z` is the non-terminal `Z`, declared or not; `'x` the terminal `x` -/
def bareSym (t : String) : SSym :=
  match t.toList with
  | '^' :: r => .nonterm (decName (String.ofList r))
  | _ => .term (bare t)

/-- the non-terminal a word (with or without `^`) names -/
def bareN (w : String) : String :=
  match w.toList with
  | '^' :: r => decName (String.ofList r)
  | _ => decName w

/-- words → names (`Model/NameCodec.lean`): the Model runs on the names the Go code sees -/
def unquote (g : G) : G :=
  { terms := g.terms.map bare, nonterms := g.nonterms.map bareN, start := bareN g.start,
    prods := g.prods.map fun p => { head := bareN p.head, body := p.body.map fun s => match s with
      | .term t => bareSym t
      | .nonterm n => .nonterm (decName n) } }

/-- names → canonical words: encoded, a terminal with `'` exactly when its name is a declared non-terminal -/
def requote (g : G) : G :=
  let q := fun (t : String) => if g.nonterms.contains t then "'" ++ encName t else encName t
  { terms := g.terms.map q, nonterms := g.nonterms.map encName, start := encName g.start,
    prods := g.prods.map fun p => { head := encName p.head, body := p.body.map fun s => match s with
      | .term t => .term (q t)
      | .nonterm n => .nonterm (encName n) } }

def showOutcome : Outcome G → String
  | .ok g => "ok " ++ showGrammar (requote g)
  | .panic => "panic"
  | .diverge => "hang"

def showSentence (w : List String) : String := if w.isEmpty then "ε" else " ".intercalate (w.map encName)

def showLang (g : G) (k : Nat) : String :=
  let ws := sortDedup ((langK g k).map showSentence)
  s!"ok {ws.length} {"|".intercalate ws}"

/-! ### the helper ops -/

/-- a word of an op argument as a symbol of `g` (bare names) -/
def argSym (g : G) (w : String) : SSym :=
  match w.toList with
  | '\'' :: r => .term (decName (String.ofList r))
  | '^' :: r => .nonterm (decName (String.ofList r))
  | _ => if g.nonterms.contains (decName w) then .nonterm (decName w) else .term (decName w)

/-- split at the first `|` -/
def splitBar (ws : List String) : List String × List String :=
  (ws.takeWhile (· ≠ "|"), (ws.dropWhile (· ≠ "|")).drop 1)

/-- the name of a terminal as the helper ops print it: `$` for the endmarker, quoted iff it is also the name of a
declared non-terminal -/
def tname (g : G) (t : String) : String :=
  if t = Generated.grammar_endmarkerName then "$"   -- `Terminal.Name()` of the reserved endmarker
  else if g.nonterms.contains t then "'" ++ encName t else encName t

def showSymQ (g : G) : SSym → String
  | .term t => tname g t
  | .nonterm n => encName n

def showBodyQ (g : G) (b : List SSym) : String :=
  if b.isEmpty then "ε" else " ".intercalate (b.map (showSymQ g))

def showProdQ (g : G) (p : SProd) : String :=
  encName p.head ++ "→" ++ (if p.body.isEmpty then "ε" else " ".intercalate (p.body.map (showSymQ g)))

def insertKeep (x : String) : List String → List String
  | [] => [x]
  | y :: ys => if x < y then x :: y :: ys else y :: insertKeep x ys

def sortKeep (l : List String) : List String := l.foldl (fun acc x => insertKeep x acc) []

def showVerifyErr (g : G) : AlgoVerif.C10.VerifyErr String String → String
  | .startUndeclared => "start"
  | .noStartProd => "start-prod"
  | .noProd n => "no-prod:" ++ n
  | .headUndeclared n => "head:" ++ n
  | .termUndeclared t => "term:" ++ tname g t
  | .nontermUndeclared n => "nonterm:" ++ n

def showVerify (g : G) : String :=
  match AlgoVerif.C10.verifyErrors g with
  | [] => "ok valid"
  | es => s!"ok invalid [{"; ".intercalate (sortKeep (es.map (showVerifyErr g)))}]"

def showProds (g : G) (ps : List SProd) : String := "[" ++ "; ".intercalate (sortDedup (ps.map (showProdQ g))) ++ "]"

def helperOp (g : G) (ws : List String) : Option String :=
  match ws with
  | ["verify"] => some (showVerify g)
  | ["iscnf"] =>
    match cnfErrors g with
    | [] => some "ok true"
    | es => some ("ok false " ++ showProds g es)
  | ["symbols"] =>
    some ("ok [" ++ " ".intercalate (sortDedup ((symbols g).map fun s => match s with
      | .term t => "t:" ++ tname g t
      | .nonterm n => "n:" ++ n)) ++ "]")
  | ["eq", op] =>
    match applyOp op g with
    | some (.ok g') => some ("ok " ++ showBool (equalG g g'))
    | some .panic => some "panic"
    | some .diverge => some "hang"
    | none => none
  | ["match", pred] =>
    (namedPred pred).map fun f =>
      s!"ok any={showBool (g.prods.any f)} all={showBool (g.prods.all f)} select={showProds g (g.prods.filter f)}"
  | ["order"] =>
    match orderNT g with
    | .ok nts => some s!"ok terms=[{" ".intercalate ((orderT g).map (tname g))}] nonterms=[{" ".intercalate nts}]"
    | .panic => some "panic"
    | .diverge => some "hang"
  | ["orderprods"] =>
    let heads := sortDedup (g.prods.map (·.head))
    some ("ok " ++ "; ".intercalate (heads.map fun A =>
      A ++ ": " ++ " | ".intercalate ((sortBy prodLt (prodsOf g.prods A)).map (showProdQ g))))
  | ["cmp", "sym", x, y] => some s!"ok {cmpSymbol (argSym g x) (argSym g y)}"
  | "cmp" :: "str" :: rest =>
    let (l, r) := splitBar rest
    some s!"ok {cmpBody (l.map (argSym g)) (r.map (argSym g))}"
  | "cmp" :: "prod" :: rest =>
    let (l, r) := splitBar rest
    match l, r with
    | h :: ":" :: lb, k :: ":" :: rb =>
      some s!"ok {cmpProd ⟨h, lb.map (argSym g)⟩ ⟨k, rb.map (argSym g)⟩}"
    | _, _ => none
  | ["hash", "sym", x] => some s!"ok {hashSymbol (argSym g x)}"
  | "hash" :: "str" :: b => some s!"ok {hashBody (b.map (argSym g))}"
  | "hash" :: "prod" :: h :: ":" :: b => some s!"ok {hashProd ⟨h, b.map (argSym g)⟩}"
  | ["hash", "term", t] => some s!"ok {hashName (bare t)}"
  | ["hash", "nonterm", n] => some s!"ok {hashName n}"
  | ["lcp", "none"] => some ("ok " ++ showBodyQ g (longestCommonPrefix []))   -- `LongestCommonPrefixOf()` of no strings
  | "lcp" :: rest =>
    let rec splitAll (ws : List String) (fuel : Nat) : List (List String) :=
      match fuel with
      | 0 => [ws]
      | fuel + 1 => if ws.contains "|" then (splitBar ws).1 :: splitAll (splitBar ws).2 fuel else [ws]
    let bodies := (splitAll rest rest.length).map fun b => b.map (argSym g)
    let r := longestCommonPrefix bodies
    some ("ok " ++ showBodyQ g r)
  | "strops" :: rest =>
    let (l, r) := splitBar rest
    let a := l.map (argSym g)
    let b := r.map (argSym g)
    let pre := b ++ a
    some s!"ok prefix={showBool (hasPrefix a b)} suffix={showBool (hasSuffix a b)} prepend={if pre.isEmpty then "ε" else " ".intercalate (pre.map (showSymQ g))} anyterm={showBool (a.any fun s => !isNT s)}"
  | "write" :: k :: ":" :: b =>
    k.toNat?.map fun k =>
      let r := writeString k (b.map (argSym g)) 0 0
      s!"ok n={r.1} err={showBool r.2}"
  | _ => none

/-- ops shared by the C08 and C09 drivers; `none` = not one of them -/
def commonOp (g : G) (ws : List String) : Option String :=
  match helperOp g ws with
  | some s => some s
  | none =>
  match ws with
  | [op] => (applyOp op g).map showOutcome
  | ["lang", op, k] =>
    match applyOp op g, k.toNat? with
    | some (.ok g'), some k => some (showLang g' k)
    | some .panic, some _ => some "panic"
    | some .diverge, some _ => some "hang"
    | _, _ => none
  | _ => none

def runWith (extra : G → List String → Option String) (ops : List String) : List String := Id.run do
  let mut g : SGrammar := SGrammar.empty
  let mut out : Array String := #[]
  for line in ops do
    let (g', consumed) := parseGrammarLine g line
    if consumed then
      g := g'
      out := out.push "ok"
    else
      let gn := normalize (unquote g)
      let ws := words line
      match commonOp gn ws with
      | some s => out := out.push s
      | none =>
        match extra gn ws with
        | some s => out := out.push s
        | none => out := out.push "bad-op"
  return out.toList

/-! ### histories over grammar objects (`comp=history`) -/

def showNames (ns : List String) : String := "[" ++ " ".intercalate (sortDedup (ns.map encName)) ++ "]"

def showValue (g : G) : String := "ok " ++ showGrammar (requote g)

/-- an edit of slot `i` -/
def histEdit (s : Hist.Store) (i : String) (f : G → G) : Option (String × Hist.Store) :=
  i.toNat?.map fun i =>
    match Hist.get s i with
    | none => ("ok undefined", s)
    | some g => (showValue (f g), Hist.set s i (f g))

/-- a query of slot `i` -/
def histQuery (s : Hist.Store) (i : String) (f : G → String) : Option (String × Hist.Store) :=
  i.toNat?.map fun i =>
    match Hist.get s i with
    | none => ("ok undefined", s)
    | some g => (f g, s)

def showNullable (pre : String) (g : G) : String :=
  match nullable g with
  | .ok ns => pre ++ showNames ns
  | .panic => "panic"
  | .diverge => "hang"

def histOp (s : Hist.Store) (ws : List String) : Option (String × Hist.Store) :=
  match ws with
  | ["apply", i, t, j] =>
    match i.toNat?, j.toNat? with
    | some i, some j =>
      match Hist.get s i with
      | none => if (Hist.transform t SGrammar.empty).isSome then some ("ok undefined", s) else none
      | some g =>
        match Hist.transform t g with
        | none => none
        | some (.ok g') => some (showValue g', Hist.set s j g')
        | some o => some (showOutcome o, s)
    | _, _ => none
  | "addprod" :: i :: h :: ":" :: body =>
    histEdit s i fun g => Hist.addProd g ⟨decName h, body.map (argSym g)⟩
  | "rmprod" :: i :: h :: ":" :: body =>
    histEdit s i fun g => Hist.rmProd g ⟨decName h, body.map (argSym g)⟩
  | ["addnt", i, n] => histEdit s i fun g => Hist.addNT g (bare n)
  | ["addterm", i, t] => histEdit s i fun g => Hist.addTerm g (bare t)
  | ["nullable", i] => histQuery s i (showNullable "ok ")
  -- the caller scribbles on the set / slice it got: a value cannot be reached that way
  | ["nullable!", i] => histQuery s i (showNullable "ok ")
  | ["terms!", i] => histQuery s i fun g => "ok [" ++ " ".intercalate ((orderT g).map (tname g)) ++ "]"
  -- two iterators alive at once, one abandoned half-way, an iteration nested in itself
  | ["iterate", i] => histQuery s i fun g => s!"ok prods={(dedup g.prods).length} pairs={(dedup g.nonterms).length * (dedup g.nonterms).length}"
  | ["analyse", i] =>
    histQuery s i fun g => if decide (Spec.Valid g) then showNullable "ok nullable=" g else "ok not-valid"
  | ["prods", i] => histQuery s i showValue
  | ["lang", i, k] =>
    match k.toNat? with
    | some k => if k ≤ 8 then histQuery s i (fun g => showLang g k) else none
    | none => none
  | ["eq", i, j] =>
    match i.toNat?, j.toNat? with
    | some i, some j =>
      match Hist.get s i, Hist.get s j with
      | some g, some h => some ("ok " ++ showBool (equalG g h), s)
      | _, _ => some ("ok undefined", s)
    | _, _ => none
  | _ => none

def runHistory (ops : List String) : List String := Id.run do
  let mut g : SGrammar := SGrammar.empty
  let mut store : Option Hist.Store := none
  let mut stopped := false
  let mut out : Array String := #[]
  for line in ops do
    if stopped then
      out := out.push "skip"
    else
      let (g', consumed) := parseGrammarLine g line
      if consumed && store.isNone then
        g := g'
        out := out.push "ok"
      else
        let s := store.getD [(0, normalize (unquote g))]
        match histOp s (words line) with
        | some (o, s') =>
          store := some s'
          out := out.push o
          if o == "panic" || o == "hang" then stopped := true
        | none =>
          store := some s
          out := out.push "bad-op"
  return out.toList

def runCase (hdr : List String) (ops : List String) : List String :=
  if hdr.contains "comp=history" then runHistory ops else runWith (fun _ _ => none) ops

end AlgoVerif.C08.Driver
