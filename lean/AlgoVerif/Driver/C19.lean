import AlgoVerif.Model.C19X
/-!
Line-protocol component for C19.

header: `comp=<input|stream|wild|position> src=x<hex> n=<buffer size> reader=<full|one|half|dataeof|chunks:tok,tok,…>
file=x<hex of the filename given to New>` (absent = empty file name)
with `tok` = (`h` | cap)(`e` | `x`)? or `E` (after the script: `io.EOF` together with the last bytes).
ops: `new`, `next`, `retract`, `lexeme`, `skip`; every output line carries the dump of the internal state; a
position that comes back (from `Lexeme`, `Skip`, inside the `*InputError` of `Next`) is printed field by field and
then, quoted, as the caller sees it: `Position.String()` resp. the `Error()` text of the `*InputError`.
State-independent ops on explicit values (strings as `x<hex>`):
`pos <file> <off> <line> <col> <file> <off> <line> <col>` — `String()` of both positions, `p.Equal(q)`, `IsZero()` of both;
`tok <term> <lexeme> <file> <off> <line> <col> <term> <lexeme> <file> <off> <line> <col>` — `String()` of both tokens, `t.Equal(u)`.
-/
namespace AlgoVerif.C19.Driver
open AlgoVerif AlgoVerif.C19

def hexDigit (c : Char) : Option Nat :=
  if '0' ≤ c ∧ c ≤ '9' then some (c.toNat - '0'.toNat)
  else if 'a' ≤ c ∧ c ≤ 'f' then some (c.toNat - 'a'.toNat + 10)
  else none

def parseHex : List Char → Option (List UInt8)
  | [] => some []
  | a :: b :: rest =>
    match hexDigit a, hexDigit b, parseHex rest with
    | some x, some y, some r => some (UInt8.ofNat (16 * x + y) :: r)
    | _, _, _ => none
  | _ => none

def hexChar (n : Nat) : Char :=
  if n < 10 then Char.ofNat ('0'.toNat + n) else Char.ofNat ('a'.toNat + n - 10)

def showHex (bs : List UInt8) : String :=
  String.ofList (bs.flatMap fun b => [hexChar (b.toNat / 16), hexChar (b.toNat % 16)])

def parseTok (tok : String) : Option (Sum Answer Unit) :=
  if tok = "E" then some (.inr ())
  else
    let cs := tok.toList
    let (body, flag) : List Char × Flag :=
      match cs.reverse with
      | 'e' :: r => (r.reverse, .eofWithData)
      | 'x' :: r => (r.reverse, .ioerr)
      | _ => (cs, .none)
    if body = ['h'] then some (.inl { half := true, cap := 0, flag := flag })
    else
      match (String.ofList body).toNat? with
      | some v => some (.inl { half := false, cap := v, flag := flag })
      | none => none

def parseReader (spec : String) (src : List UInt8) : Option Reader :=
  let rep (a : Answer) : Reader := { rest := src, script := List.replicate (src.length + 2) a }
  if spec = "full" then some { rest := src }
  else if spec = "dataeof" then some { rest := src, tailEof := true }
  else if spec = "one" then some (rep { cap := 1 })
  else if spec = "half" then some (rep { half := true, cap := 0 })
  else if spec.startsWith "chunks:" then
    let body := (spec.drop 7).toString
    if body = "" then some { rest := src }
    else
      (body.splitOn ",").foldl (init := some { rest := src }) fun acc tok =>
        match acc, parseTok tok with
        | some r, some (.inl a) => some { r with script := r.script ++ [a] }
        | some r, some (.inr ()) => some { r with tailEof := true }
        | _, _ => none
  else none

def showErr : Option ErrKind → String
  | none => "nil"
  | some .eof => "eof"
  | some .other => "other"

def showPos (p : Pos) : String := s!"{p.offset} {p.line} {p.column}"

def showInts (l : List Int) : String := "[" ++ " ".intercalate (l.map toString) ++ "]"

def dump (i : Input) : String :=
  s!"buf=x{showHex i.buff.toList} lb={i.lexemeBegin} fw={i.forward} ahead={if i.ahead then 1 else 0} " ++
  s!"err={showErr i.err} off={i.offset} line={i.line} col={i.column} ncol={i.nextColumn} " ++
  s!"rs={showNatList i.runeSizes.reverse} lc={showInts i.lastColumns.reverse}"

def quoted (s : String) : String := "\"" ++ s ++ "\""

/-- `file`: the filename the `Input` was made with -/
def showOut (file : String) : Out → String
  | .rune r => s!"ok r {r}"
  | .err .eof => "ok err eof"
  | .err .other => "ok err other"
  | .invalid p => s!"ok err utf8 {showPos p} {quoted (p.invalidError file).Error}"
  | .unit => "ok"
  | .lexeme bytes p => s!"ok x{showHex bytes} {showPos p} {quoted (p.at file).String}"
  | .skipped p => s!"ok {showPos p} {quoted (p.at file).String}"

/-- `x<hex>` → the string with these UTF-8 bytes -/
def parseStr (w : String) : Option String :=
  match w.toList with
  | 'x' :: hex =>
    match parseHex hex with
    | some bytes => String.fromUTF8? (ByteArray.mk bytes.toArray)
    | none => none
  | _ => none

def parsePosition : List String → Option Position
  | [f, o, l, c] =>
    match parseStr f, o.toInt?, l.toInt?, c.toInt? with
    | some f, some o, some l, some c => some { filename := f, offset := o, line := l, column := c }
    | _, _, _, _ => none
  | _ => none

def parseToken : List String → Option Token
  | t :: x :: rest =>
    match parseStr t, parseStr x, parsePosition rest with
    | some t, some x, some p => some { terminal := t, lexeme := x, pos := p }
    | _, _, _ => none
  | _ => none

/-- the ops on explicit positions / tokens (no `Input` involved) -/
def valueOp (ws : List String) : Option String :=
  match ws with
  | "pos" :: args =>
    match parsePosition (args.take 4), parsePosition (args.drop 4) with
    | some p, some q =>
      some s!"ok {quoted p.String} {quoted q.String} eq={showBool (p.Equal q)} zero={showBool p.IsZero},{showBool q.IsZero}"
    | _, _ => some "bad-op"
  | "tok" :: args =>
    match parseToken (args.take 6), parseToken (args.drop 6) with
    | some t, some u =>
      match t.String, u.String with
      | some a, some b => some s!"ok {quoted a} {quoted b} eq={showBool (t.Equal u)}"
      | _, _ => some "bad-op"
    | _, _ => some "bad-op"
  | _ => none

inductive St where
  | fresh (r : Reader)
  | live (i : XInput)
  | closed
  | dead

def step (file : String) (n : Nat) (st : St) (line : String) : St × String :=
  match st, valueOp (words line) with
  | .dead, _ => (.dead, "skip")
  | st, some out => (st, out)
  | st, none =>
  match st, words line with
  | .dead, _ => (.dead, "skip")
  | .fresh r, ["new"] =>
    match XInput.new file r n with
    | .ok (.ok i) => (.live i, "ok | " ++ dump i.inp)
    | .ok (.error .eof) => (.closed, "ok err eof")
    | .ok (.error .other) => (.closed, "ok err other")
    | .panic => (.dead, "panic")
    | .diverge => (.dead, "hang")
  | .closed, [_] => (.closed, "ok noinput")
  | .live i, [w] =>
    let op? : Option Op :=
      if w = "next" then some .next else if w = "retract" then some .retract
      else if w = "lexeme" then some .lexeme else if w = "skip" then some .skip else none
    match op? with
    | none => (st, "bad-op")
    | some op =>
      match i.step op with
      | .ok (i, o) => (.live i, showOut i.filename o ++ " | " ++ dump i.inp)
      | .panic => (.dead, "panic")
      | .diverge => (.dead, "hang")
  | st, _ => (st, "bad-op")

def runOps (file : String) (n : Nat) : St → List String → List String
  | _, [] => []
  | st, l :: ls => let (st', out) := step file n st l; out :: runOps file n st' ls

def runCase (hdr : List String) (ops : List String) : List String :=
  let n := headerNat hdr "n" 0
  let src := ((headerGet hdr "src").getD "x").toList
  match src with
  | 'x' :: hex =>
    match parseHex hex with
    | some bytes =>
      match parseReader ((headerGet hdr "reader").getD "full") bytes with
      | some r =>
        match parseStr ((headerGet hdr "file").getD "x") with
        | some file => if n < 1 then ops.map fun _ => "bad-case" else runOps file n (.fresh r) ops
        | none => ops.map fun _ => "bad-case"
      | none => ops.map fun _ => "bad-case"
    | none => ops.map fun _ => "bad-case"
  | _ => ops.map fun _ => "bad-case"

end AlgoVerif.C19.Driver
