import AlgoVerif.Model.C19Run
/-!
Line-protocol component for C19.

header: `comp=<input|stream|wild> src=x<hex> n=<buffer size> reader=<full|one|half|dataeof|chunks:tok,tok,…>`
with `tok` = (`h` | cap)(`e` | `x`)? or `E` (after the script: `io.EOF` together with the last bytes).
ops: `new`, `next`, `retract`, `lexeme`, `skip`; every output line carries the dump of the internal state.
-/
namespace AlgoVerif.C19.Driver
open AlgoVerif AlgoVerif.C19

def hexDigit (c : Char) : Option Nat :=
  if '0' ≤ c ∧ c ≤ '9' then some (c.toNat - '0'.toNat)
  else if 'a' ≤ c ∧ c ≤ 'f' then some (c.toNat - 'a'.toNat + 10)
  else none

def parseHex : List Char → Option (List UInt8)
  | [] => some []
  | a :: b :: rest =>
    match hexDigit a, hexDigit b, parseHex rest with
    | some x, some y, some r => some (UInt8.ofNat (16 * x + y) :: r)
    | _, _, _ => none
  | _ => none

def hexChar (n : Nat) : Char :=
  if n < 10 then Char.ofNat ('0'.toNat + n) else Char.ofNat ('a'.toNat + n - 10)

def showHex (bs : List UInt8) : String :=
  String.ofList (bs.flatMap fun b => [hexChar (b.toNat / 16), hexChar (b.toNat % 16)])

def parseTok (tok : String) : Option (Sum Answer Unit) :=
  if tok = "E" then some (.inr ())
  else
    let cs := tok.toList
    let (body, flag) : List Char × Flag :=
      match cs.reverse with
      | 'e' :: r => (r.reverse, .eofWithData)
      | 'x' :: r => (r.reverse, .ioerr)
      | _ => (cs, .none)
    if body = ['h'] then some (.inl { half := true, cap := 0, flag := flag })
    else
      match (String.ofList body).toNat? with
      | some v => some (.inl { half := false, cap := v, flag := flag })
      | none => none

def parseReader (spec : String) (src : List UInt8) : Option Reader :=
  let rep (a : Answer) : Reader := { rest := src, script := List.replicate (src.length + 2) a }
  if spec = "full" then some { rest := src }
  else if spec = "dataeof" then some { rest := src, tailEof := true }
  else if spec = "one" then some (rep { cap := 1 })
  else if spec = "half" then some (rep { half := true, cap := 0 })
  else if spec.startsWith "chunks:" then
    let body := (spec.drop 7).toString
    if body = "" then some { rest := src }
    else
      (body.splitOn ",").foldl (init := some { rest := src }) fun acc tok =>
        match acc, parseTok tok with
        | some r, some (.inl a) => some { r with script := r.script ++ [a] }
        | some r, some (.inr ()) => some { r with tailEof := true }
        | _, _ => none
  else none

def showErr : Option ErrKind → String
  | none => "nil"
  | some .eof => "eof"
  | some .other => "other"

def showPos (p : Pos) : String := s!"{p.offset} {p.line} {p.column}"

def showInts (l : List Int) : String := "[" ++ " ".intercalate (l.map toString) ++ "]"

def dump (i : Input) : String :=
  s!"buf=x{showHex i.buff.toList} lb={i.lexemeBegin} fw={i.forward} ahead={if i.ahead then 1 else 0} " ++
  s!"err={showErr i.err} off={i.offset} line={i.line} col={i.column} ncol={i.nextColumn} " ++
  s!"rs={showNatList i.runeSizes.reverse} lc={showInts i.lastColumns.reverse}"

def showOut : Out → String
  | .rune r => s!"ok r {r}"
  | .err .eof => "ok err eof"
  | .err .other => "ok err other"
  | .invalid p => s!"ok err utf8 {showPos p}"
  | .unit => "ok"
  | .lexeme bytes p => s!"ok x{showHex bytes} {showPos p}"
  | .skipped p => s!"ok {showPos p}"

inductive St where
  | fresh (r : Reader)
  | live (i : Input)
  | closed
  | dead

def step (n : Nat) (st : St) (line : String) : St × String :=
  match st, words line with
  | .dead, _ => (.dead, "skip")
  | .fresh r, ["new"] =>
    match Input.new r n with
    | .ok (.ok i) => (.live i, "ok | " ++ dump i)
    | .ok (.error .eof) => (.closed, "ok err eof")
    | .ok (.error .other) => (.closed, "ok err other")
    | .panic => (.dead, "panic")
    | .diverge => (.dead, "hang")
  | .closed, [_] => (.closed, "ok noinput")
  | .live i, [w] =>
    let op? : Option Op :=
      if w = "next" then some .next else if w = "retract" then some .retract
      else if w = "lexeme" then some .lexeme else if w = "skip" then some .skip else none
    match op? with
    | none => (st, "bad-op")
    | some op =>
      match i.step op with
      | .ok (i, o) => (.live i, showOut o ++ " | " ++ dump i)
      | .panic => (.dead, "panic")
      | .diverge => (.dead, "hang")
  | st, _ => (st, "bad-op")

def runOps (n : Nat) : St → List String → List String
  | _, [] => []
  | st, l :: ls => let (st', out) := step n st l; out :: runOps n st' ls

def runCase (hdr : List String) (ops : List String) : List String :=
  let n := headerNat hdr "n" 0
  let src := ((headerGet hdr "src").getD "x").toList
  match src with
  | 'x' :: hex =>
    match parseHex hex with
    | some bytes =>
      match parseReader ((headerGet hdr "reader").getD "full") bytes with
      | some r => if n < 1 then ops.map fun _ => "bad-case" else runOps n (.fresh r) ops
      | none => ops.map fun _ => "bad-case"
    | none => ops.map fun _ => "bad-case"
  | _ => ops.map fun _ => "bad-case"

end AlgoVerif.C19.Driver
