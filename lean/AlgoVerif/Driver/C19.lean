import AlgoVerif.Model.C19X
/-!
Line-protocol component for C19.

header: `comp=<input|stream|wild|position> src=<seg>+<seg>+… n=<buffer size>
reader=<full|one|half|dataeof|chunks:tok,tok,…|cycle:tok,tok,…> file=x<hex of the filename given to New>`
(absent = empty file name) `dump=sum` (optional)
with `seg` = `x<hex>` | `<count>*x<hex>` (the bytes repeated `count` times; large sources stay short in the header),
`tok` = (`h` | cap)(`e` | `x` | `w` | `c`)? or `E` (after the script: `io.EOF` together with the last bytes) or
`<count>*tok`; `x`, `w` (an error wrapping `io.EOF`) and `c` (an error of a custom type) are all `Flag.ioerr`: the code
compares the error with `io.EOF` by `==` and nothing else.  `cycle:` is the token list repeated (source length + 2)
times.  `dump=sum`: the buffer is printed as `buf=h<FNV-1a 64 of its bytes>` and a lexeme as `l<length>:h<FNV-1a 64>`
and each of the two stacks as `n<length>:h<hash of its values>` (buffers of 2·65536 bytes on thousands of lines).  `n=0` is admitted for `comp=wild` only.
ops: `new`, `next`, `retract`, `lexeme`, `skip`, and `nexts <k>` = `Next` called until it has returned `k` runes or
something that is not a rune (printed: how many runes, the FNV-style hash of their code points, the result that
ended the batch or `-`), `reset` = the `Input` is dropped and the next `new` makes another one over the same
source with the same reader from its start (many call sequences in one case); every output line carries the dump of the internal state; a
position that comes back (from `Lexeme`, `Skip`, inside the `*InputError` of `Next`) is printed field by field and
then, quoted, as the caller sees it: `Position.String()` resp. the `Error()` text of the `*InputError`.
State-independent ops on explicit values (strings as `x<hex>`):
`pos <file> <off> <line> <col> <file> <off> <line> <col>` — `String()` of both positions, `p.Equal(q)`, `IsZero()` of both;
`tok <term> <lexeme> <file> <off> <line> <col> <term> <lexeme> <file> <off> <line> <col>` — `String()` of both tokens, `t.Equal(u)`.
-/
namespace AlgoVerif.C19.Driver
open AlgoVerif AlgoVerif.C19

def hexDigit (c : Char) : Option Nat :=
  if '0' ≤ c ∧ c ≤ '9' then some (c.toNat - '0'.toNat)
  else if 'a' ≤ c ∧ c ≤ 'f' then some (c.toNat - 'a'.toNat + 10)
  else none

def parseHex : List Char → Option (List UInt8)
  | [] => some []
  | a :: b :: rest =>
    match hexDigit a, hexDigit b, parseHex rest with
    | some x, some y, some r => some (UInt8.ofNat (16 * x + y) :: r)
    | _, _, _ => none
  | _ => none

def hexChar (n : Nat) : Char :=
  if n < 10 then Char.ofNat ('0'.toNat + n) else Char.ofNat ('a'.toNat + n - 10)

def showHex (bs : List UInt8) : String :=
  String.ofList (bs.flatMap fun b => [hexChar (b.toNat / 16), hexChar (b.toNat % 16)])

/-- tail-recursive hex parser into an array (sources of several 10^5 bytes) -/
def parseHexAcc : List Char → Array UInt8 → Option (Array UInt8)
  | [], acc => some acc
  | a :: b :: rest, acc =>
    match hexDigit a, hexDigit b with
    | some x, some y => parseHexAcc rest (acc.push (UInt8.ofNat (16 * x + y)))
    | _, _ => none
  | _, _ => none

def repeatInto (acc : Array UInt8) (bs : Array UInt8) : Nat → Array UInt8
  | 0 => acc
  | k + 1 => repeatInto (acc ++ bs) bs k

/-- one segment of a source: `x<hex>` or `<count>*x<hex>`, appended to `acc` -/
def parseSeg (acc : Array UInt8) (seg : String) : Option (Array UInt8) :=
  let one (w : String) : Option (Array UInt8) :=
    match w.toList with
    | 'x' :: hex => parseHexAcc hex #[]
    | _ => none
  match seg.splitOn "*" with
  | [w] => (one w).map (acc ++ ·)
  | [c, w] =>
    match c.toNat?, one w with
    | some k, some bs => some (repeatInto acc bs k)
    | _, _ => none
  | _ => none

/-- `src=<seg>+<seg>+…` -/
def parseSrc (spec : String) : Option (List UInt8) :=
  ((spec.splitOn "+").foldl (init := some #[]) fun acc seg =>
    match acc with
    | some a => parseSeg a seg
    | none => none).map Array.toList

/-! FNV-1a (64 bit) of a byte sequence; the same fold over code points for `nexts` -/
def fnvInit : UInt64 := 0xcbf29ce484222325
def fnvPrime : UInt64 := 0x100000001b3
def fnvStep (h : UInt64) (b : UInt8) : UInt64 := (h ^^^ b.toUInt64) * fnvPrime
def fnvNat (h : UInt64) (r : Nat) : UInt64 := (h ^^^ r.toUInt64) * fnvPrime
def fnvArray (a : Array UInt8) : UInt64 := a.foldl fnvStep fnvInit
def fnvList (l : List UInt8) : UInt64 := l.foldl fnvStep fnvInit

def hex64 (v : UInt64) : String :=
  String.ofList ((List.range 16).map fun i => hexChar ((v >>> (UInt64.ofNat (4 * (15 - i)))).toNat % 16))

def parseTok1 (tok : String) : Option (Sum Answer Unit) :=
  if tok = "E" then some (.inr ())
  else
    let cs := tok.toList
    let (body, flag) : List Char × Flag :=
      match cs.reverse with
      | 'e' :: r => (r.reverse, .eofWithData)
      | 'x' :: r => (r.reverse, .ioerr)
      | 'w' :: r => (r.reverse, .ioerr)
      | 'c' :: r => (r.reverse, .ioerr)
      | _ => (cs, .none)
    if body = ['h'] then some (.inl { half := true, cap := 0, flag := flag })
    else
      match (String.ofList body).toNat? with
      | some v => some (.inl { half := false, cap := v, flag := flag })
      | none => none

/-- a token, or `<count>*<token>`: the answers it stands for (`none` = malformed), `E` = `.inr ()` -/
def parseTok (tok : String) : Option (Sum (Nat × Answer) Unit) :=
  match tok.splitOn "*" with
  | [t] =>
    match parseTok1 t with
    | some (.inl a) => some (.inl (1, a))
    | some (.inr ()) => some (.inr ())
    | none => none
  | [c, t] =>
    match c.toNat?, parseTok1 t with
    | some k, some (.inl a) => some (.inl (k, a))
    | _, _ => none
  | _ => none

def pushN (acc : Array Answer) (a : Answer) : Nat → Array Answer
  | 0 => acc
  | k + 1 => pushN (acc.push a) a k

/-- the token list of `chunks:` / `cycle:`: the answers in order, and whether `E` occurs -/
def parseToks (body : String) : Option (Array Answer × Bool) :=
  if body = "" then some (#[], false)
  else
    (body.splitOn ",").foldl (init := some (#[], false)) fun acc tok =>
      match acc, parseTok tok with
      | some (as, e), some (.inl (k, a)) => some (pushN as a k, e)
      | some (as, _), some (.inr ()) => some (as, true)
      | _, _ => none

def repeatAnswers (acc : Array Answer) (as : Array Answer) : Nat → Array Answer
  | 0 => acc
  | k + 1 => repeatAnswers (acc ++ as) as k

def parseReader (spec : String) (src : List UInt8) : Option Reader :=
  let rep (a : Answer) : Reader := { rest := src, script := List.replicate (src.length + 2) a }
  if spec = "full" then some { rest := src }
  else if spec = "dataeof" then some { rest := src, tailEof := true }
  else if spec = "one" then some (rep { cap := 1 })
  else if spec = "half" then some (rep { half := true, cap := 0 })
  else if spec.startsWith "chunks:" then
    (parseToks (spec.drop 7).toString).map fun (as, e) => { rest := src, script := as.toList, tailEof := e }
  else if spec.startsWith "cycle:" then
    (parseToks (spec.drop 6).toString).map fun (as, e) =>
      { rest := src, script := (repeatAnswers #[] as (src.length + 2)).toList, tailEof := e }
  else none

def showErr : Option ErrKind → String
  | none => "nil"
  | some .eof => "eof"
  | some .other => "other"

def showPos (p : Pos) : String := s!"{p.offset} {p.line} {p.column}"

def showInts (l : List Int) : String := "[" ++ " ".intercalate (l.map toString) ++ "]"

/-- a stack in `dump=sum`: its length and the hash of its values, bottom first (an `int` as its 64-bit pattern) -/
def sumInts (l : List Int) : String :=
  s!"n{l.length}:h{hex64 (l.reverse.foldl (fun h v => fnvNat h (v.emod 18446744073709551616).toNat) fnvInit)}"

def dump (sum : Bool) (i : Input) : String :=
  (if sum then s!"buf=h{hex64 (fnvArray i.buff)}" else s!"buf=x{showHex i.buff.toList}") ++
  s!" lb={i.lexemeBegin} fw={i.forward} ahead={if i.ahead then 1 else 0} " ++
  s!"err={showErr i.err} off={i.offset} line={i.line} col={i.column} ncol={i.nextColumn} " ++
  (if sum then s!"rs={sumInts (i.runeSizes.map Int.ofNat)} lc={sumInts i.lastColumns}"
   else s!"rs={showNatList i.runeSizes.reverse} lc={showInts i.lastColumns.reverse}")

def quoted (s : String) : String := "\"" ++ s ++ "\""

/-- `file`: the filename the `Input` was made with -/
def showOut (sum : Bool) (file : String) : Out → String
  | .rune r => s!"ok r {r}"
  | .err .eof => "ok err eof"
  | .err .other => "ok err other"
  | .invalid p => s!"ok err utf8 {showPos p} {quoted (p.invalidError file).Error}"
  | .unit => "ok"
  | .lexeme bytes p =>
    (if sum then s!"ok l{bytes.length}:h{hex64 (fnvList bytes)}" else s!"ok x{showHex bytes}") ++
    s!" {showPos p} {quoted (p.at file).String}"
  | .skipped p => s!"ok {showPos p} {quoted (p.at file).String}"

/-- `x<hex>` → the string with these UTF-8 bytes -/
def parseStr (w : String) : Option String :=
  match w.toList with
  | 'x' :: hex =>
    match parseHex hex with
    | some bytes => String.fromUTF8? (ByteArray.mk bytes.toArray)
    | none => none
  | _ => none

def parsePosition : List String → Option Position
  | [f, o, l, c] =>
    match parseStr f, o.toInt?, l.toInt?, c.toInt? with
    | some f, some o, some l, some c => some { filename := f, offset := o, line := l, column := c }
    | _, _, _, _ => none
  | _ => none

def parseToken : List String → Option Token
  | t :: x :: rest =>
    match parseStr t, parseStr x, parsePosition rest with
    | some t, some x, some p => some { terminal := t, lexeme := x, pos := p }
    | _, _, _ => none
  | _ => none

/-- the ops on explicit positions / tokens (no `Input` involved) -/
def valueOp (ws : List String) : Option String :=
  match ws with
  | "pos" :: args =>
    match parsePosition (args.take 4), parsePosition (args.drop 4) with
    | some p, some q =>
      some s!"ok {quoted p.String} {quoted q.String} eq={showBool (p.Equal q)} zero={showBool p.IsZero},{showBool q.IsZero}"
    | _, _ => some "bad-op"
  | "tok" :: args =>
    match parseToken (args.take 6), parseToken (args.drop 6) with
    | some t, some u =>
      match t.String, u.String with
      | some a, some b => some s!"ok {quoted a} {quoted b} eq={showBool (t.Equal u)}"
      | _, _ => some "bad-op"
    | _, _ => some "bad-op"
  | _ => none

inductive St where
  | fresh (r : Reader)
  | live (i : XInput)
  | closed
  | dead

/-- `nexts k`: `Next` until `k` runes have come back or something else has; the number of runes, the hash of
their code points, the result that ended the batch -/
def runNexts : (k : Nat) → XInput → (count : Nat) → (h : UInt64) → Outcome (XInput × Nat × UInt64 × Option Out)
  | 0, i, c, h => .ok (i, c, h, none)
  | k + 1, i, c, h =>
    match i.step .next with
    | .ok (i', .rune r) => runNexts k i' (c + 1) (fnvNat h r)
    | .ok (i', o) => .ok (i', c, h, some o)
    | .panic => .panic
    | .diverge => .diverge

def step (sum : Bool) (file : String) (n : Nat) (r0 : Reader) (st : St) (line : String) : St × String :=
  match st, valueOp (words line) with
  | .dead, _ => (.dead, "skip")
  | st, some out => (st, out)
  | st, none =>
  match st, words line with
  | .dead, _ => (.dead, "skip")
  | _, ["reset"] => (.fresh r0, "ok reset")
  | .fresh r, ["new"] =>
    match XInput.new file r n with
    | .ok (.ok i) => (.live i, "ok | " ++ dump sum i.inp)
    | .ok (.error .eof) => (.closed, "ok err eof")
    | .ok (.error .other) => (.closed, "ok err other")
    | .panic => (.dead, "panic")
    | .diverge => (.dead, "hang")
  | .closed, [_] => (.closed, "ok noinput")
  | .live i, [w] =>
    let op? : Option Op :=
      if w = "next" then some .next else if w = "retract" then some .retract
      else if w = "lexeme" then some .lexeme else if w = "skip" then some .skip else none
    match op? with
    | none => (st, "bad-op")
    | some op =>
      match i.step op with
      | .ok (i, o) => (.live i, showOut sum i.filename o ++ " | " ++ dump sum i.inp)
      | .panic => (.dead, "panic")
      | .diverge => (.dead, "hang")
  | .live i, ["nexts", kw] =>
    match kw.toNat? with
    | none => (st, "bad-op")
    | some k =>
      match runNexts k i 0 fnvInit with
      | .ok (i, c, h, last) =>
        let l := match last with
          | some o => showOut sum i.filename o
          | none => "-"
        (.live i, s!"ok nexts {c} h{hex64 h} then {l} | " ++ dump sum i.inp)
      | .panic => (.dead, "panic")
      | .diverge => (.dead, "hang")
  | st, _ => (st, "bad-op")

def runOpsAcc (sum : Bool) (file : String) (n : Nat) (r0 : Reader) : St → List String → Array String → Array String
  | _, [], acc => acc
  | st, l :: ls, acc => let (st', out) := step sum file n r0 st l; runOpsAcc sum file n r0 st' ls (acc.push out)

def runOps (sum : Bool) (file : String) (n : Nat) (r0 : Reader) (ops : List String) : List String :=
  (runOpsAcc sum file n r0 (.fresh r0) ops #[]).toList

def runCase (hdr : List String) (ops : List String) : List String :=
  let n := headerNat hdr "n" 0
  let sum := headerGet hdr "dump" == some "sum"
  let wild := headerGet hdr "comp" == some "wild"
  match parseSrc ((headerGet hdr "src").getD "x") with
  | some bytes =>
    match parseReader ((headerGet hdr "reader").getD "full") bytes with
    | some r =>
      match parseStr ((headerGet hdr "file").getD "x") with
      | some file =>
        if n < 1 ∧ !wild then ops.map fun _ => "bad-case" else runOps sum file n r ops
      | none => ops.map fun _ => "bad-case"
    | none => ops.map fun _ => "bad-case"
  | none => ops.map fun _ => "bad-case"

end AlgoVerif.C19.Driver
