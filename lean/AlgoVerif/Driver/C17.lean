import AlgoVerif.Model.C17
import AlgoVerif.Spec.C17
/-! Line-protocol component for C17: `comp=quickfind|quickunion|weighted n=<n>`;
ops `union p q`, `find p`, `connected p q`, `count`, `dump`. -/
namespace AlgoVerif.C17.Driver
open AlgoVerif AlgoVerif.C17

inductive St where
  | qf (u : QuickFind)
  | qu (u : QuickUnion)
  | wq (u : Weighted)

def St.union : St → Int → Int → Outcome St
  | .qf u, p, q => (u.union p q).map .qf
  | .qu u, p, q => (u.union p q).map .qu
  | .wq u, p, q => (u.union p q).map .wq

def St.find : St → Int → Outcome (Int × Bool)
  | .qf u, p => u.find p
  | .qu u, p => u.find p
  | .wq u, p => u.find p

def St.isConnected : St → Int → Int → Outcome Bool
  | .qf u, p, q => u.isConnected p q
  | .qu u, p, q => u.isConnected p q
  | .wq u, p, q => u.isConnected p q

def St.count : St → Int
  | .qf u => u.getCount
  | .qu u => u.getCount
  | .wq u => u.getCount

def St.dump : St → String
  | .qf u => s!"count={u.count} id={showIntList u.id.toList}"
  | .qu u => s!"count={u.count} root={showIntList u.root.toList}"
  | .wq u => s!"count={u.count} root={showIntList u.root.toList} size={showIntList u.size.toList}"

/-- run the ops of one case; after a `panic`/`diverge` the remaining ops print `skip`. -/
def runOps (s0 : St) (ops : List String) : List String := Id.run do
  let mut s := s0
  let mut dead := false
  let mut out : Array String := #[]
  for line in ops do
    if dead then out := out.push "skip"; continue
    match words line with
    | ["union", p, q] =>
      match parseInt? p, parseInt? q with
      | some p, some q =>
        match s.union p q with
        | .ok s' => s := s'; out := out.push "ok"
        | .panic => dead := true; out := out.push "panic"
        | .diverge => dead := true; out := out.push "hang"
      | _, _ => out := out.push "bad-op"
    | ["find", p] =>
      match parseInt? p with
      | some p =>
        match s.find p with
        | .ok (r, b) => out := out.push s!"ok {r} {showBool b}"
        | .panic => dead := true; out := out.push "panic"
        | .diverge => dead := true; out := out.push "hang"
      | none => out := out.push "bad-op"
    | ["connected", p, q] =>
      match parseInt? p, parseInt? q with
      | some p, some q =>
        match s.isConnected p q with
        | .ok b => out := out.push s!"ok {showBool b}"
        | .panic => dead := true; out := out.push "panic"
        | .diverge => dead := true; out := out.push "hang"
      | _, _ => out := out.push "bad-op"
    | ["count"] => out := out.push s!"ok {s.count}"
    | ["dump"] => out := out.push s!"ok {s.dump}"
    | _ => out := out.push "bad-op"
  return out.toList

def runCase (hdr : List String) (ops : List String) : List String :=
  let n := headerNat hdr "n" 0
  match headerGet hdr "comp" with
  | some "quickfind" => runOps (.qf (QuickFind.new n)) ops
  | some "quickunion" => runOps (.qu (QuickUnion.new n)) ops
  | some "weighted" => runOps (.wq (Weighted.new n)) ops
  | _ => ops.map fun _ => "bad-case"

end AlgoVerif.C17.Driver
