import AlgoVerif.Model.C17
import AlgoVerif.Spec.C17
/-! Line-protocol component for C17: `comp=quickfind|quickunion|weighted n=<n>`;
ops `union p q`, `find p`, `connected p q`, `count`, `dump`. -/
namespace AlgoVerif.C17.Driver
open AlgoVerif AlgoVerif.C17

inductive St where
  | qf (u : QuickFind)
  | qu (u : QuickUnion)
  | wq (u : Weighted)

/-- `QuickUnion.union` with the binds of the `Outcome` monad written out as matches.  The compiled
`QuickUnion.union` keeps `u` alive inside the closure of its last bind (for `u.count`), so `setIdx` finds the
array shared and copies it: a history of `n` unions on `n` elements costs `n²` there (minutes for n = 65536).
Here `u` is taken apart before the write, the array is uniquely referenced and updated in place.
`quUnionFast_eq` (kernel-checked, below) says the two are the same function. -/
def quUnionFast (u : QuickUnion) (p q : Int) : Outcome QuickUnion :=
  if !u.isValid p || !u.isValid q then .ok u
  else
    match u.find p with
    | .panic => .panic
    | .diverge => .diverge
    | .ok (proot, _) =>
      match u.find q with
      | .panic => .panic
      | .diverge => .diverge
      | .ok (qroot, _) =>
        if proot = qroot then .ok u
        else
          match u with
          | ⟨count, root⟩ =>
            match setIdx root proot qroot with
            | .ok root' => .ok { count := count - 1, root := root' }
            | .panic => .panic
            | .diverge => .diverge

theorem quUnionFast_eq (u : QuickUnion) (p q : Int) : quUnionFast u p q = u.union p q := by
  unfold quUnionFast QuickUnion.union
  split
  · rfl
  · cases hp : u.find p <;> simp only [bind, Outcome.bind]
    rename_i a; obtain ⟨proot, bp⟩ := a
    cases hq : u.find q <;> simp only
    rename_i b; obtain ⟨qroot, bq⟩ := b
    simp only
    split
    · rfl
    · obtain ⟨count, root⟩ := u
      cases setIdx root proot qroot <;> rfl

def St.union : St → Int → Int → Outcome St
  | .qf u, p, q => (u.union p q).map .qf
  | .qu u, p, q => (quUnionFast u p q).map .qu
  | .wq u, p, q => (u.union p q).map .wq

def St.find : St → Int → Outcome (Int × Bool)
  | .qf u, p => u.find p
  | .qu u, p => u.find p
  | .wq u, p => u.find p

def St.isConnected : St → Int → Int → Outcome Bool
  | .qf u, p, q => u.isConnected p q
  | .qu u, p, q => u.isConnected p q
  | .wq u, p, q => u.isConnected p q

def St.count : St → Int
  | .qf u => u.getCount
  | .qu u => u.getCount
  | .wq u => u.getCount

def St.dump : St → String
  | .qf u => s!"count={u.count} id={showIntList u.id.toList}"
  | .qu u => s!"count={u.count} root={showIntList u.root.toList}"
  | .wq u => s!"count={u.count} root={showIntList u.root.toList} size={showIntList u.size.toList}"

/-- run the ops of one case; after a `panic`/`diverge` the remaining ops print `skip`. -/
def runOps (s0 : St) (ops : List String) : List String := Id.run do
  let mut s := s0
  let mut dead := false
  let mut out : Array String := #[]
  for line in ops do
    if dead then out := out.push "skip"; continue
    match words line with
    | ["union", p, q] =>
      match parseInt? p, parseInt? q with
      | some p, some q =>
        -- the state is moved out of `s` before the call, so that the arrays are uniquely referenced and
        -- `setIfInBounds` updates them in place (otherwise every Union copies them: quadratic for large n)
        let s0 := s
        s := .qf { count := 0, id := #[] }
        match s0.union p q with
        | .ok s' => s := s'; out := out.push "ok"
        | .panic => dead := true; out := out.push "panic"
        | .diverge => dead := true; out := out.push "hang"
      | _, _ => out := out.push "bad-op"
    | ["find", p] =>
      match parseInt? p with
      | some p =>
        match s.find p with
        | .ok (r, b) => out := out.push s!"ok {r} {showBool b}"
        | .panic => dead := true; out := out.push "panic"
        | .diverge => dead := true; out := out.push "hang"
      | none => out := out.push "bad-op"
    | ["connected", p, q] =>
      match parseInt? p, parseInt? q with
      | some p, some q =>
        match s.isConnected p q with
        | .ok b => out := out.push s!"ok {showBool b}"
        | .panic => dead := true; out := out.push "panic"
        | .diverge => dead := true; out := out.push "hang"
      | _, _ => out := out.push "bad-op"
    | ["count"] => out := out.push s!"ok {s.count}"
    | ["dump"] => out := out.push s!"ok {s.dump}"
    | _ => out := out.push "bad-op"
  return out.toList

def runCase (hdr : List String) (ops : List String) : List String :=
  let n := headerNat hdr "n" 0
  match headerGet hdr "comp" with
  | some "quickfind" => runOps (.qf (QuickFind.new n)) ops
  | some "quickunion" => runOps (.qu (QuickUnion.new n)) ops
  | some "weighted" => runOps (.wq (Weighted.new n)) ops
  | _ => ops.map fun _ => "bad-case"

end AlgoVerif.C17.Driver
