import AlgoVerif.Model.C18
import AlgoVerif.Spec.C18
/-! Line-protocol component for C18 (values are `Int`, `equal` is `==`). -/
namespace AlgoVerif.C18.Driver
open AlgoVerif AlgoVerif.C18

def eqI (a b : Int) : Bool := a == b

def showOpt : Option Int → String
  | some v => s!"ok some {v}"
  | none => "ok none"

def showOptPair : Option (Int × Int) → String
  | some (v, i) => s!"ok some {v} {i}"
  | none => "ok none -1"

/-- run the ops of one case; after a `panic`/`diverge` the remaining ops print `skip`. -/
def runQueue (block : Nat) (ops : List String) : List String := Id.run do
  let mut q : Queue Int := Queue.new block
  let mut dead := false
  let mut out : Array String := #[]
  for line in ops do
    if dead then out := out.push "skip"; continue
    match words line with
    | ["enq", v] =>
      match parseInt? v with
      | some v =>
        match q.enqueue 0 v with
        | .ok q' => q := q'; out := out.push "ok"
        | .panic => dead := true; out := out.push "panic"
        | .diverge => dead := true; out := out.push "hang"
      | none => out := out.push "bad-op"
    | ["deq"] =>
      match q.dequeue with
      | .ok (q', r) => q := q'; out := out.push (showOpt r)
      | .panic => dead := true; out := out.push "panic"
      | .diverge => dead := true; out := out.push "hang"
    | ["peek"] =>
      match q.peek with
      | .ok r => out := out.push (showOpt r)
      | .panic => dead := true; out := out.push "panic"
      | .diverge => dead := true; out := out.push "hang"
    | ["contains", v] =>
      match parseInt? v with
      | some v =>
        match q.contains eqI v with
        | .ok b => out := out.push s!"ok {showBool b}"
        | .panic => dead := true; out := out.push "panic"
        | .diverge => dead := true; out := out.push "hang"
      | none => out := out.push "bad-op"
    | ["size"] => out := out.push s!"ok {q.listSize}"
    | ["isempty"] => out := out.push s!"ok {showBool (q.listSize == 0)}"
    | _ => out := out.push "bad-op"
  return out.toList

def runStack (block : Nat) (ops : List String) : List String := Id.run do
  let mut s : Stack Int := Stack.new block
  let mut dead := false
  let mut out : Array String := #[]
  for line in ops do
    if dead then out := out.push "skip"; continue
    match words line with
    | ["push", v] =>
      match parseInt? v with
      | some v =>
        match s.push 0 v with
        | .ok s' => s := s'; out := out.push "ok"
        | .panic => dead := true; out := out.push "panic"
        | .diverge => dead := true; out := out.push "hang"
      | none => out := out.push "bad-op"
    | ["pop"] =>
      match s.pop with
      | .ok (s', r) => s := s'; out := out.push (showOpt r)
      | .panic => dead := true; out := out.push "panic"
      | .diverge => dead := true; out := out.push "hang"
    | ["peek"] =>
      match s.peek with
      | .ok r => out := out.push (showOpt r)
      | .panic => dead := true; out := out.push "panic"
      | .diverge => dead := true; out := out.push "hang"
    | ["contains", v] =>
      match parseInt? v with
      | some v =>
        match s.contains eqI v with
        | .ok b => out := out.push s!"ok {showBool b}"
        | .panic => dead := true; out := out.push "panic"
        | .diverge => dead := true; out := out.push "hang"
      | none => out := out.push "bad-op"
    | ["size"] => out := out.push s!"ok {s.listSize}"
    | ["isempty"] => out := out.push s!"ok {showBool (s.listSize == 0)}"
    | _ => out := out.push "bad-op"
  return out.toList

def runSoft (ops : List String) : List String := Id.run do
  let mut q : SoftQueue Int := SoftQueue.new
  let mut dead := false
  let mut out : Array String := #[]
  for line in ops do
    if dead then out := out.push "skip"; continue
    match words line with
    | ["enq", v] =>
      match parseInt? v with
      | some v => let (q', i) := q.enqueue v; q := q'; out := out.push s!"ok {i}"
      | none => out := out.push "bad-op"
    | ["deq"] =>
      match q.dequeue with
      | .ok (q', r) => q := q'; out := out.push (showOptPair r)
      | .panic => dead := true; out := out.push "panic"
      | .diverge => dead := true; out := out.push "hang"
    | ["peek"] =>
      match q.peek with
      | .ok r => out := out.push (showOptPair r)
      | .panic => dead := true; out := out.push "panic"
      | .diverge => dead := true; out := out.push "hang"
    | ["contains", v] =>
      match parseInt? v with
      | some v => out := out.push s!"ok {q.contains eqI v}"
      | none => out := out.push "bad-op"
    | ["size"] => out := out.push s!"ok {q.size}"
    | ["isempty"] => out := out.push s!"ok {showBool q.isEmpty}"
    | ["values"] => out := out.push s!"ok {showIntList q.values}"
    | _ => out := out.push "bad-op"
  return out.toList

def runCase (hdr : List String) (ops : List String) : List String :=
  match headerGet hdr "comp" with
  | some "queue" => runQueue (headerNat hdr "block" 1) ops
  | some "stack" => runStack (headerNat hdr "block" 1) ops
  | some "soft" => runSoft ops
  | _ => ops.map fun _ => "bad-case"

end AlgoVerif.C18.Driver
