import AlgoVerif.Model.C18Run
/-! Line-protocol component for C18 (values are `Int`, `equal` is `==`).

Every op line is parsed into the `Op` / `SoftOp` of `Model/C18Run.lean` and executed with
`Queue.step` / `Stack.step` / `SoftQueue.step` — the very functions the theorems of
`Props/C18.lean` are about. -/
namespace AlgoVerif.C18.Driver
open AlgoVerif AlgoVerif.C18

def eqI (a b : Int) : Bool := a == b

def showOpt : Option Int → String
  | some v => s!"ok some {v}"
  | none => "ok none"

def showOptPair : Option (Int × Int) → String
  | some (v, i) => s!"ok some {v} {i}"
  | none => "ok none -1"

def render : Out Int → String
  | .unit => "ok"
  | .val o => showOpt o
  | .valIdx o => showOptPair o
  | .bool b => s!"ok {showBool b}"
  | .int n => s!"ok {n}"
  | .list l => s!"ok {showIntList l}"

/-- `add`/`rem` are the op names of the component (`enq`/`deq` or `push`/`pop`) -/
def parseOp (add rem : String) (ws : List String) : Option (Op Int) :=
  match ws with
  | [w, v] =>
    if w = add then (parseInt? v).map Op.add
    else if w = "contains" then (parseInt? v).map Op.contains
    else none
  | [w] =>
    if w = rem then some .remove
    else if w = "peek" then some .peek
    else if w = "size" then some .size
    else if w = "isempty" then some .isEmpty
    else none
  | _ => none

def parseSoftOp (ws : List String) : Option (SoftOp Int) :=
  match ws with
  | ["enq", v] => (parseInt? v).map SoftOp.enq
  | ["contains", v] => (parseInt? v).map SoftOp.contains
  | ["deq"] => some .deq
  | ["peek"] => some .peek
  | ["size"] => some .size
  | ["isempty"] => some .isEmpty
  | ["values"] => some .values
  | _ => none

/-- run the ops of one case on a Model given by its `step`; after a `panic`/`diverge` the remaining
ops print `skip`. -/
def runWith {σ ι : Type} (parse : List String → Option ι) (step : σ → ι → Outcome (σ × Out Int))
    (init : σ) (ops : List String) : List String := Id.run do
  let mut s := init
  let mut dead := false
  let mut out : Array String := #[]
  for line in ops do
    if dead then out := out.push "skip"; continue
    match parse (words line) with
    | none => out := out.push "bad-op"
    | some op =>
      match step s op with
      | .ok (s', o) => s := s'; out := out.push (render o)
      | .panic => dead := true; out := out.push "panic"
      | .diverge => dead := true; out := out.push "hang"
  return out.toList

def runQueue (block : Nat) (ops : List String) : List String :=
  runWith (parseOp "enq" "deq") (Queue.step 0 eqI) (Queue.new block) ops

def runStack (block : Nat) (ops : List String) : List String :=
  runWith (parseOp "push" "pop") (Stack.step 0 eqI) (Stack.new block) ops

def runSoft (ops : List String) : List String :=
  runWith parseSoftOp (SoftQueue.step eqI) SoftQueue.new ops

def runCase (hdr : List String) (ops : List String) : List String :=
  match headerGet hdr "comp" with
  | some "queue" => runQueue (headerNat hdr "block" 1) ops
  | some "stack" => runStack (headerNat hdr "block" 1) ops
  | some "soft" => runSoft ops
  | _ => ops.map fun _ => "bad-case"

end AlgoVerif.C18.Driver
