import AlgoVerif.Model.C11
import AlgoVerif.Spec.C11
/-!
Line-protocol component for C11.

```
# case n comp=lr
terms a b …            -> ok           (grammar lines, `Model/GrammarCore`)
nonterms S A …         -> ok
start S                -> ok
prod S : a S           -> ok
prec left + -          -> ok           (one precedence level per line, earlier = binds tighter; a production
prec right [E:E,E]     -> ok            handle is written `[Head:Sym,Sym,…]`)
build slr|lalr|lr1     -> ok table <summary> | ok conflict <summary> | ok badprec | ok order-dependent | panic | hang
dump slr|lalr|lr1      -> ok <item sets of every state, in state order>
check slr|lalr|lr1     -> ok valid | ok invalid <reason>        (the executable validator `Spec.tableOK`)
parse <kind> a b c     -> ok accept <productions in the order they were emitted> | ok reject <token index> | hang
ast <kind> a b c       -> ok ast <bracketed tree> | ok reject <token index> | hang
resolve a | s3 r[E:E,+,E] acc   -> ok <action> | ok error | panic     (`resolveConflict`, actions in iteration order)
compare a | x y        -> ok 1 | ok -1 | ok 0 | ok error             (`PrecedenceLevels.Compare`)
climb id + id * id     -> ok <bracketed tree>                        (the precedence-climbing reference of the Spec)
grammar                -> ok start=… T={…} N={…} P={…}   (the grammar as it stands, everything sorted; the harness prints
                                                          the *grammar.CFG object it handed to the constructors)
unprod S : a S         -> ok           (removes a production; with `prod`/`terms`/`nonterms`/`start` after a `build`:
                                        the grammar edited between constructions — tables already built stay as they are)
parsefail <kind> <k> a b c -> ok reject <i> | ok reject -1   (the lexer fails, with an error that is not io.EOF, when asked
                                        for token number k: reject at i < k if the table objects earlier, else the lexer's
                                        error, which has no position)
```
State numbers are the implementation's (`BuildStateMap` order), not a renumbering.

Header keys `cfg=` (one CFG object kept for the whole case / a fresh one per build), `layout=` (how the production bodies
share backing arrays), `parser=` (one `lr.Parser` per table reused for every parse), `lex=` (how the lexer signals the end
of input: `io.EOF`, a wrapped `io.EOF`, a junk token together with `io.EOF`) and `oracle=` describe HOW the harness uses
the API; the Model is a pure function of the op lines, so they do not appear here: every such variation must give the
same lines.

Symbols by name: a word is `[marker] ++ encName name` as in harness/c10 (`EncName`/`DecName`): the marker `'` says
terminal (written exactly when a declared non-terminal has the same word); `encName` writes the empty name as `%` and,
byte by byte as `%XX`, every byte ≤ 0x20, 0x7F, `%`, the arrow `→`, a leading `'` or `^`, and the names `$` and `ε`
altogether.  The driver decodes every word it reads (the Model runs on the names the Go code sees: the orderings compare
`String()` renderings, `augment` appends primes to the start symbol's name) and encodes every name it prints.
-/
namespace AlgoVerif.C11.Driver
open AlgoVerif AlgoVerif.Gram AlgoVerif.C11

/-! ### names ⇄ words (the functions of harness/c10: `EncName`, `DecName`) -/

def hexVal (b : UInt8) : Option UInt8 :=
  if 48 ≤ b && b ≤ 57 then some (b - 48)
  else if 65 ≤ b && b ≤ 70 then some (b - 55)
  else if 97 ≤ b && b ≤ 102 then some (b - 87)
  else none

/-- `%XX` → the byte; any other byte (and a `%` that is not followed by two hex digits) stands for itself -/
def decBytes : Nat → List UInt8 → List UInt8
  | 0, l => l
  | _, [] => []
  | n + 1, b :: rest =>
    if b = 37 then
      match rest with
      | h :: l :: rest' =>
        match hexVal h, hexVal l with
        | some x, some y => (x * 16 + y) :: decBytes n rest'
        | _, _ => b :: decBytes n rest
      | _ => b :: decBytes n rest
    else b :: decBytes n rest

/-- the name a word (without marker) stands for -/
def decName (w : String) : String :=
  if w = "%" then "" else
  if !w.contains '%' then w else
  let bs := w.toUTF8.toList
  match String.fromUTF8? (ByteArray.mk (decBytes bs.length bs).toArray) with
  | some s => s
  | none => w

def hexDigit (n : Nat) : Char := if n < 10 then Char.ofNat (48 + n) else Char.ofNat (55 + n)

def escByte (b : UInt8) : String := String.ofList ['%', hexDigit (b.toNat / 16), hexDigit (b.toNat % 16)]

def escChar (c : Char) : String := String.join ((String.singleton c).toUTF8.toList.map escByte)

/-- the canonical word of a name -/
def encName (s : String) : String :=
  if s = "" then "%" else
  if s = "$" || s = "ε" then String.join (s.toList.map escChar) else
  let esc (first : Bool) (c : Char) : String :=
    if c.toNat ≤ 32 || c.toNat = 127 || c = '%' || c = '→' || (first && (c = '\'' || c = '^')) then escChar c
    else String.singleton c
  match s.toList with
  | [] => "%"
  | c :: rest => esc true c ++ String.join (rest.map (esc false))

def tname (t : String) : String := if t = endmarker then "$" else encName t

def symWord (s : Sy) : String := encName (symName s)

def showProd (p : Pr) : String := encName p.head ++ "→" ++ ".".intercalate (p.body.map symWord)

def showAction : Action → String
  | .shift s => s!"s{s}"
  | .reduce p => "r(" ++ showProd p ++ ")"
  | .accept => "acc"

def sortStrings (l : List String) : List String := sortBy cmpStr l

def showCell (acts : List Action) : String := "/".intercalate (sortStrings (acts.map showAction))

def showRow (T : Table) (i : Nat) : String :=
  let acts := (T.actions.filter (fun e => e.1.1 == (i : Int) && !e.2.isEmpty)).map
    fun e => tname e.1.2 ++ "=" ++ showCell e.2
  let gts := (T.gotos.filter (fun e => e.1.1 == (i : Int))).map fun e => encName e.1.2 ++ "=>" ++ toString e.2
  s!"{i}:" ++ ",".intercalate (sortStrings acts ++ sortStrings gts)

def showTable (T : Table) : String :=
  s!"n={T.nstates} " ++ " ".intercalate ((List.range T.nstates).map (showRow T))

def showItem (i : Item) : String :=
  let b := i.prod.body.map symWord
  encName i.prod.head ++ "→" ++ ".".intercalate (b.take i.dot) ++ "•" ++ ".".intercalate (b.drop i.dot) ++
    (match i.la with | some a => "," ++ tname a | none => "")

def showStates (S : StateMap) : String :=
  " ".intercalate ((S.zipIdx).map fun (I, s) => s!"{s}:" ++ ";".intercalate (I.map showItem))

partial def showTree : Tree → String
  | .leaf t => tname t
  | .node p ks => "(" ++ " ".intercalate (encName p.head :: ks.map showTree) ++ ")"
  | .nil => "nil"

/-! ### parsing the op arguments -/

def parseKind : String → Option Kind
  | "slr" => some .slr
  | "lalr" => some .lalr
  | "lr1" => some .lr1
  | _ => none

def dropS (n : Nat) (w : String) : String := String.ofList (w.toList.drop n)

def dropEndS (n : Nat) (w : String) : String := String.ofList (w.toList.take (w.toList.length - n))

/-- the terminal a word names: a terminal that has the name of a non-terminal is spelled `'N` in case files -/
def unq (w : String) : String := decName (if w.startsWith "'" then dropS 1 w else w)

def unqSym : Sy → Sy
  | .term t => .term (unq t)
  | .nonterm n => .nonterm (decName n)

/-- the grammar the Model works on: the names the words of the case file stand for -/
def unqG (g : SGrammar) : SGrammar :=
  { terms := g.terms.map unq, nonterms := g.nonterms.map decName, start := decName g.start,
    prods := g.prods.map fun p => { head := decName p.head, body := p.body.map unqSym } }

/-- the grammar respelled in canonical words (old case files write names such as `^` as they are) -/
def canonG (g : SGrammar) : SGrammar :=
  let nts := g.nonterms.map fun n => encName (decName n)
  let tw := fun (t : String) => let cw := encName (unq t); if nts.contains cw then "'" ++ cw else cw
  let sw : Sy → Sy := fun s => match s with
    | .term t => .term (tw t)
    | .nonterm n => .nonterm (encName (decName n))
  { terms := g.terms.map tw, nonterms := nts, start := encName (decName g.start),
    prods := g.prods.map fun p => { head := encName (decName p.head), body := p.body.map sw } }

/-- a symbol word of an op line (`g` is the grammar in words) -/
def mkSym (g : SGrammar) (w : String) : Sy :=
  if g.nonterms.contains w then Sym.nonterm (decName w) else Sym.term (unq w)

/-- `[Head:X,Y]` -/
def parseProdWord (g : SGrammar) (w : String) : Option Pr :=
  if w.startsWith "[" && w.endsWith "]" then
    let inner := dropEndS 1 (dropS 1 w)
    -- split at the first colon: the head has none, the body may contain the terminal ":"
    match inner.splitOn ":" with
    | h :: b1 :: bs =>
      let b := ":".intercalate (b1 :: bs)
      some { head := decName h, body := ((b.splitOn ",").filter (· ≠ "")).map (mkSym g) }
    | _ => none
  else none

def parseHandle (g : SGrammar) (w : String) : Handle :=
  match parseProdWord g w with
  | some p => .prod p
  | none => .term (unq w)

def parseAssoc : String → Option Assoc
  | "left" => some .left
  | "right" => some .right
  | "none" => some .none
  | _ => none

def parseAction (g : SGrammar) (w : String) : Option Action :=
  if w = "acc" then some .accept
  else if w.startsWith "s" then (dropS 1 w).toInt?.map Action.shift
  else if w.startsWith "r" then (parseProdWord g (dropS 1 w)).map Action.reduce
  else none

/-! ### builds -/

/-- all permutations (cells have at most 5 actions when this is called) -/
def perms {α} : List α → List (List α)
  | [] => [[]]
  | x :: xs => (perms xs).flatMap fun p => (List.range (p.length + 1)).map fun i => p.take i ++ [x] ++ p.drop i

inductive CellRes where
  | one (a : Option Action)        -- the same for every iteration order (`none` = error)
  | orderDependent
  | panic

def resolveCell (ls : List Level) (a : String) (acts : List Action) : CellRes :=
  if acts.length > 5 then .orderDependent
  else
    let rs := (perms acts).map fun p => resolveConflict ls a p
    match rs with
    | [] => .panic
    | r :: rest =>
      if rest.all (fun x => x = r) then
        match r with
        | .ok x => .one x
        | _ => .panic
      else .orderDependent

/-- the well-formedness `grammar.CFG.Verify` asks for (the property quantifies over valid grammars only) -/
def validGrammar (g : SGrammar) : Bool :=
  g.nonterms.contains g.start &&
  g.nonterms.all (fun n => g.prods.any (fun p => p.head == n)) &&
  g.prods.all (fun p => g.nonterms.contains p.head &&
    p.body.all (fun s => match s with
      | .term t => g.terms.contains t
      | .nonterm n => g.nonterms.contains n)) &&
  g.terms.all (fun t => !g.nonterms.contains t && unq t != endmarker)

structure BuiltT where
  built : Built
  final : Table          -- after ResolveConflicts
  usable : Bool          -- false after `order-dependent`
  g : SGrammar           -- the grammar (names) the table was built for: later grammar lines do not touch the table

/-- `BuildParsingTable(G, precedences)` up to the iteration order of `resolveConflict` -/
def runBuild (k : Kind) (g : SGrammar) (ls : List Level) : String × Option BuiltT :=
  match build k g (defaultFuel g) with
  | .panic => ("panic", none)
  | .diverge => ("hang", none)
  | .ok b =>
    if !levelsOK ls then ("ok badprec", none)
    else if ls.isEmpty then
      -- without levels every order gives the same result: `ResolveConflicts` as modelled, in list order
      match resolveAll ls (fun _ _ acts => acts) b.table with
      | .ok (T, .table) => ("ok table " ++ showTable T, some { built := b, final := T, usable := true, g := g })
      | .ok (T, .conflict) => ("ok conflict " ++ showTable T, some { built := b, final := T, usable := true, g := g })
      | .ok (_, .badPrecedences) => ("ok badprec", none)
      | .panic => ("panic", none)
      | .diverge => ("hang", none)
    else
      let step := fun (acc : Table × Bool × Bool × Bool) (e : (Int × String) × List Action) =>
        -- acc = (table, conflict?, orderDependent?, panic?)
        if e.2.length ≤ 1 then acc
        else match resolveCell ls e.1.2 e.2 with
          | .one (some act) => (acc.1.setCell e.1.1 e.1.2 [act], acc.2)
          | .one none => (acc.1, true, acc.2.2)
          | .orderDependent => (acc.1, acc.2.1, true, acc.2.2.2)
          | .panic => (acc.1, acc.2.1, acc.2.2.1, true)
      let (T, conflict, od, pn) := b.table.actions.foldl step (b.table, false, false, false)
      if pn then ("panic", none)
      else if od then ("ok order-dependent", some { built := b, final := T, usable := false, g := g })
      else if conflict then ("ok conflict " ++ showTable T, some { built := b, final := T, usable := true, g := g })
      else ("ok table " ++ showTable T, some { built := b, final := T, usable := true, g := g })

structure St where
  g : SGrammar := SGrammar.empty
  levels : List Level := []
  slr : Option BuiltT := none
  lalr : Option BuiltT := none
  lr1 : Option BuiltT := none

def St.get (st : St) : Kind → Option BuiltT
  | .slr => st.slr
  | .lalr => st.lalr
  | .lr1 => st.lr1

def St.set (st : St) (k : Kind) (b : Option BuiltT) : St :=
  match k with
  | .slr => { st with slr := b }
  | .lalr => { st with lalr := b }
  | .lr1 => { st with lr1 := b }

/-- fuel of the driver loop: far above what a parse needs (the harness has a watchdog instead) -/
def parseFuel (w : List String) : Nat := 200000 + 64 * w.length

def runParse (st : St) (k : Kind) (w : List String) (ast : Bool) : String :=
  match st.get k with
  | some bt =>
    if !bt.usable then "ok no-table"
    else match parse bt.final.toTbl (parseFuel w) w with
      | .ok (.accept ps root) =>
        if ast then "ok ast " ++ showTree root else "ok accept " ++ ";".intercalate (ps.map showProd)
      | .ok (.reject k) => s!"ok reject {k}"
      | .panic => "panic"
      | .diverge => "hang"
  | none => "ok no-table"

/-- a token no table has a column for: stands for "the lexer returned an error here" -/
def lexError : String := "\x00lexer-error"

/-- `parsefail`: the lexer fails when asked for token number `k` -/
def runParseFail (st : St) (k : Kind) (at_ : Nat) (w : List String) : String :=
  match st.get k with
  | some bt =>
    if !bt.usable then "ok no-table"
    else match parse bt.final.toTbl (parseFuel w) (w.take at_ ++ [lexError]) with
      | .ok (.accept _ _) => "ok accept-after-lexer-error"
      | .ok (.reject i) => if i < at_ then s!"ok reject {i}" else "ok reject -1"
      | .panic => "panic"
      | .diverge => "hang"
  | none => "ok no-table"

/-- `Spec.showExpr` with the operator names written as words -/
def showExprW : Spec.Expr → String
  | .id => "(E id)"
  | .bin l op r => "(E " ++ showExprW l ++ " " ++ encName op ++ " " ++ showExprW r ++ ")"

def splitBar (ws : List String) : List String × List String :=
  (ws.takeWhile (· ≠ "|"), (ws.dropWhile (· ≠ "|")).drop 1)

def runCase (_hdr : List String) (ops : List String) : List String := Id.run do
  let mut st : St := {}
  let mut dead := false
  let mut out : Array String := #[]
  for line in ops do
    if dead then out := out.push "skip"; continue
    let (g', used) := parseGrammarLine st.g line
    if used then
      st := { st with g := g' }
      out := out.push "ok"
      continue
    match words line with
    | "prec" :: a :: hs =>
      match parseAssoc a with
      | some a =>
        st := { st with levels := st.levels ++ [{ assoc := a, handles := hs.map (parseHandle st.g) }] }
        out := out.push "ok"
      | none => out := out.push "bad-op"
    | ["build", k] =>
      match parseKind k with
      | some k =>
        if !validGrammar st.g then out := out.push "ok invalid-grammar" else
        let (s, b) := runBuild k (unqG st.g) st.levels
        st := st.set k b
        if s = "panic" || s = "hang" then dead := true
        out := out.push s
      | none => out := out.push "bad-op"
    | ["dump", k] =>
      match (parseKind k).bind st.get with
      | some bt => out := out.push ("ok " ++ showStates bt.built.states)
      | none => out := out.push "ok no-table"
    | ["check", k] =>
      match (parseKind k).bind st.get with
      | some bt =>
        match Spec.tableCheck bt.g bt.built with
        | none =>
          -- a conflict-free table must also pass the check `C11_complete_validated` rests on
          let kd := (parseKind k).getD .lr1
          if Spec.chkConflictFree bt.built.table && !Spec.completeOKFor kd bt.g bt.built then
            out := out.push "ok invalid completeness-validator"
          else out := out.push "ok valid"
        | some why => out := out.push ("ok invalid " ++ why)
      | none => out := out.push "ok no-table"
    | ["chain"] =>
      -- the per-run certificate of `C11_chain_validated` (tables built without precedence levels)
      match st.slr, st.lalr, st.lr1 with
      | some a, some b, some c =>
        if !st.levels.isEmpty then out := out.push "ok no-table"
        else if !Spec.chainCert a.built b.built then out := out.push "ok chain-broken slr/lalr"
        else if !Spec.chainCert b.built c.built then out := out.push "ok chain-broken lalr/lr1"
        else out := out.push "ok chain"
      | _, _, _ => out := out.push "ok no-table"
    | "parse" :: k :: w =>
      match parseKind k with
      | some k =>
        let s := runParse st k (w.map unq) false
        if s = "panic" || s = "hang" then dead := true
        out := out.push s
      | none => out := out.push "bad-op"
    | "ast" :: k :: w =>
      match parseKind k with
      | some k =>
        let s := runParse st k (w.map unq) true
        if s = "panic" || s = "hang" then dead := true
        out := out.push s
      | none => out := out.push "bad-op"
    | "parsefail" :: k :: n :: w =>
      match parseKind k, n.toNat? with
      | some k, some n =>
        if n > w.length then out := out.push "bad-op" else
        let s := runParseFail st k n (w.map unq)
        if s = "panic" || s = "hang" then dead := true
        out := out.push s
      | _, _ => out := out.push "bad-op"
    | ["grammar"] => out := out.push ("ok " ++ showGrammar (canonG st.g))
    | "unprod" :: h :: ":" :: body =>
      let b : List Sy := body.map fun w => if st.g.nonterms.contains w then Sym.nonterm w else Sym.term w
      let p : Pr := { head := h, body := b }
      st := { st with g := { st.g with prods := st.g.prods.filter (fun q => q != p) } }
      out := out.push "ok"
    | "resolve" :: rest =>
      let (l, r) := splitBar rest
      match l, r.mapM (parseAction st.g) with
      | [a0], some acts =>
        let a := unq a0
        if acts.length < 2 || acts.eraseDups.length ≠ acts.length then out := out.push "bad-op"
        else if !levelsOK st.levels then out := out.push "ok error"     -- `ResolveConflicts` stops at `Verify`
        else
        match resolveConflict st.levels a acts with
        | .ok (some act) => out := out.push ("ok " ++ showAction act)
        | .ok none => out := out.push "ok error"
        | .panic => dead := true; out := out.push "panic"
        | .diverge => dead := true; out := out.push "hang"
      | _, _ => out := out.push "bad-op"
    | "compare" :: rest =>
      let (l, r) := splitBar rest
      match l, r.mapM (parseAction st.g) with
      | [a0], some [x, y] =>
        let a := unq a0
        match handleOfAction a x, handleOfAction a y with
        | some hx, some hy =>
          match compareAH st.levels (x, hx) (y, hy) with
          | some c => out := out.push s!"ok {c}"
          | none => out := out.push "ok error"
        | _, _ => out := out.push "bad-op"
      | _, _ => out := out.push "bad-op"
    | "climb" :: w =>
      match Spec.climb st.levels (w.map unq) with
      | some t => out := out.push ("ok " ++ showExprW t)
      | none => out := out.push "ok reject"
    | _ => out := out.push "bad-op"
  return out.toList

end AlgoVerif.C11.Driver
