import AlgoVerif.Model.C06X
import AlgoVerif.Proofs.C06Fast
/-!
Line-protocol component for C06 (values are `Int`; keys are hex-encoded, `-` is the empty string).
A case has two registers `a`, `b` holding tries of the implementation named by `comp=`; every operation
applies to `a`.

    put <hex> <int> | get <hex> | delete <hex> | deletemin | deletemax | deleteall | size | min | max
    floor <hex> | ceiling <hex> | select <int> | rank <hex> | range <hex> <hex> | rangesize <hex> <hex>
    all | withprefix <hex> | longestprefixof <hex> | match <hex> | dump
    all2 (All() run twice, nested, and through two pull iterators: prints what `all` prints) | equalself (a.Equal(a))
    isempty | height | traverse <order> <stop> | anymatch <pred> | allmatch <pred> | firstmatch <pred>
    selectmatch <pred>     (b := a.SelectMatch; prints the dump of b)
    partitionmatch <pred>  (m, b := a.PartitionMatch; prints the dumps of m and b)
    equal (a.Equal(b)) | equalother (a.Equal(trie of the other implementation)) | swap

    <order> = vlr | vrl | lvr | rvl | lrv | rlv | asc | desc | bad
    <pred>  = true | false | vmod:<m>:<r> (val % m == r) | klt:<hex> (key < hex) | kpre:<hex> (key has the prefix)
              | klen:<n> (len(key) == n)
-/
namespace AlgoVerif.C06.Driver
open AlgoVerif AlgoVerif.C06

def hexVal (c : Char) : Option Nat :=
  if '0' ≤ c ∧ c ≤ '9' then some (c.toNat - '0'.toNat)
  else if 'a' ≤ c ∧ c ≤ 'f' then some (c.toNat - 'a'.toNat + 10)
  else none

def parseHexList : List Char → Option Key
  | [] => some []
  | a :: b :: rest =>
    match hexVal a, hexVal b, parseHexList rest with
    | some x, some y, some r => some (UInt8.ofNat (16 * x + y) :: r)
    | _, _, _ => none
  | _ => none

def parseKey (s : String) : Option Key :=
  if s = "-" then some [] else parseHexList s.toList

def hexDigit (n : Nat) : Char :=
  if n < 10 then Char.ofNat ('0'.toNat + n) else Char.ofNat ('a'.toNat + n - 10)

def showByte (b : UInt8) : String := String.ofList [hexDigit (b.toNat / 16), hexDigit (b.toNat % 16)]

def showKey (k : Key) : String :=
  if k.isEmpty then "-" else String.join (k.map showByte)

def showKV : Option (Key × Int) → String
  | some (k, v) => s!"ok some {showKey k} {v}"
  | none => "ok none"

def showList (l : List (Key × Int)) : String :=
  "ok [" ++ " ".intercalate (l.map fun e => s!"{showKey e.1}:{e.2}") ++ "]"

def showOut : Out Int → String
  | .unit => "ok"
  | .val (some v) => s!"ok some {v}"
  | .val none => "ok none"
  | .kv o => showKV o
  | .int n => s!"ok {n}"
  | .list l => showList l

def parseOp (line : String) : Option (Op Int) :=
  match words line with
  | ["put", k, v] => do some (.put (← parseKey k) (← parseInt? v))
  | ["get", k] => do some (.get (← parseKey k))
  | ["delete", k] => do some (.delete (← parseKey k))
  | ["deletemin"] => some .deleteMin
  | ["deletemax"] => some .deleteMax
  | ["deleteall"] => some .deleteAll
  | ["size"] => some .size
  | ["min"] => some .min
  | ["max"] => some .max
  | ["floor", k] => do some (.floor (← parseKey k))
  | ["ceiling", k] => do some (.ceiling (← parseKey k))
  | ["select", i] => do some (.select (← parseInt? i))
  | ["rank", k] => do some (.rank (← parseKey k))
  | ["range", a, b] => do some (.range (← parseKey a) (← parseKey b))
  | ["rangesize", a, b] => do some (.rangeSize (← parseKey a) (← parseKey b))
  | ["all"] => some .all
  | ["all2"] => some .all   -- `All()` run twice / nested / pulled alternately: iterations are independent, the answer is `All`
  | ["withprefix", k] => do some (.withPrefix (← parseKey k))
  | ["longestprefixof", k] => do some (.longestPrefixOf (← parseKey k))
  | ["match", k] => do some (.match (← parseKey k))
  | _ => none

def parseOrder : String → Option Order
  | "vlr" => some .vlr | "vrl" => some .vrl | "lvr" => some .lvr | "rvl" => some .rvl
  | "lrv" => some .lrv | "rlv" => some .rlv | "asc" => some .asc | "desc" => some .desc
  | "bad" => some .bad
  | _ => none

def parsePred (s : String) : Option (Key → Int → Bool) :=
  match s.splitOn ":" with
  | ["true"] => some fun _ _ => true
  | ["false"] => some fun _ _ => false
  | ["vmod", m, r] => do
    let m ← parseInt? m
    let r ← parseInt? r
    if m == 0 then none else some fun _ v => Int.tmod v m == r   -- Go's % truncates
  | ["klt", h] => do let h ← parseKey h; some fun k _ => klt k h
  | ["kpre", h] => do let h ← parseKey h; some fun k _ => h.isPrefixOf k
  | ["klen", n] => do let n ← parseNat? n; some fun k _ => k.length == n
  | _ => none

def parseXOp (line : String) : Option (XOp Int) :=
  match words line with
  | ["isempty"] => some .isEmpty
  | ["height"] => some .height
  | ["traverse", o, k] => do some (.traverse (← parseOrder o) (← parseInt? k))
  | ["anymatch", p] => do some (.anyMatch (← parsePred p))
  | ["allmatch", p] => do some (.allMatch (← parsePred p))
  | ["firstmatch", p] => do some (.firstMatch (← parsePred p))
  | ["selectmatch", p] => do some (.selectMatch (← parsePred p))
  | ["partitionmatch", p] => do some (.partitionMatch (← parsePred p))
  | ["equal"] => some .equal
  | ["equalother"] => some .equalOther
  | ["swap"] => some .swap
  | _ => (parseOp line).map .base

/-! ### state dumps (same text as `trie.VerifDump`) -/

def dumpBNode : BNode Int → String
  | .nil => "."
  | .node ch val term l r =>
    s!"({showByte ch} {if term then "t" else "f"} {val} {dumpBNode l} {dumpBNode r})"

def dumpBinary (t : Binary Int) : String := s!"size={t.size} {dumpBNode t.root}"

/-- pre-order numbering over the downward links -/
def numberNodes (t : Patricia Int) : Nat → Option Nat → Array Nat → Array Nat
  | 0, _, order => order
  | f + 1, p, order =>
    match p with
    | none => order
    | some i =>
      if order.contains i then order else
      match t.nodes[i]? with
      | none => order
      | some n =>
        let order := order.push i
        let down (q : Option Nat) : Bool :=
          match q with
          | some j => (match t.nodes[j]? with | some m => m.bp > n.bp | none => false)
          | none => false
        let order := if down n.left then numberNodes t f n.left order else order
        if down n.right then numberNodes t f n.right order else order

def dumpPatricia (t : Patricia Int) : String :=
  match t.root with
  | none => s!"size={t.size} root=."
  | some _ =>
    let order := numberNodes t (t.nodes.size + 1) t.root #[]
    let ref (q : Option Nat) : String :=
      match q with
      | none => "."
      | some j => match order.idxOf? j with
        | some k => toString k
        | none => "?"
    let cells := order.toList.zipIdx.map fun (i, k) =>
      match t.nodes[i]? with
      | some n => s!" [{k} {n.bp} {showKey n.key} {n.val} {ref n.left} {ref n.right}]"
      | none => " [?]"
    s!"size={t.size} root=0" ++ String.join cells

def showXOut {σ : Type} (dump : σ → String) : XOut Int σ → String
  | .base o => showOut o
  | .bool b => "ok " ++ showBool b
  | .trie t => "ok " ++ dump t
  | .tries t u => "ok " ++ dump t ++ " | " ++ dump u

/-- run the ops of one case on the two registers; after a `panic`/`diverge` the remaining ops print `skip`. -/
def runWith {σ : Type} (step : σ × σ → XOp Int → Outcome ((σ × σ) × XOut Int σ)) (dump : σ → String) (init : σ)
    (ops : List String) : List String := Id.run do
  let mut s := (init, init)
  let mut dead := false
  let mut out : Array String := #[]
  for line in ops do
    if dead then out := out.push "skip"; continue
    if line.trimAscii.toString == "dump" then out := out.push ("ok " ++ dump s.1); continue
    if line.trimAscii.toString == "equalself" then   -- `a.Equal(a)`: `Equal` with both registers holding `a`; nothing changes
      match step (s.1, s.1) .equal with
      | .ok (_, o) => out := out.push (showXOut dump o)
      | .panic => dead := true; out := out.push "panic"
      | .diverge => dead := true; out := out.push "hang"
      continue
    match parseXOp line with
    | none => out := out.push "bad-op"
    | some op =>
      match step s op with
      | .ok (s', o) => s := s'; out := out.push (showXOut dump o)
      | .panic => dead := true; out := out.push "panic"
      | .diverge => dead := true; out := out.push "hang"
  return out.toList

/-- `generic.NewEqualFunc[int]()`: `==` -/
def eqInt (a b : Int) : Bool := a == b

/-- the binary trie runs `Binary.xstepFast` (= `Binary.xstep`, `Proofs/C06Fast.lean`, restated as
`C06_driver_step_is_model_step`): `All` in linear time -/
def runCase (hdr : List String) (ops : List String) : List String :=
  match headerGet hdr "comp" with
  | some "binary" => runWith (Binary.xstepFast eqInt) dumpBinary (Binary.new : Binary Int) ops
  | some "patricia" => runWith (Patricia.xstep eqInt) dumpPatricia (Patricia.new : Patricia Int) ops
  | _ => ops.map fun _ => "bad-case"

end AlgoVerif.C06.Driver
