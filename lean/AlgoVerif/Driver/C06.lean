import AlgoVerif.Common
/-! Line-protocol component for C06 — not built yet. -/
namespace AlgoVerif.C06.Driver

def runCase (_hdr : List String) (ops : List String) : List String :=
  ops.map fun _ => "bad-case"

end AlgoVerif.C06.Driver
