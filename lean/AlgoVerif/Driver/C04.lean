import AlgoVerif.Model.C04Run
/-!
Line-protocol component for C04 (keys and values are `Int`, `eqVal` is `==`).

Header: `comp=binary|binomial|fibonacci ori=min|max|half|minraw|min7|maxraw size=<n>` (`size` only for `binary`;
`minraw` = `a-b`, `min7` = `7*(a-b)`, `maxraw` = `b-a`: comparators that are not normalised to -1/0/+1), optionally
`oris=a,b,c` (mergeable heaps: heap `r` of the family is built with comparator `r mod 3` of the list; `ImplC.run`).
Ops (every heap op names its register; `binary` has register 0 only):

    ins r k v | del r | peek r | clear r | size r | empty r | hask r k | hasv r v | dump r
    merge d s            (mergeable heaps: heap[d].Merge(heap[s]); both registers stay in use)
    mergeother d         (mergeable heaps: heap[d].Merge(H) for an H of another type; nothing happens)
    maxdeg lo hi         (fibonacci: break points of `maxDegree` on [lo, hi])
-/
namespace AlgoVerif.C04.Driver
open AlgoVerif AlgoVerif.C04

def eqI (a b : Int) : Bool := a == b

def cmpNamed : Option String → Int → Int → Int
  | some "max" => cmpDesc
  | some "half" => cmpHalf
  | some "minraw" => cmpSub
  | some "min7" => cmpSub7
  | some "maxraw" => cmpRevSub
  | _ => cmpAsc

def cmpOf (hdr : List String) : Int → Int → Int := cmpNamed (headerGet hdr "ori")

/-- `oris=a,b,c`: heap `r` of the family is built with comparator number `r mod 3` of the list (absent: every heap
with `ori`) -/
def cmpsOf (hdr : List String) : Nat → Int → Int → Int :=
  match headerGet hdr "oris" with
  | some l =>
    let names := (l.splitOn ",").toArray
    if names.size = 0 then fun _ => cmpOf hdr else fun r => cmpNamed names[r % names.size]?
  | none => fun _ => cmpOf hdr

def showOut : Out Int Int → String
  | .unit => "ok"
  | .kv none => "ok none"
  | .kv (some (k, v)) => s!"ok some {k} {v}"
  | .bool b => s!"ok {showBool b}"
  | .int n => s!"ok {n}"

def showCell : Cell Int Int → String
  | none => "_"
  | some (k, v) => s!"{k}:{v}"

def dumpBinary (h : Binary Int Int) : String :=
  s!"ok n={h.n} cap={h.heap.size} [" ++ " ".intercalate (h.heap.toList.map showCell) ++ "]"

mutual
def showTree : Tree Int Int → String
  | .node k v d cs => s!"{k}:{v}/{d}" ++ (if cs.isEmpty then "" else "(" ++ showForest cs ++ ")")
def showForest : List (Tree Int Int) → String
  | [] => ""
  | [t] => showTree t
  | t :: ts => showTree t ++ " " ++ showForest ts
end

def dumpBinomial (h : Binomial Int Int) : String := s!"ok n={h.n} [" ++ showForest h.head ++ "]"
def dumpFib (h : Fib Int Int) : String := s!"ok n={h.n} [" ++ showForest h.roots ++ "]"

/-- parse a heap operation `name r args…` into (register, op) -/
def parseOp : List String → Option (Nat × Op Int Int)
  | ["ins", r, k, v] => do
    let r ← parseNat? r; let k ← parseInt? k; let v ← parseInt? v
    pure (r, .insert k v)
  | ["del", r] => do let r ← parseNat? r; pure (r, .delete)
  | ["peek", r] => do let r ← parseNat? r; pure (r, .peek)
  | ["clear", r] => do let r ← parseNat? r; pure (r, .deleteAll)
  | ["size", r] => do let r ← parseNat? r; pure (r, .size)
  | ["empty", r] => do let r ← parseNat? r; pure (r, .isEmpty)
  | ["hask", r, k] => do let r ← parseNat? r; let k ← parseInt? k; pure (r, .containsKey k)
  | ["hasv", r, v] => do let r ← parseNat? r; let v ← parseInt? v; pure (r, .containsValue v)
  | _ => none

def runBinary (cmp : Int → Int → Int) (size : Nat) (ops : List String) : List String := Id.run do
  let mut h : Binary Int Int := Binary.new size
  let mut dead := false
  let mut out : Array String := #[]
  for line in ops do
    if dead then out := out.push "skip"; continue
    let ws := words line
    match ws with
    | ["dump", "0"] => out := out.push (dumpBinary h)
    | _ =>
      match parseOp ws with
      | some (0, op) =>
        -- hand the state over (no second reference is kept), so that the arrays are updated in place
        let cur := h
        h := { n := 0, heap := #[] }
        match Binary.step cmp eqI cur op with
        | .ok (h', o) => h := h'; out := out.push (showOut o)
        | .panic => dead := true; out := out.push "panic"
        | .diverge => dead := true; out := out.push "hang"
      | _ => out := out.push "bad-op"
  return out.toList

/-- break points of `maxDegree` on `[lo, hi]`: `lo:v0 n1:v1 …` (a new entry wherever the value changes) -/
def maxdegBreaks (lo hi : Nat) : String := Id.run do
  let mut parts : Array String := #[]
  let mut last : Option String := none
  for n in [lo:hi+1] do
    let v := match maxDegree (n : Int) with
      | .ok d => toString d
      | .panic => "panic"
      | .diverge => "hang"
    if last != some v then
      parts := parts.push s!"{n}:{v}"
      last := some v
  return "ok " ++ " ".intercalate parts.toList

def runMergeable (I : ImplC Int Int) (cmps : Nat → Int → Int → Int) (dump : I.σ → String) (fib : Bool)
    (ops : List String) : List String := Id.run do
  let mut regs : Array I.σ := #[]
  let mut dead := false
  let mut out : Array String := #[]
  for line in ops do
    if dead then out := out.push "skip"; continue
    let ws := words line
    match ws with
    | ["dump", r] =>
      match parseNat? r with
      | some r => out := out.push (dump (regs.getD r I.init))
      | none => out := out.push "bad-op"
    | ["maxdeg", lo, hi] =>
      match fib, parseNat? lo, parseNat? hi with
      | true, some lo, some hi => out := out.push (maxdegBreaks lo hi)
      | _, _, _ => out := out.push "bad-op"
    | ["mergeother", d] =>
      -- the operand is not a heap of this implementation type: `Impl.mstep` leaves every register as it is
      match parseNat? d with
      | some _ => out := out.push "ok"
      | none => out := out.push "bad-op"
    | ["merge", d, s] =>
      match parseNat? d, parseNat? s with
      | some d, some s =>
        if d = s then out := out.push "ok"   -- `hh != h` fails: nothing happens
        else
          while regs.size ≤ max d s do regs := regs.push I.init
          match I.merge (cmps d) (regs.getD d I.init) (regs.getD s I.init) with
          | .ok p => regs := (regs.setIfInBounds d p.1).setIfInBounds s p.2; out := out.push "ok"
          | .panic => dead := true; out := out.push "panic"
          | .diverge => dead := true; out := out.push "hang"
      | _, _ => out := out.push "bad-op"
    | _ =>
      match parseOp ws with
      | some (r, op) =>
        while regs.size ≤ r do regs := regs.push I.init
        match I.step (cmps r) (regs.getD r I.init) op with
        | .ok (h', o) => regs := regs.setIfInBounds r h'; out := out.push (showOut o)
        | .panic => dead := true; out := out.push "panic"
        | .diverge => dead := true; out := out.push "hang"
      | none => out := out.push "bad-op"
  return out.toList

def runCase (hdr : List String) (ops : List String) : List String :=
  let cmp := cmpOf hdr
  -- `huge=1`: heaps of 2^18 .. 5*10^6 entries behind single `bulk` lines, judged by the harness oracle alone; the
  -- executable Model is not run at that size and the executor prints `ok` per line as well (a panic still differs)
  if (headerGet hdr "huge").isSome then ops.map fun _ => "ok" else
  match headerGet hdr "comp" with
  | some "binary" => runBinary cmp (headerNat hdr "size" 0) ops
  | some "binomial" => runMergeable (binomialImplC eqI) (cmpsOf hdr) dumpBinomial false ops
  | some "fibonacci" => runMergeable (fibImplC eqI) (cmpsOf hdr) dumpFib true ops
  | _ => ops.map fun _ => "bad-case"

end AlgoVerif.C04.Driver
