import AlgoVerif.Driver.C10
/-! Line-protocol component for C12: the same grammar cases and ops as C10 (`parse`, `ast`, `table`, …). -/
namespace AlgoVerif.C12.Driver

def runCase (hdr : List String) (ops : List String) : List String :=
  AlgoVerif.C10.Driver.runCase hdr ops

end AlgoVerif.C12.Driver
