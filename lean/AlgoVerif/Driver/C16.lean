import AlgoVerif.Model.C16
import AlgoVerif.Model.C16X
/-!
Line-protocol component for C16.

    # case <n> comp=reg sh=<uint32> regs=<kinds>
        kinds: u unordered, s stable, sorted with comparator a: sign of `a-b` (ascending), d: sign of `b-a` (descending),
               b: `a-b`, c: `7*(a-b)`, e: `b-a` (comparators whose values are not normalised)
    add i v…  remove i v…  removeall i  contains i v…  size i  isempty i  all i  string i
    equal i j  subset i j  superset i j  clone d i  cloneempty d i  new d k v…  newf d k F v…
    union d i j…  inter d i j…  diff d i j…  powerset i  partitions i  powermut i v  partmut i v
    powerstr i  partstr i
    addseq i lo n step  removeseq i lo n step     n calls Add(v) / Remove(v), v = lo, lo+step, …  (the harness examines the set after every call)
    addvar i lo n step  removevar i lo n step     one variadic call with those n values
    all2 i j      seq := i.All(); run seq; run j.All(); run seq again        (prints the three runs; three draws)
    allthen i add v… | remove v… | removeall      seq := i.All(); the mutation; run seq          (prints the run)
    allrerun i add v… | remove v… | removeall     seq := i.All(); run seq; the mutation; run seq (prints both runs)
    allnever i    seq := i.All(), never run                                   (no draw from the shuffle source)
A sequence is a handle on its set object (`Model/C16.lean`, `Seq`): obtaining it lists and draws nothing; every RUN
lists — and for the unordered set shuffles, one draw — the members the object has at that moment (/repo 4fb90a5).
    allnest i j   for range i.All() { run j.All() }                          (prints the outer run and the number of inner yields)
    allpull i j   iter.Pull(i.All()), iter.Pull(j.All()) advanced alternately (prints both)
    allbreak i k  a traversal of i abandoned after k members, then a full one (prints min(k, size) and the full run)
    anymatch i P  allmatch i P  firstmatch i P  select d i P  partition d e i P     P ∈ ge:<k> lt:<k> odd even

`newf d k F v…` is `NewWithFormat` / `NewStableWithFormat` / `NewSortedWithFormat` (by kind `k`) with the custom
format `F` ∈ A: `<a;b>`, B: `[a|b]`, N: `2:(a b)` (the number of members first); every other constructor stores the
default `{a, b}`.  `string i`, and the result lines of union/inter/diff/select/partition, print `String()` of
the set object — in whatever format it carries (`Model/C16X.lean`); `powerstr i` / `partstr i` print
`Powerset(s).String()` / `Partitions(s).String()` (containers in the default format over the members' own
`String()`, in stored order).  A header key `src=global` (the harness then leaves the package's own random
source in place) is ignored here: such cases only contain operations whose output does not depend on the
iteration order of an unordered set.

Values are `Int`.  The harness installs (through the verif hook `VerifSetShuffleSource`) a scripted
`rand.Source` — a 32-bit LCG started at `sh` — behind the package-level `r` of /repo/set, and this file
carries the mirror of `math/rand`'s `(*Rand).Shuffle` / `int31n` over that source, so that every
iteration order (and with it the internal member order that `String()` shows) is the same on both
sides.  The Model itself is parametric in the shuffle.
-/
namespace AlgoVerif.C16.Driver
open AlgoVerif AlgoVerif.C16

/-! ### scripted source + mirror of math/rand -/

def lcg (x : UInt32) : UInt32 := x * 1664525 + 1013904223

/-- `for low < thresh { v = r.Uint32(); prod = uint64(v) * uint64(n); low = uint32(prod) }` -/
def int31nLoop (n thresh : UInt32) : Nat → UInt32 → UInt64 → UInt64 × UInt32
  | 0, x, prod => (prod, x)
  | f + 1, x, prod =>
    if prod.toUInt32 < thresh then
      let x := lcg x
      int31nLoop n thresh f x (x.toUInt64 * n.toUInt64)
    else (prod, x)

/-- `(*Rand).int31n(n)` with `Uint32()` = next LCG value -/
def int31n (n : UInt32) (x : UInt32) : UInt32 × UInt32 :=
  let x := lcg x
  let prod : UInt64 := x.toUInt64 * n.toUInt64
  let (prod, x) :=
    if prod.toUInt32 < n then int31nLoop n ((0 - n) % n) 1000 x prod else (prod, x)
  ((prod >>> 32).toUInt32, x)

/-- `indices` after `r.Shuffle(n, func(i, j) { indices[i], indices[j] = indices[j], indices[i] })` -/
def shuffleLoop : Nat → Array Nat → UInt32 → Array Nat × UInt32
  | 0, a, g => (a, g)
  | i + 1, a, g =>
    -- for ; i > 0; i-- { j := int(r.int31n(int32(i + 1))); swap(i, j) }   (here the loop variable is i+1)
    let r := int31n (i + 2).toUInt32 g
    shuffleLoop i (a.swapIfInBounds (i + 1) r.1.toNat) r.2

def shuffle : Shuffle UInt32 := fun n g =>
  let (a, g) := shuffleLoop (n - 1) (Array.range n) g
  (a.toList, g)

/-! ### callbacks -/

def eqI : EqualFunc Int := fun a b => .ok (a == b)
def cmpAsc : CompareFunc Int := fun a b => .ok (if a < b then -1 else if a > b then 1 else 0)
def cmpDesc : CompareFunc Int := fun a b => .ok (if a < b then 1 else if a > b then -1 else 0)
/-- comparators that return the difference, not its sign -/
def cmpSub : CompareFunc Int := fun a b => .ok (a - b)
def cmpSub7 : CompareFunc Int := fun a b => .ok (7 * (a - b))
def cmpRevSub : CompareFunc Int := fun a b => .ok (b - a)

def implOf : Char → Option (Impl Int)
  | 'u' => some (.unordered eqI)
  | 's' => some (.stable eqI)
  | 'a' => some (.sorted cmpAsc)
  | 'd' => some (.sorted cmpDesc)
  | 'b' => some (.sorted cmpSub)
  | 'c' => some (.sorted cmpSub7)
  | 'e' => some (.sorted cmpRevSub)
  | _ => none

def pvI : Int → String := fun v => toString v

/-- the custom formats the harness passes to `New…WithFormat` -/
def fmtOf : String → Option (StringFormat Int)
  | "A" => some fun ms => "<" ++ ";".intercalate (ms.map pvI) ++ ">"
  | "B" => some fun ms => "[" ++ "|".intercalate (ms.map pvI) ++ "]"
  | "N" => some fun ms => toString ms.length ++ ":(" ++ " ".intercalate (ms.map pvI) ++ ")"
  | _ => none

def isUnordered {α} (s : MSet α) : Bool :=
  match s.impl with
  | .unordered _ => true
  | _ => false

/-! ### canonical printing -/

def insertBy {α} (lt : α → α → Bool) (x : α) : List α → List α
  | [] => [x]
  | y :: ys => if lt x y then x :: y :: ys else y :: insertBy lt x ys

def isort {α} (lt : α → α → Bool) (l : List α) : List α := l.foldr (insertBy lt) []

/-- lexicographic order, a proper prefix first -/
def lexLt {α} (lt : α → α → Bool) : List α → List α → Bool
  | [], [] => false
  | [], _ :: _ => true
  | _ :: _, [] => false
  | x :: xs, y :: ys => if lt x y then true else if lt y x then false else lexLt lt xs ys

def ltI (a b : Int) : Bool := a < b
def ltL : List Int → List Int → Bool := lexLt ltI
def ltLL : List (List Int) → List (List Int) → Bool := lexLt ltL

/-- members in iteration order for stable/sorted, ascending for unordered -/
def canonMembers (s : MSet Int) : List Int :=
  if isUnordered s then isort ltI s.members else s.members

def showLL (l : List (List Int)) : String :=
  "[" ++ " ".intercalate (l.map showIntList) ++ "]"

def showLLL (l : List (List (List Int))) : String :=
  "[" ++ " ".intercalate (l.map showLL) ++ "]"

/-! ### the register machine: parse into `Op`, run `stepOp` of the Model, print the `Obs` -/

structure St where
  regs : List (FmtSet Int)
  g : UInt32
  dead : Bool := false

def parseInts (ws : List String) : Option (List Int) := ws.mapM parseInt?
def parseNats (ws : List String) : Option (List Nat) := ws.mapM parseNat?

/-- the predicates of the match operations -/
def parsePred (w : String) : Option (Int → Bool) :=
  match w.splitOn ":" with
  | ["ge", k] => do let k ← parseInt? k; return fun x => decide (k ≤ x)
  | ["lt", k] => do let k ← parseInt? k; return fun x => decide (x < k)
  | ["odd"] => some fun x => x % 2 != 0
  | ["even"] => some fun x => x % 2 == 0
  | _ => none

def parseBase : List String → Option (Op Int)
  | "add" :: i :: vs => do return .add (← parseNat? i) (← parseInts vs)
  | "remove" :: i :: vs => do return .remove (← parseNat? i) (← parseInts vs)
  | ["removeall", i] => do return .removeAll (← parseNat? i)
  | "contains" :: i :: vs => do return .contains (← parseNat? i) (← parseInts vs)
  | ["size", i] => do return .size (← parseNat? i)
  | ["isempty", i] => do return .isEmpty (← parseNat? i)
  | ["all", i] => do return .all (← parseNat? i)
  | ["equal", i, j] => do return .equal (← parseNat? i) (← parseNat? j)
  | ["subset", i, j] => do return .subset (← parseNat? i) (← parseNat? j)
  | ["superset", i, j] => do return .superset (← parseNat? i) (← parseNat? j)
  | ["clone", d, i] => do return .clone (← parseNat? d) (← parseNat? i)
  | ["cloneempty", d, i] => do return .cloneEmpty (← parseNat? d) (← parseNat? i)
  | ["new", d, k] => do
    let impl ← match k.toList with
      | [c] => implOf c
      | _ => none
    return .new (← parseNat? d) impl
  | "union" :: d :: i :: js => do return .union (← parseNat? d) (← parseNat? i) (← parseNats js)
  | "inter" :: d :: i :: js => do return .inter (← parseNat? d) (← parseNat? i) (← parseNats js)
  | "diff" :: d :: i :: js => do return .diff (← parseNat? d) (← parseNat? i) (← parseNats js)
  | ["anymatch", i, p] => do return .anyMatch (← parseNat? i) (← parsePred p)
  | ["allmatch", i, p] => do return .allMatch (← parseNat? i) (← parsePred p)
  | ["firstmatch", i, p] => do return .firstMatch (← parseNat? i) (← parsePred p)
  | ["select", d, i, p] => do return .select (← parseNat? d) (← parseNat? i) (← parsePred p)
  | ["partition", d, e, i, p] => do return .partitionM (← parseNat? d) (← parseNat? e) (← parseNat? i) (← parsePred p)
  | _ => none

def implOfWord (k : String) : Option (Impl Int) :=
  match k.toList with
  | [c] => implOf c
  | _ => none

def parseOp (ws : List String) : Option (OpX Int) :=
  match parseBase ws with
  | some op => some (.base op)
  | none =>
    match ws with
    | ["string", i] => do return .string (← parseNat? i)
    | "new" :: d :: k :: vs => do return .newWith (← parseNat? d) (← implOfWord k) (← parseInts vs)
    | "newf" :: d :: k :: f :: vs => do
      return .newWithFormat (← parseNat? d) (← implOfWord k) (← fmtOf f) (← parseInts vs)
    | _ => none

/-- `All()` of an unordered set is printed in ascending order, of the others as yielded; a call that returns set
objects prints their `String()` (`strs`, from the Model) -/
def showObs (regs : List (FmtSet Int)) : OpX Int → Obs Int → List String → String
  | _, .bad, _ => "bad-op"
  | _, _, strs@(_ :: _) => "ok " ++ " ".intercalate strs
  | _, .unit, _ => "ok"
  | _, .bool b, _ => "ok " ++ showBool b
  | _, .int n, _ => s!"ok {n}"
  | .base (.all i), .elems l, _ =>
    let unordered := match regs[i]? with
      | some s => isUnordered s.set
      | none => false
    "ok " ++ showIntList (if unordered then isort ltI l else l)
  | _, .elems l, _ => "ok " ++ showIntList l
  | _, .opt (some v), _ => s!"ok some {v}"
  | _, .opt none, _ => "ok none"
  | _, .elems2 l₁ l₂, _ => "ok " ++ showIntList l₁ ++ " " ++ showIntList l₂

/-- result line and new state of one op; `none` = malformed op -/
def step (st : St) (ws : List String) : Option (Outcome (St × String)) :=
  let lift {β} (o : Outcome β) (k : β → Option (Outcome (St × String))) : Option (Outcome (St × String)) :=
    match o with
    | .ok b => k b
    | .panic => some .panic
    | .diverge => some .diverge
  match parseOp ws with
  | some op =>
    lift (stepX shuffle pvI (st.regs, st.g) op) fun ((regs, g), obs, strs) =>
      some (.ok ({ st with regs := regs, g := g }, showObs st.regs op obs strs))
  | none =>
    match ws with
    | ["powermut", i, _] => do
      -- Powerset, then the harness edits every member (values cannot alias in the Model): only the size
      let i ← parseNat? i; let s ← st.regs[i]?
      lift (s.set.powerset shuffle st.g) fun (ps, g) => some (.ok ({ st with g := g }, s!"ok {ps.size}"))
    | ["partmut", i, _] => do
      let i ← parseNat? i; let s ← st.regs[i]?
      lift (s.set.partitions shuffle st.g) fun (ps, g) => some (.ok ({ st with g := g }, s!"ok {ps.size}"))
    | ["powerset", i] => do
      let i ← parseNat? i; let s ← st.regs[i]?
      lift (s.set.powerset shuffle st.g) fun (ps, g) =>
        let subsets := isort ltL (ps.members.map canonMembers)
        some (.ok ({ st with g := g }, s!"ok {ps.size} {showLL subsets}"))
    | ["partitions", i] => do
      let i ← parseNat? i; let s ← st.regs[i]?
      lift (s.set.partitions shuffle st.g) fun (ps, g) =>
        let parts := isort ltLL (ps.members.map fun p => isort ltL (p.members.map canonMembers))
        some (.ok ({ st with g := g }, s!"ok {ps.size} {showLLL parts}"))
    | ["powerstr", i] => do
      -- Powerset(s).String()
      let i ← parseNat? i; let s ← st.regs[i]?
      lift (s.powerset shuffle st.g) fun (ps, g) => some (.ok ({ st with g := g }, "ok " ++ ps.string))
    | ["partstr", i] => do
      let i ← parseNat? i; let s ← st.regs[i]?
      lift (s.partitions shuffle st.g) fun (ps, g) => some (.ok ({ st with g := g }, "ok " ++ ps.string))
    | _ => none

/-- `lo, lo+step, …` (`n` values) -/
def progression (lo : Int) (n : Nat) (step : Int) : List Int :=
  (List.range n).map fun (j : Nat) => lo + Int.ofNat j * step

/-- a list of Model operations run one after the other (the compact forms `addseq` … are nothing but that) -/
def stepMany (st : St) : List (OpX Int) → Outcome St
  | [] => .ok st
  | op :: ops =>
    match stepX shuffle pvI (st.regs, st.g) op with
    | .ok ((regs, g), _, _) => stepMany { st with regs := regs, g := g } ops
    | .panic => .panic
    | .diverge => .diverge

/-- one `All()` of register `i`: the members as yielded (unordered: canonical form ascending) and the new state -/
def allOf (st : St) (i : Nat) : Option (Outcome (St × List Int × String)) := do
  let s ← st.regs[i]?
  match stepX shuffle pvI (st.regs, st.g) (.base (.all i)) with
  | .ok ((regs, g), .elems l, _) =>
    some (.ok ({ st with regs := regs, g := g }, l, showIntList (if isUnordered s.set then isort ltI l else l)))
  | .ok _ => none
  | .panic => some .panic
  | .diverge => some .diverge

/-- the mutation of `allthen` / `allrerun` -/
def mutOf (i : Nat) : List String → Option (OpX Int)
  | "add" :: vs => do return .base (.add i (← parseInts vs))
  | "remove" :: vs => do return .base (.remove i (← parseInts vs))
  | ["removeall"] => some (.base (.removeAll i))
  | _ => none

/-- the line-protocol forms that are compositions of Model operations -/
def stepMacro (st : St) (ws : List String) : Option (Outcome (St × String)) :=
  let seqOf (i lo n step : String) (mk : Nat → List Int → List (OpX Int)) : Option (Outcome (St × String)) := do
    let i ← parseNat? i; let lo ← parseInt? lo; let n ← parseNat? n; let step ← parseInt? step
    let _ ← st.regs[i]?
    match stepMany st (mk i (progression lo n step)) with
    | .ok st' => some (.ok (st', "ok"))
    | .panic => some .panic
    | .diverge => some .diverge
  match ws with
  | ["addseq", i, lo, n, step] => seqOf i lo n step fun i vs => vs.map fun v => .base (.add i [v])
  | ["removeseq", i, lo, n, step] => seqOf i lo n step fun i vs => vs.map fun v => .base (.remove i [v])
  | ["addvar", i, lo, n, step] => seqOf i lo n step fun i vs => [.base (.add i vs)]
  | ["removevar", i, lo, n, step] => seqOf i lo n step fun i vs => [.base (.remove i vs)]
  | ["all2", i, j] => do
    -- the iter.Seq of `i` is a handle: each of its two runs lists and shuffles the members anew (two draws for `i`)
    let i ← parseNat? i; let j ← parseNat? j
    match ← allOf st i with
    | .ok (st, _, a) =>
      match ← allOf st j with
      | .ok (st, _, b) =>
        match ← allOf st i with
        | .ok (st, _, a') => some (.ok (st, s!"ok {a} {b} {a'}"))
        | .panic => some .panic
        | .diverge => some .diverge
      | .panic => some .panic
      | .diverge => some .diverge
    | .panic => some .panic
    | .diverge => some .diverge
  | "allthen" :: i :: mu => do
    -- obtaining the sequence does nothing; the run sees the set as the mutation left it
    let i ← parseNat? i
    let op ← mutOf i mu
    match stepMany st [op] with
    | .ok st =>
      match ← allOf st i with
      | .ok (st, _, a) => some (.ok (st, s!"ok {a}"))
      | .panic => some .panic
      | .diverge => some .diverge
    | .panic => some .panic
    | .diverge => some .diverge
  | "allrerun" :: i :: mu => do
    let i ← parseNat? i
    let op ← mutOf i mu
    match ← allOf st i with
    | .ok (st, _, a) =>
      match stepMany st [op] with
      | .ok st =>
        match ← allOf st i with
        | .ok (st, _, a') => some (.ok (st, s!"ok {a} {a'}"))
        | .panic => some .panic
        | .diverge => some .diverge
      | .panic => some .panic
      | .diverge => some .diverge
    | .panic => some .panic
    | .diverge => some .diverge
  | ["allnever", i] => do
    let i ← parseNat? i
    let _ ← st.regs[i]?
    some (.ok (st, "ok"))
  | ["allpull", i, j] => do
    let i ← parseNat? i; let j ← parseNat? j
    match ← allOf st i with
    | .ok (st, _, a) =>
      match ← allOf st j with
      | .ok (st, _, b) => some (.ok (st, s!"ok {a} {b}"))
      | .panic => some .panic
      | .diverge => some .diverge
    | .panic => some .panic
    | .diverge => some .diverge
  | ["allnest", i, j] => do
    -- one `All()` of `j` per member of `i`
    let i ← parseNat? i; let j ← parseNat? j
    let _ ← st.regs[j]?
    match ← allOf st i with
    | .ok (st, l, a) =>
      let rec inner (st : St) (total : Nat) : Nat → Option (Outcome (St × Nat))
        | 0 => some (.ok (st, total))
        | k + 1 =>
          match allOf st j with
          | some (.ok (st, lj, _)) => inner st (total + lj.length) k
          | some .panic => some .panic
          | some .diverge => some .diverge
          | none => none
      match ← inner st 0 l.length with
      | .ok (st, total) => some (.ok (st, s!"ok {a} {total}"))
      | .panic => some .panic
      | .diverge => some .diverge
    | .panic => some .panic
    | .diverge => some .diverge
  | ["allbreak", i, k] => do
    let i ← parseNat? i; let k ← parseNat? k
    match ← allOf st i with
    | .ok (st, l, _) =>
      match ← allOf st i with
      | .ok (st, _, a) => some (.ok (st, s!"ok {min k l.length} {a}"))
      | .panic => some .panic
      | .diverge => some .diverge
    | .panic => some .panic
    | .diverge => some .diverge
  | _ => none

def runReg (hdr : List String) (ops : List String) : List String := Id.run do
  let kinds := (headerGet hdr "regs").getD ""
  let some impls := kinds.toList.mapM implOf | return ops.map fun _ => "bad-case"
  let mut st : St := { regs := impls.map fun impl => ⟨MSet.new impl, defaultStringFormat pvI⟩, g := (headerNat hdr "sh" 0).toUInt32 }
  let mut out : Array String := #[]
  for line in ops do
    if st.dead then out := out.push "skip"; continue
    let ws := words line
    let r := match stepMacro st ws with
      | some r => some r
      | none => step st ws
    match r with
    | none => out := out.push "bad-op"
    | some (.ok (st', s)) => st := st'; out := out.push s
    | some .panic => st := { st with dead := true }; out := out.push "panic"
    | some .diverge => st := { st with dead := true }; out := out.push "hang"
  return out.toList

def runCase (hdr : List String) (ops : List String) : List String :=
  match headerGet hdr "comp" with
  | some "reg" => runReg hdr ops
  | _ => ops.map fun _ => "bad-case"

end AlgoVerif.C16.Driver
