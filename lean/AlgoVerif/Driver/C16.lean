import AlgoVerif.Model.C16
/-!
Line-protocol component for C16.

    # case <n> comp=reg sh=<uint32> regs=<kinds>      kinds ∈ {u,s,a,d}*: unordered, stable, sorted asc/desc
    add i v…  remove i v…  removeall i  contains i v…  size i  isempty i  all i  string i
    equal i j  subset i j  superset i j  clone d i  cloneempty d i  new d k
    union d i j…  inter d i j…  diff d i j…  powerset i  partitions i

Values are `Int`.  The harness installs (through the verif hook `VerifSetShuffleSource`) a scripted
`rand.Source` — a 32-bit LCG started at `sh` — behind the package-level `r` of /repo/set, and this file
carries the mirror of `math/rand`'s `(*Rand).Shuffle` / `int31n` over that source, so that every
iteration order (and with it the internal member order that `String()` shows) is the same on both
sides.  The Model itself is parametric in the shuffle.
-/
namespace AlgoVerif.C16.Driver
open AlgoVerif AlgoVerif.C16

/-! ### scripted source + mirror of math/rand -/

def lcg (x : UInt32) : UInt32 := x * 1664525 + 1013904223

/-- `for low < thresh { v = r.Uint32(); prod = uint64(v) * uint64(n); low = uint32(prod) }` -/
def int31nLoop (n thresh : UInt32) : Nat → UInt32 → UInt64 → UInt64 × UInt32
  | 0, x, prod => (prod, x)
  | f + 1, x, prod =>
    if prod.toUInt32 < thresh then
      let x := lcg x
      int31nLoop n thresh f x (x.toUInt64 * n.toUInt64)
    else (prod, x)

/-- `(*Rand).int31n(n)` with `Uint32()` = next LCG value -/
def int31n (n : UInt32) (x : UInt32) : UInt32 × UInt32 :=
  let x := lcg x
  let prod : UInt64 := x.toUInt64 * n.toUInt64
  let (prod, x) :=
    if prod.toUInt32 < n then int31nLoop n ((0 - n) % n) 1000 x prod else (prod, x)
  ((prod >>> 32).toUInt32, x)

/-- `indices` after `r.Shuffle(n, func(i, j) { indices[i], indices[j] = indices[j], indices[i] })` -/
def shuffleLoop : Nat → Array Nat → UInt32 → Array Nat × UInt32
  | 0, a, g => (a, g)
  | i + 1, a, g =>
    -- for ; i > 0; i-- { j := int(r.int31n(int32(i + 1))); swap(i, j) }   (here the loop variable is i+1)
    let (j, g) := int31n (i + 2).toUInt32 g
    shuffleLoop i (a.swapIfInBounds (i + 1) j.toNat) g

def shuffle : Shuffle UInt32 := fun n g =>
  let (a, g) := shuffleLoop (n - 1) (Array.range n) g
  (a.toList, g)

/-! ### callbacks -/

def eqI : EqualFunc Int := fun a b => .ok (a == b)
def cmpAsc : CompareFunc Int := fun a b => .ok (if a < b then -1 else if a > b then 1 else 0)
def cmpDesc : CompareFunc Int := fun a b => .ok (if a < b then 1 else if a > b then -1 else 0)

def implOf : Char → Option (Impl Int)
  | 'u' => some (.unordered eqI)
  | 's' => some (.stable eqI)
  | 'a' => some (.sorted cmpAsc)
  | 'd' => some (.sorted cmpDesc)
  | _ => none

def isUnordered {α} (s : MSet α) : Bool :=
  match s.impl with
  | .unordered _ => true
  | _ => false

/-! ### canonical printing -/

def insertBy {α} (lt : α → α → Bool) (x : α) : List α → List α
  | [] => [x]
  | y :: ys => if lt x y then x :: y :: ys else y :: insertBy lt x ys

def isort {α} (lt : α → α → Bool) (l : List α) : List α := l.foldr (insertBy lt) []

/-- lexicographic order, a proper prefix first -/
def lexLt {α} (lt : α → α → Bool) : List α → List α → Bool
  | [], [] => false
  | [], _ :: _ => true
  | _ :: _, [] => false
  | x :: xs, y :: ys => if lt x y then true else if lt y x then false else lexLt lt xs ys

def ltI (a b : Int) : Bool := a < b
def ltL : List Int → List Int → Bool := lexLt ltI
def ltLL : List (List Int) → List (List Int) → Bool := lexLt ltL

/-- members in iteration order for stable/sorted, ascending for unordered -/
def canonMembers (s : MSet Int) : List Int :=
  if isUnordered s then isort ltI s.members else s.members

def showLL (l : List (List Int)) : String :=
  "[" ++ " ".intercalate (l.map showIntList) ++ "]"

def showLLL (l : List (List (List Int))) : String :=
  "[" ++ " ".intercalate (l.map showLL) ++ "]"

def showOutcome {α} (f : α → String) : Outcome α → String
  | .ok a => "ok" ++ (let s := f a; if s.isEmpty then "" else " " ++ s)
  | .panic => "panic"
  | .diverge => "hang"

/-! ### the register machine -/

structure St where
  regs : Array (MSet Int)
  g : UInt32
  dead : Bool := false

def parseInts (ws : List String) : Option (List Int) := ws.mapM parseInt?
def parseNats (ws : List String) : Option (List Nat) := ws.mapM parseNat?

def getRegs (regs : Array (MSet Int)) (is : List Nat) : Option (List (MSet Int)) := is.mapM (regs[·]?)

def str (s : MSet Int) : String := s.string (fun v => toString v)

/-- result line and new state of one op; `none` = malformed op -/
def step (st : St) (ws : List String) : Option (Outcome (St × String)) :=
  let regs := st.regs
  let setReg (d : Nat) (s : MSet Int) (g : UInt32) (out : String) : Option (Outcome (St × String)) :=
    if d < regs.size then some (.ok ({ st with regs := regs.setIfInBounds d s, g := g }, out)) else none
  let lift {β} (o : Outcome β) (k : β → Option (Outcome (St × String))) : Option (Outcome (St × String)) :=
    match o with
    | .ok b => k b
    | .panic => some .panic
    | .diverge => some .diverge
  match ws with
  | "add" :: i :: vs => do
    let i ← parseNat? i; let vs ← parseInts vs; let s ← regs[i]?
    lift (s.add vs) fun s => setReg i s st.g ""
  | "remove" :: i :: vs => do
    let i ← parseNat? i; let vs ← parseInts vs; let s ← regs[i]?
    lift (s.remove vs) fun s => setReg i s st.g ""
  | ["removeall", i] => do
    let i ← parseNat? i; let s ← regs[i]?
    setReg i s.removeAll st.g ""
  | "contains" :: i :: vs => do
    let i ← parseNat? i; let vs ← parseInts vs; let s ← regs[i]?
    lift (s.contains vs) fun b => some (.ok (st, showBool b))
  | ["size", i] => do
    let i ← parseNat? i; let s ← regs[i]?
    some (.ok (st, toString s.size))
  | ["isempty", i] => do
    let i ← parseNat? i; let s ← regs[i]?
    some (.ok (st, showBool s.isEmpty))
  | ["all", i] => do
    let i ← parseNat? i; let s ← regs[i]?
    lift (s.all shuffle st.g) fun (ms, g) =>
      some (.ok ({ st with g := g }, showIntList (if isUnordered s then isort ltI ms else ms)))
  | ["string", i] => do
    let i ← parseNat? i; let s ← regs[i]?
    some (.ok (st, str s))
  | ["equal", i, j] => do
    let i ← parseNat? i; let j ← parseNat? j; let s ← regs[i]?; let t ← regs[j]?
    lift (s.equal t) fun b => some (.ok (st, showBool b))
  | ["subset", i, j] => do
    let i ← parseNat? i; let j ← parseNat? j; let s ← regs[i]?; let t ← regs[j]?
    lift (s.isSubset shuffle t st.g) fun (b, g) => some (.ok ({ st with g := g }, showBool b))
  | ["superset", i, j] => do
    let i ← parseNat? i; let j ← parseNat? j; let s ← regs[i]?; let t ← regs[j]?
    lift (s.isSuperset shuffle t st.g) fun (b, g) => some (.ok ({ st with g := g }, showBool b))
  | ["clone", d, i] => do
    let d ← parseNat? d; let i ← parseNat? i; let s ← regs[i]?
    setReg d s.clone st.g ""
  | ["cloneempty", d, i] => do
    let d ← parseNat? d; let i ← parseNat? i; let s ← regs[i]?
    setReg d s.cloneEmpty st.g ""
  | ["new", d, k] => do
    let d ← parseNat? d
    let impl ← match k.toList with
      | [c] => implOf c
      | _ => none
    setReg d (MSet.new impl) st.g ""
  | "union" :: d :: i :: js => do
    let d ← parseNat? d; let i ← parseNat? i; let js ← parseNats js
    let s ← regs[i]?; let sets ← getRegs regs js
    lift (s.union shuffle sets st.g) fun (t, g) => setReg d t g (str t)
  | "inter" :: d :: i :: js => do
    let d ← parseNat? d; let i ← parseNat? i; let js ← parseNats js
    let s ← regs[i]?; let sets ← getRegs regs js
    lift (s.intersection sets) fun t => setReg d t st.g (str t)
  | "diff" :: d :: i :: js => do
    let d ← parseNat? d; let i ← parseNat? i; let js ← parseNats js
    let s ← regs[i]?; let sets ← getRegs regs js
    lift (s.difference shuffle sets st.g) fun (t, g) => setReg d t g (str t)
  | ["powerset", i] => do
    let i ← parseNat? i; let s ← regs[i]?
    lift (s.powerset shuffle st.g) fun (ps, g) =>
      let subsets := isort ltL (ps.members.map canonMembers)
      some (.ok ({ st with g := g }, s!"{ps.size} {showLL subsets}"))
  | ["partitions", i] => do
    let i ← parseNat? i; let s ← regs[i]?
    lift (s.partitions shuffle st.g) fun (ps, g) =>
      let parts := isort ltLL (ps.members.map fun p => isort ltL (p.members.map canonMembers))
      some (.ok ({ st with g := g }, s!"{ps.size} {showLLL parts}"))
  | _ => none

def runReg (hdr : List String) (ops : List String) : List String := Id.run do
  let kinds := (headerGet hdr "regs").getD ""
  let some impls := kinds.toList.mapM implOf | return ops.map fun _ => "bad-case"
  let mut st : St := { regs := (impls.map MSet.new).toArray, g := (headerNat hdr "sh" 0).toUInt32 }
  let mut out : Array String := #[]
  for line in ops do
    if st.dead then out := out.push "skip"; continue
    match step st (words line) with
    | none => out := out.push "bad-op"
    | some (.ok (st', s)) => st := st'; out := out.push (if s.isEmpty then "ok" else "ok " ++ s)
    | some .panic => st := { st with dead := true }; out := out.push "panic"
    | some .diverge => st := { st with dead := true }; out := out.push "hang"
  return out.toList

def runCase (hdr : List String) (ops : List String) : List String :=
  match headerGet hdr "comp" with
  | some "reg" => runReg hdr ops
  | _ => ops.map fun _ => "bad-case"

end AlgoVerif.C16.Driver
