import AlgoVerif.Common
/-! Line-protocol component for C09 — not built yet. -/
namespace AlgoVerif.C09.Driver

def runCase (_hdr : List String) (ops : List String) : List String :=
  ops.map fun _ => "bad-case"

end AlgoVerif.C09.Driver
