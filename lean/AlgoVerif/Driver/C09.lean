import AlgoVerif.Driver.C08
import AlgoVerif.Spec.C09
/-!
Line-protocol component for C09: the ops of C08 plus

* `post <op>` → `ok valid=… noempty=… nounit=… reach=… nocycle=… noleftrec=… leftfactored=… cnf=… loosecnf=…`:
  every post-condition of `Spec/C09.lean` evaluated on the Model's result of `<op>` (`noempty` relative to
  the input grammar) | `panic` | `hang`;
* `post1 <op>` → `ok valid=… [noleftrec=… | cnf=…]`: validity and the op's own normal form only;
* `parsers` → `ok unchanged predictive=returned|panic` (the implementation side hands the grammar to
  `predictive.BuildParsingTable` and the three LR table constructors and prints `ok MUTATED by <constructor>` when the
  caller's grammar differs from a clone taken before the call; `predictive=` says whether `BuildParsingTable` returned).
-/
namespace AlgoVerif.C09.Driver
open AlgoVerif AlgoVerif.Gram AlgoVerif.C08 AlgoVerif.C09.Spec

def showPost (orig g : G) : String :=
  s!"ok valid={showBool (validB g)} noempty={showBool (noEmptyB orig g)} nounit={showBool (noUnitB g)} " ++
  s!"reach={showBool (allReachableB g)} nocycle={showBool (noCycleB g)} noleftrec={showBool (noLeftRecB g)} " ++
  s!"leftfactored={showBool (leftFactoredB g)} cnf={showBool (isCNFB g)} loosecnf={showBool (looseCNFB g)}"

/-- `post1 <op>`: validity and the op's own normal form only (what does not depend on which of several equally good result
grammars came out: cases whose result grammar depends on Go's iteration order) -/
def showPost1 (op : String) (g : G) : String :=
  s!"ok valid={showBool (validB g)}" ++
  (if op = "leftrec" then s!" noleftrec={showBool (noLeftRecB g)}"
   else if op = "cnf" then s!" cnf={showBool (isCNFB g)}" else "")

def postOp (g : G) (ws : List String) : Option String :=
  match ws with
  | ["post1", op] =>
    match applyOp op g with
    | some (.ok g') => some (showPost1 op g')
    | some .panic => some "panic"
    | some .diverge => some "hang"
    | none => none
  | ["post", op] =>
    match applyOp op g with
    | some (.ok g') => some (showPost g g')
    | some .panic => some "panic"
    | some .diverge => some "hang"
    | none => none
  -- the grammar handed to a parser constructor: the Model is a function of the grammar value, which it
  -- cannot change; the harness compares the caller's grammar with a clone taken before the call
  | ["parsers"] =>
    -- … and it says whether `predictive.BuildParsingTable` returned: on a grammar that fails `Verify()`, `ComputeFIRST` /
    -- `ComputeFOLLOW` / the FIRST closure can dereference the nil answer of a table lookup (`analyseP`, `Model/C10Ext.lean`)
    some ("ok unchanged predictive=" ++ (match AlgoVerif.C10.analyseP g AlgoVerif.C10.IterOrder.canon AlgoVerif.C10.IterOrder.canon with
      | .ok _ => "returned"
      | .panic => "panic"
      | .diverge => "hang"))
  | _ => none

def runCase (_hdr : List String) (ops : List String) : List String :=
  AlgoVerif.C08.Driver.runWith postOp ops

end AlgoVerif.C09.Driver
