import AlgoVerif.Model.C07
import AlgoVerif.Model.C07Radix
import AlgoVerif.Spec.C07
/-!
Line-protocol component for C07.

Header: `comp=<algo> cmp=<asc|desc|mod3|diff|diff7|rdiff|rdiff7|mod3x5>` (the last five return
un-normalised values: `a-b`, `7*(a-b)`, `b-a`, `7*(b-a)`, `5*(a%3-b%3)`).  Comparison-sort elements are `key:id` (the comparator
looks at the key only, so instability and permutation errors are visible in the output).
Machine words are decimal (`int`: signed), strings are `x<hex>`.

    sort <algo> e…            selection insertion shell merge mergerec quick3way heap quickcore (exact)
    sort quick e…             public Quick (clock-seeded shuffle): runs of cmp-equal elements canonicalised
    select <k> e…             public Select: the comparator class of the result
    partition <lo> <hi> e…    hook VerifPartition: `ok j e…`
    shuffle <c0,c1,…|-> e…    Shuffle with the scripted results of r.Intn
    sort lsduint|msduint|lsdint|msdint w…      sort msdstring|q3string s…      lsdstring <w> s…
    msdintat|msduintat|msdstringat|q3stringat <lo> <hi> <d> …   (hooks exposing the recursive cores)
-/
namespace AlgoVerif.C07.Driver
open AlgoVerif AlgoVerif.C07

abbrev Elem := Int × Int

def sgn (a b : Int) : Int := if a < b then -1 else if a > b then 1 else 0

/-- Go's `%` truncates towards zero -/
def cls (name : String) (k : Int) : Int :=
  if name == "mod3" || name == "mod3x5" then Int.tmod k 3 else k

def cmpOf (name : String) : Elem → Elem → Int :=
  if name == "desc" then fun a b => sgn b.1 a.1
  else if name == "mod3" then fun a b => sgn (Int.tmod a.1 3) (Int.tmod b.1 3)
  -- comparators whose results are not normalised to -1/0/+1 (only the sign is meaningful)
  else if name == "diff" then fun a b => a.1 - b.1
  else if name == "diff7" then fun a b => 7 * (a.1 - b.1)
  else if name == "rdiff" then fun a b => b.1 - a.1
  else if name == "rdiff7" then fun a b => 7 * (b.1 - a.1)
  else if name == "mod3x5" then fun a b => (Int.tmod a.1 3 - Int.tmod b.1 3) * 5
  else fun a b => sgn a.1 b.1

def parseElem (s : String) : Option Elem :=
  match s.splitOn ":" with
  | [k, i] => do let k ← k.toInt?; let i ← i.toInt?; pure (k, i)
  | _ => none

def parseAll {β} (p : String → Option β) (ws : List String) : Option (Array β) :=
  ws.foldl (fun acc w => do let acc ← acc; let v ← p w; pure (acc.push v)) (some #[])

def showElem (e : Elem) : String := s!"{e.1}:{e.2}"

def showArr {β} (f : β → String) (a : Array β) : String :=
  a.foldl (fun s e => s ++ " " ++ f e) "ok"

def render {β} (f : β → String) : Outcome β → String
  | .ok v => f v
  | .panic => "panic"
  | .diverge => "hang"

/-- order on `(key, id)` used only to canonicalise runs of comparator-equal elements -/
def elemLe (a b : Elem) : Bool := a.1 < b.1 || (a.1 == b.1 && a.2 ≤ b.2)

/-- sort every maximal run of adjacent `cmp`-equal elements by `(key, id)` -/
def canonRuns (cmp : Elem → Elem → Int) (a : Array Elem) : Array Elem := Id.run do
  let mut out : Array Elem := #[]
  let mut run : List Elem := []
  for e in a do
    match run with
    | [] => run := [e]
    | p :: _ =>
      if cmp p e == 0 then run := e :: run
      else
        out := out ++ (run.mergeSort elemLe).toArray
        run := [e]
  out := out ++ (run.mergeSort elemLe).toArray
  return out

def parseChoices (s : String) : Option (Array Int) :=
  if s == "-" then some #[] else parseAll (fun w => w.toInt?) (s.splitOn ",")

def choiceFn (cs : Array Int) : Nat → Int := fun i => cs.getD i 0

/-! words and strings -/

def parseU (s : String) : Option UInt64 := s.toNat?.map UInt64.ofNat
def parseI (s : String) : Option UInt64 := s.toInt?.map fun i => (Int64.ofInt i).toUInt64
def showU (v : UInt64) : String := toString v.toNat
def showI (v : UInt64) : String := toString v.toInt64.toInt

def hexVal (c : Char) : Option Nat :=
  if '0' ≤ c ∧ c ≤ '9' then some (c.toNat - '0'.toNat)
  else if 'a' ≤ c ∧ c ≤ 'f' then some (c.toNat - 'a'.toNat + 10)
  else none

def parseHexList : List Char → Option (List UInt8)
  | [] => some []
  | h :: l :: rest => do
    let h ← hexVal h; let l ← hexVal l; let r ← parseHexList rest
    pure (UInt8.ofNat (16*h + l) :: r)
  | _ => none

def parseS (s : String) : Option (List UInt8) :=
  match s.toList with
  | 'x' :: rest => parseHexList rest
  | _ => none

def hexDigit (n : Nat) : Char := if n < 10 then Char.ofNat (48 + n) else Char.ofNat (87 + n)

def showS (s : List UInt8) : String :=
  String.ofList ('x' :: s.flatMap fun b => [hexDigit (b.toNat / 16), hexDigit (b.toNat % 16)])

def zeroElem : Elem := (0, 0)

def runOp (cmpName : String) (line : String) : String :=
  let cmp := cmpOf cmpName
  match words line with
  | "sort" :: algo :: rest =>
    let cmpSort (f : Array Elem → Outcome (Array Elem)) : String :=
      match parseAll parseElem rest with
      | some a => render (showArr showElem) (f a)
      | none => "bad-op"
    let wordSort (p : String → Option UInt64) (sh : UInt64 → String) (f : Array UInt64 → Outcome (Array UInt64)) : String :=
      match parseAll p rest with
      | some a => render (showArr sh) (f a)
      | none => "bad-op"
    let strSort (f : Array (List UInt8) → Outcome (Array (List UInt8))) : String :=
      match parseAll parseS rest with
      | some a => render (showArr showS) (f a)
      | none => "bad-op"
    match algo with
    | "selection" => cmpSort (selection cmp)
    | "insertion" => cmpSort (insertion cmp)
    | "shell" => cmpSort (shell cmp)
    | "merge" => cmpSort (mergeBU cmp zeroElem)
    | "mergerec" => cmpSort (mergeRec cmp zeroElem)
    | "quick3way" => cmpSort (quick3Way cmp)
    | "heap" => cmpSort (heap cmp zeroElem)
    | "quickcore" => cmpSort (quickCore cmp)
    | "quick" => cmpSort (fun a => (quick (fun _ => 0) cmp a).map (canonRuns cmp))
    | "lsduint" => wordSort parseU showU lsdUint
    | "msduint" => wordSort parseU showU msdUint
    | "lsdint" => wordSort parseI showI lsdInt
    | "msdint" => wordSort parseI showI msdInt
    | "msdstring" => strSort msdString
    | "q3string" => strSort (q3String (fun _ => 0))
    | _ => "bad-op"
  | "select" :: k :: rest =>
    match k.toInt?, parseAll parseElem rest with
    | some k, some a => render (fun (r : Array Elem × Elem) => s!"ok {cls cmpName r.2.1}") (select (fun _ => 0) cmp a k)
    | _, _ => "bad-op"
  | "partition" :: lo :: hi :: rest =>
    match lo.toInt?, hi.toInt?, parseAll parseElem rest with
    | some lo, some hi, some a =>
      render (fun (r : Array Elem × Int) => r.1.foldl (fun s e => s ++ " " ++ showElem e) s!"ok {r.2}") (partition cmp a lo hi)
    | _, _, _ => "bad-op"
  | "shuffle" :: cs :: rest =>
    match parseChoices cs, parseAll parseElem rest with
    | some cs, some a => render (showArr showElem) (shuffle (choiceFn cs) a)
    | _, _ => "bad-op"
  | "lsdstring" :: w :: rest =>
    match w.toInt?, parseAll parseS rest with
    | some w, some a => render (showArr showS) (lsdString a w)
    | _, _ => "bad-op"
  | op :: lo :: hi :: d :: rest =>
    match lo.toInt?, hi.toInt?, d.toInt? with
    | some lo, some hi, some d =>
      match op with
      | "msdintat" =>
        match parseAll parseI rest with
        | some a => render (showArr showI) (msdIntAt a lo hi d)
        | none => "bad-op"
      | "msduintat" =>
        match parseAll parseU rest with
        | some a => render (showArr showU) (msdUintAt a lo hi d)
        | none => "bad-op"
      | "msdstringat" =>
        match parseAll parseS rest with
        | some a => render (showArr showS) (msdStringAt a lo hi d)
        | none => "bad-op"
      | "q3stringat" =>
        match parseAll parseS rest with
        | some a => render (showArr showS) (q3StringAt a lo hi d)
        | none => "bad-op"
      | _ => "bad-op"
    | _, _, _ => "bad-op"
  | _ => "bad-op"

/-- every op of a case is independent (each carries its own slice); after a `panic`/`hang` the
harness ends the case, so the rest prints `skip`. -/
def runCase (hdr : List String) (ops : List String) : List String := Id.run do
  let cmpName := (headerGet hdr "cmp").getD "asc"
  let mut dead := false
  let mut out : Array String := #[]
  for line in ops do
    if dead then out := out.push "skip"; continue
    let r := runOp cmpName line
    if r == "panic" || r == "hang" then dead := true
    out := out.push r
  return out.toList

end AlgoVerif.C07.Driver
