import AlgoVerif.Common
/-! Line-protocol component for C07 — not built yet. -/
namespace AlgoVerif.C07.Driver

def runCase (_hdr : List String) (ops : List String) : List String :=
  ops.map fun _ => "bad-case"

end AlgoVerif.C07.Driver
