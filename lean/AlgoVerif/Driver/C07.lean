import AlgoVerif.Model.C07
import AlgoVerif.Model.C07Radix
import AlgoVerif.Model.C07Sub
import AlgoVerif.Proofs.C07Fast
import AlgoVerif.Spec.C07
/-!
Line-protocol component for C07.

Header: `comp=<algo> cmp=<asc|desc|mod3|diff|diff7|rdiff|rdiff7|mod3x5|lex> [ty=<elem|struct|ptr|slice|string>]`
(`ty`: the Go element type the harness instantiates the generic sorts with — the Model is generic, elements print as `key:id`
whatever carries them; `lex` compares key, then id). (`diff … mod3x5` return
un-normalised values: `a-b`, `7*(a-b)`, `b-a`, `7*(b-a)`, `5*(a%3-b%3)`).  Comparison-sort elements are `key:id` (the comparator
looks at the key only, so instability and permutation errors are visible in the output).
Machine words are decimal (`int`: signed), strings are `x<hex>`.

    sort <algo> e…            selection insertion shell merge mergerec quick3way heap quickcore (exact)
    sort quick e…             public Quick (clock-seeded shuffle): runs of cmp-equal elements canonicalised
    select <k> e…             public Select: the comparator class of the result
    partition <lo> <hi> e…    hook VerifPartition: `ok j e…`
    shuffle <c0,c1,…|-> e…    Shuffle with the scripted results of r.Intn
    sort lsduint|msduint|lsdint|msdint w…      sort msdstring|q3string s…      lsdstring <w> s…
    msdintat|msduintat|msdstringat|q3stringat <lo> <hi> <d> …   (hooks exposing the recursive cores)

Threshold sweeps: the input is *described* (length, value mix, seed) and expanded here exactly as the harness expands
it (splitmix64; `genElems`, `genWords`, `genStrs` below mirror `harness/c07`), the answer is a digest of the result:

    gsort <algo> <n> <mix> <seed> [<L>]    `ok n=<n> h=<fnv-1a over the 64-bit words of the result, 16 hex digits>`
    gselect <k> <n> <mix> <seed>           as `select`
    gshuffle <n> <seed>                    choices `next() % (n-i)`, elements `i%5:i`
    glsdstring <w> <n> <fix|fixlong|eq> <seed>

Sub-slices of one backing array (`Model/C07Sub.lean`): the whole array is printed

    sub <algo> <lo> <hi> e…                     sorts a[lo:hi]
    alias <algo> <lo1> <hi1> <lo2> <hi2> e…     sorts a[lo1:hi1], then a[lo2:hi2]
-/
namespace AlgoVerif.C07.Driver
open AlgoVerif AlgoVerif.C07

abbrev Elem := Int × Int

def sgn (a b : Int) : Int := if a < b then -1 else if a > b then 1 else 0

/-- Go's `%` truncates towards zero -/
def cls (name : String) (k : Int) : Int :=
  if name == "mod3" || name == "mod3x5" then Int.tmod k 3 else k

def cmpOf (name : String) : Elem → Elem → Int :=
  if name == "desc" then fun a b => sgn b.1 a.1
  else if name == "mod3" then fun a b => sgn (Int.tmod a.1 3) (Int.tmod b.1 3)
  -- comparators whose results are not normalised to -1/0/+1 (only the sign is meaningful)
  else if name == "diff" then fun a b => a.1 - b.1
  else if name == "diff7" then fun a b => 7 * (a.1 - b.1)
  else if name == "rdiff" then fun a b => b.1 - a.1
  else if name == "rdiff7" then fun a b => 7 * (b.1 - a.1)
  else if name == "mod3x5" then fun a b => (Int.tmod a.1 3 - Int.tmod b.1 3) * 5
  -- lexicographic on (key, id): what `strings.Compare` / `slices.Compare` see when an element is carried as a
  -- fixed-width string or as the slice `[]int{key, id}` (header `ty=string|slice`; the element type is the harness's affair)
  else if name == "lex" then fun a b => if a.1 == b.1 then sgn a.2 b.2 else sgn a.1 b.1
  else fun a b => sgn a.1 b.1

def parseElem (s : String) : Option Elem :=
  match s.splitOn ":" with
  | [k, i] => do let k ← k.toInt?; let i ← i.toInt?; pure (k, i)
  | _ => none

def parseAll {β} (p : String → Option β) (ws : List String) : Option (Array β) :=
  ws.foldl (fun acc w => do let acc ← acc; let v ← p w; pure (acc.push v)) (some #[])

def showElem (e : Elem) : String := s!"{e.1}:{e.2}"

def showArr {β} (f : β → String) (a : Array β) : String :=
  a.foldl (fun s e => s ++ " " ++ f e) "ok"

def render {β} (f : β → String) : Outcome β → String
  | .ok v => f v
  | .panic => "panic"
  | .diverge => "hang"

/-- order on `(key, id)` used only to canonicalise runs of comparator-equal elements -/
def elemLe (a b : Elem) : Bool := a.1 < b.1 || (a.1 == b.1 && a.2 ≤ b.2)

/-- sort every maximal run of adjacent `cmp`-equal elements by `(key, id)` -/
def canonRuns (cmp : Elem → Elem → Int) (a : Array Elem) : Array Elem := Id.run do
  let mut out : Array Elem := #[]
  let mut run : List Elem := []
  for e in a do
    match run with
    | [] => run := [e]
    | p :: _ =>
      if cmp p e == 0 then run := e :: run
      else
        out := out ++ (run.mergeSort elemLe).toArray
        run := [e]
  out := out ++ (run.mergeSort elemLe).toArray
  return out

def parseChoices (s : String) : Option (Array Int) :=
  if s == "-" then some #[] else parseAll (fun w => w.toInt?) (s.splitOn ",")

def choiceFn (cs : Array Int) : Nat → Int := fun i => cs.getD i 0

/-! words and strings -/

def parseU (s : String) : Option UInt64 := s.toNat?.map UInt64.ofNat
def parseI (s : String) : Option UInt64 := s.toInt?.map fun i => (Int64.ofInt i).toUInt64
def showU (v : UInt64) : String := toString v.toNat
def showI (v : UInt64) : String := toString v.toInt64.toInt

def hexVal (c : Char) : Option Nat :=
  if '0' ≤ c ∧ c ≤ '9' then some (c.toNat - '0'.toNat)
  else if 'a' ≤ c ∧ c ≤ 'f' then some (c.toNat - 'a'.toNat + 10)
  else none

def parseHexList : List Char → Option (List UInt8)
  | [] => some []
  | h :: l :: rest => do
    let h ← hexVal h; let l ← hexVal l; let r ← parseHexList rest
    pure (UInt8.ofNat (16*h + l) :: r)
  | _ => none

def parseS (s : String) : Option (List UInt8) :=
  match s.toList with
  | 'x' :: rest => parseHexList rest
  | _ => none

def hexDigit (n : Nat) : Char := if n < 10 then Char.ofNat (48 + n) else Char.ofNat (87 + n)

def showS (s : List UInt8) : String :=
  String.ofList ('x' :: s.flatMap fun b => [hexDigit (b.toNat / 16), hexDigit (b.toNat % 16)])

def zeroElem : Elem := (0, 0)

/-! `Merge` / `MergeRec` run as `mergeBUFast` / `mergeRecFast` (`Proofs/C07Fast.lean`): the Model's functions with the
whole-array `copyRange` replaced by an in-place copy of the range, proved equal to `mergeBU` / `mergeRec`
(`mergeBUFast_eq`, `mergeRecFast_eq`; restated as `C07_driver_merge_is_model_merge`). -/

/-! ### generated inputs and digests (mirror of `harness/c07`: `sm64`, `genElems`, `genWords`, `genStrs`, `digest*`) -/

def smNext (s : UInt64) : UInt64 × UInt64 :=
  let s := s + 0x9E3779B97F4A7C15
  let z := s
  let z := (z ^^^ (z >>> 30)) * 0xBF58476D1CE4E5B9
  let z := (z ^^^ (z >>> 27)) * 0x94D049BB133111EB
  (s, z ^^^ (z >>> 31))

def genElems (n : Nat) (mix : String) (seed : UInt64) : Option (Array Elem) := Id.run do
  if !(["eq", "asc", "desc", "few", "rand", "saw", "organ", "big"].contains mix) then return none
  let (s, _) := smNext seed
  let (s, _) := smNext s
  let mut s := s
  let mut out : Array Elem := Array.mkEmpty n
  for i in [0:n] do
    let (s', rnd) := smNext s
    s := s'
    let k : Int :=
      if mix == "eq" then 7
      else if mix == "asc" then i
      else if mix == "desc" then (n : Int) - i
      else if mix == "few" then (rnd.toNat % 3 : Nat)
      else if mix == "rand" then ((rnd.toNat % (2 * n + 1) : Nat) : Int) - n
      else if mix == "saw" then (i % 17 : Nat)
      else if mix == "organ" then (Nat.min i (n - 1 - i) : Nat)
      else rnd.toInt64.toInt / 4     -- arithmetic shift by 2 = floor division by 4
    out := out.push (k, (i : Int))
  return some out

def genSpecials : Array UInt64 := #[0, 1, 0x7fffffffffffffff, 0x8000000000000000, 0xffffffffffffffff, 0x8000000000000001,
  0xfffffffffffffffe, 0x0080000000000000, 0x007fffffffffffff, 0x0100000000000000, 0x0001000000000000, 0x10000, 0xffff,
  255, 256, 0x100000000, 0x8080000000000000]

def genWords (n : Nat) (mix : String) (seed : UInt64) (signed : Bool) : Option (Array UInt64) := Id.run do
  if !(["eq", "asc", "desc", "full", "ext", "small", "dig", "hi"].contains mix) then return none
  let (s, c0) := smNext seed
  let (s, c1) := smNext s
  let step : UInt64 := 0xffffffffffffffff / UInt64.ofNat (Nat.max n 1)
  let flip : UInt64 := if signed then 0x8000000000000000 else 0
  let mut s := s
  let mut out : Array UInt64 := Array.mkEmpty n
  for i in [0:n] do
    let (s', rnd) := smNext s
    s := s'
    let v : UInt64 :=
      if mix == "eq" then c0
      else if mix == "asc" then (UInt64.ofNat i * step) ^^^ flip
      else if mix == "desc" then (UInt64.ofNat (n - 1 - i) * step) ^^^ flip
      else if mix == "full" then rnd
      else if mix == "ext" then genSpecials[(rnd % UInt64.ofNat genSpecials.size).toNat]!
      else if mix == "small" then rnd % 41 - 20
      else if mix == "dig" then
        let sh := c1 % 49
        (c0 &&& ~~~((0xffff : UInt64) <<< sh)) ||| ((rnd &&& 0xffff) <<< sh)
      else (rnd <<< 48) ||| (c0 &&& 0xffff)
    out := out.push v
  return some out

def genAlpha : Array UInt8 := #[0x00, 0x61, 0x62, 0xfe, 0xff]

def genTail (rnd : UInt64) (t : Nat) : List UInt8 :=
  (List.range t).map fun k => genAlpha[((rnd >>> UInt64.ofNat (8 * (k + 1))) % 5).toNat]!

def genStrs (n : Nat) (mix : String) (seed : UInt64) (L : Nat) : Option (Array (List UInt8)) := Id.run do
  if !(["eq", "pre", "chain", "rand", "fix", "fixlong"].contains mix) then return none
  let (s, c0) := smNext seed
  let (s, c1) := smNext s
  let fill : UInt8 := (#[0x00, 0xff, 0x61] : Array UInt8)[(c0 % 3).toNat]!
  let P : List UInt8 := (List.range L).map fun j =>
    if (c1 >>> UInt64.ofNat (j % 64)) &&& 1 == 1 then genAlpha[j % 5]! else fill
  let mut s := s
  let mut out : Array (List UInt8) := Array.mkEmpty n
  for _ in [0:n] do
    let (s', rnd) := smNext s
    s := s'
    let t := Nat.min L 3
    let b : List UInt8 :=
      if mix == "eq" then P
      else if mix == "pre" then P ++ genTail rnd (rnd % 4).toNat
      else if mix == "chain" then P.take (rnd.toNat % (L + 1))
      else if mix == "rand" then genTail rnd (rnd % 5).toNat
      else if mix == "fix" then P.take (L - t) ++ genTail rnd t
      else P.take (L - t) ++ genTail rnd t ++ genTail (rnd >>> 32) (rnd % 3).toNat
    out := out.push b
  return some out

def fnvOffset : UInt64 := 0xcbf29ce484222325
def fnvPrime : UInt64 := 0x100000001b3
def fnvStep (h x : UInt64) : UInt64 := (h ^^^ x) * fnvPrime

def wordOfInt (i : Int) : UInt64 := (Int64.ofInt i).toUInt64

def digestElems (a : Array Elem) : UInt64 :=
  a.foldl (fun h e => fnvStep (fnvStep h (wordOfInt e.1)) (wordOfInt e.2)) fnvOffset

def digestWords (a : Array UInt64) : UInt64 := a.foldl fnvStep fnvOffset

def digestStrs (a : Array (List UInt8)) : UInt64 :=
  a.foldl (fun h s => fnvStep (s.foldl (fun h b => fnvStep h b.toUInt64) h) 0x1ff) fnvOffset

def hex16 (v : UInt64) : String :=
  String.ofList ((List.range 16).map fun i => hexDigit ((v >>> UInt64.ofNat (4 * (15 - i))) &&& 0xf).toNat)

def showDigest (n : Nat) (h : UInt64) : String := s!"ok n={n} h={hex16 h}"

/-- the comparison sorts by name (`quick`: without the shuffle, runs of comparator-equal elements canonicalised by the caller) -/
def elemSort (cmp : Elem → Elem → Int) (algo : String) : Option (Array Elem → Outcome (Array Elem)) :=
  match algo with
  | "selection" => some (selection cmp)
  | "insertion" => some (insertion cmp)
  | "shell" => some (shell cmp)
  | "merge" => some (mergeBUFast cmp zeroElem)
  | "mergerec" => some (mergeRecFast cmp zeroElem)
  | "quick3way" => some (quick3Way cmp)
  | "heap" => some (heap cmp zeroElem)
  | "quickcore" => some (quickCore cmp)
  | "quick" => some (quick (fun _ => 0) cmp)
  | _ => none

def wordSortOf (algo : String) : Option (Array UInt64 → Outcome (Array UInt64)) :=
  match algo with
  | "lsduint" => some lsdUint
  | "msduint" => some msdUint
  | "lsdint" => some lsdInt
  | "msdint" => some msdInt
  | _ => none

def strSortOf (algo : String) : Option (Array (List UInt8) → Outcome (Array (List UInt8))) :=
  match algo with
  | "msdstring" => some msdString
  | "q3string" => some (q3String (fun _ => 0))
  | _ => none

def signedAlgo (algo : String) : Bool := algo == "lsdint" || algo == "msdint"

def parseSeed (s : String) : Option UInt64 := s.toNat?.map UInt64.ofNat

/-- `gsort` / `gselect` / `gshuffle` / `glsdstring` -/
def runGen (cmpName : String) (ws : List String) : String :=
  let cmp := cmpOf cmpName
  match ws with
  | "gsort" :: algo :: n :: mix :: seed :: rest =>
    match n.toNat?, parseSeed seed with
    | some n, some seed =>
      match wordSortOf algo, strSortOf algo, elemSort cmp algo with
      | some f, _, _ =>
        match genWords n mix seed (signedAlgo algo) with
        | some a => render (fun out => showDigest n (digestWords out)) (f a)
        | none => "bad-op"
      | _, some f, _ =>
        match rest with
        | l :: _ =>
          match l.toNat? with
          | some l =>
            match genStrs n mix seed l with
            | some a => render (fun out => showDigest n (digestStrs out)) (f a)
            | none => "bad-op"
          | none => "bad-op"
        | [] => "bad-op"
      | _, _, some f =>
        match genElems n mix seed with
        | some a =>
          render (fun out => showDigest n (digestElems (if algo == "quick" then canonRuns cmp out else out))) (f a)
        | none => "bad-op"
      | _, _, _ => "bad-op"
    | _, _ => "bad-op"
  | ["gselect", k, n, mix, seed] =>
    match k.toInt?, n.toNat?, parseSeed seed with
    | some k, some n, some seed =>
      match genElems n mix seed with
      | some a => render (fun (r : Array Elem × Elem) => s!"ok {cls cmpName r.2.1}") (select (fun _ => 0) cmp a k)
      | none => "bad-op"
    | _, _, _ => "bad-op"
  | ["gshuffle", n, seed] =>
    match n.toNat?, parseSeed seed with
    | some n, some seed => Id.run do
      let mut s := seed
      let mut cs : Array Int := Array.mkEmpty n
      let mut a : Array Elem := Array.mkEmpty n
      for i in [0:n] do
        let (s', rnd) := smNext s
        s := s'
        cs := cs.push ((rnd.toNat % (n - i) : Nat) : Int)
        a := a.push (((i % 5 : Nat) : Int), (i : Int))
      return render (fun out => showDigest n (digestElems out)) (shuffle (choiceFn cs) a)
    | _, _ => "bad-op"
  | ["glsdstring", w, n, mix, seed] =>
    match w.toNat?, n.toNat?, parseSeed seed with
    | some w, some n, some seed =>
      if mix != "fix" && mix != "fixlong" && mix != "eq" then "bad-op" else
      match genStrs n mix seed w with
      | some a => render (fun out => showDigest n (digestStrs out)) (lsdString a w)
      | none => "bad-op"
    | _, _, _ => "bad-op"
  | _ => "bad-op"

/-- `sub` / `alias`: `rg` is the list of `lo hi` pairs, sorted one after the other on the same array -/
def runSub (cmpName : String) (algo : String) (rg : List (Int × Int)) (rest : List String) : String :=
  let cmp := cmpOf cmpName
  let go {β : Type} (f : Array β → Outcome (Array β)) (a : Array β) : Outcome (Array β) :=
    rg.foldl (fun acc r => acc.bind fun a => onSub f a r.1 r.2) (.ok a)
  match wordSortOf algo, strSortOf algo, elemSort cmp algo with
  | some f, _, _ =>
    let (p, sh) := if signedAlgo algo then (parseI, showI) else (parseU, showU)
    match parseAll p rest with
    | some a => render (showArr sh) (go f a)
    | none => "bad-op"
  | _, some f, _ =>
    match parseAll parseS rest with
    | some a => render (showArr showS) (go f a)
    | none => "bad-op"
  | _, _, some f =>
    match parseAll parseElem rest with
    | some a =>
      -- the public Quick: runs of comparator-equal elements inside the range sorted last are canonicalised
      let canon (out : Array Elem) : Array Elem :=
        match algo == "quick", rg.getLast? with
        | true, some (lo, hi) =>
          out.extract 0 lo.toNat ++ canonRuns cmp (out.extract lo.toNat hi.toNat) ++ out.extract hi.toNat out.size
        | _, _ => out
      render (fun out => showArr showElem (canon out)) (go f a)
    | none => "bad-op"
  | _, _, _ => "bad-op"

def runOp (cmpName : String) (line : String) : String :=
  let cmp := cmpOf cmpName
  match words line with
  | "gsort" :: rest => runGen cmpName ("gsort" :: rest)
  | "gselect" :: rest => runGen cmpName ("gselect" :: rest)
  | "gshuffle" :: rest => runGen cmpName ("gshuffle" :: rest)
  | "glsdstring" :: rest => runGen cmpName ("glsdstring" :: rest)
  | "sub" :: algo :: lo :: hi :: rest =>
    match lo.toInt?, hi.toInt? with
    | some lo, some hi => runSub cmpName algo [(lo, hi)] rest
    | _, _ => "bad-op"
  | "alias" :: algo :: lo1 :: hi1 :: lo2 :: hi2 :: rest =>
    match lo1.toInt?, hi1.toInt?, lo2.toInt?, hi2.toInt? with
    | some lo1, some hi1, some lo2, some hi2 => runSub cmpName algo [(lo1, hi1), (lo2, hi2)] rest
    | _, _, _, _ => "bad-op"
  | "sort" :: algo :: rest =>
    let cmpSort (f : Array Elem → Outcome (Array Elem)) : String :=
      match parseAll parseElem rest with
      | some a => render (showArr showElem) (f a)
      | none => "bad-op"
    let wordSort (p : String → Option UInt64) (sh : UInt64 → String) (f : Array UInt64 → Outcome (Array UInt64)) : String :=
      match parseAll p rest with
      | some a => render (showArr sh) (f a)
      | none => "bad-op"
    let strSort (f : Array (List UInt8) → Outcome (Array (List UInt8))) : String :=
      match parseAll parseS rest with
      | some a => render (showArr showS) (f a)
      | none => "bad-op"
    match algo with
    | "selection" => cmpSort (selection cmp)
    | "insertion" => cmpSort (insertion cmp)
    | "shell" => cmpSort (shell cmp)
    | "merge" => cmpSort (mergeBUFast cmp zeroElem)
    | "mergerec" => cmpSort (mergeRecFast cmp zeroElem)
    | "quick3way" => cmpSort (quick3Way cmp)
    | "heap" => cmpSort (heap cmp zeroElem)
    | "quickcore" => cmpSort (quickCore cmp)
    | "quick" => cmpSort (fun a => (quick (fun _ => 0) cmp a).map (canonRuns cmp))
    | "lsduint" => wordSort parseU showU lsdUint
    | "msduint" => wordSort parseU showU msdUint
    | "lsdint" => wordSort parseI showI lsdInt
    | "msdint" => wordSort parseI showI msdInt
    | "msdstring" => strSort msdString
    | "q3string" => strSort (q3String (fun _ => 0))
    | _ => "bad-op"
  | "select" :: k :: rest =>
    match k.toInt?, parseAll parseElem rest with
    | some k, some a => render (fun (r : Array Elem × Elem) => s!"ok {cls cmpName r.2.1}") (select (fun _ => 0) cmp a k)
    | _, _ => "bad-op"
  | "partition" :: lo :: hi :: rest =>
    match lo.toInt?, hi.toInt?, parseAll parseElem rest with
    | some lo, some hi, some a =>
      render (fun (r : Array Elem × Int) => r.1.foldl (fun s e => s ++ " " ++ showElem e) s!"ok {r.2}") (partition cmp a lo hi)
    | _, _, _ => "bad-op"
  | "shuffle" :: cs :: rest =>
    match parseChoices cs, parseAll parseElem rest with
    | some cs, some a => render (showArr showElem) (shuffle (choiceFn cs) a)
    | _, _ => "bad-op"
  | "lsdstring" :: w :: rest =>
    match w.toInt?, parseAll parseS rest with
    | some w, some a => render (showArr showS) (lsdString a w)
    | _, _ => "bad-op"
  | op :: lo :: hi :: d :: rest =>
    match lo.toInt?, hi.toInt?, d.toInt? with
    | some lo, some hi, some d =>
      match op with
      | "msdintat" =>
        match parseAll parseI rest with
        | some a => render (showArr showI) (msdIntAt a lo hi d)
        | none => "bad-op"
      | "msduintat" =>
        match parseAll parseU rest with
        | some a => render (showArr showU) (msdUintAt a lo hi d)
        | none => "bad-op"
      | "msdstringat" =>
        match parseAll parseS rest with
        | some a => render (showArr showS) (msdStringAt a lo hi d)
        | none => "bad-op"
      | "q3stringat" =>
        match parseAll parseS rest with
        | some a => render (showArr showS) (q3StringAt a lo hi d)
        | none => "bad-op"
      | _ => "bad-op"
    | _, _, _ => "bad-op"
  | _ => "bad-op"

/-- every op of a case is independent (each carries its own slice); after a `panic`/`hang` the
harness ends the case, so the rest prints `skip`. -/
def runCase (hdr : List String) (ops : List String) : List String := Id.run do
  let cmpName := (headerGet hdr "cmp").getD "asc"
  let mut dead := false
  let mut out : Array String := #[]
  for line in ops do
    if dead then out := out.push "skip"; continue
    let r := runOp cmpName line
    if r == "panic" || r == "hang" then dead := true
    out := out.push r
  return out.toList

end AlgoVerif.C07.Driver
