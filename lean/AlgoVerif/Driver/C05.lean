import AlgoVerif.Model.C05
import AlgoVerif.Model.C05Binomial
import AlgoVerif.Model.C05Fibonacci
/-! Line-protocol component for C05 (keys `Int`, values `String`; `ord=min|max|mind|maxd7|half` picks the comparator). -/
namespace AlgoVerif.C05.Driver
open AlgoVerif AlgoVerif.C05

def cmpMin (a b : Int) : Int := if a < b then -1 else if a > b then 1 else 0
def cmpMax (a b : Int) : Int := if a > b then -1 else if a < b then 1 else 0
/-- non-normalised comparators: only the sign may matter -/
def cmpMinD (a b : Int) : Int := a - b
def cmpMaxD7 (a b : Int) : Int := 7 * (b - a)
/-- `2i` and `2i+1` compare equal (`Int` floor division) -/
def cmpHalf (a b : Int) : Int := cmpMin (a / 2) (b / 2)
def eqS (a b : String) : Bool := a == b

def showRes : Res Int String → String
  | .unit => "ok"
  | .bool b => s!"ok {showBool b}"
  | .int n => s!"ok {n}"
  | .ikv none => "ok none"
  | .ikv (some (i, k, v)) => s!"ok some {i} {k} {v}"
  | .kv none => "ok none"
  | .kv (some (k, v)) => s!"ok some {k} {v}"

def parseOp (line : String) : Option (Op Int String) :=
  match words line with
  | ["insert", i, k, v] => do let i ← parseInt? i; let k ← parseInt? k; pure (.insert i k v)
  | ["changekey", i, k] => do let i ← parseInt? i; let k ← parseInt? k; pure (.changeKey i k)
  | ["delete"] => some .delete
  | ["deleteindex", i] => do let i ← parseInt? i; pure (.deleteIndex i)
  | ["deleteall"] => some .deleteAll
  | ["peek"] => some .peek
  | ["peekindex", i] => do let i ← parseInt? i; pure (.peekIndex i)
  | ["containsindex", i] => do let i ← parseInt? i; pure (.containsIndex i)
  | ["containskey", k] => do let k ← parseInt? k; pure (.containsKey k)
  | ["containsvalue", v] => some (.containsValue v)
  | ["size"] => some .size
  | ["isempty"] => some .isEmpty
  | _ => none

/-! ### dumps (same text as `heap.VerifIndexedDump`) -/

def joinSp (l : List String) : String := " ".intercalate l

def dumpBinary (h : IBinary Int String) : String :=
  let kvs := h.kvs.toList.map fun e => match e with
    | some (k, v) => s!"({k},{v})"
    | none => "-"
  s!"n={h.n} heap={showNatList h.heap.toList} pos={showIntList h.pos.toList} kvs=[{joinSp kvs}]"

def showCell (cells : Array (Cell Int String)) (id : Nat) : String × String :=
  match cells[id]? with
  | some c => (toString c.index, s!"{c.index} {c.key} {c.val}")
  | none => ("?", "? ? ?")

def dumpBT (cells : Array (Cell Int String)) (par : String) : BT → String
  | .nil => ""
  | .node id o c s =>
    let (idx, txt) := showCell cells id
    let inner := match c with
      | .nil => ""
      | c => " " ++ dumpBT cells idx c
    s!"({txt} {o} ^{par}{inner})" ++ dumpBT cells par s

def showNodes (nodes : Array (Option Nat)) (pre : List Nat) : String :=
  joinSp (nodes.toList.map fun e => match e with
    | none => "-"
    | some id => match pre.findIdx? (· == id) with
      | some k => toString k
      | none => "?")

def dumpBinomial (h : IBinomial Int String) : String :=
  s!"n={h.n} head={dumpBT h.cells "-" h.head} nodes=[{showNodes h.nodes h.head.ids}]"

def dumpFT (cells : Array (Cell Int String)) (par : String) : FT → String
  | .nil => ""
  | .node id d m c nx =>
    let (idx, txt) := showCell cells id
    let inner := match c with
      | .nil => ""
      | c => " " ++ dumpFT cells idx c
    let mk := if m then "*" else "."
    s!"({txt} {d} {mk} ^{par}{inner})" ++ dumpFT cells par nx

def dumpFib (h : IFib Int String) : String :=
  let forest := FT.ofList h.roots
  s!"n={h.n} ext={dumpFT h.cells "-" forest} nodes=[{showNodes h.nodes forest.ids}]"

/-- generic case loop: `step` on parsed ops, `dump` rendered from the state -/
def runGeneric {σ : Type} (step : σ → Op Int String → Outcome (σ × Res Int String)) (dump : σ → String)
    (init : σ) (ops : List String) : List String := Id.run do
  let mut s := init
  let mut dead := false
  let mut out : Array String := #[]
  for line in ops do
    if dead then out := out.push "skip"; continue
    if words line == ["dump"] then out := out.push ("ok " ++ dump s); continue
    match parseOp line with
    | none => out := out.push "bad-op"
    | some op =>
      -- hand the state over (no second reference is kept), so that the arrays can be updated in place
      let cur := s
      s := init
      match step cur op with
      | .ok (s', r) => s := s'; out := out.push (showRes r)
      | .panic => dead := true; out := out.push "panic"
      | .diverge => dead := true; out := out.push "hang"
  return out.toList

def runMaxDeg (ops : List String) : List String :=
  ops.map fun line =>
    match words line with
    | ["maxdeg", n] =>
      match parseInt? n with
      | some n =>
        match fibMaxDegree n with
        | .ok d => s!"ok {d}"
        | .panic => "panic"
        | .diverge => "hang"
      | none => "bad-op"
    | _ => "bad-op"

def runCase (hdr : List String) (ops : List String) : List String :=
  let cap := headerNat hdr "cap" 0
  let cmp := match headerGet hdr "ord" with
    | some "max" => cmpMax
    | some "mind" => cmpMinD
    | some "maxd7" => cmpMaxD7
    | some "half" => cmpHalf
    | _ => cmpMin
  -- `huge=1`: heaps of 2^18 .. 5*10^6 entries behind single `bulk` lines, judged by the harness oracle alone; the
  -- executable Model is not run at that size and the executor prints `ok` per line as well (a panic still differs)
  if (headerGet hdr "huge").isSome then ops.map fun _ => "ok" else
  match headerGet hdr "comp" with
  | some "ibinary" => runGeneric (IBinary.step cmp eqS) dumpBinary (IBinary.new cap) ops
  | some "ibinomial" => runGeneric (IBinomial.step cmp eqS) dumpBinomial (IBinomial.new cap) ops
  | some "ifibonacci" => runGeneric (IFib.step cmp eqS) dumpFib (IFib.new cap) ops
  | some "maxdeg" => runMaxDeg ops
  | _ => ops.map fun _ => "bad-case"

end AlgoVerif.C05.Driver
