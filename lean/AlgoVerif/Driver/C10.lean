import AlgoVerif.Model.C10
import AlgoVerif.Model.C10Ext
import AlgoVerif.Model.C10Edit
import AlgoVerif.Model.C08
/-!
Line-protocol component for C10 and C12 (shared; `Driver/C12.lean` delegates here).

A case is a grammar description (`terms …`, `nonterms …`, `start S`, `prod H : body`, see
`Model/GrammarCore.lean`; each answers `ok`) followed by query ops.  Description lines may also come
between queries — the harness then changes the SAME `*CFG` object in place (`Productions.Add`, …) — and
`unprod H : body` removes a production in place; later queries see the changed grammar.

```
nullable            -> ok {A,B}
first X Y …         -> ok {a,b} eps=false            (panic: a symbol reached is not declared)
follow A            -> ok {a} end=true               (panic: A is not declared)
ll1                 -> ok true | ok false [ff A: α | β; ef A: eps=α other=β]
table               -> ok conflicts=[A/a …] cells=[A/a:{p|q} A/$:sync …]
                       (conflicts in the order `Conflicts()` reports them: rows as `OrderNonTerminals`
                        lists them, columns sorted with `$` last; cells sorted, productions of a cell sorted)
parse a b c         -> ok accept p₁; p₂; … | ok reject terminal|noentry|trailing | ok table-error
ast a b c           -> ok <tree> yield=[a b c]   | as parse
unchanged           -> ok true                       (the caller's grammar still equals its clone)
verify              -> ok valid | ok invalid [head:Z; no-prod:A; nonterm:Y; start; start-prod; term:z]
                       (the errors `Verify()` collects, as a sorted multiset)
tryfirst X Y …      -> as first, but a panic of the closure is caught: ok panicked  (the case goes on; the
                       memo table of the closure keeps the partial value, which a later `first X Y …` returns)
cell A a            -> ok empty=true|false sync=true|false prod=-|A→α     (IsEmpty, IsSync, GetProduction; `$` = endmarker)
parse0 a b c        -> ok accept | ok reject … | ok table-error           (Parse with nil callbacks)
parsef L T P : a b  -> ok accept [e₁; …] | ok reject <why> [e₁; …] | ok fail lexer|token@j|prod [e₁; …] | ok table-error
                       (L: the NextToken call that fails with an error other than EOF, T: the position of the token
                        whose callback returns an error, P: the number of the production callback that does; `-` = never;
                        eᵢ: the callbacks that returned nil, `a@0` for a token, `A→α` for a production)
astf L : a b        -> as ast | ok fail lexer
```
On a grammar that fails `Verify()` every query (except `verify`, `unchanged`) answers `ok invalid`; written with a leading
`!` (`!table`, `!parse a`, …) the query is run all the same, and the answer is `panic` where the Go code dereferences the nil
answer of a table that has no entry for an undeclared symbol.

Symbols by name: a word is `[marker] ++ encName name`.  The marker `'` says terminal, `^` says non-terminal (declared or
not); without a marker a body word is a non-terminal iff it is listed in `nonterms`.  `encName` writes the empty name as `%`
and, byte by byte as `%XX`, every byte ≤ 0x20, 0x7F, `%`, the arrow `→`, a leading `'` or `^`, and the names `$` and `ε`
altogether (harness/c10: EncName / DecName are the same functions).  The driver DECODES every word it reads, so the Model
runs on the names the Go code sees (`OrderTerminals`, `OrderNonTerminals` and `cmpProduction` order by name), and ENCODES
every name it prints; printed terminals carry the `'` exactly when a declared non-terminal has the same name.
-/
namespace AlgoVerif.C10.Driver
open AlgoVerif AlgoVerif.Gram AlgoVerif.C10

def showSet (l : List String) : String := "{" ++ ",".intercalate (sortDedup l) ++ "}"

/-! ### names ⇄ words -/

def hexVal (b : UInt8) : Option UInt8 :=
  if 48 ≤ b && b ≤ 57 then some (b - 48)
  else if 65 ≤ b && b ≤ 70 then some (b - 55)
  else if 97 ≤ b && b ≤ 102 then some (b - 87)
  else none

/-- `%XX` → the byte; any other byte (and a `%` that is not followed by two hex digits) stands for itself -/
def decBytes : Nat → List UInt8 → List UInt8
  | 0, l => l
  | _, [] => []
  | n + 1, b :: rest =>
    if b = 37 then
      match rest with
      | h :: l :: rest' =>
        match hexVal h, hexVal l with
        | some x, some y => (x * 16 + y) :: decBytes n rest'
        | _, _ => b :: decBytes n rest
      | _ => b :: decBytes n rest
    else b :: decBytes n rest

/-- the name a word (without marker) stands for -/
def decName (w : String) : String :=
  if w = "%" then "" else
  if !w.contains '%' then w else
  let bs := w.toUTF8.toList
  match String.fromUTF8? (ByteArray.mk (decBytes bs.length bs).toArray) with
  | some s => s
  | none => w

def hexDigit (n : Nat) : Char := if n < 10 then Char.ofNat (48 + n) else Char.ofNat (55 + n)

def escByte (b : UInt8) : String := String.ofList ['%', hexDigit (b.toNat / 16), hexDigit (b.toNat % 16)]

def escChar (c : Char) : String := String.join ((String.singleton c).toUTF8.toList.map escByte)

/-- the canonical word of a name -/
def encName (s : String) : String :=
  if s = "" then "%" else
  if s = "$" || s = "ε" then String.join (s.toList.map escChar) else
  let esc (first : Bool) (c : Char) : String :=
    if c.toNat ≤ 32 || c.toNat = 127 || c = '%' || c = '→' || (first && (c = '\'' || c = '^')) then escChar c
    else String.singleton c
  match s.toList with
  | [] => "%"
  | c :: rest => esc true c ++ String.join (rest.map (esc false))

/-- a terminal is printed with `'` exactly when a declared non-terminal has its name -/
def encT (g : SGrammar) (t : String) : String :=
  if g.nonterms.contains t then "'" ++ encName t else encName t

def encSym (g : SGrammar) : SSym → String
  | .term t => encT g t
  | .nonterm n => encName n

def showBodyE (g : SGrammar) (b : List SSym) : String :=
  if b.isEmpty then "ε" else " ".intercalate (b.map (encSym g))

def prodKey (g : SGrammar) (p : SProd) : String := encName p.head ++ "→" ++ showBodyE g p.body

def colName (g : SGrammar) : Option String → String
  | some a => encT g a
  | none => "$"

/-- the terminal a word (with or without `'`) names -/
def decT (w : String) : String :=
  match w.toList with
  | '\'' :: r => decName (String.ofList r)
  | _ => decName w

/-- the non-terminal a word (with or without `^`) names -/
def decN (w : String) : String :=
  match w.toList with
  | '^' :: r => decName (String.ofList r)
  | _ => decName w

def toSym (g : SGrammar) (w : String) : SSym :=
  match w.toList with
  | '^' :: r => Sym.nonterm (decName (String.ofList r))
  | '\'' :: r => Sym.term (decName (String.ofList r))
  | _ => let n := decName w; if g.nonterms.contains n then Sym.nonterm n else Sym.term n

/-- the names of `l` (duplicate-free) in the order of the words `key` gives them -/
def sortByWord (key : String → String) (l : List String) : List String :=
  (AlgoVerif.C08.sortBy (fun (a b : String × String) => decide (a.1 < b.1)) ((dedup l).map fun x => (key x, x))).map (·.2)

/-- `NewCFG`: the three components are sets -/
def normalise (g : SGrammar) : SGrammar :=
  { g with terms := dedup g.terms, nonterms := dedup g.nonterms, prods := dedup g.prods }

def showLL1Err (g : SGrammar) : LL1Err String String → String
  | .firstFirst A α β =>
    let a := showBodyE g α
    let b := showBodyE g β
    if a < b then s!"ff {encName A}: {a} | {b}" else s!"ff {encName A}: {b} | {a}"
  | .epsFollow A e o => s!"ef {encName A}: eps={showBodyE g e} other={showBodyE g o}"

/-- sort, keeping duplicates -/
def insertKeep (x : String) : List String → List String
  | [] => [x]
  | y :: ys => if x < y then x :: y :: ys else y :: insertKeep x ys

def sortKeep (l : List String) : List String := l.foldl (fun acc x => insertKeep x acc) []

def showVerifyErr (g : SGrammar) : VerifyErr String String → String
  | .startUndeclared => "start"
  | .noStartProd => "start-prod"
  | .noProd n => "no-prod:" ++ encName n
  | .headUndeclared n => "head:" ++ encName n
  | .termUndeclared t => "term:" ++ encT g t
  | .nontermUndeclared n => "nonterm:" ++ encName n

def showVerify (g : SGrammar) : String :=
  match verifyErrors g with
  | [] => "ok valid"
  | es => s!"ok invalid [{"; ".intercalate (sortKeep (es.map (showVerifyErr g)))}]"

/-- the rows in the order `OrderNonTerminals` returns them (`Model/C08.lean: orderNT`) -/
def tableRows (g : SGrammar) : List String :=
  match AlgoVerif.C08.orderNT g with
  | .ok nts => nts
  | _ => g.nonterms

def showTable (g : SGrammar) (an : Analysis String String) : String :=
  let fi := firstStr an.first
  let rows := tableRows g
  let cols := (sortDedup g.terms).map some ++ [none]
  let t := buildTable fi an.follow g.prods rows
  let confl := (tconflicts t rows cols).map fun c => encName c.1 ++ "/" ++ colName g c.2
  -- the cells are listed in the order of the printed words
  let nts := sortByWord encName g.nonterms
  let dcols := (sortByWord (encT g) g.terms).map some ++ [none]
  let cells := nts.flatMap fun A => dcols.filterMap fun a =>
    let ps := tcell t A a
    if !ps.isEmpty then some (encName A ++ "/" ++ colName g a ++ ":{" ++ "|".intercalate (sortDedup (ps.map (prodKey g))) ++ "}")
    else if tsync t A a then some (encName A ++ "/" ++ colName g a ++ ":sync")
    else none
  s!"ok conflicts=[{" ".intercalate confl}] cells=[{" ".intercalate cells}]"

def showReject : Reject → String
  | .terminal => "terminal"
  | .noEntry => "noentry"
  | .trailing => "trailing"

def prodsOf (evs : List (Event String String)) : List SProd :=
  evs.filterMap fun e => match e with
    | .prod p => some p
    | .tok _ _ => none

mutual
def showTree (g : SGrammar) : Tree String String → String
  | .leaf t (some k) => s!"{encT g t}@{k}"
  | .leaf t none => s!"{encT g t}@?"
  | .node A none _ => s!"({encName A}?)"
  | .node _ (some p) kids => "(" ++ prodKey g p ++ showKids g kids ++ ")"
def showKids (g : SGrammar) : List (Tree String String) → String
  | [] => ""
  | k :: ks => " " ++ showTree g k ++ showKids g ks
end

def parseFuel : Nat := 1000000

def showOutcome {α : Type} (f : α → String) : Outcome α → String
  | .ok a => f a
  | .panic => "panic"
  | .diverge => "hang"

def showEvent (g : SGrammar) : Event String String → String
  | .tok t pos => s!"{encT g t}@{pos}"
  | .prod p => prodKey g p

def showEvents (g : SGrammar) (es : List (Event String String)) : String :=
  "[" ++ "; ".intercalate (es.map (showEvent g)) ++ "]"

def showEnding : Ending → String
  | .accept => "accept"
  | .reject why => "reject " ++ showReject why
  | .fail .lexer => "fail lexer"
  | .fail (.token pos) => s!"fail token@{pos}"
  | .fail .prod => "fail prod"

/-- `-` = never, otherwise a number -/
def faultArg (s : String) : Option Nat := if s = "-" then none else s.toNat?

def showTE (g : SGrammar) (f : TE String) : String := s!"ok {showSet (f.terms.map (encT g))} eps={showBool f.eps}"

/-- state of the driver between two description lines -/
structure St where
  g : SGrammar
  valid : Bool
  /-- FIRST as the Go code computes it (`panic` where it dereferences nil) -/
  fi : Outcome (String → TE String)
  /-- FIRST and FOLLOW -/
  an : Outcome (Analysis String String)
  /-- the memo table of the FIRST closure the `first` queries go to -/
  memo : FirstMemo String String

def mkSt (raw : SGrammar) : St :=
  let g := normalise raw
  let valid := validB g
  let an := if valid then analyse g IterOrder.canon IterOrder.canon else analyseP g IterOrder.canon IterOrder.canon
  { g := g, valid := valid, memo := [], an := an,
    fi := if valid then an.map (·.first) else computeFirstP g IterOrder.canon }

/-- an object the case keeps (`keep KIND NAME`): for `first`, `follow`, `table` the state it was made from (its own
memo table for `first`); a `parser` keeps nothing (it reads the grammar object at every `Parse`) -/
structure Kept where
  kind : String
  st : St

/-- one query.  `st` is what is computed on (grammar, analyses, memo table), `gw` the grammar as it is NOW: words are
read and names are printed by its declarations (for a query to a kept object `st` is the kept state). -/
def runOn (st : St) (gw : SGrammar) (gate : Bool) (cmd0 : String) (args : List String) : String × St :=
  let g := st.g
  let o : IterOrder String String := IterOrder.canon
  let forced := cmd0.startsWith "!"
  let cmd := if forced then (cmd0.drop 1).toString else cmd0
  if gate && !st.valid && !forced then ("ok invalid", st) else
  let an := st.an
  let firstQ (xs : List String) (caught : Bool) : String × St :=
    match st.fi with
    | .ok fi =>
      let r := firstCall g fi st.memo (xs.map (toSym gw))
      ((match r.1 with
        | .ok f => showTE gw f
        | .panic => if caught then "ok panicked" else "panic"
        | .diverge => "hang"), { st with memo := r.2 })
    | .panic => ("panic", st)
    | .diverge => ("hang", st)
  match cmd, args with
  | "nullable", [] =>
    (showOutcome (fun l => "ok " ++ showSet (l.map encName)) (if st.valid then nullable g o else nullableP g o), st)
  | "first", xs => firstQ xs false
  -- the strings handed over in one buffer that the caller writes the next string into: the closure keeps a copy
  | "firstbuf", xs => firstQ xs false
  | "tryfirst", xs => firstQ xs true
  | "follow", [A] =>
    (showOutcome id (an.bind fun an =>
      let A := decN A
      if g.nonterms.contains A then
        let f := an.follow A
        Outcome.ok s!"ok {showSet (f.terms.map (encT gw))} end={showBool f.endm}"
      else Outcome.panic), st)
  | "ll1", [] =>
    (showOutcome id (an.map fun an =>
      let errs := ll1Errors g (firstStr an.first) an.follow
      if errs.isEmpty then "ok true"
      else s!"ok false [{"; ".intercalate (sortDedup (errs.map (showLL1Err gw)))}]"), st)
  | "table", [] => (showOutcome id (an.map fun an => showTable g an), st)
  | "cell", [A, a] =>
    (showOutcome id (an.map fun an =>
      let t := buildTable (firstStr an.first) an.follow g.prods (tableRows g)
      let c := cellInfo t (decN A) (if a = "$" then none else some (decT a))
      s!"ok empty={showBool c.1} sync={showBool c.2.1} prod={match c.2.2 with
        | some p => prodKey gw p
        | none => "-"}"), st)
  | "parse", w =>
    (showOutcome id (an.bind fun an =>
      (parseWith g an parseFuel (w.map decT)).map fun r =>
        match r with
        | .tableError => "ok table-error"
        | .done (.reject why) => "ok reject " ++ showReject why
        | .done (.accept evs) => ("ok accept " ++ "; ".intercalate ((prodsOf evs).map (prodKey g)))), st)
  | "parse0", w =>
    (showOutcome id (an.bind fun an =>
      (parseWith g an parseFuel (w.map decT)).map fun r =>
        match r with
        | .tableError => "ok table-error"
        | .done (.reject why) => "ok reject " ++ showReject why
        | .done (.accept _) => "ok accept"), st)
  | "parsef", l :: t :: p :: ":" :: w =>
    (showOutcome id (an.bind fun an =>
      (parseWithF g an (faultArg l) (faultArg t) (faultArg p) parseFuel (w.map decT)).map fun r =>
        match r with
        | .tableError => "ok table-error"
        | .done evs e => s!"ok {showEnding e} {showEvents g evs}"), st)
  | "astf", l :: ":" :: w =>
    (showOutcome id (an.bind fun an =>
      (parseWithF g an (faultArg l) none none parseFuel (w.map decT)).bind fun r =>
        match r with
        | .tableError => Outcome.ok "ok table-error"
        | .done evs .accept =>
          (buildASTStack g.start evs).map fun t =>
            s!"ok {showTree g t} yield=[{" ".intercalate (t.yield.map (encT g))}]"
        | .done _ e => Outcome.ok ("ok " ++ showEnding e)), st)
  | "ast", w =>
    (showOutcome id (an.bind fun an =>
      (parseWith g an parseFuel (w.map decT)).bind fun r =>
        match r with
        | .tableError => Outcome.ok "ok table-error"
        | .done (.reject why) => Outcome.ok ("ok reject " ++ showReject why)
        | .done (.accept evs) =>
          (buildASTStack g.start evs).map fun t =>
            s!"ok {showTree g t} yield=[{" ".intercalate (t.yield.map (encT g))}]"), st)
  | _, _ => ("bad-op", st)

/-- the kind of kept object a query goes to -/
def keptKindOf (cmd : String) : String :=
  if cmd = "first" || cmd = "tryfirst" || cmd = "firstbuf" then "first"
  else if cmd = "follow" then "follow"
  else if cmd = "cell" then "table"
  else if cmd = "parse" || cmd = "ast" || cmd = "parse0" || cmd = "parsef" || cmd = "astf" then "parser"
  else ""

abbrev Pool := List (String × Kept)

def Pool.set (p : Pool) (name : String) (k : Kept) : Pool := (name, k) :: p.filter (·.1 ≠ name)

def runQuery (st : St) (pool : Pool) (line : String) : String × St × Pool :=
  match words line with
  | ["unchanged"] => ("ok true", st, pool)
  | ["verify"] => (showVerify st.g, st, pool)
  | "with" :: _ :: ["unchanged"] => ("ok true", st, pool)
  | "with" :: _ :: ["verify"] => (showVerify st.g, st, pool)
  | "with" :: name :: cmd0 :: args =>
    let cmd := if cmd0.startsWith "!" then (cmd0.drop 1).toString else cmd0
    match pool.lookup name with
    | none => ("ok none", st, pool)
    | some k =>
      if keptKindOf cmd = "" || k.kind ≠ keptKindOf cmd then ("ok none", st, pool)
      else if k.kind = "parser" then
        -- the parser reads the caller's grammar object at every Parse: the grammar as it is now
        let r := runOn st st.g true cmd0 args
        (r.1, r.2, pool)
      else
        -- a FIRST closure, a FOLLOW function, a table: made from the grammar as it was, never looking at it again
        let r := runOn k.st st.g false cmd0 args
        (r.1, st, pool.set name { k with st := r.2 })
  | cmd0 :: args =>
    let cmd := if cmd0.startsWith "!" then (cmd0.drop 1).toString else cmd0
    if cmd = "keep" then
      if !st.valid then ("ok invalid", st, pool) else
      match args with
      | [kind, name] =>
        if kind = "first" || kind = "follow" || kind = "table" || kind = "parser" then
          ("ok", st, pool.set name { kind := kind, st := { st with memo := [] } })
        else ("bad-op", st, pool)
      | _ => ("bad-op", st, pool)
    else
      let r := runOn st st.g true cmd0 args
      (r.1, r.2, pool)
  | [] => ("bad-op", st, pool)

/-- a description line as the edits it makes (`Model/C10Edit.lean`); `none`: not a description line.  A body word is a
non-terminal iff it carries `^` or names a non-terminal declared at that moment. -/
def parseDesc (g : SGrammar) (line : String) : Option (List (Edit String String)) :=
  let body (ws : List String) : List SSym := ws.map (toSym g)
  match words line with
  | "terms" :: ts => some (ts.map fun t => .addTerm (decT t))
  | "unterm" :: ts => some (ts.map fun t => .removeTerm (decT t))
  | "nonterms" :: ns => some (ns.map fun n => .addNonterm (decN n))
  | "unnonterm" :: ns => some (ns.map fun n => .removeNonterm (decN n))
  | ["start", s] => some [.setStart (decN s)]
  | "prod" :: h :: ":" :: b => some [.addProd { head := decN h, body := body b }]
  | "unprod" :: h :: ":" :: b => some [.removeProd { head := decN h, body := body b }]
  | "unprodall" :: hs => some (hs.map fun h => .removeAll (decN h))
  | "getadd" :: h :: ":" :: b => some [.getAdd { head := decN h, body := body b }]
  | "yieldadd" :: h :: ":" :: b => some [.getAdd { head := decN h, body := body b }]
  | "getremove" :: h :: ":" :: b => some [.getRemove { head := decN h, body := body b }]
  | "yieldremove" :: h :: ":" :: b => some [.getRemove { head := decN h, body := body b }]
  | "setbody" :: h :: ":" :: rest =>
    if rest.contains "=>" then
      let old := rest.takeWhile (· ≠ "=>")
      let new := (rest.dropWhile (· ≠ "=>")).drop 1
      some [.setBody { head := decN h, body := body old } (body new)]
    else none
  | "setsym" :: h :: i :: x :: ":" :: b =>
    let old := body b
    match i.toNat? with
    | some k => if k < old.length then some [.setBody { head := decN h, body := old } (old.set k (toSym g x))] else some []
    | none => some []
  | ["refresh", _] => some [.refresh]
  | _ => none

def runCase (_hdr : List String) (ops : List String) : List String := Id.run do
  let mut raw : SGrammar := SGrammar.empty
  -- the grammar with its validity and analyses, recomputed after a description line
  let mut cur : Option St := none
  let mut pool : Pool := []
  let mut out : Array String := #[]
  let mut dead := false
  for l in ops do
    if dead then
      out := out.push "skip"
    else
    match parseDesc raw l with
    | some es =>
      raw := applyEdits raw es
      cur := none
      -- a table holds the `*Production` values of its grammar, an edit through such a pointer would show in it: kept
      -- tables end at such an edit
      if (words l).head? = some "setbody" || (words l).head? = some "setsym" then
        pool := pool.filter (·.2.kind ≠ "table")
      out := out.push "ok"
    | none =>
      let st := match cur with
        | some st => st
        | none => mkSt raw
      let r := runQuery st pool l
      cur := some r.2.1
      pool := r.2.2
      out := out.push r.1
      if r.1 = "panic" || r.1 = "hang" then dead := true
  return out.toList

end AlgoVerif.C10.Driver
